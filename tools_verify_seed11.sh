#!/bin/bash
# Verify eleventh-round sub-agent seeds (/tmp/seed11/Cxx): scratch worktree at /repo HEAD; demo passes clean, tests pass + demo fails with the patch.
for id in "$@"; do
  dir=/tmp/seed11/$id
  p=$dir/patch.diff; dm=$dir/demo.py
  [ -f $p ] && [ -f $dm ] || { echo "$id missing files"; continue; }
  wt=/tmp/wtv/$id
  rm -rf $wt; mkdir -p /tmp/wtv
  git -C /repo worktree add --detach $wt HEAD >/dev/null 2>&1
  ( cd $wt
    VALIANT_ROOT=$wt PYTHONPATH=$wt/src timeout 900 /venv/bin/python $dm >/tmp/wtv/$id.clean.log 2>&1; clean=$?
    if git apply $p 2>/dev/null; then applied=yes; else applied=no; fi
    tests=$(PYTHONPATH=$wt/src /venv/bin/python -m pytest -q -p no:cacheprovider 2>&1 | tail -1)
    VALIANT_ROOT=$wt PYTHONPATH=$wt/src timeout 900 /venv/bin/python $dm >/tmp/wtv/$id.patched.log 2>&1; patched=$?
    echo "$id applied=$applied clean_rc=$clean patched_rc=$patched tests='$tests' files=$(git diff --stat | tail -1)"
  )
  git -C /repo worktree remove --force $wt
done
