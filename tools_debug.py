import sys, importlib, collections, json
sys.path.insert(0,'/verif')
from harness import common, runner
common.use_repo()
prop=sys.argv[1]; tier=sys.argv[2] if len(sys.argv)>2 else 'quick'
b=runner.build()
print('build ok', b['ok'], b.get('errors'))
ctx=runner.Ctx(prop,tier,common.seed(),b)
mod=importlib.import_module(f'harness.props.{prop.lower()}')
ctx.matchers=getattr(mod,'MATCHERS',{})
mod.run(ctx)
c=collections.Counter()
ex={}
for v in ctx.violations:
    k=(v['kind'], v['what'].split(':')[0][:60]); c[k]+=v['count']; ex.setdefault(k,v)
for k,n in c.most_common(): print(n,k,'\n    ',ex[k]['what'][:400])
print('known hits',ctx.known_hits,'corr',ctx.corr,'evals',ctx.evaluations,'wall',ctx.t.s())
print('nontrivial', len(ctx.nontrivial), 'dist', dict(ctx.dist), 'controls', ctx.controls)
