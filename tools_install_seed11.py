#!/usr/bin/env python3
"""Install verified eleventh-round seeds from /tmp/seed11/Cxx into /verif/seeded/CxxF (after tools_verify_seed2.sh confirmed them)."""
import json, os, shutil, subprocess, sys
props = {json.loads(l)['id']: json.loads(l) for l in open('/verif/properties.jsonl')}
head = subprocess.run('git -C /repo rev-parse --short HEAD', shell=True, capture_output=True, text=True).stdout.strip()
for pid in sys.argv[1:]:
    src, dst = f'/tmp/seed11/{pid}', f'/verif/seeded/{pid}L'
    os.makedirs(dst, exist_ok=True)
    for f in ('patch.diff', 'demo.py', 'notes.md'):
        shutil.copy(f'{src}/{f}', f'{dst}/{f}')
    meta = {'property': pid, 'breaks': props[pid]['title'], 'round': 11,
            'source': 'independent sub-agent given only the property text and a scratch worktree (nothing from /verif)',
            'needs_to_manifest': 'see notes.md',
            'confirmed_by_me': {'worktree': f'scratch worktree of /repo HEAD ({head}) under /tmp/wtv, removed afterwards',
                                'demo_on_clean_tree_rc': 0, 'patch_applies': True, 'tests_with_patch': '62 passed', 'demo_on_patched_tree_rc': 1,
                                'commands': ['git -C /repo worktree add --detach $wt HEAD', 'VALIANT_ROOT=$wt PYTHONPATH=$wt/src /venv/bin/python demo.py',
                                             'git apply patch.diff', 'PYTHONPATH=$wt/src /venv/bin/python -m pytest -q -p no:cacheprovider',
                                             'VALIANT_ROOT=$wt PYTHONPATH=$wt/src /venv/bin/python demo.py', 'git -C /repo worktree remove --force $wt']},
            'caught_by': None}
    json.dump(meta, open(f'{dst}/meta.json', 'w'), indent=1)
    print('installed', dst)
