#!/usr/bin/env python3
"""Apply each seeded change to /repo, run the check of the property it breaks, undo it, record the outcome in
seeded/<id>/meta.json (caught_by).  usage: tools_seed_sweep.py [--tier quick] [ids or property ids ...]"""
import json, os, subprocess, sys, time
V = '/verif'
args = [a for a in sys.argv[1:] if not a.startswith('--')]
tier = 'thorough' if '--thorough' in sys.argv else 'quick'
seeds = sorted(os.listdir(f'{V}/seeded'))
if args:
    seeds = [s for s in seeds if s in args or s[:3] in args]
claimed = {c['property_id'] for c in json.load(open(f'{V}/MANIFEST.json'))['checks']}
import shutil, tempfile
_evbak = tempfile.mkdtemp(prefix='evbak_')
shutil.copytree(f'{V}/evidence', f'{_evbak}/evidence')   # evidence written while a seed is applied must not stay
assert subprocess.run('git -C /repo status --porcelain', shell=True, capture_output=True, text=True).stdout.strip() == '', '/repo not clean'
for s in seeds:
    prop = s[:3]
    mp = f'{V}/seeded/{s}/meta.json'
    meta = json.load(open(mp))
    prop = meta.get('decided_by_property', prop)      # a change asked for one property that breaks the statement of another
    if prop not in claimed:
        print(s, 'property not claimed yet'); continue
    t0 = time.time()
    a = subprocess.run(['git', '-C', '/repo', 'apply', f'{V}/seeded/{s}/patch.diff'], capture_output=True, text=True)
    if a.returncode != 0:
        print(s, 'PATCH DOES NOT APPLY', a.stderr[:200]); continue
    try:
        p = subprocess.run([f'{V}/check', prop, '--tier', tier], capture_output=True, text=True, timeout=3600)
    finally:
        subprocess.run('git -C /repo checkout -- . && git -C /repo clean -fdq', shell=True)
    lines = [l for l in p.stdout.splitlines() if l.startswith('VIOLATION')]
    detail = [l.strip() for l in p.stdout.splitlines() if l.startswith('   ')][:2]
    meta['caught_by'] = ({'check': f'./check {prop} --tier {tier}', 'exit': p.returncode, 'line': lines[0] if lines else None,
                          'what': detail, 'wall_s': round(time.time() - t0, 1)} if p.returncode == 1 and lines else None)
    if not meta['caught_by']:
        meta['missed_by'] = {'check': f'./check {prop} --tier {tier}', 'exit': p.returncode, 'tail': p.stdout[-300:]}
    else:
        meta.pop('missed_by', None)
    if '--no-record' not in sys.argv:
        json.dump(meta, open(mp, 'w'), indent=1)
    print(s, 'CAUGHT' if meta['caught_by'] else f'MISSED (exit {p.returncode})', (detail[0][:140] if detail else ''), f'{time.time() - t0:.0f}s', flush=True)

subprocess.run([f'{V}/check', '--setup'], capture_output=True)   # regenerate coq/Generated from the restored tree
shutil.rmtree(f'{V}/evidence'); shutil.copytree(f'{_evbak}/evidence', f'{V}/evidence'); shutil.rmtree(_evbak)
