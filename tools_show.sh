#!/bin/bash
# usage: tools_show.sh FILE LINE  - print the goal just before LINE of a Coq file (relative to /verif/coq)
f=$1; n=$2
head -n $((n-1)) /verif/coq/$f > /tmp/cq/show.v
echo "Show." >> /tmp/cq/show.v
cd /tmp/cq && coqc -Q /verif/coq VV show.v 2>&1 | head -${3:-60}
