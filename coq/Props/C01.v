(* C01 - every oligonucleotide is the targeton template with exactly its mutation applied. *)
From VV Require Import Model.Base Model.Pattern Model.Seq Model.Vcf Model.Mave Model.Gpo Model.ToCsv
  Proofs.BaseLemmas Proofs.VcfProofs Proofs.RowProofs Model.PyLoop Generated.KernelsDnaStr Proofs.KernelDnaStrEquiv.

(* the row law (OligoSeq.from_ref / Seq.alter): the oligo is the template with the bases REF at the variant's
   template position replaced by ALT - for substitutions and deletions ... *)
Theorem C01_alter_replace : forall q pos ref alt,
  ref <> [] -> s_start q <= pos -> pos - s_start q + zlen ref <= s_len q -> 0 <= pos ->
  alter q (mkVar pos ref alt) = Ok (replaced q pos ref alt).
Proof. exact alter_replace. Qed.

(* ... and for insertions (before the base at pos, or appended after the last base) *)
Theorem C01_alter_insert : forall q pos alt,
  s_start q <= pos -> pos - s_start q <= s_len q -> 0 <= pos ->
  alter q (mkVar pos [] alt) = Ok (zfirstn (pos - s_start q) (s_bases q) ++ alt ++ zskipn (pos - s_start q) (s_bases q)).
Proof. exact alter_insert. Qed.

(* mseq_no_adapt is that oligo, reverse-complemented only when reverse complementing of minus-strand targets applies;
   mseq is it between the 5' and 3' adaptors; oligo_length is the length of mseq; inclusion is min <= length <= max *)
Theorem C01_row_sequence_fields : forall c mr o, row_out c mr = Ok o ->
  o_no_adapt o = (if cx_rc c then revcomp (mr_oligo mr) else mr_oligo mr) /\
  o_oligo o = cx_a5 c ++ o_no_adapt o ++ cx_a3 c /\
  o_len o = zlen (o_oligo o) /\
  o_included o = negb (o_len o <? cx_min c) && negb (cx_max c <? o_len o).
Proof. exact row_sequence_fields. Qed.

(* `ref` is the template's content at the mutated position *)
Theorem C01_row_ref_is_template : forall c mr o, row_out c mr = Ok o ->
  (mr_ref mr = [] -> o_pam_ref o = []) /\
  (mr_ref mr <> [] -> psubstr (cx_alt c) (mr_alt_pos mr) (mr_end mr) = Ok (o_pam_ref o)).
Proof. exact row_ref_is_template. Qed.

(* the orientation can be undone: reverse complementing twice is the identity *)
Theorem C01_revcomp_involutive : forall s, revcomp (revcomp s) = s.
Proof. exact revcomp_involutive. Qed.

(* non-vacuity: README 1del example shape - deleting A at 105 of a template starting at 100 *)
Example C01_example : alter (mkSeq 100 (d "ACGTTAGCA")) (mkVar 105 (d "A") []) = Ok (d "ACGTTGCA").
Proof. vm_compute. reflexivity. Qed.

(* the two splices alter is made of - DnaStr.replace_substr (the slices self[:start] and self[end + 1:] around the new text, inside an f-string)
   and DnaStr.insert_substr (insert before an offset, or append) - translated from strings/dna_str.py on every run, are the model's, for every
   range a UIntRange can be and every offset, their assertion and ValueError included (a `str` argument is read as DNA text, which is what
   the callers pass; the DnaStr constructor would refuse anything else) *)
Theorem C01_splices_match_source : forall s r off alt,
  (range_valid r = true -> k_dna_replace_substr s r alt = replace_substr s (rs r) (re r) alt) /\
  k_dna_insert_substr s off alt = insert_substr s off alt.
Proof. intros s r off alt. exact (conj (k_dna_replace_substr_eq s r alt) (k_dna_insert_substr_eq s off alt)). Qed.

(* the whole way from a variant to the altered sequence - alter_seq, Seq.alter (its assertion on insertions, dataclasses.replace of the text),
   Seq.replace_substr / insert_substr in absolute coordinates, Variant.ref_range / type / is_insertion - translated on every run, is the
   model's alter for every sequence and every variant that has a REF or an ALT: the row law above (C01_alter_replace, C01_alter_insert) is a
   statement about oligo_seq.py, seq.py, strings/dna_str.py and variant.py as they stand *)
Theorem C01_alter_matches_source : forall q v, v_ref v <> [] \/ v_alt v <> [] ->
  k_alter_seq q v = match alter q v with Ok s => Ok (mkSeq (s_start q) s) | Err e => Err e end.
Proof. exact k_alter_seq_eq. Qed.

Print Assumptions C01_alter_replace.
Print Assumptions C01_alter_insert.
Print Assumptions C01_row_sequence_fields.
Print Assumptions C01_row_ref_is_template.
Print Assumptions C01_revcomp_involutive.
Print Assumptions C01_splices_match_source.
Print Assumptions C01_alter_matches_source.
