(* C07 - PAM protection edits are applied and annotated exactly as requested. *)
From VV Require Import Model.Base Model.Pattern Model.Gpo Model.Views Spec.LiftSpec Proofs.ViewsProofs Proofs.PamSeqProofs Proofs.ViewsSgrnaProofs
  Model.CodonTable Model.Transcript Model.PpeSeq Model.PamAnnot Proofs.AnnotWalkProofs Proofs.PpeSeqProofs Proofs.PamAnnotProofs Proofs.GpoTop Model.PamSeqBg Proofs.PpeSeqBgProofs Proofs.PamAnnotBgProofs.

(* pam_seq carries the ALT base at the positions of the applied edits (those that get_ppe_seq hands to apply_variants:
   listed sgRNA, inside the targeton, sorted by position) and the background base everywhere else *)
Theorem C07_pam_seq_exact : forall vs start ref p,
  snvs start (start + zlen ref - 1) vs -> start <= p < start + zlen ref ->
  znth (p - start) (splice start ref vs) = match edit_at vs p with Some x => Some x | None => znth (p - start) ref end.
Proof. exact pam_seq_exact. Qed.

Theorem C07_ppe_seq_is_splice : forall start ref vs,
  snvs start (start + zlen ref - 1) vs -> apply_variants start ref (zlen ref) vs = Ok (splice start ref vs).
Proof. exact ppe_seq_is_splice. Qed.

(* pam_mut_sgrna_id: given at most one registered edit per codon slot (the primary key of targeton_exon_codon_ppes) and
   contiguous codon slots, the range filter of v_meta [ifnull(start-codon edit, start), ifnull(end-codon edit, end)]
   selects exactly the edits spanned by the mutation or sharing a codon slot with its first or last base *)
Theorem C07_sql_range_filter_is_spec : forall (S : Type) (slot : Z -> option S) (ps : list Z) (start end_ : Z) (sp ep : option Z),
  (forall p q r, p <= q <= r -> slot p = slot r -> slot p <> None -> slot q = slot p) ->
  (forall x y, In x ps -> In y ps -> slot x = slot y -> slot x <> None -> x = y) ->
  (forall x, sp = Some x <-> In x ps /\ slot x = slot start /\ slot start <> None) ->
  (forall x, ep = Some x <-> In x ps /\ slot x = slot end_ /\ slot end_ <> None) ->
  start <= end_ ->
  forall x, In x ps -> (lo start sp <= x <= hi end_ ep <-> selected S slot start end_ x).
Proof. exact range_filter_is_spec. Qed.

(* the codon slots (exon index, abs(pos - first_codon_start) / 3) of a well-formed exon table are contiguous *)
Theorem C07_slots_contiguous : forall exons, exons_wf exons ->
  forall p q r, p <= q <= r -> slot_of exons p = slot_of exons r -> slot_of exons p <> None -> slot_of exons q = slot_of exons p.
Proof. exact slots_contiguous. Qed.

(* composed on the model of the tables and of v_meta: whenever sql_insert_exon_codon_ppes succeeds on the edits applied to the targeton
   (well-formed exon table; exons.id and the edit id are primary keys), pam_mut_sgrna_id of a mutation at [start, start+len-1] lists
   exactly the distinct sgRNA ids of the applied edits spanned by the mutation or sharing a codon slot with its first or last base *)
Theorem C07_sgrna_ids_exact : forall exons ts ecps,
  exons_wf exons ->
  (forall e1 e2, In e1 exons -> In e2 exons -> e_id e1 = e_id e2 -> e1 = e2) ->
  (forall t1 t2, In t1 ts -> In t2 ts -> tp_id t1 = tp_id t2 -> t1 = t2) ->
  insert_ecps exons ts [] = Ok ecps ->
  forall start len id,
    let j := v_meta_join exons ts ecps start len in
    In id (j_sgrna_ids j) <->
    exists t, In t ts /\ tp_sgrna t = id /\ selected _ (slot_of exons) start (j_ref_end j) (tp_start t).
Proof. exact v_meta_sgrna_ids_spec. Qed.

(* the primary key of targeton_exon_codon_ppes: a successful insert means no two applied edits share a codon slot *)
Theorem C07_one_edit_per_codon_slot : forall exons ts ecps,
  exons_wf exons -> insert_ecps exons ts [] = Ok ecps ->
  forall x y, In x (map tp_start ts) -> In y (map tp_start ts) -> slot_of exons x = slot_of exons y -> slot_of exons x <> None -> x = y.
Proof. exact pk_positions. Qed.

Example C07_sgrna_ids_example :
  let exons := [mkExon 1 10 18 0 10; mkExon 2 30 38 1 30] in
  let ts := [mkTppe 1 12 12 "sgA"; mkTppe 2 17 17 "sgA"; mkTppe 3 31 31 "sgB"] in
  match insert_ecps exons ts [] with
  | Ok ecps => j_sgrna_ids (v_meta_join exons ts ecps 10 1) = ["sgA"]%string /\
               j_sgrna_ids (v_meta_join exons ts ecps 13 1) = [] /\
               j_sgrna_ids (v_meta_join exons ts ecps 14 20) = ["sgA"; "sgB"]%string
  | Err _ => False
  end.
Proof. exact sgrna_ids_example. Qed.

Print Assumptions C07_pam_seq_exact.
Print Assumptions C07_ppe_seq_is_splice.
Print Assumptions C07_sql_range_filter_is_spec.
Print Assumptions C07_slots_contiguous.
Print Assumptions C07_sgrna_ids_exact.
Print Assumptions C07_one_edit_per_codon_slot.

(* ---- which edits are applied: get_ppe_seq over the whole context ---- *)

(* of the single-nucleotide edits of the targeton's guides (distinct positions: duplicates are refused before), exactly those
   inside the targeton are applied to the context sequence; at every other position of the context - in particular at the
   position of an edit of one of those guides outside the targeton - the sequence is unchanged, so a codon completed from
   outside the targeton is read from the unedited template *)
Theorem C07_edits_applied_exactly_inside_targeton : forall start ctx tr ppes,
  (forall v, In v ppes -> is_snv v) -> NoDup (map v_pos ppes) ->
  start <= rs tr -> re tr <= start + zlen ctx - 1 ->
  exists s, ppe_seq start ctx tr ppes = Ok s /\ zlen s = zlen ctx /\
    forall p, start <= p < start + zlen ctx ->
      znth (p - start) s = match (if in_range p tr then edit_at ppes p else None) with
                           | Some x => Some x | None => znth (p - start) ctx end.
Proof. exact ppe_seq_exact. Qed.

(* the same under background variants: the edits of the targeton's guides are first moved to background coordinates (a position with no
   image refuses: C15); the edit of position p is then found at its image r2a p when that image lies inside the lifted targeton, and every
   other base of the background context is unchanged *)
Theorem C07_edits_applied_under_background : forall g r vs, 0 < rs r -> wf (rs r) (re r) vs -> gpo_for g r vs ->
  forall start ctx_bg tr_alt ppes,
  in_ctx r ppes -> (forall v, In v ppes -> is_snv v) -> NoDup (map v_pos ppes) ->
  (forall v, In v ppes -> deleted vs (v_pos v) = false) ->
  start <= rs tr_alt -> re tr_alt <= start + zlen ctx_bg - 1 ->
  exists l s, lift_ppes g ppes = Ok l /\ ppe_seq_bg g start ctx_bg tr_alt ppes = Ok s /\ zlen s = zlen ctx_bg /\
    Forall2 (fun v w => r2a vs (v_pos v) = Some (v_pos w) /\ v_ref w = v_ref v /\ v_alt w = v_alt v) ppes l /\
    forall q, start <= q < start + zlen ctx_bg ->
      znth (q - start) s = match (if in_range q tr_alt then edit_at l q else None) with
                           | Some x => Some x | None => znth (q - start) ctx_bg end.
Proof. exact ppe_seq_bg_exact. Qed.

(* ---- pam_mut_annot (Targeton.get_ppe_mut_types), without background variants ---- *)

(* the codon of an applied edit is read at the same three positions of the coding walk - completed across exon junctions,
   C04_ext_positions_are_codon_walk - in the reference and in the PAM-protected sequence; the edited position is one of
   them; the annotation is the change between the two translations *)
Theorem C07_pam_annot_is_walk_translation : forall tb t q_ref q_alt p m,
  ppe_mut_type tb t t q_ref q_alt p p = Ok m -> covers q_ref t -> covers q_alt t ->
  exists e r cr ca a_ref a_alt,
    exon_at_pos t p = Some e /\ exon_get_codon_at (t_strand t) e p = Ok (Some r) /\
    get_cds_seq_exon t q_ref e r = Ok cr /\ get_cds_seq_exon t q_alt e r = Ok ca /\
    let W := walk_segment cr r in
    zlen W = 3 /\ In p W /\
    seq_get_at q_ref W = Ok (c_ext cr) /\ seq_get_at q_alt W = Ok (c_ext ca) /\
    translate tb (c_ext cr) = Ok a_ref /\ translate tb (c_ext ca) = Ok a_alt /\
    m = aa_change a_ref a_alt.
Proof. exact pam_annot_is_walk_translation. Qed.

(* the same under background variants: the reference codon is read in the annotated transcript on the reference at the edit's reference position,
   the protected codon in the lifted transcript on the background sequence at its background position - each at three positions of its own
   coding walk that hold the position - and the annotation is the change between the two translations *)
Theorem C07_pam_annot_under_background : forall tb t_ref t_alt q_ref q_alt p_ref p_alt m,
  ppe_mut_type tb t_ref t_alt q_ref q_alt p_ref p_alt = Ok m -> covers q_ref t_ref -> covers q_alt t_alt ->
  exists e_r r_r c_r e_a r_a c_a a_ref a_alt,
    exon_at_pos t_ref p_ref = Some e_r /\ exon_get_codon_at (t_strand t_ref) e_r p_ref = Ok (Some r_r) /\ get_cds_seq_exon t_ref q_ref e_r r_r = Ok c_r /\
    exon_at_pos t_alt p_alt = Some e_a /\ exon_get_codon_at (t_strand t_alt) e_a p_alt = Ok (Some r_a) /\ get_cds_seq_exon t_alt q_alt e_a r_a = Ok c_a /\
    zlen (walk_segment c_r r_r) = 3 /\ In p_ref (walk_segment c_r r_r) /\ seq_get_at q_ref (walk_segment c_r r_r) = Ok (c_ext c_r) /\
    zlen (walk_segment c_a r_a) = 3 /\ In p_alt (walk_segment c_a r_a) /\ seq_get_at q_alt (walk_segment c_a r_a) = Ok (c_ext c_a) /\
    translate tb (c_ext c_r) = Ok a_ref /\ translate tb (c_ext c_a) = Ok a_alt /\ m = aa_change a_ref a_alt.
Proof. exact pam_annot_bg_is_walk_translation. Qed.

Example C07_pam_annot_example :
  ppe_mut_types true ex_tb ex_t ex_t ex_ref ex_alt1 [(21, 21)] = Ok [Syn] /\
  ppe_mut_types true ex_tb ex_t ex_t ex_ref ex_alt2 [(20, 20)] = Ok [Mis] /\
  ppe_mut_types false ex_tb ex_t ex_t ex_ref ex_alt2 [(20, 20)] = Ok [] /\
  covers ex_ref ex_t.
Proof. exact pam_annot_example. Qed.

Print Assumptions C07_edits_applied_exactly_inside_targeton.
Print Assumptions C07_pam_annot_is_walk_translation.
Print Assumptions C07_pam_annot_example.
Print Assumptions C07_edits_applied_under_background.
Print Assumptions C07_pam_annot_under_background.
