(* C07 - PAM protection edits are applied and annotated exactly as requested. *)
From VV Require Import Model.Base Model.Pattern Model.Gpo Model.Views Spec.LiftSpec Proofs.ViewsProofs Proofs.PamSeqProofs.

(* pam_seq carries the ALT base at the positions of the applied edits (those that get_ppe_seq hands to apply_variants:
   listed sgRNA, inside the targeton, sorted by position) and the background base everywhere else *)
Theorem C07_pam_seq_exact : forall vs start ref p,
  snvs start (start + zlen ref - 1) vs -> start <= p < start + zlen ref ->
  znth (p - start) (splice start ref vs) = match edit_at vs p with Some x => Some x | None => znth (p - start) ref end.
Proof. exact pam_seq_exact. Qed.

Theorem C07_ppe_seq_is_splice : forall start ref vs,
  snvs start (start + zlen ref - 1) vs -> apply_variants start ref (zlen ref) vs = Ok (splice start ref vs).
Proof. exact ppe_seq_is_splice. Qed.

(* pam_mut_sgrna_id: given at most one registered edit per codon slot (the primary key of targeton_exon_codon_ppes) and
   contiguous codon slots, the range filter of v_meta [ifnull(start-codon edit, start), ifnull(end-codon edit, end)]
   selects exactly the edits spanned by the mutation or sharing a codon slot with its first or last base *)
Theorem C07_sql_range_filter_is_spec : forall (S : Type) (slot : Z -> option S) (ps : list Z) (start end_ : Z) (sp ep : option Z),
  (forall p q r, p <= q <= r -> slot p = slot r -> slot p <> None -> slot q = slot p) ->
  (forall x y, In x ps -> In y ps -> slot x = slot y -> slot x <> None -> x = y) ->
  (forall x, sp = Some x <-> In x ps /\ slot x = slot start /\ slot start <> None) ->
  (forall x, ep = Some x <-> In x ps /\ slot x = slot end_ /\ slot end_ <> None) ->
  start <= end_ ->
  forall x, In x ps -> (lo start sp <= x <= hi end_ ep <-> selected S slot start end_ x).
Proof. exact range_filter_is_spec. Qed.

(* the codon slots (exon index, abs(pos - first_codon_start) / 3) of a well-formed exon table are contiguous *)
Theorem C07_slots_contiguous : forall exons, exons_wf exons ->
  forall p q r, p <= q <= r -> slot_of exons p = slot_of exons r -> slot_of exons p <> None -> slot_of exons q = slot_of exons p.
Proof. exact slots_contiguous. Qed.

Print Assumptions C07_pam_seq_exact.
Print Assumptions C07_ppe_seq_is_splice.
Print Assumptions C07_sql_range_filter_is_spec.
Print Assumptions C07_slots_contiguous.
