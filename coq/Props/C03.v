(* C03 - codon-level mutators act on exactly the in-frame codons inside the region.
   Only statements, closed by `exact`, and their assumptions. *)
From VV Require Import Model.Base Model.Pattern Model.Seq Model.CodonTable Model.Transcript Model.Mutators
  Spec.PatternSpec Spec.CodonSpec Spec.RegionSpec Proofs.CodonTableProofs Proofs.CodonProofs Proofs.RegionProofs Generated.DefaultTable Generated.KernelsFrame Proofs.KernelFrameEquiv Generated.KernelsLift Proofs.KernelLiftEquiv Model.MutatorsGlue Model.Cdna Proofs.CdnaProofs Model.LiftExons Proofs.LiftExonsProofs Model.Gtf Proofs.GtfProofs Generated.KernelsAnnot Proofs.KernelAnnotEquiv.

(* the codon windows produced for a region cut by Transcript._get_cds_seq are exactly the triplets of the annotated
   reading frame (strand-aware, from the GTF frame of the exon) whose three bases lie inside the region: every frame,
   both strands, any offset of the region in its exon, regions starting or ending mid-codon; nothing twice *)
Theorem C03_codon_windows_exact : forall t q e r c refs,
  get_cds_seq_exon t q e r = Ok c -> 0 <= rs r <= re r -> s_start q <= rs r -> re r - s_start q + 1 <= s_len q ->
  codon_refs c = Ok refs ->
  (forall p b, In (p, b) refs <-> is_region_codon (t_strand t) e r p /\ b = cds_bases_at c p 3) /\
  NoDup (map fst refs) /\ (forall p b, In (p, b) refs -> zlen b = 3).
Proof. exact codon_refs_exact. Qed.

(* inframe: every such codon is deleted *)
Theorem C03_inframe_exact : forall c refs,
  codon_refs c = Ok refs -> (forall p b, In (p, b) refs -> zlen b = 3) ->
  inframe_variants c = Ok (map (fun sr => mkVar (fst sr) (snd sr) []) refs).
Proof. exact inframe_exact. Qed.

(* ala / stop: replaced by the top-ranked codon of the amino acid unless already equal
   (top-ranked = minimal rank: C17_top_is_min_rank) *)
Theorem C03_top_replacement_exact : forall t c refs a top vs,
  codon_refs c = Ok refs -> (forall p b, In (p, b) refs -> zlen b = 3) -> get_top_codon t a = Ok top ->
  (do top <- get_top_codon t a; codon_replacements c top) = Ok vs ->
  forall v, In v vs <-> exists p b, In (p, b) refs /\ b <> top /\ v = mkVar p b top.
Proof. exact top_replacement_exact. Qed.

(* aa: the top-ranked codon of every amino acid of the table other than the current one and STOP *)
Theorem C03_aa_exact : forall t c refs vs,
  codon_refs c = Ok refs -> (forall p b, In (p, b) refs -> zlen b = 3) -> aa_variants t c = Ok vs ->
  forall v, In v vs <->
    exists p b a0 a, In (p, b) refs /\ translate t b = Ok a0 /\
                     In a (aas_of t) /\ a <> STOP /\ a <> a0 /\ get_top_codon t a = Ok (v_alt v) /\
                     v_pos v = p /\ v_ref v = b.
Proof. exact aa_exact. Qed.

(* snvre, per SNV: exactly the documented rule (never the reference or the SNV codon) *)
Theorem C03_snvre_rule_exact : forall t a alts,
  translate t (a_codon_ref a) = Ok (a_aa_ref a) -> translate t (a_codon_alt a) = Ok (a_aa_alt a) ->
  snvre_alts t a = Ok alts ->
  forall x, In x alts <-> snvre_rule t (a_codon_ref a) (a_codon_alt a) x.
Proof. exact snvre_alts_exact. Qed.

(* snvre, per region: the union over the annotated SNVs of the region whose codon starts early enough, no row twice *)
Theorem C03_snvre_rows_exact : forall t c snvs vs,
  snv_annots t c "snv"%string = Ok snvs -> snvre_variants t c = Ok vs ->
  (forall v, In v vs <->
     exists a alts, In a snvs /\ snvre_alts t a = Ok alts /\ In (v_alt v) alts /\
                    v_pos v = a_codon_start a /\ v_ref v = a_codon_ref a /\ a_codon_start a <= c_end c - 2) /\
  NoDup vs.
Proof. exact snvre_variants_exact. Qed.

(* every codon-level row lies inside its region (get_vars_in_region drops none of them) *)
Theorem C03_codon_rows_in_region : forall s e r p b alt,
  is_region_codon s e r p -> zlen b = 3 -> in_region r (mkVar p b alt) = true.
Proof. exact codon_rows_in_region. Qed.

(* snvre, per region, against the annotated frame: the rows kept by get_vars_in_region are exactly the whole-codon replacements,
   at an in-frame codon lying inside the region, that the SNVRE rule allows for one of the nine SNVs of that codon.
   (Rows for a codon that only partly lies in the region are generated but dropped: `in_region`.) *)
Theorem C03_snvre_region_exact : forall tr tb q e r c vs,
  get_cds_seq_exon tr q e r = Ok c -> 0 <= rs r <= re r -> s_start q <= rs r -> re r - s_start q + 1 <= s_len q ->
  snvre_variants tb c = Ok vs ->
  forall v, (In v vs /\ in_region r v = true) <-> is_snvre_row tb (t_strand tr) e r c v.
Proof. exact snvre_region_exact. Qed.

(* the whole region: a (label, mutation) pair is among the rows emitted for a coding region and kept by get_vars_in_region
   iff a configured mutator (snvre brings snv with it) has that label and the mutation is one of its documented rows
   (Spec.RegionSpec.row_spec) lying inside the region: nothing missing, nothing extra, for every mutator combination *)
Theorem C03_region_rows_exact : forall tr tb q e r c ms plain annotated,
  get_cds_seq_exon tr q e r = Ok c -> 0 <= rs r <= re r -> s_start q <= rs r -> re r - s_start q + 1 <= s_len q ->
  (forall k, In k ms -> kind_wf k) ->
  region_variants_cds tb c ms = Ok (plain, annotated) ->
  forall lbl v, row_of (keep_in_region r (plain ++ annotated)) lbl v <->
    exists k, In k (with_dependents ms) /\ label_of k = lbl /\ row_spec tb (t_strand tr) e r c k v /\ in_region r v = true.
Proof. exact region_rows_exact. Qed.

(* for the codon-level mutators the side condition `in_region` is implied *)
Theorem C03_codon_row_in_region : forall tr q e r c v,
  get_cds_seq_exon tr q e r = Ok c -> s_start q <= rs r -> re r - s_start q + 1 <= s_len q ->
  codon_row (t_strand tr) e r c v -> in_region r v = true.
Proof. exact codon_row_in_region. Qed.

(* non-vacuity: the same minus-strand region with every codon-level mutator configured yields rows of each kind *)
Example C03_region_example :
  let tr := mkTr Minus [mkEx 10 19 1 1; mkEx 30 37 0 0] in
  let q := mkSeq 1 (d "ACGTACGTAGGCTTAACCGGATATATTTGCAGCATGCAAAA") in
  match get_cds_seq_exon tr q (mkEx 10 19 1 1) (mkRange 12 18) with
  | Ok c => match region_variants_cds (from_list default_rows true) c [MSnvRe; MInframe; MAla; MStop; MAa; MDelK 2 0] with
            | Ok (plain, annotated) => (length plain >= 5 /\ length annotated >= 60)%nat
            | Err _ => False
            end
  | Err _ => False
  end.
Proof. vm_compute. lia. Qed.

(* minus strand: lookups in the reverse-complemented table are the reverse complements of the lookups in the
   plain table, i.e. alternative codons are reported in genomic plus-strand orientation *)
Theorem C03_minus_strand_orientation : forall rows a c,
  translate (from_list rows true) (revcomp c) = translate (from_list rows false) c /\
  get_top_codon (from_list rows true) a = map_res revcomp (get_top_codon (from_list rows false) a) /\
  get_second_best_codon (from_list rows true) a = map_res (option_map revcomp) (get_second_best_codon (from_list rows false) a).
Proof. exact rc_table_transport. Qed.

(* these mutators never yield output for a non-coding region *)
Theorem C03_noncoding_refused : forall q ms k,
  In k ms -> is_cds_kind k = true -> region_variants_noncds q ms = Err ValueError.
Proof. exact cds_mutators_refused_noncoding. Qed.

(* non-vacuity: a 2-exon minus-strand transcript, region [12,18] in the exon [10,19] of frame 1 *)
Example C03_example :
  let tr := mkTr Minus [mkEx 10 19 1 1; mkEx 30 37 0 0] in
  let q := mkSeq 1 (d "ACGTACGTAGGCTTAACCGGATATATTTGCAGCATGCAAAA") in
  match get_cds_seq_exon tr q (mkEx 10 19 1 1) (mkRange 12 18) with
  | Ok c => codon_refs c = Ok [(13, d "TTA"); (16, d "ACC")]
  | Err _ => False
  end.
Proof. vm_compute. reflexivity. Qed.

(* translation validation: the frame arithmetic of utils.py / exon.py / transcript.py, translated from the source on every run,
   is the model's for all inputs *)
Theorem C03_frame_arithmetic_matches_source :
  (forall o, k_codon_offset_complement o = compl_offset o) /\
  (forall f l, k_cds_ext_3_length f l = Ok (cds_ext_3_length f l)) /\
  (forall e, k_exon_cds_prefix_length e = cds_prefix_length e) /\
  (forall e, k_exon_cds_suffix_length e = cds_suffix_length e) /\
  (forall e, k_exon_next_exon_frame e = cds_suffix_length e) /\
  (forall s e r, k_get_range_cds_exts s e r = range_cds_exts s e r).
Proof. exact (conj k_codon_offset_complement_eq (conj k_cds_ext_3_length_eq (conj k_exon_cds_prefix_length_eq (conj k_exon_cds_suffix_length_eq
  (conj k_exon_next_exon_frame_eq k_get_range_cds_exts_eq))))). Qed.

(* the codon of an exon (Exon.get_codon / get_codon_at: origin from the frame, the triplet of that index, clamped to the exon, 1-3 bases),
   translated from exon.py on every run, is the model's - for any exon with 0 <= start <= end *)
Theorem C03_exon_codon_matches_source : forall e s,
  range_valid (x_range e) = true ->
  (forall ci, k_exon_get_codon e s ci = exon_get_codon s e ci) /\ (forall pos, k_exon_get_codon_at e s pos = exon_get_codon_at s e pos).
Proof. intros e s V. split; [intros ci; exact (k_exon_get_codon_eq e s ci V) | intros pos; exact (k_exon_get_codon_at_eq e s pos V)]. Qed.

(* the clamping of a codon to its exon (UIntRange.overlaps / intersect, used by Exon.get_codon and the transcript walk), translated
   from uint_range.py on every run, is the model's *)
Theorem C03_range_clamp_matches_source : forall a b,
  k_range_overlaps a b = Ok (overlaps a b) /\
  (range_valid a = true -> range_valid b = true -> k_range_intersect a b = Ok (intersect a b)).
Proof. intros a b. exact (conj (k_range_overlaps_eq a b) (k_range_intersect_eq a b)). Qed.

(* cDNA mode: a region 2 inside the annotated CDS is designed as the coding region of the one-exon transcript (exon 0, frame 0,
   plus strand) - C03_region_rows_exact applies to it as it stands; a region that does not touch the CDS (or a sequence without
   one) is designed as non-coding *)
Theorem C03_cdna_coding_region : forall tb c q r ms,
  rs r <= re r -> range_in r c = true ->
  cdna_region_rows tb (Some c) q r ms = region_rows tb (mkTr Plus [mkEx (rs c) (re c) 0 0]) q (Some 0) r ms /\
  get_exon (mkTr Plus [mkEx (rs c) (re c) 0 0]) 0 = Ok (mkEx (rs c) (re c) 0 0).
Proof. exact cdna_coding_region. Qed.

Theorem C03_cdna_noncoding_region : forall tb cds q r ms,
  match cds with Some c => overlaps r c = false | None => True end ->
  cdna_region_rows tb cds q r ms =
  (do b <- substr q r; do rows <- region_variants_noncds (mkSeq (rs r) b) ms;
   Ok (map canon (keep_in_region r (fst rows) ++ keep_in_region r (snd rows)))).
Proof. exact cdna_noncoding_region. Qed.

(* from the annotation file to the exons (loaders/gtf.cds_features_to_exons): with the CDS features of the transcript in ascending order,
   on the plus strand they are numbered as they stand and the stop codon is added to the last one; on the minus strand they are numbered
   from the last one backwards, the stop codon is added below the first one, and the exons are returned in ascending order *)
Theorem C03_gtf_exons_plus : forall cds, cds <> [] -> cds_ascending cds ->
  cds_to_exons Plus cds = number_exons 0 (add_stop true cds).
Proof. exact cds_to_exons_plus. Qed.

Theorem C03_gtf_exons_minus : forall f cds, cds_ascending (f :: cds) ->
  cds_to_exons Minus (f :: cds) = (do l <- number_exons 0 (rev cds ++ [with_stop false f]); Ok (rev l)).
Proof. exact cds_to_exons_minus. Qed.

Example C03_gtf_example :
  cds_to_exons Plus [mkCdsF 30 40 1; mkCdsF 10 20 0] = Ok [mkEx 10 20 0 0; mkEx 30 43 1 1] /\
  cds_to_exons Minus [mkCdsF 30 40 0; mkCdsF 10 20 2] = Ok [mkEx 7 20 1 2; mkEx 30 40 0 0] /\
  cds_ascending [mkCdsF 10 20 0; mkCdsF 30 40 1].
Proof. split; [vm_compute; reflexivity|]. split; [vm_compute; reflexivity|]. unfold cds_ascending; cbn; repeat split; try lia; intros x [<-|[]]; cbn; lia. Qed.

(* the in-frame part of a coding region the codon-level mutators window (CdsSeq.get_inner_cds_range, translated from cds_seq.py on every run;
   None when the region holds no complete codon - the case repaired in cae8953) is the model's, for every coding sequence *)
Theorem C03_inner_cds_range_matches_source : forall c, k_cds_inner_range c = inner_cds_range c.
Proof. exact k_cds_inner_range_eq. Qed.

Print Assumptions C03_codon_windows_exact.
Print Assumptions C03_inframe_exact.
Print Assumptions C03_top_replacement_exact.
Print Assumptions C03_aa_exact.
Print Assumptions C03_snvre_rule_exact.
Print Assumptions C03_snvre_rows_exact.
Print Assumptions C03_snvre_region_exact.
Print Assumptions C03_region_rows_exact.
Print Assumptions C03_codon_row_in_region.
Print Assumptions C03_codon_rows_in_region.
Print Assumptions C03_minus_strand_orientation.
Print Assumptions C03_noncoding_refused.
Print Assumptions C03_frame_arithmetic_matches_source.
Print Assumptions C03_range_clamp_matches_source.
Print Assumptions C03_cdna_coding_region.
Print Assumptions C03_cdna_noncoding_region.
Print Assumptions C03_gtf_exons_plus.
Print Assumptions C03_gtf_exons_minus.
Print Assumptions C03_gtf_example.
Print Assumptions C03_exon_codon_matches_source.
Print Assumptions C03_inner_cds_range_matches_source.
