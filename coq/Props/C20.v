(* C20 - metadata tables follow the documented schema and echo the run parameters.
   Finite checks over facts re-read from /repo's meta_table.py, vcf_writer.py and README.md on every run. *)
From Coq Require Import String List Bool.
Import ListNotations.
From VV Require Import Generated.MetaFields Proofs.SchemaProofs.

(* the header is the 32 documented column names in the documented order *)
Theorem C20_header_is_documented : strs_eqb meta_csv_fields readme_fields && Nat.eqb (length meta_csv_fields) 32 = true.
Proof. exact header_is_documented_check. Qed.

(* write_meta_record writes its 32 parameters, each exactly once, in signature order, followed by the line break, and
   the k-th parameter is the k-th documented column (so every record has 32 fields, in column order) *)
Theorem C20_record_field_order :
  strs_eqb write_order (writer_params ++ ["<newline>"%string]) && forall2b param_is_column writer_params meta_csv_fields = true.
Proof. exact record_field_order_check. Qed.

(* the no-op row forwards the targeton-level fields and uses -1 / empty / 0 for the mutation fields *)
Theorem C20_noop_row_shape : forall2b noop_arg_ok noop_args writer_params = true.
Proof. exact noop_row_check. Qed.

(* VCF files declare every SGE_* INFO tag they use, and these are the five documented tags *)
Theorem C20_vcf_header_declares :
  subset vcf_used_tags vcf_declared_tags && subset vcf_declared_tags readme_vcf_tags && subset readme_vcf_tags vcf_declared_tags = true.
Proof. exact vcf_tags_check. Qed.

Print Assumptions C20_header_is_documented.
Print Assumptions C20_record_field_order.
Print Assumptions C20_noop_row_shape.
Print Assumptions C20_vcf_header_declares.
