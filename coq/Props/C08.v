(* C08 - custom VCF variants are imported faithfully, whatever their VCF representation. *)
From VV Require Import Model.Base Model.Pattern Model.Seq Model.Vcf Model.Targeton Proofs.VcfProofs.

(* however the record is anchored or padded (SNV, MNV, anchored insertion/deletion, anchored or unanchored
   deletion-insertion, non-minimal padding), the oligonucleotide built from the imported variant is the template
   with REF replaced by the first ALT at POS (REF matching the template) *)
Theorem C08_normalise_preserves_effect : forall q pos ref alt c,
  1 < pos -> s_start q <= pos -> pos - s_start q + zlen ref <= s_len q ->
  py_slice (pos - s_start q) (pos - s_start q + zlen ref) (s_bases q) = ref ->
  from_record pos ref (Some alt) = Ok c ->
  alter q (cu_var c) = Ok (replaced q pos ref alt).
Proof. exact normalise_preserves_effect. Qed.

(* pure insertions and deletions are reported one base to the right of POS without the shared anchor base,
   every other record as given *)
Theorem C08_reported_form : forall pos ref alt c, 1 < pos ->
  from_record pos ref (Some alt) = Ok c -> cu_var c = reported_spec pos ref alt.
Proof. exact from_record_reported. Qed.

(* vcf_var_in_const is 1 exactly when the reported start lies outside the three target regions *)
Theorem C08_in_const_iff : forall c p cs rl,
  range_valid (t_ref c) = true -> range_valid (t_r2 c) = true -> 0 <= t_e1 c -> 0 <= t_e3 c ->
  validate c = Ok tt -> rs (t_ref c) <= p <= re (t_ref c) ->
  get_const_regions c = Ok cs -> get_regions c = Ok rl ->
  existsb (in_range p) cs = negb (existsb (in_range p) (get_not_none rl)).
Proof. exact in_const_iff. Qed.

(* non-vacuity: the records of DESIGN.md appendix A7 on a template that carries them at position 10 *)
Example C08_examples :
  let q := mkSeq 5 (d "GGGGGACGTGG") in
  map (fun ra => match from_record 10 (fst ra) (Some (snd ra)) with
                 | Ok c => match alter q (cu_var c) with Ok o => string_of_dna o | Err _ => "!"%string end
                 | Err _ => "!"%string end)
      [(d "A", d "ATT"); (d "AC", d "A"); (d "AC", d "ATT"); (d "ACGT", d "AT"); (d "AC", d "GTT")]
  = ["GGGGGATTCGTGG"; "GGGGGAGTGG"; "GGGGGATTGTGG"; "GGGGGATGG"; "GGGGGGTTGTGG"]%string.
Proof. vm_compute. reflexivity. Qed.

Print Assumptions C08_normalise_preserves_effect.
Print Assumptions C08_reported_form.
Print Assumptions C08_in_const_iff.
