(* C08 - custom VCF variants are imported faithfully, whatever their VCF representation. *)
From VV Require Import Model.Base Model.Pattern Model.Seq Model.Vcf Model.Targeton Model.Import Proofs.VcfProofs Proofs.ImportProofs Generated.KernelsTargeton Proofs.KernelTargetonEquiv.

(* however the record is anchored or padded (SNV, MNV, anchored insertion/deletion, anchored or unanchored
   deletion-insertion, non-minimal padding), the oligonucleotide built from the imported variant is the template
   with REF replaced by the first ALT at POS (REF matching the template) *)
Theorem C08_normalise_preserves_effect : forall q pos ref alt c,
  1 < pos -> s_start q <= pos -> pos - s_start q + zlen ref <= s_len q ->
  py_slice (pos - s_start q) (pos - s_start q + zlen ref) (s_bases q) = ref ->
  from_record pos ref (Some alt) = Ok c ->
  alter q (cu_var c) = Ok (replaced q pos ref alt).
Proof. exact normalise_preserves_effect. Qed.

(* pure insertions and deletions are reported one base to the right of POS without the shared anchor base,
   every other record as given *)
Theorem C08_reported_form : forall pos ref alt c, 1 < pos ->
  from_record pos ref (Some alt) = Ok c -> cu_var c = reported_spec pos ref alt.
Proof. exact from_record_reported. Qed.

(* vcf_var_in_const is 1 exactly when the reported start lies outside the three target regions *)
Theorem C08_in_const_iff : forall c p cs rl,
  range_valid (t_ref c) = true -> range_valid (t_r2 c) = true -> 0 <= t_e1 c -> 0 <= t_e3 c ->
  validate c = Ok tt -> rs (t_ref c) <= p <= re (t_ref c) ->
  get_const_regions c = Ok cs -> get_regions c = Ok rl ->
  existsb (in_range p) cs = negb (existsb (in_range p) (get_not_none rl)).
Proof. exact in_const_iff. Qed.

(* non-vacuity: the records of DESIGN.md appendix A7 on a template that carries them at position 10 *)
Example C08_examples :
  let q := mkSeq 5 (d "GGGGGACGTGG") in
  map (fun ra => match from_record 10 (fst ra) (Some (snd ra)) with
                 | Ok c => match alter q (cu_var c) with Ok o => string_of_dna o | Err _ => "!"%string end
                 | Err _ => "!"%string end)
      [(d "A", d "ATT"); (d "AC", d "A"); (d "AC", d "ATT"); (d "ACGT", d "AT"); (d "AC", d "GTT")]
  = ["GGGGGATTCGTGG"; "GGGGGAGTGG"; "GGGGGATTGTGG"; "GGGGGATGG"; "GGGGGGTTGTGG"]%string.
Proof. vm_compute. reflexivity. Qed.

(* the constant regions that flag is computed from, and the three target regions, translated from loaders/targeton_config.py on every
   run, are the model's (an edit of a boundary test there breaks this statement by name) *)
Theorem C08_regions_match_source : forall c,
  k_targeton_const_1 c = get_const_1 c /\ k_targeton_const_2 c = get_const_2 c /\
  k_targeton_region_1 c = get_region_1 c /\ k_targeton_region_3 c = get_region_3 c.
Proof. intros c. exact (conj (k_targeton_const_1_eq c) (conj (k_targeton_const_2_eq c) (conj (k_targeton_region_1_eq c) (k_targeton_region_3_eq c)))). Qed.

(* which records appear: exactly the polymorphic records on the targeton's contig whose reported span (for insertions and
   deletions: without the anchor base) lies inside the targeton, each in its documented reported form *)
Theorem C08_import_exact : forall contig r recs out,
  import_records contig r recs = Ok out ->
  (forall x, In x recs -> 1 < r_pos x) ->
  forall c, In c out <->
    exists x alt, In x recs /\ r_contig x = contig /\ r_alt x = Some alt /\
      from_record (r_pos x) (r_ref x) (Some alt) = Ok c /\
      cu_var c = reported_spec (r_pos x) (r_ref x) alt /\
      rs r <= v_pos (cu_var c) /\ custom_end c <= re r.
Proof. exact import_exact. Qed.

(* once per record, in file order *)
Theorem C08_import_once_per_record : forall contig r recs out,
  import_records contig r recs = Ok out ->
  exists cs, parse_records contig recs = Ok cs /\ length cs = length (filter (on_contig contig) recs) /\
             out = filter (keep_custom r) cs /\ (length out <= length recs)%nat.
Proof. exact import_once_per_record. Qed.

(* non-vacuity: targeton 8-20 on chr1; an insertion after 10 (in), a deletion of 8 anchored at 7 (in: only the anchor is outside),
   a deletion of 7-8 anchored at 6 (out), a monomorphic record, a record of another contig, an SNV at 21 (out) *)
Example C08_import_example :
  import_records "chr1" (mkRange 8 20)
    [mkRec "chr1" 10 (d "A") (Some (d "ATT")); mkRec "chr1" 7 (d "AC") (Some (d "A")); mkRec "chr1" 6 (d "ACC") (Some (d "A"));
     mkRec "chr1" 12 (d "G") None; mkRec "chr2" 12 (d "G") (Some (d "T")); mkRec "chr1" 21 (d "G") (Some (d "T"))]
  = Ok [mkCustom (mkVar 11 [] (d "TT")) (Some A) VIns Classified; mkCustom (mkVar 8 (d "C") []) (Some A) VDel Classified].
Proof. vm_compute. reflexivity. Qed.

Print Assumptions C08_normalise_preserves_effect.
Print Assumptions C08_reported_form.
Print Assumptions C08_in_const_iff.
Print Assumptions C08_import_exact.
Print Assumptions C08_import_once_per_record.
Print Assumptions C08_import_example.
Print Assumptions C08_regions_match_source.
