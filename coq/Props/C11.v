(* C11 - length filter partitions rows; unique file and names agree with the metadata. *)
From VV Require Import Model.Base Model.Pattern Model.Unique Model.PyStr Proofs.UniqueProofs Generated.KernelsNames Proofs.NamesProofs
  Model.PyLoop Generated.KernelsCounts Proofs.KernelCountsEquiv.
From Coq Require Import Sorting.Permutation.

(* rows are partitioned by the length test (order preserved: both files are filters of the row sequence) *)
Theorem C11_partition_exact : forall (f : Z -> bool) (l : list Z),
  Permutation (filter f l ++ filter (fun x => negb (f x)) l) l.
Proof. exact (@partition_exact Z). Qed.

(* the counters behind the discarded-oligonucleotide warnings are the numbers of too short / too long rows, and
   included + discarded = all rows *)
Theorem C11_counts_match : forall mn mx lens,
  too_short (count_lengths mn mx lens) = zlen (filter (fun l => l <? mn) lens) /\
  too_long (count_lengths mn mx lens) = zlen (filter (fun l => negb (l <? mn) && (mx <? l)) lens) /\
  in_range_n (count_lengths mn mx lens) = zlen (filter (included mn mx) lens) /\
  too_short (count_lengths mn mx lens) + too_long (count_lengths mn mx lens) + in_range_n (count_lengths mn mx lens) = zlen lens.
Proof. exact counts_match. Qed.

(* _unique.csv holds exactly one line per distinct mseq among the included rows ... *)
Theorem C11_unique_one_per_mseq : forall rows,
  NoDup (map snd (unique_table rows)) /\ forall s, In s (map snd (unique_table rows)) <-> In s (map snd rows).
Proof. exact unique_one_per_mseq. Qed.

(* ... named by the lexicographically (byte order) smallest oligo_name sharing that sequence *)
Theorem C11_unique_name_is_min : forall rows n s, In (n, s) (unique_table rows) ->
  In (n, s) rows /\ forall m, In (m, s) rows -> sleb n m = true.
Proof. exact unique_name_is_min. Qed.

Example C11_example :
  unique_table [("b_snv", d "ACG"); ("a_custom", d "ACG"); ("c_1del", d "AG")]%string = [("a_custom", d "ACG"); ("c_1del", d "AG")]%string.
Proof. vm_compute. reflexivity. Qed.

(* oligo_name.  The name functions are translated from variant.py / meta_table.py on every run (coq/Generated/KernelsNames.v); in closed form
   the SGE name is <transcript>.<gene>|NO_TRANSCRIPT _ <contig> : <position[_end][_REF>ALT|_ALT]> _ <source> [_rc] ... *)
Theorem C11_sge_name_closed_form : forall gene_id transcript_id contig is_rc src v,
  k_sge_oligo_name gene_id transcript_id contig is_rc src v =
  do f <- var_frag v; Ok (tr_frag gene_id transcript_id ++ "_" ++ contig ++ ":" ++ f ++ "_" ++ src ++ rc_suffix is_rc)%string.
Proof. exact k_sge_oligo_name_spec. Qed.
Theorem C11_cdna_name_closed_form : forall gene_id transcript_id seq_id src v,
  k_cdna_oligo_name gene_id transcript_id seq_id src v =
  do f <- var_frag v; Ok (seq_id ++ "_" ++ tr_frag gene_id transcript_id ++ "_" ++ f ++ "_" ++ src)%string.
Proof. exact k_cdna_oligo_name_spec. Qed.

(* ... and it differs between rows of one targeton that differ in source or mutation: equal names force the same source, position, REF
   length, ALT and (where the name spells it) REF.  Hypothesis: the source label (mutator code or VCF alias) has no underscore - true
   of every mutator code; an alias with underscores could be confused with the fields before it *)
Theorem C11_sge_names_injective : forall gene_id transcript_id contig is_rc src1 src2 v1 v2 n,
  k_sge_oligo_name gene_id transcript_id contig is_rc src1 v1 = Ok n ->
  k_sge_oligo_name gene_id transcript_id contig is_rc src2 v2 = Ok n ->
  0 <= v_pos v1 -> 0 <= v_pos v2 -> no_us src1 = true -> no_us src2 = true ->
  src1 = src2 /\ v_pos v1 = v_pos v2 /\ zlen (v_ref v1) = zlen (v_ref v2) /\ v_alt v1 = v_alt v2 /\
  (v_alt v1 <> [] -> v_ref v1 = v_ref v2).
Proof. exact sge_names_injective. Qed.
Theorem C11_cdna_names_injective : forall gene_id transcript_id seq_id src1 src2 v1 v2 n,
  k_cdna_oligo_name gene_id transcript_id seq_id src1 v1 = Ok n ->
  k_cdna_oligo_name gene_id transcript_id seq_id src2 v2 = Ok n ->
  0 <= v_pos v1 -> 0 <= v_pos v2 -> no_us src1 = true -> no_us src2 = true ->
  src1 = src2 /\ v_pos v1 = v_pos v2 /\ zlen (v_ref v1) = zlen (v_ref v2) /\ v_alt v1 = v_alt v2 /\
  (v_alt v1 <> [] -> v_ref v1 = v_ref v2).
Proof. exact cdna_names_injective. Qed.

Example C11_names_example :
  k_sge_oligo_name (Some "G1"%string) (Some "T1"%string) "chr1"%string true "2del0"%string (mkVar 120 (d "AC") []) = Ok "T1.G1_chr1:120_121_2del0_rc"%string /\
  k_sge_oligo_name None (Some "T1"%string) "chr1"%string false "al0"%string (mkVar 31 [] (d "GG")) = Ok "NO_TRANSCRIPT_chr1:31_GG_al0"%string /\
  k_cdna_oligo_name (Some "G1"%string) (Some "T1"%string) "cdna0"%string "aa"%string (mkVar 7 (d "AAA") (d "AAC")) = Ok "cdna0_T1.G1_7_9_AAA>AAC_aa"%string /\
  no_us "2del0"%string = true.
Proof. exact names_example. Qed.

(* the counters of the length filter as the source computes them (OligoGenerationInfo, translated on every run: its methods assign fields of
   self, the translation returns the new record): one row is counted in exactly one counter and included exactly when the model includes it;
   over the rows of a targeton, in order, the counts are the model's (so C11_counts_match speaks about the source); the summary adds field by field *)
Theorem C11_length_filter_matches_source : forall c mn mx len,
  k_info_eval_in_range c (mkOpts mn mx) len = Ok (count_step mn mx c len, included mn mx len).
Proof. exact k_info_eval_in_range_eq. Qed.

Theorem C11_counts_of_a_targeton_match_source : forall mn mx lens c,
  fold_m (fun acc len => do r <- k_info_eval_in_range (fst acc) (mkOpts mn mx) len; Ok (fst r, snd acc ++ [snd r])) lens (c, [])
  = Ok (fold_left (count_step mn mx) lens c, map (included mn mx) lens).
Proof. exact source_counts. Qed.

Theorem C11_summary_update_matches_source : forall a b,
  k_info_update a b = Ok (mkCounts (too_short a + too_short b) (in_range_n a + in_range_n b) (too_long a + too_long b)).
Proof. exact k_info_update_eq. Qed.

Print Assumptions C11_partition_exact.
Print Assumptions C11_counts_match.
Print Assumptions C11_unique_one_per_mseq.
Print Assumptions C11_unique_name_is_min.
Print Assumptions C11_sge_name_closed_form.
Print Assumptions C11_cdna_name_closed_form.
Print Assumptions C11_sge_names_injective.
Print Assumptions C11_cdna_names_injective.
Print Assumptions C11_length_filter_matches_source.
Print Assumptions C11_counts_of_a_targeton_match_source.
Print Assumptions C11_summary_update_matches_source.
