(* C11 - length filter partitions rows; unique file and names agree with the metadata. *)
From VV Require Import Model.Base Model.Pattern Model.Unique Proofs.UniqueProofs.
From Coq Require Import Sorting.Permutation.

(* rows are partitioned by the length test (order preserved: both files are filters of the row sequence) *)
Theorem C11_partition_exact : forall (f : Z -> bool) (l : list Z),
  Permutation (filter f l ++ filter (fun x => negb (f x)) l) l.
Proof. exact (@partition_exact Z). Qed.

(* the counters behind the discarded-oligonucleotide warnings are the numbers of too short / too long rows, and
   included + discarded = all rows *)
Theorem C11_counts_match : forall mn mx lens,
  too_short (count_lengths mn mx lens) = zlen (filter (fun l => l <? mn) lens) /\
  too_long (count_lengths mn mx lens) = zlen (filter (fun l => negb (l <? mn) && (mx <? l)) lens) /\
  in_range_n (count_lengths mn mx lens) = zlen (filter (included mn mx) lens) /\
  too_short (count_lengths mn mx lens) + too_long (count_lengths mn mx lens) + in_range_n (count_lengths mn mx lens) = zlen lens.
Proof. exact counts_match. Qed.

(* _unique.csv holds exactly one line per distinct mseq among the included rows ... *)
Theorem C11_unique_one_per_mseq : forall rows,
  NoDup (map snd (unique_table rows)) /\ forall s, In s (map snd (unique_table rows)) <-> In s (map snd rows).
Proof. exact unique_one_per_mseq. Qed.

(* ... named by the lexicographically (byte order) smallest oligo_name sharing that sequence *)
Theorem C11_unique_name_is_min : forall rows n s, In (n, s) (unique_table rows) ->
  In (n, s) rows /\ forall m, In (m, s) rows -> sleb n m = true.
Proof. exact unique_name_is_min. Qed.

Example C11_example :
  unique_table [("b_snv", d "ACG"); ("a_custom", d "ACG"); ("c_1del", d "AG")]%string = [("a_custom", d "ACG"); ("c_1del", d "AG")]%string.
Proof. vm_compute. reflexivity. Qed.

Print Assumptions C11_partition_exact.
Print Assumptions C11_counts_match.
Print Assumptions C11_unique_one_per_mseq.
Print Assumptions C11_unique_name_is_min.
