(* C19 - designs that cannot be honoured are refused, never silently mis-designed.
   Only statements, closed by `exact`, and their assumptions.  One implication per modelled refusal rule, and the converse
   for each rule (no spurious refusal by that rule).  The global converse - a valid design passes every rule and every
   assertion of the pipeline - is not one theorem: it is covered by the valid stream of the correspondence (partial). *)
From VV Require Import Model.Base Model.Pattern Model.Seq Model.CodonTable Model.Transcript Model.Mutators Model.Targeton Model.Views
  Model.Config Model.Refusal Proofs.CodonProofs Proofs.ConfigProofs Proofs.RefusalProofs Proofs.ProgressProofs
  Model.MutatorsGlue Model.Cdna Proofs.CdnaProofs.

(* a codon-level mutator requested for a non-coding region *)
Theorem C19_cds_mutator_noncoding_refused : forall q ms k,
  In k ms -> is_cds_kind k = true -> region_variants_noncds q ms = Err ValueError.
Proof. exact cds_mutators_refused_noncoding. Qed.

(* a target region that straddles an exon boundary: touches an exon without lying inside it, or touches two exons *)
Theorem C19_region_straddles_refused : forall exons r e,
  rs r <= re r -> In e exons -> overlaps_exon e r -> ~ inside_exon e r ->
  region_exon_id exons r = Err InvalidTargetonRegion.
Proof. exact region_straddles_refused. Qed.
Theorem C19_region_two_exons_refused : forall exons r e1 e2,
  In e1 exons -> In e2 exons -> e1 <> e2 -> NoDup exons -> overlaps_exon e1 r -> overlaps_exon e2 r ->
  region_exon_id exons r = Err InvalidTargetonRegion.
Proof. exact region_two_exons_refused. Qed.
(* ... and only then: a region inside one exon is coding, a region touching no exon is non-coding *)
Theorem C19_region_inside_accepted : forall exons r e,
  rs r <= re r -> NoDup exons -> disjoint_exons exons -> In e exons -> inside_exon e r ->
  region_exon_id exons r = Ok (Some (x_index e)).
Proof. exact region_inside_accepted. Qed.
Theorem C19_region_noncoding_accepted : forall exons r,
  (forall e, In e exons -> ~ overlaps_exon e r) -> region_exon_id exons r = Ok None.
Proof. exact region_noncoding_accepted. Qed.

(* the converse at the region stage (where the crashes of the unrepaired tool were): for exons sorted and disjoint, a sequence
   covering them, a region inside its exon and the codons at both ends of the region complete within the transcript, building
   the extended coding sequence never fails - every assertion, index and range constructor on the way succeeds *)
Theorem C19_valid_region_never_refused : forall t q e r i,
  exons_sorted (t_exons t) -> exons_nonempty (t_exons t) -> seq_covers q (t_exons t) ->
  exon_list_index t (x_index e) = Ok i -> znth i (t_exons t) = Some e -> 0 <= x_frame e <= 2 ->
  0 <= rs r -> rs r <= re r -> inside_exon e r ->
  (forall b a, range_cds_exts (t_strand t) e r = Ok (b, a) ->
     b - (rs r - x_start e) <= total_len (zfirstn i (t_exons t)) /\ a - (x_end e - re r) <= total_len (zskipn (i + 1) (t_exons t))) ->
  exists c, get_cds_seq_exon t q e r = Ok c.
Proof. exact get_cds_seq_exon_total. Qed.

(* a region or extension exceeding the targeton: accepted exactly when all of it stays inside *)
Theorem C19_targeton_validate_iff : forall c,
  validate c = Ok tt <->
  rs (t_ref c) <= rs (t_r2 c) /\ re (t_r2 c) <= re (t_ref c) /\ rs (t_ref c) <= rs (t_r2 c) - t_e1 c /\ re (t_r2 c) + t_e3 c <= re (t_ref c).
Proof. exact targeton_validate_iff. Qed.

(* two selected PAM protection edits in one codon *)
Theorem C19_two_ppe_one_codon_refused : forall exons t1 t2 e,
  exon_at exons (tp_start t1) = Some e -> exon_at exons (tp_start t2) = Some e ->
  codon_index (e_fcs e) (tp_start t1) = codon_index (e_fcs e) (tp_start t2) ->
  insert_ecps exons [t1; t2] [] = Err InvalidPamVariant.
Proof. exact two_ppe_one_codon_refused. Qed.

(* mutator labels: the six names, <SPAN>del<OFFSET> with SPAN >= 1 (finite check for SPAN, OFFSET < 40), nothing else *)
Theorem C19_fixed_labels_parse :
  parse_label "snv" = Ok MSnv /\ parse_label "snvre" = Ok MSnvRe /\ parse_label "inframe" = Ok MInframe /\
  parse_label "ala" = Ok MAla /\ parse_label "stop" = Ok MStop /\ parse_label "aa" = Ok MAa /\
  parse_label "del" = Err InvalidMutator /\ parse_label "0del" = Err InvalidMutator /\ parse_label "" = Err InvalidMutator.
Proof. exact fixed_labels_parse. Qed.
Theorem C19_deletion_labels_roundtrip :
  forallb (fun s => forallb (fun o => res_eqb mkind_eqb (parse_label (full_label (MDelK s o))) (Ok (MDelK s o))) (zrange 0 40)) (zrange 1 40) = true.
Proof. exact deletion_labels_roundtrip. Qed.

(* adaptors and limits *)
Theorem C19_invalid_configuration_refused : forall a5 a3 mn mx ns fs,
  sge_valid a5 a3 mn mx ns fs = true <->
  adaptor_valid a5 = true /\ adaptor_valid a3 = true /\ 1 <= mn /\ 1 <= mx /\ (fs = true -> ns = true).
Proof. exact sge_valid_iff. Qed.

(* an ambiguous base is not a DNA string *)
Theorem C19_ambiguous_base_refused : forall s, is_dna_str s = true <-> exists l, dna_of_string s = Some l.
Proof. exact adaptor_valid_iff. Qed.

(* non-vacuity of the progress theorem: a three-exon minus-strand transcript with a one-base middle exon; the region is that exon *)
Example C19_progress_example :
  let tr := mkTr Minus [mkEx 5 8 2 1; mkEx 13 13 1 2; mkEx 15 18 0 0] in
  let q := mkSeq 1 (d "AAAACCCAGGGGTTTTAGCATTTTT") in
  exons_sorted (t_exons tr) /\ exons_nonempty (t_exons tr) /\ seq_covers q (t_exons tr) /\
  exon_list_index tr 1 = Ok 1 /\ range_cds_exts Minus (mkEx 13 13 1 2) (mkRange 13 13) = Ok (1, 1) /\
  total_len (zfirstn 1 (t_exons tr)) = 4 /\ total_len (zskipn 2 (t_exons tr)) = 4 /\
  is_ok (get_cds_seq_exon tr q (mkEx 13 13 1 2) (mkRange 13 13)) = true.
Proof.
  cbv zeta. repeat split; try (vm_compute; reflexivity).
  - unfold exons_sorted. cbn. repeat constructor; cbn; lia.
  - intros e [<-|[<-|[<-|[]]]]; cbn; lia.
  - destruct H as [<-|[<-|[<-|[]]]]; cbn; lia.
  - destruct H as [<-|[<-|[<-|[]]]]; vm_compute; reflexivity.
Qed.

(* non-vacuity: regions against the exons [10,19] and [30,37] *)
Example C19_example :
  let ex := [mkEx 10 19 0 0; mkEx 30 37 1 2] in
  region_exon_id ex (mkRange 12 18) = Ok (Some 0) /\ region_exon_id ex (mkRange 20 29) = Ok None /\
  region_exon_id ex (mkRange 8 12) = Err InvalidTargetonRegion /\ region_exon_id ex (mkRange 8 22) = Err InvalidTargetonRegion /\
  region_exon_id ex (mkRange 18 31) = Err InvalidTargetonRegion.
Proof. vm_compute. repeat split. Qed.

(* cDNA mode: a region 2 that overlaps the annotated CDS without lying inside it is refused (ValueError -> exit 1), whatever is asked of it *)
Theorem C19_cdna_partial_cds_refused : forall tb c q r ms,
  overlaps r c = true -> range_in r c = false -> cdna_region_rows tb (Some c) q r ms = Err ValueError.
Proof. exact cdna_partial_cds_refused. Qed.

Print Assumptions C19_cds_mutator_noncoding_refused.
Print Assumptions C19_region_straddles_refused.
Print Assumptions C19_region_two_exons_refused.
Print Assumptions C19_region_inside_accepted.
Print Assumptions C19_region_noncoding_accepted.
Print Assumptions C19_valid_region_never_refused.
Print Assumptions C19_targeton_validate_iff.
Print Assumptions C19_two_ppe_one_codon_refused.
Print Assumptions C19_fixed_labels_parse.
Print Assumptions C19_deletion_labels_roundtrip.
Print Assumptions C19_invalid_configuration_refused.
Print Assumptions C19_ambiguous_base_refused.
Print Assumptions C19_cdna_partial_cds_refused.
