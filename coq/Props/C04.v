(* C04 - amino-acid annotation equals translation of the affected codon before and after.
   Only statements, closed by `exact`, and their assumptions. *)
From VV Require Import Model.Base Model.Pattern Model.Seq Model.CodonTable Model.Transcript Model.Mutators
  Spec.CodonSpec Proofs.CodonProofs Proofs.AnnotProofs Proofs.AnnotWalkProofs Generated.KernelsAnnot Proofs.KernelAnnotEquiv
  Model.PyLoop Generated.KernelsExons Proofs.KernelExonsEquiv.

(* SNV rows: the annotated codon is the triplet of the extended coding sequence (prefix + region + suffix) that
   holds the mutated base, ref_aa / alt_aa are its translations before and after the substitution *)
Theorem C04_annot_snv_correct : forall t c p x y src a,
  annotate t c (mkVar p [x] [y]) src = Ok a ->
  let o := p - c_start c + zlen (c_prefix c) in
  0 <= o < c_ext_length c /\
  a_var a = mkVar p [x] [y] /\ a_offset a = o mod 3 /\
  a_codon_ref a = py_slice (o - o mod 3) (o - o mod 3 + 3) (c_ext c) /\
  a_codon_alt a = zfirstn (o mod 3) (a_codon_ref a) ++ [y] ++ zskipn (o mod 3 + 1) (a_codon_ref a) /\
  zlen (a_codon_ref a) = 3 /\ zlen (a_codon_alt a) = 3 /\
  translate t (a_codon_ref a) = Ok (a_aa_ref a) /\ translate t (a_codon_alt a) = Ok (a_aa_alt a).
Proof. exact annot_snv_correct. Qed.

(* codon replacement rows (snvre, ala, stop, aa): translations of REF and ALT *)
Theorem C04_annot_codon_correct : forall t c v src a,
  zlen (v_ref v) = 3 -> annotate t c v src = Ok a ->
  a_var a = v /\ a_offset a = 0 /\ a_codon_ref a = v_ref v /\ a_codon_alt a = v_alt v /\
  translate t (v_ref v) = Ok (a_aa_ref a) /\ translate t (v_alt v) = Ok (a_aa_alt a).
Proof. exact annot_codon_correct. Qed.

(* the extended coding sequence is read from the neighbours of the region in the walk over all coding positions:
   a codon split by an exon junction is completed from the adjacent or distal exons (any number of them) *)
Theorem C04_ext_positions_are_codon_walk : forall t q e r c i,
  get_cds_seq_exon t q e r = Ok c -> exon_list_index t (x_index e) = Ok i -> znth i (t_exons t) = Some e ->
  rs r <= re r -> (forall p, In p (t_exons t) -> x_start p <= x_end p) ->
  (exists pre post, cds_walk (t_exons t) = pre ++ (c_prefix_pos c ++ positions r ++ c_suffix_pos c) ++ post) /\
  seq_get_at q (c_prefix_pos c) = Ok (c_prefix c) /\ substr q r = Ok (c_bases c) /\ seq_get_at q (c_suffix_pos c) = Ok (c_suffix c).
Proof. exact ext_positions_are_codon_walk. Qed.

(* the extended coding sequence is exactly the sequence read at prefix positions ++ region ++ suffix positions, a whole
   number of codons *)
Theorem C04_ext_is_walk_bases : forall t q e r c,
  get_cds_seq_exon t q e r = Ok c -> 0 <= rs r <= re r -> s_start q <= rs r -> re r - s_start q + 1 <= s_len q ->
  seq_get_at q (walk_segment c r) = Ok (c_ext c) /\ zlen (c_prefix_pos c) = zlen (c_prefix c) /\
  zlen (c_suffix_pos c) = zlen (c_suffix c) /\ c_len c = rlen r /\ c_start c = rs r /\ c_ext_length c mod 3 = 0.
Proof. exact ext_is_walk_bases. Qed.

(* end to end for an SNV row: the annotated codon is read from three consecutive positions of that walk segment (which
   C04_ext_positions_are_codon_walk places in the walk over all coding positions), the mutated position is among them
   at the recorded offset, ref_aa / alt_aa are the translations of the codon before and after the substitution *)
Theorem C04_annot_is_walk_translation : forall tb t q e r c p x y src a,
  get_cds_seq_exon t q e r = Ok c -> 0 <= rs r <= re r -> s_start q <= rs r -> re r - s_start q + 1 <= s_len q ->
  rs r <= p <= re r -> annotate tb c (mkVar p [x] [y]) src = Ok a ->
  let W := walk_segment c r in
  let o := zlen (c_prefix_pos c) + (p - rs r) in
  let codon_pos := py_slice (o - o mod 3) (o - o mod 3 + 3) W in
  zlen codon_pos = 3 /\ znth (o mod 3) codon_pos = Some p /\ a_offset a = o mod 3 /\
  seq_get_at q codon_pos = Ok (a_codon_ref a) /\
  translate tb (a_codon_ref a) = Ok (a_aa_ref a) /\
  translate tb (zfirstn (o mod 3) (a_codon_ref a) ++ [y] ++ zskipn (o mod 3 + 1) (a_codon_ref a)) = Ok (a_aa_alt a).
Proof. exact annot_is_walk_translation. Qed.

(* the extension lengths put the region in the annotated frame (C03's frame characterisation) *)
Theorem C04_extension_lengths_in_frame : forall s e r b a,
  range_cds_exts s e r = Ok (b, a) ->
  0 <= x_frame e <= 2 /\ 0 <= b <= 2 /\ 0 <= a <= 2 /\
  (if is_plus s then (rs r - b - (x_start e + x_frame e)) mod 3 = 0 /\ (re r + a + 1 - (x_start e + x_frame e)) mod 3 = 0
   else (x_end e - x_frame e - (re r + a)) mod 3 = 0 /\ (x_end e - x_frame e - (rs r - b - 1)) mod 3 = 0).
Proof. exact range_cds_exts_ok. Qed.

(* mut_type: non when alt_aa is a stop, syn when both are equal, mis otherwise *)
Theorem C04_mut_type_rule : forall a,
  (a_aa_alt a = STOP -> a_mut_type a = Non) /\
  (a_aa_alt a <> STOP -> a_aa_alt a = a_aa_ref a -> a_mut_type a = Syn) /\
  (a_aa_alt a <> STOP -> a_aa_alt a <> a_aa_ref a -> a_mut_type a = Mis).
Proof. exact mut_type_rule. Qed.

(* rows of non-coding regions, deletions and in-frame deletions carry no amino-acid annotation *)
Theorem C04_noncoding_rows_unannotated : forall q ms plain annotated,
  region_variants_noncds q ms = Ok (plain, annotated) ->
  annotated = [] /\ forall x, In x plain -> pr_annot x = None.
Proof. exact noncoding_rows_unannotated. Qed.

Theorem C04_deletion_rows_unannotated : forall t c ms plain annotated,
  region_variants_cds t c ms = Ok (plain, annotated) -> forall x, In x plain -> pr_annot x = None.
Proof. exact deletion_rows_unannotated. Qed.

(* non-vacuity: a codon split 1+1+1 over three exons on the plus strand (exons [5,8] [13,13] [15,18]) *)
Example C04_three_exon_codon :
  let tr := mkTr Plus [mkEx 5 8 0 0; mkEx 13 13 1 2; mkEx 15 18 2 1] in
  let q := mkSeq 1 (d "AAAACCCAGGGGTTTTAGCATTTTT") in
  match get_cds_seq_exon tr q (mkEx 13 13 1 2) (mkRange 13 13) with
  | Ok c => c_prefix_pos c = [8] /\ c_suffix_pos c = [15] /\ c_ext c = d "ATT"
  | Err _ => False
  end.
Proof. vm_compute. auto. Qed.

(* translation validation: get_codon_range_offset (the codon of a position of the extended coding sequence) as translated from
   the source is the slice the model of annotate uses *)
Theorem C04_codon_range_offset_matches_source : forall pos r co, 0 <= pos -> k_codon_range_offset pos = Ok (r, co) ->
  co = pos mod 3 /\ rs r = pos - pos mod 3 /\ re r = pos - pos mod 3 + 2.
Proof. exact k_codon_range_offset_spec. Qed.

(* the positions that complete a codon across exon junctions (UIntRangeSortedList.get_before / get_after: while loops over as many
   neighbouring exons as the extension needs - the three-exon codon of fix 0c26c85), translated from uint_range.py on every run, are the
   model's for every transcript whose exons are non-empty ranges, assertion failures included *)
Theorem C04_codon_completion_matches_source : forall exons i r n, valid_exons exons ->
  k_exons_get_before exons i r n = get_before exons i r n /\ k_exons_get_after exons i r n = get_after exons i r n.
Proof. intros exons i r n Hv. exact (conj (k_exons_get_before_eq exons i r n Hv) (k_exons_get_after_eq exons i r n Hv)). Qed.

(* non-vacuity: a one-base exon in the middle - the two bases before position 20 of the third exon come from two different exons *)
Example C04_codon_completion_example :
  valid_exons [mkEx 1 3 0 0; mkEx 10 10 1 0; mkEx 20 25 2 1] /\
  k_exons_get_before [mkEx 1 3 0 0; mkEx 10 10 1 0; mkEx 20 25 2 1] 2 (mkRange 20 22) 2 = Ok [3; 10] /\
  k_exons_get_after [mkEx 1 3 0 0; mkEx 10 10 1 0; mkEx 20 25 2 1] 0 (mkRange 2 3) 2 = Ok [10; 20].
Proof. split; [repeat constructor; vm_compute; discriminate|]. split; vm_compute; reflexivity. Qed.

Print Assumptions C04_annot_snv_correct.
Print Assumptions C04_annot_codon_correct.
Print Assumptions C04_ext_positions_are_codon_walk.
Print Assumptions C04_ext_is_walk_bases.
Print Assumptions C04_annot_is_walk_translation.
Print Assumptions C04_extension_lengths_in_frame.
Print Assumptions C04_mut_type_rule.
Print Assumptions C04_noncoding_rows_unannotated.
Print Assumptions C04_deletion_rows_unannotated.
Print Assumptions C04_codon_range_offset_matches_source.
Print Assumptions C04_codon_completion_matches_source.
