(* C10 - MAVE-HGVS strings decode to the sequences they are documented to describe.
   Abstract-syntax level: the term the model of _get_mave_nt chooses; its printing is tied to the code by the
   correspondence and decoded by an independent parser in the check (partial for the string level). *)
From VV Require Import Model.Base Model.Pattern Model.Seq Model.Vcf Model.Mave Spec.MaveSpec Proofs.MaveProofs.

(* for substitutions, deletions, insertions and deletion-insertions of any length at any offset: the variant the code
   prints, applied to a sequence carrying REF at that offset, yields the sequence with REF replaced by ALT; where a
   reference base is stated (SNV) it is the base of the sequence; the term is syntactically valid *)
Theorem C10_mave_of_apply : forall T p ref alt t m,
  var_type ref alt = Ok t -> mave_of t p ref alt = Ok m ->
  1 <= p -> p - 1 + zlen ref <= zlen T -> py_slice (p - 1) (p - 1 + zlen ref) T = ref ->
  mave_apply m T = Some (zfirstn (p - 1) T ++ alt ++ zskipn (p - 1 + zlen ref) T) /\ mave_valid m = true.
Proof. exact mave_of_apply. Qed.

(* the insertion form is used only for pure insertions, with flanks p-1 and p (position 0 only at the targeton start) *)
Theorem C10_ins_flanks : forall t p ref alt q s, mave_of t p ref alt = Ok (MIns q s) -> t = VIns /\ q = p /\ s = alt.
Proof. exact mave_ins_flanks. Qed.

(* non-vacuity: the strings of DESIGN.md appendix A8 *)
Example C10_examples :
  get_mave_nt 111 90 VSub (d "G") (d "A") = Ok "g.22G>A"%string /\
  get_mave_nt 112 90 VIns [] (d "GG") = Ok "g.22_23insGG"%string /\
  get_mave_nt 110 90 VDel (d "AG") [] = Ok "g.21_22del"%string /\
  get_mave_nt 110 90 VSub (d "CGC") (d "CGGGC") = Ok "g.21_23delinsCGGGC"%string /\
  get_mave_nt 90 90 VIns [] (d "T") = Ok "g.0_1insT"%string.
Proof. vm_compute. repeat split; reflexivity. Qed.

Print Assumptions C10_mave_of_apply.
Print Assumptions C10_ins_flanks.
