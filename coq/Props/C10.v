(* C10 - MAVE-HGVS strings decode to the sequences they are documented to describe.
   Abstract-syntax level: the term the model of _get_mave_nt chooses, and - per metadata row - the terms whose printings the
   model of the to_csv loop body writes to mave_nt (widened to a PAM codon or not) and mave_nt_ref; the printing itself is tied
   to the code by the correspondence and decoded by an independent parser in the check (partial for the string level). *)
From VV Require Import Model.Base Model.Pattern Model.Seq Model.Vcf Model.Mave Model.Gpo Model.ToCsv Model.PyStr Spec.MaveSpec Proofs.MaveProofs Proofs.MaveRowProofs Generated.KernelsMave Proofs.KernelMaveEquiv Proofs.MaveBgProofs Proofs.MaveBgWProofs.

(* for substitutions, deletions, insertions and deletion-insertions of any length at any offset: the variant the code
   prints, applied to a sequence carrying REF at that offset, yields the sequence with REF replaced by ALT; where a
   reference base is stated (SNV) it is the base of the sequence; the term is syntactically valid *)
Theorem C10_mave_of_apply : forall T p ref alt t m,
  var_type ref alt = Ok t -> mave_of t p ref alt = Ok m ->
  1 <= p -> p - 1 + zlen ref <= zlen T -> py_slice (p - 1) (p - 1 + zlen ref) T = ref ->
  mave_apply m T = Some (zfirstn (p - 1) T ++ alt ++ zskipn (p - 1 + zlen ref) T) /\ mave_valid m = true.
Proof. exact mave_of_apply. Qed.

(* the insertion form is used only for pure insertions, with flanks p-1 and p (position 0 only at the targeton start) *)
Theorem C10_ins_flanks : forall t p ref alt q s, mave_of t p ref alt = Ok (MIns q s) -> t = VIns /\ q = p /\ s = alt.
Proof. exact mave_ins_flanks. Qed.

(* one metadata row without background variants: whatever the PAM-codon widening does, mave_nt is the printing of a valid term
   that turns the PAM-protected targeton sequence into the row's oligonucleotide.  Hypotheses: the row's oligonucleotide is
   the template with REF replaced by ALT at the row's position (C01), the recorded end is the end of REF, and the PAM edits
   sharing the codon lie inside the targeton *)
Theorem C10_row_mave_nt_decodes : forall c mr o x0 (T : dna),
  row_out c mr = Ok o -> cx_gpo c = None ->
  p_seq (cx_alt c) = mkSeq x0 T -> s_start (p_seq (cx_seq c)) = x0 ->
  mr_ref_pos mr = mr_alt_pos mr -> mr_end mr = get_end (mr_alt_pos mr) (zlen (mr_ref mr)) ->
  let a := mr_alt_pos mr - x0 in
  0 <= a -> a + zlen (mr_ref mr) <= zlen T ->
  x0 <= opt_min (mr_alt_pos mr) (mr_start_ppe mr) -> opt_max (mr_end mr) (mr_end_ppe mr) <= x0 + zlen T - 1 ->
  mr_oligo mr = zfirstn a T ++ mr_alt mr ++ zskipn (a + zlen (mr_ref mr)) T ->
  exists m, o_mave_nt o = print_mave m /\ mave_apply m T = Some (mr_oligo mr) /\ mave_valid m = true.
Proof. exact row_mave_nt_decodes. Qed.

(* the widening itself: replacing a larger window that contains the mutation by the corresponding window of the oligonucleotide
   is the same edit *)
Theorem C10_widening_same_edit : forall (T alt : dna) a len u w,
  0 <= u -> u <= a -> 0 <= len -> a + len <= w -> w <= zlen T ->
  let oligo := zfirstn a T ++ alt ++ zskipn (a + len) T in
  py_slice u (w + (zlen alt - len)) oligo = py_slice u a T ++ alt ++ py_slice (a + len) w T /\
  zfirstn u T ++ py_slice u (w + (zlen alt - len)) oligo ++ zskipn w T = oligo.
Proof. exact widen_same. Qed.

(* mave_nt_ref (with or without background variants) is the printing of a valid term that turns the unprotected reference
   into the reference carrying only the row's mutation *)
Theorem C10_row_mave_nt_ref_decodes : forall c mr o x0 (R : dna),
  row_out c mr = Ok o -> p_seq (cx_seq c) = mkSeq x0 R ->
  let a := mr_ref_pos mr - x0 in
  0 <= a -> a + zlen (mr_ref mr) <= zlen R ->
  exists m, o_mave_nt_ref o = print_mave m /\
            mave_apply m R = Some (zfirstn a R ++ mr_alt mr ++ zskipn (a + zlen (mr_ref mr)) R) /\ mave_valid m = true.
Proof. exact row_mave_nt_ref_decodes. Qed.

(* non-vacuity: an SNV at offset 4 next to a PAM edit at offset 5 of the same codon: widened to g.4_5delinsAT *)
Example C10_row_example :
  match row_out ex_ctx ex_row with
  | Ok o => o_mave_nt o = "g.4_5delinsAT"%string /\ o_mave_nt_ref o = "g.4T>A"%string /\
            exists m, o_mave_nt o = print_mave m /\ mave_apply m (d "ACGTTCGTAC") = Some (d "ACGATCGTAC") /\ mave_valid m = true
  | Err _ => False
  end.
Proof. exact row_example. Qed.

(* translation validation: mave_hgvs.get_mave_nt (with every helper it calls: f-strings, optional strings, the VariantType and
   MAVEPrefix enums), translated from the source on every run, returns for all inputs the printing of the term the model chooses -
   so the theorems above speak about the very strings the code writes *)
Theorem C10_mave_strings_match_source : forall start ref_start vt ref alt,
  k_get_mave_nt start ref_start vt (Some (string_of_dna ref)) (Some (string_of_dna alt)) = get_mave_nt start ref_start vt ref alt.
Proof. exact k_get_mave_nt_eq. Qed.

(* non-vacuity: the strings of DESIGN.md appendix A8 *)
Example C10_examples :
  get_mave_nt 111 90 VSub (d "G") (d "A") = Ok "g.22G>A"%string /\
  get_mave_nt 112 90 VIns [] (d "GG") = Ok "g.22_23insGG"%string /\
  get_mave_nt 110 90 VDel (d "AG") [] = Ok "g.21_22del"%string /\
  get_mave_nt 110 90 VSub (d "CGC") (d "CGGGC") = Ok "g.21_23delinsCGGGC"%string /\
  get_mave_nt 90 90 VIns [] (d "T") = Ok "g.0_1insT"%string.
Proof. vm_compute. repeat split; reflexivity. Qed.

(* the same row under background variants, when it is not widened to a PAM codon: the printed term carries the REF-coordinate offset of the
   mutation (C06: reported offsets are in the original reference), and the same term at the offset of the mutation in the background
   sequence turns the PAM-protected background sequence into the row's oligonucleotide *)
Theorem C10_row_mave_nt_decodes_under_background : forall c mr o xa (T : dna),
  row_out c mr = Ok o ->
  p_seq (cx_alt c) = mkSeq xa T ->
  mr_start_exon mr = None -> mr_end_exon mr = None ->
  mr_end mr = get_end (mr_alt_pos mr) (zlen (mr_ref mr)) ->
  s_start (p_seq (cx_seq c)) <= mr_ref_pos mr ->
  let a := mr_alt_pos mr - xa in
  0 <= a -> a + zlen (mr_ref mr) <= zlen T ->
  mr_oligo mr = zfirstn a T ++ mr_alt mr ++ zskipn (a + zlen (mr_ref mr)) T ->
  exists m, o_mave_nt o = print_mave m /\ mave_valid m = true /\
            mave_pos m = mr_ref_pos mr - s_start (p_seq (cx_seq c)) + 1 /\
            mave_apply (mave_at m (a + 1)) T = Some (mr_oligo mr).
Proof. exact row_mave_nt_decodes_bg. Qed.

(* ... and in general under background variants, widened to a PAM codon or not: the printed term is valid (its offset is that of the pre-image
   of the window start in the reference, which lies in the targeton) and, moved to the offset q of the window in the background sequence,
   turns the PAM-protected background sequence into the row's oligonucleotide *)
Theorem C10_row_mave_nt_decodes_under_background_widened : forall c g mr o xa (T : dna),
  row_out c mr = Ok o -> cx_gpo c = Some g ->
  p_seq (cx_alt c) = mkSeq xa T ->
  mr_end mr = get_end (mr_alt_pos mr) (zlen (mr_ref mr)) ->
  let x0 := s_start (p_seq (cx_seq c)) in
  let a := mr_alt_pos mr - xa in
  0 <= a -> a + zlen (mr_ref mr) <= zlen T ->
  xa <= opt_min (mr_alt_pos mr) (mr_start_ppe mr) -> opt_max (mr_end mr) (mr_end_ppe mr) <= xa + zlen T - 1 ->
  x0 <= mr_ref_pos mr ->
  (forall y, alt_to_ref_position g (opt_min (mr_alt_pos mr) (mr_start_ppe mr)) = Ok (Some y) -> x0 <= y) ->
  mr_oligo mr = zfirstn a T ++ mr_alt mr ++ zskipn (a + zlen (mr_ref mr)) T ->
  exists m q, o_mave_nt o = print_mave m /\ mave_valid m = true /\ 1 <= q /\
              mave_apply (mave_at m q) T = Some (mr_oligo mr).
Proof. exact row_mave_nt_decodes_bg_widened. Qed.

Print Assumptions C10_mave_of_apply.
Print Assumptions C10_ins_flanks.
Print Assumptions C10_row_mave_nt_decodes.
Print Assumptions C10_widening_same_edit.
Print Assumptions C10_row_mave_nt_ref_decodes.
Print Assumptions C10_mave_strings_match_source.
Print Assumptions C10_row_mave_nt_decodes_under_background.
Print Assumptions C10_row_mave_nt_decodes_under_background_widened.
