(* C09 - output VCF records are valid against their reference and reproduce the oligo.
   Kernel level: the record built by the model of vcf_writer.py from the alleles that the model of the to_csv loop
   body (Model/ToCsv.v) hands to it.  Row level (generated mutators): the records the loop body writes for a row - anchors,
   widening to PAM codons included - are valid and reproduce the oligonucleotide / the mutated reference; rows of custom
   variants (their own VCF anchor for the reference alleles) likewise, and so is the PAM record under background variants (its
   position is a reference coordinate: it is valid against the protected background sequence re-anchored there).  Rows of
   custom variants under background variants included. *)
From VV Require Import Model.Base Model.Pattern Model.Seq Model.Vcf Model.Gpo Model.ToCsv Proofs.VcfRecordProofs Proofs.MaveRowProofs Proofs.VcfRowProofs Proofs.VcfRowCustomProofs Proofs.VcfRowBgProofs
  Generated.KernelsMetaRow Proofs.KernelMetaRowEquiv.

(* substitutions and widened records (both alleles non-empty, no anchor): no empty allele, REF is the sequence at POS,
   REF->ALT reproduces the target, for any flanks P, S *)
Theorem C09_record_substitution : forall x0 P R A S pos,
  R <> [] -> A <> [] -> pos = x0 + zlen P -> 1 <= pos ->
  exists r, mk_record (pos - 1) (mkAl R None) (mkAl A None) None = Ok r /\ rec_ok x0 (P ++ R ++ S) r (P ++ A ++ S).
Proof. exact record_substitution. Qed.

(* insertions and deletions: anchored by the preceding base x, POS moved one to the left, both alleles start with x *)
Theorem C09_record_anchored : forall x0 P x R A S pos,
  pos = x0 + zlen P + 1 -> 4 <= pos -> (R = [] \/ A = []) ->
  exists r, mk_record (pos - 1) (mkAl R (Some x)) (mkAl A (Some x)) None = Ok r /\
            rec_ok x0 (P ++ [x] ++ R ++ S) r (P ++ [x] ++ A ++ S) /\ vr_pos r = pos - 1.
Proof. exact record_anchored. Qed.

(* one row of a generated mutator, no background variants: the record written to the PAM VCF - anchored for an insertion or deletion,
   widened to the PAM codon where the row shares a codon with an edit - is valid against the protected sequence (pv: the nucleotide
   preceding the targeton) and REF->ALT reproduces the oligonucleotide.  Hypotheses as for C10_row_mave_nt_decodes; position >= 4: see the
   known finding about contig positions 2-3 *)
Theorem C09_row_pam_record_ok : forall c mr o x0 (T : dna) pv r,
  row_out c mr = Ok o -> o_vcf_pam o = Some r -> cx_gpo c = None -> mr_custom mr = false -> mr_vcf_nt mr = None ->
  p_seq (cx_alt c) = mkSeq x0 T -> p_prev (cx_alt c) = Some pv -> s_start (p_seq (cx_seq c)) = x0 -> 1 <= x0 ->
  mr_ref_pos mr = mr_alt_pos mr -> mr_end mr = get_end (mr_alt_pos mr) (zlen (mr_ref mr)) ->
  let a := mr_alt_pos mr - x0 in
  0 <= a -> a + zlen (mr_ref mr) <= zlen T -> 4 <= mr_alt_pos mr ->
  x0 <= opt_min (mr_alt_pos mr) (mr_start_ppe mr) -> opt_max (mr_end mr) (mr_end_ppe mr) <= x0 + zlen T - 1 ->
  mr_oligo mr = zfirstn a T ++ mr_alt mr ++ zskipn (a + zlen (mr_ref mr)) T ->
  rec_ok (x0 - 1) (pv :: T) r (pv :: mr_oligo mr).
Proof. exact row_pam_record_ok. Qed.

(* ... and the record written to the REF VCF (with or without background variants) is valid against the unprotected reference and
   REF->ALT yields the reference carrying only the row's mutation *)
Theorem C09_row_ref_record_ok : forall c mr o x0 (R : dna) pr r,
  row_out c mr = Ok o -> o_vcf_ref o = Some r -> mr_custom mr = false -> mr_vcf_nt mr = None ->
  p_seq (cx_seq c) = mkSeq x0 R -> p_prev (cx_seq c) = Some pr -> 1 <= x0 ->
  let a := mr_ref_pos mr - x0 in
  0 <= a -> a + zlen (mr_ref mr) <= zlen R -> 4 <= mr_ref_pos mr ->
  rec_ok (x0 - 1) (pr :: R) r (pr :: zfirstn a R ++ mr_alt mr ++ zskipn (a + zlen (mr_ref mr)) R).
Proof. exact row_ref_record_ok. Qed.

(* non-vacuity: the SNV at 103 sharing a codon with the PAM edit at 104: PAM record 103 TT>AT (SGE_REF=TA), REF record 103 T>A *)
Example C09_row_example :
  match row_out ex_ctx ex_row with
  | Ok o => match o_vcf_pam o, o_vcf_ref o with
            | Some r2, Some r1 =>
                r2 = mkRec 103 (d "TT") (d "AT") (Some (d "TA")) /\ r1 = mkRec 103 (d "T") (d "A") None /\
                rec_ok 99 (G :: d "ACGTTCGTAC") r2 (G :: d "ACGATCGTAC") /\ rec_ok 99 (G :: d "ACGTACGTAC") r1 (G :: d "ACGAACGTAC")
            | _, _ => False
            end
  | Err _ => False
  end.
Proof. exact row_records_example. Qed.

(* the PAM record of a generated mutator under background variants: POS is a reference coordinate (C06), REF / ALT are read in the protected
   background sequence T; the record is valid against T anchored so that the mutation (or, widened to a PAM codon, the window start) sits at
   its reference coordinate - delta is the difference between the reference and the background coordinate - and REF->ALT reproduces the
   oligonucleotide *)
Theorem C09_row_pam_record_ok_under_background : forall c g mr o xa (T : dna) pv r,
  row_out c mr = Ok o -> o_vcf_pam o = Some r -> cx_gpo c = Some g -> mr_custom mr = false -> mr_vcf_nt mr = None ->
  p_seq (cx_alt c) = mkSeq xa T -> p_prev (cx_alt c) = Some pv -> 1 <= xa ->
  mr_end mr = get_end (mr_alt_pos mr) (zlen (mr_ref mr)) ->
  let a := mr_alt_pos mr - xa in
  0 <= a -> a + zlen (mr_ref mr) <= zlen T -> 4 <= mr_ref_pos mr ->
  xa <= opt_min (mr_alt_pos mr) (mr_start_ppe mr) -> opt_max (mr_end mr) (mr_end_ppe mr) <= xa + zlen T - 1 ->
  (forall y, alt_to_ref_position g (opt_min (mr_alt_pos mr) (mr_start_ppe mr)) = Ok (Some y) -> 1 <= y) ->
  mr_oligo mr = zfirstn a T ++ mr_alt mr ++ zskipn (a + zlen (mr_ref mr)) T ->
  exists delta,
    (delta = mr_ref_pos mr - mr_alt_pos mr \/
     exists ya, alt_to_ref_position g (opt_min (mr_alt_pos mr) (mr_start_ppe mr)) = Ok (Some ya) /\ delta = ya - opt_min (mr_alt_pos mr) (mr_start_ppe mr)) /\
    rec_ok (xa + delta - 1) (pv :: T) r (pv :: mr_oligo mr).
Proof. exact row_pam_record_ok_bg. Qed.

(* ... and of a custom variant under background variants (insertion / deletion with its own anchor; substitution / deletion-insertion) *)
Theorem C09_custom_indel_pam_record_ok_under_background : forall c g mr o xa (T : dna) pv r v,
  row_out c mr = Ok o -> o_vcf_pam o = Some r -> cx_gpo c = Some g -> mr_custom mr = true -> mr_vcf_nt mr = Some v -> 4 <= mr_alt_pos mr ->
  p_seq (cx_alt c) = mkSeq xa T -> p_prev (cx_alt c) = Some pv -> 1 <= xa ->
  mr_end mr = get_end (mr_alt_pos mr) (zlen (mr_ref mr)) ->
  let a := mr_alt_pos mr - xa in
  0 <= a -> a + zlen (mr_ref mr) <= zlen T -> 4 <= mr_ref_pos mr ->
  xa <= opt_min (mr_alt_pos mr) (mr_start_ppe mr) -> opt_max (mr_end mr) (mr_end_ppe mr) <= xa + zlen T - 1 ->
  (forall y, alt_to_ref_position g (opt_min (mr_alt_pos mr) (mr_start_ppe mr)) = Ok (Some y) -> 1 <= y) ->
  mr_oligo mr = zfirstn a T ++ mr_alt mr ++ zskipn (a + zlen (mr_ref mr)) T ->
  exists delta,
    (delta = mr_ref_pos mr - mr_alt_pos mr \/
     exists ya, alt_to_ref_position g (opt_min (mr_alt_pos mr) (mr_start_ppe mr)) = Ok (Some ya) /\ delta = ya - opt_min (mr_alt_pos mr) (mr_start_ppe mr)) /\
    rec_ok (xa + delta - 1) (pv :: T) r (pv :: mr_oligo mr).
Proof. exact row_pam_record_ok_bg_custom_indel. Qed.

Theorem C09_custom_subst_pam_record_ok_under_background : forall c g mr o xa (T : dna) pv r,
  row_out c mr = Ok o -> o_vcf_pam o = Some r -> cx_gpo c = Some g -> mr_custom mr = true -> mr_vcf_nt mr = None ->
  mr_ref mr <> [] -> mr_alt mr <> [] ->
  p_seq (cx_alt c) = mkSeq xa T -> p_prev (cx_alt c) = Some pv -> 1 <= xa ->
  mr_end mr = get_end (mr_alt_pos mr) (zlen (mr_ref mr)) ->
  let a := mr_alt_pos mr - xa in
  0 <= a -> a + zlen (mr_ref mr) <= zlen T -> 4 <= mr_ref_pos mr ->
  xa <= opt_min (mr_alt_pos mr) (mr_start_ppe mr) -> opt_max (mr_end mr) (mr_end_ppe mr) <= xa + zlen T - 1 ->
  (forall y, alt_to_ref_position g (opt_min (mr_alt_pos mr) (mr_start_ppe mr)) = Ok (Some y) -> 1 <= y) ->
  mr_oligo mr = zfirstn a T ++ mr_alt mr ++ zskipn (a + zlen (mr_ref mr)) T ->
  exists delta,
    (delta = mr_ref_pos mr - mr_alt_pos mr \/
     exists ya, alt_to_ref_position g (opt_min (mr_alt_pos mr) (mr_start_ppe mr)) = Ok (Some ya) /\ delta = ya - opt_min (mr_alt_pos mr) (mr_start_ppe mr)) /\
    rec_ok (xa + delta - 1) (pv :: T) r (pv :: mr_oligo mr).
Proof. exact row_pam_record_ok_bg_custom_subst. Qed.

(* rows of custom variants.  An insertion or deletion carries the anchor of its own VCF record (vcf_nt = v): when v is the reference base
   before the change - the record's REF matched the genome - the REF-VCF record is valid against the reference and reproduces the mutated
   reference; substitutions and deletion-insertions (no anchor) likewise; the PAM-VCF records take the protected base as anchor and are
   valid against the protected sequence *)
Theorem C09_custom_indel_ref_record_ok : forall c mr o x0 (R : dna) pr r v,
  row_out c mr = Ok o -> o_vcf_ref o = Some r -> mr_custom mr = true -> mr_vcf_nt mr = Some v ->
  get_nt (cx_seq c) (mr_ref_pos mr - 1) = Ok v -> 1 < mr_alt_pos mr -> (mr_ref mr = [] \/ mr_alt mr = []) ->
  p_seq (cx_seq c) = mkSeq x0 R -> p_prev (cx_seq c) = Some pr -> 1 <= x0 ->
  let a := mr_ref_pos mr - x0 in
  0 <= a -> a + zlen (mr_ref mr) <= zlen R -> 4 <= mr_ref_pos mr ->
  rec_ok (x0 - 1) (pr :: R) r (pr :: zfirstn a R ++ mr_alt mr ++ zskipn (a + zlen (mr_ref mr)) R).
Proof. exact row_ref_record_ok_custom_indel. Qed.

Theorem C09_custom_subst_ref_record_ok : forall c mr o x0 (R : dna) pr r,
  row_out c mr = Ok o -> o_vcf_ref o = Some r -> mr_custom mr = true -> mr_vcf_nt mr = None ->
  mr_ref mr <> [] -> mr_alt mr <> [] ->
  p_seq (cx_seq c) = mkSeq x0 R -> p_prev (cx_seq c) = Some pr -> 1 <= x0 ->
  let a := mr_ref_pos mr - x0 in
  0 <= a -> a + zlen (mr_ref mr) <= zlen R -> 4 <= mr_ref_pos mr ->
  rec_ok (x0 - 1) (pr :: R) r (pr :: zfirstn a R ++ mr_alt mr ++ zskipn (a + zlen (mr_ref mr)) R).
Proof. exact row_ref_record_ok_custom_subst. Qed.

Theorem C09_custom_indel_pam_record_ok : forall c mr o x0 (T : dna) pv r v,
  row_out c mr = Ok o -> o_vcf_pam o = Some r -> cx_gpo c = None -> mr_custom mr = true -> mr_vcf_nt mr = Some v ->
  (mr_ref mr = [] \/ mr_alt mr = []) ->
  p_seq (cx_alt c) = mkSeq x0 T -> p_prev (cx_alt c) = Some pv -> s_start (p_seq (cx_seq c)) = x0 -> 1 <= x0 ->
  mr_ref_pos mr = mr_alt_pos mr -> mr_end mr = get_end (mr_alt_pos mr) (zlen (mr_ref mr)) ->
  let a := mr_alt_pos mr - x0 in
  0 <= a -> a + zlen (mr_ref mr) <= zlen T -> 4 <= mr_alt_pos mr ->
  x0 <= opt_min (mr_alt_pos mr) (mr_start_ppe mr) -> opt_max (mr_end mr) (mr_end_ppe mr) <= x0 + zlen T - 1 ->
  mr_oligo mr = zfirstn a T ++ mr_alt mr ++ zskipn (a + zlen (mr_ref mr)) T ->
  rec_ok (x0 - 1) (pv :: T) r (pv :: mr_oligo mr).
Proof. exact row_pam_record_ok_custom_indel. Qed.

Theorem C09_custom_subst_pam_record_ok : forall c mr o x0 (T : dna) pv r,
  row_out c mr = Ok o -> o_vcf_pam o = Some r -> cx_gpo c = None -> mr_custom mr = true -> mr_vcf_nt mr = None ->
  mr_ref mr <> [] -> mr_alt mr <> [] ->
  p_seq (cx_alt c) = mkSeq x0 T -> p_prev (cx_alt c) = Some pv -> s_start (p_seq (cx_seq c)) = x0 -> 1 <= x0 ->
  mr_ref_pos mr = mr_alt_pos mr -> mr_end mr = get_end (mr_alt_pos mr) (zlen (mr_ref mr)) ->
  let a := mr_alt_pos mr - x0 in
  0 <= a -> a + zlen (mr_ref mr) <= zlen T -> 4 <= mr_alt_pos mr ->
  x0 <= opt_min (mr_alt_pos mr) (mr_start_ppe mr) -> opt_max (mr_end mr) (mr_end_ppe mr) <= x0 + zlen T - 1 ->
  mr_oligo mr = zfirstn a T ++ mr_alt mr ++ zskipn (a + zlen (mr_ref mr)) T ->
  rec_ok (x0 - 1) (pv :: T) r (pv :: mr_oligo mr).
Proof. exact row_pam_record_ok_custom_subst. Qed.

(* non-vacuity: the custom deletion 105 CG>C *)
Example C09_custom_example :
  match row_out ex_ctx ex_custom_del with
  | Ok o => match o_vcf_ref o, o_vcf_pam o with
            | Some r1, Some r2 =>
                r1 = mkRec 105 (d "CG") (d "C") None /\ r2 = mkRec 105 (d "CG") (d "C") None /\
                rec_ok 99 (G :: d "ACGTACGTAC") r1 (G :: d "ACGTACTAC") /\ rec_ok 99 (G :: d "ACGTTCGTAC") r2 (G :: d "ACGTTCTAC")
            | _, _ => False
            end
  | Err _ => False
  end.
Proof. exact custom_records_example. Qed.

(* SGE_REF is present exactly when the unprotected allele differs from REF over the record's span, and then equals it *)
Theorem C09_sge_ref_iff : forall start ref alt sge r,
  mk_record start ref alt (Some sge) = Ok r ->
  exists s, from_partial_start start ref alt = Ok s /\
    (vr_sge_ref r = None <-> get_vcf_allele sge s = vr_ref r) /\
    (forall x, vr_sge_ref r = Some x -> x = get_vcf_allele sge s).
Proof. exact sge_ref_iff. Qed.

(* non-vacuity: deletion of AG after T at position 10 of a contig starting ...; record 9 TAG>T *)
Example C09_example :
  mk_record 9 (mkAl (d "AG") (Some T)) (mkAl [] (Some T)) None = Ok (mkRec 9 (d "TAG") (d "T") None).
Proof. vm_compute. reflexivity. Qed.

(* the span a row is reported on when it shares a codon with a PAM edit (MetaRow.pam_ref_start / pam_ref_end / pam_ref_range / overlaps_codon,
   translated from meta_row.py on every run: optional columns narrowed by `is None`) is the span of the to_csv model the theorems above
   speak about: from the smaller of the mutation's start and the edit at its first codon to the larger of its end and the edit at its last codon *)
Theorem C09_widened_span_matches_source : forall mr,
  k_mr_pam_ref_range mr = mk_range (opt_min (mr_alt_pos mr) (mr_start_ppe mr)) (opt_max (mr_end mr) (mr_end_ppe mr)) /\
  k_mr_overlaps_codon mr = Ok (is_some (mr_start_exon mr) || is_some (mr_end_exon mr)) /\
  k_mr_alt_ref_range mr = mk_range (mr_alt_pos mr) (mr_end mr).
Proof. intros mr. exact (conj (k_mr_pam_ref_range_eq mr) (conj (k_mr_overlaps_codon_eq mr) (k_mr_alt_ref_range_eq mr))). Qed.

Print Assumptions C09_record_substitution.
Print Assumptions C09_record_anchored.
Print Assumptions C09_sge_ref_iff.
Print Assumptions C09_row_pam_record_ok.
Print Assumptions C09_row_ref_record_ok.
Print Assumptions C09_custom_indel_ref_record_ok.
Print Assumptions C09_custom_subst_ref_record_ok.
Print Assumptions C09_custom_indel_pam_record_ok.
Print Assumptions C09_custom_subst_pam_record_ok.
Print Assumptions C09_custom_example.
Print Assumptions C09_row_pam_record_ok_under_background.
Print Assumptions C09_custom_indel_pam_record_ok_under_background.
Print Assumptions C09_custom_subst_pam_record_ok_under_background.
Print Assumptions C09_widened_span_matches_source.
