(* C09 - output VCF records are valid against their reference and reproduce the oligo.
   Kernel level: the record built by the model of vcf_writer.py from the alleles that the model of the to_csv loop
   body (Model/ToCsv.v) hands to it.  The choice of alleles per row (anchors, widening to PAM codons) is tied to the
   code row by row by the correspondence and judged by the independent oracle of the check (partial). *)
From VV Require Import Model.Base Model.Pattern Model.Seq Model.Vcf Model.ToCsv Proofs.VcfRecordProofs.

(* substitutions and widened records (both alleles non-empty, no anchor): no empty allele, REF is the sequence at POS,
   REF->ALT reproduces the target, for any flanks P, S *)
Theorem C09_record_substitution : forall x0 P R A S pos,
  R <> [] -> A <> [] -> pos = x0 + zlen P -> 1 <= pos ->
  exists r, mk_record (pos - 1) (mkAl R None) (mkAl A None) None = Ok r /\ rec_ok x0 (P ++ R ++ S) r (P ++ A ++ S).
Proof. exact record_substitution. Qed.

(* insertions and deletions: anchored by the preceding base x, POS moved one to the left, both alleles start with x *)
Theorem C09_record_anchored : forall x0 P x R A S pos,
  pos = x0 + zlen P + 1 -> 4 <= pos -> (R = [] \/ A = []) ->
  exists r, mk_record (pos - 1) (mkAl R (Some x)) (mkAl A (Some x)) None = Ok r /\
            rec_ok x0 (P ++ [x] ++ R ++ S) r (P ++ [x] ++ A ++ S) /\ vr_pos r = pos - 1.
Proof. exact record_anchored. Qed.

(* SGE_REF is present exactly when the unprotected allele differs from REF over the record's span, and then equals it *)
Theorem C09_sge_ref_iff : forall start ref alt sge r,
  mk_record start ref alt (Some sge) = Ok r ->
  exists s, from_partial_start start ref alt = Ok s /\
    (vr_sge_ref r = None <-> get_vcf_allele sge s = vr_ref r) /\
    (forall x, vr_sge_ref r = Some x -> x = get_vcf_allele sge s).
Proof. exact sge_ref_iff. Qed.

(* non-vacuity: deletion of AG after T at position 10 of a contig starting ...; record 9 TAG>T *)
Example C09_example :
  mk_record 9 (mkAl (d "AG") (Some T)) (mkAl [] (Some T)) None = Ok (mkRec 9 (d "TAG") (d "T") None).
Proof. vm_compute. reflexivity. Qed.

Print Assumptions C09_record_substitution.
Print Assumptions C09_record_anchored.
Print Assumptions C09_sge_ref_iff.
