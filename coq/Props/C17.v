(* C17 - codon choice and translation follow the codon table in use. *)
From VV Require Import Model.Base Model.Pattern Model.CodonTable Spec.StdCode Proofs.CodonTableProofs Proofs.DefaultTableProofs Generated.DefaultTable Proofs.LoadTableProofs.
From Coq Require Import Sorting.Permutation.
Local Open Scope Z_scope.

(* with the default table (re-read from /repo's CSV on every run) translation is the standard genetic code,
   for each of the 64 codons, on the plus strand ... *)
Theorem C17_default_is_standard_code : forall a b c,
  translate (from_list default_rows false) [a; b; c] = Ok (std_code3 a b c).
Proof. exact default_is_standard_code. Qed.

(* ... and on the minus strand, where the genomic codon is the reverse complement of the transcript codon *)
Theorem C17_default_is_standard_code_minus : forall a b c,
  translate (from_list default_rows true) (revcomp [a; b; c]) = Ok (std_code3 a b c).
Proof. exact default_is_standard_code_minus. Qed.

(* the codon used for an amino acid has the smallest rank among its codons *)
Theorem C17_top_is_min_rank : forall t a c, get_top_codon t a = Ok c ->
  exists r, In r t /\ c_aa r = a /\ c_codon r = c /\ forall r', In r' t -> c_aa r' = a -> c_rank r <= c_rank r'.
Proof. exact top_is_min_rank. Qed.

(* the fallback of SNVRE is the second in rank *)
Theorem C17_second_is_second_min : forall t a c2, get_second_best_codon t a = Ok (Some c2) ->
  exists r1 r2 rest, sort_by_rank (rows_of t a) = r1 :: r2 :: rest /\ c_codon r2 = c2 /\
    get_top_codon t a = Ok (c_codon r1) /\ c_rank r1 <= c_rank r2 /\ forall x, In x rest -> c_rank r2 <= c_rank x.
Proof. exact second_is_second_min. Qed.

(* synonymous codons are exactly the other codons of the same amino acid *)
Theorem C17_synonymous_exact : forall t c l, get_synonymous_codons t c = Ok l ->
  forall x, In x l <-> x <> c /\ exists r a, In r t /\ c_codon r = x /\ c_aa r = a /\ translate_opt t c = Some a.
Proof. exact synonymous_exact. Qed.

(* a user table is honoured whatever the order of its rows (distinct codons, distinct ranks per amino acid) *)
Theorem C17_row_order_irrelevant : forall t t', Permutation t t' -> NoDup (map c_codon t) -> ranks_distinct t ->
  (forall a, codons_of t a = codons_of t' a) /\ (forall c, translate_opt t c = translate_opt t' c).
Proof. exact row_order_irrelevant. Qed.

(* minus-strand lookups are the reverse complements of the plus-strand lookups of the same transcript *)
Theorem C17_rc_table_transport : forall rows a c,
  translate (from_list rows true) (revcomp c) = translate (from_list rows false) c /\
  get_top_codon (from_list rows true) a = map_res revcomp (get_top_codon (from_list rows false) a) /\
  get_second_best_codon (from_list rows true) a = map_res (option_map revcomp) (get_second_best_codon (from_list rows false) a).
Proof. exact rc_table_transport. Qed.

(* malformed rows are rejected: an accepted row has 4 columns, a frequency in [0,1], a 3-letter ACGT codon,
   a one-character or STOP amino acid, a rank starting with RANK and a non-empty suffix *)
Theorem C17_loader_rejects : forall fields freq_ok r, parse_row fields freq_ok = Ok r ->
  exists codon a f rank, fields = [codon; a; f; rank] /\ freq_ok = true /\
    dna_of_string codon = Some (c_codon r) /\ zlen (c_codon r) = 3 /\
    c_aa r = a /\ (String.length a = 1%nat \/ a = STOP) /\
    String.prefix "RANK" rank = true /\ (4 < String.length rank)%nat.
Proof. exact loader_rejects. Qed.

(* non-vacuity: the default table has 64 rows and satisfies the hypotheses of the row-order theorem *)
Example C17_default_rows_64 : length default_rows = 64%nat.
Proof. vm_compute. reflexivity. Qed.

(* whole files (load_codon_table_rows): a table is loaded line by line - as many rows as lines, each the parse of its line, in file order - and
   one defective line anywhere (empty, short, bad codon / amino acid / frequency / rank) refuses the file: nothing is skipped, nothing ends
   the reading early *)
Theorem C17_table_loaded_line_by_line : forall lines t, load_table lines = Ok t ->
  length t = length lines /\ Forall2 (fun l r => parse_row (fst l) (snd l) = Ok r) lines t.
Proof. exact load_table_rows. Qed.

Theorem C17_defective_line_refuses_table : forall lines l,
  In l lines -> is_ok (parse_row (fst l) (snd l)) = false -> is_ok (load_table lines) = false.
Proof. exact load_table_defective_line. Qed.

Print Assumptions C17_default_is_standard_code.
Print Assumptions C17_default_is_standard_code_minus.
Print Assumptions C17_top_is_min_rank.
Print Assumptions C17_second_is_second_min.
Print Assumptions C17_synonymous_exact.
Print Assumptions C17_row_order_irrelevant.
Print Assumptions C17_rc_table_transport.
Print Assumptions C17_loader_rejects.
Print Assumptions C17_table_loaded_line_by_line.
Print Assumptions C17_defective_line_refuses_table.
