(* C13 - a targeton's outputs do not depend on the other targetons of the run.
   Only statements, closed by `exact`, and their assumptions.  Generated/DbTables.v is re-read from /repo (db.py,
   queries.py, data/ddl.sql, sge_proc.py, targeton.py, meta_table.py, cdna_proc.py) on every run. *)
From VV Require Import Model.Base Model.Pattern Model.Gpo Model.History Spec.LiftSpec Generated.DbTables Proofs.HistoryProofs Proofs.ContextProofs.

Definition subset_s (a b : list string) : bool := forallb (fun x => existsb (String.eqb x) b) a.
Definition disjoint_s (a b : list string) : bool := forallb (fun x => negb (existsb (String.eqb x) b)) a.

(* the shared database as a state machine: if the body of proc_targeton writes only tables that the clear at its start
   empties, and its result depends only on the database it sees, then the files of a targeton are the same after any
   completed prefix of other targetons (any number, any order) as when it is processed alone *)
Theorem C13_history_independent : forall (R T F : Type) (body : @db R -> T -> @db R * option F)
  (per_targeton written reads : list string),
  (forall d t, agree_off written (fst (body d t)) d) ->
  (forall d1 d2 t, agree_on reads d1 d2 -> snd (body d1 t) = snd (body d2 t)) ->
  (forall n, In n written -> In n per_targeton) ->
  forall d pre t post,
  completes body per_targeton d pre ->
  nth_error (run body per_targeton d (pre ++ t :: post)) (length pre) = nth_error (run body per_targeton d [t]) 0.
Proof. exact @history_independent. Qed.

(* processing a targeton leaves every other table as it found it (nothing leaks to the next targeton through them) *)
Theorem C13_frame : forall (R T F : Type) (body : @db R -> T -> @db R * option F) (per_targeton written : list string),
  (forall d t, agree_off written (fst (body d t)) d) ->
  (forall n, In n written -> In n per_targeton) ->
  forall d t, agree_off per_targeton (fst (proc_targeton body per_targeton d t)) d.
Proof. exact @proc_targeton_frame. Qed.

(* the side conditions, on the source as it is now: every table written while a targeton is processed (call graph
   from proc_targeton over sge_proc/targeton/queries/meta_table) is in PER_TARGETON_TABLES; the clear of exactly
   that set is the first statement of proc_targeton; proc_contig starts by clearing PER_CONTIG_TABLES and every table it
   writes is a per-targeton or per-contig one (`exons` and `sgrna_ids` included since a068862: before, a second annotated contig
   failed on their unique indexes); the cDNA proc_targeton clears both sets; the two sets
   are disjoint and name existing tables *)
Theorem C13_written_tables_cleared :
  fact_extracted = true /\
  subset_s sge_targeton_writes per_targeton_tables = true /\
  sge_proc_targeton_first = ["clear_per_targeton_tables"]%string /\
  sge_proc_contig_first = ["clear_per_contig_tables"]%string /\
  cdna_proc_targeton_first = ["clear_per_contig_tables"; "clear_per_targeton_tables"]%string /\
  subset_s sge_contig_writes (per_targeton_tables ++ per_contig_tables) = true /\
  disjoint_s per_contig_tables per_targeton_tables = true /\
  subset_s (per_contig_tables ++ per_targeton_tables) ddl_tables = true.
Proof. vm_compute. repeat split. Qed.

(* with background variants the context (and with it the set of variants the liftover sees) depends on the other targetons
   of the run.  A wider context that brings in variants upstream of a position moves its background coordinate by their net
   length, variants downstream change nothing ... *)
Theorem C13_context_extension : forall pre vs post p,
  all_before pre p -> all_after post p ->
  r2a (pre ++ vs ++ post) p = option_map (fun q => q + sum_delta pre) (r2a vs p).
Proof. exact r2a_context_extension. Qed.
(* ... and the reference position reported for it is the same in both contexts *)
Theorem C13_reported_position_context_free : forall lo hi lo' hi' pre vs post p q q',
  wf lo hi vs -> wf lo' hi' (pre ++ vs ++ post) -> lo <= p -> lo' <= p ->
  r2a vs p = Some q -> r2a (pre ++ vs ++ post) p = Some q' ->
  a2r vs q = Some p /\ a2r (pre ++ vs ++ post) q' = Some p.
Proof. exact reported_position_context_free. Qed.

(* non-vacuity: a toy body that writes one per-targeton table and reads a per-contig one *)
Example C13_example :
  let body := fun (d : @db nat) (t : nat) => (("alt_pattern_variants"%string, [t]) :: d, Some (t + length (get d "custom_variants"%string))%nat) in
  let d0 := [("custom_variants"%string, [7; 8]%nat); ("alt_pattern_variants"%string, [])] in
  run body per_targeton_tables d0 [1; 2; 3]%nat = [(1, Some 3); (2, Some 4); (3, Some 5)]%nat /\
  run body per_targeton_tables d0 [3]%nat = [(3, Some 5)]%nat.
Proof. vm_compute. auto. Qed.

Print Assumptions C13_history_independent.
Print Assumptions C13_frame.
Print Assumptions C13_written_tables_cleared.
Print Assumptions C13_context_extension.
Print Assumptions C13_reported_position_context_free.
