(* C16 - config.json reproduces the run; configuration is validated.
   Only statements, closed by `exact`, and their assumptions.  Generated/ConfigFields.v is re-read from /repo
   (config.py, sge_config.py, cdna_config.py, main_config.py, sge_cli.py, cdna_cli.py, common_cli.py, README.md) on every run. *)
From VV Require Import Model.Base Model.Config Generated.ConfigFields Proofs.ConfigProofs.

(* dumping by alias and loading by alias-or-name is the identity on configurations, for any field list whose aliases and
   names are distinct *)
Theorem C16_dump_load_roundtrip : forall fs c o,
  NoDup (map f_alias fs) -> NoDup (map f_name fs) -> shaped fs c -> dump fs c = Ok o -> load fs o = Ok c.
Proof. exact dump_load_roundtrip. Qed.

(* ... in particular for the fields declared in the source now: SGE parameters, cDNA parameters, the envelope *)
Theorem C16_roundtrip_sge : forall c o,
  shaped (decls (base_fields ++ sge_fields)) c -> dump (decls (base_fields ++ sge_fields)) c = Ok o ->
  load (decls (base_fields ++ sge_fields)) o = Ok c.
Proof. exact (fun c o => roundtrip_of_fields (base_fields ++ sge_fields) c o eq_refl eq_refl). Qed.
Theorem C16_roundtrip_cdna : forall c o,
  shaped (decls (base_fields ++ cdna_fields)) c -> dump (decls (base_fields ++ cdna_fields)) c = Ok o ->
  load (decls (base_fields ++ cdna_fields)) o = Ok c.
Proof. exact (fun c o => roundtrip_of_fields (base_fields ++ cdna_fields) c o eq_refl eq_refl). Qed.
Theorem C16_roundtrip_envelope : forall c o,
  shaped (decls main_fields) c -> dump (decls main_fields) c = Ok o -> load (decls main_fields) o = Ok c.
Proof. exact (fun c o => roundtrip_of_fields main_fields c o eq_refl eq_refl). Qed.

Definition names (fields : list (string * string * bool)) : list string := map (fun t : string * string * bool => fst (fst t)) fields.
Definition aliases (fields : list (string * string * bool)) : list string := map (fun t : string * string * bool => snd (fst t)) fields.
Definition mem (x : string) (l : list string) : bool := existsb (String.eqb x) l.
Definition sub (a b : list string) : bool := forallb (fun x => mem x b) a.
Definition alias_of (fields : list (string * string * bool)) (n : string) : option string :=
  option_map (fun t : string * string * bool => snd (fst t)) (find (fun t : string * string * bool => String.eqb (fst (fst t)) n) fields).
Definition dest_of (opts : list (string * string)) (spelling : string) : option string :=
  option_map fst (find (fun p => String.eqb (snd p) spelling || String.eqb (fst p) spelling) opts).

(* every command-line argument and option is forwarded to the configuration field of the same name, every field is
   set from the command line (nothing dropped, nothing crossed), and only --sequences-only / --log are not parameters *)
Theorem C16_cli_passes_every_field :
  fact_extracted = true /\
  forallb (fun p => String.eqb (fst p) (snd p)) (sge_cli_forward ++ cdna_cli_forward) = true /\
  sub (names (base_fields ++ sge_fields)) (map fst sge_cli_forward) = true /\
  sub (map fst sge_cli_forward) (names (base_fields ++ sge_fields)) = true /\
  sub (names (base_fields ++ cdna_fields)) (map fst cdna_cli_forward) = true /\
  sub (map fst cdna_cli_forward) (names (base_fields ++ cdna_fields)) = true /\
  sub (map snd sge_cli_forward) sge_cli_params = true /\ sub (map snd cdna_cli_forward) cdna_cli_params = true /\
  sub sge_cli_params ("sequences_only" :: map snd sge_cli_forward)%string = true /\
  sub cdna_cli_params (map snd cdna_cli_forward) = true /\
  sub sge_cli_params (map fst sge_cli_options) = true /\ sub cdna_cli_params (map fst cdna_cli_options) = true.
Proof. vm_compute. repeat split. Qed.

(* the JSON property documented in the README for each command-line argument/option is the alias of the field that
   option sets, and every field is documented *)
Theorem C16_aliases_match_readme :
  forallb (fun p => match dest_of (sge_cli_options ++ cdna_cli_options) (fst p) with
                    | Some dest => match alias_of (base_fields ++ sge_fields ++ cdna_fields) dest with
                                   | Some a => String.eqb a (snd p) | None => false end
                    | None => false end) readme_cli_json = true /\
  sub (aliases (base_fields ++ sge_fields ++ cdna_fields)) (map snd readme_cli_json) = true /\
  aliases main_fields = ["appName"; "appVersion"; "mode"; "params"]%string /\ populate_by_name = true.
Proof. vm_compute. repeat split. Qed.

(* validation: adaptors over ACGT or absent, both limits >= 1, frame-shift forcing only with non-synonymous forcing;
   and the constructor of the configuration classes calls it *)
Theorem C16_is_valid_iff : forall a5 a3 mn mx ns fs,
  sge_valid a5 a3 mn mx ns fs = true <->
  adaptor_valid a5 = true /\ adaptor_valid a3 = true /\ 1 <= mn /\ 1 <= mx /\ (fs = true -> ns = true).
Proof. exact sge_valid_iff. Qed.
Theorem C16_adaptor_valid_iff : forall s, is_dna_str s = true <-> exists l, dna_of_string s = Some l.
Proof. exact adaptor_valid_iff. Qed.
Theorem C16_init_validates : init_validates = true.
Proof. reflexivity. Qed.

(* valiant -c: the run starts only if the file parses, the mode is sge or cdna, the output directory exists and every
   input file exists *)
Theorem C16_config_run_iff : forall parses valid_mode dir_ok files_ok,
  main_config_run parses valid_mode dir_ok files_ok = Ran <-> parses = true /\ valid_mode = true /\ dir_ok = true /\ files_ok = true.
Proof. exact main_config_run_iff. Qed.

(* non-vacuity: a two-field configuration round-trips, and a clash of an alias with another field's name is refused by the premise *)
Example C16_example :
  let fs := [mkF "adaptor_5" "adaptor5" None; mkF "min_length" "minOligoLength" None]%string in
  let c := [("adaptor_5", JStr "ACGT"); ("min_length", JInt 1)]%string in
  dump fs c = Ok [("adaptor5", JStr "ACGT"); ("minOligoLength", JInt 1)]%string /\
  load fs [("adaptor5", JStr "ACGT"); ("minOligoLength", JInt 1)]%string = Ok c.
Proof. vm_compute. auto. Qed.

Print Assumptions C16_dump_load_roundtrip.
Print Assumptions C16_roundtrip_sge.
Print Assumptions C16_roundtrip_cdna.
Print Assumptions C16_roundtrip_envelope.
Print Assumptions C16_cli_passes_every_field.
Print Assumptions C16_aliases_match_readme.
Print Assumptions C16_is_valid_iff.
Print Assumptions C16_adaptor_valid_iff.
Print Assumptions C16_init_validates.
Print Assumptions C16_config_run_iff.
