(* C15 - background variants that change the protein are refused unless explicitly forced.
   Only statements, closed by `exact`, and their assumptions. *)
From Coq Require Import Permutation.
From VV Require Import Model.Base Model.Pattern Model.CodonTable Model.BgValidate Proofs.BgValidateProofs
  Model.Gpo Model.PpeSeq Spec.LiftSpec Proofs.GpoTop Proofs.PpeLiftProofs Model.Transcript Model.CodonsInRange Proofs.CodonsInRangeProofs
  Model.Seq Model.Vcf Model.PyLoop Generated.KernelsLift Proofs.KernelLiftEquiv Generated.KernelsAnnot Proofs.KernelAnnotEquiv.

(* the loop of validate_background_variants refuses exactly when some variant starting in the targeton is counted as
   protein changing and force-bg-ns is off, or is also length changing and force-bg-indels is off *)
Theorem C15_refusal_iff : forall t allow_ns allow_fs vs, (forall v, In v vs -> translatable t v) ->
  validate t allow_ns allow_fs vs =
    if (existsb (changes t) vs && negb allow_ns) || (existsb (fun v => changes t v && frame_shifting v) vs && negb allow_fs)
    then Err InvalidBackgroundVariant else Ok tt.
Proof. exact refusal_iff. Qed.

(* "protein changing": the variant touches a codon and either changes the coding length or some codon it touches
   translates differently before and after (a stop replaced by a stop is no difference) *)
Theorem C15_changes_iff : forall t v, translatable t v ->
  (changes t v = true <->
   b_codons v <> [] /\ (b_delta v <> 0 \/
     exists c a b, In c (b_codons v) /\ translate t (fst c) = Ok a /\ translate t (snd c) = Ok b /\ a <> b)).
Proof. exact changes_iff. Qed.

(* the documented rule, for valid flag combinations: force-bg-ns tolerates amino-acid changes, both flags together
   tolerate length changes in coding sequence, everything else (synonymous, non-coding) is always accepted; and the
   validation never ends in any other way *)
Theorem C15_refusal_rule : forall t force_ns force_fs vs,
  (forall v, In v vs -> translatable t v) -> flags_valid force_ns force_fs = true ->
  (validate t force_ns force_fs vs = Err InvalidBackgroundVariant <->
   (exists v, In v vs /\ changes t v = true /\ b_delta v = 0 /\ force_ns = false) \/
   (exists v, In v vs /\ changes t v = true /\ b_delta v <> 0 /\ (force_ns && force_fs) = false)) /\
  (validate t force_ns force_fs vs = Err InvalidBackgroundVariant \/ validate t force_ns force_fs vs = Ok tt).
Proof. exact refusal_rule. Qed.

(* the verdict does not depend on the order of the variants nor on variants that change nothing *)
Theorem C15_verdict_order_free : forall t ns fs vs vs', (forall v, In v vs -> translatable t v) -> Permutation vs vs' ->
  validate t ns fs vs = validate t ns fs vs'.
Proof. exact verdict_order_free. Qed.
Theorem C15_verdict_local : forall t ns fs vs w, (forall v, In v (w :: vs) -> translatable t v) -> changes t w = false ->
  validate t ns fs (w :: vs) = validate t ns fs vs.
Proof. exact verdict_local. Qed.

(* a PAM protection edit on a coding base inside the reference span of a background variant is refused, whatever the flags *)
Theorem C15_ppe_on_background_refused : forall ppes bgs,
  check_ppe_bg ppes bgs = Err InvalidBackgroundVariant <->
  exists p b, In (p, true) ppes /\ In b bgs /\ fst b <= p <= snd b.
Proof. exact ppe_on_background_refused. Qed.

(* a PAM protection edit of one of the targeton's guides on a base that a background variant deletes (coding or not, inside the
   targeton or not) cannot be applied and is refused, whatever the flags (fix 7b135b7); every other edit is lifted *)
Theorem C15_ppe_on_deleted_base_refused_iff : forall g r vs ppes, 0 < rs r -> wf (rs r) (re r) vs -> gpo_for g r vs ->
  check_liftable g ppes =
    if existsb (fun p => in_range p r && deleted vs p) ppes then Err InvalidBackgroundVariant else Ok tt.
Proof. exact check_liftable_iff. Qed.

(* which codons a variant is judged on (Transcript.get_codons_in_range): for every exonic position of the variant's reference span the
   codon holding it - completed across exon junctions exactly as get_codon_at reads it - is among the codons returned (identified by the
   position of its first base), and no codon is returned twice in a row *)
Theorem C15_codons_in_range_complete : forall t q r out,
  get_codons_in_range t q r = Ok out -> range_valid r = true -> sorted_after (-1) (t_exons t) ->
  forall p e, in_range p r = true -> exon_at_pos t p = Some e ->
  exists k cr c,
    codon_index_at (t_strand t) e p = Ok (Some k) /\ exon_get_codon (t_strand t) e k = Ok cr /\ in_range p cr = true /\
    get_cds_seq_exon t q e cr = Ok c /\ get_codon_at t q p = Ok (Some c) /\
    exists c', In c' out /\ ext_start c' = ext_start c.
Proof. exact codons_in_range_complete. Qed.

Theorem C15_codons_in_range_no_adjacent_dup : forall t q r c rest,
  get_codons_in_range t q r = Ok (c :: rest) -> no_adjacent_dup (ext_start c) rest.
Proof. exact codons_in_range_no_adjacent_dup. Qed.

(* non-vacuity: exons 5-8 | 12 | 15-22 (plus strand), a variant over 7-13 touches the codons starting at 5 and at 8 (the second one
   split over three exons and met twice) *)
Example C15_codons_example :
  codon_keys (get_variant_codons (mkTr Plus [mkEx 5 8 0 0; mkEx 12 12 1 2; mkEx 15 22 2 1]) (mkSeq 1 (d "ACGTACGTACGTACGTACGTACGTACGT")) 7 7)
  = Ok [(5, d "ACG"); (8, d "TTG")] /\ sorted_after (-1) [mkEx 5 8 0 0; mkEx 12 12 1 2; mkEx 15 22 2 1].
Proof. split; [vm_compute; reflexivity | cbn; lia]. Qed.

(* non-vacuity: a synonymous SNV, then a missense SNV, then a 1-base coding insertion *)
Example C15_example :
  let t := [mkRow (d "AAA") "K" 1; mkRow (d "AAG") "K" 2; mkRow (d "AGA") "R" 1]%string in
  let syn := mkBg 0 [(d "AAA", d "AAG")] in let mis := mkBg 0 [(d "AAA", d "AGA")] in let ins := mkBg 1 [(d "AAA", d "AAA")] in
  validate t false false [syn] = Ok tt /\ validate t false false [syn; mis] = Err InvalidBackgroundVariant /\
  validate t true false [mis; syn] = Ok tt /\ validate t true false [syn; ins] = Err InvalidBackgroundVariant /\
  validate t true true [ins; mis] = Ok tt.
Proof. vm_compute. repeat split. Qed.

(* which codons of an exon a variant's span reaches (Exon.get_codon_indices: the range clamped to the exon, the codon index of its two ends,
   ascending or - on the minus strand - descending along the genome), translated from exon.py on every run, is the model's codon_indices
   that the two theorems above rest on, for every valid exon and range *)
Theorem C15_codon_indices_match_source : forall e s r, range_valid (x_range e) = true -> range_valid r = true ->
  k_exon_get_codon_indices e s r = codon_indices s e r.
Proof. exact k_exon_get_codon_indices_eq. Qed.

(* the key duplicate codons are dropped by (CdsSeq.ext_start: the first of the prefix positions when there is a prefix, else the start),
   translated from cds_seq.py on every run, is the model's whenever a prefix comes with its positions - which _get_cds_seq asserts *)
Theorem C15_codon_key_matches_source : forall c, (c_prefix c = [] \/ c_prefix_pos c <> []) -> k_cds_ext_start c = Ok (ext_start c).
Proof. exact k_cds_ext_start_eq. Qed.

Print Assumptions C15_refusal_iff.
Print Assumptions C15_changes_iff.
Print Assumptions C15_refusal_rule.
Print Assumptions C15_verdict_order_free.
Print Assumptions C15_verdict_local.
Print Assumptions C15_ppe_on_background_refused.
Print Assumptions C15_ppe_on_deleted_base_refused_iff.
Print Assumptions C15_codons_in_range_complete.
Print Assumptions C15_codons_in_range_no_adjacent_dup.
Print Assumptions C15_codons_example.
Print Assumptions C15_codon_indices_match_source.
Print Assumptions C15_codon_key_matches_source.
