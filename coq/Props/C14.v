(* C14 - reverse-complement symmetry: the mirrored design yields the mirrored library.
   Only statements, closed by `exact`, and their assumptions.

   Full statement (decided on the real tool by the metamorphic check, not yet one theorem): for every well-formed
   design D on a contig of length n and its mirror image D' (reference reverse-complemented, p -> n+1-p on every
   coordinate, strand flipped, vectors reversed, variants mirrored), with reverse complementing of minus-strand
   oligonucleotides on, the multisets of (mutator, mseq, ref_aa, alt_aa, mut_type, pam_mut_annot) of the two runs coincide
   for the orientation-free mutators.  What is proved here (the C14_partial theorems): every place where the code branches on the
   strand, or where orientation enters, commutes with mirroring - the composition over a whole run is covered by the
   correspondence on mirrored pairs. *)
From VV Require Import Model.Base Model.Pattern Model.Seq Model.CodonTable Model.Transcript Model.Mirror
  Spec.CodonSpec Proofs.CodonTableProofs Proofs.MirrorProofs Generated.KernelsFrame Proofs.KernelFrameEquiv.

(* get_range_cds_exts: prefix and suffix lengths swap under mirroring, nothing else changes (any frame, any region) *)
Theorem C14_partial_exon_mirror : forall n s e r,
  range_cds_exts (flip s) (mirror_exon n e) (mirror_range n r) = swap_res (range_cds_exts s e r).
Proof. exact exon_mirror. Qed.

(* the codons of the annotated frame inside a region are the mirror images of those of the mirrored region *)
Theorem C14_partial_region_codon_mirror : forall n s e r q,
  is_region_codon (flip s) (mirror_exon n e) (mirror_range n r) (mpos n (q + 2)) <-> is_region_codon s e r q.
Proof. exact region_codon_mirror. Qed.

(* Exon.get_codon_index_at / get_first_codon_start: the codon slot of a position is that of its mirror image *)
Theorem C14_partial_codon_index_mirror : forall n s e p,
  codon_index_at (flip s) (mirror_exon n e) (mpos n p) = codon_index_at s e p.
Proof. exact codon_index_mirror. Qed.

(* reverse complementing an oligonucleotide = applying the mirrored mutation to the reverse-complemented template *)
Theorem C14_partial_alter_revcomp : forall (T : dna) o k alt,
  0 <= o -> 0 <= k -> o + k <= zlen T ->
  revcomp (zfirstn o T ++ alt ++ zskipn (o + k) T) =
  zfirstn (zlen T - o - k) (revcomp T) ++ revcomp alt ++ zskipn (zlen T - o) (revcomp T).
Proof. exact alter_revcomp. Qed.

(* amino-acid annotation: the reverse-complemented table translates the reverse-complemented codon alike *)
Theorem C14_partial_annotation_mirror : forall rows c,
  translate (from_list rows true) (revcomp c) = translate (from_list rows false) c.
Proof. exact annotation_mirror. Qed.

(* the SNVRE rule (and with it the ala/stop/aa replacement codons, which are its top-codon lookups) commutes with
   reverse complementing codons and table *)
Theorem C14_partial_snvre_rule_mirror : forall rows cref calt x,
  snvre_rule (from_list rows true) (revcomp cref) (revcomp calt) (revcomp x) <-> snvre_rule (from_list rows false) cref calt x.
Proof. exact snvre_rule_mirror. Qed.

Theorem C14_partial_top_codon_mirror : forall rows a c,
  translate (from_list rows true) (revcomp c) = translate (from_list rows false) c /\
  get_top_codon (from_list rows true) a = map_res revcomp (get_top_codon (from_list rows false) a) /\
  get_second_best_codon (from_list rows true) a = map_res (option_map revcomp) (get_second_best_codon (from_list rows false) a).
Proof. exact rc_table_transport. Qed.

(* non-vacuity: exon [10,19] frame 1 on +, region [12,18], contig of 40 bases *)
Example C14_example :
  range_cds_exts Plus (mkEx 10 19 0 1) (mkRange 12 18) = Ok (1, 1) /\
  range_cds_exts Minus (mirror_exon 40 (mkEx 10 19 0 1)) (mirror_range 40 (mkRange 12 18)) = Ok (1, 1) /\
  range_cds_exts Plus (mkEx 10 19 0 1) (mkRange 12 16) = Ok (1, 0) /\
  range_cds_exts Minus (mirror_exon 40 (mkEx 10 19 0 1)) (mirror_range 40 (mkRange 12 16)) = Ok (0, 1).
Proof. vm_compute. auto. Qed.

(* translation validation: the strand branches of exon.py, translated from the source on every run, are the model's *)
Theorem C14_strand_branches_match_source :
  (forall e s, k_exon_first_codon_start e s = first_codon_start s e) /\
  (forall e s pos, k_exon_codon_index_at e s pos = codon_index_at s e pos) /\
  (forall s origin ci, k_get_codon_range s origin ci = codon_range s origin ci) /\
  (forall s e r, k_get_range_cds_exts s e r = range_cds_exts s e r).
Proof. exact (conj k_exon_first_codon_start_eq (conj k_exon_codon_index_at_eq (conj k_get_codon_range_eq k_get_range_cds_exts_eq))). Qed.

Print Assumptions C14_partial_exon_mirror.
Print Assumptions C14_partial_region_codon_mirror.
Print Assumptions C14_partial_codon_index_mirror.
Print Assumptions C14_partial_alter_revcomp.
Print Assumptions C14_partial_annotation_mirror.
Print Assumptions C14_partial_snvre_rule_mirror.
Print Assumptions C14_partial_top_codon_mirror.
Print Assumptions C14_strand_branches_match_source.
