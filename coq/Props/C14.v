(* C14 - reverse-complement symmetry: the mirrored design yields the mirrored library.
   Only statements, closed by `exact`, and their assumptions.

   Full statement (decided on the real tool by the metamorphic check): for every well-formed
   design D on a contig of length n and its mirror image D' (reference reverse-complemented, p -> n+1-p on every
   coordinate, strand flipped, vectors reversed, variants mirrored), with reverse complementing of minus-strand
   oligonucleotides on, the multisets of (mutator, mseq, ref_aa, alt_aa, mut_type, pam_mut_annot) of the two runs coincide
   for the orientation-free mutators.  What is proved here: C14_region_rows_mirror - for one coding region, the (label, mutation)
   rows of the mirrored region are exactly the mirror images of the rows of the region, for every combination of orientation-free
   mutators - with the oligonucleotide (C14_partial_alter_revcomp) and annotation (C14_annot_codon_mirror) transported alike;
   and the C14_partial theorems: every place where the code branches on the strand, or where orientation enters, commutes with
   mirroring.  Not one theorem: the composition over a whole run (several regions, PAM edits, custom variants, metadata assembly),
   which is covered by the correspondence on mirrored pairs. *)
From VV Require Import Model.Base Model.Pattern Model.Seq Model.CodonTable Model.Transcript Model.Mirror
  Model.Mutators Spec.CodonSpec Spec.RegionSpec Spec.MirrorSpec Proofs.CodonTableProofs Proofs.MirrorProofs Proofs.MirrorRegionProofs Generated.DefaultTable Generated.KernelsFrame Proofs.KernelFrameEquiv.

(* get_range_cds_exts: prefix and suffix lengths swap under mirroring, nothing else changes (any frame, any region) *)
Theorem C14_partial_exon_mirror : forall n s e r,
  range_cds_exts (flip s) (mirror_exon n e) (mirror_range n r) = swap_res (range_cds_exts s e r).
Proof. exact exon_mirror. Qed.

(* the codons of the annotated frame inside a region are the mirror images of those of the mirrored region *)
Theorem C14_partial_region_codon_mirror : forall n s e r q,
  is_region_codon (flip s) (mirror_exon n e) (mirror_range n r) (mpos n (q + 2)) <-> is_region_codon s e r q.
Proof. exact region_codon_mirror. Qed.

(* Exon.get_codon_index_at / get_first_codon_start: the codon slot of a position is that of its mirror image *)
Theorem C14_partial_codon_index_mirror : forall n s e p,
  codon_index_at (flip s) (mirror_exon n e) (mpos n p) = codon_index_at s e p.
Proof. exact codon_index_mirror. Qed.

(* reverse complementing an oligonucleotide = applying the mirrored mutation to the reverse-complemented template *)
Theorem C14_partial_alter_revcomp : forall (T : dna) o k alt,
  0 <= o -> 0 <= k -> o + k <= zlen T ->
  revcomp (zfirstn o T ++ alt ++ zskipn (o + k) T) =
  zfirstn (zlen T - o - k) (revcomp T) ++ revcomp alt ++ zskipn (zlen T - o) (revcomp T).
Proof. exact alter_revcomp. Qed.

(* amino-acid annotation: the reverse-complemented table translates the reverse-complemented codon alike *)
Theorem C14_partial_annotation_mirror : forall rows c,
  translate (from_list rows true) (revcomp c) = translate (from_list rows false) c.
Proof. exact annotation_mirror. Qed.

(* the SNVRE rule (and with it the ala/stop/aa replacement codons, which are its top-codon lookups) commutes with
   reverse complementing codons and table *)
Theorem C14_partial_snvre_rule_mirror : forall rows cref calt x,
  snvre_rule (from_list rows true) (revcomp cref) (revcomp calt) (revcomp x) <-> snvre_rule (from_list rows false) cref calt x.
Proof. exact snvre_rule_mirror. Qed.

Theorem C14_partial_top_codon_mirror : forall rows a c,
  translate (from_list rows true) (revcomp c) = translate (from_list rows false) c /\
  get_top_codon (from_list rows true) a = map_res revcomp (get_top_codon (from_list rows false) a) /\
  get_second_best_codon (from_list rows true) a = map_res (option_map revcomp) (get_second_best_codon (from_list rows false) a).
Proof. exact rc_table_transport. Qed.

(* one coding region: the documented rows (Spec.RegionSpec.row_spec) of the mirrored region, read in the reverse-complemented
   table, are the mirror images of the documented rows of the region, for every orientation-free mutator *)
Theorem C14_row_spec_mirror : forall n s e r c c' t k v,
  cds_mirror n c c' -> c_start c = rs r -> c_len c = rlen r -> rs r <= re r -> orientation_free k ->
  (row_spec (map rc_row t) (flip s) (mirror_exon n e) (mirror_range n r) c' k (mirror_var n v) <-> row_spec t s e r c k v).
Proof. exact row_spec_mirror. Qed.

(* one coding region, the model of the code on both sides: whenever the region and its mirror image are both processed (same
   mutators; codon table by strand as CodonTableBuilder.build does), a (label, mutation) row is emitted for the mirrored region
   iff its mirror image is emitted for the region *)
Theorem C14_region_rows_mirror : forall n rows tr tr' q e r c c' ms plain annotated plain' annotated',
  t_strand tr' = flip (t_strand tr) ->
  0 <= rs r <= re r -> re r <= n -> s_start q <= rs r -> re r - s_start q + 1 <= s_len q ->
  get_cds_seq_exon tr q e r = Ok c ->
  get_cds_seq_exon tr' (mirror_seq n q) (mirror_exon n e) (mirror_range n r) = Ok c' ->
  (forall k, In k ms -> kind_wf k /\ orientation_free k) ->
  region_variants_cds (strand_table rows (t_strand tr)) c ms = Ok (plain, annotated) ->
  region_variants_cds (strand_table rows (t_strand tr')) c' ms = Ok (plain', annotated') ->
  forall lbl v,
    row_of (keep_in_region (mirror_range n r) (plain' ++ annotated')) lbl (mirror_var n v) <->
    row_of (keep_in_region r (plain ++ annotated)) lbl v.
Proof. exact region_rows_mirror. Qed.

(* mirroring rows is a bijection *)
Theorem C14_mirror_var_involutive : forall n v, mirror_var n (mirror_var n v) = v.
Proof. exact mirror_var_involutive. Qed.

(* amino-acid annotation of a codon-level row and of its mirror image agree *)
Theorem C14_annot_codon_mirror : forall n t c c' v src a a',
  zlen (v_ref v) = 3 ->
  annotate t c v src = Ok a -> annotate (map rc_row t) c' (mirror_var n v) src = Ok a' ->
  a_aa_ref a' = a_aa_ref a /\ a_aa_alt a' = a_aa_alt a /\ a_mut_type a' = a_mut_type a.
Proof. exact annot_codon_mirror. Qed.

(* non-vacuity: a two-exon transcript and its mirror image on a contig of 41 bases; both regions are processed and yield rows *)
Example C14_region_example :
  let q := mkSeq 1 (d "ACGTACGTAGGCTTAACCGGATATATTTGCAGCATGCAAAA") in
  let n := 41 in
  let tr := mkTr Plus [mkEx 10 19 0 1; mkEx 30 37 1 2] in
  let tr' := mkTr Minus [mirror_exon n (mkEx 30 37 1 2); mirror_exon n (mkEx 10 19 0 1)] in
  let ms := [MSnvRe; MInframe; MAla; MStop; MAa; MDelK 1 0] in
  match get_cds_seq_exon tr q (mkEx 10 19 0 1) (mkRange 12 18),
        get_cds_seq_exon tr' (mirror_seq n q) (mirror_exon n (mkEx 10 19 0 1)) (mirror_range n (mkRange 12 18)) with
  | Ok c, Ok c' =>
      match region_variants_cds (strand_table default_rows Plus) c ms, region_variants_cds (strand_table default_rows Minus) c' ms with
      | Ok (p, a), Ok (p', a') => (length (p ++ a) = length (p' ++ a') /\ length a >= 50)%nat
      | _, _ => False
      end
  | _, _ => False
  end.
Proof. vm_compute. lia. Qed.

(* non-vacuity: exon [10,19] frame 1 on +, region [12,18], contig of 40 bases *)
Example C14_example :
  range_cds_exts Plus (mkEx 10 19 0 1) (mkRange 12 18) = Ok (1, 1) /\
  range_cds_exts Minus (mirror_exon 40 (mkEx 10 19 0 1)) (mirror_range 40 (mkRange 12 18)) = Ok (1, 1) /\
  range_cds_exts Plus (mkEx 10 19 0 1) (mkRange 12 16) = Ok (1, 0) /\
  range_cds_exts Minus (mirror_exon 40 (mkEx 10 19 0 1)) (mirror_range 40 (mkRange 12 16)) = Ok (0, 1).
Proof. vm_compute. auto. Qed.

(* translation validation: the strand branches of exon.py, translated from the source on every run, are the model's *)
Theorem C14_strand_branches_match_source :
  (forall e s, k_exon_first_codon_start e s = first_codon_start s e) /\
  (forall e s pos, k_exon_codon_index_at e s pos = codon_index_at s e pos) /\
  (forall s origin ci, k_get_codon_range s origin ci = codon_range s origin ci) /\
  (forall s e r, k_get_range_cds_exts s e r = range_cds_exts s e r).
Proof. exact (conj k_exon_first_codon_start_eq (conj k_exon_codon_index_at_eq (conj k_get_codon_range_eq k_get_range_cds_exts_eq))). Qed.

Print Assumptions C14_partial_exon_mirror.
Print Assumptions C14_partial_region_codon_mirror.
Print Assumptions C14_partial_codon_index_mirror.
Print Assumptions C14_partial_alter_revcomp.
Print Assumptions C14_partial_annotation_mirror.
Print Assumptions C14_partial_snvre_rule_mirror.
Print Assumptions C14_partial_top_codon_mirror.
Print Assumptions C14_strand_branches_match_source.
Print Assumptions C14_row_spec_mirror.
Print Assumptions C14_region_rows_mirror.
Print Assumptions C14_mirror_var_involutive.
Print Assumptions C14_annot_codon_mirror.
