(* C02 - snv and NdelK mutators emit exactly the documented set of mutations.
   Only statements, closed by `exact`, and their assumptions. *)
From VV Require Import Model.Base Model.Pattern Spec.PatternSpec Proofs.PatternProofs Generated.KernelsPattern Proofs.KernelPatternEquiv.

(* window starts are exactly start + OFFSET + k*SPAN for the k whose window fits in the region *)
Theorem C02_window_starts_exact : forall offset span start L x,
  0 < span ->
  (In x (build offset span start (L - 1)) <->
   exists k, window_fits L span offset k /\ x = window_start start span offset k).
Proof. exact build_In. Qed.

(* deletion rows: exactly one per fitting window, full SPAN bases each, none duplicated *)
Theorem C02_del_rows_exact : forall q offset span vs,
  0 < span -> 0 <= offset -> del_variants q offset span = Ok vs ->
  (forall v, In v vs <-> is_del_row q span offset v) /\ NoDup (map v_pos vs).
Proof. exact del_rows_exact. Qed.

(* a deletion mutator never raises, whatever the region length (also shorter than SPAN+OFFSET) *)
Theorem C02_del_total : forall q offset span,
  0 < span -> 0 <= offset -> is_ok (del_variants q offset span) = true.
Proof. exact del_variants_total. Qed.

(* deletions stay inside their region *)
Theorem C02_del_in_region : forall q offset span vs v,
  0 < span -> 0 <= offset -> 0 < s_len q -> del_variants q offset span = Ok vs -> In v vs ->
  in_region (mkRange (s_start q) (s_end q)) v = true.
Proof. exact del_rows_in_region. Qed.

(* snv rows: every position x each of the three other bases, nothing else, nothing twice *)
Theorem C02_snv_rows_exact : forall q vs,
  snv_variants q = Ok vs -> forall v, In v vs <-> is_snv_row q v.
Proof. exact snv_rows_exact. Qed.

Theorem C02_snv_rows_NoDup : forall q vs, snv_variants q = Ok vs -> NoDup vs.
Proof. exact snv_rows_NoDup. Qed.

(* non-vacuity: the README example, target ACGTAAA with 2del1 deletes CG and TA and nothing else *)
Example C02_readme_2del1 :
  del_variants (mkSeq 10 (d "ACGTAAA")) 1 2 =
  Ok [mkVar 11 (d "CG") []; mkVar 13 (d "TA") []; mkVar 15 (d "AA") []].
Proof. vm_compute. reflexivity. Qed.

(* translation validation: IntPatternBuilder.build and UIntRange.from_length, translated from the source on every run, are the
   model's `build` and window ranges for all inputs *)
Theorem C02_build_matches_source : forall offset span start len,
  k_pattern_build (mkPt offset span) start len = Ok (build offset span start len).
Proof. exact k_pattern_build_eq. Qed.
Theorem C02_window_range_matches_source : forall start len, 0 <= start -> 1 <= len ->
  k_range_from_length start len = Ok (mkRange start (start + len - 1)).
Proof. exact k_range_from_length_spec. Qed.

Print Assumptions C02_window_starts_exact.
Print Assumptions C02_del_rows_exact.
Print Assumptions C02_del_total.
Print Assumptions C02_del_in_region.
Print Assumptions C02_snv_rows_exact.
Print Assumptions C02_snv_rows_NoDup.
Print Assumptions C02_build_matches_source.
Print Assumptions C02_window_range_matches_source.
