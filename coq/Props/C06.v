(* C06 - background variants: same library as on a genome that already carries them.
   The whole-run relation (design with background vs. design on the pre-edited genome) is decided on the real tool by
   the metamorphic check; the theorems below are the kernel it rests on (partial): the background template is the
   splice of the unmasked variants, reported coordinates are the REF pre-images of ALT positions, masks and the
   background_variants selection are exact.  The liftover laws themselves are C05. *)
From VV Require Import Model.Base Model.Pattern Model.Gpo Model.Background Spec.LiftSpec
  Proofs.ApplyProofs Proofs.GpoTop Proofs.BackgroundProofs.

Theorem C06_background_seq_is_splice : forall start ref vs,
  wfv start (start + zlen ref - 1) vs ->
  apply_variants start ref (zlen ref + sum_delta_v vs) vs = Ok (splice start ref vs).
Proof. exact apply_variants_is_splice. Qed.

Theorem C06_reported_position_is_ref : forall g r vs q p,
  wf (rs r) (re r) vs -> gpo_for g r vs -> rs r <= q < rs r + g_alt_length g ->
  reported_position (Some g) q = Ok (Some p) -> r2a vs p = Some q /\ rs r <= p.
Proof. exact reported_position_is_ref. Qed.

Theorem C06_mask_exact : forall mask vs v, In v (apply_mask mask vs) <-> In v vs /\ masked mask v = false.
Proof. exact mask_exact. Qed.

Theorem C06_bed_range_one_based : forall s e r, bed_range s e = Ok r -> rs r = s + 1 /\ re r = e.
Proof. exact bed_range_one_based. Qed.

Theorem C06_background_variants_exact : forall r vs v,
  In v (select_overlapping r vs) <-> In v vs /\ (in_range (v_pos v) r = true \/ in_range (var_ref_end v) r = true).
Proof. exact overlapping_exact. Qed.

Print Assumptions C06_background_seq_is_splice.
Print Assumptions C06_reported_position_is_ref.
Print Assumptions C06_mask_exact.
Print Assumptions C06_bed_range_one_based.
Print Assumptions C06_background_variants_exact.
