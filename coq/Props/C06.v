(* C06 - background variants: same library as on a genome that already carries them.
   The whole-run relation (design with background vs. design on the pre-edited genome) is decided on the real tool by
   the metamorphic check; the theorems below are the kernel it rests on (partial): the background template is the
   splice of the unmasked variants, reported coordinates are the REF pre-images of ALT positions, masks and the
   background_variants selection are exact.  The liftover laws themselves are C05. *)
From VV Require Import Model.Base Model.Pattern Model.Gpo Model.Background Spec.LiftSpec
  Proofs.ApplyProofs Proofs.GpoTop Proofs.BackgroundProofs
  Model.Context Proofs.GpoCtxProofs Generated.OrderKey Model.Transcript Model.Targeton Model.LiftExons Proofs.LiftExonsProofs
  Model.LiftTargeton Proofs.LiftTargetonProofs.

Theorem C06_background_seq_is_splice : forall start ref vs,
  wfv start (start + zlen ref - 1) vs ->
  apply_variants start ref (zlen ref + sum_delta_v vs) vs = Ok (splice start ref vs).
Proof. exact apply_variants_is_splice. Qed.

Theorem C06_reported_position_is_ref : forall g r vs q p,
  wf (rs r) (re r) vs -> gpo_for g r vs -> rs r <= q < rs r + g_alt_length g ->
  reported_position (Some g) q = Ok (Some p) -> r2a vs p = Some q /\ rs r <= p.
Proof. exact reported_position_is_ref. Qed.

Theorem C06_mask_exact : forall mask vs v, In v (apply_mask mask vs) <-> In v vs /\ masked mask v = false.
Proof. exact mask_exact. Qed.

Theorem C06_bed_range_one_based : forall s e r, bed_range s e = Ok r -> rs r = s + 1 /\ re r = e.
Proof. exact bed_range_one_based. Qed.

Theorem C06_background_variants_exact : forall r vs v,
  In v (select_overlapping r vs) <-> In v vs /\ (in_range (v_pos v) r = true \/ in_range (var_ref_end v) r = true).
Proof. exact overlapping_exact. Qed.

(* ---- the transcript and the targeton in background coordinates ---- *)

(* when no exon changes length and the exons keep their order, the lifted transcript is the annotated one moved to background coordinates
   (numbers and frames kept), provided the annotated frames of the second and later exons follow from the exon lengths; the first exon
   keeps its annotated frame whatever it is (fix e65eed9) *)
Theorem C06_lift_exons_faithful : forall s g exons rl,
  exons <> [] ->
  mapM (fun e => ref_to_alt_range g (x_range e) true) exons = Ok (map Some rl) ->
  length exons = length rl ->
  (forall p, In p (combine exons rl) -> rlen (snd p) = x_len (fst p)) ->
  ranges_ascending rl ->
  (let tr := if is_plus s then exons else rev exons in chain_ok 0 (first_frame tr) tr) ->
  lift_exons s g exons = Ok (map relocate (combine exons rl)).
Proof. exact lift_exons_faithful. Qed.

(* the tree before that fix reset the frame of the first exon to zero: refuted on exon 10-20 with frame 1 under a substitution at 30 *)
Theorem C06_lift_exons_frame0_refuted :
  exists g, from_var_stats [mkVS 30 1 1] (mkRange 5 40) = Ok g /\
    lift_exons_frame0 Plus g [mkEx 10 20 0 1] = Ok [mkEx 10 20 0 0] /\
    lift_exons Plus g [mkEx 10 20 0 1] = Ok [mkEx 10 20 0 1].
Proof. exact lift_exons_frame0_refuted. Qed.

(* the lifted targeton: both ends of the targeton and of region 2 have images, which delimit the lifted ranges; the extension lengths
   are unchanged and the lifted configuration passed the validation of an input row, so C18's tiling theorems apply to it *)
Theorem C06_lift_targeton_spec : forall g r vs c c', 0 < rs r -> wf (rs r) (re r) vs -> gpo_for g r vs ->
  rs r <= rs (t_ref c) -> rs (t_ref c) <= re (t_ref c) -> re (t_ref c) <= re r ->
  rs r <= rs (t_r2 c) -> rs (t_r2 c) <= re (t_r2 c) -> re (t_r2 c) <= re r ->
  lift_targeton g c = Ok c' ->
  r2a vs (rs (t_ref c)) = Some (rs (t_ref c')) /\ r2a vs (re (t_ref c)) = Some (re (t_ref c')) /\
  r2a vs (rs (t_r2 c)) = Some (rs (t_r2 c')) /\ r2a vs (re (t_r2 c)) = Some (re (t_r2 c')) /\
  t_e1 c' = t_e1 c /\ t_e3 c' = t_e3 c /\ validate c' = Ok tt.
Proof. exact lift_targeton_spec. Qed.

Theorem C06_lift_targeton_deleted_end_refused : forall g r vs c, 0 < rs r -> wf (rs r) (re r) vs -> gpo_for g r vs ->
  rs r <= rs (t_ref c) -> rs (t_ref c) <= re (t_ref c) -> re (t_ref c) <= re r ->
  rs r <= rs (t_r2 c) -> rs (t_r2 c) <= re (t_r2 c) -> re (t_r2 c) <= re r ->
  (deleted vs (rs (t_ref c)) = true \/ deleted vs (re (t_ref c)) = true \/ deleted vs (rs (t_r2 c)) = true \/ deleted vs (re (t_r2 c)) = true) ->
  is_ok (lift_targeton g c) = false.
Proof. exact lift_targeton_deleted_end_refused. Qed.

Print Assumptions C06_background_seq_is_splice.
Print Assumptions C06_reported_position_is_ref.
Print Assumptions C06_mask_exact.
Print Assumptions C06_bed_range_one_based.
Print Assumptions C06_background_variants_exact.

(* ---- the context handed to the liftover (get_gpo_ctx) ---- *)

(* closure: the variants the position offsets are built from are exactly those the returned context reaches (start or end
   inside it); the returned context contains the one asked for; every counted variant lies inside it *)
Theorem C06_context_closed : forall all ctx sel c,
  gpo_ctx_sel all ctx = Ok (Some sel, c) ->
  sel = select_stats c all /\ sel <> [] /\ rs c <= rs ctx /\ re ctx <= re c /\
  (forall x, In x sel -> vs_in_range x c = true).
Proof. exact gpo_ctx_sel_closed. Qed.

(* the variants applied to the context sequence (get_ctx_seq_bg: start inside the context) are the variants counted *)
Theorem C06_context_applied_eq_counted : forall all ctx sel c,
  gpo_ctx_sel all ctx = Ok (Some sel, c) -> applied c all = sel.
Proof. exact gpo_ctx_applied_eq_counted. Qed.

(* hence the ALT length the offsets carry is the context length plus the net length change of the applied variants *)
Theorem C06_context_alt_length : forall all ctx g c,
  gpo_ctx all ctx = Ok (Some g, c) -> 0 < rs c ->
  g_range g = c /\ g_alt_length g = rlen c + sum_delta (applied c all) /\ rs c <= rs ctx /\ re ctx <= re c.
Proof. exact gpo_ctx_alt_length. Qed.

(* no counted variant is out of the bounds of the returned context (clamp_var_stats_collection does not raise) *)
Theorem C06_context_variants_in_bounds : forall all ctx sel c,
  gpo_ctx_sel all ctx = Ok (Some sel, c) -> 0 < rs c -> clamp sel c = Ok (sort_by_pos sel).
Proof. exact gpo_ctx_sel_in_bounds. Qed.

(* no background variant in reach: no offsets, context unchanged *)
Theorem C06_context_none : forall all ctx c,
  gpo_ctx_sel all ctx = Ok (None, c) -> c = ctx /\ select_stats ctx all = [].
Proof. exact gpo_ctx_sel_none. Qed.

(* the loop ends within as many rounds as there are variants (the model's fuel is never exhausted) *)
Theorem C06_context_loop_terminates : forall all ctx, gpo_ctx_sel all ctx <> Err OtherErr.
Proof. exact gpo_ctx_sel_terminates. Qed.

(* the single widening of the tree before fix 9011408 is refuted by the input the check found: the widened context
   reaches a deletion that is applied but not counted *)
Theorem C06_single_widening_refuted :
  exists all ctx sel c, gpo_ctx_sel_once all ctx = Ok (Some sel, c) /\ applied c all <> sel.
Proof. exact gpo_ctx_once_applied_refuted. Qed.

(* the widening is still written as a loop that selects again in the source (a single pass is what C06_single_widening_refuted refutes) *)
Theorem C06_context_widening_loops_in_source : gpo_ctx_reselects_in_loop = true.
Proof. vm_compute. reflexivity. Qed.

Example C06_context_example :
  gpo_ctx_sel [mkVS 67 1 0; mkVS 68 1 1; mkVS 75 0 2] (mkRange 68 103)
  = Ok (Some [mkVS 67 1 0; mkVS 68 1 1; mkVS 75 0 2], mkRange 66 103).
Proof. exact gpo_ctx_sel_example. Qed.

Print Assumptions C06_context_closed.
Print Assumptions C06_context_applied_eq_counted.
Print Assumptions C06_context_alt_length.
Print Assumptions C06_context_variants_in_bounds.
Print Assumptions C06_context_none.
Print Assumptions C06_context_loop_terminates.
Print Assumptions C06_single_widening_refuted.
Print Assumptions C06_context_widening_loops_in_source.
Print Assumptions C06_context_example.
Print Assumptions C06_lift_exons_faithful.
Print Assumptions C06_lift_exons_frame0_refuted.
Print Assumptions C06_lift_targeton_spec.
Print Assumptions C06_lift_targeton_deleted_end_refused.
