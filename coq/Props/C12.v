(* C12 - outputs are a deterministic function of input content, not of order or hashing.
   Only statements, closed by `exact`, and their assumptions.  The facts in Generated/OrderKey.v are re-read from
   /repo (meta_row.py, queries.py, data/ddl.sql, loaders/*.py, meta_table.py, sge_utils.py) on every run. *)
From Coq Require Import Permutation.
From VV Require Import Model.Base Model.Pattern Model.Mutators Model.Views Model.Unique Model.Order Model.ParseList Model.Refusal Model.ParseMutators
  Generated.OrderKey Proofs.OrderProofs Proofs.ParseListProofs Proofs.ParseMutatorsProofs.

(* a stable sort by a total preorder gives the same list for every arrival order of the rows, provided rows that
   compare equal are equal *)
Theorem C12_sort_deterministic : forall (X : Type) (leb : X -> X -> bool),
  (forall a b, leb a b = true \/ leb b a = true) ->
  (forall a b c, leb a b = true -> leb b c = true -> leb a c = true) ->
  forall l l', Permutation l l' ->
  (forall a b, In a l -> In b l -> leb a b = true -> leb b a = true -> a = b) ->
  isort leb l = isort leb l'.
Proof. exact @isort_deterministic. Qed.

(* the metadata select: for any ORDER BY list that contains the identity columns of a mutation, and rows that are a
   function of their identity columns (one targeton: same template, exons, PAM edits), the result does not depend on
   the order in which v_meta yields the rows (SQLite row order, Python set/dict iteration, hash seed) *)
Theorem C12_meta_order_total : forall key (payload : list sval -> row) rows rows',
  subset_str identity_columns key = true ->
  (forall r, In r rows -> r = payload (key_of identity_columns r)) ->
  Permutation rows rows' ->
  select_meta key rows = select_meta key rows'.
Proof. exact meta_order_total. Qed.

(* ... and the ORDER BY of sql_select_meta, as it is in the source now, does contain them; its columns are selected *)
Theorem C12_order_key_covers_identity :
  fact_extracted = true /\ subset_str identity_columns meta_order_key = true /\
  subset_str meta_order_key meta_select_columns = true.
Proof. vm_compute. auto. Qed.

Corollary C12_meta_rows_deterministic : forall (payload : list sval -> row) rows rows',
  (forall r, In r rows -> r = payload (key_of identity_columns r)) ->
  Permutation rows rows' ->
  select_meta meta_order_key rows = select_meta meta_order_key rows'.
Proof. exact (fun payload rows rows' => meta_order_total meta_order_key payload rows rows' (proj1 (proj2 C12_order_key_covers_identity))). Qed.

(* sorted(set(items)) - mutator codes of a group, sgRNA ids in the targeton name, group_concat(... order by): the result
   depends only on which items occur, not on their order or multiplicity *)
Theorem C12_sort_dedup_canonical : forall l l', (forall x, In x l <-> In x l') -> sort_dedup l = sort_dedup l'.
Proof. exact sort_dedup_canonical. Qed.

(* the items of a vector written with any blanks around them (and empty pieces in between) are read back exactly, so the
   parsed mutator codes / sgRNA ids depend only on which items are written, not on order, repetition or spacing *)
Theorem C12_parse_list_spacing : forall (ws : list (nat * string * nat)),
  ws <> [] -> forallb (fun x => clean (snd (fst x))) ws = true ->
  parse_list (join_comma (map written ws)) = map (fun x => snd (fst x)) ws.
Proof. exact parse_list_spacing. Qed.
Theorem C12_parse_mutators_canonical : forall ws ws',
  ws <> [] -> ws' <> [] ->
  forallb (fun x => clean (snd (fst x))) ws = true -> forallb (fun x => clean (snd (fst x))) ws' = true ->
  (forall s, In s (map (fun x => snd (fst x)) ws) <-> In s (map (fun x => snd (fst x)) ws')) ->
  sort_dedup (parse_list (join_comma (map written ws))) = sort_dedup (parse_list (join_comma (map written ws'))).
Proof. exact parse_mutators_canonical. Qed.

(* the mutators configured for a group are the parsed codes, none twice - also when a duplicate is written in the other documented
   spelling of a parametric deletion (2del next to 2del0): duplicates are removed after parsing as well (defect repaired in 3846a61) *)
Theorem C12_parse_mutators_NoDup : forall s ks, parse_mutators s = Ok ks -> NoDup ks.
Proof. exact parse_mutators_NoDup. Qed.
Theorem C12_parse_mutators_exact : forall s ks, parse_mutators s = Ok ks ->
  forall k, In k ks <-> exists code, In code (parse_list s) /\ parse_label code = Ok k.
Proof. exact parse_mutators_exact. Qed.
Example C12_parse_mutators_example :
  parse_mutators " 2del0, snv,2del ,1del0, 1del,snv" = Ok [MDelK 1 0; MDelK 2 0; MSnv].
Proof. vm_compute. reflexivity. Qed.

(* the places that rely on it are still written that way in the source *)
Theorem C12_sources_ordered :
  parse_mutators_sorted_set = true /\ parse_mutators_dedups_parsed = true /\ parse_list_strips = true /\ targeton_name_sorted_ids = true /\
  unique_names_sorted = true /\ sgrna_concat_grouped = true /\ sgrna_concat_order = ["t.sgrna_id"]%string /\
  ppes_with_offset_order = ["ppe_start"]%string /\ hd EmptyString background_variants_order = "start"%string /\
  overlapping_background_order = ["start"; "ref"; "alt"]%string.
Proof. vm_compute. repeat split. Qed.

(* the name written to the unique table is the byte-order minimum, whatever order the names were collected in *)
Theorem C12_unique_name_order_free : forall x l y l',
  Permutation (x :: l) (y :: l') -> min_name x l = min_name y l'.
Proof. exact min_name_perm. Qed.

(* soft-masking: upper-casing removes any lower-casing of the input *)
Theorem C12_softmask_invariant : forall m s, upper (soft_mask m s) = upper s.
Proof. exact upper_soft_mask. Qed.

Theorem C12_upper_calls_present : fetch_sequence_upper = true /\ custom_variant_upper_calls = 2%nat.
Proof. vm_compute. auto. Qed.

(* non-vacuity: two snvre rows that differ only in ALT arrive in either order *)
Example C12_example :
  let r1 := [("original_start", SInt 10); ("ref_start", SInt 10); ("ref_end", SInt 12); ("vcf_alias", SNull); ("vcf_var_id", SNull);
             ("mutator", SText "snvre"); ("ref", SText "AAA"); ("alt", SText "CGC")]%string in
  let r2 := [("original_start", SInt 10); ("ref_start", SInt 10); ("ref_end", SInt 12); ("vcf_alias", SNull); ("vcf_var_id", SNull);
             ("mutator", SText "snvre"); ("ref", SText "AAA"); ("alt", SText "AGA")]%string in
  select_meta meta_order_key [r1; r2] = [r2; r1] /\ select_meta meta_order_key [r2; r1] = [r2; r1].
Proof. vm_compute. auto. Qed.

Print Assumptions C12_sort_deterministic.
Print Assumptions C12_meta_order_total.
Print Assumptions C12_order_key_covers_identity.
Print Assumptions C12_meta_rows_deterministic.
Print Assumptions C12_sort_dedup_canonical.
Print Assumptions C12_parse_list_spacing.
Print Assumptions C12_parse_mutators_canonical.
Print Assumptions C12_parse_mutators_NoDup.
Print Assumptions C12_parse_mutators_exact.
Print Assumptions C12_sources_ordered.
Print Assumptions C12_unique_name_order_free.
Print Assumptions C12_softmask_invariant.
Print Assumptions C12_upper_calls_present.
