(* C05 - REF<->ALT liftover is an order-preserving partial bijection on the sequences.
   Statements only.  `wf lo hi vs`: vs sorted, pairwise non-overlapping SNV/MNV, pure insertions and pure
   deletions inside [lo, hi] (any count, lengths, adjacency).  r2a / a2r / touches / splice are the
   specification (Spec/LiftSpec.v); the *_refines theorems say the offsets tables and mask arrays of the
   model of GenomicPositionOffsets compute them. *)
From VV Require Import Model.Base Model.Pattern Model.Gpo Spec.LiftSpec
  Proofs.LiftSpecProofs Proofs.ApplyProofs Proofs.GpoRefine Proofs.GpoTop Proofs.GpoNearest
  Generated.KernelsLift Proofs.KernelLiftEquiv Proofs.GpoAltOverlap
  Model.PyStr Model.PyLoop Generated.KernelsGpo Proofs.KernelGpoEquiv Proofs.SourceLiftover.

(* the altered sequence is the reference with every variant spliced in *)
Theorem C05_apply_variants_is_splice : forall start ref vs,
  wfv start (start + zlen ref - 1) vs ->
  apply_variants start ref (zlen ref + sum_delta_v vs) vs = Ok (splice start ref vs).
Proof. exact apply_variants_is_splice. Qed.

(* ... and its length is the reference length plus the net inserted bases *)
Theorem C05_alt_length : forall start ref vs,
  wfv start (start + zlen ref - 1) vs -> zlen (splice start ref vs) = zlen ref + sum_delta_v vs.
Proof. exact splice_length. Qed.

(* from_var_stats accepts every well-formed set and builds the tables/masks of the specification *)
Theorem C05_from_var_stats : forall r vs,
  0 < rs r -> rs r <= re r -> wf (rs r) (re r) vs ->
  exists g, from_var_stats vs r = Ok g /\ gpo_for g r vs.
Proof. exact from_var_stats_wf. Qed.

(* lookups of the model = specification *)
Theorem C05_ref_to_alt_refines : forall g r vs, wf (rs r) (re r) vs -> gpo_for g r vs ->
  forall p, rs r <= p <= re r -> ref_to_alt_position g p None = Ok (r2a vs p).
Proof. exact ref_to_alt_refines. Qed.

Theorem C05_alt_to_ref_refines : forall g r vs, wf (rs r) (re r) vs -> gpo_for g r vs ->
  forall q, rs r <= q < rs r + g_alt_length g -> alt_to_ref_position g q = Ok (a2r vs q).
Proof. exact alt_to_ref_refines. Qed.

(* positions before the context map to themselves *)
Theorem C05_before_context_identity : forall g r vs, gpo_for g r vs ->
  forall p nearest, p < rs r -> ref_to_alt_position g p nearest = Ok (Some p).
Proof. exact ref_to_alt_before. Qed.

(* every surviving REF base maps to an ALT position that maps back to it, and conversely *)
Theorem C05_r2a_a2r : forall lo hi vs p q, wf lo hi vs -> lo <= p -> r2a vs p = Some q -> a2r vs q = Some p.
Proof. exact r2a_a2r. Qed.
Theorem C05_a2r_r2a : forall lo hi vs p q, wf lo hi vs -> lo <= q -> a2r vs q = Some p -> r2a vs p = Some q /\ lo <= p.
Proof. exact a2r_r2a. Qed.

(* positions keep their order, in both directions *)
Theorem C05_r2a_monotone : forall lo hi vs p1 p2 q1 q2, wf lo hi vs -> lo <= p1 -> p1 < p2 ->
  r2a vs p1 = Some q1 -> r2a vs p2 = Some q2 -> q1 < q2.
Proof. exact r2a_monotone. Qed.
Theorem C05_a2r_monotone : forall lo hi vs q1 q2 p1 p2, wf lo hi vs -> lo <= q1 -> q1 < q2 ->
  a2r vs q1 = Some p1 -> a2r vs q2 = Some p2 -> p1 < p2.
Proof. exact a2r_monotone. Qed.

(* deleted REF bases and inserted ALT bases map to nothing *)
Theorem C05_deleted_maps_to_none : forall vs p, deleted vs p = true -> r2a vs p = None.
Proof. exact deleted_maps_to_none. Qed.
Theorem C05_inserted_maps_to_none : forall vs q, inserted 0 vs q = true -> a2r vs q = None.
Proof. exact inserted_maps_to_none. Qed.

(* ... or, on request, to the image of the nearest surviving base on the chosen side (inside the context), if there is one *)
Theorem C05_surviving_ignores_search : forall g r vs, wf (rs r) (re r) vs -> gpo_for g r vs ->
  forall p nearest, rs r <= p <= re r -> deleted vs p = false -> ref_to_alt_position g p nearest = Ok (r2a vs p).
Proof. exact ref_to_alt_surviving. Qed.
Theorem C05_nearest_before : forall g r vs, wf (rs r) (re r) vs -> gpo_for g r vs ->
  forall p, rs r <= p <= re r -> deleted vs p = true ->
  (forall p', nearest_before vs (rs r) p p' -> ref_to_alt_position g p (Some Before) = Ok (r2a vs p')) /\
  (none_before vs (rs r) p -> ref_to_alt_position g p (Some Before) = Ok None) /\
  ((exists p', nearest_before vs (rs r) p p') \/ none_before vs (rs r) p).
Proof. exact ref_to_alt_nearest_before. Qed.
Theorem C05_nearest_after : forall g r vs, wf (rs r) (re r) vs -> gpo_for g r vs ->
  forall p, rs r <= p <= re r -> deleted vs p = true ->
  (forall p', nearest_after vs (re r) p p' -> ref_to_alt_position g p (Some After) = Ok (r2a vs p')) /\
  (none_after vs (re r) p -> ref_to_alt_position g p (Some After) = Ok None) /\
  ((exists p', nearest_after vs (re r) p p') \/ none_after vs (re r) p).
Proof. exact ref_to_alt_nearest_after. Qed.

(* ranges are lifted to the span of their surviving bases (shrink), to nothing when none survives; without shrinking both
   ends must survive *)
Theorem C05_range_lift_shrink : forall g r vs, 0 < rs r -> wf (rs r) (re r) vs -> gpo_for g r vs ->
  forall x, rs r <= rs x -> rs x <= re x -> re x <= re r ->
  (forall a b, surviving_span vs x a b ->
     ref_to_alt_range g x true = Ok (Some (mkRange (a + shift vs a) (b + shift vs b)))) /\
  (all_deleted vs x -> ref_to_alt_range g x true = Ok None) /\
  ((exists a b, surviving_span vs x a b) \/ all_deleted vs x).
Proof. exact ref_to_alt_range_shrink. Qed.
Theorem C05_range_lift_strict : forall g r vs, 0 < rs r -> wf (rs r) (re r) vs -> gpo_for g r vs ->
  forall x, rs r <= rs x -> rs x <= re x -> re x <= re r ->
  ref_to_alt_range g x false =
    match r2a vs (rs x), r2a vs (re x) with
    | None, _ => Ok None
    | Some _, None => Err RuntimeError
    | Some s, Some e => Ok (Some (mkRange s e))
    end.
Proof. exact ref_to_alt_range_strict. Qed.

(* a REF-coordinate variant is reported as overlapping a coordinate shift exactly when one of its
   reference bases is deleted or is an insertion point *)
Theorem C05_ref_var_overlap_iff : forall g r vs, 0 < rs r -> gpo_for g r vs -> forall pos len,
  rs r <= pos -> get_end pos len <= re r ->
  ref_var_overlaps_var g pos len =
    Ok (if 1 <? len then existsb (touches vs) (positions (mkRange pos (get_end pos len))) else touches vs pos).
Proof. exact ref_var_overlap_refines. Qed.

(* non-vacuity: an SNV, an insertion and a deletion in [10,20] *)
Example C05_example :
  wf 10 20 [mkVS 11 1 1; mkVS 13 0 2; mkVS 16 3 0] /\
  map (r2a [mkVS 11 1 1; mkVS 13 0 2; mkVS 16 3 0]) [10; 11; 13; 16; 18; 19; 20] =
    [Some 10; Some 11; Some 15; None; None; Some 18; Some 19] /\
  map (a2r [mkVS 11 1 1; mkVS 13 0 2; mkVS 16 3 0]) [10; 13; 14; 15; 18; 19] =
    [Some 10; None; None; Some 13; Some 19; Some 20].
Proof. vm_compute. repeat split; congruence. Qed.

(* non-vacuity of the search and range theorems: the same variants; [16,19] keeps only base 19, [16,18] is deleted entirely,
   the nearest surviving base before 17 is 15 *)
Example C05_range_example :
  let vs := [mkVS 11 1 1; mkVS 13 0 2; mkVS 16 3 0] in
  surviving_span vs (mkRange 16 19) 19 19 /\ all_deleted vs (mkRange 16 18) /\ nearest_before vs 10 17 15 /\
  match from_var_stats vs (mkRange 10 20) with
  | Ok g => ref_to_alt_range g (mkRange 16 19) true = Ok (Some (mkRange 18 18)) /\
            ref_to_alt_range g (mkRange 16 18) true = Ok None /\
            ref_to_alt_position g 17 (Some Before) = Ok (Some 17)
  | Err _ => False
  end.
Proof.
  cbv zeta. split; [|split; [|split; [|vm_compute; auto]]].
  - unfold surviving_span. cbn [rs re]. repeat split; try lia; try reflexivity; intros y Hy;
      assert (y = 16 \/ y = 17 \/ y = 18) as [->|[->| ->]] by lia; reflexivity.
  - intros y Hy. cbn [rs re] in Hy. assert (y = 16 \/ y = 17 \/ y = 18) as [->|[->| ->]] by lia; reflexivity.
  - unfold nearest_before. repeat split; try lia. intros x Hx. assert (x = 16) as -> by lia. reflexivity.
Qed.

(* the statistics the offsets are built from (net length change, last reference position) and the bounds test of
   clamp_var_stats_collection, translated from var_stats.py on every run, are the model's *)
Theorem C05_var_stats_match_source : forall v r,
  k_vs_alt_ref_delta v = Ok (delta v) /\ k_vs_ref_end v = Ok (vref_end v) /\ k_vs_is_in_range v r = Ok (vs_in_range v r).
Proof. intros v r. exact (conj (k_vs_alt_ref_delta_eq v) (conj (k_vs_ref_end_eq v) (k_vs_is_in_range_eq v r))). Qed.

(* the tables a GenomicPositionOffsets is made of - net length change, (position, cumulative offset) lists in both directions,
   deletion / shift / insertion masks - as computed by the loops of genomic_position_offsets.py, translated on every run
   (for -> fold, a[i] = 1 -> py_set with CPython's index rules), are the tables of the model on every input the model accepts;
   zmask reads a boolean mask as the 0 / 1 bytes of the array *)
Theorem C05_liftover_tables_match_source : forall vs r g, range_valid r = true -> from_var_stats vs r = Ok g ->
  exists cvs, clamp vs r = Ok cvs
  /\ k_get_alt_ref_delta cvs = Ok (g_alt_length g - rlen r)
  /\ k_compute_ref_offsets cvs = Ok (g_pos_offsets g, g_alt_offsets g)
  /\ k_compute_ref_del_mask (rs r) (rlen r) cvs = Ok (zmask (g_del g), zmask (g_shift g))
  /\ k_compute_alt_ins_mask (rs r) (g_alt_length g) cvs = Ok (zmask (g_ins g)).
Proof. exact tables_match_source. Qed.

(* the offset lookup (first / last shortcut, then the scan that returns from inside the loop) is the model's, for every list and position *)
Theorem C05_pos_offset_lookup_matches_source : forall l p, k_get_pos_offset l p = Ok (get_pos_offset l p).
Proof. exact k_get_pos_offset_eq. Qed.

(* outside the model's accepted inputs too: wherever the model does not flag a negative array index (which CPython would wrap
   around), a failing run of the source loops fails with the same exception *)
Theorem C05_masks_match_source_with_errors : forall start n vs, 0 <= n ->
  (ref_masks start vs (zeros n) (zeros n) <> Err OtherErr ->
   k_compute_ref_del_mask start n vs
   = match ref_masks start vs (zeros n) (zeros n) with Ok (dm, sm) => Ok (zmask dm, zmask sm) | Err e => Err e end)
  /\ (ins_mask start 0 vs (zeros n) <> Err OtherErr ->
      k_compute_alt_ins_mask start n vs = match ins_mask start 0 vs (zeros n) with Ok m => Ok (zmask m) | Err e => Err e end).
Proof. intros start n vs Hn. exact (conj (k_compute_ref_del_mask_eq start n vs Hn) (k_compute_alt_ins_mask_eq start n vs Hn)). Qed.

(* the methods that read those tables, translated on every run from the class GenomicPositionOffsets (kgpo_of g is the model's record
   with its masks read as byte arrays): ALT -> REF for every position, bounds check and exception included; REF -> ALT with both
   nearest-position searches and the range lift with and without shrinking, for every record whose deletion mask has the declared length -
   which from_var_stats guarantees; the overlap test of an ALT-coordinate variant wherever the model does not flag a negative array index *)
Theorem C05_alt_to_ref_matches_source : forall g q, k_gpo_alt_to_ref_position (kgpo_of g) q = alt_to_ref_position g q.
Proof. exact k_gpo_alt_to_ref_position_eq. Qed.

Theorem C05_ref_to_alt_matches_source : forall vs r g, range_valid r = true -> from_var_stats vs r = Ok g ->
  (forall p nearest, k_gpo_ref_to_alt_position (kgpo_of g) p nearest = ref_to_alt_position g p nearest) /\
  (forall x shrink, k_gpo_ref_to_alt_range (kgpo_of g) x shrink = ref_to_alt_range g x shrink).
Proof.
  intros vs r g Hv H.
  exact (conj (fun p n => k_gpo_ref_to_alt_position_eq g p n (from_var_stats_del_length vs r g Hv H))
              (fun x s => k_gpo_ref_to_alt_range_eq g x s (from_var_stats_del_length vs r g Hv H))).
Qed.

Theorem C05_alt_var_overlap_matches_source : forall g v,
  alt_var_overlaps_var g (v_pos v) (zlen (v_ref v)) <> Err OtherErr ->
  k_gpo_alt_var_overlaps_var (kgpo_of g) v = alt_var_overlaps_var g (v_pos v) (zlen (v_ref v)).
Proof. exact k_gpo_alt_var_overlaps_var_eq. Qed.

(* the construction itself: clamp_var_stats_collection (sort by position, bounds of the first and the last variant; its overlap test compares
   an int with a VarStats and never fires - translated as such) for every input, and from_var_stats with __post_init__ on every valid range:
   the record the source builds is the model's, and a refusal is the model's exception, wherever the model does not flag a negative array index *)
Theorem C05_clamp_matches_source : forall vs r, k_clamp_var_stats_collection vs r = clamp vs r.
Proof. exact k_clamp_var_stats_collection_eq. Qed.

Theorem C05_from_var_stats_matches_source : forall vs r, range_valid r = true -> from_var_stats vs r <> Err OtherErr ->
  k_gpo_from_var_stats vs r = match from_var_stats vs r with Ok g => Ok (kgpo_of g) | Err e => Err e end.
Proof. exact k_gpo_from_var_stats_eq. Qed.

(* together: a GenomicPositionOffsets the translated source builds obeys the liftover laws proved about the model *)
Theorem C05_source_record_is_model_record : forall vs r g, range_valid r = true -> from_var_stats vs r = Ok g ->
  k_gpo_from_var_stats vs r = Ok (kgpo_of g) /\
  (forall q, k_gpo_alt_to_ref_position (kgpo_of g) q = alt_to_ref_position g q) /\
  (forall p nearest, k_gpo_ref_to_alt_position (kgpo_of g) p nearest = ref_to_alt_position g p nearest).
Proof.
  intros vs r g Hv H.
  exact (conj (k_gpo_from_var_stats_ok vs r g Hv H)
              (conj (k_gpo_alt_to_ref_position_eq g)
                    (fun p n => k_gpo_ref_to_alt_position_eq g p n (from_var_stats_del_length vs r g Hv H)))).
Qed.

(* the property itself about the translated source: for every sorted, non-overlapping set of variants inside a context, the constructor of the
   source accepts it and the record it builds lifts every reference position of the context to the specification's image (None on deleted
   bases), positions before the context to themselves, and every alternate position back to the specification's pre-image (None on inserted
   bases) - so the round trips and the order preservation proved for r2a / a2r above are facts about genomic_position_offsets.py as it stands *)
Theorem C05_source_liftover_is_specification : forall r vs, 0 < rs r -> rs r <= re r -> wf (rs r) (re r) vs ->
  exists kg, k_gpo_from_var_stats vs r = Ok kg
  /\ (forall p, rs r <= p <= re r -> k_gpo_ref_to_alt_position kg p None = Ok (r2a vs p))
  /\ (forall p, p < rs r -> forall nearest, k_gpo_ref_to_alt_position kg p nearest = Ok (Some p))
  /\ (forall q, rs r <= q < rs r + kg_alt_length kg -> k_gpo_alt_to_ref_position kg q = Ok (a2r vs q)).
Proof. exact source_liftover_is_specification. Qed.

(* the backward search of array_utils (a while loop that returns from inside), translated on every run, is the definition the SEARCH_F table
   of the translated ref_to_alt_position is read with - for every array, start and value, the IndexError of a start beyond the array included *)
Theorem C05_prev_index_matches_source : forall a i v, k_get_prev_index a i v = u8_prev_index a i v.
Proof. exact k_get_prev_index_eq. Qed.

(* ... and the forward search (try / except ValueError around array.index(value, start)) likewise *)
Theorem C05_next_index_matches_source : forall a i v, k_get_next_index a i v = u8_next_index a i v.
Proof. exact k_get_next_index_eq. Qed.

(* ... and of a REF-coordinate variant (Variant.any_pos with the bound method ref_pos_overlaps_var handed over as a callback) *)
Theorem C05_ref_var_overlap_matches_source : forall g v,
  ref_var_overlaps_var g (v_pos v) (zlen (v_ref v)) <> Err OtherErr ->
  k_gpo_ref_var_overlaps_var (kgpo_of g) v = ref_var_overlaps_var g (v_pos v) (zlen (v_ref v)).
Proof. exact k_gpo_ref_var_overlaps_var_eq. Qed.

(* the recorded finding read off the translated source: one base on an insertion point is not reported, two bases over it are *)
Theorem C05_alt_single_base_insertion_point_in_source :
  exists g, from_var_stats [mkVS 13 0 2] (mkRange 10 20) = Ok g /\
    k_gpo_alt_var_overlaps_var (kgpo_of g) (mkVar 15 [A] [C]) = Ok false /\
    k_gpo_alt_var_overlaps_var (kgpo_of g) (mkVar 14 [A; A] []) = Ok true.
Proof. exact alt_single_base_insertion_point_in_source. Qed.

(* non-vacuity: a deletion and an insertion in [10, 30] *)
Example C05_liftover_tables_example :
  exists g, from_var_stats [mkVS 12 3 0; mkVS 20 0 2] (mkRange 10 30) = Ok g /\ g_alt_length g = 20
  /\ k_compute_alt_ins_mask 10 20 [mkVS 12 3 0; mkVS 20 0 2] = Ok (zmask (g_ins g)).
Proof. eexists. split; [vm_compute; reflexivity|]. split; vm_compute; reflexivity. Qed.

(* an ALT-coordinate variant [pos, pos+len-1] inside the ALT sequence is reported as overlapping a coordinate shift exactly when its
   first base is an inserted base or - for two bases or more - its last base is inserted, the REF span between the pre-images of
   its two ends has another length, or a REF base of that span is deleted or an insertion point.  A single surviving base is never
   reported: the recorded finding C05-alt-single-base-insertion-point is this branch, and the statement below it refutes the symmetric reading *)
Theorem C05_alt_var_overlap_characterised : forall g r vs, 0 < rs r -> wf (rs r) (re r) vs -> gpo_for g r vs ->
  forall pos len, rs r <= pos -> get_end pos len < rs r + g_alt_length g ->
  alt_var_overlaps_var g pos len =
    Ok (match a2r vs pos with
        | None => true
        | Some s =>
            if len <=? 1 then false
            else match a2r vs (get_end pos len) with
                 | None => true
                 | Some e => negb (e - s + 1 =? len) || existsb (touches vs) (positions (mkRange s e))
                 end
        end).
Proof. exact alt_var_overlap_refines. Qed.

Theorem C05_alt_single_base_insertion_point_refuted :
  exists g, from_var_stats [mkVS 13 0 2] (mkRange 10 20) = Ok g /\
    a2r [mkVS 13 0 2] 15 = Some 13 /\ touches [mkVS 13 0 2] 13 = true /\
    ref_var_overlaps_var g 13 1 = Ok true /\ alt_var_overlaps_var g 15 1 = Ok false /\ alt_var_overlaps_var g 14 2 = Ok true.
Proof. exact alt_single_base_insertion_point_refuted. Qed.

Print Assumptions C05_apply_variants_is_splice.
Print Assumptions C05_alt_length.
Print Assumptions C05_from_var_stats.
Print Assumptions C05_ref_to_alt_refines.
Print Assumptions C05_alt_to_ref_refines.
Print Assumptions C05_before_context_identity.
Print Assumptions C05_r2a_a2r.
Print Assumptions C05_a2r_r2a.
Print Assumptions C05_r2a_monotone.
Print Assumptions C05_a2r_monotone.
Print Assumptions C05_ref_var_overlap_iff.
Print Assumptions C05_surviving_ignores_search.
Print Assumptions C05_nearest_before.
Print Assumptions C05_nearest_after.
Print Assumptions C05_range_lift_shrink.
Print Assumptions C05_range_lift_strict.
Print Assumptions C05_var_stats_match_source.
Print Assumptions C05_liftover_tables_match_source.
Print Assumptions C05_pos_offset_lookup_matches_source.
Print Assumptions C05_masks_match_source_with_errors.
Print Assumptions C05_alt_to_ref_matches_source.
Print Assumptions C05_ref_to_alt_matches_source.
Print Assumptions C05_alt_var_overlap_matches_source.
Print Assumptions C05_ref_var_overlap_matches_source.
Print Assumptions C05_alt_single_base_insertion_point_in_source.
Print Assumptions C05_clamp_matches_source.
Print Assumptions C05_from_var_stats_matches_source.
Print Assumptions C05_source_record_is_model_record.
Print Assumptions C05_prev_index_matches_source.
Print Assumptions C05_next_index_matches_source.
Print Assumptions C05_source_liftover_is_specification.
Print Assumptions C05_alt_var_overlap_characterised.
Print Assumptions C05_alt_single_base_insertion_point_refuted.
