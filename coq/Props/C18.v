(* C18 - targeton regions tile the reference range and are reported as such. *)
From VV Require Import Model.Base Model.Pattern Model.Gpo Model.Targeton Model.LiftTargeton Proofs.TargetonProofs Proofs.LiftTargetonProofs Generated.KernelsTargeton Proofs.KernelTargetonEquiv.

(* const1, r1, r2, r3, const2 (empties omitted) list exactly the positions of [ref_start, ref_end], in order *)
Theorem C18_regions_tile : forall c,
  range_valid (t_ref c) = true -> range_valid (t_r2 c) = true -> 0 <= t_e1 c -> 0 <= t_e3 c ->
  validate c = Ok tt ->
  exists rsl, get_all_regions c = Ok rsl /\
              concat (map positions rsl) = positions (t_ref c) /\
              Forall (fun r => range_valid r = true) rsl.
Proof. exact regions_tile. Qed.

(* the reported sequences, cut from the targeton sequence at the reported segments, concatenate to it *)
Theorem C18_seqs_concat_to_ref : forall c (bases : dna),
  range_valid (t_ref c) = true -> range_valid (t_r2 c) = true -> 0 <= t_e1 c -> 0 <= t_e3 c ->
  validate c = Ok tt -> zlen bases = rlen (t_ref c) ->
  exists rsl, get_all_regions c = Ok rsl /\
    concat (map (fun r => py_slice (rs r - rs (t_ref c)) (re r + 1 - rs (t_ref c)) bases) rsl) = bases.
Proof. exact seqs_concat_to_ref. Qed.

(* the same of the targeton in background coordinates (sge_proc.lift_targeton_config): whenever it exists, its regions tile its lifted range *)
Theorem C18_lifted_targeton_tiles : forall g c c', 0 <= t_e1 c -> 0 <= t_e3 c -> lift_targeton g c = Ok c' ->
  exists rsl, get_all_regions c' = Ok rsl /\ concat (map positions rsl) = positions (t_ref c') /\ Forall (fun r => range_valid r = true) rsl.
Proof. exact lifted_targeton_tiles. Qed.

(* regions 1 and 3 have the extension-vector lengths and flank region 2 directly *)
Theorem C18_r1_r3_flank : forall c r,
  (get_region_1 c = Ok (Some r) -> rlen r = t_e1 c /\ re r + 1 = rs (t_r2 c)) /\
  (get_region_3 c = Ok (Some r) -> rlen r = t_e3 c /\ rs r = re (t_r2 c) + 1).
Proof. exact r1_r3_flank. Qed.

(* non-vacuity: the README targeton (chrX 41334132-41334320, r2 41334253-41334297, ext 25,15) *)
Example C18_readme :
  make_all_regions (mkT (mkRange 41334132 41334320) (mkRange 41334253 41334297) 25 15) =
  Ok [mkRange 41334132 41334227; mkRange 41334228 41334252; mkRange 41334253 41334297;
      mkRange 41334298 41334312; mkRange 41334313 41334320].
Proof. vm_compute. reflexivity. Qed.

(* translation validation: TargetonConfig.__post_init__ and the region getters (with UIntRange.get_before / get_after), translated
   from the source on every run, are the model definitions the tiling theorems are about, for all inputs *)
Theorem C18_regions_match_source :
  (forall c, k_targeton_post_init c = validate c) /\
  (forall c, k_targeton_region_1 c = get_region_1 c) /\ (forall c, k_targeton_region_3 c = get_region_3 c) /\
  (forall c, k_targeton_const_1 c = get_const_1 c) /\ (forall c, k_targeton_const_2 c = get_const_2 c).
Proof. exact (conj k_targeton_post_init_eq (conj k_targeton_region_1_eq (conj k_targeton_region_3_eq (conj k_targeton_const_1_eq k_targeton_const_2_eq)))). Qed.

Print Assumptions C18_regions_tile.
Print Assumptions C18_seqs_concat_to_ref.
Print Assumptions C18_r1_r3_flank.
Print Assumptions C18_regions_match_source.
Print Assumptions C18_lifted_targeton_tiles.
