(* What C03 / C04 promise about the reading frame, independently of the code's prefix/suffix algebra.
   GTF frame of a CDS feature = number of bases, in transcript direction, before its first complete codon. *)
From VV Require Import Model.Base Model.Pattern Model.CodonTable Model.Transcript.

(* the triplet [q, q+2] (plus-strand coordinates) is a codon of the annotated reading frame of exon e:
   its 5' base (q on the plus strand, q+2 on the minus strand) is a multiple of three bases away from the
   first complete codon of the exon *)
Definition in_frame (s : strand) (e : exon) (q : Z) : Prop :=
  if is_plus s then (q - (x_start e + x_frame e)) mod 3 = 0
  else (x_end e - x_frame e - (q + 2)) mod 3 = 0.

(* ... and its three bases lie inside the region *)
Definition is_region_codon (s : strand) (e : exon) (r : range) (q : Z) : Prop :=
  rs r <= q /\ q + 2 <= re r /\ in_frame s e q.

(* bases of the region (a cds_seq) at genomic [p, p+n) *)
Definition cds_bases_at (c : cds_seq) (p n : Z) : dna := py_slice (p - c_start c) (p - c_start c + n) (c_bases c).

(* the SNVRE rule for one SNV codon calt of the reference codon cref (all in the orientation of the table in use):
   x is an alternative codon *)
Definition snvre_rule (t : table) (cref calt x : dna) : Prop :=
  exists a a',
    translate t cref = Ok a /\ translate t calt = Ok a' /\
    x <> cref /\ x <> calt /\
    match aa_change a a' with
    | Syn => In x (codons_of t a')                                         (* every synonymous codon *)
    | _ => (get_top_codon t a' = Ok x) \/                                   (* the top-ranked codon of the new amino acid / stop *)
           (get_top_codon t a' = Ok calt /\ get_second_best_codon t a' = Ok (Some x))   (* or the second if the SNV made the top one *)
    end.
