(* What a MAVE-HGVS linear-genomic variant means when applied to a sequence (offsets are 1-based). *)
From VV Require Import Model.Base Model.Pattern Model.Seq Model.Vcf Model.Mave.

Definition mave_apply (m : mave) (T : dna) : option dna :=
  match m with
  | MSub p a b =>
      match znth (p - 1) T with
      | Some x => if nt_eqb x a then Some (zfirstn (p - 1) T ++ [b] ++ zskipn p T) else None   (* stated base must match *)
      | None => None
      end
  | MDel p n =>
      if (1 <=? p) && (1 <=? n) && (p - 1 + n <=? zlen T) then Some (zfirstn (p - 1) T ++ zskipn (p - 1 + n) T) else None
  | MIns p s =>          (* between offsets p-1 and p; p-1 = 0 is the documented exception at the targeton start *)
      if (1 <=? p) && (p - 1 <=? zlen T) then Some (zfirstn (p - 1) T ++ s ++ zskipn (p - 1) T) else None
  | MDelins p n s =>
      if (1 <=? p) && (1 <=? n) && (p - 1 + n <=? zlen T) then Some (zfirstn (p - 1) T ++ s ++ zskipn (p - 1 + n) T) else None
  end.

(* syntactic validity of the abstract term: positive positions, non-empty inserted sequences *)
Definition mave_valid (m : mave) : bool :=
  match m with
  | MSub p _ _ => 1 <=? p
  | MDel p n => (1 <=? p) && (1 <=? n)
  | MIns p s => (1 <=? p) && negb (is_nil s)
  | MDelins p n s => (1 <=? p) && (1 <=? n) && negb (is_nil s)
  end.
