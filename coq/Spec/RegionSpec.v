(* What C03 promises about all the rows of a coding region, per mutator label, stated against the annotated reading frame. *)
From VV Require Import Model.Base Model.Pattern Model.Seq Model.CodonTable Model.Transcript Model.Mutators Spec.PatternSpec Spec.CodonSpec.

Definition set_base (c : dna) (i : Z) (y : nt) : dna := zfirstn i c ++ [y] ++ zskipn (i + 1) c.

(* v replaces a whole codon of the region by an alternative the SNVRE rule allows for one of the nine SNVs of that codon *)
Definition is_snvre_row (t : table) (s : strand) (e : exon) (r : range) (c : cds_seq) (v : variant) : Prop :=
  exists i x y, 0 <= i < 3 /\ is_region_codon s e r (v_pos v) /\ v_ref v = cds_bases_at c (v_pos v) 3 /\
                znth i (v_ref v) = Some x /\ x <> y /\
                snvre_rule t (v_ref v) (set_base (v_ref v) i y) (v_alt v).

Definition codon_row (s : strand) (e : exon) (r : range) (c : cds_seq) (v : variant) : Prop :=
  is_region_codon s e r (v_pos v) /\ v_ref v = cds_bases_at c (v_pos v) 3.

Definition row_spec (tb : table) (s : strand) (e : exon) (r : range) (c : cds_seq) (k : mkind) (v : variant) : Prop :=
  match k with
  | MDelK span off => is_del_row (c_seq c) span off v
  | MSnv => is_snv_row (c_seq c) v
  | MSnvRe => is_snvre_row tb s e r c v
  | MInframe => codon_row s e r c v /\ v_alt v = []
  | MAla => codon_row s e r c v /\ get_top_codon tb ALA = Ok (v_alt v) /\ v_ref v <> v_alt v
  | MStop => codon_row s e r c v /\ get_top_codon tb STOP = Ok (v_alt v) /\ v_ref v <> v_alt v
  | MAa => codon_row s e r c v /\
           exists a0 a, translate tb (v_ref v) = Ok a0 /\ In a (aas_of tb) /\ a <> STOP /\ a <> a0 /\ get_top_codon tb a = Ok (v_alt v)
  end.

Definition kind_wf (k : mkind) : Prop := match k with MDelK span off => 0 < span /\ 0 <= off | _ => True end.

Definition row_of (rows : list prow) (lbl : string) (v : variant) : Prop :=
  exists row, In row rows /\ pr_label row = lbl /\ pr_var row = v.
