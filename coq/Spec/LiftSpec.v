(* What "liftover" means, independently of offsets tables and mask arrays (C05).
   Variants are given by position, REF length and ALT length; a well-formed set is sorted, pairwise
   non-overlapping, and made of SNV/MNV (rl = al > 0), pure insertions (rl = 0 < al) and pure
   deletions (al = 0 < rl).  An insertion at position p puts its bases before REF base p. *)
From VV Require Import Model.Base Model.Pattern Model.Gpo.

Definition is_sub (v : vstat) : bool := (0 <? vrl v) && (vrl v =? val v).
Definition is_ins (v : vstat) : bool := (vrl v =? 0) && (0 <? val v).
Definition is_del (v : vstat) : bool := (0 <? vrl v) && (val v =? 0).
Definition kind_ok (v : vstat) : bool := is_sub v || is_ins v || is_del v.

(* first position free after v: variants may be adjacent but may not share a position *)
Definition next_free (v : vstat) : Z := vpos v + Z.max 1 (vrl v).

(* sorted, non-overlapping, inside [lo, hi] *)
Fixpoint wf (lo hi : Z) (vs : list vstat) : Prop :=
  match vs with
  | [] => True
  | v :: vs' => lo <= vpos v /\ kind_ok v = true /\ next_free v - 1 <= hi /\ wf (next_free v) hi vs'
  end.

(* REF side *)
Definition covers_del (v : vstat) (p : Z) : bool := is_del v && (vpos v <=? p) && (p <? vpos v + vrl v).
Definition deleted (vs : list vstat) (p : Z) : bool := existsb (fun v => covers_del v p) vs.
Definition ins_point (vs : list vstat) (p : Z) : bool := existsb (fun v => is_ins v && (vpos v =? p)) vs.
Fixpoint shift (vs : list vstat) (p : Z) : Z :=
  match vs with
  | [] => 0
  | v :: vs' => (if vpos v <=? p then delta v else 0) + shift vs' p
  end.
Definition r2a (vs : list vstat) (p : Z) : option Z :=
  if deleted vs p then None else Some (p + shift vs p).

(* ALT side: `off` is the cumulative offset of the variants already passed *)
Fixpoint ashift (off : Z) (vs : list vstat) (q : Z) : Z :=
  match vs with
  | [] => off
  | v :: vs' => if vpos v + off <=? q then ashift (off + delta v) vs' q else off
  end.
Fixpoint inserted (off : Z) (vs : list vstat) (q : Z) : bool :=
  match vs with
  | [] => false
  | v :: vs' => (is_ins v && (vpos v + off <=? q) && (q <? vpos v + off + val v)) || inserted (off + delta v) vs' q
  end.
Definition a2r (vs : list vstat) (q : Z) : option Z :=
  if inserted 0 vs q then None else Some (q - ashift 0 vs q).

(* a REF variant [pos, pos+len) touches a coordinate shift iff one of its bases is deleted or is an insertion point *)
Definition touches (vs : list vstat) (p : Z) : bool := deleted vs p || ins_point vs p.

(* splicing variants (with their ALT bases) into a reference that starts at `start` *)
Fixpoint splice (start : Z) (ref : dna) (vs : list variant) : dna :=
  match vs with
  | [] => ref
  | v :: vs' =>
      zfirstn (v_pos v - start) ref ++ v_alt v
      ++ splice (v_pos v + zlen (v_ref v)) (zskipn (v_pos v - start + zlen (v_ref v)) ref) vs'
  end.

(* variants with alleles: sorted, non-overlapping, inside the sequence [start, start + len) *)
Fixpoint wfv (lo hi : Z) (vs : list variant) : Prop :=
  match vs with
  | [] => True
  | v :: vs' =>
      lo <= v_pos v /\ (v_ref v <> [] \/ v_alt v <> []) /\ v_pos v + Z.max 1 (zlen (v_ref v)) - 1 <= hi /\
      wfv (v_pos v + Z.max 1 (zlen (v_ref v))) hi vs'
  end.
Definition sum_delta_v (vs : list variant) : Z := fold_right (fun v a => zlen (v_alt v) - zlen (v_ref v) + a) 0 vs.

(* nearest surviving REF base on one side, inside the context [lo, hi] *)
Definition nearest_before (vs : list vstat) (lo p p' : Z) : Prop :=
  lo <= p' < p /\ deleted vs p' = false /\ forall x, p' < x < p -> deleted vs x = true.
Definition nearest_after (vs : list vstat) (hi p p' : Z) : Prop :=
  p < p' <= hi /\ deleted vs p' = false /\ forall x, p < x < p' -> deleted vs x = true.
Definition none_before (vs : list vstat) (lo p : Z) : Prop := forall x, lo <= x < p -> deleted vs x = true.
Definition none_after (vs : list vstat) (hi p : Z) : Prop := forall x, p < x <= hi -> deleted vs x = true.

(* ranges: a and b are the first and the last surviving base of x *)
Definition surviving_span (vs : list vstat) (x : range) (a b : Z) : Prop :=
  rs x <= a <= b /\ b <= re x /\ deleted vs a = false /\ deleted vs b = false /\
  (forall y, rs x <= y < a -> deleted vs y = true) /\ (forall y, b < y <= re x -> deleted vs y = true).
Definition all_deleted (vs : list vstat) (x : range) : Prop := forall y, rs x <= y <= re x -> deleted vs y = true.
