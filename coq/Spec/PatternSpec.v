(* What the README promises for snv and <SPAN>del<OFFSET> (independent of the code's arithmetic). *)
From VV Require Import Model.Base Model.Pattern.

(* the k-th window of SPAN bases, OFFSET bases after the region start, fits in a region of L bases *)
Definition window_fits (L span off k : Z) : Prop := 0 <= k /\ off + (k + 1) * span <= L.

(* start coordinate of the k-th window in a region starting at `start` *)
Definition window_start (start span off k : Z) : Z := start + off + k * span.

(* the bases of a region (given as a sequence) at genomic [p, p+n) *)
Definition bases_at (q : seq) (p n : Z) : dna := py_slice (p - s_start q) (p - s_start q + n) (s_bases q).

(* Deletion rows: exactly one per fitting window, deleting exactly that window *)
Definition is_del_row (q : seq) (span off : Z) (v : variant) : Prop :=
  exists k, window_fits (s_len q) span off k /\
            v_pos v = window_start (s_start q) span off k /\
            v_ref v = bases_at q (v_pos v) span /\ zlen (v_ref v) = span /\ v_alt v = [].

(* SNV rows: every position with each of the three other bases *)
Definition is_snv_row (q : seq) (v : variant) : Prop :=
  exists i x y, 0 <= i < s_len q /\ znth i (s_bases q) = Some x /\
                v_pos v = s_start q + i /\ v_ref v = [x] /\ v_alt v = [y] /\ x <> y.
