(* C14 at the level of one coding region: what the mirror image of a region's coding sequence, of a mutation and of the
   reference sequence are, and which mutators are orientation free. *)
From VV Require Import Model.Base Model.Pattern Model.Seq Model.CodonTable Model.Transcript Model.Mutators Model.Mirror.

(* a mutation with a non-empty REF occupying [p, p+len-1] occupies the mirrored positions and carries reverse-complemented alleles *)
Definition mirror_var (n : Z) (v : variant) : variant :=
  mkVar (mpos n (v_pos v + zlen (v_ref v) - 1)) (revcomp (v_ref v)) (revcomp (v_alt v)).

(* c' holds the reverse complement of the bases of c at the mirrored coordinates *)
Definition cds_mirror (n : Z) (c c' : cds_seq) : Prop :=
  c_start c' = mpos n (c_start c + c_len c - 1) /\ c_bases c' = revcomp (c_bases c).

Definition orientation_free (k : mkind) : Prop := match k with MDelK span off => span = 1 /\ off = 0 | _ => True end.

(* the mirror image of a sequence on a contig of length n *)
Definition mirror_seq (n : Z) (q : seq) : seq := mkSeq (mpos n (s_start q + s_len q - 1)) (revcomp (s_bases q)).

Definition strand_table (rows : list crow) (s : strand) : table := from_list rows (negb (is_plus s)).
