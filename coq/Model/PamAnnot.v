(* Targeton.get_ppe_mut_types / CdsSeq.as_codon: the pam_mut_annot column.  Definitions only. *)
From VV Require Import Model.Base Model.Pattern Model.CodonTable Model.Transcript.

(* CdsSeq.as_codon: Codon(self.ext) - a codon is three bases *)
Definition as_codon (c : cds_seq) : result dna :=
  if zlen (c_ext c) =? 3 then Ok (c_ext c) else Err ValueError.

(* one iteration of the loop over select_ppes_with_offset: (ppe_ref_start, ppe_start).  Since fix 746514f the caller hands the background
   sequence and the lifted transcript as t_ref / q_ref and both codons are read at ppe_start (ppe_ref_start := ppe_start) *)
Definition ppe_mut_type (tb : table) (t_ref t_alt : transcript) (q_ref q_alt : seq) (ppe_ref_start ppe_start : Z) : result mut_type :=
  do ca <- get_codon_at t_alt q_alt ppe_start;
  match ca with None => Err AssertionError | Some ca =>
  do codon_alt <- as_codon ca;
  do cr <- get_codon_at t_ref q_ref ppe_ref_start;
  match cr with None => Err AssertionError | Some cr =>
  do codon_ref <- as_codon cr;
  get_aa_change tb codon_ref codon_alt end end.

(* if not self.config.sgrna_ids: return [] *)
Definition ppe_mut_types (has_sgrna : bool) (tb : table) (t_ref t_alt : transcript) (q_ref q_alt : seq) (ppes : list (Z * Z)) : result (list mut_type) :=
  if negb has_sgrna then Ok [] else
  mapM (fun p => ppe_mut_type tb t_ref t_alt q_ref q_alt (fst p) (snd p)) ppes.

(* ---- the two PAM columns of a targeton as the check compares them (no background variants) ---- *)
From VV Require Import Model.Gpo Model.PpeSeq.

Definition mt_string (m : mut_type) : string := match m with Syn => "syn" | Mis => "mis" | Non => "non" end%string.
Definition annot_string (l : list mut_type) : string := String.concat ";" (map mt_string l).

(* ppes: the edits of the targeton's guides anywhere on the contig; coding: positions of the applied edits that lie in a codon *)
Definition pam_columns (has_sgrna : bool) (tb : table) (t : transcript) (start : Z) (ctx : dna) (tr : range)
    (ppes : list variant) (coding : list Z) : result (dna * list mut_type) :=
  do s <- (if has_sgrna then ppe_seq start ctx tr ppes else Ok ctx);
  do l <- ppe_mut_types has_sgrna tb t t (mkSeq start ctx) (mkSeq start s) (map (fun p => (p, p)) coding);
  Ok (py_slice (rs tr - start) (re tr - start + 1) s, l).

Definition pam_columns_agree (r : result (dna * list mut_type)) (pam_seq annot : string) : bool :=
  match r with
  | Ok (s, l) => String.eqb (string_of_dna s) pam_seq && String.eqb (annot_string l) annot
  | Err _ => false
  end.
