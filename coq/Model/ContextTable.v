(* Canonical table of get_gpo_ctx over a set of background variants: what the C06 context correspondence compares. *)
From VV Require Import Model.Base Model.Pattern Model.Gpo Model.GpoTable.
From VV Require Import Model.Context.

Definition ctx_table (all : list vstat) (r : range) : list Z :=
  match gpo_ctx all r with
  | Err e => [enc_err e]
  | Ok (None, c) => [rs c; re c; 0]
  | Ok (Some g, c) =>
      [rs c; re c; 1; g_alt_length g]
      ++ map (fun p => enc_oz (ref_to_alt_position g p None)) (zrange (rs c) (re c + 1))
  end.
