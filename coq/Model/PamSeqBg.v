(* The pam_seq column of a targeton under background variants, end to end through the models: the context and its offsets (get_gpo_ctx),
   the background sequence (get_ctx_seq_bg), the lifted targeton (lift_targeton_config), the lifted edits of the targeton's guides and
   their application (get_ppe_seq).  Definitions only. *)
From VV Require Import Model.Base Model.Pattern Model.Seq Model.Gpo Model.Targeton Model.Context Model.PpeSeq Model.LiftTargeton.

(* ppes = list(map(gpo.ref_to_alt_variant, ppes)) after the check that every position has an image *)
Definition lift_ppes (g : gpo) (ppes : list variant) : result (list variant) :=
  do _ <- check_liftable g (map v_pos ppes);
  mapM (fun v => do x <- ref_to_alt_position g (v_pos v) None;
                 match x with Some q => Ok (mkVar q (v_ref v) (v_alt v)) | None => Err AssertionError end) ppes.

Definition ppe_seq_bg (g : gpo) (start : Z) (ctx_bg : dna) (tr_alt : range) (ppes : list variant) : result dna :=
  do l <- lift_ppes g ppes; ppe_seq start ctx_bg tr_alt l.

(* contig: the whole reference contig (start 1); bgs: the unmasked background variants in reported form, in position order;
   ctx0: get_ctx_range(exons + targetons); ppes: the edits of the targeton's guides *)
Definition pam_seq_under_background (contig : dna) (bgs : list variant) (ctx0 : range) (t : tcfg) (has_sgrna : bool) (ppes : list variant) : result dna :=
  do gc <- gpo_ctx (map stat_of bgs) ctx0;
  match fst gc with
  | None =>                                                        (* no background variant in reach of the context: the plain path *)
      let c := snd gc in
      do ref_ctx <- substr (mkSeq 1 contig) c;
      do s <- (if has_sgrna then ppe_seq (rs c) ref_ctx (t_ref t) ppes else Ok ref_ctx);
      Ok (py_slice (rs (t_ref t) - rs c) (re (t_ref t) - rs c + 1) s)
  | Some g =>
      let c := snd gc in
      do ref_ctx <- substr (mkSeq 1 contig) c;
      do bg_seq <- apply_variants (rs c) ref_ctx (g_alt_length g) (filter (fun v => in_range (v_pos v) c) bgs);
      do t' <- lift_targeton g t;
      do s <- (if has_sgrna then ppe_seq_bg g (rs c) bg_seq (t_ref t') ppes else Ok bg_seq);
      Ok (py_slice (rs (t_ref t') - rs c) (re (t_ref t') - rs c + 1) s)
  end.

Definition pam_seq_agrees (r : result dna) (impl : string) : bool :=
  match r with Ok s => String.eqb (string_of_dna s) impl | Err _ => false end.
