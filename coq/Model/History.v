(* sge_proc.proc_contig / proc_targeton, cdna_proc.proc_targeton as a state machine over the shared in-memory
   database: a run is a fold of proc_targeton over the targetons of a contig and strand.  The database is a map from
   table names to rows; what processing a targeton does to it is abstract (a section variable) except for its frame:
   the tables it may write and the tables its result may depend on.  Definitions only. *)
From VV Require Import Model.Base.

Section History.
  Context {R T F : Type}.               (* table rows, targeton configurations, files written for a targeton *)
  Definition db := list (string * list R).
  Fixpoint get (d : db) (n : string) : list R :=
    match d with [] => [] | (m, rows) :: d' => if String.eqb m n then rows else get d' n end.
  Definition mem_str (n : string) (l : list string) : bool := existsb (String.eqb n) l.
  (* delete from t for t in tables *)
  Definition clear (tables : list string) (d : db) : db :=
    map (fun e => if mem_str (fst e) tables then (fst e, []) else e) d.

  Definition agree_on (names : list string) (d1 d2 : db) : Prop := forall n, In n names -> get d1 n = get d2 n.
  Definition agree_off (names : list string) (d1 d2 : db) : Prop := forall n, ~ In n names -> get d1 n = get d2 n.

  (* the body of proc_targeton after the clear: new database, files (None = the run aborted) *)
  Variable body : db -> T -> db * option F.
  Variable per_targeton : list string.

  Definition proc_targeton (d : db) (t : T) : db * option F := body (clear per_targeton d) t.

  (* the files of every targeton of a run, in order; the run stops at the first refusal *)
  Fixpoint run (d : db) (ts : list T) : list (T * option F) :=
    match ts with
    | [] => []
    | t :: ts' => let '(d', f) := proc_targeton d t in
                  (t, f) :: match f with Some _ => run d' ts' | None => [] end
    end.
End History.
