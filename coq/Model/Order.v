(* Ordering of outputs: SQLite ORDER BY of sql_select_meta (meta_row.py), sorted(set(...)) of vector items,
   names.sort(), upper-casing of sequences.  Definitions only. *)
From VV Require Import Model.Base Model.Views.

(* SQLite values as they appear in the ORDER BY columns: NULL < integers < text (BINARY collation) *)
Inductive sval := SNull | SInt (z : Z) | SText (s : string).

Definition sval_leb (a b : sval) : bool :=
  match a, b with
  | SNull, _ => true
  | SInt _, SNull => false
  | SInt x, SInt y => x <=? y
  | SInt _, SText _ => true
  | SText _, SText _ => match a, b with SText x, SText y => sleb x y | _, _ => false end
  | SText _, _ => false
  end.
Definition sval_eqb (a b : sval) : bool :=
  match a, b with
  | SNull, SNull => true
  | SInt x, SInt y => x =? y
  | SText x, SText y => String.eqb x y
  | _, _ => false
  end.

(* lexicographic comparison of two keys (lists of values of the ORDER BY columns) *)
Fixpoint key_leb (a b : list sval) : bool :=
  match a, b with
  | [], _ => true
  | _ :: _, [] => false
  | x :: a', y :: b' => if sval_eqb x y then key_leb a' b' else sval_leb x y
  end.

(* a row of the select: column name -> value, in select order *)
Definition row := list (string * sval).
Fixpoint col (r : row) (c : string) : sval :=
  match r with [] => SNull | (n, v) :: r' => if String.eqb n c then v else col r' c end.
Definition key_of (key : list string) (r : row) : list sval := map (col r) key.

(* stable insertion sort by key (any stable sort yields the same list; see sort_by_key_deterministic) *)
Section Sort.
  Context {X : Type} (leb : X -> X -> bool).
  Fixpoint insert_sorted (x : X) (l : list X) : list X :=
    match l with
    | [] => [x]
    | y :: l' => if leb x y then x :: l else y :: insert_sorted x l'
    end.
  Definition isort (l : list X) : list X := fold_right insert_sorted [] l.
End Sort.

(* the rows as the final select returns them, given the order (any permutation) in which the view yields them *)
Definition select_meta (key : list string) (rows : list row) : list row :=
  isort (fun a b => key_leb (key_of key a) (key_of key b)) rows.

(* the columns that identify a mutation of one targeton: where, what, and who asked for it *)
Definition identity_columns : list string :=
  ["ref_start"; "ref"; "alt"; "mutator"; "vcf_alias"; "vcf_var_id"]%string.

Definition subset_str (a b : list string) : bool := forallb (fun x => existsb (String.eqb x) b) a.

(* str.upper() on the letters that matter, and a soft-masking of chosen positions *)
Definition up (c : ascii) : ascii :=
  let n := nat_of_ascii c in if (Nat.leb 97 n && Nat.leb n 122)%bool then ascii_of_nat (n - 32) else c.
Definition low (c : ascii) : ascii :=
  let n := nat_of_ascii c in if (Nat.leb 65 n && Nat.leb n 90)%bool then ascii_of_nat (n + 32) else c.
Fixpoint upper (s : string) : string := match s with EmptyString => EmptyString | String c s' => String (up c) (upper s') end.
Fixpoint soft_mask (m : list bool) (s : string) : string :=
  match s, m with
  | String c s', true :: m' => String (low c) (soft_mask m' s')
  | String c s', false :: m' => String c (soft_mask m' s')
  | _, _ => s
  end.
