(* transcript.lift_exons / Transcript.lift_exons: the exons of a transcript in background coordinates.  Definitions only. *)
From VV Require Import Model.Base Model.Pattern Model.Gpo Model.Transcript.

(* exon_ranges.sort(key=lambda x: x.start) - stable insertion sort *)
Fixpoint insert_range (r : range) (l : list range) : list range :=
  match l with
  | [] => [r]
  | x :: l' => if rs r <? rs x then r :: l else x :: insert_range r l'
  end.
Definition sort_ranges (l : list range) : list range := fold_right insert_range [] l.

(* UIntRangeSortedList: sorted by (start, end) *)
Definition exon_ltb (a b : exon) : bool := if x_start a =? x_start b then x_end a <? x_end b else x_start a <? x_start b.
Fixpoint insert_exon (e : exon) (l : list exon) : list exon :=
  match l with
  | [] => [e]
  | x :: l' => if exon_ltb e x then e :: l else x :: insert_exon e l'
  end.
Definition sort_exons (l : list exon) : list exon := fold_right insert_exon [] l.

(* the first exon with frame zero, each following one with the previous exon's next_exon_frame (= cds_suffix_length) *)
Fixpoint chain_frames (idx frame : Z) (l : list range) : result (list exon) :=
  match l with
  | [] => Ok []
  | r :: rest =>
      let e := mkEx (rs r) (re r) idx frame in
      match rest with
      | [] => Ok [e]
      | _ => do nf <- cds_suffix_length e; do tl <- chain_frames (idx + 1) nf rest; Ok (e :: tl)
      end
  end.

(* the lifted ranges that exist, each with the annotated frame of its exon *)
Definition keep_some (l : list (option range * Z)) : list (range * Z) :=
  flat_map (fun p => match fst p with Some r => [(r, snd p)] | None => [] end) l.

Fixpoint insert_rf (p : range * Z) (l : list (range * Z)) : list (range * Z) :=
  match l with
  | [] => [p]
  | x :: l' => if rs (fst p) <? rs (fst x) then p :: l else x :: insert_rf p l'
  end.
Definition sort_rf (l : list (range * Z)) : list (range * Z) := fold_right insert_rf [] l.

(* since fix e65eed9 the first exon keeps its annotated frame (it used to be reset to zero) *)
Definition lift_exons (s : strand) (g : gpo) (exons : list exon) : result (list exon) :=
  match exons with
  | [] => Ok []
  | _ =>
      do rl <- mapM (fun e => ref_to_alt_range g (x_range e) true) exons;
      let kept := sort_rf (keep_some (combine rl (map x_frame exons))) in
      let ordered := if is_plus s then kept else rev kept in
      match ordered with
      | [] => Err IndexError                       (* exon_ranges[0] *)
      | (_, f0) :: _ => do l <- chain_frames 0 f0 (map fst ordered); Ok (sort_exons l)
      end
  end.

(* the tree before that fix *)
Definition lift_exons_frame0 (s : strand) (g : gpo) (exons : list exon) : result (list exon) :=
  match exons with
  | [] => Ok []
  | _ =>
      do rl <- mapM (fun e => ref_to_alt_range g (x_range e) true) exons;
      let kept := sort_rf (keep_some (combine rl (map x_frame exons))) in
      let ordered := if is_plus s then kept else rev kept in
      match ordered with
      | [] => Err IndexError
      | _ => do l <- chain_frames 0 0 (map fst ordered); Ok (sort_exons l)
      end
  end.

Definition exon_eqb (a b : exon) : bool :=
  (x_start a =? x_start b) && (x_end a =? x_end b) && (x_index a =? x_index b) && (x_frame a =? x_frame b).
Fixpoint exons_eqb (a b : list exon) : bool :=
  match a, b with [], [] => true | x :: a', y :: b' => exon_eqb x y && exons_eqb a' b' | _, _ => false end.
Definition lift_agrees (model : result (list exon)) (impl : option (list exon)) : bool :=
  match model, impl with
  | Ok a, Some b => exons_eqb a b
  | Err OtherErr, _ => true
  | Err _, None => true
  | _, _ => false
  end.
