(* What the generated kernels use for Python's `for` loops, list indexing and u8 arrays.  Definitions only.
   fold_m : a loop whose body may raise; fold_x : a loop whose body may also `return`. *)
From VV Require Import Model.Base.

Fixpoint fold_m {A B} (f : A -> B -> result A) (l : list B) (a : A) : result A :=
  match l with
  | [] => Ok a
  | x :: l' => do a' <- f a x; fold_m f l' a'
  end.

Fixpoint fold_x {A B R} (f : A -> B -> result (A + R)) (l : list B) (a : A) : result (A + R) :=
  match l with
  | [] => Ok (inl a)
  | x :: l' => do r <- f a x;
               match r with inl a' => fold_x f l' a' | inr v => Ok (inr v) end
  end.

(* l[i]: a negative index counts from the end, anything outside raises IndexError *)
Definition py_norm {A} (l : list A) (i : Z) : Z := if i <? 0 then i + zlen l else i.
Definition py_index {A} (l : list A) (i : Z) : result A :=
  match znth (py_norm l i) l with Some x => Ok x | None => Err IndexError end.

Fixpoint set_nth {A} (n : nat) (x : A) (l : list A) : list A :=
  match l, n with
  | [], _ => []
  | _ :: l', O => x :: l'
  | y :: l', S n' => y :: set_nth n' x l'
  end.
(* l[i] = x *)
Definition py_set {A} (l : list A) (i : Z) (x : A) : result (list A) :=
  let j := py_norm l i in
  if (0 <=? j) && (j <? zlen l) then Ok (set_nth (Z.to_nat j) x l) else Err IndexError.

Definition lempty {A} (l : list A) : bool := match l with [] => true | _ => false end.

(* array_utils.get_u8_array(n) = array('B', bytes(n)): n zero bytes, bytes(n) of a negative n raises ValueError *)
Definition u8_zeros (n : Z) : result (list Z) :=
  if n <? 0 then Err ValueError else Ok (repeat 0 (Z.to_nat n)).

Definition zsum (l : list Z) : Z := fold_left Z.add l 0.

(* GenomicPositionOffsets as the source declares it (masks are arrays of bytes) *)
Record kgpo := mkKGpo {
  kg_range : range; kg_alt_length : Z;
  kg_pos_offsets : list (Z * Z); kg_del : list Z; kg_shift : list Z;
  kg_alt_offsets : list (Z * Z); kg_ins : list Z }.

(* array_utils.get_prev_index(a, i, value): j = i - 1; while j >= 0: if a[j] == value: return j; j -= 1 - the first access raises
   IndexError when i - 1 is beyond the array *)
Fixpoint u8_prev_nat (a : list Z) (v : Z) (j : nat) : option Z :=     (* j - 1, ..., 0 *)
  match j with
  | O => None
  | S j' => match nth_error a j' with
            | Some x => if x =? v then Some (Z.of_nat j') else u8_prev_nat a v j'
            | None => u8_prev_nat a v j'
            end
  end.
Definition u8_prev_index (a : list Z) (i v : Z) : result (option Z) :=
  if (0 <? i) && (zlen a <? i) then Err IndexError else Ok (u8_prev_nat a v (Z.to_nat i)).

(* array_utils.get_next_index(a, i, value): a.index(value, i + 1), None when absent; a negative start counts from the end, clipped to 0 *)
Fixpoint u8_next_from (k : Z) (a : list Z) (lo v : Z) : option Z :=
  match a with
  | [] => None
  | x :: a' => if (lo <=? k) && (x =? v) then Some k else u8_next_from (k + 1) a' lo v
  end.
(* array('B').index(value, start): the first index >= start holding value, ValueError when there is none *)
Definition u8_index (a : list Z) (v s : Z) : result Z :=
  let lo := if s <? 0 then Z.max 0 (s + zlen a) else s in
  match u8_next_from 0 a lo v with Some k => Ok k | None => Err ValueError end.
Definition u8_next_index (a : list Z) (i v : Z) : result (option Z) :=
  let s := i + 1 in
  let lo := if s <? 0 then Z.max 0 (s + zlen a) else s in
  Ok (u8_next_from 0 a lo v).

(* any(f(x) for x in l): stops at the first true *)
Fixpoint any_m {B} (f : B -> result bool) (l : list B) : result bool :=
  match l with
  | [] => Ok false
  | x :: l' => do b <- f x; if b then Ok true else any_m f l'
  end.

(* while loops: recursion on fuel; step says continue (inl), finished (inr), or - while_x - finished / returned a value.  Running out of fuel is
   the error value OtherErr (the loop body did not decrease its counter) *)
Fixpoint while_m {A} (fuel : nat) (step : A -> result (A + A)) (a : A) : result A :=
  match fuel with
  | O => Err OtherErr
  | S f => do r <- step a; match r with inl a' => while_m f step a' | inr a' => Ok a' end
  end.
Fixpoint while_x {A R} (fuel : nat) (step : A -> result (A + (A + R))) (a : A) : result (A + R) :=
  match fuel with
  | O => Err OtherErr
  | S f => do r <- step a; match r with inl a' => while_x f step a' | inr x => Ok x end
  end.

(* options.Options as far as the length filter reads it *)
Record opts := mkOpts { o_min : Z; o_max : Z }.

(* s[:a] and s[a:] with Python's rule for a negative bound *)
Definition py_slice_upto {X} (l : list X) (a : Z) : list X := if a <? 0 then zfirstn (Z.max 0 (zlen l + a)) l else zfirstn a l.
Definition py_slice_from {X} (l : list X) (a : Z) : list X := if a <? 0 then zskipn (Z.max 0 (zlen l + a)) l else zskipn a l.

(* range(a, b, -1): a, a - 1, ..., b + 1 *)
Definition py_range_down (a b : Z) : list Z := map Z.opp (py_range (- a) (- b) 1).
