(* The mirror image of a design on the reverse-complemented contig of length n (C14): coordinates, ranges, exons, strand. *)
From VV Require Import Model.Base Model.Pattern Model.Transcript.

Definition mpos (n p : Z) : Z := n + 1 - p.
Definition mirror_range (n : Z) (r : range) : range := mkRange (mpos n (re r)) (mpos n (rs r)).
Definition mirror_exon (n : Z) (e : exon) : exon := mkEx (mpos n (x_end e)) (mpos n (x_start e)) (x_index e) (x_frame e).
Definition flip (s : strand) : strand := match s with Plus => Minus | Minus => Plus end.
Definition swap_res (r : result (Z * Z)) : result (Z * Z) := match r with Ok (a, b) => Ok (b, a) | Err e => Err e end.
