(* loaders/targeton_config.py: TargetonConfig validation and region getters; uint_range.py get_before/get_after *)
From VV Require Import Model.Base.

Record tcfg := mkT { t_ref : range; t_r2 : range; t_e1 : Z; t_e3 : Z }.

(* TargetonConfig.__post_init__ *)
Definition validate (c : tcfg) : result unit :=
  if (rs (t_r2 c) <? rs (t_ref c)) || (re (t_ref c) <? re (t_r2 c)) then Err ValueError
  else if rs (t_r2 c) - t_e1 c <? rs (t_ref c) then Err ValueError
  else if re (t_ref c) <? re (t_r2 c) + t_e3 c then Err ValueError
  else Ok tt.

(* UIntRange.get_before / get_after: assert n > 0, then the range constructor *)
Definition get_before (r : range) (n : Z) : result range :=
  if 0 <? n then mk_range (rs r - n) (rs r - 1) else Err AssertionError.
Definition get_after (r : range) (n : Z) : result range :=
  if 0 <? n then mk_range (re r + 1) (re r + n) else Err AssertionError.

Definition get_region_1 (c : tcfg) : result (option range) :=
  if t_e1 c =? 0 then Ok None else do r <- get_before (t_r2 c) (t_e1 c); Ok (Some r).
Definition get_region_3 (c : tcfg) : result (option range) :=
  if t_e3 c =? 0 then Ok None else do r <- get_after (t_r2 c) (t_e3 c); Ok (Some r).

Definition get_const_1 (c : tcfg) : result (option range) :=
  do r1 <- get_region_1 c;
  let const_end := rs (match r1 with Some r => r | None => t_r2 c end) - 1 in
  if const_end <? rs (t_ref c) then Ok None
  else do r <- mk_range (rs (t_ref c)) const_end; Ok (Some r).

Definition get_const_2 (c : tcfg) : result (option range) :=
  do r3 <- get_region_3 c;
  let const_start := re (match r3 with Some r => r | None => t_r2 c end) + 1 in
  if re (t_ref c) <? const_start then Ok None
  else do r <- mk_range const_start (re (t_ref c)); Ok (Some r).

Fixpoint get_not_none {X} (l : list (option X)) : list X :=
  match l with [] => [] | Some x :: l' => x :: get_not_none l' | None :: l' => get_not_none l' end.

Definition get_all_regions (c : tcfg) : result (list range) :=
  do c1 <- get_const_1 c; do r1 <- get_region_1 c; do r3 <- get_region_3 c; do c2 <- get_const_2 c;
  Ok (get_not_none [c1; r1; Some (t_r2 c); r3; c2]).

Definition get_regions (c : tcfg) : result (list (option range)) :=
  do r1 <- get_region_1 c; do r3 <- get_region_3 c; Ok [r1; Some (t_r2 c); r3].

Definition get_const_regions (c : tcfg) : result (list range) :=
  do c1 <- get_const_1 c; do c2 <- get_const_2 c; Ok (get_not_none [c1; c2]).

(* the constructor followed by the getter, as the tool uses them *)
Definition make_all_regions (c : tcfg) : result (list range) :=
  do _ <- validate c; get_all_regions c.

Definition range_eqb (a b : range) : bool := (rs a =? rs b) && (re a =? re b).
