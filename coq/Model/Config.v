(* config.py / sge_config.py / cdna_config.py / main_config.py: pydantic models with aliases, dumped by alias and loaded
   by alias or by name; BaseConfig.is_valid / SGEConfig.is_valid.  Definitions only. *)
From VV Require Import Model.Base.

Inductive jval := JNull | JStr (s : string) | JInt (z : Z) | JBool (b : bool).

(* a field declaration: python name, alias, default (None = required) *)
Record fdecl := mkF { f_name : string; f_alias : string; f_default : option jval }.
(* a configuration object: python name -> value, in declaration order *)
Definition config := list (string * jval).
Definition jobj := list (string * jval).

Fixpoint lookup {V} (k : string) (l : list (string * V)) : option V :=
  match l with [] => None | (k', v) :: l' => if String.eqb k' k then Some v else lookup k l' end.

(* model_dump_json(by_alias=True): every declared field under its alias *)
Definition dump (fs : list fdecl) (c : config) : result jobj :=
  mapM (fun f => match lookup (f_name f) c with Some v => Ok (f_alias f, v) | None => Err KeyError end) fs.

(* parsing an object (populate_by_name = True): the alias, else the python name, else the default *)
Definition load_field (f : fdecl) (o : jobj) : result (string * jval) :=
  match lookup (f_alias f) o with
  | Some v => Ok (f_name f, v)
  | None => match lookup (f_name f) o with
            | Some v => Ok (f_name f, v)
            | None => match f_default f with Some v => Ok (f_name f, v) | None => Err InvalidConfig end
            end
  end.
Definition load (fs : list fdecl) (o : jobj) : result config := mapM (fun f => load_field f o) fs.

(* a configuration that has exactly the declared fields, in order *)
Definition shaped (fs : list fdecl) (c : config) : Prop := map fst c = map f_name fs.

(* utils.is_adaptor_valid: None or a string over ACGT *)
Fixpoint is_dna_str (s : string) : bool :=
  match s with
  | EmptyString => true
  | String c s' => match nt_of_ascii c with Some _ => is_dna_str s' | None => false end
  end.
Definition adaptor_valid (a : option string) : bool := match a with None => true | Some s => is_dna_str s end.

(* BaseConfig.is_valid and SGEConfig.is_valid *)
Definition base_valid (a5 a3 : option string) (min_len max_len : Z) : bool :=
  adaptor_valid a5 && adaptor_valid a3 && (1 <=? max_len) && (1 <=? min_len).
Definition sge_valid (a5 a3 : option string) (min_len max_len : Z) (force_ns force_fs : bool) : bool :=
  base_valid a5 a3 min_len max_len && negb (force_fs && negb force_ns).

(* main(): the order of the checks of `valiant -c` *)
Inductive outcome := Refused | Ran.
Definition main_config_run (parses valid_mode dir_ok files_ok : bool) : outcome :=
  if negb parses then Refused else if negb dir_ok then Refused else if negb files_ok then Refused
  else if negb valid_mode then Refused else Ran.
