From VV Require Import Model.Base Model.Pattern Model.Views.

Definition oz_eqb := option_eqb Z.eqb.
Definition join_eqb (a b : meta_join) : bool :=
  (j_ref_end a =? j_ref_end b) && oz_eqb (j_start_exon a) (j_start_exon b) && oz_eqb (j_start_codon a) (j_start_codon b) &&
  oz_eqb (j_start_ppe a) (j_start_ppe b) && oz_eqb (j_end_exon a) (j_end_exon b) && oz_eqb (j_end_codon a) (j_end_codon b) &&
  oz_eqb (j_end_ppe a) (j_end_ppe b) && list_eqb String.eqb (j_sgrna_ids a) (j_sgrna_ids b).

(* the view on a database whose targeton_exon_codon_ppes was filled by the insert query; `pk_error` = the insert raised *)
Definition view_check (exons : list exon_row) (ts : list tppe) (pk_error : bool) (rows : list (Z * Z * meta_join)) : bool :=
  match insert_ecps exons ts [] with
  | Err _ => pk_error
  | Ok ecps => negb pk_error && forallb (fun r => join_eqb (v_meta_join exons ts ecps (fst (fst r)) (snd (fst r))) (snd r)) rows
  end.
