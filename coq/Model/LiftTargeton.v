(* sge_proc.lift_targeton_config: the targeton in background coordinates (its range and region 2 are lifted strictly, the two extension
   lengths are kept as lengths, the result is validated like any targeton).  Definitions only. *)
From VV Require Import Model.Base Model.Pattern Model.Gpo Model.Targeton.

Definition lift_targeton (g : gpo) (c : tcfg) : result tcfg :=
  do r <- ref_to_alt_range g (t_ref c) false;
  match r with
  | None => Err ValueError          (* "The targeton does not exist in the alternate reference!" *)
  | Some r' =>
      do r2 <- ref_to_alt_range g (t_r2 c) false;
      match r2 with
      | None => Err ValueError      (* "The targeton region 2 does not exist in the alternate reference!" *)
      | Some r2' => let c' := mkT r' r2' (t_e1 c) (t_e3 c) in do _ <- validate c'; Ok c'
      end
  end.
