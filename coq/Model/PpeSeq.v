(* sge_proc.get_ppe_seq, the part after the database look-ups: of the edits of the targeton's guides only those inside
   the targeton are applied to the context sequence, in position order.  Definitions only. *)
From VV Require Import Model.Base Model.Pattern Model.Gpo.

(* registered_ppes_in_range: if ppe.pos in targeton_range (the others are logged and left out) *)
Definition ppes_in_range (tr : range) (ppes : list variant) : list variant :=
  filter (fun v => in_range (v_pos v) tr) ppes.

(* ppes_in_range.sort(key=lambda x: x.pos) - stable *)
Fixpoint insert_var_by_pos (v : variant) (l : list variant) : list variant :=
  match l with
  | [] => [v]
  | x :: l' => if v_pos v <=? v_pos x then v :: l else x :: insert_var_by_pos v l'
  end.
Definition sort_vars (l : list variant) : list variant := fold_right insert_var_by_pos [] l.

(* apply_variants(seq, len(seq), ppes_in_range) *)
Definition ppe_seq (start : Z) (ctx : dna) (tr : range) (ppes : list variant) : result dna :=
  apply_variants start ctx (zlen ctx) (sort_vars (ppes_in_range tr ppes)).

(* get_ppe_seq under background variants (since fix 7b135b7): for ppe in ppes: if gpo.ref_to_alt_position(ppe.pos) is None:
   raise InvalidBackgroundVariant - every edit of the targeton's guides, inside the targeton or not *)
Fixpoint check_liftable (g : gpo) (ppes : list Z) : result unit :=
  match ppes with
  | [] => Ok tt
  | p :: ps => do x <- ref_to_alt_position g p None;
               match x with None => Err InvalidBackgroundVariant | Some _ => check_liftable g ps end
  end.
Definition check_ppes_liftable (g : option gpo) (ppes : list Z) : result unit :=
  match g with None => Ok tt | Some g => check_liftable g ppes end.
