(* loaders/base_targeton_config.py parse_mutators (on top of loaders/utils.parse_list and MutatorConfig.parse) *)
From VV Require Import Model.Base Model.Pattern Model.CodonTable Model.Transcript Model.Mutators Model.Views Model.ParseList Model.Refusal.

(* loaders/base_targeton_config.parse_mutators: sorted(set(parse_list(s))), each code parsed, duplicates of the *parsed* mutators
   removed keeping the first (dict.fromkeys): the two spellings of one parametric deletion give one mutator *)
Fixpoint dedup_kinds (l : list mkind) : list mkind :=
  match l with
  | [] => []
  | k :: l' => k :: filter (fun x => negb (mkind_eqb k x)) (dedup_kinds l')
  end.
Definition parse_mutators (s : string) : result (list mkind) :=
  do ks <- mapM parse_label (sort_dedup (parse_list s)); Ok (dedup_kinds ks).

