(* seq.py (alter, get_nt), strings/dna_str.py (replace_substr, insert_substr), oligo_seq.py (alter_seq) *)
From VV Require Import Model.Base Model.Pattern.

Definition is_nil {X} (l : list X) : bool := match l with [] => true | _ => false end.

(* DnaStr.replace_substr(r, alt) on a relative range [a, b] *)
Definition replace_substr (s : dna) (a b : Z) (alt : dna) : result dna :=
  if (a <? zlen s) && (b <? zlen s) then Ok (zfirstn a s ++ alt ++ zskipn (b + 1) s) else Err AssertionError.

(* DnaStr.insert_substr(offset, alt): insert before `offset`, or append *)
Definition insert_substr (s : dna) (off : Z) (alt : dna) : result dna :=
  if off <? 0 then Err ValueError
  else if zlen s <? off then Err ValueError
  else Ok (zfirstn off s ++ alt ++ zskipn off s).

(* alter_seq(seq, variant) = seq.alter(variant.ref_range, variant.is_insertion, variant.alt) *)
Definition alter (q : seq) (v : variant) : result dna :=
  do r <- mk_range (v_pos v) (var_ref_end v);
  if is_nil (v_ref v) then insert_substr (s_bases q) (rs r - s_start q) (v_alt v)
  else do rr <- mk_range (rs r - s_start q) (re r - s_start q);
       replace_substr (s_bases q) (rs rr) (re rr) (v_alt v).

(* a sequence with the nucleotide preceding it (Seq.prev_nt) and Seq.get_nt *)
Record pseq := mkPSeq { p_seq : seq; p_prev : option nt }.
Definition get_nt (q : pseq) (pos : Z) : result nt :=
  if pos <? 1 then Err ValueError
  else if pos <? s_start (p_seq q) then
    (if pos =? s_start (p_seq q) - 1 then match p_prev q with Some x => Ok x | None => Err IndexError end
     else Err IndexError)
  else if pos <=? s_end (p_seq q) then
    match znth (pos - s_start (p_seq q)) (s_bases (p_seq q)) with Some x => Ok x | None => Err IndexError end
  else Err IndexError.
