(* Canonical table of every liftover lookup over a small context: what the C05 correspondence compares. *)
From VV Require Import Model.Base Model.Pattern Model.Gpo.

Definition enc_err (e : err) : Z :=
  match e with ValueError => -2 | IndexError => -3 | RuntimeError => -4 | AssertionError => -5 | _ => -9 end.
Definition enc_oz (r : result (option Z)) : Z :=
  match r with Ok (Some x) => x | Ok None => -1 | Err e => enc_err e end.
Definition enc_b (r : result bool) : Z :=
  match r with Ok true => 1 | Ok false => 0 | Err e => enc_err e end.
Definition enc_or (r : result (option range)) : list Z :=
  match r with Ok (Some x) => [rs x; re x] | Ok None => [-1; -1] | Err e => [enc_err e; enc_err e] end.

Definition gpo_table (vs : list vstat) (r : range) : list Z :=
  match from_var_stats vs r with
  | Err e => [enc_err e]
  | Ok g =>
      let ps := zrange (rs r - 2) (re r + 3) in
      let qs := zrange (rs r - 1) (rs r + g_alt_length g + 1) in
      let inner := zrange (rs r) (re r + 1) in
      let alts := zrange (rs r) (rs r + g_alt_length g) in
      [g_alt_length g]
      ++ map (fun p => enc_oz (ref_to_alt_position g p None)) ps
      ++ map (fun p => enc_oz (ref_to_alt_position g p (Some Before))) ps
      ++ map (fun p => enc_oz (ref_to_alt_position g p (Some After))) ps
      ++ map (fun q => enc_oz (alt_to_ref_position g q)) qs
      ++ concat (map (fun a => concat (map (fun b =>
            enc_or (ref_to_alt_range g (mkRange a b) false) ++ enc_or (ref_to_alt_range g (mkRange a b) true))
            (zrange a (re r + 1)))) inner)
      ++ concat (map (fun q => map (fun n => enc_b (alt_var_overlaps_var g q n)) [0; 1; 2; 3]) alts)
      ++ concat (map (fun p => map (fun n => enc_b (ref_var_overlaps_var g p n)) [0; 1; 2; 3]) inner)
  end.

Definition zlist_eqb := list_eqb Z.eqb.
(* the model flags CPython negative-index wrap-around / irregular buffer resizes as OtherErr (-9): such
   ill-formed inputs are outside what the model represents and are not compared *)
Definition table_agrees (model impl : list Z) : bool := zlist_eqb model [-9] || zlist_eqb model impl.
Definition dna_agrees (model impl : string) : bool := String.eqb model "!O" || String.eqb model impl.
Definition enc_dna (r : result dna) : string :=
  match r with
  | Ok s => string_of_dna s
  | Err ValueError => "!V" | Err IndexError => "!I" | Err OtherErr => "!O" | Err _ => "!?"
  end.
