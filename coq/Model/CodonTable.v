(* codon_table.py, codon_table_row.py, codon_table_builder.py, codon_table_loader.py,
   strings/translation_symbol.py, utils.safe_group_by *)
From VV Require Import Model.Base Model.Pattern.

Definition aa := string.
Definition STOP : aa := "STOP"%string.
Definition aa_eqb (x y : aa) : bool := String.eqb x y.

Record crow := mkRow { c_codon : dna; c_aa : aa; c_rank : Z }.

(* CodonTableRow.reverse_complement *)
Definition rc_row (r : crow) : crow := mkRow (revcomp (c_codon r)) (c_aa r) (c_rank r).

(* CodonTable.from_list: only the (possibly reverse-complemented) rows matter; the three dictionaries are
   read through the functions below *)
Definition table := list crow.
Definition from_list (rows : list crow) (rc : bool) : table := if rc then map rc_row rows else rows.

(* codon_to_aa[codon]: a dict comprehension, the last row of a codon wins *)
Fixpoint translate_opt (t : table) (c : dna) : option aa :=
  match t with
  | [] => None
  | r :: t' => match translate_opt t' c with
               | Some a => Some a
               | None => if dna_eqb (c_codon r) c then Some (c_aa r) else None
               end
  end.
Definition translate (t : table) (c : dna) : result aa :=
  match translate_opt t c with Some a => Ok a | None => Err KeyError end.

(* sorted(rs, key=rank): stable insertion sort *)
Fixpoint insert_by_rank (r : crow) (l : list crow) : list crow :=
  match l with
  | [] => [r]
  | x :: l' => if c_rank r <=? c_rank x then r :: l else x :: insert_by_rank r l'
  end.
Definition sort_by_rank (l : list crow) : list crow := fold_right insert_by_rank [] l.

(* aa_to_codons[aa]: rows of that amino acid (safe_group_by sorts by amino acid first, stably, so the rows of
   one amino acid keep their relative order whatever the file order of the others), sorted by rank *)
Definition rows_of (t : table) (a : aa) : list crow := filter (fun r => aa_eqb (c_aa r) a) t.
Definition codons_of (t : table) (a : aa) : list dna := map c_codon (sort_by_rank (rows_of t a)).
Definition get_codons (t : table) (a : aa) : result (list dna) :=
  match codons_of t a with [] => Err KeyError | l => Ok l end.

Definition get_top_codon (t : table) (a : aa) : result dna :=
  do l <- get_codons t a; match l with c :: _ => Ok c | [] => Err IndexError end.
Definition get_second_best_codon (t : table) (a : aa) : result (option dna) :=
  do l <- get_codons t a; Ok (match l with _ :: c :: _ => Some c | _ => None end).

(* get_synonymous_codons *)
Definition get_synonymous_codons (t : table) (c : dna) : result (list dna) :=
  do a <- translate t c; do l <- get_codons t a; Ok (filter (fun x => negb (dna_eqb x c)) l).

(* TranslationSymbol.get_aa_change / CodonTable.get_aa_change *)
Inductive mut_type := Syn | Mis | Non.
Definition aa_change (a b : aa) : mut_type :=
  if aa_eqb b STOP then Non else if aa_eqb b a then Syn else Mis.
Definition get_aa_change (t : table) (c1 c2 : dna) : result mut_type :=
  do a <- translate t c1; do b <- translate t c2; Ok (aa_change a b).
(* is_syn: same translation (a stop codon replaced by another stop codon included) *)
Definition is_syn (t : table) (c1 c2 : dna) : result bool :=
  do a <- translate t c1; do b <- translate t c2; Ok (aa_eqb a b).

(* distinct amino acids of the table (the keys of aa_to_codons) *)
Fixpoint mem_aa (a : aa) (l : list aa) : bool :=
  match l with [] => false | x :: l' => aa_eqb x a || mem_aa a l' end.
Fixpoint dedup_aa (l : list aa) : list aa :=
  match l with [] => [] | x :: l' => if mem_aa x l' then dedup_aa l' else x :: dedup_aa l' end.
Definition aas_of (t : table) : list aa := dedup_aa (map c_aa t).

(* lexicographic order on DNA strings (Python str comparison on ACGT) *)
Definition nt_idx (x : nt) : Z := match x with A => 0 | C => 1 | G => 2 | T => 3 end.
Fixpoint dna_leb (x y : dna) : bool :=
  match x, y with
  | [], _ => true
  | _ :: _, [] => false
  | a :: x', b :: y' => if nt_idx a <? nt_idx b then true else if nt_idx b <? nt_idx a then false else dna_leb x' y'
  end.
Fixpoint insert_dna (c : dna) (l : list dna) : list dna :=
  match l with [] => [c] | x :: l' => if dna_leb c x then c :: l else x :: insert_dna c l' end.
Definition sort_dna (l : list dna) : list dna := fold_right insert_dna [] l.

(* get_top_codons(exclude) *)
Definition get_top_codons (t : table) (exclude : list aa) : result (list dna) :=
  do tops <- mapM (get_top_codon t) (filter (fun a => negb (mem_aa a exclude)) (aas_of t));
  Ok (sort_dna tops).

(* ---- codon_table_loader: one row of the CSV, already split into fields ---- *)
Definition is_digit (c : ascii) : bool := (48 <=? Z.of_nat (nat_of_ascii c)) && (Z.of_nat (nat_of_ascii c) <=? 57).
Fixpoint digits_val (acc : Z) (s : string) : option Z :=
  match s with
  | EmptyString => Some acc
  | String c s' => if is_digit c then digits_val (10 * acc + (Z.of_nat (nat_of_ascii c) - 48)) s' else None
  end.
Fixpoint drop (n : nat) (s : string) : string :=
  match n, s with O, _ => s | S n', String _ s' => drop n' s' | S _, EmptyString => EmptyString end.

(* _parse_rank: 'RANK' prefix, non-empty suffix; suffix in 'UT' (substring test) is rank 1, else int(suffix).
   Only plain decimal digits are modelled for int(); anything else that int() might accept is flagged OtherErr. *)
Definition parse_rank (s : string) : result Z :=
  if negb (String.prefix "RANK" s) || (Z.of_nat (String.length s) <=? 4) then Err ValueError
  else let suf := drop 4 s in
       if String.eqb suf "U" || String.eqb suf "T" || String.eqb suf "UT" then Ok 1
       else match digits_val 0 suf with
            | Some n => Ok n
            | None => Err ValueError
            end.

Definition parse_codon (s : string) : result dna :=
  match dna_of_string s with
  | Some c => if zlen c =? 3 then Ok c else Err ValueError
  | None => Err ValueError
  end.
Definition parse_aa (s : string) : result aa :=
  if (Z.of_nat (String.length s) =? 1) || String.eqb s STOP then Ok s else Err ValueError.

(* the frequency has been parsed by float(); freq_ok = it parsed and lies in [0, 1] *)
Definition parse_row (fields : list string) (freq_ok : bool) : result crow :=
  match fields with
  | [codon; a; _; rank] =>
      if negb freq_ok then Err ValueError
      else do c <- parse_codon codon; do x <- parse_aa a; do k <- parse_rank rank; Ok (mkRow c x k)
  | _ => Err ValueError
  end.

Definition crow_eqb (x y : crow) : bool :=
  dna_eqb (c_codon x) (c_codon y) && aa_eqb (c_aa x) (c_aa y) && (c_rank x =? c_rank y).

(* codon_table_loader.load_codon_table_rows: every line of the file is a row - list(map(_parse_codon_table_row, csv.reader(fh))) *)
Definition load_table (lines : list (list string * bool)) : result (list crow) :=
  mapM (fun l => parse_row (fst l) (snd l)) lines.
