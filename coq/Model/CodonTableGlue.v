(* Canonical table of codon-table lookups: what the C17 correspondence compares. *)
From VV Require Import Model.Base Model.Pattern Model.CodonTable.
Local Open Scope string_scope.

Definition nts : list nt := [A; C; G; T].
Definition all_codons : list dna :=
  concat (map (fun a => concat (map (fun b => map (fun c => [a; b; c]) nts) nts)) nts).

Definition show_err (e : err) : string :=
  match e with KeyError => "!K" | IndexError => "!I" | ValueError => "!V" | _ => "!?" end.
Definition show_aa (r : result aa) : string := match r with Ok a => a | Err e => show_err e end.
Definition show_dna (r : result dna) : string := match r with Ok c => string_of_dna c | Err e => show_err e end.
Definition show_odna (r : result (option dna)) : string :=
  match r with Ok (Some c) => string_of_dna c | Ok None => "-" | Err e => show_err e end.
Fixpoint join (sep : string) (l : list string) : string :=
  match l with [] => "" | [x] => x | x :: l' => x ++ sep ++ join sep l' end.
Definition show_dnas (r : result (list dna)) : string :=
  match r with Ok l => join ";" (map string_of_dna l) | Err e => show_err e end.

Definition ct_lookups (rows : list crow) (rc : bool) (aas : list aa) : list string :=
  let t := from_list rows rc in
  map (fun c => show_aa (translate t c)) all_codons
  ++ map (fun a => show_dna (get_top_codon t a)) aas
  ++ map (fun a => show_odna (get_second_best_codon t a)) aas
  ++ map (fun c => show_dnas (get_synonymous_codons t c)) all_codons
  ++ [show_dnas (get_top_codons t [])]
  ++ map (fun a => show_dnas (get_top_codons t [STOP; a])) aas.

Definition strs_eqb := list_eqb String.eqb.

(* the model does not cover int()'s full grammar (signs, spaces, underscores): such rank suffixes are flagged *)
Fixpoint has_int_extra (s : string) : bool :=
  match s with
  | EmptyString => false
  | String c s' => Ascii.eqb c " " || Ascii.eqb c "+" || Ascii.eqb c "-" || Ascii.eqb c "_" || has_int_extra s'
  end.
Definition row_agrees (fields : list string) (freq_ok : bool) (impl : result crow) : bool :=
  match fields with
  | [_; _; _; rank] => has_int_extra rank
  | _ => false
  end || res_eqb crow_eqb (parse_row fields freq_ok) impl.

(* whole files: the implementation's answer is Some rows, or None when it refused *)
Fixpoint crows_eqb (a b : list crow) : bool :=
  match a, b with [], [] => true | x :: a', y :: b' => crow_eqb x y && crows_eqb a' b' | _, _ => false end.
Definition load_agrees (m : result (list crow)) (impl : option (list crow)) : bool :=
  match m, impl with Ok a, Some b => crows_eqb a b | Err _, None => true | _, _ => false end.
