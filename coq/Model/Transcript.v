(* exon.py, transcript.py, uint_range.py (UIntRangeSortedList.get_before/get_after), cds_seq.py, utils.py *)
From VV Require Import Model.Base Model.Pattern.

Inductive strand := Plus | Minus.
Definition is_plus (s : strand) : bool := match s with Plus => true | Minus => false end.

Record exon := mkEx { x_start : Z; x_end : Z; x_index : Z; x_frame : Z }.
Definition x_range (e : exon) : range := mkRange (x_start e) (x_end e).
Definition x_len (e : exon) : Z := x_end e - x_start e + 1.

(* utils.get_codon_offset_complement *)
Definition compl_offset (o : Z) : result Z :=
  if o =? 0 then Ok 0 else if o =? 1 then Ok 2 else if o =? 2 then Ok 1 else Err ValueError.
(* utils.get_cds_ext_3_length *)
Definition cds_ext_3_length (frame len : Z) : Z := (3 - (len + frame) mod 3) mod 3.

Definition cds_prefix_length (e : exon) : result Z := compl_offset (x_frame e).
Definition cds_suffix_length (e : exon) : result Z := do p <- cds_prefix_length e; Ok (cds_ext_3_length p (x_len e)).

Definition first_codon_start (s : strand) (e : exon) : result Z :=
  do p <- cds_prefix_length e; Ok (if is_plus s then x_start e - p else x_end e + p).

(* Exon.get_codon_index_at *)
Definition codon_index_at (s : strand) (e : exon) (pos : Z) : result (option Z) :=
  if negb (in_range pos (x_range e)) then Ok None
  else do fcs <- first_codon_start s e; Ok (Some (Z.max 0 (Z.abs (pos - fcs)) / 3)).

(* exon.get_codon_range *)
Definition codon_range (s : strand) (origin ci : Z) : result range :=
  if is_plus s then mk_range (origin + 3 * ci) (origin + 3 * ci + 2)
  else mk_range (origin - 3 * ci - 2) (origin - 3 * ci).

(* UIntRange.overlaps / intersect *)
Definition overlaps (a b : range) : bool := (in_range (rs b) a || in_range (re b) a) || range_in a b.
Definition intersect (a b : range) : option range :=
  if overlaps a b then Some (mkRange (Z.max (rs a) (rs b)) (Z.min (re a) (re b))) else None.

(* Exon.get_codon: the (possibly partial) codon clamped to the exon *)
Definition exon_get_codon (s : strand) (e : exon) (ci : Z) : result range :=
  if ci <? 0 then Err AssertionError else
  do origin <- first_codon_start s e;
  do r <- codon_range s origin ci;
  match intersect r (x_range e) with
  | Some c => if (1 <=? rlen c) && (rlen c <=? 3) then Ok c else Err AssertionError
  | None => Err AssertionError
  end.

Definition exon_get_codon_at (s : strand) (e : exon) (pos : Z) : result (option range) :=
  do ci <- codon_index_at s e pos;
  match ci with None => Ok None | Some c => do r <- exon_get_codon s e c; Ok (Some r) end.

(* transcript.get_range_cds_exts *)
Definition range_cds_exts (s : strand) (e : exon) (r : range) : result (Z * Z) :=
  let d5 := if is_plus s then rs r - x_start e else x_end e - re r in
  if d5 <? 0 then Err AssertionError else
  do ep <- cds_prefix_length e;
  let pre := (ep + d5 mod 3) mod 3 in
  let suf := cds_ext_3_length pre (rlen r) in
  Ok (if is_plus s then (pre, suf) else (suf, pre)).

(* UIntRangeSortedList.get_before(i, r, before) / get_after: positions of the bases completing the first/last codon,
   from the same exon (local) or from the end/start of the neighbouring exons in genomic order (distal; the while
   loops walk over as many neighbouring exons as the extension needs) *)
(* prevs: the preceding exons, nearest first; n bases wanted; result in ascending order *)
Fixpoint take_before (prevs : list exon) (n : Z) : result (list Z) :=
  if n <=? 0 then Ok [] else
  match prevs with
  | [] => Err AssertionError
  | p :: ps => let k := Z.min n (x_len p) in
               do rest <- take_before ps (n - k); Ok (rest ++ zrange (x_end p - k + 1) (x_end p + 1))
  end.
(* nexts: the following exons, nearest first *)
Fixpoint take_after (nexts : list exon) (n : Z) : result (list Z) :=
  if n <=? 0 then Ok [] else
  match nexts with
  | [] => Err AssertionError
  | p :: ps => let k := Z.min n (x_len p) in
               do rest <- take_after ps (n - k); Ok (zrange (x_start p) (x_start p + k) ++ rest)
  end.

Definition get_before (exons : list exon) (i : Z) (r : range) (before : Z) : result (list Z) :=
  if (i <? 0) || (before <? 0) then Err AssertionError else
  if before =? 0 then Ok [] else
  match znth i exons with
  | None => Err IndexError
  | Some e =>
      let ds := rs r - x_start e in
      if before <=? ds then Ok (zrange (rs r - before) (rs r))
      else if negb (0 <? i) then Err AssertionError
      else do distal <- take_before (rev (zfirstn i exons)) (before - ds);
           Ok (distal ++ zrange (x_start e) (x_start e + ds))
  end.

Definition get_after (exons : list exon) (i : Z) (r : range) (after : Z) : result (list Z) :=
  if (i <? 0) || (after <? 0) then Err AssertionError else
  if after =? 0 then Ok [] else
  match znth i exons with
  | None => Err IndexError
  | Some e =>
      let ds := x_end e - re r in
      if after <=? ds then Ok (zrange (re r + 1) (re r + after + 1))
      else if negb (i <? zlen exons - 1) then Err AssertionError
      else do distal <- take_after (zskipn (i + 1) exons) (after - ds);
           Ok ((if 0 <? ds then zrange (x_end e - ds + 1) (x_end e + 1) else []) ++ distal)
  end.

Record transcript := mkTr { t_strand : strand; t_exons : list exon }.   (* exons sorted by genomic start *)

(* Transcript.get_exon_index / get_exon *)
Definition exon_list_index (t : transcript) (number : Z) : result Z :=
  if (number <? 0) || (zlen (t_exons t) <=? number) then Err ValueError
  else Ok (if is_plus (t_strand t) then number else zlen (t_exons t) - number - 1).
Definition get_exon (t : transcript) (number : Z) : result exon :=
  do i <- exon_list_index t number;
  match znth i (t_exons t) with
  | Some e => if x_index e =? number then Ok e else Err AssertionError
  | None => Err IndexError
  end.

(* Seq.get_at(positions): DnaStr.get_at of pos - start; a negative index would wrap (flagged), beyond the end IndexError *)
Definition seq_get_at (q : seq) (positions : list Z) : result dna :=
  mapM (fun p => let i := p - s_start q in
                 if i <? 0 then Err OtherErr
                 else match znth i (s_bases q) with Some x => Ok x | None => Err IndexError end) positions.

Fixpoint ascending (l : list Z) : bool :=
  match l with
  | x :: ((y :: _) as l') => (x <? y) && ascending l'
  | _ => true
  end.

(* CdsSeq *)
Record cds_seq := mkCds {
  c_start : Z; c_bases : dna; c_prefix : dna; c_suffix : dna; c_prefix_pos : list Z; c_suffix_pos : list Z }.
Definition c_len (c : cds_seq) : Z := zlen (c_bases c).
Definition c_end (c : cds_seq) : Z := get_end (c_start c) (c_len c).
Definition c_ext (c : cds_seq) : dna := c_prefix c ++ c_bases c ++ c_suffix c.
Definition c_ext_length (c : cds_seq) : Z := zlen (c_prefix c) + zlen (c_suffix c) + c_len c.
Definition c_seq (c : cds_seq) : seq := mkSeq (c_start c) (c_bases c).

(* Transcript._get_cds_seq *)
Definition get_cds_seq_exon (t : transcript) (q : seq) (e : exon) (r : range) : result cds_seq :=
  if negb (range_in r (x_range e)) then Err ValueError else
  do ba <- range_cds_exts (t_strand t) e r;
  let '(before, after) := ba in
  do i <- exon_list_index t (x_index e);
  do bp <- get_before (t_exons t) i r before;
  do ap <- get_after (t_exons t) i r after;
  if negb ((zlen bp =? before) && (zlen ap =? after)) then Err AssertionError else
  do main <- substr q r;
  do pre <- seq_get_at q bp;
  do suf <- seq_get_at q ap;
  let c := mkCds (rs r) main pre suf bp ap in
  if negb ((c_ext_length c mod 3 =? 0) && ascending bp && ascending ap) then Err AssertionError else Ok c.

Definition get_cds_seq (t : transcript) (q : seq) (number : Z) (r : range) : result cds_seq :=
  do e <- get_exon t number; get_cds_seq_exon t q e r.

(* Transcript.get_codon_at *)
Definition exon_at_pos (t : transcript) (pos : Z) : option exon :=
  find (fun e => in_range pos (x_range e)) (t_exons t).
Definition get_codon_at (t : transcript) (q : seq) (pos : Z) : result (option cds_seq) :=
  match exon_at_pos t pos with
  | None => Ok None
  | Some e =>
      do cr <- exon_get_codon_at (t_strand t) e pos;
      match cr with
      | None => Ok None
      | Some r => if negb (in_range pos r) then Err AssertionError
                  else do c <- get_cds_seq_exon t q e r; Ok (Some c)
      end
  end.

(* CdsSeq.get_inner_cds_range: the in-frame part of the region (None when it holds no complete codon) *)
Definition inner_cds_range (c : cds_seq) : result (option range) :=
  do a <- compl_offset (zlen (c_prefix c));
  do b <- compl_offset (zlen (c_suffix c));
  let s := c_start c + a in
  let e := c_end c - b in
  if e <? s then Ok None
  else do r <- mk_range s e; if rlen r mod 3 =? 0 then Ok (Some r) else Err AssertionError.
