(* Python str / Optional[str] operations used by the kernels that harness/pytrans.py translates (mave_hgvs.py, names). *)
From VV Require Import Model.Base Model.Pattern.
Local Open Scope string_scope.

Definition slen (s : string) : Z := Z.of_nat (String.length s).
Definition sempty (s : string) : bool := match s with EmptyString => true | _ => false end.
(* `not x` for an optional string: None or the empty string *)
Definition onull (o : option string) : bool := match o with Some s => sempty s | None => true end.
Definition ois_none (o : option string) : bool := match o with None => true | Some _ => false end.
(* len(None) raises TypeError (no such member in `err`: OtherErr) *)
Definition olen (o : option string) : result Z := match o with Some s => Ok (slen s) | None => Err OtherErr end.
(* an optional string inside an f-string *)
Definition fmt_ostr (o : option string) : string := match o with Some s => s | None => "None" end.
(* `s or None` *)
Definition nonempty (s : string) : option string := if sempty s then None else Some s.
Definition ononempty (o : option string) : option string := match o with Some s => nonempty s | None => None end.

(* the alleles of a variant as Python sees them (DnaStr) *)
Definition v_ref_s (v : variant) : string := string_of_dna (v_ref v).
Definition v_alt_s (v : variant) : string := string_of_dna (v_alt v).
