(* loaders/utils.parse_list (split on commas, strip, drop empty items) and the written form of a vector.  Definitions only. *)
From VV Require Import Model.Base.
Local Open Scope string_scope.

(* loaders/utils.parse_list: s.split(','), strip every piece, drop the empty ones *)
Definition is_blank (c : ascii) : bool := Ascii.eqb c " " || Ascii.eqb c "009".
Definition is_comma (c : ascii) : bool := Ascii.eqb c ",".

Fixpoint split_comma_aux (cur : string) (s : string) : list string :=
  match s with
  | EmptyString => [cur]
  | String c s' => if is_comma c then cur :: split_comma_aux EmptyString s' else split_comma_aux (cur ++ String c EmptyString) s'
  end.
Definition split_comma (s : string) : list string := split_comma_aux EmptyString s.

Fixpoint lstrip (s : string) : string :=
  match s with String c s' => if is_blank c then lstrip s' else s | EmptyString => EmptyString end.
Fixpoint rev_str (acc s : string) : string := match s with EmptyString => acc | String c s' => rev_str (String c acc) s' end.
Definition rstrip (s : string) : string := rev_str EmptyString (lstrip (rev_str EmptyString s)).
Definition strip (s : string) : string := rstrip (lstrip s).

Definition parse_list (s : string) : list string :=
  filter (fun x => negb (String.eqb x EmptyString)) (map strip (split_comma s)).

(* an item as it may be written: blanks, the item, blanks *)
Fixpoint blanks (n : nat) : string := match n with O => EmptyString | S n' => String " " (blanks n') end.
Definition written (x : nat * string * nat) : string := blanks (fst (fst x)) ++ snd (fst x) ++ blanks (snd x).
Fixpoint join_comma (l : list string) : string :=
  match l with [] => EmptyString | [x] => x | x :: l' => x ++ "," ++ join_comma l' end.

(* a clean item: non-empty, no comma, no blank at either end *)
Fixpoint no_comma (s : string) : bool := match s with EmptyString => true | String c s' => negb (is_comma c) && no_comma s' end.
Definition first_ok (s : string) : bool := match s with String c _ => negb (is_blank c) | EmptyString => false end.
Definition clean (s : string) : bool := no_comma s && first_ok s && first_ok (rev_str EmptyString s).

