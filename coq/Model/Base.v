(* Base data of the VaLiAnT model: nucleotides, DNA strings, Python-style slicing, ranges,
   the result monad.  Definitions only (proofs live in Proofs/). *)
From Coq Require Export String Ascii List ZArith Bool Lia.
Export ListNotations.
Open Scope Z_scope.

(* ---- results: Python exceptions are explicit values ---- *)
Inductive err :=
| ValueError | AssertionError | IndexError | KeyError | RuntimeError | NotImplementedErr
| InvalidMutator | InvalidBackgroundVariant | InvalidConfig | InvalidPamVariant | InvalidTargetonRegion | SysExit1 | OtherErr.

Inductive result (A : Type) := Ok (a : A) | Err (e : err).
Arguments Ok {A} a.
Arguments Err {A} e.

Definition bind {A B} (r : result A) (f : A -> result B) : result B :=
  match r with Ok a => f a | Err e => Err e end.
Notation "'do' x <- r ; k" := (bind r (fun x => k)) (at level 200, x name, r at level 100, k at level 200).
Definition assert_ (b : bool) (e : err) : result unit := if b then Ok tt else Err e.

Fixpoint mapM {A B} (f : A -> result B) (l : list A) : result (list B) :=
  match l with
  | [] => Ok []
  | x :: xs => do y <- f x; do ys <- mapM f xs; Ok (y :: ys)
  end.

Definition is_ok {A} (r : result A) : bool := match r with Ok _ => true | Err _ => false end.

(* ---- nucleotides ---- *)
Inductive nt := A | C | G | T.
Definition dna := list nt.

Definition nt_eqb (x y : nt) : bool :=
  match x, y with A, A | C, C | G, G | T, T => true | _, _ => false end.

Fixpoint dna_eqb (x y : dna) : bool :=
  match x, y with
  | [], [] => true
  | a :: x', b :: y' => nt_eqb a b && dna_eqb x' y'
  | _, _ => false
  end.

Definition compl (x : nt) : nt := match x with A => T | C => G | G => C | T => A end.
Definition revcomp (s : dna) : dna := rev (map compl s).

(* NT_SNVS: the three other nucleotides in sorted order (constants.py) *)
Definition nt_snvs (x : nt) : list nt :=
  match x with A => [C; G; T] | C => [A; G; T] | G => [A; C; T] | T => [A; C; G] end.

(* ---- strings <-> dna (upper-case ACGT only; anything else is None) ---- *)
Definition nt_of_ascii (c : ascii) : option nt :=
  if Ascii.eqb c "A" then Some A else if Ascii.eqb c "C" then Some C
  else if Ascii.eqb c "G" then Some G else if Ascii.eqb c "T" then Some T else None.

Fixpoint dna_of_string (s : string) : option dna :=
  match s with
  | EmptyString => Some []
  | String c s' =>
      match nt_of_ascii c, dna_of_string s' with
      | Some x, Some l => Some (x :: l)
      | _, _ => None
      end
  end.

(* total variant for the harness-written case files (the harness validates the alphabet first) *)
Fixpoint d (s : string) : dna :=
  match s with
  | EmptyString => []
  | String c s' => match nt_of_ascii c with Some x => x :: d s' | None => d s' end
  end.

Definition ascii_of_nt (x : nt) : ascii :=
  match x with A => "A" | C => "C" | G => "G" | T => "T" end%char.
Fixpoint string_of_dna (l : dna) : string :=
  match l with [] => EmptyString | x :: l' => String (ascii_of_nt x) (string_of_dna l') end.

(* ---- Z-indexed list access (Python semantics for non-negative indices) ---- *)
Definition zlen {X} (l : list X) : Z := Z.of_nat (length l).
Definition zfirstn {X} (n : Z) (l : list X) : list X := firstn (Z.to_nat n) l.
Definition zskipn {X} (n : Z) (l : list X) : list X := skipn (Z.to_nat n) l.

(* s[a:b] for 0 <= a (a negative start is never produced where this is used; callers guard it) *)
Definition py_slice {X} (a b : Z) (l : list X) : list X := zfirstn (b - a) (zskipn a l).

Definition znth {X} (i : Z) (l : list X) : option X :=
  if i <? 0 then None else nth_error l (Z.to_nat i).

(* range(a, b, step) for step > 0 *)
Fixpoint range_fuel (n : nat) (a b step : Z) : list Z :=
  match n with
  | O => []
  | S n' => if a <? b then a :: range_fuel n' (a + step) b step else []
  end.
Definition py_range (a b step : Z) : list Z := range_fuel (Z.to_nat (b - a)) a b step.
Definition zrange (a b : Z) : list Z := py_range a b 1.   (* [a, b) *)

(* ---- UIntRange ---- *)
Record range := mkRange { rs : Z; re : Z }.
Definition range_valid (r : range) : bool := (0 <=? rs r) && (rs r <=? re r).
Definition mk_range (s e : Z) : result range :=
  if (0 <=? s) && (s <=? e) then Ok (mkRange s e) else Err ValueError.
Definition rlen (r : range) : Z := re r - rs r + 1.
Definition in_range (x : Z) (r : range) : bool := (rs r <=? x) && (x <=? re r).
Definition range_in (x r : range) : bool := in_range (rs x) r && in_range (re x) r.
Definition positions (r : range) : list Z := zrange (rs r) (re r + 1).
Definition get_end (start len : Z) : Z := start + Z.max 0 (len - 1).

(* ---- misc ---- *)
Fixpoint existsb_z (f : Z -> bool) (l : list Z) : bool :=
  match l with [] => false | x :: l' => f x || existsb_z f l' end.

Definition option_eqb {X} (eq : X -> X -> bool) (a b : option X) : bool :=
  match a, b with Some x, Some y => eq x y | None, None => true | _, _ => false end.

Fixpoint list_eqb {X} (eq : X -> X -> bool) (a b : list X) : bool :=
  match a, b with
  | [], [] => true
  | x :: a', y :: b' => eq x y && list_eqb eq a' b'
  | _, _ => false
  end.

(* indices (as N) of the false entries of a list of checks: what the case files print *)
Fixpoint failing_from (i : N) (l : list bool) : list N :=
  match l with
  | [] => []
  | true :: l' => failing_from (N.succ i) l'
  | false :: l' => i :: failing_from (N.succ i) l'
  end.
Definition failing (l : list bool) : list N := failing_from 0%N l.

(* str <= str on byte strings (Python compares code points; all names here are ASCII): lexicographic on character codes *)
Fixpoint sleb (a b : string) : bool :=
  match a, b with
  | EmptyString, _ => true
  | String _ _, EmptyString => false
  | String x a', String y b' =>
      if (N_of_ascii x <? N_of_ascii y)%N then true
      else if (N_of_ascii y <? N_of_ascii x)%N then false
      else sleb a' b'
  end.
