(* vcf_variant.py (VcfVariant.normalise), custom_variant.py (CustomVariant.from_record_with_id) *)
From VV Require Import Model.Base Model.Pattern Model.Seq.

Definition hd_opt {X} (l : list X) : option X := match l with x :: _ => Some x | [] => None end.
Definition last_opt {X} (l : list X) : option X := hd_opt (rev l).

(* VcfVariant.normalise *)
Definition normalise (pos : Z) (ref alt : dna) : result (variant * option nt) :=
  let ref_one := zlen ref =? 1 in
  let alt_one := zlen alt =? 1 in
  if ref_one && alt_one then do v <- mk_variant pos ref alt; Ok (v, None)
  else
    let gt1 := 1 <? pos in
    (* Nucleotide(self.ref[nt_sl]) / Nucleotide(self.alt[nt_sl]) raise ValueError on an empty allele *)
    match (if gt1 then hd_opt ref else last_opt ref), (if gt1 then hd_opt alt else last_opt alt) with
    | Some rn, Some an =>
        if negb (nt_eqb rn an) || negb (ref_one || alt_one)
        then do v <- mk_variant pos ref alt; Ok (v, None)             (* MNV / deletion-insertion: as given *)
        else
          let pos' := if gt1 then pos + 1 else pos in
          let strip (s : dna) := if gt1 then tl s else removelast s in
          if ref_one then do v <- mk_variant pos' [] (strip alt); Ok (v, Some rn)    (* insertion *)
          else do v <- mk_variant pos' (strip ref) []; Ok (v, Some rn)             (* deletion *)
    | _, _ => Err ValueError
    end.

Inductive vtype := VIns | VDel | VSub | VUnknown.
Inductive vclass := Classified | Unclassified | Monomorphic.

Record custom := mkCustom { cu_var : variant; cu_nt : option nt; cu_type : vtype; cu_class : vclass }.

(* from_record_with_id on (POS, REF, first ALT or none), alleles already upper-cased and checked to be DNA *)
Definition from_record (pos : Z) (ref : dna) (alt : option dna) : result custom :=
  match ref with
  | [] => Err ValueError
  | _ =>
    match alt with
    | None => Ok (mkCustom (mkVar pos ref []) None VUnknown Monomorphic)
    | Some alt =>
        do _ <- mk_variant pos ref alt;
        let dl := zlen alt - zlen ref in
        if dl =? 0 then Ok (mkCustom (mkVar pos ref alt) None VSub Classified)
        else do n <- normalise pos ref alt;
             match snd n with
             | Some x => Ok (mkCustom (fst n) (Some x) (if dl <? 0 then VDel else VIns) Classified)
             | None => Ok (mkCustom (fst n) None VSub Unclassified)
             end
    end
  end.

Definition vtype_eqb (a b : vtype) : bool :=
  match a, b with VIns, VIns | VDel, VDel | VSub, VSub | VUnknown, VUnknown => true | _, _ => false end.
Definition vclass_eqb (a b : vclass) : bool :=
  match a, b with Classified, Classified | Unclassified, Unclassified | Monomorphic, Monomorphic => true | _, _ => false end.
Definition custom_eqb (a b : custom) : bool :=
  variant_eqb (cu_var a) (cu_var b) && option_eqb nt_eqb (cu_nt a) (cu_nt b) &&
  vtype_eqb (cu_type a) (cu_type b) && vclass_eqb (cu_class a) (cu_class b).
