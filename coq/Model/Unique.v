(* meta_table.py: unique_oligos (dict: sequence -> names, insertion ordered), names.sort(), _unique.csv;
   oligo_generation_info.py counters *)
From VV Require Import Model.Base Model.Pattern.

(* names of the rows that share a sequence, in row order *)
Definition names_of (rows : list (string * dna)) (s : dna) : list string :=
  map fst (filter (fun r => dna_eqb (snd r) s) rows).

(* distinct sequences in order of first occurrence (dict insertion order) *)
Fixpoint mem_dna (s : dna) (l : list dna) : bool := match l with [] => false | x :: l' => dna_eqb x s || mem_dna s l' end.
Fixpoint distinct_from (seen : list dna) (l : list dna) : list dna :=
  match l with
  | [] => []
  | x :: l' => if mem_dna x seen then distinct_from seen l' else x :: distinct_from (x :: seen) l'
  end.
Definition distinct_seqs (rows : list (string * dna)) : list dna := distinct_from [] (map snd rows).


(* names.sort(); names[0]: the smallest name in byte order *)
Fixpoint min_name (x : string) (l : list string) : string :=
  match l with [] => x | y :: l' => min_name (if sleb x y then x else y) l' end.

Definition unique_table (rows : list (string * dna)) : list (string * dna) :=
  map (fun s => match names_of rows s with n :: ns => (min_name n ns, s) | [] => (EmptyString, s) end) (distinct_seqs rows).

Definition unique_eqb (a b : list (string * dna)) : bool :=
  list_eqb (fun x y => String.eqb (fst x) (fst y) && dna_eqb (snd x) (snd y)) a b.

(* OligoGenerationInfo.eval_in_range over the lengths of a targeton, in order *)
Record counts := mkCounts { too_short : Z; in_range_n : Z; too_long : Z }.
Definition count_step (mn mx : Z) (c : counts) (len : Z) : counts :=
  if len <? mn then mkCounts (too_short c + 1) (in_range_n c) (too_long c)
  else if mx <? len then mkCounts (too_short c) (in_range_n c) (too_long c + 1)
  else mkCounts (too_short c) (in_range_n c + 1) (too_long c).
Definition count_lengths (mn mx : Z) (lens : list Z) : counts := fold_left (count_step mn mx) lens (mkCounts 0 0 0).
Definition included (mn mx len : Z) : bool := negb (len <? mn) && negb (mx <? len).
