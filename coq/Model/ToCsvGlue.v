(* Comparison of the model's row_out with a row / VCF records written by the implementation. *)
From VV Require Import Model.Base Model.Pattern Model.Seq Model.Vcf Model.Mave Model.Gpo Model.ToCsv.

Definition rec_eqb (a b : vcf_rec) : bool :=
  (vr_pos a =? vr_pos b) && dna_eqb (vr_ref a) (vr_ref b) && dna_eqb (vr_alt a) (vr_alt b) &&
  option_eqb dna_eqb (vr_sge_ref a) (vr_sge_ref b).

Definition row_check (c : csv_ctx) (mr : meta_row) (pam_ref : dna) (mave_nt mave_nt_ref : string)
  (no_adapt oligo : dna) (len : Z) (inc : bool) (r1 r2 : option vcf_rec) : bool :=
  match row_out c mr with
  | Ok o =>
      dna_eqb (o_pam_ref o) pam_ref && String.eqb (o_mave_nt o) mave_nt && String.eqb (o_mave_nt_ref o) mave_nt_ref &&
      dna_eqb (o_no_adapt o) no_adapt && dna_eqb (o_oligo o) oligo && (o_len o =? len) && Bool.eqb (o_included o) inc &&
      option_eqb rec_eqb (o_vcf_ref o) r1 && option_eqb rec_eqb (o_vcf_pam o) r2
  | Err _ => false
  end.

(* which fields differ, as a bit mask: 1 ref column, 2 mave_nt, 4 mave_nt_ref, 8 mseq_no_adapt, 16 mseq, 32 length,
   64 included, 128 ref VCF record, 256 PAM VCF record; 511 when the model raises *)
Definition bit (x : bool) (w : N) : N := if x then 0%N else w.
Definition row_diff (c : csv_ctx) (mr : meta_row) (pam_ref : dna) (mave_nt mave_nt_ref : string)
  (no_adapt oligo : dna) (len : Z) (inc : bool) (r1 r2 : option vcf_rec) : N :=
  match row_out c mr with
  | Ok o =>
      fold_right N.add 0%N
        [bit (dna_eqb (o_pam_ref o) pam_ref) 1%N; bit (String.eqb (o_mave_nt o) mave_nt) 2%N;
         bit (String.eqb (o_mave_nt_ref o) mave_nt_ref) 4%N; bit (dna_eqb (o_no_adapt o) no_adapt) 8%N;
         bit (dna_eqb (o_oligo o) oligo) 16%N; bit (o_len o =? len) 32%N; bit (Bool.eqb (o_included o) inc) 64%N;
         bit (option_eqb rec_eqb (o_vcf_ref o) r1) 128%N; bit (option_eqb rec_eqb (o_vcf_pam o) r2) 256%N]
  | Err _ => 511%N
  end.
