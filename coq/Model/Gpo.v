(* genomic_position_offsets.py, var_stats.py, array_utils.py, seq_converter.py *)
From VV Require Import Model.Base Model.Pattern.

(* VarStats *)
Record vstat := mkVS { vpos : Z; vrl : Z; val : Z }.
Definition delta (v : vstat) : Z := val v - vrl v.
Definition vref_end (v : vstat) : Z := get_end (vpos v) (vrl v).
Definition vs_in_range (v : vstat) (r : range) : bool :=
  in_range (vpos v) r && ((vrl v =? 0) || in_range (vref_end v) r).
Definition stat_of (v : variant) : vstat := mkVS (v_pos v) (zlen (v_ref v)) (zlen (v_alt v)).

(* sorted(vs, key=lambda x: x.pos) - stable *)
Fixpoint insert_by_pos (v : vstat) (l : list vstat) : list vstat :=
  match l with
  | [] => [v]
  | x :: l' => if vpos v <=? vpos x then v :: l else x :: insert_by_pos v l'
  end.
Definition sort_by_pos (l : list vstat) : list vstat := fold_right insert_by_pos [] l.

(* clamp_var_stats_collection: only the first and the last variant are bounds-checked;
   the overlap test compares an int with a VarStats and never fires *)
Definition clamp (vs : list vstat) (r : range) : result (list vstat) :=
  if rs r <=? 0 then Err AssertionError else
  match sort_by_pos vs with
  | [] => Ok []
  | v :: rest =>
      if negb (vs_in_range v r) then Err ValueError
      else if negb (vs_in_range (last rest v) r) then Err ValueError
      else Ok (v :: rest)
  end.

(* ---- masks (array('B')) ---- *)
Definition mask := list bool.
Fixpoint mark_from (j : Z) (m : mask) (i n : Z) : mask :=
  match m with
  | [] => []
  | b :: m' => (b || ((i <=? j) && (j <? i + n))) :: mark_from (j + 1) m' i n
  end.
(* for k in range(n): m[i + k] = 1 ; a negative index would wrap in CPython (flagged OtherErr) *)
Definition mark (m : mask) (i n : Z) : result mask :=
  if n <=? 0 then Ok m
  else if i <? 0 then Err OtherErr
  else if zlen m <? i + n then Err IndexError
  else Ok (mark_from 0 m i n).
Definition zeros (n : Z) : mask := repeat false (Z.to_nat n).

Definition mget (m : mask) (i : Z) : result bool :=
  if i <? 0 then Err OtherErr
  else match znth i m with Some b => Ok b | None => Err IndexError end.

(* _compute_ref_del_mask *)
Fixpoint ref_masks (start : Z) (vs : list vstat) (dm sm : mask) : result (mask * mask) :=
  match vs with
  | [] => Ok (dm, sm)
  | v :: vs' =>
      if delta v =? 0 then ref_masks start vs' dm sm
      else
        let off := vpos v - start in
        do sm' <- mark sm off (Z.max 1 (vrl v));
        do dm' <- (if delta v <? 0 then mark dm off (vrl v) else Ok dm);
        ref_masks start vs' dm' sm'
  end.

(* _compute_ref_offsets: (pos, cumulative offset) and (alt pos, -cumulative offset) *)
Fixpoint ref_offsets (off : Z) (vs : list vstat) : list (Z * Z) * list (Z * Z) :=
  match vs with
  | [] => ([], [])
  | v :: vs' =>
      if delta v =? 0 then ref_offsets off vs'
      else
        let off' := off + delta v in
        let '(po, ao) := ref_offsets off' vs' in
        ((vpos v, off') :: po, (vpos v + off, - off') :: ao)
  end.

(* _compute_alt_ins_mask *)
Fixpoint ins_mask (start var_offset : Z) (vs : list vstat) (m : mask) : result mask :=
  match vs with
  | [] => Ok m
  | v :: vs' =>
      do m' <- (if 0 <? delta v then mark m (vpos v + var_offset - start) (val v) else Ok m);
      ins_mask start (var_offset + delta v) vs' m'
  end.

Record gpo := mkGpo {
  g_range : range; g_alt_length : Z;
  g_pos_offsets : list (Z * Z); g_del : mask; g_shift : mask;
  g_alt_offsets : list (Z * Z); g_ins : mask }.

Definition sum_delta (vs : list vstat) : Z := fold_right (fun v a => delta v + a) 0 vs.

(* GenomicPositionOffsets.from_var_stats (+ __post_init__) ; bytes(k * n) with n < 0 raises ValueError *)
Definition from_var_stats (vs : list vstat) (r : range) : result gpo :=
  do cvs <- clamp vs r;
  let start := rs r in
  let n := rlen r in
  let alt_length := n + sum_delta cvs in
  do masks <- ref_masks start cvs (zeros n) (zeros n);
  let '(po, ao) := ref_offsets 0 cvs in
  if alt_length <? 0 then Err ValueError else
  do im <- ins_mask start 0 cvs (zeros alt_length);
  Ok (mkGpo r alt_length po (fst masks) (snd masks) ao im).

(* get_pos_offset *)
Fixpoint offset_loop (prev : Z) (l : list (Z * Z)) (p : Z) : Z :=
  match l with
  | [] => 0
  | (q, o) :: l' => if p <? q then prev else offset_loop o l' p
  end.
Definition get_pos_offset (l : list (Z * Z)) (p : Z) : Z :=
  match l with
  | [] => 0
  | (fp, fo) :: rest =>
      if p <? fp then 0
      else let '(lp, lo) := last rest (fp, fo) in
           if lp <=? p then lo else offset_loop fo rest p
  end.

Definition g_start (g : gpo) : Z := rs (g_range g).
Definition g_ref_length (g : gpo) : Z := rlen (g_range g).
Definition ref_offset_to_alt_pos (g : gpo) (p : Z) : Z := p + get_pos_offset (g_pos_offsets g) p.

(* array_utils.get_prev_index / get_next_index for value 0 *)
Fixpoint prev_index_nat (m : mask) (j : nat) : option Z :=     (* searches j-1, j-2, ..., 0 *)
  match j with
  | O => None
  | S j' => match nth_error m j' with
            | Some false => Some (Z.of_nat j')
            | _ => prev_index_nat m j'
            end
  end.
Definition get_prev_index (m : mask) (i : Z) : option Z := prev_index_nat m (Z.to_nat i).
Fixpoint next_index_from (k : Z) (m : mask) (lo : Z) : option Z :=   (* first index >= lo holding 0 *)
  match m with
  | [] => None
  | b :: m' => if (lo <=? k) && negb b then Some k else next_index_from (k + 1) m' lo
  end.
Definition get_next_index (m : mask) (i : Z) : option Z := next_index_from 0 m (i + 1).

Inductive search := Before | After.

(* ref_to_alt_position *)
Definition ref_to_alt_position (g : gpo) (p : Z) (nearest : option search) : result (option Z) :=
  let i := p - g_start g in
  if i <? 0 then Ok (Some p)
  else if i <? g_ref_length g then
    do b <- mget (g_del g) i;
    if negb b then Ok (Some (ref_offset_to_alt_pos g p))
    else match nearest with
         | None => Ok None
         | Some s =>
             match (match s with Before => get_prev_index (g_del g) i | After => get_next_index (g_del g) i end) with
             | None => Ok None
             | Some o => Ok (Some (ref_offset_to_alt_pos g (g_start g + o)))
             end
         end
  else Ok (Some (p + get_pos_offset (g_pos_offsets g) (re (g_range g)))).

Definition alt_end (g : gpo) : option Z :=
  if g_alt_length g =? 0 then None else Some (get_end (g_start g) (g_alt_length g)).

(* alt_to_ref_position *)
Definition alt_to_ref_position (g : gpo) (q : Z) : result (option Z) :=
  match alt_end g with
  | None => Err ValueError
  | Some e =>
      if (q <? g_start g) || (e <? q) then Err ValueError
      else do b <- mget (g_ins g) (q - g_start g);
           if b then Ok None else Ok (Some (q + get_pos_offset (g_alt_offsets g) q))
  end.

(* ref_to_alt_range *)
Definition ref_to_alt_range (g : gpo) (r : range) (shrink : bool) : result (option range) :=
  do s <- ref_to_alt_position g (rs r) (if shrink then Some After else None);
  match s with
  | None => Ok None
  | Some s =>
      do e <- ref_to_alt_position g (re r) (if shrink then Some Before else None);
      match e with
      | None => if shrink then Ok None else Err RuntimeError
      | Some e => if e <? s then Ok None else do rr <- mk_range s e; Ok (Some rr)
      end
  end.

Definition ref_pos_overlaps_var (g : gpo) (p : Z) : result bool := mget (g_shift g) (p - g_start g).

Fixpoint any_res (f : Z -> result bool) (l : list Z) : result bool :=   (* any(f(x) for x in l): short-circuits *)
  match l with
  | [] => Ok false
  | x :: l' => do b <- f x; if b then Ok true else any_res f l'
  end.

(* ref_var_overlaps_var: Variant.any_pos over the REF positions (the position itself when ref_len <= 1) *)
Definition ref_var_overlaps_var (g : gpo) (pos ref_len : Z) : result bool :=
  if 1 <? ref_len then
    do r <- mk_range pos (get_end pos ref_len); any_res (ref_pos_overlaps_var g) (positions r)
  else ref_pos_overlaps_var g pos.

(* alt_var_overlaps_var *)
Definition alt_var_overlaps_var (g : gpo) (pos ref_len : Z) : result bool :=
  do s <- alt_to_ref_position g pos;
  match s with
  | None => Ok true
  | Some s =>
      if ref_len <=? 1 then Ok false
      else do e <- alt_to_ref_position g (get_end pos ref_len);
           match e with
           | None => Ok true
           | Some e =>
               do rr <- mk_range s e;
               if negb (rlen rr =? ref_len) then Ok true
               else any_res (ref_pos_overlaps_var g) (positions rr)
           end
  end.

(* ---- seq_converter.apply_variants ---- *)
(* variants whose position equals `pos`, applied in order: insertions let the next one be examined at the
   same position; a variant with a REF stops the scan and makes the walk skip its REF bases *)
Fixpoint apply_at (pos : Z) (vs : list variant) : option (dna * Z * list variant) :=
  match vs with
  | [] => None
  | v :: vs' =>
      if v_pos v =? pos then
        if zlen (v_ref v) =? 0 then
          match vs' with
          | [] => Some (v_alt v, 0, [])                  (* last variant: the loop breaks *)
          | _ => match apply_at pos vs' with
                 | Some (out, skip, rest) => Some (v_alt v ++ out, skip, rest)
                 | None => Some (v_alt v, 0, vs')
                 end
          end
        else Some (v_alt v, zlen (v_ref v), vs')
      else None
  end.

(* walk over the reference bases from position `pos`; `skip` bases still to be skipped;
   `j` bytes written so far; writes at j >= alt_length raise IndexError *)
Fixpoint walk (ref : dna) (pos : Z) (skip : Z) (vs : list variant) (alt_length j : Z) : result dna :=
  match vs with
  | [] => Ok (zskipn skip ref)                (* break: alt_seq[j:] = ref[i:]  (silent resize) *)
  | _ =>
    match ref with
    | [] => if j =? alt_length then Ok [] else Err ValueError     (* unfilled NUL bytes are refused by DnaStr *)
    | b :: ref' =>
        if 0 <? skip then walk ref' (pos + 1) (skip - 1) vs alt_length j
        else
          match apply_at pos vs with
          | None =>                                                 (* no variant here: copy the base *)
              if alt_length <=? j then Err IndexError
              else do t <- walk ref' (pos + 1) 0 vs alt_length (j + 1); Ok (b :: t)
          | Some (out, sk, vs') =>
              if alt_length <? j + zlen out then Err IndexError
              else
                match vs' with
                | [] =>                                             (* break after the last variant *)
                    if zlen (b :: ref') <=? sk
                    then (if j + zlen out =? alt_length then Ok out else Err ValueError)   (* no tail copy: NULs remain *)
                    else Ok (out ++ zskipn sk (b :: ref'))          (* alt_seq[j:] = ref[i:] *)
                | _ =>
                  if 0 <? sk then do t <- walk ref' (pos + 1) (sk - 1) vs' alt_length (j + zlen out); Ok (out ++ t)
                  else if alt_length <=? j + zlen out then Err IndexError
                       else do t <- walk ref' (pos + 1) 0 vs' alt_length (j + zlen out + 1); Ok (out ++ b :: t)
                end
          end
    end
  end.

Definition apply_variants (ref_start : Z) (ref : dna) (alt_length : Z) (vs : list variant) : result dna :=
  match vs with
  | [] => Ok ref
  | v :: _ =>
      let dl := v_pos v - ref_start in
      if alt_length <? 0 then Err ValueError          (* bytearray(n) with n < 0 *)
      else if 0 <? dl then
        (* alt_seq[:delta] = ref[:delta]; a delta beyond either length resizes the buffer irregularly (flagged) *)
        if (zlen ref <? dl) || (alt_length <? dl) then Err OtherErr
        else do t <- walk (zskipn dl ref) (v_pos v) 0 vs alt_length dl; Ok (zfirstn dl ref ++ t)
      else walk ref ref_start 0 vs alt_length 0
  end.
