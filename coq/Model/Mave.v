(* mave_hgvs.py: MAVE-HGVS linear-genomic strings *)
From VV Require Import Model.Base Model.Pattern Model.Seq Model.Vcf.
From Coq Require Import DecimalString.
Local Open Scope string_scope.

Definition zstr (z : Z) : string := NilZero.string_of_int (Z.to_int z).

(* abstract syntax of what the code prints *)
Inductive mave :=
| MSub (p : Z) (a b : nt)            (* g.<p><a>><b> *)
| MDel (p n : Z)                      (* g.<p>del  /  g.<p>_<p+n-1>del *)
| MIns (p : Z) (s : dna)              (* g.<p-1>_<p>ins<s> *)
| MDelins (p n : Z) (s : dna).        (* g.<p>delins<s>  /  g.<p>_<p+n-1>delins<s> *)

Definition del_position (start n : Z) : string :=
  if (n =? 1)%Z then zstr start else zstr start ++ "_" ++ zstr (start + n - 1).

Definition print_mave (m : mave) : string :=
  "g." ++
  match m with
  | MSub p a b => zstr p ++ string_of_dna [a] ++ ">" ++ string_of_dna [b]
  | MDel p n => del_position p n ++ "del"
  | MIns p s => zstr (p - 1) ++ "_" ++ zstr p ++ "ins" ++ string_of_dna s
  | MDelins p n s => del_position p n ++ "delins" ++ string_of_dna s
  end.

(* _get_mave_nt: var_type is INSERTION / DELETION / SUBSTITUTION; ref/alt are None when empty *)
Definition mave_of (t : vtype) (start : Z) (ref alt : dna) : result mave :=
  if (start <? 0)%Z then Err ValueError else
  match t with
  | VSub =>
      match ref, alt with
      | [], _ => Err ValueError
      | _, [] => Err ValueError
      | [a], [b] => Ok (MSub start a b)
      | _, _ => Ok (MDelins start (zlen ref) alt)
      end
  | VIns => match alt with [] => Err ValueError | _ => Ok (MIns start alt) end
  | VDel =>
      match ref, alt with
      | [], _ => Err ValueError
      | _, [] => Ok (MDel start (zlen ref))
      | _, _ => Ok (MDelins start (zlen ref) alt)
      end
  | VUnknown => Err ValueError
  end.

(* get_mave_nt(start, ref_start, var_type, ref, alt) *)
Definition get_mave_nt (start ref_start : Z) (t : vtype) (ref alt : dna) : result string :=
  do m <- mave_of t (start - ref_start + 1) ref alt; Ok (print_mave m).

(* Variant.type *)
Definition var_type (ref alt : dna) : result vtype :=
  match ref, alt with
  | [], [] => Err ValueError
  | [], _ => Ok VIns
  | _, [] => Ok VDel
  | _, _ => Ok VSub
  end.
