(* sge_proc.validate_background_variants, targeton.is_variant_nonsynonymous / is_variant_frame_shifting,
   SGEConfig.is_valid / get_options (force flags), the PAM/background overlap refusal of proc_targeton.  Definitions only. *)
From VV Require Import Model.Base Model.Pattern Model.CodonTable.

(* what the loop sees of one background variant starting inside the targeton: its net length change and, for each codon
   it touches (none = non-coding), the codon before and after (read at the lifted positions) *)
Record bgvar := mkBg { b_delta : Z; b_codons : list (dna * dna) }.

(* is_variant_frame_shifting *)
Definition frame_shifting (v : bgvar) : bool := negb (b_delta v =? 0).

(* is_variant_nonsynonymous (codons non-empty): any length change, or some codon that is_syn rejects *)
Definition nonsynonymous (t : table) (v : bgvar) : result bool :=
  if frame_shifting v then Ok true else
  do flags <- mapM (fun c => is_syn t (fst c) (snd c)) (b_codons v);
  Ok (existsb negb flags).

(* the loop of validate_background_variants: (any_non_syn, any_frame_shift) *)
Definition validate_step (t : table) (st : bool * bool) (v : bgvar) : result (bool * bool) :=
  match b_codons v with
  | [] => Ok st
  | _ => do ns <- nonsynonymous t v;
         Ok (if ns then (true, snd st || frame_shifting v) else st)
  end.
Fixpoint validate_loop (t : table) (st : bool * bool) (vs : list bgvar) : result (bool * bool) :=
  match vs with [] => Ok st | v :: vs' => do st' <- validate_step t st v; validate_loop t st' vs' end.

(* Options.allow_non_syn = force_bg_ns, allow_frame_shift = force_bg_fs *)
Definition validate (t : table) (allow_ns allow_fs : bool) (vs : list bgvar) : result unit :=
  do st <- validate_loop t (false, false) vs;
  if fst st && negb allow_ns then Err InvalidBackgroundVariant
  else if snd st && negb allow_fs then Err InvalidBackgroundVariant
  else Ok tt.

(* SGEConfig.is_valid: frame-shift forcing requires non-synonymous forcing *)
Definition flags_valid (force_ns force_fs : bool) : bool := negb (force_fs && negb force_ns).

(* select_ppe_bg_codon_overlaps: a registered PAM edit in an exon whose reference position lies inside [start, ref_end] of a
   background variant; proc_targeton refuses when there is one *)
Definition ppe_bg_overlaps (ppes : list (Z * bool)) (bgs : list (Z * Z)) : list Z :=
  map fst (filter (fun p => snd p && existsb (fun b => (fst b <=? fst p) && (fst p <=? snd b)) bgs) ppes).
Definition check_ppe_bg (ppes : list (Z * bool)) (bgs : list (Z * Z)) : result unit :=
  match ppe_bg_overlaps ppes bgs with [] => Ok tt | _ => Err InvalidBackgroundVariant end.
