(* The refusal rules of C19 that are not modelled elsewhere: queries.select_exons_in_range + targeton.get_targeton_region_exon_id
   (a region must lie in one exon or touch none), loaders/mutator_config.MutatorConfig.parse (labels).  Definitions only.
   (TargetonConfig.__post_init__: Model/Targeton.v; codon-level mutators on non-coding regions: Model/Mutators.v;
   one PAM edit per position / codon: Model/Views.v insert_ecps; adaptors: Model/Config.v; ambiguous bases: dna_of_string.) *)
From VV Require Import Model.Base Model.Pattern Model.CodonTable Model.Transcript Model.Mutators.

(* select_exons_in_range: the exons that overlap the region *)
Definition exons_overlapping (exons : list exon) (r : range) : list exon :=
  filter (fun e => (x_start e <=? re r) && (rs r <=? x_end e)) exons.

(* get_targeton_region_exon_id *)
Definition region_exon_id (exons : list exon) (r : range) : result (option Z) :=
  match exons_overlapping exons r with
  | [] => Ok None
  | [e] => if range_in r (x_range e) then Ok (Some (x_index e)) else Err InvalidTargetonRegion
  | _ => Err InvalidTargetonRegion
  end.

(* MutatorConfig.parse: digits, `del`, optional digits - or one of the fixed names (ASCII digits; the bare `del` is refused) *)
Fixpoint take_digits (s : string) : string * string :=
  match s with
  | String c s' => if is_digit c then let (d, rest) := take_digits s' in (String c d, rest) else (EmptyString, s)
  | EmptyString => (EmptyString, EmptyString)
  end.
Definition all_digits (s : string) : bool := String.eqb (snd (take_digits s)) EmptyString.

Definition parse_label (s : string) : result mkind :=
  let (d1, rest) := take_digits s in
  if negb (String.eqb d1 EmptyString) && String.prefix "del" rest && all_digits (drop 3 rest) then
    match digits_val 0 d1, digits_val 0 (drop 3 rest) with
    | Some span, Some off => if span <=? 0 then Err InvalidMutator else Ok (MDelK span off)
    | _, _ => Err InvalidMutator
    end
  else if String.eqb s "snv" then Ok MSnv else if String.eqb s "snvre" then Ok MSnvRe
  else if String.eqb s "inframe" then Ok MInframe else if String.eqb s "ala" then Ok MAla
  else if String.eqb s "stop" then Ok MStop else if String.eqb s "aa" then Ok MAa
  else Err InvalidMutator.

Definition mkind_eqb (a b : mkind) : bool :=
  match a, b with
  | MDelK s o, MDelK s' o' => (s =? s') && (o =? o')
  | MSnv, MSnv | MSnvRe, MSnvRe | MInframe, MInframe | MAla, MAla | MStop, MStop | MAa, MAa => true
  | _, _ => false
  end.

(* the label the tool prints for a parsed mutator, with both parameters (del_label prints every span-1 deletion as 1del) *)
Definition full_label (k : mkind) : string :=
  match k with
  | MDelK s o => (Mave.zstr s ++ "del" ++ Mave.zstr o)%string
  | _ => label_of k
  end.
