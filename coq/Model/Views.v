(* data/ddl.sql (v_exon_ext, v_exon_codon_ppes, v_meta), queries.py (sql_insert_exon_codon_ppes,
   insert_targeton_ppes, select_ppes_with_offset), sge_proc.get_ppe_seq (selection / range test) *)
From VV Require Import Model.Base Model.Pattern.

Record exon_row := mkExon { e_id : Z; e_start : Z; e_end : Z; e_index : Z; e_fcs : Z }.   (* fcs: first_codon_start *)

(* targeton_pam_protection_edits joined with pam_protection_edits and the sgRNA names *)
Record tppe := mkTppe { tp_id : Z; tp_ref_start : Z; tp_start : Z; tp_sgrna : string }.

(* one row of targeton_exon_codon_ppes *)
Record ecp := mkEcp { ec_ppe : Z; ec_exon : Z; ec_codon : Z }.

Definition exon_at (exons : list exon_row) (p : Z) : option exon_row :=
  find (fun e => (e_start e <=? p) && (p <=? e_end e)) exons.

(* abs(x - first_codon_start) / 3 *)
Definition codon_index (fcs p : Z) : Z := Z.abs (p - fcs) / 3.

(* sql_insert_exon_codon_ppes: one row per registered edit lying in an exon; primary key (exon_id, codon_index) *)
Fixpoint insert_ecps (exons : list exon_row) (ts : list tppe) (acc : list ecp) : result (list ecp) :=
  match ts with
  | [] => Ok acc
  | t :: ts' =>
      match exon_at exons (tp_start t) with
      | None => insert_ecps exons ts' acc
      | Some e =>
          let ci := codon_index (e_fcs e) (tp_start t) in
          if existsb (fun x => (ec_exon x =? e_id e) && (ec_codon x =? ci)) acc then Err InvalidPamVariant
          else insert_ecps exons ts' (acc ++ [mkEcp (tp_id t) (e_id e) ci])
      end
  end.

(* v_exon_codon_ppes: ppe_start of the edit registered for (exon_index, codon_index) *)
Definition exon_by_id (exons : list exon_row) (id : Z) : option exon_row := find (fun e => e_id e =? id) exons.
Definition tppe_by_id (ts : list tppe) (id : Z) : option tppe := find (fun t => tp_id t =? id) ts.
Definition ppe_of_codon (exons : list exon_row) (ts : list tppe) (ecps : list ecp) (ei ci : Z) : option Z :=
  match find (fun x => match exon_by_id exons (ec_exon x) with
                       | Some e => (e_index e =? ei) && (ec_codon x =? ci)
                       | None => false end) ecps with
  | Some x => option_map tp_start (tppe_by_id ts (ec_ppe x))
  | None => None
  end.

Fixpoint insert_str (x : string) (l : list string) : list string :=
  match l with
  | [] => [x]
  | y :: l' => if String.eqb x y then l else if sleb x y then x :: l else y :: insert_str x l'
  end.
Definition sort_dedup (l : list string) : list string := fold_right insert_str [] l.

Record meta_join := mkJoin {
  j_ref_end : Z;
  j_start_exon : option Z; j_start_codon : option Z; j_start_ppe : option Z;
  j_end_exon : option Z; j_end_codon : option Z; j_end_ppe : option Z;
  j_sgrna_ids : list string }.

(* the joins of v_meta for one mutation at (ALT) position ref_start with a REF of ref_len bases *)
Definition v_meta_join (exons : list exon_row) (ts : list tppe) (ecps : list ecp) (ref_start ref_len : Z) : meta_join :=
  let ref_end := ref_start + Z.max 0 (ref_len - 1) in
  let es := exon_at exons ref_start in
  let ee := exon_at exons ref_end in
  let sci := option_map (fun e => codon_index (e_fcs e) ref_start) es in
  let eci := option_map (fun e => codon_index (e_fcs e) ref_end) ee in
  let sp := match es, sci with Some e, Some c => ppe_of_codon exons ts ecps (e_index e) c | _, _ => None end in
  let ep := match ee, eci with Some e, Some c => ppe_of_codon exons ts ecps (e_index e) c | _, _ => None end in
  let lo := match sp with Some x => x | None => ref_start end in
  let hi := match ep with Some x => x | None => ref_end end in
  let ids := sort_dedup (map tp_sgrna (filter (fun t => (lo <=? tp_start t) && (tp_start t <=? hi)) ts)) in
  mkJoin ref_end (option_map e_index es) sci sp (option_map e_index ee) eci ep ids.

(* select_ppes_with_offset: edits inside the targeton that lie in a codon, by position, with abs(start - fcs) % 3 *)
Definition codon_offset (fcs p : Z) : Z := Z.abs (p - fcs) mod 3.
