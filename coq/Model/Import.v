(* Which records of a VCF become custom variants of a targeton: CustomVariant.load_vcf (contig filter, monomorphic records
   skipped), the custom_variants table and select_custom_variants_in_range (start >= ? and end <= ? on v_custom_variants,
   end = start + max(0, length(ref) - 1) of the normalised variant).  Definitions only. *)
From VV Require Import Model.Base Model.Pattern Model.Vcf.

Record vcf_rec := mkRec { r_contig : string; r_pos : Z; r_ref : dna; r_alt : option dna }.   (* first ALT; None = monomorphic *)

Definition custom_end (c : custom) : Z := get_end (v_pos (cu_var c)) (zlen (v_ref (cu_var c))).

(* ContigFilter: r.contig in ft.contigs *)
Definition on_contig (contig : string) (r : vcf_rec) : bool := String.eqb (r_contig r) contig.

(* _vcf_filter + the range selection *)
Definition keep_custom (r : range) (c : custom) : bool :=
  negb (vclass_eqb (cu_class c) Monomorphic) && (rs r <=? v_pos (cu_var c)) && (custom_end c <=? re r).

Definition parse_records (contig : string) (recs : list vcf_rec) : result (list custom) :=
  mapM (fun x => from_record (r_pos x) (r_ref x) (r_alt x)) (filter (on_contig contig) recs).

Definition import_records (contig : string) (r : range) (recs : list vcf_rec) : result (list custom) :=
  do cs <- parse_records contig recs; Ok (filter (keep_custom r) cs).

(* what the check compares: the multiset of (reported start, REF length, ALT) of the rows of one VCF for one targeton
   (the ref column of a row is read from the PAM-protected template, so only its length is compared here) *)
Definition key_eqb (a b : Z * Z * dna) : bool :=
  (fst (fst a) =? fst (fst b)) && (snd (fst a) =? snd (fst b)) && dna_eqb (snd a) (snd b).
Definition count_key (k : Z * Z * dna) (l : list (Z * Z * dna)) : nat := length (filter (key_eqb k) l).
Definition multiset_eqb (a b : list (Z * Z * dna)) : bool :=
  Nat.eqb (length a) (length b) && forallb (fun k => Nat.eqb (count_key k a) (count_key k b)) a.
Definition key_of (c : custom) : Z * Z * dna := (v_pos (cu_var c), zlen (v_ref (cu_var c)), v_alt (cu_var c)).
Definition imported_agree (r : result (list custom)) (impl : list (Z * Z * dna)) : bool :=
  match r with Ok cs => multiset_eqb (map key_of cs) impl | Err _ => false end.
