(* sge_proc.get_gpo_ctx: the context of a targeton (or of a transcript and its targetons) widened to the
   background variants it reaches, together with the variants the position offsets are built from.
   Definitions only (proofs live in Proofs/ContextProofs.v). *)
From VV Require Import Model.Base Model.Pattern Model.Gpo.

(* select_background_variant_stats(conn, r): start in r or ref_end in r
   (v_background_variants.ref_end = start + max(0, ref_len - 1) = VarStats.ref_end) *)
Definition stat_selected (r : range) (v : vstat) : bool :=
  in_range (vpos v) r || in_range (vref_end v) r.
Definition select_stats (r : range) (all : list vstat) : list vstat := filter (stat_selected r) all.

Definition zmin_list (x : Z) (l : list Z) : Z := fold_left Z.min l x.
Definition zmax_list (x : Z) (l : list Z) : Z := fold_left Z.max l x.

(* one pass of the loop body: the context spanned with [bg_start, max ref_end] (bg_start one base earlier when a
   variant starts at or before the first base of the context, "for the purposes of VCF formatting") *)
Definition widen (ctx : range) (v : vstat) (sel : list vstat) : result range :=
  let s0 := zmin_list (vpos v) (map vpos sel) in
  let s := if (1 <? s0) && (s0 <=? rs ctx) then s0 - 1 else s0 in
  do r <- mk_range s (zmax_list (vref_end v) (map vref_end sel));
  mk_range (Z.min (rs ctx) (rs r)) (Z.max (re ctx) (re r)).

(* while True: widen; select again; stop when the selection has not grown.  The fuel is the number of variants. *)
Fixpoint ctx_loop (fuel : nat) (all : list vstat) (ctx : range) (sel : list vstat) : result (list vstat * range) :=
  match fuel, sel with
  | O, _ => Err OtherErr
  | _, [] => Err OtherErr
  | S f, v :: rest =>
      do ctx' <- widen ctx v rest;
      let sel' := select_stats ctx' all in
      if Nat.eqb (length sel') (length sel) then Ok (sel, ctx') else ctx_loop f all ctx' sel'
  end.

Definition gpo_ctx_sel (all : list vstat) (ctx : range) : result (option (list vstat) * range) :=
  match select_stats ctx all with
  | [] => Ok (None, ctx)
  | sel => do p <- ctx_loop (S (length all)) all ctx sel; Ok (Some (fst p), snd p)
  end.

(* get_gpo_ctx proper: the offsets are built from the selection over the returned context *)
Definition gpo_ctx (all : list vstat) (ctx : range) : result (option gpo * range) :=
  do p <- gpo_ctx_sel all ctx;
  match fst p with
  | None => Ok (None, snd p)
  | Some sel => do g <- from_var_stats sel (snd p); Ok (Some g, snd p)
  end.

(* the tree before fix 9011408: one widening, no second selection *)
Definition gpo_ctx_sel_once (all : list vstat) (ctx : range) : result (option (list vstat) * range) :=
  match select_stats ctx all with
  | [] => Ok (None, ctx)
  | v :: rest => do ctx' <- widen ctx v rest; Ok (Some (v :: rest), ctx')
  end.
