(* int_pattern_builder.py, seq.py (subseq_window), mutators/__init__.py (get_refs),
   mutators/snv.py, mutators/deletion.py, variant.py (get_snvs/get_del), loaders/mutator_config.py *)
From VV Require Import Model.Base.

(* Seq: start + bases (prev_nt is irrelevant here) *)
Record seq := mkSeq { s_start : Z; s_bases : dna }.
Definition s_len (q : seq) : Z := zlen (s_bases q).
Definition s_end (q : seq) : Z := get_end (s_start q) (s_len q).

(* IntPatternBuilder.build(start, length): the caller passes length = L - 1 *)
Definition build (offset span start length : Z) : list Z :=
  let s := start + offset in
  py_range s (start + length + 1 - span + 1) span.

(* Seq.substr(r, rel=False): r.offset(-start) must be a valid UIntRange, then a Python slice *)
Definition substr (q : seq) (r : range) : result dna :=
  do rr <- mk_range (rs r - s_start q) (re r - s_start q);
  Ok (py_slice (rs rr) (re rr + 1) (s_bases q)).

(* Seq.subseq_window(pt, start, length): one (start, bases) per window *)
Definition subseq_window (q : seq) (offset span start length : Z) : result (list (Z * dna)) :=
  mapM (fun st => do b <- substr q (mkRange st (st + span - 1)); Ok (st, b))
       (build offset span start (length - 1)).

(* BaseMutator.get_refs(seq, r): r must lie inside the sequence *)
Definition get_refs (q : seq) (offset span : Z) (r : option range) : result (list (Z * dna)) :=
  match r with
  | Some r =>
      if range_in r (mkRange (s_start q) (s_end q))
      then subseq_window q offset span (rs r) (rlen r)
      else Err ValueError
  | None => subseq_window q offset span (s_start q) (s_len q)
  end.

(* a variant: position, REF, ALT; Variant.__post_init__ refuses REF = ALT = '' *)
Record variant := mkVar { v_pos : Z; v_ref : dna; v_alt : dna }.
Definition mk_variant (p : Z) (r a : dna) : result variant :=
  match r, a with [], [] => Err ValueError | _, _ => Ok (mkVar p r a) end.

Definition variant_eqb (x y : variant) : bool :=
  (v_pos x =? v_pos y) && dna_eqb (v_ref x) (v_ref y) && dna_eqb (v_alt x) (v_alt y).

(* DeletionMutator.get_variants *)
Definition del_variants (q : seq) (offset span : Z) : result (list variant) :=
  do refs <- get_refs q offset span None;
  mapM (fun sr => mk_variant (fst sr) (snd sr) []) refs.

(* SnvMutator.get_variants: Nucleotide(ref.s) requires exactly one base *)
Definition snv_variants (q : seq) : result (list variant) :=
  do refs <- get_refs q 0 1 None;
  do vs <- mapM (fun sr => match snd sr with
                           | [x] => Ok (map (fun y => mkVar (fst sr) [x] [y]) (nt_snvs x))
                           | _ => Err ValueError end) refs;
  Ok (concat vs).

(* get_vars_in_region (targeton.py): start and end inside the region *)
Definition var_ref_end (v : variant) : Z := get_end (v_pos v) (zlen (v_ref v)).
Definition in_region (r : range) (v : variant) : bool :=
  in_range (v_pos v) r && in_range (var_ref_end v) r.

(* ---- comparison helpers for the correspondence (case files) ---- *)
Definition err_eqb (a b : err) : bool :=
  match a, b with
  | ValueError, ValueError | AssertionError, AssertionError | IndexError, IndexError | KeyError, KeyError
  | RuntimeError, RuntimeError | NotImplementedErr, NotImplementedErr | InvalidMutator, InvalidMutator
  | InvalidBackgroundVariant, InvalidBackgroundVariant | InvalidConfig, InvalidConfig
  | InvalidPamVariant, InvalidPamVariant | InvalidTargetonRegion, InvalidTargetonRegion | SysExit1, SysExit1 | OtherErr, OtherErr => true
  | _, _ => false
  end.

Definition res_eqb {X} (eq : X -> X -> bool) (a b : result X) : bool :=
  match a, b with
  | Ok x, Ok y => eq x y
  | Err e, Err f => err_eqb e f
  | _, _ => false
  end.

Definition vars_res_eqb := res_eqb (list_eqb variant_eqb).
