(* Canonical rows of a region for the C03/C04 correspondence. *)
From VV Require Import Model.Base Model.Pattern Model.Seq Model.Vcf Model.Mave Model.CodonTable Model.Transcript Model.Mutators.

Record crow_ := mkC { cr_label : string; cr_pos : Z; cr_ref : dna; cr_alt : dna; cr_aa_ref : string; cr_aa_alt : string; cr_type : string }.
Definition crow_eqb_ (a b : crow_) : bool :=
  String.eqb (cr_label a) (cr_label b) && (cr_pos a =? cr_pos b) && dna_eqb (cr_ref a) (cr_ref b) && dna_eqb (cr_alt a) (cr_alt b) &&
  String.eqb (cr_aa_ref a) (cr_aa_ref b) && String.eqb (cr_aa_alt a) (cr_aa_alt b) && String.eqb (cr_type a) (cr_type b).

Definition mt_str (m : mut_type) : string := match m with Syn => "syn" | Mis => "mis" | Non => "non" end%string.
Definition canon (r : prow) : crow_ :=
  match pr_annot r with
  | Some a => mkC (pr_label r) (v_pos (pr_var r)) (v_ref (pr_var r)) (v_alt (pr_var r)) (a_aa_ref a) (a_aa_alt a) (mt_str (a_mut_type a))
  | None => mkC (pr_label r) (v_pos (pr_var r)) (v_ref (pr_var r)) (v_alt (pr_var r)) "" "" ""
  end%string.

Definition count_row (x : crow_) (l : list crow_) : nat := length (filter (crow_eqb_ x) l).
Definition multiset_eqb (a b : list crow_) : bool :=
  Nat.eqb (length a) (length b) && forallb (fun x => Nat.eqb (count_row x a) (count_row x b)) a.

(* get_pattern_variants_from_region: exon number (None = non-coding region) *)
Definition region_rows (t : table) (tr : transcript) (q : seq) (exon_number : option Z) (r : range) (ms : list mkind) : result (list crow_) :=
  do rows <- match exon_number with
             | Some n => do c <- get_cds_seq tr q n r; region_variants_cds t c ms
             | None => do b <- substr q r; region_variants_noncds (mkSeq (rs r) b) ms
             end;
  Ok (map canon (keep_in_region r (fst rows) ++ keep_in_region r (snd rows))).

Definition rows_agree (model : result (list crow_)) (impl : result (list crow_)) : bool :=
  match model, impl with
  | Ok a, Ok b => multiset_eqb a b
  | Err OtherErr, _ => true          (* flagged: CPython negative-index wrap-around, not represented *)
  | Err e, Err f => err_eqb e f
  | _, _ => false
  end.
