(* loaders/bed.py (BedLoader), sge_proc.load_background_variants (mask filter),
   queries.select_overlapping_background_variants, Targeton._process_pattern_variants (reported position) *)
From VV Require Import Model.Base Model.Pattern Model.Gpo.

(* BED rows are 0-based, end-exclusive: UIntRange(start + 1, end) *)
Definition bed_range (start0 end_ : Z) : result range := mk_range (start0 + 1) end_.

(* bg_vars = [x for x in bg_vars if not any(x.pos in r for r in bg_mask)] *)
Definition masked (mask : list range) (v : variant) : bool := existsb (fun r => in_range (v_pos v) r) mask.
Definition apply_mask (mask : list range) (vs : list variant) : list variant := filter (fun v => negb (masked mask v)) vs.

(* select_overlapping_background_variants(conn, r): start in range or ref_end in range *)
Definition overlaps_range (r : range) (v : variant) : bool :=
  in_range (v_pos v) r || in_range (var_ref_end v) r.
Definition select_overlapping (r : range) (vs : list variant) : list variant := filter (overlaps_range r) vs.

(* the position reported for a generated mutation at ALT position q: alt_to_ref_position (None is never inserted:
   such mutations are dropped first by alt_var_overlaps_var) *)
Definition reported_position (g : option gpo) (q : Z) : result (option Z) :=
  match g with None => Ok (Some q) | Some g => alt_to_ref_position g q end.
