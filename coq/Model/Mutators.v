(* annot_variant.py, mutators/codon.py, mutators/snv_re.py, mutators/deletion.py (inframe), mutator.py
   (MutatorCollection.get_variants), targeton.get_pattern_variants_from_region *)
From VV Require Import Model.Base Model.Pattern Model.Seq Model.Vcf Model.Mave Model.CodonTable Model.Transcript.

(* AnnotVariant *)
Record annot := mkAnnot {
  a_var : variant; a_src : string; a_offset : Z; a_codon_ref : dna; a_codon_alt : dna; a_aa_ref : aa; a_aa_alt : aa }.
Definition a_codon_start (a : annot) : Z := v_pos (a_var a) - a_offset a.
Definition a_mut_type (a : annot) : mut_type := aa_change (a_aa_ref a) (a_aa_alt a).

(* Codon(...) requires exactly three bases *)
Definition as_codon (s : dna) : result dna := if zlen s =? 3 then Ok s else Err ValueError.

(* AnnotVariant.annotate(codon_table, seq, v, src) *)
Definition annotate (t : table) (c : cds_seq) (v : variant) (src : string) : result annot :=
  let var_offset := v_pos v - c_start c + zlen (c_prefix c) in
  if negb ((0 <=? var_offset) && (var_offset <? c_ext_length c)) then Err AssertionError else
  do cc <- (if zlen (v_ref v) =? 1 then
              let co := var_offset mod 3 in
              let cs := var_offset - co in
              (* ext_substr(codon_range, rel=True): a plain slice *)
              let cref := py_slice cs (cs + 3) (c_ext c) in
              do calt <- replace_substr cref co co (v_alt v);
              Ok (co, cref, calt)
            else if zlen (v_ref v) =? 3 then Ok (0, v_ref v, v_alt v)
            else Err ValueError);
  let '(co, cref, calt) := cc in
  if negb ((0 <=? co) && (co <? 3)) then Err ValueError else
  do r3 <- as_codon cref;
  do a3 <- as_codon calt;
  do ar <- translate t r3;
  do aa_ <- translate t a3;
  Ok (mkAnnot v src co r3 a3 ar aa_).

(* codon windows of the in-frame part of the region: get_codon_refs *)
Definition codon_refs (c : cds_seq) : result (list (Z * dna)) :=
  do r <- inner_cds_range c;
  match r with
  | None => Ok []
  | Some r => get_refs (c_seq c) 0 3 (Some r)
  end.

(* get_codon_replacements(seq, m, value): every codon that is not already `value` *)
Definition codon_replacements (c : cds_seq) (value : dna) : result (list variant) :=
  do refs <- codon_refs c;
  mapM (fun sr => mk_variant (fst sr) (snd sr) value)
       (filter (fun sr => negb (dna_eqb value (snd sr))) refs).

Definition ALA : aa := "A"%string.

(* InFrameDeletionMutator / AlaMutator / StopMutator / AminoAcidMutator *)
Definition inframe_variants (c : cds_seq) : result (list variant) := codon_replacements c [].
Definition ala_variants (t : table) (c : cds_seq) : result (list variant) :=
  do top <- get_top_codon t ALA; codon_replacements c top.
Definition stop_variants (t : table) (c : cds_seq) : result (list variant) :=
  do top <- get_top_codon t STOP; codon_replacements c top.
Definition aa_variants (t : table) (c : cds_seq) : result (list variant) :=
  do refs <- codon_refs c;
  do vs <- mapM (fun sr =>
                   do r3 <- as_codon (snd sr);
                   do a <- translate t r3;
                   do tops <- get_top_codons t [STOP; a];
                   mapM (fun alt => mk_variant (fst sr) (snd sr) alt) tops) refs;
  Ok (concat vs).

(* snv_to_snvres *)
Definition snvre_alts (t : table) (a : annot) : result (list dna) :=
  do alts <- match a_mut_type a with
             | Syn => get_synonymous_codons t (a_codon_alt a)
             | _ =>
                 do top <- get_top_codon t (a_aa_alt a);
                 do c <- (if dna_eqb top (a_codon_alt a) then get_second_best_codon t (a_aa_alt a) else Ok (Some top));
                 Ok (match c with Some x => [x] | None => [] end)
             end;
  Ok (filter (fun x => negb (dna_eqb x (a_codon_ref a)) && negb (dna_eqb x (a_codon_alt a))) alts).

(* the set comprehension of SnvReMutator._get_variants, sorted by position: distinct (codon_start, codon_ref, alt)
   triples; the order inside one position is the iteration order of a Python set (an oracle; C12) - here first occurrence *)
Definition triple_eqb (x y : Z * dna * dna) : bool :=
  (fst (fst x) =? fst (fst y)) && dna_eqb (snd (fst x)) (snd (fst y)) && dna_eqb (snd x) (snd y).
Fixpoint dedup_triples (l : list (Z * dna * dna)) : list (Z * dna * dna) :=
  match l with
  | [] => []
  | x :: l' => x :: filter (fun y => negb (triple_eqb x y)) (dedup_triples l')
  end.
Fixpoint insert_by_fst (x : Z * dna * dna) (l : list (Z * dna * dna)) : list (Z * dna * dna) :=
  match l with
  | [] => [x]
  | y :: l' => if fst (fst x) <=? fst (fst y) then x :: l else y :: insert_by_fst x l'
  end.
Definition sort_triples (l : list (Z * dna * dna)) : list (Z * dna * dna) := fold_right insert_by_fst [] l.

Definition snv_annots (t : table) (c : cds_seq) (src : string) : result (list annot) :=
  do vs <- snv_variants (c_seq c); mapM (fun v => annotate t c v src) vs.

Definition snvre_variants (t : table) (c : cds_seq) : result (list variant) :=
  do snvs <- snv_annots t c "snv"%string;
  let max_pos := c_end c - 2 in
  do ts <- mapM (fun a => do alts <- snvre_alts t a;
                          Ok (map (fun x => (a_codon_start a, a_codon_ref a, x)) alts)) snvs;
  let trip := filter (fun x => fst (fst x) <=? max_pos) (concat ts) in
  mapM (fun x => mk_variant (fst (fst x)) (snd (fst x)) (snd x)) (sort_triples (dedup_triples trip)).

(* mutators of a region, as labels already parsed: (label, kind) *)
Inductive mkind := MDelK (span offset : Z) | MSnv | MSnvRe | MInframe | MAla | MStop | MAa.
Definition is_cds_kind (k : mkind) : bool := match k with MSnvRe | MInframe | MAla | MStop | MAa => true | _ => false end.
Definition has_kind (f : mkind -> bool) (ms : list mkind) : bool := existsb f ms.

(* MutatorCollection.__post_init__: snvre pulls in snv *)
Definition with_dependents (ms : list mkind) : list mkind :=
  if has_kind (fun k => match k with MSnvRe => true | _ => false end) ms && negb (has_kind (fun k => match k with MSnv => true | _ => false end) ms)
  then ms ++ [MSnv] else ms.

Definition del_label (span offset : Z) : string :=
  if span =? 1 then "1del"%string else (Mave.zstr span ++ "del" ++ Mave.zstr offset)%string.

Record prow := mkPRow { pr_label : string; pr_var : variant; pr_annot : option annot }.

Definition label_of (k : mkind) : string :=
  match k with
  | MDelK s o => del_label s o | MSnv => "snv" | MSnvRe => "snvre" | MInframe => "inframe" | MAla => "ala" | MStop => "stop" | MAa => "aa"
  end%string.

(* MutatorCollection.get_variants on a CDS region / on a non-CDS region *)
Definition plain_rows (k : mkind) (vs : list variant) : list prow := map (fun v => mkPRow (label_of k) v None) vs.

Definition region_variants_cds (t : table) (c : cds_seq) (ms0 : list mkind) : result (list prow * list prow) :=
  let ms := with_dependents ms0 in
  do plain <- mapM (fun k => match k with
                             | MDelK s o => do vs <- del_variants (c_seq c) o s; Ok (plain_rows k vs)
                             | MInframe => do vs <- inframe_variants c; Ok (plain_rows k vs)
                             | _ => Ok []
                             end) ms;
  do annotated <- mapM (fun k =>
      do vs <- match k with
               | MSnv => do vs <- snv_variants (c_seq c); Ok (Some vs)
               | MSnvRe => do vs <- snvre_variants t c; Ok (Some vs)
               | MAla => do vs <- ala_variants t c; Ok (Some vs)
               | MStop => do vs <- stop_variants t c; Ok (Some vs)
               | MAa => do vs <- aa_variants t c; Ok (Some vs)
               | _ => Ok None
               end;
      match vs with
      | None => Ok []
      | Some vs => mapM (fun v => do a <- annotate t c v (label_of k); Ok (mkPRow (label_of k) v (Some a))) vs
      end) ms;
  Ok (concat plain, concat annotated).

Definition region_variants_noncds (q : seq) (ms0 : list mkind) : result (list prow * list prow) :=
  let ms := with_dependents ms0 in
  if has_kind is_cds_kind ms then Err ValueError else
  do plain <- mapM (fun k => match k with
                             | MDelK s o => do vs <- del_variants q o s; Ok (plain_rows k vs)
                             | MSnv => do vs <- snv_variants q; Ok (plain_rows k vs)
                             | _ => Ok []
                             end) ms;
  Ok (concat plain, []).

(* get_vars_in_region *)
Definition keep_in_region (r : range) (rows : list prow) : list prow := filter (fun x => in_region r (pr_var x)) rows.
