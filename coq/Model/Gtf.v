(* loaders/gtf.cds_features_to_exons: the CDS features of one transcript become its exons - numbered in transcript order, the stop
   codon added to the last one, kept in ascending genomic order (GtfLoader.load_gtf sorts them).  Definitions only. *)
From VV Require Import Model.Base Model.Pattern Model.Transcript.
From VV Require Import Model.LiftExons.

Record cdsf := mkCdsF { f_start : Z; f_end : Z; f_frame : Z }.

(* sorted(cds, key=lambda x: x.start, reverse=strand.is_minus): stable in both directions *)
Fixpoint insert_asc (f : cdsf) (l : list cdsf) : list cdsf :=
  match l with [] => [f] | x :: l' => if f_start f <? f_start x then f :: l else x :: insert_asc f l' end.
Fixpoint insert_desc (f : cdsf) (l : list cdsf) : list cdsf :=
  match l with [] => [f] | x :: l' => if f_start x <? f_start f then f :: l else x :: insert_desc f l' end.
Definition sort_cds (plus : bool) (l : list cdsf) : list cdsf :=
  fold_right (if plus then insert_asc else insert_desc) [] l.

(* fts[-1] = fts[-1].offset_end(3) / offset_start(-3) *)
Fixpoint add_stop (plus : bool) (l : list cdsf) : list cdsf :=
  match l with
  | [] => []
  | [f] => [if plus then mkCdsF (f_start f) (f_end f + 3) (f_frame f) else mkCdsF (f_start f - 3) (f_end f) (f_frame f)]
  | f :: l' => f :: add_stop plus l'
  end.

(* ft.to_exon(i): Exon(start, end, index, frame) - the UIntRange check applies *)
Fixpoint number_exons (i : Z) (l : list cdsf) : result (list exon) :=
  match l with
  | [] => Ok []
  | f :: l' => do r <- mk_range (f_start f) (f_end f); do tl <- number_exons (i + 1) l'; Ok (mkEx (rs r) (re r) i (f_frame f) :: tl)
  end.

Definition cds_to_exons (s : strand) (cds : list cdsf) : result (list exon) :=
  match cds with
  | [] => Err IndexError                                   (* fts[-1] of an empty list *)
  | _ => do l <- number_exons 0 (add_stop (is_plus s) (sort_cds (is_plus s) cds)); Ok (sort_exons l)
  end.
