(* cdna_proc.proc_targeton: the rows of region 2 of a cDNA targeton.  The annotation gives at most one CDS range per
   sequence (loaders/cdna_annot.get_faux_transcript: one exon, index 0, frame 0, plus strand).  Definitions only. *)
From VV Require Import Model.Base Model.Pattern Model.Seq Model.CodonTable Model.Transcript Model.Mutators Model.MutatorsGlue.

Definition faux_transcript (cds : option range) : transcript :=
  mkTr Plus (match cds with Some c => [mkEx (rs c) (re c) 0 0] | None => [] end).

(* if transcript and not transcript.is_empty: cds = exons[0]; if r.overlaps(cds): if r not in cds: raise ValueError;
   r_seq = transcript.get_cds_seq(seq, 0, r) - otherwise the plain sub-sequence; variants kept when start and end lie in r *)
Definition cdna_region_rows (tb : table) (cds : option range) (q : seq) (r : range) (ms : list mkind) : result (list crow_) :=
  match cds with
  | Some c =>
      if overlaps r c then
        if negb (range_in r c) then Err ValueError
        else region_rows tb (faux_transcript cds) q (Some 0) r ms
      else region_rows tb (faux_transcript cds) q None r ms
  | None => region_rows tb (faux_transcript cds) q None r ms
  end.
