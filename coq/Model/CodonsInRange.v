(* Transcript.get_codons_in_range / targeton.get_variant_codons: the codons a background variant touches (C15).  Definitions only. *)
From VV Require Import Model.Base Model.Pattern Model.Transcript.

(* for exon in self.exons: ri = r.intersect(exon); if ri: append; elif exon_ranges: break *)
Fixpoint exon_ranges (exons : list exon) (r : range) (started : bool) : list (exon * range) :=
  match exons with
  | [] => []
  | e :: es =>
      match intersect r (x_range e) with
      | Some ri => (e, ri) :: exon_ranges es r true
      | None => if started then [] else exon_ranges es r false
      end
  end.

(* Exon.get_codon_indices: ascending on the plus strand, descending along the genome on the minus strand *)
Definition codon_indices (s : strand) (e : exon) (r : range) : result (list Z) :=
  match intersect (x_range e) r with
  | None => Ok []
  | Some t =>
      do f <- codon_index_at s e (rs t);
      do l <- codon_index_at s e (re t);
      match f, l with
      | Some f, Some l => Ok (if f <=? l then zrange f (l + 1) else rev (zrange l (f + 1)))
      | _, _ => Err AssertionError
      end
  end.

(* CdsSeq.ext_start *)
Definition ext_start (c : cds_seq) : Z :=
  match c_prefix c with [] => c_start c | _ => hd (c_start c) (c_prefix_pos c) end.

Definition codon_seqs (t : transcript) (q : seq) (ers : list (exon * range)) : result (list cds_seq) :=
  do ll <- mapM (fun er =>
             do idx <- codon_indices (t_strand t) (fst er) (snd er);
             mapM (fun ci => do cr <- exon_get_codon (t_strand t) (fst er) ci; get_cds_seq_exon t q (fst er) cr) idx) ers;
  Ok (concat ll).

(* "Drop duplicate codons": codons[i] is kept when its ext_start differs from that of codons[i - 1] *)
Fixpoint drop_dups (prev : Z) (l : list cds_seq) : list cds_seq :=
  match l with
  | [] => []
  | c :: l' => if ext_start c =? prev then drop_dups (ext_start c) l' else c :: drop_dups (ext_start c) l'
  end.

Definition get_codons_in_range (t : transcript) (q : seq) (r : range) : result (list cds_seq) :=
  do cs <- codon_seqs t q (exon_ranges (t_exons t) r false);
  match cs with [] => Ok [] | c :: rest => Ok (c :: drop_dups (ext_start c) rest) end.

(* get_variant_codons: Variant.ref_range = UIntRange.from_length(pos, ref_len) *)
Definition get_variant_codons (t : transcript) (q : seq) (pos ref_len : Z) : result (list cds_seq) :=
  if 1 <? ref_len then get_codons_in_range t q (mkRange pos (pos + ref_len - 1))
  else do c <- get_codon_at t q pos; Ok (match c with Some c => [c] | None => [] end).

(* what the check compares: (ext_start, codon bases) of every codon returned *)
Definition codon_keys (r : result (list cds_seq)) : result (list (Z * dna)) :=
  do cs <- r; Ok (map (fun c => (ext_start c, c_ext c)) cs).

Definition key_eqb_ (a b : Z * dna) : bool := (fst a =? fst b) && dna_eqb (snd a) (snd b).
Fixpoint keys_eqb (a b : list (Z * dna)) : bool :=
  match a, b with
  | [], [] => true
  | x :: a', y :: b' => key_eqb_ x y && keys_eqb a' b'
  | _, _ => false
  end.
(* the implementation's answer: Some keys, or None when it raised *)
Definition codons_agree (model : result (list (Z * dna))) (impl : option (list (Z * dna))) : bool :=
  match model, impl with
  | Ok a, Some b => keys_eqb a b
  | Err OtherErr, _ => true        (* flagged: CPython negative-index wrap-around, not represented *)
  | Err _, None => true
  | _, _ => false
  end.
