(* meta_table.py MetaTable.to_csv loop body, meta_row.py MetaRow, vcf_writer.py (Allele, VcfVariant.from_partial,
   get_vcf_record_info, write_vcf_record), oligo_generation_info.py eval_in_range *)
From VV Require Import Model.Base Model.Pattern Model.Seq Model.Vcf Model.Mave Model.Gpo.

(* MetaRow: one row of v_meta (meta_row.py) *)
Record meta_row := mkMR {
  mr_ref_pos : Z;            (* original_start: position in REF coordinates *)
  mr_alt_pos : Z;            (* ref_start of the view: position in ALT (background) coordinates *)
  mr_end : Z;
  mr_ref : dna; mr_alt : dna;
  mr_vcf_nt : option nt;
  mr_custom : bool;          (* mutator = 'custom' *)
  mr_oligo : dna;
  mr_start_exon : option Z; mr_start_ppe : option Z;
  mr_end_exon : option Z; mr_end_ppe : option Z }.

(* run-level context of to_csv *)
Record csv_ctx := mkCtx {
  cx_seq : pseq;             (* self.seq: targeton on the reference, with the preceding nucleotide *)
  cx_alt : pseq;             (* self.alt_seq: PAM-protected (and background) targeton sequence *)
  cx_gpo : option gpo;
  cx_rc : bool;              (* opt.should_rc(strand) *)
  cx_a5 : dna; cx_a3 : dna;
  cx_min : Z; cx_max : Z;
  cx_sge : bool }.           (* src_type = REF: VCF files are written *)

(* Seq.substr(r, rel=False) on a pseq *)
Definition psubstr (q : pseq) (a b : Z) : result dna :=
  do r <- mk_range a b; substr (p_seq q) r.

(* Allele: bases + optional anchor nucleotide *)
Record allele := mkAl { al_s : dna; al_nt : option nt }.
Definition get_vcf_allele (a : allele) (pos : Z) : dna :=
  match al_nt a with
  | None => al_s a
  | Some x => if 1 <? pos then x :: al_s a else al_s a ++ [x]
  end.

(* VcfVariant.from_partial(start, ref, alt): the (0-based) start handed to pysam *)
Definition from_partial_start (start : Z) (ref alt : allele) : result Z :=
  if start <? 0 then Err AssertionError
  else if is_nil (al_s ref) || is_nil (al_s alt) then Ok (if 1 <? start then start - 1 else start)
  else Ok start.

Record vcf_rec := mkRec { vr_pos : Z; vr_ref : dna; vr_alt : dna; vr_sge_ref : option dna }.

(* write_vcf_record / get_vcf_record_info; pysam refuses an empty allele *)
Definition mk_record (start : Z) (ref alt : allele) (sge : option allele) : result vcf_rec :=
  do s <- from_partial_start start ref alt;
  let r := get_vcf_allele ref s in
  let a := get_vcf_allele alt s in
  do sge_ref <- match sge with
                | None => Ok None
                | Some x => let sr := get_vcf_allele x s in
                            Ok (if dna_eqb sr r then None else Some sr)
                end;
  if is_nil r || is_nil a then Err ValueError
  else Ok (mkRec (s + 1) r a sge_ref).

Record out_row := mkOut {
  o_pam_ref : dna;                 (* the `ref` column *)
  o_mave_nt : string; o_mave_nt_ref : string;
  o_name_var : variant;            (* the variant the oligo name is built from *)
  o_no_adapt : dna; o_oligo : dna; o_len : Z; o_included : bool;
  o_vcf_ref : option vcf_rec; o_vcf_pam : option vcf_rec }.

Definition opt_min (a : Z) (b : option Z) : Z := match b with None => a | Some x => Z.min a x end.
Definition opt_max (a : Z) (b : option Z) : Z := match b with None => a | Some x => Z.max a x end.
Definition is_some {X} (o : option X) : bool := match o with Some _ => true | None => false end.
Definition or_else (a b : dna) : dna := match a with [] => b | _ => a end.    (* `alt or mr.alt` *)

Definition row_out (c : csv_ctx) (mr : meta_row) : result out_row :=
  let ref_start := s_start (p_seq (cx_seq c)) in
  do _ <- mk_variant (mr_ref_pos mr) (mr_ref mr) (mr_alt mr);
  do vt <- var_type (mr_ref mr) (mr_alt mr);
  let ref_end_r := get_end (mr_ref_pos mr) (zlen (mr_ref mr)) in
  let alt_ref_end := get_end (mr_alt_pos mr) (zlen (mr_ref mr)) in
  let no_adapt := if cx_rc c then revcomp (mr_oligo mr) else mr_oligo mr in
  let oligo := cx_a5 c ++ no_adapt ++ cx_a3 c in
  do refs <- (if is_nil (mr_ref mr) then Ok ([], [])
              else do rr <- psubstr (cx_seq c) (mr_ref_pos mr) ref_end_r;
                   do pr <- psubstr (cx_alt c) (mr_alt_pos mr) (mr_end mr); Ok (rr, pr));
  let ref_ref := fst refs in
  let pam_ref := snd refs in
  do mave_nt_ref <- get_mave_nt (mr_ref_pos mr) ref_start vt ref_ref (mr_alt mr);
  do mave_nt0 <- get_mave_nt (mr_ref_pos mr) ref_start vt pam_ref (mr_alt mr);
  do name_var <- mk_variant (mr_ref_pos mr) pam_ref (mr_alt mr);
  let add_vcf_nt := negb (vtype_eqb vt VSub) in
  let nt0 := if add_vcf_nt then mr_vcf_nt mr else None in
  do nts <- (if add_vcf_nt && negb (is_some (mr_vcf_nt mr)) && negb (mr_custom mr)
             then do rn <- get_nt (cx_seq c) (mr_ref_pos mr - 1);
                  do an <- get_nt (cx_alt c) (mr_alt_pos mr - 1);
                  (* sge_ref, ref_ref, ref_alt <- ref_nt ; pam_ref, pam_alt <- alt_nt *)
                  Ok (Some rn, Some rn, Some an, Some rn, Some an)
             else if add_vcf_nt && is_some (mr_vcf_nt mr) && mr_custom mr && (1 <? mr_alt_pos mr)
             then (* custom indel: the VCF's own anchor for the reference alleles, the protected base for the PAM alleles *)
                  do an <- get_nt (cx_alt c) (mr_alt_pos mr - 1);
                  Ok (nt0, nt0, Some an, nt0, Some an)
             else Ok (nt0, nt0, nt0, nt0, nt0));
  let '(sge_nt, ref_ref_nt, pam_ref_nt, ref_alt_nt, pam_alt_nt) := nts in
  let ref_ref_all := mkAl ref_ref ref_ref_nt in
  let ref_alt_all := mkAl (mr_alt mr) ref_alt_nt in
  let overlaps := is_some (mr_start_exon mr) || is_some (mr_end_exon mr) in
  let pr_start := opt_min (mr_alt_pos mr) (mr_start_ppe mr) in
  let pr_end := opt_max (mr_end mr) (mr_end_ppe mr) in
  do wid <- (if overlaps then
               do pam_range <- mk_range pr_start pr_end;
               if negb (rs pam_range =? mr_alt_pos mr) || negb (re pam_range =? alt_ref_end) then
                 do pam_codon_ref <- psubstr (cx_alt c) (rs pam_range) (re pam_range);
                 (* the extended range is in background coordinates: lifted back to cut the unprotected reference *)
                 do refr <- match cx_gpo c with
                            | None => Ok (rs pam_range, re pam_range)
                            | Some g => do a <- alt_to_ref_position g (rs pam_range);
                                        do b <- alt_to_ref_position g (re pam_range);
                                        match a, b with Some a, Some b => Ok (a, b) | _, _ => Err AssertionError end
                            end;
                 do codon_ref <- psubstr (cx_seq c) (fst refr) (snd refr);
                 do pam_alt <- psubstr (mkPSeq (mkSeq (s_start (p_seq (cx_alt c))) (mr_oligo mr)) None)
                                       (rs pam_range) (re pam_range + (zlen (mr_alt mr) - zlen (mr_ref mr)));
                 let drop_nt := true in     (* extended alleles are never empty: no anchor nucleotide *)
                 do prs <- match cx_gpo c with
                           | None => Ok (rs pam_range)
                           | Some g => do x <- alt_to_ref_position g (rs pam_range);
                                       match x with Some y => Ok y | None => Err AssertionError end
                           end;
                 (* an insertion extended to the PAM codon has a reference: printed as a deletion-insertion *)
                 do mv <- get_mave_nt prs ref_start (if vtype_eqb vt VIns then VSub else vt) pam_codon_ref (or_else pam_alt (mr_alt mr));
                 Ok (Some (codon_ref, pam_codon_ref, pam_alt, drop_nt, prs, mv))
               else Ok None
             else Ok None);
  let sge_all := match wid with
                 | Some (cr, _, _, dn, _, _) => mkAl cr (if dn then None else sge_nt)
                 | None => mkAl ref_ref sge_nt end in
  let pam_ref_all := match wid with
                     | Some (_, pcr, _, dn, _, _) => mkAl pcr (if dn then None else pam_ref_nt)
                     | None => mkAl pam_ref pam_ref_nt end in
  let pam_alt_all := match wid with
                     | Some (_, _, pa, dn, _, _) => mkAl pa (if dn then None else pam_alt_nt)
                     | None => mkAl (mr_alt mr) pam_alt_nt end in
  let pam_ref_start := match wid with Some (_, _, _, _, prs, _) => prs | None => mr_ref_pos mr end in
  let mave_nt := match wid with Some (_, _, _, _, _, mv) => mv | None => mave_nt0 end in
  let len := zlen oligo in
  let included := negb (len <? cx_min c) && negb (cx_max c <? len) in
  do vcfs <- (if included && cx_sge c then
                do r1 <- mk_record (mr_ref_pos mr - 1) ref_ref_all ref_alt_all None;
                do r2 <- mk_record (pam_ref_start - 1) pam_ref_all pam_alt_all (Some sge_all);
                Ok (Some r1, Some r2)
              else Ok (None, None));
  Ok (mkOut pam_ref mave_nt mave_nt_ref name_var no_adapt oligo len included (fst vcfs) (snd vcfs)).
