(* C01 / C11: what the to_csv loop body writes in the sequence columns of a row. *)
From VV Require Import Model.Base Model.Pattern Model.Seq Model.Vcf Model.Mave Model.Gpo Model.ToCsv
  Proofs.BaseLemmas Proofs.TargetonProofs Proofs.ApplyProofs Proofs.VcfProofs.

Ltac binv H :=
  repeat match type of H with
  | bind ?x _ = Ok _ => let E := fresh "E" in destruct x eqn:E; cbn [bind] in H; [|discriminate H]
  | (let '(_, _) := ?p in _) = Ok _ => let E := fresh "E" in destruct p eqn:E
  end.

(* the sequence columns of a row: mseq_no_adapt is the oligo, reverse-complemented iff requested for the minus strand;
   mseq is that between the adaptors; oligo_length its length; inclusion is min <= length <= max *)
Theorem row_sequence_fields c mr o : row_out c mr = Ok o ->
  o_no_adapt o = (if cx_rc c then revcomp (mr_oligo mr) else mr_oligo mr) /\
  o_oligo o = cx_a5 c ++ o_no_adapt o ++ cx_a3 c /\
  o_len o = zlen (o_oligo o) /\
  o_included o = negb (o_len o <? cx_min c) && negb (cx_max c <? o_len o).
Proof.
  unfold row_out. intros H. binv H.
  repeat match type of H with (let '(_, _) := ?p in _) = Ok _ => destruct p end.
  binv H. injection H as <-. cbn [o_no_adapt o_oligo o_len o_included]. auto.
Qed.

(* the `ref` column is the template's content at the mutated position (empty for insertions) *)
Theorem row_ref_is_template c mr o : row_out c mr = Ok o ->
  (mr_ref mr = [] -> o_pam_ref o = []) /\
  (mr_ref mr <> [] -> psubstr (cx_alt c) (mr_alt_pos mr) (mr_end mr) = Ok (o_pam_ref o)).
Proof.
  unfold row_out. intros H. binv H.
  repeat match type of H with (let '(_, _) := ?p in _) = Ok _ => destruct p end.
  binv H. injection H as <-. cbn [o_pam_ref].
  match goal with E : (if is_nil (mr_ref mr) then _ else _) = Ok ?p |- _ => rename E into Er end.
  destruct (mr_ref mr) as [|x r]; cbn [is_nil] in Er.
  - injection Er as <-. split; [reflexivity|congruence].
  - split; [congruence|]. intros _. binv Er. injection Er as <-. cbn [snd]. reflexivity.
Qed.
