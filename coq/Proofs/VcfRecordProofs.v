(* C09 kernel: the VCF record built by write_vcf_record / VcfVariant.from_partial / Allele.get_vcf_allele. *)
From VV Require Import Model.Base Model.Pattern Model.Seq Model.Vcf Model.Mave Model.Gpo Model.ToCsv
  Proofs.BaseLemmas Proofs.TargetonProofs Proofs.ApplyProofs Proofs.VcfProofs.

(* a record is valid against a sequence X (X's first base is genomic position x0) and reproduces `target`:
   no allele is empty, REF is X's content at POS, replacing it by ALT gives target *)
Definition rec_ok (x0 : Z) (X : dna) (r : vcf_rec) (target : dna) : Prop :=
  vr_ref r <> [] /\ vr_alt r <> [] /\ x0 <= vr_pos r /\
  py_slice (vr_pos r - x0) (vr_pos r - x0 + zlen (vr_ref r)) X = vr_ref r /\
  zfirstn (vr_pos r - x0) X ++ vr_alt r ++ zskipn (vr_pos r - x0 + zlen (vr_ref r)) X = target.

Lemma py_slice_mid {X} (P R S : list X) : py_slice (zlen P) (zlen P + zlen R) (P ++ R ++ S) = R.
Proof.
  unfold py_slice. rewrite zskipn_app_exact. replace (zlen P + zlen R - zlen P) with (zlen R) by lia.
  apply zfirstn_app_exact.
Qed.

(* substitution (both alleles non-empty, no anchor): POS is the position of the first changed base *)
Theorem record_substitution x0 P R A S pos :
  R <> [] -> A <> [] -> pos = x0 + zlen P -> 1 <= pos ->
  exists r, mk_record (pos - 1) (mkAl R None) (mkAl A None) None = Ok r /\ rec_ok x0 (P ++ R ++ S) r (P ++ A ++ S).
Proof.
  intros HR HA Hpos Hp. pose proof (zlen_nonneg P). unfold mk_record, from_partial_start, get_vcf_allele. cbn [al_s al_nt].
  replace (pos - 1 <? 0) with false by (symmetry; apply Z.ltb_ge; lia).
  destruct R as [|x R]; [congruence|]. destruct A as [|y A]; [congruence|]. cbn [is_nil orb bind].
  eexists. split; [reflexivity|]. unfold rec_ok. cbn [vr_pos vr_ref vr_alt].
  replace (pos - 1 + 1 - x0) with (zlen P) by lia.
  split; [congruence|]. split; [congruence|]. split; [lia|]. split.
  - apply py_slice_mid.
  - rewrite zfirstn_app_exact. f_equal. f_equal.
    rewrite app_assoc, <- zlen_app. now rewrite zskipn_app_exact.
Qed.

(* insertion / deletion anchored by the base x preceding the change: POS is the anchor position and both alleles start
   with the anchor; an anchor is attached only when one of the alleles is empty.  (pos >= 4: see known finding
   C09-contig-start-anchor for contig positions 2-3) *)
Theorem record_anchored x0 P x R A S pos :
  pos = x0 + zlen P + 1 -> 4 <= pos -> (R = [] \/ A = []) ->
  exists r, mk_record (pos - 1) (mkAl R (Some x)) (mkAl A (Some x)) None = Ok r /\
            rec_ok x0 (P ++ [x] ++ R ++ S) r (P ++ [x] ++ A ++ S) /\ vr_pos r = pos - 1.
Proof.
  intros Hpos Hp Hemp. pose proof (zlen_nonneg P).
  unfold mk_record, from_partial_start. cbn [al_s].
  replace (pos - 1 <? 0) with false by (symmetry; apply Z.ltb_ge; lia).
  assert (Hx : is_nil R || is_nil A = true) by (destruct Hemp; subst; cbn [is_nil orb]; [reflexivity|apply orb_true_r]).
  rewrite Hx.
  replace (1 <? pos - 1) with true by (symmetry; apply Z.ltb_lt; lia). cbn [bind].
  unfold get_vcf_allele. cbn [al_nt al_s]. replace (1 <? pos - 1 - 1) with true by (symmetry; apply Z.ltb_lt; lia).
  cbn [is_nil orb bind]. eexists. split; [reflexivity|]. split; [|cbn [vr_pos]; lia].
  unfold rec_ok. cbn [vr_pos vr_ref vr_alt]. replace (pos - 1 - 1 + 1 - x0) with (zlen P) by lia.
  split; [congruence|]. split; [congruence|]. split; [lia|]. split.
  - replace (zlen (x :: R)) with (zlen ([x] ++ R)) by reflexivity. rewrite (app_assoc [x] R S).
    apply (py_slice_mid P ([x] ++ R) S).
  - rewrite zfirstn_app_exact. f_equal. cbn [app]. f_equal.
    change (x :: R ++ S) with ((x :: R) ++ S). now rewrite <- zlen_app, app_assoc, zskipn_app_exact.
Qed.

(* SGE_REF is present exactly when the unprotected allele differs from REF, and then equals it *)
Theorem sge_ref_iff start ref alt sge r :
  mk_record start ref alt (Some sge) = Ok r ->
  exists s, from_partial_start start ref alt = Ok s /\
    (vr_sge_ref r = None <-> get_vcf_allele sge s = vr_ref r) /\
    (forall x, vr_sge_ref r = Some x -> x = get_vcf_allele sge s).
Proof.
  unfold mk_record. destruct (from_partial_start start ref alt) as [s|] eqn:Es; cbn [bind]; [|discriminate].
  cbn [bind].
  destruct (is_nil (get_vcf_allele ref s) || is_nil (get_vcf_allele alt s)); [discriminate|].
  intros H; injection H as <-. exists s. split; [reflexivity|]. cbn [vr_sge_ref vr_ref].
  destruct (dna_eqb (get_vcf_allele sge s) (get_vcf_allele ref s)) eqn:E.
  - apply dna_eqb_eq in E. split; [tauto|]. discriminate.
  - split; [split; [discriminate|]|].
    + intros Hc. rewrite Hc, dna_eqb_refl in E. discriminate.
    + intros x Hx. now injection Hx as <-.
Qed.
