(* codon_table_loader.load_codon_table_rows: every line of the file is a row (list(map(_parse_codon_table_row, csv.reader(fh)))) *)
From VV Require Import Model.Base Model.Pattern Model.CodonTable Proofs.BaseLemmas Proofs.CodonProofs.
From Coq Require Import Lia.

(* a table is loaded line by line: as many rows as lines, each the parse of its line, in file order *)
Theorem load_table_rows lines t : load_table lines = Ok t ->
  length t = length lines /\ Forall2 (fun l r => parse_row (fst l) (snd l) = Ok r) lines t.
Proof.
  unfold load_table. revert t. induction lines as [|l lines IH]; intros t H; cbn [mapM] in H.
  - apply Ok_inj in H. subst t. split; [reflexivity | constructor].
  - destruct (parse_row (fst l) (snd l)) as [r|] eqn:Er; cbn [bind] in H; [|discriminate].
    destruct (mapM _ lines) as [tl|] eqn:Et; cbn [bind] in H; [|discriminate]. apply Ok_inj in H. subst t.
    destruct (IH tl eq_refl) as (HL & HF). split; [cbn [length]; lia | constructor; assumption].
Qed.

(* and one defective line - empty, short, bad codon / amino acid / frequency / rank - anywhere in the file refuses the file *)
Theorem load_table_defective_line lines l : In l lines -> is_ok (parse_row (fst l) (snd l)) = false -> is_ok (load_table lines) = false.
Proof.
  unfold load_table. induction lines as [|x lines IH]; intros Hin Hbad; [destruct Hin|]. cbn [mapM].
  destruct (parse_row (fst x) (snd x)) as [r|] eqn:Er; cbn [bind]; [|reflexivity].
  destruct Hin as [->|Hin]; [rewrite Er in Hbad; discriminate|].
  specialize (IH Hin Hbad). destruct (mapM _ lines); cbn [bind]; [discriminate | reflexivity].
Qed.

Example load_table_empty_line : is_ok (load_table [(["GCT"; "A"; "0.5"; "RANK1"]%string, true); ([], true); (["GCC"; "A"; "0.5"; "RANK2"]%string, true)]) = false.
Proof. vm_compute. reflexivity. Qed.
