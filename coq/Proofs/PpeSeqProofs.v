From VV Require Import Model.Base Model.Pattern Model.Gpo Spec.LiftSpec Proofs.BaseLemmas Proofs.ApplyProofs Proofs.PamSeqProofs.
From VV Require Import Model.PpeSeq.
From Coq Require Import Lia ZifyBool Permutation.

Definition is_snv (v : variant) : Prop := zlen (v_ref v) = 1 /\ zlen (v_alt v) = 1.

Lemma snvs_weaken lo lo' hi vs : snvs lo hi vs -> lo' <= lo -> snvs lo' hi vs.
Proof. destruct vs as [|v vs]; cbn [snvs]; [auto|]. intros (H1 & H2 & H3 & H4) Hl. repeat split; try assumption; lia. Qed.

Lemma snvs_insert v : forall l lo hi,
  snvs lo hi l -> lo <= v_pos v <= hi -> is_snv v -> ~ In (v_pos v) (map v_pos l) -> snvs lo hi (insert_var_by_pos v l).
Proof.
  induction l as [|x l IH]; intros lo hi Hs Hb (Hr & Ha) Hn; cbn [insert_var_by_pos].
  - cbn [snvs]. repeat split; try assumption; lia.
  - cbn [snvs] in Hs. destruct Hs as (H1 & H2 & H3 & H4).
    assert (v_pos v <> v_pos x) as Hne by (intros E; apply Hn; left; symmetry; exact E).
    destruct (v_pos v <=? v_pos x) eqn:E.
    + cbn [snvs]. repeat split; try assumption; try lia.
    + cbn [snvs]. repeat split; try assumption; try lia.
      apply IH; [exact H4 | lia | split; assumption | intros Hin; apply Hn; right; exact Hin].
Qed.

Lemma insert_perm v l : Permutation (insert_var_by_pos v l) (v :: l).
Proof.
  induction l as [|x l IH]; cbn [insert_var_by_pos]; [apply Permutation_refl|].
  destruct (v_pos v <=? v_pos x); [apply Permutation_refl|].
  eapply Permutation_trans; [apply perm_skip, IH | apply perm_swap].
Qed.
Lemma sort_vars_perm l : Permutation (sort_vars l) l.
Proof.
  unfold sort_vars; induction l as [|x l IH]; cbn [fold_right]; [apply Permutation_refl|].
  eapply Permutation_trans; [apply insert_perm | apply perm_skip, IH].
Qed.

Lemma snvs_sort lo hi : forall l,
  (forall v, In v l -> lo <= v_pos v <= hi /\ is_snv v) -> NoDup (map v_pos l) -> snvs lo hi (sort_vars l).
Proof.
  induction l as [|x l IH]; intros Hall Hnd; [exact I|].
  change (sort_vars (x :: l)) with (insert_var_by_pos x (sort_vars l)).
  cbn [map] in Hnd. apply NoDup_cons_iff in Hnd. destruct Hnd as (Hx & Hnd).
  destruct (Hall x (or_introl eq_refl)) as (Hb & Hs).
  apply snvs_insert; [apply IH; [intros v Hv; apply Hall; right; exact Hv | exact Hnd] | exact Hb | exact Hs |].
  intros Hin. apply Hx. eapply Permutation_in; [apply Permutation_map, sort_vars_perm | exact Hin].
Qed.

Lemma NoDup_map_filter {X Y} (f : X -> Y) (g : X -> bool) l : NoDup (map f l) -> NoDup (map f (filter g l)).
Proof.
  induction l as [|x l IH]; cbn [map filter]; [auto|]. intros H. apply NoDup_cons_iff in H. destruct H as (Hx & Hn).
  destruct (g x); [|apply IH; exact Hn]. cbn [map]. apply NoDup_cons; [|apply IH; exact Hn].
  intros Hin. apply Hx. apply in_map_iff in Hin. destruct Hin as (y & Hy & Hin). apply filter_In in Hin. apply in_map_iff. exists y. tauto.
Qed.

(* with distinct positions, the edit found at a position does not depend on the order of the list *)
Lemma find_pos_spec l p : NoDup (map v_pos l) ->
  forall v, find (fun v => v_pos v =? p) l = Some v <-> In v l /\ v_pos v = p.
Proof.
  induction l as [|x l IH]; intros Hnd v; cbn [find]; [split; [discriminate | intros ([] & _)]|].
  cbn [map] in Hnd. apply NoDup_cons_iff in Hnd. destruct Hnd as (Hx & Hnd).
  destruct (v_pos x =? p) eqn:E.
  - split.
    + intros H; inversion H; subst. split; [left; reflexivity | lia].
    + intros ([->|Hin] & Hp); [reflexivity|]. exfalso. apply Hx. apply in_map_iff. exists v. split; [lia | exact Hin].
  - rewrite (IH Hnd v). split.
    + intros (Hin & Hp). split; [right; exact Hin | exact Hp].
    + intros ([->|Hin] & Hp); [lia | split; assumption].
Qed.

Lemma find_pos_none l p : find (fun v => v_pos v =? p) l = None <-> (forall v, In v l -> v_pos v <> p).
Proof.
  induction l as [|x l IH]; cbn [find]; [split; [intros _ v [] | reflexivity]|].
  destruct (v_pos x =? p) eqn:E.
  - split; [discriminate|]. intros H. exfalso. apply (H x (or_introl eq_refl)). lia.
  - rewrite IH. split; [intros H v [->|Hin]; [lia | apply H; exact Hin] | intros H v Hin; apply H; right; exact Hin].
Qed.

Lemma edit_at_sorted_filter tr ppes p : NoDup (map v_pos ppes) ->
  edit_at (sort_vars (ppes_in_range tr ppes)) p = if in_range p tr then edit_at ppes p else None.
Proof.
  intros Hnd. unfold edit_at.
  set (S := sort_vars (ppes_in_range tr ppes)).
  assert (NoDup (map v_pos S)) as HndS.
  { eapply Permutation_NoDup; [apply Permutation_sym, Permutation_map, sort_vars_perm | apply NoDup_map_filter; exact Hnd]. }
  assert (forall v, In v S <-> In v ppes /\ in_range (v_pos v) tr = true) as HinS.
  { intros v. unfold S. split.
    - intros H. apply (Permutation_in _ (sort_vars_perm _)) in H. apply filter_In in H. exact H.
    - intros H. apply (Permutation_in _ (Permutation_sym (sort_vars_perm _))). apply filter_In. exact H. }
  destruct (find (fun v => v_pos v =? p) S) as [v|] eqn:Ef.
  - apply (find_pos_spec S p HndS) in Ef. destruct Ef as (Hin & Hp). apply HinS in Hin. destruct Hin as (Hin & Hr).
    rewrite Hp in Hr. rewrite Hr.
    assert (find (fun v => v_pos v =? p) ppes = Some v) as -> by (apply (find_pos_spec ppes p Hnd); split; assumption).
    reflexivity.
  - destruct (in_range p tr) eqn:Er; [|reflexivity].
    destruct (find (fun v => v_pos v =? p) ppes) as [v|] eqn:Eg; [|reflexivity].
    apply (find_pos_spec ppes p Hnd) in Eg. destruct Eg as (Hin & Hp).
    exfalso. apply (proj1 (find_pos_none S p) Ef v); [|exact Hp]. apply HinS. split; [exact Hin | rewrite Hp; exact Er].
Qed.

Lemma snvs_sum_delta lo hi vs : snvs lo hi vs -> sum_delta_v vs = 0.
Proof.
  revert lo; induction vs as [|v vs IH]; intros lo; cbn [snvs sum_delta_v fold_right]; [reflexivity|].
  intros (_ & H2 & H3 & H4). fold (sum_delta_v vs). rewrite (IH _ H4). lia.
Qed.
Lemma splice_snvs_length start ref vs : snvs start (start + zlen ref - 1) vs -> zlen (splice start ref vs) = zlen ref.
Proof. intros H. rewrite splice_length by (apply snvs_wfv; exact H). rewrite (snvs_sum_delta _ _ _ H). lia. Qed.

(* pam_seq over the whole context: the edits of the targeton's guides are applied exactly where they fall inside the targeton;
   an edit of one of those guides outside the targeton leaves the context as it was (codons completed from outside the targeton
   are read from the unedited sequence) *)
Theorem ppe_seq_exact start ctx tr ppes :
  (forall v, In v ppes -> is_snv v) -> NoDup (map v_pos ppes) ->
  start <= rs tr -> re tr <= start + zlen ctx - 1 ->
  exists s, ppe_seq start ctx tr ppes = Ok s /\ zlen s = zlen ctx /\
    forall p, start <= p < start + zlen ctx ->
      znth (p - start) s = match (if in_range p tr then edit_at ppes p else None) with
                           | Some x => Some x | None => znth (p - start) ctx end.
Proof.
  intros Hsnv Hnd Hlo Hhi.
  assert (snvs start (start + zlen ctx - 1) (sort_vars (ppes_in_range tr ppes))) as Hs.
  { apply snvs_sort.
    - intros v Hv. unfold ppes_in_range in Hv. apply filter_In in Hv. destruct Hv as (Hv & Hr).
      split; [unfold in_range in Hr; lia | apply Hsnv; exact Hv].
    - apply NoDup_map_filter. exact Hnd. }
  exists (splice start ctx (sort_vars (ppes_in_range tr ppes))).
  split; [unfold ppe_seq; apply ppe_seq_is_splice; exact Hs|].
  split.
  - apply splice_snvs_length. exact Hs.
  - intros p Hp. rewrite (pam_seq_exact _ _ _ _ Hs Hp). rewrite edit_at_sorted_filter by exact Hnd. reflexivity.
Qed.
