From VV Require Import Model.Base Model.Pattern Model.CodonTable Model.Transcript Proofs.BaseLemmas Proofs.CodonProofs Proofs.AnnotWalkProofs.
From VV Require Import Model.PamAnnot.
From Coq Require Import Lia ZifyBool.

(* the positions the codon is completed from do not depend on the sequence read *)
Lemma cds_positions_seq_independent t q1 q2 e r c1 c2 :
  get_cds_seq_exon t q1 e r = Ok c1 -> get_cds_seq_exon t q2 e r = Ok c2 ->
  c_prefix_pos c1 = c_prefix_pos c2 /\ c_suffix_pos c1 = c_suffix_pos c2.
Proof.
  unfold get_cds_seq_exon. intros H1 H2.
  destruct (range_in r (x_range e)); [|discriminate]. cbn [negb] in *.
  destruct (range_cds_exts (t_strand t) e r) as [[before after]|]; [|discriminate]. cbn [bind] in *.
  destruct (exon_list_index t (x_index e)) as [i|]; [|discriminate]. cbn [bind] in *.
  destruct (get_before (t_exons t) i r before) as [bp|]; [|discriminate]. cbn [bind] in *.
  destruct (get_after (t_exons t) i r after) as [ap|]; [|discriminate]. cbn [bind] in *.
  destruct ((zlen bp =? before) && (zlen ap =? after)); [|discriminate]. cbn [negb] in *.
  destruct (substr q1 r) as [m1|]; [|discriminate]. destruct (substr q2 r) as [m2|]; [|discriminate]. cbn [bind] in *.
  destruct (seq_get_at q1 bp) as [p1|]; [|discriminate]. destruct (seq_get_at q2 bp) as [p2|]; [|discriminate]. cbn [bind] in *.
  destruct (seq_get_at q1 ap) as [s1|]; [|discriminate]. destruct (seq_get_at q2 ap) as [s2|]; [|discriminate]. cbn [bind] in *.
  match type of H1 with (if ?b then _ else _) = _ => destruct b; [discriminate|] end.
  match type of H2 with (if ?b then _ else _) = _ => destruct b; [discriminate|] end.
  inversion H1; inversion H2; subst; cbn; split; reflexivity.
Qed.

Lemma get_codon_at_some t q p c :
  get_codon_at t q p = Ok (Some c) ->
  exists e r, exon_at_pos t p = Some e /\ exon_get_codon_at (t_strand t) e p = Ok (Some r) /\ in_range p r = true /\
              get_cds_seq_exon t q e r = Ok c.
Proof.
  unfold get_codon_at. destruct (exon_at_pos t p) as [e|] eqn:Ee; [|discriminate].
  destruct (exon_get_codon_at (t_strand t) e p) as [[r|]|] eqn:Er; cbn [bind]; try discriminate.
  destruct (in_range p r) eqn:Ein; cbn [negb]; [|discriminate].
  destruct (get_cds_seq_exon t q e r) as [c'|] eqn:Ec; cbn [bind]; [|discriminate].
  intros H; inversion H; subst. exists e, r. repeat split; auto.
Qed.

Lemma in_positions p r : in_range p r = true -> In p (positions r).
Proof. unfold in_range, positions. intros H. apply zrange_In. lia. Qed.

Lemma exon_get_codon_at_bounds s e p r :
  exon_get_codon_at s e p = Ok (Some r) -> x_start e <= rs r /\ rs r <= re r /\ re r <= x_end e.
Proof.
  unfold exon_get_codon_at. destruct (codon_index_at s e p) as [[ci|]|]; cbn [bind]; try discriminate.
  unfold exon_get_codon. destruct (ci <? 0); [discriminate|].
  destruct (first_codon_start s e) as [o|]; cbn [bind]; [|discriminate].
  destruct (codon_range s o ci) as [cr|]; cbn [bind]; [|discriminate].
  unfold intersect. 
  destruct (overlaps cr (x_range e)); [|discriminate].
  cbn [x_range rs re].
  match goal with |- context [rlen ?c] => set (c0 := c) end.
  destruct ((1 <=? rlen c0) && (rlen c0 <=? 3)) eqn:El; cbn [bind]; [|discriminate].
  intros H; inversion H; subst r. unfold c0, rlen in *. cbn [rs re x_range] in *. lia.
Qed.

(* the sequence read spans the exons of the transcript (the context sequence does: get_ctx_range) *)
Definition covers (q : seq) (t : transcript) : Prop :=
  forall x, In x (t_exons t) -> 0 <= x_start x /\ s_start q <= x_start x /\ x_end x - s_start q + 1 <= s_len q.

(* pam_mut_annot of one applied edit, without background variants (one transcript, one coordinate system): the codon
   is read at the same three positions of the coding walk - completed across exon junctions - in the reference and in
   the PAM-protected sequence, the edited position is one of them, and the annotation is the change between the two
   translations *)
Theorem pam_annot_is_walk_translation tb t q_ref q_alt p m :
  ppe_mut_type tb t t q_ref q_alt p p = Ok m -> covers q_ref t -> covers q_alt t ->
  exists e r cr ca a_ref a_alt,
    exon_at_pos t p = Some e /\ exon_get_codon_at (t_strand t) e p = Ok (Some r) /\
    get_cds_seq_exon t q_ref e r = Ok cr /\ get_cds_seq_exon t q_alt e r = Ok ca /\
    let W := walk_segment cr r in
    zlen W = 3 /\ In p W /\
    seq_get_at q_ref W = Ok (c_ext cr) /\ seq_get_at q_alt W = Ok (c_ext ca) /\
    translate tb (c_ext cr) = Ok a_ref /\ translate tb (c_ext ca) = Ok a_alt /\
    m = aa_change a_ref a_alt.
Proof.
  unfold ppe_mut_type. intros H Cr Ca.
  destruct (get_codon_at t q_alt p) as [[ca|]|] eqn:Ea; cbn [bind] in H; try discriminate.
  unfold as_codon in H at 1. destruct (zlen (c_ext ca) =? 3) eqn:La; cbn [bind] in H; [|discriminate].
  destruct (get_codon_at t q_ref p) as [[cr|]|] eqn:Er; cbn [bind] in H; try discriminate.
  unfold as_codon in H. destruct (zlen (c_ext cr) =? 3) eqn:Lr; cbn [bind] in H; [|discriminate].
  unfold get_aa_change in H.
  destruct (translate tb (c_ext cr)) as [a_ref|] eqn:Tr; cbn [bind] in H; [|discriminate].
  destruct (translate tb (c_ext ca)) as [a_alt|] eqn:Ta; cbn [bind] in H; [|discriminate].
  inversion H; subst m; clear H.
  apply get_codon_at_some in Ea. destruct Ea as (e & r & He & Hr & Hin & Hca).
  apply get_codon_at_some in Er. destruct Er as (e' & r' & He' & Hr' & Hin' & Hcr).
  rewrite He in He'. inversion He'; subst e'. rewrite Hr in Hr'. inversion Hr'; subst r'.
  pose proof (exon_get_codon_at_bounds _ _ _ _ Hr) as (Hb1 & Hb2 & Hb3).
  assert (In e (t_exons t)) as Hine.
  { unfold exon_at_pos in He. apply find_some in He. tauto. }
  destruct (Cr e Hine) as (Hp & Hr1 & Hr2). destruct (Ca e Hine) as (_ & Ha1 & Ha2).
  pose proof (ext_is_walk_bases t q_ref e r cr Hcr ltac:(lia) ltac:(lia) ltac:(lia)) as (Wr & _).
  pose proof (ext_is_walk_bases t q_alt e r ca Hca ltac:(lia) ltac:(lia) ltac:(lia)) as (Wa & _).
  pose proof (cds_positions_seq_independent _ _ _ _ _ _ _ Hcr Hca) as (Epp & Esp).
  assert (walk_segment ca r = walk_segment cr r) as EW by (unfold walk_segment; rewrite Epp, Esp; reflexivity).
  rewrite EW in Wa.
  exists e, r, cr, ca, a_ref, a_alt. repeat split; try assumption.
  - pose proof (mapM_length _ _ _ Wr) as HL. unfold zlen in *. rewrite <- HL. lia.
  - unfold walk_segment. apply in_or_app. right. apply in_or_app. left. apply in_positions. exact Hin.
Qed.

(* non-vacuity: exons 10-13 and 20-24 (plus strand), the codon G|CT split by the junction (positions 13, 20, 21); an edit
   T>A at 21 reads GCT -> GCA (both alanine): syn; an edit C>A at 20 reads GCT -> GAT (aspartate): mis *)
Definition ex_tb : table := [mkRow (d "GCT") "A"%string 1; mkRow (d "GCA") "A"%string 2; mkRow (d "GAT") "D"%string 1; mkRow (d "ATG") "M"%string 1; mkRow (d "TAA") STOP 1].
Definition ex_t : transcript := mkTr Plus [mkEx 10 13 0 0; mkEx 20 24 1 2].
Definition ex_ref : seq := mkSeq 8 (d "CCATGGCCCCCCCTTAAC").
Definition ex_alt1 : seq := mkSeq 8 (d "CCATGGCCCCCCCATAAC").
Definition ex_alt2 : seq := mkSeq 8 (d "CCATGGCCCCCCATTAAC").
Example pam_annot_example :
  ppe_mut_types true ex_tb ex_t ex_t ex_ref ex_alt1 [(21, 21)] = Ok [Syn] /\
  ppe_mut_types true ex_tb ex_t ex_t ex_ref ex_alt2 [(20, 20)] = Ok [Mis] /\
  ppe_mut_types false ex_tb ex_t ex_t ex_ref ex_alt2 [(20, 20)] = Ok [] /\
  covers ex_ref ex_t.
Proof.
  split; [vm_compute; reflexivity|]. split; [vm_compute; reflexivity|]. split; [vm_compute; reflexivity|].
  intros x Hx. destruct Hx as [<-|[<-|[]]]; cbn; lia.
Qed.
