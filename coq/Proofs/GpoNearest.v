(* C05: the nearest-position search and the lifting of ranges, against the liftover specification. *)
From VV Require Import Model.Base Model.Pattern Model.Gpo Spec.LiftSpec
  Proofs.BaseLemmas Proofs.TargetonProofs Proofs.LiftSpecProofs Proofs.GpoRefine Proofs.GpoTop.
From Coq Require Import ZifyBool.

(* ---- the mask searches ---- *)
Lemma prev_index_nat_spec m N f : msem m N f -> forall j, Z.of_nat j <= N ->
  match prev_index_nat m j with
  | Some o => 0 <= o < Z.of_nat j /\ f o = false /\ (forall x, o < x < Z.of_nat j -> f x = true)
  | None => forall x, 0 <= x < Z.of_nat j -> f x = true
  end.
Proof.
  intros [Hl Hf] j. induction j as [|j IH]; intros Hj; cbn [prev_index_nat]; [intros x Hx; lia|].
  specialize (Hf (Z.of_nat j) ltac:(lia)). unfold znth in Hf.
  replace (Z.of_nat j <? 0) with false in Hf by lia. rewrite Nat2Z.id in Hf. rewrite Hf.
  destruct (f (Z.of_nat j)) eqn:E.
  - specialize (IH ltac:(lia)). destruct (prev_index_nat m j) as [o|].
    + destruct IH as (Ho & Hfo & Hall). repeat split; try lia; auto.
      intros x Hx. destruct (Z.eq_dec x (Z.of_nat j)) as [->|]; [assumption|]. apply Hall. lia.
    + intros x Hx. destruct (Z.eq_dec x (Z.of_nat j)) as [->|]; [assumption|]. apply IH. lia.
  - repeat split; try lia; auto.
Qed.

Lemma get_prev_index_spec m N f i : msem m N f -> 0 <= i <= N ->
  match get_prev_index m i with
  | Some o => 0 <= o < i /\ f o = false /\ (forall x, o < x < i -> f x = true)
  | None => forall x, 0 <= x < i -> f x = true
  end.
Proof.
  intros Hm Hi. unfold get_prev_index. pose proof (prev_index_nat_spec m N f Hm (Z.to_nat i) ltac:(lia)) as H.
  rewrite Z2Nat.id in H by lia. exact H.
Qed.

Lemma next_index_from_spec (f : Z -> bool) lo : forall m k,
  (forall j, 0 <= j < zlen m -> znth j m = Some (f (k + j))) ->
  match next_index_from k m lo with
  | Some o => lo <= o /\ k <= o < k + zlen m /\ f o = false /\ (forall x, lo <= x -> k <= x < o -> f x = true)
  | None => forall x, lo <= x -> k <= x < k + zlen m -> f x = true
  end.
Proof.
  induction m as [|b m IH]; intros k Hf; cbn [next_index_from].
  - intros x _ Hx. unfold zlen in Hx. cbn in Hx. lia.
  - assert (Hb : b = f k).
    { specialize (Hf 0 ltac:(unfold zlen; cbn [length]; lia)). rewrite znth_zero in Hf. replace (k + 0) with k in Hf by lia. congruence. }
    assert (Hlen : zlen (b :: m) = zlen m + 1) by (unfold zlen; cbn [length]; lia). pose proof (zlen_nonneg m) as Hnn.
    assert (Hf' : forall j, 0 <= j < zlen m -> znth j m = Some (f (k + 1 + j))).
    { intros j Hj. specialize (Hf (j + 1) ltac:(lia)). rewrite znth_cons_succ in Hf by lia. rewrite Hf. f_equal. f_equal. lia. }
    destruct ((lo <=? k) && negb b) eqn:E.
    + apply andb_true_iff in E. destruct E as [E1 E2]. apply negb_true_iff in E2. subst b.
      repeat split; try lia; auto.
    + specialize (IH (k + 1) Hf'). destruct (next_index_from (k + 1) m lo) as [o|].
      * destruct IH as (H1 & H2 & H3 & H4). repeat split; try lia; auto.
        intros x Hlo Hx. destruct (Z.eq_dec x k) as [->|]; [|apply H4; lia].
        apply andb_false_iff in E. destruct E as [E|E]; [lia|]. apply negb_false_iff in E. congruence.
      * intros x Hlo Hx. destruct (Z.eq_dec x k) as [->|]; [|apply IH; lia].
        apply andb_false_iff in E. destruct E as [E|E]; [lia|]. apply negb_false_iff in E. congruence.
Qed.

Lemma get_next_index_spec m N f i : msem m N f -> 0 <= i ->
  match get_next_index m i with
  | Some o => i < o < N /\ f o = false /\ (forall x, i < x < o -> f x = true)
  | None => forall x, i < x < N -> f x = true
  end.
Proof.
  intros [Hl Hf] Hi. unfold get_next_index.
  pose proof (next_index_from_spec f (i + 1) m 0 ltac:(intros j Hj; rewrite Hf by lia; reflexivity)) as H.
  destruct (next_index_from 0 m (i + 1)) as [o|].
  - destruct H as (H1 & H2 & H3 & H4). repeat split; try lia; auto. intros x Hx. apply H4; lia.
  - intros x Hx. apply H; lia.
Qed.

Section Nearest.
  Variables (g : gpo) (r : range) (vs : list vstat).
  Hypothesis Hr : 0 < rs r.
  Hypothesis Hre : rs r <= re r.
  Hypothesis Hwf : wf (rs r) (re r) vs.
  Hypothesis Hg : gpo_for g r vs.

  (* a surviving base ignores the search mode *)
  Theorem ref_to_alt_surviving p nearest : rs r <= p <= re r -> deleted vs p = false ->
    ref_to_alt_position g p nearest = Ok (r2a vs p).
  Proof.
    intros Hp Hd. pose proof Hg as [Hrange _ Hpos _ Hdel _ _].
    unfold ref_to_alt_position, g_start, g_ref_length, ref_offset_to_alt_pos. rewrite Hrange, Hpos.
    replace (p - rs r <? 0) with false by lia. replace (p - rs r <? rlen r) with true by (unfold rlen; lia).
    rewrite (msem_mget _ _ _ (p - rs r) Hdel) by (unfold rlen; lia). cbn [bind].
    replace (rs r + (p - rs r)) with p by lia. unfold r2a. rewrite Hd. cbn [negb].
    now rewrite (pos_offset_is_shift _ _ _ p Hwf).
  Qed.

  Lemma lift_of_offset o : 0 <= o < rlen r -> deleted vs (rs r + o) = false ->
    ref_offset_to_alt_pos g (g_start g + o) = rs r + o + shift vs (rs r + o).
  Proof.
    intros Ho Hd. pose proof Hg as [Hrange _ Hpos _ _ _ _]. unfold ref_offset_to_alt_pos, g_start. rewrite Hrange, Hpos.
    now rewrite (pos_offset_is_shift _ _ _ (rs r + o) Hwf).
  Qed.

  (* a deleted base, searching backwards: the image of the nearest surviving base before it inside the context, if any *)
  Theorem ref_to_alt_nearest_before p : rs r <= p <= re r -> deleted vs p = true ->
    (forall p', nearest_before vs (rs r) p p' -> ref_to_alt_position g p (Some Before) = Ok (r2a vs p')) /\
    (none_before vs (rs r) p -> ref_to_alt_position g p (Some Before) = Ok None) /\
    ((exists p', nearest_before vs (rs r) p p') \/ none_before vs (rs r) p).
  Proof.
    intros Hp Hd. pose proof Hg as [Hrange _ _ _ Hdel _ _].
    assert (Hunf : ref_to_alt_position g p (Some Before) =
                   match get_prev_index (g_del g) (p - rs r) with
                   | None => Ok None
                   | Some o => Ok (Some (ref_offset_to_alt_pos g (g_start g + o)))
                   end).
    { unfold ref_to_alt_position, g_start, g_ref_length. rewrite Hrange.
      replace (p - rs r <? 0) with false by lia. replace (p - rs r <? rlen r) with true by (unfold rlen; lia).
      rewrite (msem_mget _ _ _ (p - rs r) Hdel) by (unfold rlen; lia). cbn [bind].
      replace (rs r + (p - rs r)) with p by lia. rewrite Hd. reflexivity. }
    pose proof (get_prev_index_spec _ _ _ (p - rs r) Hdel ltac:(unfold rlen; lia)) as Hs.
    destruct (get_prev_index (g_del g) (p - rs r)) as [o|].
    - destruct Hs as (Ho & Hfo & Hall).
      assert (Hnb : nearest_before vs (rs r) p (rs r + o)).
      { repeat split; try lia; auto. intros x Hx. replace x with (rs r + (x - rs r)) by lia. apply Hall. lia. }
      split; [|split].
      + intros p' (Hp' & Hd' & Hall'). rewrite Hunf. f_equal.
        assert (p' = rs r + o) as ->.
        { destruct (Z.lt_trichotomy p' (rs r + o)) as [Hlt|[Heq|Hgt]]; [|assumption|].
          - rewrite Hall' in Hfo by lia. discriminate.
          - specialize (Hall (p' - rs r) ltac:(lia)). replace (rs r + (p' - rs r)) with p' in Hall by lia. congruence. }
        rewrite lift_of_offset by (unfold rlen; auto; lia). unfold r2a. now rewrite Hfo.
      + intros Hnone. specialize (Hnone (rs r + o) ltac:(lia)). congruence.
      + left. eauto.
    - split; [|split].
      + intros p' (Hp' & Hd' & _). specialize (Hs (p' - rs r) ltac:(lia)). replace (rs r + (p' - rs r)) with p' in Hs by lia. congruence.
      + intros _. exact Hunf.
      + right. intros x Hx. replace x with (rs r + (x - rs r)) by lia. apply Hs. lia.
  Qed.

  (* ... and searching forwards *)
  Theorem ref_to_alt_nearest_after p : rs r <= p <= re r -> deleted vs p = true ->
    (forall p', nearest_after vs (re r) p p' -> ref_to_alt_position g p (Some After) = Ok (r2a vs p')) /\
    (none_after vs (re r) p -> ref_to_alt_position g p (Some After) = Ok None) /\
    ((exists p', nearest_after vs (re r) p p') \/ none_after vs (re r) p).
  Proof.
    intros Hp Hd. pose proof Hg as [Hrange _ _ _ Hdel _ _].
    assert (Hunf : ref_to_alt_position g p (Some After) =
                   match get_next_index (g_del g) (p - rs r) with
                   | None => Ok None
                   | Some o => Ok (Some (ref_offset_to_alt_pos g (g_start g + o)))
                   end).
    { unfold ref_to_alt_position, g_start, g_ref_length. rewrite Hrange.
      replace (p - rs r <? 0) with false by lia. replace (p - rs r <? rlen r) with true by (unfold rlen; lia).
      rewrite (msem_mget _ _ _ (p - rs r) Hdel) by (unfold rlen; lia). cbn [bind].
      replace (rs r + (p - rs r)) with p by lia. rewrite Hd. reflexivity. }
    pose proof (get_next_index_spec _ _ _ (p - rs r) Hdel ltac:(lia)) as Hs.
    destruct (get_next_index (g_del g) (p - rs r)) as [o|].
    - destruct Hs as (Ho & Hfo & Hall).
      assert (Hna : nearest_after vs (re r) p (rs r + o)).
      { unfold rlen in Ho. repeat split; try lia; auto. intros x Hx. replace x with (rs r + (x - rs r)) by lia. apply Hall. lia. }
      split; [|split].
      + intros p' (Hp' & Hd' & Hall'). rewrite Hunf. f_equal.
        assert (p' = rs r + o) as ->.
        { destruct (Z.lt_trichotomy p' (rs r + o)) as [Hlt|[Heq|Hgt]]; [|assumption|].
          - specialize (Hall (p' - rs r) ltac:(lia)). replace (rs r + (p' - rs r)) with p' in Hall by lia. congruence.
          - rewrite Hall' in Hfo by (unfold rlen in Ho; lia). discriminate. }
        rewrite lift_of_offset by (auto; lia). unfold r2a. now rewrite Hfo.
      + intros Hnone. specialize (Hnone (rs r + o) ltac:(unfold rlen in Ho; lia)). congruence.
      + left. eauto.
    - split; [|split].
      + intros p' (Hp' & Hd' & _). specialize (Hs (p' - rs r) ltac:(unfold rlen; lia)). replace (rs r + (p' - rs r)) with p' in Hs by lia. congruence.
      + intros _. exact Hunf.
      + right. intros x Hx. replace x with (rs r + (x - rs r)) by lia. apply Hs. unfold rlen. lia.
  Qed.

  (* ---- ranges: lifted to the span of their surviving bases ---- *)
  Lemma lifted_pos_positive p : rs r <= p -> deleted vs p = false -> 0 < p + shift vs p.
  Proof. intros Hp Hd. pose proof (lower_bound _ _ _ _ Hwf Hp Hd). lia. Qed.

  Lemma lifted_le a b : rs r <= a -> a <= b -> deleted vs a = false -> deleted vs b = false -> a + shift vs a <= b + shift vs b.
  Proof.
    intros Ha Hab Hda Hdb. destruct (Z.eq_dec a b) as [->|]; [lia|].
    pose proof (r2a_monotone_gen _ _ _ a b Hwf Ha ltac:(lia) Hda Hdb). lia.
  Qed.

  Theorem ref_to_alt_range_shrink x : rs r <= rs x -> rs x <= re x -> re x <= re r ->
    (forall a b, surviving_span vs x a b ->
       ref_to_alt_range g x true = Ok (Some (mkRange (a + shift vs a) (b + shift vs b)))) /\
    (all_deleted vs x -> ref_to_alt_range g x true = Ok None) /\
    ((exists a b, surviving_span vs x a b) \/ all_deleted vs x).
  Proof.
    intros H1 H2 H3.
    (* start of the range *)
    assert (Hstart : (exists a, rs x <= a <= re r /\ deleted vs a = false /\ (forall y, rs x <= y < a -> deleted vs y = true) /\
                                ref_to_alt_position g (rs x) (Some After) = Ok (Some (a + shift vs a))) \/
                     ((forall y, rs x <= y <= re r -> deleted vs y = true) /\ ref_to_alt_position g (rs x) (Some After) = Ok None)).
    { destruct (deleted vs (rs x)) eqn:Ed.
      - destruct (ref_to_alt_nearest_after (rs x) ltac:(lia) Ed) as (Hsome & Hnone & [(p' & Hna)|Hno]).
        + left. exists p'. pose proof Hna as (Hp' & Hd' & Hall). repeat split; try lia; auto.
          * intros y Hy. destruct (Z.eq_dec y (rs x)) as [->|]; [assumption|]. apply Hall. lia.
          * rewrite (Hsome _ Hna). unfold r2a. now rewrite Hd'.
        + right. split; [|now apply Hnone]. intros y Hy. destruct (Z.eq_dec y (rs x)) as [->|]; [assumption|]. apply Hno. lia.
      - left. exists (rs x). repeat split; try lia; auto.
        rewrite ref_to_alt_surviving by (auto; lia). unfold r2a. now rewrite Ed. }
    assert (Hend : (exists b, rs r <= b <= re x /\ deleted vs b = false /\ (forall y, b < y <= re x -> deleted vs y = true) /\
                              ref_to_alt_position g (re x) (Some Before) = Ok (Some (b + shift vs b))) \/
                   ((forall y, rs r <= y <= re x -> deleted vs y = true) /\ ref_to_alt_position g (re x) (Some Before) = Ok None)).
    { destruct (deleted vs (re x)) eqn:Ed.
      - destruct (ref_to_alt_nearest_before (re x) ltac:(lia) Ed) as (Hsome & Hnone & [(p' & Hnb)|Hno]).
        + left. exists p'. pose proof Hnb as (Hp' & Hd' & Hall). repeat split; try lia; auto.
          * intros y Hy. destruct (Z.eq_dec y (re x)) as [->|]; [assumption|]. apply Hall. lia.
          * rewrite (Hsome _ Hnb). unfold r2a. now rewrite Hd'.
        + right. split; [|now apply Hnone]. intros y Hy. destruct (Z.eq_dec y (re x)) as [->|]; [assumption|]. apply Hno. lia.
      - left. exists (re x). repeat split; try lia; auto.
        rewrite ref_to_alt_surviving by (auto; lia). unfold r2a. now rewrite Ed. }
    unfold ref_to_alt_range.
    destruct Hstart as [(a & Ha & Hda & Halla & ->)|[Halls ->]]; cbn [bind].
    2:{ split; [|split].
        - intros a b (Hab & Hb & Hda & _). rewrite Halls in Hda by lia. discriminate.
        - reflexivity.
        - right. intros y Hy. apply Halls. lia. }
    destruct Hend as [(b & Hb & Hdb & Hallb & ->)|[Halle ->]]; cbn [bind].
    2:{ split; [|split].
        - intros a' b' (Hab & Hb' & _ & Hdb' & _). rewrite Halle in Hdb' by lia. discriminate.
        - reflexivity.
        - right. intros y Hy. apply Halle. lia. }
    destruct (Z_le_gt_dec a b) as [Hab|Hab].
    - (* a surviving base inside x *)
      assert (Hspan : surviving_span vs x a b).
      { assert (a <= re x). { destruct (Z_le_gt_dec a (re x)); [assumption|]. rewrite Halla in Hdb by lia. discriminate. }
        assert (rs x <= b). { destruct (Z_le_gt_dec (rs x) b); [assumption|]. rewrite Hallb in Hda by lia. discriminate. }
        repeat split; auto; lia. }
      pose proof (lifted_le a b ltac:(lia) Hab Hda Hdb) as Hle. pose proof (lifted_pos_positive a ltac:(lia) Hda) as Hpos.
      replace (b + shift vs b <? a + shift vs a) with false by lia.
      unfold mk_range. replace ((0 <=? a + shift vs a) && (a + shift vs a <=? b + shift vs b)) with true by lia. cbn [bind].
      split; [|split].
      + intros a' b' (Hab' & Hb' & Hda' & Hdb' & Halla' & Hallb').
        assert (a' = a) as ->.
        { destruct (Z.lt_trichotomy a' a) as [Hlt|[Heq|Hgt]]; [|assumption|].
          - rewrite Halla in Hda' by lia. discriminate.
          - destruct Hspan as (? & ? & ? & ? & ? & ?). rewrite Halla' in Hda by lia. discriminate. }
        assert (b' = b) as ->.
        { destruct (Z.lt_trichotomy b' b) as [Hlt|[Heq|Hgt]]; [|assumption|].
          - destruct Hspan as (? & ? & ? & ? & ? & ?). rewrite Hallb' in Hdb by lia. discriminate.
          - rewrite Hallb in Hdb' by lia. discriminate. }
        reflexivity.
      + intros Hall. destruct Hspan as (? & ? & ? & ? & ? & ?). rewrite Hall in Hda by lia. discriminate.
      + left. eauto.
    - (* the nearest surviving bases lie outside x, in the wrong order: nothing survives *)
      assert (Hall : all_deleted vs x).
      { intros y Hy. destruct (Z_lt_le_dec y a); [apply Halla; lia|]. apply Hallb. lia. }
      pose proof (r2a_monotone_gen _ _ _ b a Hwf ltac:(lia) ltac:(lia) Hdb Hda) as Hlt.
      replace (b + shift vs b <? a + shift vs a) with true by lia.
      split; [|split].
      + intros a' b' (Hab' & Hb' & Hda' & _). rewrite Hall in Hda' by lia. discriminate.
      + reflexivity.
      + right. assumption.
  Qed.

  (* without shrinking: both ends must survive *)
  Theorem ref_to_alt_range_strict x : rs r <= rs x -> rs x <= re x -> re x <= re r ->
    ref_to_alt_range g x false =
      match r2a vs (rs x), r2a vs (re x) with
      | None, _ => Ok None
      | Some _, None => Err RuntimeError
      | Some s, Some e => Ok (Some (mkRange s e))
      end.
  Proof.
    intros H1 H2 H3. unfold ref_to_alt_range.
    rewrite (ref_to_alt_refines g r vs Hwf Hg (rs x)) by lia. cbn [bind].
    rewrite (ref_to_alt_refines g r vs Hwf Hg (re x)) by lia. unfold r2a.
    destruct (deleted vs (rs x)) eqn:Ea; [reflexivity|]. cbn [bind].
    destruct (deleted vs (re x)) eqn:Eb; [reflexivity|].
    pose proof (lifted_le (rs x) (re x) H1 H2 Ea Eb). pose proof (lifted_pos_positive (rs x) H1 Ea).
    replace (re x + shift vs (re x) <? rs x + shift vs (rs x)) with false by lia.
    unfold mk_range. replace ((0 <=? rs x + shift vs (rs x)) && (rs x + shift vs (rs x) <=? re x + shift vs (re x))) with true by lia.
    reflexivity.
  Qed.
End Nearest.
