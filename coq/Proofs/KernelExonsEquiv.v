(* UIntRangeSortedList.get_before / get_after as translated from uint_range.py (Generated/KernelsExons.v: while loops on fuel) are the model's
   (Model/Transcript.v: recursion over the neighbouring exons), for transcripts whose exons are non-empty ranges. *)
From VV Require Import Model.Base Model.Pattern Model.Transcript Model.PyLoop Proofs.BaseLemmas Generated.KernelsExons.

Definition valid_exons (l : list exon) : Prop := Forall (fun e => 1 <= x_len e) l.

Lemma firstn_succ_snoc {X} (l : list X) : forall m x, nth_error l m = Some x -> firstn (S m) l = firstn m l ++ [x].
Proof.
  induction l as [|y l IH]; intros [|m] x H; cbn [nth_error] in H; try discriminate.
  - injection H as <-. reflexivity.
  - change (firstn (S (S m)) (y :: l)) with (y :: firstn (S m) l). change (firstn (S m) (y :: l)) with (y :: firstn m l).
    rewrite (IH m x H). reflexivity.
Qed.

Lemma firstn_succ_rev {X} (l : list X) m x : nth_error l m = Some x -> rev (firstn (S m) l) = x :: rev (firstn m l).
Proof. intros H. rewrite (firstn_succ_snoc l m x H), rev_app_distr. reflexivity. Qed.

Lemma py_index_nat {X} (a : list X) (m : nat) x : nth_error a m = Some x -> py_index a (Z.of_nat m) = Ok x.
Proof.
  intros H. unfold py_index, py_norm, znth. pose proof (Nat2Z.is_nonneg m) as Hm. rewrite !(proj2 (Z.ltb_ge _ _) Hm).
  rewrite Nat2Z.id, H. reflexivity.
Qed.

Lemma py_index_at {X} (pre suf : list X) x : py_index (pre ++ x :: suf) (zlen pre) = Ok x.
Proof.
  unfold zlen. apply py_index_nat. rewrite nth_error_app2 by apply Nat.le_refl. now rewrite Nat.sub_diag.
Qed.

Section Before.
Variable exons : list exon.
Hypothesis Hvalid : valid_exons exons.
Variable T : Type.
Variable K : list Z * Z * Z -> result T.
Hypothesis Kirr : forall d n j n' j', K (d, n, j) = K (d, n', j').

Definition gb_step (acc : list Z * Z * Z) : result ((list Z * Z * Z) + (list Z * Z * Z)) :=
  let '(distal, n, j) := acc in
  if 0 <? n then
    if 0 <=? j then do p <- py_index exons j;
                    let k := Z.min n (x_len p) in Ok (inl (py_range (x_end p - k + 1) (x_end p + 1) 1 ++ distal, n - k, j - 1))
    else Err AssertionError
  else Ok (inr (distal, n, j)).

Lemma nth_valid m e : nth_error exons m = Some e -> 1 <= x_len e.
Proof. intros H. apply nth_error_In in H. unfold valid_exons in Hvalid. rewrite Forall_forall in Hvalid. now apply Hvalid. Qed.

Lemma gb_loop : forall (m : nat) distal n (fuel : nat), (m <= length exons)%nat -> (Z.to_nat n < fuel)%nat ->
  bind (while_m fuel gb_step (distal, n, Z.of_nat m - 1)) K
  = bind (take_before (rev (firstn m exons)) n) (fun d => K (d ++ distal, 0, 0)).
Proof.
  induction m as [|m IH]; intros distal n fuel Hm Hf; (destruct fuel as [|f]; [lia|]); cbn [while_m].
  - cbn [firstn rev take_before]. unfold gb_step. cbn [Z.of_nat Z.sub Z.opp Z.add].
    destruct (Z.ltb_spec 0 n) as [Hn|Hn].
    + rewrite (proj2 (Z.leb_gt n 0)) by lia. reflexivity.
    + rewrite (proj2 (Z.leb_le n 0)) by lia. cbn [bind app]. apply Kirr.
  - replace (Z.of_nat (S m) - 1) with (Z.of_nat m) by lia.
    destruct (nth_error exons m) as [e|] eqn:En.
    2:{ apply nth_error_None in En. lia. }
    rewrite (firstn_succ_rev exons m e En). cbn [take_before]. unfold gb_step at 1.
    destruct (Z.ltb_spec 0 n) as [Hn|Hn].
    + rewrite (proj2 (Z.leb_gt n 0)) by lia. rewrite (proj2 (Z.leb_le _ _) (Nat2Z.is_nonneg m)).
      rewrite (py_index_nat exons m e En). cbn [bind].
      pose proof (nth_valid m e En) as Hv.
      replace (Z.of_nat m - 1) with (Z.of_nat m - 1) by reflexivity.
      rewrite IH by lia.
      destruct (take_before (rev (firstn m exons)) (n - Z.min n (x_len e))) as [d|er]; cbn [bind]; [|reflexivity].
      unfold zrange. now rewrite <- app_assoc.
    + rewrite (proj2 (Z.leb_le n 0)) by lia. cbn [bind app]. apply Kirr.
Qed.
End Before.

Theorem k_exons_get_before_eq exons i r before : valid_exons exons ->
  k_exons_get_before exons i r before = get_before exons i r before.
Proof.
  intros Hv. unfold k_exons_get_before, get_before.
  destruct (Z.ltb_spec i 0) as [Hi|Hi]; cbn [orb].
  { rewrite (proj2 (Z.leb_gt 0 i)) by lia. reflexivity. }
  rewrite (proj2 (Z.leb_le 0 i)) by lia. cbn [andb].
  destruct (Z.ltb_spec before 0) as [Hb|Hb].
  { rewrite (proj2 (Z.leb_gt 0 before)) by lia. reflexivity. }
  rewrite (proj2 (Z.leb_le 0 before)) by lia.
  destruct (before =? 0); [reflexivity|].
  unfold py_index, py_norm. rewrite (proj2 (Z.ltb_ge i 0)) by lia.
  destruct (znth i exons) as [e|] eqn:Ee; cbn [bind]; [|reflexivity].
  destruct (before <=? rs r - x_start e); [reflexivity|].
  destruct (Z.ltb_spec 0 i) as [Hi0|Hi0]; cbn [negb]; [|reflexivity].
  apply znth_Some_lt in Ee.
  match goal with |- bind (while_m ?fu ?f ?init) ?k = _ => change f with (gb_step exons); set (KK := k) end.
  replace (i - 1) with (Z.of_nat (Z.to_nat i) - 1) by lia.
  rewrite (gb_loop exons Hv _ KK).
  - unfold zfirstn. destruct (take_before (rev (firstn (Z.to_nat i) exons)) (before - (rs r - x_start e))) as [d|er]; cbn [bind]; [|reflexivity].
    unfold KK. rewrite app_nil_r. reflexivity.
  - intros d n j n' j'. reflexivity.
  - unfold zlen in Ee. lia.
  - lia.
Qed.

Section After.
Variable exons : list exon.
Hypothesis Hvalid : valid_exons exons.
Variable T : Type.
Variable K : list Z * Z * Z -> result T.
Hypothesis Kirr : forall d n j n' j', K (d, n, j) = K (d, n', j').

Definition ga_step (acc : list Z * Z * Z) : result ((list Z * Z * Z) + (list Z * Z * Z)) :=
  let '(distal, n, j) := acc in
  if 0 <? n then
    if j <? zlen exons then do p <- py_index exons j;
                            let k := Z.min n (x_len p) in Ok (inl (distal ++ py_range (x_start p) (x_start p + k) 1, n - k, j + 1))
    else Err AssertionError
  else Ok (inr (distal, n, j)).

Lemma ga_loop : forall nexts pre distal n (fuel : nat), exons = pre ++ nexts -> (Z.to_nat n < fuel)%nat ->
  bind (while_m fuel ga_step (distal, n, zlen pre)) K
  = bind (take_after nexts n) (fun d => K (distal ++ d, 0, 0)).
Proof.
  induction nexts as [|p ps IH]; intros pre distal n fuel He Hf; (destruct fuel as [|f]; [lia|]); cbn [while_m take_after].
  - unfold ga_step. rewrite He, app_nil_r. rewrite Z.ltb_irrefl.
    destruct (Z.ltb_spec 0 n) as [Hn|Hn].
    + rewrite (proj2 (Z.leb_gt n 0)) by lia. reflexivity.
    + rewrite (proj2 (Z.leb_le n 0)) by lia. cbn [bind]. rewrite app_nil_r. apply Kirr.
  - unfold ga_step at 1.
    destruct (Z.ltb_spec 0 n) as [Hn|Hn].
    + rewrite (proj2 (Z.leb_gt n 0)) by lia.
      assert (Hl : zlen pre <? zlen exons = true).
      { apply Z.ltb_lt. rewrite He, zlen_app, zlen_cons. pose proof (zlen_nonneg ps). lia. }
      rewrite Hl. rewrite He at 1. rewrite py_index_at. cbn [bind].
      assert (Hv : 1 <= x_len p).
      { unfold valid_exons in Hvalid. rewrite Forall_forall in Hvalid. apply Hvalid. rewrite He. apply in_or_app. right. now left. }
      replace (zlen pre + 1) with (zlen (pre ++ [p])) by (rewrite zlen_app; reflexivity).
      rewrite (IH (pre ++ [p])); [|rewrite <- app_assoc; exact He|lia].
      destruct (take_after ps (n - Z.min n (x_len p))) as [d|er]; cbn [bind]; [|reflexivity].
      unfold zrange. now rewrite <- app_assoc.
    + rewrite (proj2 (Z.leb_le n 0)) by lia. cbn [bind]. rewrite app_nil_r. apply Kirr.
Qed.
End After.

Lemma split_at {X} (l : list X) (i : nat) x : nth_error l i = Some x -> l = (firstn i l ++ [x]) ++ skipn (S i) l /\ length (firstn i l ++ [x]) = S i.
Proof.
  intros H. rewrite <- (firstn_succ_snoc l i x H). split; [symmetry; apply firstn_skipn|].
  rewrite firstn_length. assert (i < length l)%nat by (apply nth_error_Some; congruence). lia.
Qed.

Theorem k_exons_get_after_eq exons i r after : valid_exons exons ->
  k_exons_get_after exons i r after = get_after exons i r after.
Proof.
  intros Hv. unfold k_exons_get_after, get_after.
  destruct (Z.ltb_spec i 0) as [Hi|Hi]; cbn [orb].
  { rewrite (proj2 (Z.leb_gt 0 i)) by lia. reflexivity. }
  rewrite (proj2 (Z.leb_le 0 i)) by lia. cbn [andb].
  destruct (Z.ltb_spec after 0) as [Hb|Hb].
  { rewrite (proj2 (Z.leb_gt 0 after)) by lia. reflexivity. }
  rewrite (proj2 (Z.leb_le 0 after)) by lia.
  destruct (after =? 0); [reflexivity|].
  unfold py_index, py_norm. rewrite (proj2 (Z.ltb_ge i 0)) by lia.
  destruct (znth i exons) as [e|] eqn:Ee; cbn [bind]; [|reflexivity].
  destruct (after <=? x_end e - re r); [reflexivity|].
  destruct (i <? zlen exons - 1); cbn [negb]; [|reflexivity].
  match goal with |- bind (while_m ?fu ?f ?init) ?k = _ => change f with (ga_step exons); set (KK := k) end.
  unfold znth in Ee. rewrite (proj2 (Z.ltb_ge i 0)) in Ee by lia.
  destruct (split_at exons (Z.to_nat i) e Ee) as [Hsplit Hlen].
  replace (i + 1) with (zlen (firstn (Z.to_nat i) exons ++ [e])) by (unfold zlen; rewrite Hlen; lia).
  assert (HK : forall d n j n' j', KK (d, n, j) = KK (d, n', j')) by (intros; reflexivity).
  rewrite (ga_loop exons Hv _ KK HK (skipn (S (Z.to_nat i)) exons) (firstn (Z.to_nat i) exons ++ [e])); [|exact Hsplit|lia].
  unfold zskipn, zlen. rewrite Hlen, Nat2Z.id.
  destruct (take_after (skipn (S (Z.to_nat i)) exons) (after - (x_end e - re r))) as [d|er]; cbn [bind]; [|reflexivity].
  unfold KK. cbn [app]. reflexivity.
Qed.
