(* C13/C06: a wider context changes the background coordinates by a constant and nothing that is reported. *)
From VV Require Import Model.Base Model.Pattern Model.Gpo Spec.LiftSpec Proofs.BaseLemmas Proofs.LiftSpecProofs.
From Coq Require Import ZifyBool.

Definition sum_delta (vs : list vstat) : Z := fold_right (fun v a => delta v + a) 0 vs.
(* every variant of `pre` ends before position p *)
Definition all_before (pre : list vstat) (p : Z) : Prop := forall v, In v pre -> next_free v <= p.
Definition all_after (post : list vstat) (p : Z) : Prop := forall v, In v post -> p < vpos v.

Lemma shift_app a b p : shift (a ++ b) p = shift a p + shift b p.
Proof. induction a as [|v a IH]; cbn [app shift]; [reflexivity|]. rewrite IH. ring. Qed.
Lemma deleted_app a b p : deleted (a ++ b) p = deleted a p || deleted b p.
Proof. unfold deleted. apply existsb_app. Qed.

Lemma shift_all_before pre p : all_before pre p -> shift pre p = sum_delta pre.
Proof.
  induction pre as [|v pre IH]; intros H; cbn [shift sum_delta fold_right]; [reflexivity|].
  assert (Hv : next_free v <= p) by (apply H; now left). unfold next_free in Hv.
  replace (vpos v <=? p) with true by lia. fold (sum_delta pre). rewrite IH; [reflexivity|]. intros w Hw. apply H. now right.
Qed.
Lemma deleted_all_before pre p : all_before pre p -> deleted pre p = false.
Proof.
  induction pre as [|v pre IH]; intros H; [reflexivity|]. unfold deleted in *. cbn [existsb].
  assert (Hv : next_free v <= p) by (apply H; now left). unfold next_free in Hv.
  rewrite IH by (intros w Hw; apply H; now right). rewrite orb_false_r.
  unfold covers_del. destruct (is_del v) eqn:E; [|reflexivity]. cbn [andb]. unfold is_del in E. lia.
Qed.
Lemma shift_all_after post p : all_after post p -> shift post p = 0.
Proof.
  induction post as [|v post IH]; intros H; cbn [shift]; [reflexivity|].
  assert (Hv : p < vpos v) by (apply H; now left). replace (vpos v <=? p) with false by lia.
  rewrite IH; [reflexivity|]. intros w Hw. apply H. now right.
Qed.
Lemma deleted_all_after post p : all_after post p -> deleted post p = false.
Proof.
  induction post as [|v post IH]; intros H; [reflexivity|]. unfold deleted in *. cbn [existsb].
  assert (Hv : p < vpos v) by (apply H; now left).
  rewrite IH by (intros w Hw; apply H; now right). rewrite orb_false_r. unfold covers_del. lia.
Qed.

(* a wider context that brings in more variants upstream of p shifts its background coordinate by their net length, and
   variants downstream of p change nothing *)
Theorem r2a_context_extension pre vs post p :
  all_before pre p -> all_after post p ->
  r2a (pre ++ vs ++ post) p = option_map (fun q => q + sum_delta pre) (r2a vs p).
Proof.
  intros Hb Ha. unfold r2a. rewrite !deleted_app, !shift_app.
  rewrite (deleted_all_before _ _ Hb), (deleted_all_after _ _ Ha), (shift_all_before _ _ Hb), (shift_all_after _ _ Ha).
  rewrite orb_false_r. cbn [orb]. destruct (deleted vs p); cbn [option_map]; [reflexivity|]. f_equal. ring.
Qed.

(* ... so whatever is reported - the reference position of a background position - does not depend on the context: in both
   contexts the image of p maps back to p *)
Theorem reported_position_context_free lo hi lo' hi' pre vs post p q q' :
  wf lo hi vs -> wf lo' hi' (pre ++ vs ++ post) -> lo <= p -> lo' <= p ->
  r2a vs p = Some q -> r2a (pre ++ vs ++ post) p = Some q' ->
  a2r vs q = Some p /\ a2r (pre ++ vs ++ post) q' = Some p.
Proof.
  intros Hw Hw' Hl Hl' H1 H2. split; [eapply r2a_a2r; eauto|eapply r2a_a2r; eauto].
Qed.
