From VV Require Import Model.Base Model.Pattern Model.Gpo Model.Background Spec.LiftSpec
  Proofs.BaseLemmas Proofs.LiftSpecProofs Proofs.GpoRefine Proofs.GpoTop.

(* variants inside masked BED intervals are not applied; all others are, in the same order *)
Theorem mask_exact mask vs v : In v (apply_mask mask vs) <-> In v vs /\ masked mask v = false.
Proof. unfold apply_mask. rewrite filter_In, negb_true_iff. tauto. Qed.

Theorem bed_range_one_based s e r : bed_range s e = Ok r -> rs r = s + 1 /\ re r = e.
Proof.
  unfold bed_range, mk_range. destruct ((0 <=? s + 1) && (s + 1 <=? e)); [|discriminate].
  intros H; injection H as <-. auto.
Qed.

(* background_variants names exactly the variants overlapping the targeton range *)
Theorem overlapping_exact r vs v :
  In v (select_overlapping r vs) <-> In v vs /\ (in_range (v_pos v) r = true \/ in_range (var_ref_end v) r = true).
Proof. unfold select_overlapping, overlaps_range. rewrite filter_In, orb_true_iff. tauto. Qed.

(* every reported coordinate is a reference coordinate: the reported position of a mutation generated at ALT position q
   is the REF base that the liftover maps to q *)
Theorem reported_position_is_ref g r vs q p :
  wf (rs r) (re r) vs -> gpo_for g r vs -> rs r <= q < rs r + g_alt_length g ->
  reported_position (Some g) q = Ok (Some p) -> r2a vs p = Some q /\ rs r <= p.
Proof.
  intros Hwf Hg Hq. unfold reported_position. rewrite (alt_to_ref_refines g r vs Hwf Hg q Hq).
  intros H. injection H as H. apply (a2r_r2a _ _ _ _ _ Hwf); [lia|assumption].
Qed.
