(* C10 under background variants (rows not widened to a PAM codon): the printed term carries the REF-coordinate offset and, moved to the
   offset of the mutation in the background sequence, turns the PAM-protected sequence into the row's oligonucleotide *)
From VV Require Import Model.Base Model.Pattern Model.Seq Model.Vcf Model.Mave Model.Gpo Model.ToCsv Spec.MaveSpec Proofs.BaseLemmas Proofs.TargetonProofs Proofs.ApplyProofs Proofs.VcfProofs Proofs.MaveProofs Proofs.RowProofs Proofs.MaveRowProofs.
From Coq Require Import Lia ZifyBool.

Definition mave_pos (m : mave) : Z := match m with MSub p _ _ | MDel p _ | MIns p _ | MDelins p _ _ => p end.
Definition mave_at (m : mave) (q : Z) : mave :=
  match m with MSub _ a b => MSub q a b | MDel _ n => MDel q n | MIns _ s => MIns q s | MDelins _ n s => MDelins q n s end.

Lemma mave_of_at t p q ref alt m : mave_of t p ref alt = Ok m -> 0 <= q -> mave_of t q ref alt = Ok (mave_at m q) /\ mave_pos m = p.
Proof.
  unfold mave_of. intros H Hq. destruct (p <? 0); [discriminate|]. replace (q <? 0) with false by lia.
  destruct t; try discriminate H.
  - destruct alt; [discriminate H|]. inversion H; subst m. split; reflexivity.
  - destruct ref as [|a ref]; [discriminate H|]. destruct alt as [|b alt]; inversion H; subst m; split; reflexivity.
  - destruct ref as [|a [|a2 ref]]; destruct alt as [|b [|b2 alt]]; try discriminate H; inversion H; subst m; split; reflexivity.
Qed.

Lemma mave_valid_at m q : mave_valid (mave_at m q) = true -> 1 <= mave_pos m -> mave_valid m = true.
Proof. destruct m; cbn [mave_at mave_valid mave_pos]; intros; lia. Qed.

Theorem row_mave_nt_decodes_bg c mr o xa (T : dna) :
  row_out c mr = Ok o ->
  p_seq (cx_alt c) = mkSeq xa T ->
  mr_start_exon mr = None -> mr_end_exon mr = None ->
  mr_end mr = get_end (mr_alt_pos mr) (zlen (mr_ref mr)) ->
  s_start (p_seq (cx_seq c)) <= mr_ref_pos mr ->
  let a := mr_alt_pos mr - xa in
  0 <= a -> a + zlen (mr_ref mr) <= zlen T ->
  mr_oligo mr = zfirstn a T ++ mr_alt mr ++ zskipn (a + zlen (mr_ref mr)) T ->
  exists m, o_mave_nt o = print_mave m /\ mave_valid m = true /\
            mave_pos m = mr_ref_pos mr - s_start (p_seq (cx_seq c)) + 1 /\
            mave_apply (mave_at m (a + 1)) T = Some (mr_oligo mr).
Proof.
  intros Hrow Halt Hse Hee Hend Hrp a Ha Hfit Holigo.
  unfold row_out in Hrow. rewrite Hse, Hee in Hrow. cbn [is_some orb] in Hrow.
  set (x0 := s_start (p_seq (cx_seq c))) in *.
  destruct (mk_variant (mr_ref_pos mr) (mr_ref mr) (mr_alt mr)) as [v0|] eqn:Ev0; [|discriminate]. cbn [bind] in Hrow.
  destruct (var_type (mr_ref mr) (mr_alt mr)) as [vt|] eqn:Evt; [|discriminate]. cbn [bind] in Hrow.
  match type of Hrow with (do refs <- ?r; _) = _ => destruct r as [[ref_ref pam_ref]|] eqn:Erefs; [|discriminate] end.
  cbn [bind fst snd] in Hrow.
  destruct (get_mave_nt (mr_ref_pos mr) x0 vt ref_ref (mr_alt mr)) as [mv_ref|] eqn:Emr; [|discriminate]. cbn [bind] in Hrow.
  destruct (get_mave_nt (mr_ref_pos mr) x0 vt pam_ref (mr_alt mr)) as [mv0|] eqn:Em0; [|discriminate]. cbn [bind] in Hrow.
  destruct (mk_variant (mr_ref_pos mr) pam_ref (mr_alt mr)) as [nv|] eqn:Env; [|discriminate]. cbn [bind] in Hrow.
  match type of Hrow with (do nts <- ?r; _) = _ => destruct r as [[[[[n1 n2] n3] n4] n5]|] eqn:Ents; [|discriminate] end.
  cbn [bind] in Hrow.
  match type of Hrow with (do vcfs <- ?r; _) = _ => destruct r as [vcfs|] eqn:Evcfs; [|discriminate] end.
  cbn [bind] in Hrow. injection Hrow as <-. cbn [o_mave_nt].
  assert (Hpam : pam_ref = py_slice a (a + zlen (mr_ref mr)) T /\ zlen pam_ref = zlen (mr_ref mr)).
  { destruct (mr_ref mr) as [|x r] eqn:Er; cbn [is_nil] in Erefs.
    - injection Erefs as <- <-. rewrite zlen_nil, Z.add_0_r, py_slice_empty. auto.
    - destruct (psubstr (cx_seq c) (mr_ref_pos mr) (get_end (mr_ref_pos mr) (zlen (x :: r)))) as [rr|]; [|discriminate].
      cbn [bind] in Erefs.
      destruct (psubstr (cx_alt c) (mr_alt_pos mr) (mr_end mr)) as [pr|] eqn:Epr; [|discriminate]. cbn [bind] in Erefs.
      injection Erefs as <- <-. apply psubstr_slice in Epr. rewrite Halt in Epr. cbn [s_start s_bases] in Epr.
      destruct Epr as [_ ->]. rewrite Hend. unfold get_end. pose proof (zlen_nonneg r). rewrite zlen_cons in *.
      fold a. replace (mr_alt_pos mr + Z.max 0 (1 + zlen r - 1) - xa + 1) with (a + (1 + zlen r)) by (unfold a; lia).
      split; [reflexivity|]. rewrite py_slice_length_in; lia. }
  destruct Hpam as [Hpam Hpl].
  assert (Hins : vt = VIns -> mr_ref mr = []).
  { intros ->. unfold var_type in Evt. destruct (mr_ref mr), (mr_alt mr); try discriminate; reflexivity. }
  unfold get_mave_nt in Em0. destruct (mave_of vt (mr_ref_pos mr - x0 + 1) pam_ref (mr_alt mr)) as [m|] eqn:Em; [|discriminate].
  cbn [bind] in Em0. injection Em0 as <-. exists m. split; [reflexivity|].
  destruct (mave_of_at _ _ (a + 1) _ _ _ Em ltac:(lia)) as (Hat & Hp).
  destruct (mave_of_apply_gen T (a + 1) pam_ref (mr_alt mr) vt (mave_at m (a + 1)) Hat) as [Happ Hval].
  - intros E. specialize (Hins E). rewrite Hins, zlen_nil in Hpl. now apply zlen_zero_nil.
  - lia.
  - rewrite Hpl. lia.
  - rewrite Hpl. replace (a + 1 - 1) with a by lia. now rewrite Hpam.
  - split; [|split; [exact Hp|]].
    + apply (mave_valid_at m (a + 1) Hval). rewrite Hp. unfold x0. lia.
    + rewrite Happ, Holigo, Hpl. replace (a + 1 - 1) with a by lia. reflexivity.
Qed.
