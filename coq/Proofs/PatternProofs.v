From VV Require Import Model.Base Model.Pattern Spec.PatternSpec Proofs.BaseLemmas.
From Coq Require Import Sorting.Sorted FinFun.

(* ---- window starts ---- *)
Lemma build_In offset span start L x :
  0 < span ->
  (In x (build offset span start (L - 1)) <->
   exists k, window_fits L span offset k /\ x = window_start start span offset k).
Proof.
  intros Hs. unfold build, window_fits, window_start. rewrite py_range_In by assumption. split.
  - intros (k & Hk & -> & Hlt). exists k. split; [split; [lia|nia]|ring].
  - intros (k & [Hk Hfit] & ->). exists k. split; [lia|]. split; [ring|nia].
Qed.

Lemma build_sorted offset span start len : 0 < span -> StronglySorted Z.lt (build offset span start len).
Proof. intros; unfold build; now apply py_range_sorted. Qed.

Lemma build_NoDup offset span start len : 0 < span -> NoDup (build offset span start len).
Proof. intros; apply sorted_lt_NoDup; now apply build_sorted. Qed.

(* a window start produced by build leaves room for the whole window *)
Lemma build_window_inside offset span start L x :
  0 < span -> 0 <= offset -> In x (build offset span start (L - 1)) ->
  start <= x /\ x + span <= start + L.
Proof.
  intros Hs Ho Hin. apply build_In in Hin; [|assumption].
  destruct Hin as (k & [Hk Hfit] & ->). unfold window_start. nia.
Qed.

(* ---- substr on a window inside the sequence ---- *)
Lemma substr_inside q st span :
  0 < span -> s_start q <= st -> st + span <= s_start q + s_len q ->
  substr q (mkRange st (st + span - 1)) = Ok (bases_at q st span) /\ zlen (bases_at q st span) = span.
Proof.
  intros Hs H1 H2. unfold substr, mk_range, bases_at. cbn [rs re].
  replace ((0 <=? st - s_start q) && (st - s_start q <=? st + span - 1 - s_start q)) with true
    by (symmetry; apply andb_true_iff; split; apply Z.leb_le; lia).
  cbn [bind rs re]. split.
  - f_equal. f_equal. lia.
  - unfold s_len in H2. rewrite py_slice_length_in; lia.
Qed.

(* ---- deletions ---- *)
Definition del_of (q : seq) (span : Z) (st : Z) : variant := mkVar st (bases_at q st span) [].

Theorem del_variants_closed_form q offset span :
  0 < span -> 0 <= offset ->
  del_variants q offset span =
    Ok (map (del_of q span) (build offset span (s_start q) (s_len q - 1))).
Proof.
  intros Hs Ho. unfold del_variants, get_refs, subseq_window.
  rewrite (mapM_ok _ (fun st => (st, bases_at q st span))).
  2:{ intros st Hin. apply build_window_inside in Hin; try assumption. destruct Hin as [H1 H2].
      destruct (substr_inside q st span Hs H1 H2) as [-> _]. reflexivity. }
  cbn [bind]. rewrite (mapM_ok _ (fun sr => mkVar (fst sr) (snd sr) [])).
  2:{ intros [st b] Hin. apply in_map_iff in Hin. destruct Hin as (st' & Heq & Hin). injection Heq as <- <-.
      apply build_window_inside in Hin; try assumption. destruct Hin as [H1 H2].
      destruct (substr_inside q st' span Hs H1 H2) as [_ Hl]. cbn [fst snd].
      unfold mk_variant. destruct (bases_at q st' span) eqn:E; [cbn in Hl; unfold zlen in Hl; cbn in Hl; lia|reflexivity]. }
  rewrite map_map. reflexivity.
Qed.

Theorem del_rows_exact q offset span vs :
  0 < span -> 0 <= offset -> del_variants q offset span = Ok vs ->
  (forall v, In v vs <-> is_del_row q span offset v) /\ NoDup (map v_pos vs).
Proof.
  intros Hs Ho H. rewrite del_variants_closed_form in H by assumption. injection H as <-. split.
  - intros v. rewrite in_map_iff. split.
    + intros (st & <- & Hin). pose proof Hin as Hin'. apply build_In in Hin; [|assumption].
      destruct Hin as (k & Hfit & ->). exists k. split; [assumption|]. cbn [del_of v_pos v_ref v_alt].
      apply build_window_inside in Hin'; try assumption. destruct Hin' as [H1 H2].
      destruct (substr_inside q _ span Hs H1 H2) as [_ Hl]. auto.
    + intros (k & Hfit & Hpos & Href & Hlen & Halt).
      exists (v_pos v). split.
      * destruct v as [p r a]; cbn in *. unfold del_of. subst. reflexivity.
      * apply build_In; [assumption|]. exists k; auto.
  - rewrite map_map. cbn [del_of v_pos]. rewrite map_id. now apply build_NoDup.
Qed.

(* never refused: a deletion mutator with a positive span never raises, whatever the region length *)
Corollary del_variants_total q offset span :
  0 < span -> 0 <= offset -> is_ok (del_variants q offset span) = true.
Proof. intros; now rewrite del_variants_closed_form. Qed.

(* every deletion lies inside the region (so get_vars_in_region keeps all of them) *)
Corollary del_rows_in_region q offset span vs v :
  0 < span -> 0 <= offset -> 0 < s_len q -> del_variants q offset span = Ok vs -> In v vs ->
  in_region (mkRange (s_start q) (s_end q)) v = true.
Proof.
  intros Hs Ho HL H Hin. destruct (del_rows_exact _ _ _ _ Hs Ho H) as [Hx _].
  apply Hx in Hin. destruct Hin as (k & [Hk Hfit] & Hpos & _ & Hlen & _).
  unfold in_region, in_range, var_ref_end, s_end, get_end, window_start in *. cbn [rs re].
  rewrite Hlen, Hpos. apply andb_true_iff; split; apply andb_true_iff; split; apply Z.leb_le; nia.
Qed.

(* ---- SNVs ---- *)
Lemma nt_snvs_spec x y : In y (nt_snvs x) <-> x <> y.
Proof. destruct x, y; cbn; split; intros; try congruence; intuition congruence. Qed.

Lemma nt_snvs_NoDup x : NoDup (nt_snvs x).
Proof. destruct x; cbn; repeat constructor; cbn; intuition congruence. Qed.

Lemma bases_at_one q i x :
  znth i (s_bases q) = Some x -> bases_at q (s_start q + i) 1 = [x].
Proof.
  intros H. unfold bases_at. replace (s_start q + i - s_start q) with i by lia. now apply py_slice_one.
Qed.

Definition snvs_at (q : seq) (st : Z) : list variant :=
  match bases_at q st 1 with
  | [x] => map (fun y => mkVar st [x] [y]) (nt_snvs x)
  | _ => []
  end.

Lemma build_unit_In start L x : In x (build 0 1 start (L - 1)) <-> start <= x < start + L.
Proof.
  rewrite build_In by lia. unfold window_fits, window_start. split.
  - intros (k & [Hk Hf] & ->). lia.
  - intros [H1 H2]. exists (x - start). lia.
Qed.

Theorem snv_variants_closed_form q :
  snv_variants q = Ok (concat (map (snvs_at q) (build 0 1 (s_start q) (s_len q - 1)))).
Proof.
  unfold snv_variants, get_refs, subseq_window.
  rewrite (mapM_ok _ (fun st => (st, bases_at q st 1))).
  2:{ intros st Hin. apply build_unit_In in Hin.
      destruct (substr_inside q st 1) as [-> _]; try lia. reflexivity. }
  cbn [bind]. rewrite (mapM_ok _ (fun sr => snvs_at q (fst sr))).
  2:{ intros [st b] Hin. apply in_map_iff in Hin. destruct Hin as (st' & Heq & Hin). injection Heq as <- <-.
      apply build_unit_In in Hin. cbn [fst snd]. unfold snvs_at.
      destruct (substr_inside q st' 1) as [_ Hl]; try lia.
      destruct (bases_at q st' 1) as [|x [|y l]]; unfold zlen in Hl; cbn in Hl; try lia. reflexivity. }
  cbn [bind]. rewrite map_map. reflexivity.
Qed.

Theorem snv_rows_exact q vs :
  snv_variants q = Ok vs -> forall v, In v vs <-> is_snv_row q v.
Proof.
  rewrite snv_variants_closed_form. intros H; injection H as <-. intros v.
  rewrite in_concat. split.
  - intros (l & Hl & Hv). apply in_map_iff in Hl. destruct Hl as (st & <- & Hst).
    apply build_unit_In in Hst. unfold snvs_at in Hv.
    destruct (znth_lt_Some (st - s_start q) (s_bases q)) as [x Hx]; [unfold s_len in Hst; lia|].
    pose proof (bases_at_one q _ _ Hx) as Hb. replace (s_start q + (st - s_start q)) with st in Hb by lia.
    rewrite Hb in Hv. apply in_map_iff in Hv. destruct Hv as (y & <- & Hy). apply nt_snvs_spec in Hy.
    exists (st - s_start q), x, y. cbn [v_pos v_ref v_alt]. unfold s_len in *. repeat split; auto; lia.
  - intros (i & x & y & Hi & Hx & Hpos & Href & Halt & Hne).
    exists (snvs_at q (s_start q + i)). split.
    + apply in_map_iff. exists (s_start q + i). split; [reflexivity|]. apply build_unit_In. lia.
    + unfold snvs_at. rewrite (bases_at_one q i x Hx). apply in_map_iff. exists y. split.
      * destruct v as [p r a]; cbn in *; subst; reflexivity.
      * now apply nt_snvs_spec.
Qed.

(* no SNV row is duplicated *)
Lemma snvs_at_pos q st v : In v (snvs_at q st) -> v_pos v = st.
Proof.
  unfold snvs_at. destruct (bases_at q st 1) as [|x [|]]; cbn; try easy.
  intros H. apply in_map_iff in H. now destruct H as (y & <- & _).
Qed.

Lemma snvs_at_NoDup q st : NoDup (snvs_at q st).
Proof.
  unfold snvs_at. destruct (bases_at q st 1) as [|x [|]]; try constructor.
  apply FinFun.Injective_map_NoDup; [|apply nt_snvs_NoDup]. intros a b H; now injection H.
Qed.

Lemma concat_NoDup_by_key {X} (key : X -> Z) (f : Z -> list X) (l : list Z) :
  NoDup l -> (forall k x, In x (f k) -> key x = k) -> (forall k, NoDup (f k)) ->
  NoDup (concat (map f l)).
Proof.
  intros Hl Hk Hf. induction Hl as [|k l Hnin Hl IH]; cbn; [constructor|].
  apply NoDup_app_intro; auto.
  intros x Hx Hc. apply in_concat in Hc. destruct Hc as (m & Hm & Hxm).
  apply in_map_iff in Hm. destruct Hm as (k' & <- & Hk').
  apply Hk in Hx. apply Hk in Hxm. congruence.
Qed.

Theorem snv_rows_NoDup q vs : snv_variants q = Ok vs -> NoDup vs.
Proof.
  rewrite snv_variants_closed_form. intros H; injection H as <-.
  apply (concat_NoDup_by_key v_pos).
  - apply build_NoDup; lia.
  - intros; now apply snvs_at_pos with q.
  - intros; apply snvs_at_NoDup.
Qed.

Corollary snv_variants_total q : is_ok (snv_variants q) = true.
Proof. now rewrite snv_variants_closed_form. Qed.
