(* GenomicPositionOffsets.from_var_stats and its lookups against the liftover specification (C05). *)
From VV Require Import Model.Base Model.Pattern Model.Gpo Spec.LiftSpec
  Proofs.BaseLemmas Proofs.TargetonProofs Proofs.LiftSpecProofs Proofs.GpoRefine.

(* what from_var_stats builds for a well-formed variant set *)
Record gpo_for (g : gpo) (r : range) (vs : list vstat) : Prop := {
  gf_range : g_range g = r;
  gf_alt_length : g_alt_length g = rlen r + sum_delta vs;
  gf_pos : g_pos_offsets g = fst (ref_offsets 0 vs);
  gf_alt : g_alt_offsets g = snd (ref_offsets 0 vs);
  gf_del : msem (g_del g) (rlen r) (fun k => deleted vs (rs r + k));
  gf_shift : msem (g_shift g) (rlen r) (fun k => touches vs (rs r + k));
  gf_ins : msem (g_ins g) (rlen r + sum_delta vs) (fun k => inserted 0 vs (rs r + k)) }.

Theorem from_var_stats_wf r vs :
  0 < rs r -> rs r <= re r -> wf (rs r) (re r) vs ->
  exists g, from_var_stats vs r = Ok g /\ gpo_for g r vs.
Proof.
  intros Hr Hre Hwf. unfold from_var_stats. rewrite (clamp_wf r vs Hr Hwf). cbn [bind].
  assert (Hn : 0 <= rlen r) by (unfold rlen; lia).
  destruct (ref_masks_sem (rs r) (rlen r) (re r) vs (rs r) (zeros (rlen r)) (zeros (rlen r)) _ _ Hwf
              (Z.le_refl _) ltac:(unfold rlen; lia) (msem_zeros _ Hn) (msem_zeros _ Hn)) as (dm & sm & -> & Sd & Ss).
  cbn [bind]. destruct (ref_offsets 0 vs) as [po ao] eqn:Er.
  pose proof (sum_bound_s _ _ _ Hwf ltac:(lia)) as Hsb.
  replace (rlen r + sum_delta vs <? 0) with false by (symmetry; apply Z.ltb_ge; unfold rlen; lia).
  assert (Hal : 0 <= rlen r + sum_delta vs) by (unfold rlen; lia).
  destruct (ins_mask_sem (rs r) (rlen r + sum_delta vs) (re r) vs (rs r) 0 (zeros (rlen r + sum_delta vs)) _ Hwf
              ltac:(lia) ltac:(lia) ltac:(unfold rlen; lia) (msem_zeros _ Hal)) as (im & -> & Si).
  cbn [bind]. eexists. split; [reflexivity|].
  constructor; cbn [g_range g_alt_length g_pos_offsets g_alt_offsets g_del g_shift g_ins fst snd]; rewrite ?Er; try reflexivity.
  - eapply msem_ext; [exact Sd|]. intros; reflexivity.
  - eapply msem_ext; [exact Ss|]. intros; reflexivity.
  - eapply msem_ext; [exact Si|]. intros; reflexivity.
Qed.

Section Lookups.
  Variables (g : gpo) (r : range) (vs : list vstat).
  Hypothesis Hr : 0 < rs r.
  Hypothesis Hre : rs r <= re r.
  Hypothesis Hwf : wf (rs r) (re r) vs.
  Hypothesis Hg : gpo_for g r vs.

  (* REF -> ALT inside the context: the mask and the offsets table compute r2a *)
  Theorem ref_to_alt_refines p : rs r <= p <= re r -> ref_to_alt_position g p None = Ok (r2a vs p).
  Proof.
    intros Hp. destruct Hg. unfold ref_to_alt_position, g_start, g_ref_length, ref_offset_to_alt_pos.
    rewrite gf_range0, gf_pos0.
    replace (p - rs r <? 0) with false by (symmetry; apply Z.ltb_ge; lia).
    replace (p - rs r <? rlen r) with true by (symmetry; apply Z.ltb_lt; unfold rlen; lia).
    rewrite (msem_mget _ _ _ (p - rs r) gf_del0) by (unfold rlen; lia). cbn [bind].
    replace (rs r + (p - rs r)) with p by lia. unfold r2a.
    destruct (deleted vs p); cbn [negb]; [reflexivity|].
    now rewrite (pos_offset_is_shift _ _ _ p Hwf).
  Qed.

  (* positions before the context map to themselves, whatever the search mode *)
  Theorem ref_to_alt_before p nearest : p < rs r -> ref_to_alt_position g p nearest = Ok (Some p).
  Proof.
    intros Hp. destruct Hg. unfold ref_to_alt_position, g_start. rewrite gf_range0.
    replace (p - rs r <? 0) with true by (symmetry; apply Z.ltb_lt; lia). reflexivity.
  Qed.

  (* ALT -> REF inside the ALT sequence *)
  Theorem alt_to_ref_refines q : rs r <= q < rs r + g_alt_length g -> alt_to_ref_position g q = Ok (a2r vs q).
  Proof.
    intros Hq. destruct Hg. unfold alt_to_ref_position, alt_end, g_start, get_end in *.
    rewrite gf_range0, gf_alt0 in *. rewrite gf_alt_length0 in *.
    replace (rlen r + sum_delta vs =? 0) with false by (symmetry; apply Z.eqb_neq; lia).
    replace ((q <? rs r) || (rs r + Z.max 0 (rlen r + sum_delta vs - 1) <? q)) with false.
    2:{ symmetry. apply orb_false_iff. split; apply Z.ltb_ge; lia. }
    rewrite (msem_mget _ _ _ (q - rs r) gf_ins0) by lia. cbn [bind].
    replace (rs r + (q - rs r)) with q by lia. unfold a2r.
    destruct (inserted 0 vs q); [reflexivity|].
    rewrite (alt_offset_is_ashift _ _ _ q Hwf). reflexivity.
  Qed.

  (* outside the ALT sequence the lookup is refused *)
  Theorem alt_to_ref_refuses q : q < rs r \/ rs r + g_alt_length g <= q -> alt_to_ref_position g q = Err ValueError.
  Proof.
    intros Hq. destruct Hg. unfold alt_to_ref_position, alt_end, g_start, get_end in *.
    rewrite gf_range0 in *. rewrite gf_alt_length0 in *.
    destruct (rlen r + sum_delta vs =? 0) eqn:E; [reflexivity|]. zb.
    pose proof (sum_bound_s _ _ _ Hwf ltac:(lia)). unfold rlen in *.
    replace ((q <? rs r) || (rs r + Z.max 0 (re r - rs r + 1 + sum_delta vs - 1) <? q)) with true; [reflexivity|].
    symmetry. apply orb_true_iff. destruct Hq; [left; apply Z.ltb_lt; lia|right; apply Z.ltb_lt; lia].
  Qed.

  (* a REF-coordinate variant is reported as overlapping a shift iff one of its bases is deleted or an insertion point *)
  Lemma any_res_touches l : (forall p, In p l -> rs r <= p <= re r) ->
    any_res (ref_pos_overlaps_var g) l = Ok (existsb (touches vs) l).
  Proof.
    induction l as [|p l IH]; intros Hl; [reflexivity|]. cbn [any_res existsb].
    destruct Hg. unfold ref_pos_overlaps_var at 1, g_start. rewrite gf_range0.
    rewrite (msem_mget _ _ _ (p - rs r) gf_shift0) by (specialize (Hl p (or_introl eq_refl)); unfold rlen; lia).
    cbn [bind]. replace (rs r + (p - rs r)) with p by lia.
    destruct (touches vs p); [reflexivity|]. cbn [orb]. apply IH. intros q Hq. apply Hl. now right.
  Qed.

  Theorem ref_var_overlap_refines pos len :
    rs r <= pos -> get_end pos len <= re r ->
    ref_var_overlaps_var g pos len =
      Ok (if 1 <? len then existsb (touches vs) (positions (mkRange pos (get_end pos len))) else touches vs pos).
  Proof.
    intros Hlo Hhi. unfold ref_var_overlaps_var, get_end in *. destruct (1 <? len) eqn:E; zb.
    - unfold mk_range. replace ((0 <=? pos) && (pos <=? pos + Z.max 0 (len - 1))) with true
        by (symmetry; apply andb_true_iff; split; apply Z.leb_le; lia).
      cbn [bind]. apply any_res_touches. intros p Hp. unfold positions in Hp. cbn [rs re] in Hp.
      apply zrange_In in Hp. lia.
    - destruct Hg. unfold ref_pos_overlaps_var, g_start. rewrite gf_range0.
      rewrite (msem_mget _ _ _ (pos - rs r) gf_shift0) by (unfold rlen; lia).
      now replace (rs r + (pos - rs r)) with pos by lia.
  Qed.
End Lookups.
