(* DnaStr.replace_substr / insert_substr as translated from strings/dna_str.py (Generated/KernelsDnaStr.v) are the splices of Model/Seq.v. *)
From VV Require Import Model.Base Model.Pattern Model.Seq Model.PyLoop Proofs.BaseLemmas Generated.KernelsDnaStr.

Lemma py_slice_upto_nonneg {X} (l : list X) a : 0 <= a -> py_slice_upto l a = zfirstn a l.
Proof. intros H. unfold py_slice_upto. now rewrite (proj2 (Z.ltb_ge _ _) H). Qed.
Lemma py_slice_from_nonneg {X} (l : list X) a : 0 <= a -> py_slice_from l a = zskipn a l.
Proof. intros H. unfold py_slice_from. now rewrite (proj2 (Z.ltb_ge _ _) H). Qed.

(* a UIntRange has a non-negative start (its constructor refuses anything else) *)
Theorem k_dna_replace_substr_eq s r alt : range_valid r = true ->
  k_dna_replace_substr s r alt = replace_substr s (rs r) (re r) alt.
Proof.
  intros Hv. unfold range_valid in Hv. apply andb_prop in Hv. destruct Hv as [H0 H1]. apply Z.leb_le in H0. apply Z.leb_le in H1.
  unfold k_dna_replace_substr, replace_substr.
  destruct ((rs r <? zlen s) && (re r <? zlen s)); [|reflexivity].
  rewrite py_slice_upto_nonneg by lia. rewrite py_slice_from_nonneg by lia. reflexivity.
Qed.

Theorem k_dna_insert_substr_eq s off alt : k_dna_insert_substr s off alt = insert_substr s off alt.
Proof.
  unfold k_dna_insert_substr, insert_substr.
  destruct (Z.ltb_spec off 0) as [Hn|Hn]; [reflexivity|].
  destruct (Z.ltb_spec (zlen s) off) as [Hb|Hb]; [reflexivity|].
  rewrite py_slice_upto_nonneg, py_slice_from_nonneg by lia.
  destruct (Z.ltb_spec off (zlen s)) as [Hl|Hl]; [reflexivity|].
  assert (off = zlen s) by lia. subst off. f_equal.
  rewrite zfirstn_all by lia. unfold zskipn, zlen. rewrite Nat2Z.id, skipn_all. now rewrite app_nil_r.
Qed.

(* ---- from a variant to the altered sequence: alter_seq -> Seq.alter -> Seq.replace_substr / insert_substr ---- *)
From VV Require Import Model.Vcf Model.Mave Model.PyStr.

Lemma sempty_dna_k d : sempty (string_of_dna d) = is_nil d.
Proof. destruct d; reflexivity. Qed.
Lemma slen_dna_k d : slen (string_of_dna d) = zlen d.
Proof. unfold slen, zlen. f_equal. induction d as [|x d IH]; cbn; [reflexivity|now rewrite IH]. Qed.

Lemma mk_range_valid_k a b r : mk_range a b = Ok r -> range_valid r = true /\ rs r = a /\ re r = b.
Proof.
  unfold mk_range. destruct ((0 <=? a) && (a <=? b)) eqn:E; [|discriminate]. intros H. injection H as <-. unfold range_valid. cbn [rs re]. auto.
Qed.

Theorem k_alter_seq_eq q v : v_ref v <> [] \/ v_alt v <> [] ->
  k_alter_seq q v = match alter q v with Ok s => Ok (mkSeq (s_start q) s) | Err e => Err e end.
Proof.
  intros Hne. unfold k_alter_seq, alter, kd_var_ref_range, kd_var_ref_end, kd_var_ref_len, kd_get_end, kd_clamp_non_negative, var_ref_end, get_end, v_ref_s.
  cbn [bind]. rewrite slen_dna_k.
  destruct (mk_range (v_pos v) (v_pos v + Z.max 0 (zlen (v_ref v) - 1))) as [r|e] eqn:Er; cbn [bind]; [|reflexivity].
  unfold kd_var_is_insertion, kd_var_type, v_ref_s, v_alt_s. rewrite !sempty_dna_k.
  destruct (v_ref v) as [|x ref] eqn:Eref; cbn [is_nil negb bind].
  - (* insertion *)
    destruct (v_alt v) as [|y alt] eqn:Ealt; [destruct Hne as [H|H]; now elim H|]. cbn [is_nil negb bind vtype_eqb].
    apply mk_range_valid_k in Er. destruct Er as (Hv & Hs & He). cbn [zlen length Z.of_nat Z.sub Z.max] in He.
    unfold k_seq_alter. cbn [negb orb]. unfold rlen. replace (re r - rs r + 1 =? 1) with true by (symmetry; apply Z.eqb_eq; lia).
    cbn [bind]. unfold k_seq_insert_substr, k_seq_get_rel_pos. cbn [bind]. rewrite k_dna_insert_substr_eq.
    destruct (insert_substr (s_bases q) (rs r - s_start q) (y :: alt)); reflexivity.
  - (* substitution / deletion *)
    assert (Hty : forall b : bool, vtype_eqb (if b then VSub else VDel) VIns = false) by (intros [|]; reflexivity).
    rewrite Hty. unfold k_seq_alter. cbn [negb orb bind].
    unfold k_seq_replace_substr, k_seq_get_rel_range, kd_range_offset. cbn [bind].
    change (rs r + - s_start q) with (rs r - s_start q). change (re r + - s_start q) with (re r - s_start q).
    destruct (mk_range (rs r - s_start q) (re r - s_start q)) as [rr|e] eqn:Err; cbn [bind]; [|reflexivity].
    apply mk_range_valid_k in Err. destruct Err as (Hv & _ & _).
    rewrite (k_dna_replace_substr_eq (s_bases q) rr (v_alt v) Hv).
    destruct (replace_substr (s_bases q) (rs rr) (re rr) (v_alt v)); reflexivity.
Qed.
