(* DnaStr.replace_substr / insert_substr as translated from strings/dna_str.py (Generated/KernelsDnaStr.v) are the splices of Model/Seq.v. *)
From VV Require Import Model.Base Model.Pattern Model.Seq Model.PyLoop Proofs.BaseLemmas Generated.KernelsDnaStr.

Lemma py_slice_upto_nonneg {X} (l : list X) a : 0 <= a -> py_slice_upto l a = zfirstn a l.
Proof. intros H. unfold py_slice_upto. now rewrite (proj2 (Z.ltb_ge _ _) H). Qed.
Lemma py_slice_from_nonneg {X} (l : list X) a : 0 <= a -> py_slice_from l a = zskipn a l.
Proof. intros H. unfold py_slice_from. now rewrite (proj2 (Z.ltb_ge _ _) H). Qed.

(* a UIntRange has a non-negative start (its constructor refuses anything else) *)
Theorem k_dna_replace_substr_eq s r alt : range_valid r = true ->
  k_dna_replace_substr s r alt = replace_substr s (rs r) (re r) alt.
Proof.
  intros Hv. unfold range_valid in Hv. apply andb_prop in Hv. destruct Hv as [H0 H1]. apply Z.leb_le in H0. apply Z.leb_le in H1.
  unfold k_dna_replace_substr, replace_substr.
  destruct ((rs r <? zlen s) && (re r <? zlen s)); [|reflexivity].
  rewrite py_slice_upto_nonneg by lia. rewrite py_slice_from_nonneg by lia. reflexivity.
Qed.

Theorem k_dna_insert_substr_eq s off alt : k_dna_insert_substr s off alt = insert_substr s off alt.
Proof.
  unfold k_dna_insert_substr, insert_substr.
  destruct (Z.ltb_spec off 0) as [Hn|Hn]; [reflexivity|].
  destruct (Z.ltb_spec (zlen s) off) as [Hb|Hb]; [reflexivity|].
  rewrite py_slice_upto_nonneg, py_slice_from_nonneg by lia.
  destruct (Z.ltb_spec off (zlen s)) as [Hl|Hl]; [reflexivity|].
  assert (off = zlen s) by lia. subst off. f_equal.
  rewrite zfirstn_all by lia. unfold zskipn, zlen. rewrite Nat2Z.id, skipn_all. now rewrite app_nil_r.
Qed.
