(* Codon table laws (C17): ranking, synonymous sets, row-order independence, strand transport, default table. *)
From VV Require Import Model.Base Model.Pattern Model.CodonTable Model.CodonTableGlue Spec.StdCode
  Proofs.BaseLemmas.
From Coq Require Import Sorting.Sorted Sorting.Permutation.
Local Open Scope Z_scope.

Definition rank_le (x y : crow) : Prop := c_rank x <= c_rank y.
Definition rank_lt (x y : crow) : Prop := c_rank x < c_rank y.

Lemma insert_by_rank_perm r l : Permutation (insert_by_rank r l) (r :: l).
Proof.
  induction l as [|x l IH]; cbn [insert_by_rank]; [reflexivity|].
  destruct (c_rank r <=? c_rank x); [reflexivity|].
  rewrite IH. apply perm_swap.
Qed.

Lemma sort_by_rank_perm l : Permutation (sort_by_rank l) l.
Proof.
  induction l as [|x l IH]; [reflexivity|]. unfold sort_by_rank in *. cbn [fold_right].
  rewrite insert_by_rank_perm. now constructor.
Qed.

Lemma insert_by_rank_sorted r l : StronglySorted rank_le l -> StronglySorted rank_le (insert_by_rank r l).
Proof.
  induction 1 as [|x l Hs IH Hf]; cbn [insert_by_rank]; [repeat constructor|].
  destruct (c_rank r <=? c_rank x) eqn:E.
  - apply Z.leb_le in E. constructor; [now constructor|]. constructor; [exact E|].
    eapply Forall_impl; [|exact Hf]. unfold rank_le. intros; lia.
  - apply Z.leb_gt in E. constructor; [assumption|].
    eapply Permutation_Forall; [symmetry; apply insert_by_rank_perm|]. constructor; [unfold rank_le; lia|assumption].
Qed.

Lemma sort_by_rank_sorted l : StronglySorted rank_le (sort_by_rank l).
Proof.
  induction l as [|x l IH]; [constructor|]. unfold sort_by_rank in *. cbn [fold_right]. now apply insert_by_rank_sorted.
Qed.

Lemma aa_eqb_eq x y : aa_eqb x y = true <-> x = y.
Proof. apply String.eqb_eq. Qed.

Lemma rows_of_In t a r : In r (rows_of t a) <-> In r t /\ c_aa r = a.
Proof. unfold rows_of. rewrite filter_In, aa_eqb_eq. tauto. Qed.

Lemma sorted_rows_In t a r : In r (sort_by_rank (rows_of t a)) <-> In r t /\ c_aa r = a.
Proof.
  rewrite <- rows_of_In. split; apply Permutation_in; [apply sort_by_rank_perm|symmetry; apply sort_by_rank_perm].
Qed.

(* the codon used for an amino acid is one of its codons with the smallest rank *)
Theorem top_is_min_rank t a c : get_top_codon t a = Ok c ->
  exists r, In r t /\ c_aa r = a /\ c_codon r = c /\ forall r', In r' t -> c_aa r' = a -> c_rank r <= c_rank r'.
Proof.
  unfold get_top_codon, get_codons, codons_of.
  pose proof (sort_by_rank_sorted (rows_of t a)) as Hs. pose proof (sorted_rows_In t a) as Hin.
  destruct (sort_by_rank (rows_of t a)) as [|r l]; cbn [map bind]; [discriminate|].
  intros H; injection H as <-. exists r.
  destruct (proj1 (Hin r) (or_introl eq_refl)) as [H1 H2]. repeat split; auto.
  intros r' Hr' Ha. assert (Hx : In r' (r :: l)) by (apply Hin; auto).
  destruct Hx as [<-|Hx]; [lia|]. inversion Hs as [|? ? _ Hf]; subst.
  rewrite Forall_forall in Hf. apply (Hf _ Hx).
Qed.

(* the second-best codon is second in rank among the codons of the amino acid *)
Theorem second_is_second_min t a c2 : get_second_best_codon t a = Ok (Some c2) ->
  exists r1 r2 rest, sort_by_rank (rows_of t a) = r1 :: r2 :: rest /\ c_codon r2 = c2 /\
    get_top_codon t a = Ok (c_codon r1) /\ c_rank r1 <= c_rank r2 /\ forall x, In x rest -> c_rank r2 <= c_rank x.
Proof.
  unfold get_second_best_codon, get_top_codon, get_codons, codons_of.
  pose proof (sort_by_rank_sorted (rows_of t a)) as Hs.
  destruct (sort_by_rank (rows_of t a)) as [|r1 [|r2 rest]]; cbn [map bind]; try discriminate.
  intros H; injection H as <-. exists r1, r2, rest. repeat split; auto.
  - inversion Hs as [|? ? _ Hf]; subst. inversion Hf; subst. assumption.
  - intros x Hx. inversion Hs as [|? ? Hs' _]; subst. inversion Hs' as [|? ? _ Hf]; subst.
    rewrite Forall_forall in Hf. apply (Hf _ Hx).
Qed.

(* translation: with distinct codons, the amino acid of the row of that codon *)
Lemma translate_opt_In t c a : translate_opt t c = Some a -> exists r, In r t /\ c_codon r = c /\ c_aa r = a.
Proof.
  induction t as [|r t IH]; cbn [translate_opt]; [discriminate|].
  destruct (translate_opt t c) as [a'|] eqn:E.
  - intros H; injection H as <-. destruct (IH eq_refl) as (r' & H1 & H2 & H3). exists r'. repeat split; auto. now right.
  - destruct (dna_eqb (c_codon r) c) eqn:Ec; [|discriminate]. intros H; injection H as <-.
    apply dna_eqb_eq in Ec. exists r. repeat split; auto. now left.
Qed.

Lemma translate_opt_None t c : translate_opt t c = None -> forall r, In r t -> c_codon r <> c.
Proof.
  induction t as [|x t IH]; cbn [translate_opt]; [easy|].
  destruct (translate_opt t c) eqn:E; [discriminate|].
  destruct (dna_eqb (c_codon x) c) eqn:Ec; [discriminate|]. intros _ r [<-|Hr].
  - intros Hc. apply dna_eqb_eq in Hc. congruence.
  - now apply IH.
Qed.

Lemma translate_opt_unique t c r : NoDup (map c_codon t) -> In r t -> c_codon r = c -> translate_opt t c = Some (c_aa r).
Proof.
  intros Hnd Hr Hc. destruct (translate_opt t c) as [a|] eqn:E.
  - destruct (translate_opt_In _ _ _ E) as (r' & H1 & H2 & H3). f_equal. rewrite <- H3.
    enough (r' = r) by congruence.
    clear - Hnd Hr H1 Hc H2. induction t as [|x t IH]; [easy|]. cbn [map] in Hnd. inversion Hnd as [|? ? Hx Hnd']; subst.
    destruct Hr as [->|Hr]; destruct H1 as [->|H1]; auto.
    + exfalso. apply Hx. apply in_map_iff. exists r'. split; [congruence|assumption].
    + exfalso. apply Hx. apply in_map_iff. exists r. split; [congruence|assumption].
  - exfalso. apply (translate_opt_None _ _ E r Hr Hc).
Qed.

Lemma get_codons_ok t a l : get_codons t a = Ok l -> l = codons_of t a.
Proof. unfold get_codons. destruct (codons_of t a); [discriminate|]. intros H; now injection H. Qed.

(* synonymous codons: exactly the other codons of the same amino acid *)
Theorem synonymous_exact t c l : get_synonymous_codons t c = Ok l ->
  forall x, In x l <-> x <> c /\ exists r a, In r t /\ c_codon r = x /\ c_aa r = a /\ translate_opt t c = Some a.
Proof.
  unfold get_synonymous_codons, translate.
  destruct (translate_opt t c) as [a|] eqn:Et; cbn [bind]; [|discriminate].
  destruct (get_codons t a) as [l0|] eqn:Eg; cbn [bind]; [|discriminate].
  apply get_codons_ok in Eg. subst l0. unfold codons_of.
  intros H; injection H as <-. intros x. rewrite filter_In, in_map_iff. split.
  - intros [(r & Hc & Hr) Hne]. apply sorted_rows_In in Hr. destruct Hr as [Hr Ha]. split.
    + intros ->. rewrite dna_eqb_refl in Hne. discriminate.
    + exists r, a. auto.
  - intros [Hne (r & a' & Hr & Hc & Ha & Hs)]. injection Hs as <-. split.
    + exists r. split; [assumption|]. apply sorted_rows_In. auto.
    + destruct (dna_eqb x c) eqn:E; [apply dna_eqb_eq in E; congruence|reflexivity].
Qed.

(* ---- the order of the rows of the table file is irrelevant ---- *)
Lemma sorted_perm_unique (l : list crow) : forall l',
  StronglySorted rank_lt l -> StronglySorted rank_lt l' -> Permutation l l' -> l = l'.
Proof.
  induction l as [|x xs IH]; intros l' Hs Hs' Hp.
  - apply Permutation_nil in Hp. now subst.
  - destruct l' as [|y ys]; [apply Permutation_sym, Permutation_nil in Hp; discriminate|].
    inversion Hs as [|? ? Hsx Hfx]; subst. inversion Hs' as [|? ? Hsy Hfy]; subst.
    rewrite Forall_forall in Hfx, Hfy.
    assert (x = y).
    { assert (Hx : In x (y :: ys)) by (eapply Permutation_in; [exact Hp|now left]).
      assert (Hy : In y (x :: xs)) by (eapply Permutation_in; [symmetry; exact Hp|now left]).
      destruct Hx as [->|Hx]; [reflexivity|]. destruct Hy as [->|Hy]; [reflexivity|].
      specialize (Hfx _ Hy). specialize (Hfy _ Hx). unfold rank_lt in *. lia. }
    subst y. f_equal. apply IH; auto. eapply Permutation_cons_inv; eauto.
Qed.

Lemma sorted_le_lt (l : list crow) : StronglySorted rank_le l -> NoDup l ->
  (forall x y, In x l -> In y l -> c_rank x = c_rank y -> x = y) -> StronglySorted rank_lt l.
Proof.
  induction 1 as [|x l Hs IH Hf]; intros Hnd Hinj; [constructor|].
  inversion Hnd as [|? ? Hx Hnd']; subst. constructor.
  - apply IH; auto. intros a b Ha Hb. apply Hinj; now right.
  - rewrite Forall_forall in *. intros y Hy. specialize (Hf _ Hy). unfold rank_le, rank_lt in *.
    destruct (Z.eq_dec (c_rank x) (c_rank y)) as [E|]; [|lia].
    exfalso. apply Hx. rewrite (Hinj x y); auto; [now left|now right].
Qed.

Lemma Permutation_filter' {X} (f : X -> bool) l l' : Permutation l l' -> Permutation (filter f l) (filter f l').
Proof.
  induction 1; cbn [filter]; auto.
  - destruct (f x); auto.
  - destruct (f x), (f y); auto. apply perm_swap.
  - etransitivity; eauto.
Qed.

Definition ranks_distinct (t : table) : Prop :=
  forall x y, In x t -> In y t -> c_aa x = c_aa y -> c_rank x = c_rank y -> x = y.

Theorem row_order_irrelevant t t' : Permutation t t' -> NoDup (map c_codon t) -> ranks_distinct t ->
  (forall a, codons_of t a = codons_of t' a) /\ (forall c, translate_opt t c = translate_opt t' c).
Proof.
  intros Hp Hnd Hrd. assert (Hnd0 : NoDup t) by (eapply NoDup_map_inv; eauto). split.
  - intros a. unfold codons_of. f_equal. apply sorted_perm_unique.
    + apply sorted_le_lt; [apply sort_by_rank_sorted| |].
      * eapply Permutation_NoDup; [symmetry; apply sort_by_rank_perm|]. now apply NoDup_filter.
      * intros x y Hx Hy. apply sorted_rows_In in Hx, Hy. destruct Hx, Hy. apply Hrd; auto; congruence.
    + apply sorted_le_lt; [apply sort_by_rank_sorted| |].
      * eapply Permutation_NoDup; [symmetry; apply sort_by_rank_perm|]. apply NoDup_filter.
        eapply Permutation_NoDup; eauto.
      * intros x y Hx Hy. apply sorted_rows_In in Hx, Hy. destruct Hx as [Hx ?], Hy as [Hy ?].
        apply Hrd; try congruence; eapply Permutation_in; try (symmetry; exact Hp); assumption.
    + rewrite !sort_by_rank_perm. now apply Permutation_filter'.
  - intros c. assert (Hnd' : NoDup (map c_codon t')) by (eapply Permutation_NoDup; [apply Permutation_map; exact Hp|assumption]).
    destruct (translate_opt t c) as [a|] eqn:E.
    + destruct (translate_opt_In _ _ _ E) as (r & H1 & H2 & H3). symmetry. rewrite <- H3.
      apply translate_opt_unique; auto. eapply Permutation_in; eauto.
    + destruct (translate_opt t' c) as [a|] eqn:E'; [|reflexivity]. exfalso.
      destruct (translate_opt_In _ _ _ E') as (r & H1 & H2 & H3).
      apply (translate_opt_None _ _ E r); auto. eapply Permutation_in; [symmetry; exact Hp|assumption].
Qed.

(* ---- minus strand: every lookup in the reverse-complemented table is the reverse complement ---- *)
Lemma revcomp_inj x y : revcomp x = revcomp y -> x = y.
Proof. intros H. rewrite <- (revcomp_involutive x), <- (revcomp_involutive y). now f_equal. Qed.

Lemma dna_eqb_revcomp x y : dna_eqb (revcomp x) (revcomp y) = dna_eqb x y.
Proof.
  destruct (dna_eqb x y) eqn:E.
  - apply dna_eqb_eq in E. subst. apply dna_eqb_refl.
  - destruct (dna_eqb (revcomp x) (revcomp y)) eqn:E'; [|reflexivity].
    apply dna_eqb_eq, revcomp_inj in E'. subst. now rewrite dna_eqb_refl in E.
Qed.

Theorem rc_translate t c : translate_opt (map rc_row t) (revcomp c) = translate_opt t c.
Proof.
  induction t as [|r t IH]; [reflexivity|]. cbn [map translate_opt]. rewrite IH.
  destruct (translate_opt t c); [reflexivity|]. cbn [rc_row c_codon c_aa]. now rewrite dna_eqb_revcomp.
Qed.

Lemma insert_by_rank_rc r l : insert_by_rank (rc_row r) (map rc_row l) = map rc_row (insert_by_rank r l).
Proof.
  induction l as [|x l IH]; [reflexivity|]. cbn [map insert_by_rank rc_row c_rank].
  destruct (c_rank r <=? c_rank x); [reflexivity|]. cbn [map]. now rewrite <- IH.
Qed.

Lemma sort_by_rank_rc l : sort_by_rank (map rc_row l) = map rc_row (sort_by_rank l).
Proof.
  induction l as [|x l IH]; [reflexivity|]. unfold sort_by_rank in *. cbn [map fold_right].
  now rewrite IH, insert_by_rank_rc.
Qed.

Theorem rc_codons_of t a : codons_of (map rc_row t) a = map revcomp (codons_of t a).
Proof.
  unfold codons_of, rows_of.
  assert (Hf : filter (fun r => aa_eqb (c_aa r) a) (map rc_row t) = map rc_row (filter (fun r => aa_eqb (c_aa r) a) t)).
  { induction t as [|r t IH]; [reflexivity|]. cbn [map filter rc_row c_aa]. destruct (aa_eqb (c_aa r) a); cbn [map]; now rewrite IH. }
  rewrite Hf, sort_by_rank_rc, !map_map. reflexivity.
Qed.

Definition map_res {X Y} (f : X -> Y) (r : result X) : result Y := match r with Ok x => Ok (f x) | Err e => Err e end.

Theorem rc_table_transport rows a c :
  translate (from_list rows true) (revcomp c) = translate (from_list rows false) c /\
  get_top_codon (from_list rows true) a = map_res revcomp (get_top_codon (from_list rows false) a) /\
  get_second_best_codon (from_list rows true) a = map_res (option_map revcomp) (get_second_best_codon (from_list rows false) a).
Proof.
  unfold from_list, translate, get_top_codon, get_second_best_codon, get_codons. rewrite rc_translate, rc_codons_of.
  split; [reflexivity|].
  destruct (codons_of rows a) as [|x [|y l]]; cbn; auto.
Qed.

(* ---- loader ---- *)
Theorem loader_rejects fields freq_ok r : parse_row fields freq_ok = Ok r ->
  exists codon a f rank, fields = [codon; a; f; rank] /\ freq_ok = true /\
    dna_of_string codon = Some (c_codon r) /\ zlen (c_codon r) = 3 /\
    c_aa r = a /\ (String.length a = 1%nat \/ a = STOP) /\
    String.prefix "RANK" rank = true /\ (4 < String.length rank)%nat.
Proof.
  unfold parse_row. destruct fields as [|codon [|a [|f [|rank [|]]]]]; try discriminate.
  destruct freq_ok; cbn [negb]; [|discriminate].
  unfold parse_codon, parse_aa, parse_rank.
  destruct (dna_of_string codon) as [c|] eqn:Ec; cbn [bind]; [|discriminate].
  destruct (zlen c =? 3) eqn:El; cbn [bind]; [|discriminate].
  destruct ((Z.of_nat (String.length a) =? 1) || String.eqb a STOP) eqn:Ea; cbn [bind]; [|discriminate].
  destruct (negb (String.prefix "RANK" rank) || (Z.of_nat (String.length rank) <=? 4)) eqn:Er; cbn [bind]; [discriminate|].
  intros H. exists codon, a, f, rank.
  apply orb_false_iff in Er. destruct Er as [Er1 Er2]. apply negb_false_iff in Er1. apply Z.leb_gt in Er2.
  apply Z.eqb_eq in El.
  assert (Hr : c_codon r = c /\ c_aa r = a).
  { destruct (String.eqb (drop 4 rank) "U" || String.eqb (drop 4 rank) "T" || String.eqb (drop 4 rank) "UT").
    - injection H as <-. auto.
    - destruct (digits_val 0 (drop 4 rank)); [|discriminate]. injection H as <-. auto. }
  destruct Hr as [-> ->]. repeat split; auto; try lia.
  apply orb_true_iff in Ea. destruct Ea as [Ea|Ea]; [left; apply Z.eqb_eq in Ea; lia|right; now apply String.eqb_eq].
Qed.
