(* C10 at the level of one metadata row: the strings written by the to_csv loop body decode to the sequences. *)
From VV Require Import Model.Base Model.Pattern Model.Seq Model.Vcf Model.Mave Model.Gpo Model.ToCsv Spec.MaveSpec
  Proofs.BaseLemmas Proofs.TargetonProofs Proofs.ApplyProofs Proofs.VcfProofs Proofs.MaveProofs Proofs.RowProofs.
From Coq Require Import ZifyBool.

(* mave_of_apply without tying the printer's type tag to the emptiness of the alleles: enough that an insertion has no REF *)
Lemma mave_of_apply_gen T p ref alt t m :
  mave_of t p ref alt = Ok m -> (t = VIns -> ref = []) ->
  1 <= p -> p - 1 + zlen ref <= zlen T -> py_slice (p - 1) (p - 1 + zlen ref) T = ref ->
  mave_apply m T = Some (zfirstn (p - 1) T ++ alt ++ zskipn (p - 1 + zlen ref) T) /\ mave_valid m = true.
Proof.
  intros Hm Hins Hp Hlen Href.
  destruct t.
  - specialize (Hins eq_refl). subst ref. destruct alt as [|y alt]; [unfold mave_of in Hm; destruct (p <? 0); discriminate|].
    apply (mave_of_apply T p [] (y :: alt) VIns m); auto.
  - destruct ref as [|x ref]; [unfold mave_of in Hm; destruct (p <? 0); discriminate|].
    destruct alt as [|y alt].
    + apply (mave_of_apply T p (x :: ref) [] VDel m); auto.
    + (* printed as a deletion-insertion: same term as for the substitution tag unless both are single bases *)
      unfold mave_of in Hm. replace (p <? 0) with false in Hm by lia. injection Hm as <-.
      cbn [mave_apply mave_valid is_nil negb]. pose proof (zlen_nonneg ref). rewrite zlen_cons in *.
      replace ((1 <=? p) && (1 <=? 1 + zlen ref) && (p - 1 + (1 + zlen ref) <=? zlen T)) with true by lia.
      split; [reflexivity|]. lia.
  - destruct ref as [|x ref]; [unfold mave_of in Hm; destruct (p <? 0); discriminate|].
    destruct alt as [|y alt]; [unfold mave_of in Hm; destruct (p <? 0); [discriminate|]; destruct ref; discriminate|].
    apply (mave_of_apply T p (x :: ref) (y :: alt) VSub m); auto.
  - unfold mave_of in Hm. destruct (p <? 0); discriminate.
Qed.

(* slicing a five-part list by the lengths of its parts *)
Lemma zfirstn_app_len {X} (a b : list X) n : n = zlen a -> zfirstn n (a ++ b) = a.
Proof. intros ->. apply zfirstn_app_exact. Qed.
Lemma zskipn_app_len {X} (a b : list X) n : n = zlen a -> zskipn n (a ++ b) = b.
Proof. intros ->. apply zskipn_app_exact. Qed.
Lemma py_slice_app_len {X} (P M S : list X) u v : u = zlen P -> v = zlen P + zlen M -> py_slice u v (P ++ M ++ S) = M.
Proof.
  intros -> ->. unfold py_slice. rewrite zskipn_app_exact. apply zfirstn_app_len. lia.
Qed.

(* widening a replacement to a larger window that still contains it describes the same edit *)
Lemma widen_same (T alt : dna) a len u w :
  0 <= u -> u <= a -> 0 <= len -> a + len <= w -> w <= zlen T ->
  let oligo := zfirstn a T ++ alt ++ zskipn (a + len) T in
  py_slice u (w + (zlen alt - len)) oligo = py_slice u a T ++ alt ++ py_slice (a + len) w T /\
  zfirstn u T ++ py_slice u (w + (zlen alt - len)) oligo ++ zskipn w T = oligo.
Proof.
  intros Hu Hua Hlen Haw Hw oligo. subst oligo.
  set (A := zfirstn u T). set (B := py_slice u a T). set (R := py_slice a (a + len) T).
  set (C := py_slice (a + len) w T). set (D := zskipn w T).
  assert (HT : T = A ++ B ++ R ++ C ++ D).
  { unfold A, B, R, C, D. rewrite (split3 u w T) at 1 by lia. f_equal.
    rewrite <- (py_slice_app u a w T) by lia. rewrite <- (py_slice_app a (a + len) w T) by lia. rewrite <- !app_assoc. reflexivity. }
  assert (HA : zlen A = u) by (unfold A; rewrite zfirstn_length; lia).
  assert (HB : zlen B = a - u) by (unfold B; rewrite py_slice_length_in; lia).
  assert (HR : zlen R = len) by (unfold R; rewrite py_slice_length_in; lia).
  assert (HC : zlen C = w - (a + len)) by (unfold C; rewrite py_slice_length_in; lia).
  clearbody A B R C D. subst T.
  assert (E1 : zfirstn a (A ++ B ++ R ++ C ++ D) = A ++ B).
  { rewrite (app_assoc A B). apply zfirstn_app_len. rewrite zlen_app. lia. }
  assert (E2 : zskipn (a + len) (A ++ B ++ R ++ C ++ D) = C ++ D).
  { rewrite (app_assoc A B), (app_assoc (A ++ B) R). apply zskipn_app_len. rewrite !zlen_app. lia. }
  rewrite E1, E2.
  assert (E3 : py_slice u (w + (zlen alt - len)) ((A ++ B) ++ alt ++ C ++ D) = B ++ alt ++ C).
  { replace ((A ++ B) ++ alt ++ C ++ D) with (A ++ (B ++ alt ++ C) ++ D) by (rewrite <- !app_assoc; reflexivity).
    apply py_slice_app_len; [lia|]. rewrite !zlen_app. lia. }
  rewrite E3. split; [reflexivity|].
  rewrite <- !app_assoc. reflexivity.
Qed.

Lemma psubstr_slice q a b s : psubstr q a b = Ok s -> 
  0 <= a - s_start (p_seq q) <= b - s_start (p_seq q) /\ s = py_slice (a - s_start (p_seq q)) (b - s_start (p_seq q) + 1) (s_bases (p_seq q)).
Proof.
  unfold psubstr, substr, mk_range. cbn [rs re].
  destruct ((0 <=? a) && (a <=? b)) eqn:E1; [|discriminate]. cbn [bind rs re].
  destruct ((0 <=? a - s_start (p_seq q)) && (a - s_start (p_seq q) <=? b - s_start (p_seq q))) eqn:E2; [|discriminate].
  cbn [bind rs re]. intros H. injection H as <-. split; [lia|reflexivity].
Qed.

(* C10, one row without background variants: the string written to mave_nt - widened to a PAM codon or not - is the print of a
   valid term that, applied to the PAM-protected targeton sequence, yields the row's oligonucleotide *)
Theorem row_mave_nt_decodes c mr o x0 (T : dna) :
  row_out c mr = Ok o -> cx_gpo c = None ->
  p_seq (cx_alt c) = mkSeq x0 T -> s_start (p_seq (cx_seq c)) = x0 ->
  mr_ref_pos mr = mr_alt_pos mr -> mr_end mr = get_end (mr_alt_pos mr) (zlen (mr_ref mr)) ->
  let a := mr_alt_pos mr - x0 in
  0 <= a -> a + zlen (mr_ref mr) <= zlen T ->
  x0 <= opt_min (mr_alt_pos mr) (mr_start_ppe mr) -> opt_max (mr_end mr) (mr_end_ppe mr) <= x0 + zlen T - 1 ->
  mr_oligo mr = zfirstn a T ++ mr_alt mr ++ zskipn (a + zlen (mr_ref mr)) T ->
  exists m, o_mave_nt o = print_mave m /\ mave_apply m T = Some (mr_oligo mr) /\ mave_valid m = true.
Proof.
  intros Hrow Hg Halt Hx0 Hpos Hend a Ha Hfit Hlo Hhi Holigo.
  unfold row_out in Hrow. rewrite Hg, Hx0, Hpos in Hrow.
  destruct (mk_variant (mr_alt_pos mr) (mr_ref mr) (mr_alt mr)) as [v0|] eqn:Ev0; [|discriminate]. cbn [bind] in Hrow.
  destruct (var_type (mr_ref mr) (mr_alt mr)) as [vt|] eqn:Evt; [|discriminate]. cbn [bind] in Hrow.
  match type of Hrow with (do refs <- ?r; _) = _ => destruct r as [[ref_ref pam_ref]|] eqn:Erefs; [|discriminate] end.
  cbn [bind fst snd] in Hrow.
  destruct (get_mave_nt (mr_alt_pos mr) x0 vt ref_ref (mr_alt mr)) as [mv_ref|] eqn:Emr; [|discriminate]. cbn [bind] in Hrow.
  destruct (get_mave_nt (mr_alt_pos mr) x0 vt pam_ref (mr_alt mr)) as [mv0|] eqn:Em0; [|discriminate]. cbn [bind] in Hrow.
  destruct (mk_variant (mr_alt_pos mr) pam_ref (mr_alt mr)) as [nv|] eqn:Env; [|discriminate]. cbn [bind] in Hrow.
  match type of Hrow with (do nts <- ?r; _) = _ => destruct r as [[[[[n1 n2] n3] n4] n5]|] eqn:Ents; [|discriminate] end.
  cbn [bind] in Hrow.
  match type of Hrow with (do wid <- ?r; _) = _ => destruct r as [wid|] eqn:Ewid; [|discriminate] end.
  cbn [bind] in Hrow.
  match type of Hrow with (do vcfs <- ?r; _) = _ => destruct r as [vcfs|] eqn:Evcfs; [|discriminate] end.
  cbn [bind] in Hrow. injection Hrow as <-. cbn [o_mave_nt].
  (* the template's content at the mutated position *)
  assert (Hpam : pam_ref = py_slice a (a + zlen (mr_ref mr)) T /\ zlen pam_ref = zlen (mr_ref mr)).
  { destruct (mr_ref mr) as [|x r] eqn:Er; cbn [is_nil] in Erefs.
    - injection Erefs as <- <-. rewrite zlen_nil, Z.add_0_r, py_slice_empty. auto.
    - destruct (psubstr (cx_seq c) (mr_alt_pos mr) (get_end (mr_alt_pos mr) (zlen (x :: r)))) as [rr|]; [|discriminate].
      cbn [bind] in Erefs.
      destruct (psubstr (cx_alt c) (mr_alt_pos mr) (mr_end mr)) as [pr|] eqn:Epr; [|discriminate]. cbn [bind] in Erefs.
      injection Erefs as <- <-. apply psubstr_slice in Epr. rewrite Halt in Epr. cbn [s_start s_bases] in Epr.
      destruct Epr as [_ ->]. rewrite Hend. unfold get_end. pose proof (zlen_nonneg r). rewrite zlen_cons in *.
      fold a. replace (mr_alt_pos mr + Z.max 0 (1 + zlen r - 1) - x0 + 1) with (a + (1 + zlen r)) by (unfold a; lia).
      split; [reflexivity|]. rewrite py_slice_length_in; lia. }
  destruct Hpam as [Hpam Hpl].
  assert (Hins : vt = VIns -> mr_ref mr = []).
  { intros ->. unfold var_type in Evt. destruct (mr_ref mr), (mr_alt mr); try discriminate; reflexivity. }
  destruct wid as [[[[[[cr pcr] pa] dn] prs] mv]|].
  2:{ (* not widened *)
      unfold get_mave_nt in Em0. destruct (mave_of vt (mr_alt_pos mr - x0 + 1) pam_ref (mr_alt mr)) as [m|] eqn:Em; [|discriminate].
      cbn [bind] in Em0. injection Em0 as <-. exists m. split; [reflexivity|].
      fold a in Em. replace (mr_ref mr) with (mr_ref mr) in * by reflexivity.
      destruct (mave_of_apply_gen T (a + 1) pam_ref (mr_alt mr) vt m Em) as [Happ Hval].
      - intros E. specialize (Hins E). rewrite Hins, zlen_nil in Hpl. now apply zlen_zero_nil.
      - lia.
      - rewrite Hpl. lia.
      - rewrite Hpl. replace (a + 1 - 1) with a by lia. now rewrite Hpam.
      - split; [|assumption]. rewrite Happ, Holigo, Hpl. replace (a + 1 - 1) with a by lia. reflexivity. }
  (* widened to the PAM codon *)
  destruct (is_some (mr_start_exon mr) || is_some (mr_end_exon mr)); [|discriminate]. cbn [bind] in Ewid.
  set (ps := opt_min (mr_alt_pos mr) (mr_start_ppe mr)) in *. set (pe := opt_max (mr_end mr) (mr_end_ppe mr)) in *.
  destruct (mk_range ps pe) as [pr|] eqn:Epr; [|discriminate]. cbn [bind] in Ewid.
  unfold mk_range in Epr. destruct ((0 <=? ps) && (ps <=? pe)) eqn:Ebnd; [|discriminate]. injection Epr as <-. cbn [rs re] in Ewid.
  match type of Ewid with (if ?b then _ else _) = _ => destruct b; [|discriminate] end.
  destruct (psubstr (cx_alt c) ps pe) as [pcr'|] eqn:Epcr; [|discriminate]. cbn [bind fst snd] in Ewid.
  destruct (psubstr (cx_seq c) ps pe) as [cr'|]; [|discriminate]. cbn [bind] in Ewid.
  match type of Ewid with (do pa <- ?r; _) = _ => destruct r as [pa'|] eqn:Epa; [|discriminate] end. cbn [bind] in Ewid.
  match type of Ewid with (do mv <- ?r; _) = _ => destruct r as [mv'|] eqn:Emv; [|discriminate] end. cbn [bind] in Ewid.
  injection Ewid as <- <- <- <- <- <-.
  apply psubstr_slice in Epcr. rewrite Halt in Epcr. cbn [s_start s_bases] in Epcr. destruct Epcr as [Hb1 ->].
  apply psubstr_slice in Epa. cbn [p_seq s_start s_bases] in Epa. rewrite Halt in Epa. cbn [s_start] in Epa. destruct Epa as [Hb2 ->].
  assert (Hps : ps <= mr_alt_pos mr) by (unfold ps, opt_min; destruct (mr_start_ppe mr); lia).
  assert (Hpe : mr_end mr <= pe) by (unfold pe, opt_max; destruct (mr_end_ppe mr); lia).
  set (u := ps - x0) in *. set (w := pe - x0 + 1) in *.
  assert (Hw : a + zlen (mr_ref mr) <= w).
  { unfold w, a. rewrite Hend in Hpe. unfold get_end in Hpe. pose proof (zlen_nonneg (mr_ref mr)). lia. }
  destruct (widen_same T (mr_alt mr) a (zlen (mr_ref mr)) u w) as [Hsl Hsame]; try (unfold u, w, a in *; lia).
  { apply zlen_nonneg. }
  cbv zeta in Hsl, Hsame. rewrite <- Holigo in Hsl, Hsame.
  replace (pe + (zlen (mr_alt mr) - zlen (mr_ref mr)) - x0 + 1) with (w + (zlen (mr_alt mr) - zlen (mr_ref mr))) in * by (unfold w; lia).
  set (alt' := py_slice u (w + (zlen (mr_alt mr) - zlen (mr_ref mr))) (mr_oligo mr)) in *.
  unfold get_mave_nt in Emv.
  match type of Emv with (do m <- ?r; _) = _ => destruct r as [m|] eqn:Em; [|discriminate] end.
  cbn [bind] in Emv. injection Emv as <-. exists m. split; [reflexivity|].
  replace (ps - x0 + 1) with (u + 1) in Em by (unfold u; lia).
  assert (Hor : or_else alt' (mr_alt mr) = alt').
  { unfold or_else. destruct alt' eqn:Ea'; [|reflexivity]. 
    assert (Hz : zlen (py_slice u a T ++ mr_alt mr ++ py_slice (a + zlen (mr_ref mr)) w T) = 0) by (rewrite <- Hsl; reflexivity).
    rewrite !zlen_app in Hz. pose proof (zlen_nonneg (py_slice u a T)). pose proof (zlen_nonneg (py_slice (a + zlen (mr_ref mr)) w T)).
    pose proof (zlen_nonneg (mr_alt mr)). apply zlen_zero_nil. lia. }
  rewrite Hor in Em.
  assert (Hwlen : zlen (py_slice u w T) = w - u) by (rewrite py_slice_length_in; unfold u, w in *; lia).
  destruct (mave_of_apply_gen T (u + 1) (py_slice u w T) alt' _ m Em) as [Happ Hval].
  - intros E. exfalso. destruct (vtype_eqb vt VIns) eqn:Ee; [discriminate|]. subst vt. discriminate Ee.
  - unfold u. lia.
  - rewrite Hwlen. unfold u, w in *. lia.
  - rewrite Hwlen. f_equal; lia.
  - split; [|assumption]. rewrite Happ, Hwlen. replace (u + 1 - 1) with u by lia. replace (u + (w - u)) with w by lia.
    rewrite Hsame. reflexivity.
Qed.

(* ... and mave_nt_ref is the print of a valid term that, applied to the unprotected reference, yields the reference carrying
   only the row's mutation (with or without background variants: the position is the REF-coordinate one) *)
Theorem row_mave_nt_ref_decodes c mr o x0 (R : dna) :
  row_out c mr = Ok o -> p_seq (cx_seq c) = mkSeq x0 R ->
  let a := mr_ref_pos mr - x0 in
  0 <= a -> a + zlen (mr_ref mr) <= zlen R ->
  exists m, o_mave_nt_ref o = print_mave m /\
            mave_apply m R = Some (zfirstn a R ++ mr_alt mr ++ zskipn (a + zlen (mr_ref mr)) R) /\ mave_valid m = true.
Proof.
  intros Hrow Hseq a Ha Hfit.
  unfold row_out in Hrow. rewrite Hseq in Hrow. cbn [s_start] in Hrow.
  destruct (mk_variant (mr_ref_pos mr) (mr_ref mr) (mr_alt mr)) as [v0|] eqn:Ev0; [|discriminate]. cbn [bind] in Hrow.
  destruct (var_type (mr_ref mr) (mr_alt mr)) as [vt|] eqn:Evt; [|discriminate]. cbn [bind] in Hrow.
  match type of Hrow with (do refs <- ?r; _) = _ => destruct r as [[ref_ref pam_ref]|] eqn:Erefs; [|discriminate] end.
  cbn [bind fst snd] in Hrow.
  destruct (get_mave_nt (mr_ref_pos mr) x0 vt ref_ref (mr_alt mr)) as [mv_ref|] eqn:Emr; [|discriminate]. cbn [bind] in Hrow.
  destruct (get_mave_nt (mr_ref_pos mr) x0 vt pam_ref (mr_alt mr)) as [mv0|] eqn:Em0; [|discriminate]. cbn [bind] in Hrow.
  destruct (mk_variant (mr_ref_pos mr) pam_ref (mr_alt mr)) as [nv|] eqn:Env; [|discriminate]. cbn [bind] in Hrow.
  match type of Hrow with (do nts <- ?r; _) = _ => destruct r as [[[[[n1 n2] n3] n4] n5]|] eqn:Ents; [|discriminate] end.
  cbn [bind] in Hrow.
  match type of Hrow with (do wid <- ?r; _) = _ => destruct r as [wid|] eqn:Ewid; [|discriminate] end.
  cbn [bind] in Hrow.
  match type of Hrow with (do vcfs <- ?r; _) = _ => destruct r as [vcfs|] eqn:Evcfs; [|discriminate] end.
  cbn [bind] in Hrow. injection Hrow as <-. cbn [o_mave_nt_ref].
  assert (Href : ref_ref = py_slice a (a + zlen (mr_ref mr)) R /\ zlen ref_ref = zlen (mr_ref mr)).
  { destruct (mr_ref mr) as [|x r] eqn:Er; cbn [is_nil] in Erefs.
    - injection Erefs as <- <-. rewrite zlen_nil, Z.add_0_r, py_slice_empty. auto.
    - destruct (psubstr (mkPSeq (mkSeq x0 R) (p_prev (cx_seq c))) (mr_ref_pos mr) (get_end (mr_ref_pos mr) (zlen (x :: r)))) as [rr|] eqn:Err.
      2:{ replace (cx_seq c) with (mkPSeq (mkSeq x0 R) (p_prev (cx_seq c))) in Erefs by (destruct (cx_seq c); cbn in *; congruence).
          rewrite Err in Erefs. discriminate. }
      replace (cx_seq c) with (mkPSeq (mkSeq x0 R) (p_prev (cx_seq c))) in Erefs by (destruct (cx_seq c); cbn in *; congruence).
      rewrite Err in Erefs. cbn [bind] in Erefs.
      destruct (psubstr (cx_alt c) (mr_alt_pos mr) (mr_end mr)) as [pr|]; [|discriminate]. cbn [bind] in Erefs.
      injection Erefs as <- <-. apply psubstr_slice in Err. cbn [p_seq s_start s_bases] in Err.
      destruct Err as [_ ->]. unfold get_end. pose proof (zlen_nonneg r). rewrite zlen_cons in *.
      fold a. replace (mr_ref_pos mr + Z.max 0 (1 + zlen r - 1) - x0 + 1) with (a + (1 + zlen r)) by (unfold a; lia).
      split; [reflexivity|]. rewrite py_slice_length_in; lia. }
  destruct Href as [Href Hrl].
  assert (Hins : vt = VIns -> mr_ref mr = []).
  { intros ->. unfold var_type in Evt. destruct (mr_ref mr), (mr_alt mr); try discriminate; reflexivity. }
  unfold get_mave_nt in Emr. destruct (mave_of vt (mr_ref_pos mr - x0 + 1) ref_ref (mr_alt mr)) as [m|] eqn:Em; [|discriminate].
  cbn [bind] in Emr. injection Emr as <-. exists m. split; [reflexivity|]. fold a in Em.
  destruct (mave_of_apply_gen R (a + 1) ref_ref (mr_alt mr) vt m Em) as [Happ Hval].
  - intros E. specialize (Hins E). rewrite Hins, zlen_nil in Hrl. now apply zlen_zero_nil.
  - lia.
  - rewrite Hrl. lia.
  - rewrite Hrl. replace (a + 1 - 1) with a by lia. now rewrite Href.
  - split; [|assumption]. rewrite Happ, Hrl. replace (a + 1 - 1) with a by lia. reflexivity.
Qed.

Definition ex_ctx : csv_ctx :=
  mkCtx (mkPSeq (mkSeq 100 (d "ACGTACGTAC")) (Some G)) (mkPSeq (mkSeq 100 (d "ACGTTCGTAC")) (Some G)) None false (d "AA") (d "CC") 1 100 true.
Definition ex_row : meta_row :=
  mkMR 103 103 103 (d "T") (d "A") None false (d "ACGATCGTAC") (Some 1) None (Some 1) (Some 104).
Example row_example :
  match row_out ex_ctx ex_row with
  | Ok o => o_mave_nt o = "g.4_5delinsAT"%string /\ o_mave_nt_ref o = "g.4T>A"%string /\
            exists m, o_mave_nt o = print_mave m /\ mave_apply m (d "ACGTTCGTAC") = Some (d "ACGATCGTAC") /\ mave_valid m = true
  | Err _ => False
  end.
Proof.
  destruct (row_out ex_ctx ex_row) as [o|] eqn:E; [|vm_compute in E; discriminate].
  split; [|split].
  - vm_compute in E. injection E as <-. reflexivity.
  - vm_compute in E. injection E as <-. reflexivity.
  - apply (row_mave_nt_decodes ex_ctx ex_row o 100 (d "ACGTTCGTAC") E); try reflexivity; vm_compute; congruence.
Qed.
