From VV Require Import Model.Base Model.Pattern Model.Transcript Proofs.BaseLemmas Proofs.CodonProofs.
From VV Require Import Model.CodonsInRange.
From Coq Require Import Lia ZifyBool.
Ltac Zify.zify_post_hook ::= Z.to_euclidean_division_equations.

(* ---- dropping duplicates ---- *)
Fixpoint no_adjacent_dup (prev : Z) (l : list cds_seq) : Prop :=
  match l with [] => True | c :: l' => ext_start c <> prev /\ no_adjacent_dup (ext_start c) l' end.

Lemma drop_dups_no_adjacent : forall l prev, no_adjacent_dup prev (drop_dups prev l).
Proof.
  induction l as [|c l IH]; intros prev; cbn [drop_dups]; [exact I|].
  destruct (ext_start c =? prev) eqn:E.
  - assert (ext_start c = prev) as -> by lia. apply IH.
  - cbn [no_adjacent_dup]. split; [lia | apply IH].
Qed.

Lemma drop_dups_keeps_start : forall l prev c, In c l ->
  ext_start c = prev \/ exists c', In c' (drop_dups prev l) /\ ext_start c' = ext_start c.
Proof.
  induction l as [|x l IH]; intros prev c Hin; [destruct Hin|]. cbn [drop_dups].
  destruct Hin as [->|Hin].
  - destruct (ext_start c =? prev) eqn:E; [left; lia | right; exists c; split; [left; reflexivity | reflexivity]].
  - destruct (IH (ext_start x) c Hin) as [Heq|(c' & Hc' & He)].
    + destruct (ext_start x =? prev) eqn:E; [left; lia | right; exists x; split; [left; reflexivity | lia]].
    + right. exists c'. split; [|exact He]. destruct (ext_start x =? prev); [exact Hc' | right; exact Hc'].
Qed.

(* ---- the codon indices of a sub-range of an exon cover the index of each of its positions ---- *)
Lemma intersect_some a b t : range_valid a = true -> range_valid b = true -> intersect a b = Some t ->
  rs t = Z.max (rs a) (rs b) /\ re t = Z.min (re a) (re b) /\ rs t <= re t.
Proof.
  unfold intersect, range_valid. intros Ha Hb. destruct (overlaps a b) eqn:Eo; [|discriminate].
  intros H; inversion H; subst t; cbn [rs re]. unfold overlaps, range_in, in_range in Eo. lia.
Qed.

Lemma codon_indices_cover s e r t idx p k :
  range_valid (x_range e) = true -> range_valid r = true ->
  intersect (x_range e) r = Some t -> codon_indices s e r = Ok idx ->
  in_range p t = true -> codon_index_at s e p = Ok (Some k) -> In k idx.
Proof.
  unfold codon_indices. intros Ve Vr Ht. rewrite Ht. intros H Hp Hk.
  destruct (intersect_some _ _ _ Ve Vr Ht) as (Hs & He & Hse).
  unfold codon_index_at in *. cbn [x_range rs re] in Hs, He.
  assert (in_range (rs t) (x_range e) = true) as E1 by (unfold in_range in *; cbn [x_range rs re]; lia).
  assert (in_range (re t) (x_range e) = true) as E2 by (unfold in_range in *; cbn [x_range rs re]; lia).
  rewrite E1, E2 in H. cbn [negb] in H.
  destruct (in_range p (x_range e)) eqn:E3; cbn [negb] in Hk; [|discriminate].
  destruct (first_codon_start s e) as [fcs|] eqn:Ef; cbn [bind] in *; [|discriminate].
  inversion Hk; subst k; clear Hk. inversion H; subst idx; clear H.
  unfold first_codon_start in Ef. destruct (cds_prefix_length e) as [pl|] eqn:Epl; cbn [bind] in Ef; [|discriminate].
  inversion Ef; subst fcs; clear Ef.
  assert (0 <= pl <= 2) as Hpl.
  { unfold cds_prefix_length, compl_offset in Epl. destruct (x_frame e =? 0); [inversion Epl; lia|].
    destruct (x_frame e =? 1); [inversion Epl; lia|]. destruct (x_frame e =? 2); [inversion Epl; lia | discriminate]. }
  unfold in_range in *. cbn [x_range rs re] in *.
  destruct (is_plus s).
  - match goal with |- In ?k (if ?c then _ else _) => destruct c eqn:Ec end.
    + apply zrange_In. lia.
    + rewrite <- in_rev. apply zrange_In. lia.
  - match goal with |- In ?k (if ?c then _ else _) => destruct c eqn:Ec end.
    + apply zrange_In. lia.
    + rewrite <- in_rev. apply zrange_In. lia.
Qed.

(* ---- the exons a range meets ---- *)
Fixpoint sorted_after (lo : Z) (l : list exon) : Prop :=
  match l with [] => True | e :: l' => lo < x_start e /\ 0 <= x_start e <= x_end e /\ sorted_after (x_end e) l' end.

Lemma intersect_none a b : range_valid a = true -> range_valid b = true -> intersect a b = None -> re a < rs b \/ re b < rs a.
Proof.
  unfold intersect, range_valid. intros Ha Hb. destruct (overlaps a b) eqn:Eo; [discriminate|]. intros _.
  unfold overlaps, range_in, in_range in Eo. lia.
Qed.

Lemma sorted_after_start lo l e : sorted_after lo l -> In e l -> lo < x_start e /\ 0 <= x_start e <= x_end e.
Proof.
  revert lo; induction l as [|x l IH]; intros lo Hs Hin; [destruct Hin|]. cbn [sorted_after] in Hs. destruct Hs as (H1 & H2 & H3).
  destruct Hin as [->|Hin]; [split; assumption|]. destruct (IH _ H3 Hin) as (H4 & H5). split; [lia | exact H5].
Qed.

Lemma exon_ranges_complete r : range_valid r = true -> forall exons lo started,
  sorted_after lo exons -> (started = true -> rs r <= lo) ->
  forall e ri, In e exons -> intersect r (x_range e) = Some ri -> In (e, ri) (exon_ranges exons r started).
Proof.
  intros Vr. induction exons as [|x l IH]; intros lo started Hs Hst e ri Hin Hi; [destruct Hin|].
  cbn [sorted_after] in Hs. destruct Hs as (H1 & H2 & H3). cbn [exon_ranges].
  assert (range_valid (x_range x) = true) as Vx by (unfold range_valid; cbn [x_range rs re]; lia).
  destruct (intersect r (x_range x)) as [rx|] eqn:Ex.
  - destruct Hin as [->|Hin]; [rewrite Hi in Ex; inversion Ex; left; reflexivity|].
    right. apply (IH (x_end x) true H3); [|exact Hin | exact Hi].
    intros _. destruct (intersect_some _ _ _ Vr Vx Ex) as (Ha & Hb & Hc). cbn [x_range rs re] in *. lia.
  - destruct Hin as [->|Hin]; [rewrite Hi in Ex; discriminate|].
    destruct (intersect_none _ _ Vr Vx Ex) as [Hlt|Hlt]; cbn [x_range rs re] in Hlt.
    + (* the range ends before this exon: no later exon meets it *)
      exfalso. destruct (sorted_after_start _ _ _ H3 Hin) as (H4 & H5).
      assert (range_valid (x_range e) = true) as Ve by (unfold range_valid; cbn [x_range rs re]; lia).
      destruct (intersect_some _ _ _ Vr Ve Hi) as (Ha & Hb & Hc). cbn [x_range rs re] in *. lia.
    + destruct started; [specialize (Hst eq_refl); lia|].
      apply (IH (x_end x) false H3); [discriminate | exact Hin | exact Hi].
Qed.

(* ---- membership through the two mapM ---- *)
Lemma mapM_In_fwd' {X Y} (f : X -> result Y) : forall l l', mapM f l = Ok l' -> forall x, In x l -> exists y, f x = Ok y /\ In y l'.
Proof.
  induction l as [|x0 l IH]; intros l' H x Hx; [destruct Hx|]. cbn [mapM] in H.
  destruct (f x0) as [y0|] eqn:Ef; cbn [bind] in H; [|discriminate].
  destruct (mapM f l) as [ys|] eqn:Em; cbn [bind] in H; [|discriminate].
  inversion H; subst l'. destruct Hx as [->|Hx]; [exists y0; split; [exact Ef | left; reflexivity]|].
  destruct (IH ys eq_refl x Hx) as (y & Hy & Hin). exists y. split; [exact Hy | right; exact Hin].
Qed.

(* the codon of index k contains the positions of index k *)
Lemma exon_get_codon_contains s e p k cr :
  0 <= x_start e <= x_end e -> codon_index_at s e p = Ok (Some k) -> exon_get_codon s e k = Ok cr -> in_range p cr = true.
Proof.
  intros Ve Hk Hc. unfold codon_index_at in Hk. destruct (in_range p (x_range e)) eqn:Ep; cbn [negb] in Hk; [|discriminate].
  unfold exon_get_codon in Hc. destruct (k <? 0); [discriminate|].
  destruct (first_codon_start s e) as [fcs|] eqn:Ef; cbn [bind] in *; [|discriminate].
  inversion Hk; subst k; clear Hk.
  unfold first_codon_start in Ef. destruct (cds_prefix_length e) as [pl|] eqn:Epl; cbn [bind] in Ef; [|discriminate].
  assert (0 <= pl <= 2) as Hpl.
  { unfold cds_prefix_length, compl_offset in Epl. destruct (x_frame e =? 0); [inversion Epl; lia|].
    destruct (x_frame e =? 1); [inversion Epl; lia|]. destruct (x_frame e =? 2); [inversion Epl; lia | discriminate]. }
  inversion Ef; subst fcs; clear Ef.
  unfold codon_range, mk_range in Hc. unfold in_range in Ep. cbn [x_range rs re] in Ep.
  destruct (is_plus s).
  - match type of Hc with context [if ?c then Ok ?v else Err _] => destruct c eqn:Ec; cbn [bind] in Hc; [|discriminate] end.
    unfold intersect in Hc. match type of Hc with context [overlaps ?a ?b] => destruct (overlaps a b); [|discriminate] end.
    cbn [rs re x_range] in Hc.
    match type of Hc with (if ?c then _ else _) = _ => destruct c; [|discriminate] end.
    apply Ok_inj in Hc. subst cr. unfold in_range. cbn [rs re]. lia.
  - match type of Hc with context [if ?c then Ok ?v else Err _] => destruct c eqn:Ec; cbn [bind] in Hc; [|discriminate] end.
    unfold intersect in Hc. match type of Hc with context [overlaps ?a ?b] => destruct (overlaps a b); [|discriminate] end.
    cbn [rs re x_range] in Hc.
    match type of Hc with (if ?c then _ else _) = _ => destruct c; [|discriminate] end.
    apply Ok_inj in Hc. subst cr. unfold in_range. cbn [rs re]. lia.
Qed.

(* ---- completeness: the codon of every exonic position of the range is among the codons returned ---- *)
Theorem codons_in_range_complete t q r out :
  get_codons_in_range t q r = Ok out -> range_valid r = true -> sorted_after (-1) (t_exons t) ->
  forall p e, in_range p r = true -> exon_at_pos t p = Some e ->
  exists k cr c,
    codon_index_at (t_strand t) e p = Ok (Some k) /\ exon_get_codon (t_strand t) e k = Ok cr /\ in_range p cr = true /\
    get_cds_seq_exon t q e cr = Ok c /\ get_codon_at t q p = Ok (Some c) /\
    exists c', In c' out /\ ext_start c' = ext_start c.
Proof.
  unfold get_codons_in_range. intros H Vr Hs p e Hp He.
  destruct (codon_seqs t q (exon_ranges (t_exons t) r false)) as [cs|] eqn:Ecs; cbn [bind] in H; [|discriminate].
  pose proof He as He0. unfold exon_at_pos in He. apply find_some in He. destruct He as (Hin & Hpe).
  destruct (sorted_after_start _ _ _ Hs Hin) as (_ & Ve).
  assert (range_valid (x_range e) = true) as Vx by (unfold range_valid; cbn [x_range rs re]; lia).
  (* the exon is met by the range *)
  destruct (intersect r (x_range e)) as [ri|] eqn:Ei.
  2:{ exfalso. destruct (intersect_none _ _ Vr Vx Ei) as [Hlt|Hlt]; unfold in_range in *; cbn [x_range rs re] in *; lia. }
  destruct (intersect_some _ _ _ Vr Vx Ei) as (Ha & Hb & Hc). cbn [x_range rs re] in Ha, Hb.
  assert (In (e, ri) (exon_ranges (t_exons t) r false)) as Her.
  { apply (exon_ranges_complete r Vr (t_exons t) (-1) false Hs); [discriminate | exact Hin | exact Ei]. }
  unfold codon_seqs in Ecs.
  destruct (mapM _ (exon_ranges (t_exons t) r false)) as [ll|] eqn:Em; cbn [bind] in Ecs; [|discriminate].
  apply Ok_inj in Ecs. subst cs.
  destruct (mapM_In_fwd' _ _ _ Em (e, ri) Her) as (inner & Hinner & Hll). cbn [fst snd] in Hinner.
  destruct (codon_indices (t_strand t) e ri) as [idx|] eqn:Eidx; cbn [bind] in Hinner; [|discriminate].
  (* the index of p *)
  assert (range_valid ri = true) as Vri by (unfold range_valid; lia).
  destruct (intersect (x_range e) ri) as [t0|] eqn:Et0.
  2:{ exfalso. destruct (intersect_none _ _ Vx Vri Et0) as [Hlt|Hlt]; cbn [x_range rs re] in *; lia. }
  destruct (intersect_some _ _ _ Vx Vri Et0) as (Ha0 & Hb0 & Hc0). cbn [x_range rs re] in Ha0, Hb0.
  assert (in_range p t0 = true) as Hpt by (unfold in_range in *; cbn [x_range rs re] in *; lia).
  assert (exists k, codon_index_at (t_strand t) e p = Ok (Some k)) as (k & Hk).
  { unfold codon_index_at. rewrite Hpe. cbn [negb].
    unfold codon_indices in Eidx. rewrite Et0 in Eidx. unfold codon_index_at in Eidx.
    destruct (in_range (rs t0) (x_range e)); cbn [negb] in Eidx.
    - destruct (first_codon_start (t_strand t) e) as [fcs|]; cbn [bind] in *; [eexists; reflexivity | discriminate].
    - cbn [bind] in Eidx. destruct (in_range (re t0) (x_range e)); cbn [negb bind] in Eidx; [|discriminate].
      destruct (first_codon_start (t_strand t) e) as [fcs|]; cbn [bind] in *; [eexists; reflexivity | discriminate]. }
  pose proof (codon_indices_cover _ _ _ _ _ _ _ Vx Vri Et0 Eidx Hpt Hk) as Hkin.
  destruct (mapM_In_fwd' _ _ _ Hinner k Hkin) as (c & Hc1 & Hcin).
  destruct (exon_get_codon (t_strand t) e k) as [cr|] eqn:Ecr; cbn [bind] in Hc1; [|discriminate].
  pose proof (exon_get_codon_contains _ _ _ _ _ Ve Hk Ecr) as Hpcr.
  exists k, cr, c. repeat split; try assumption.
  - unfold get_codon_at. rewrite He0. unfold exon_get_codon_at. rewrite Hk. cbn [bind]. rewrite Ecr. cbn [bind].
    rewrite Hpcr. cbn [negb]. rewrite Hc1. reflexivity.
  - assert (In c (concat ll)) as Hcc by (apply in_concat; exists inner; split; assumption).
    destruct (concat ll) as [|c0 rest] eqn:Ecc; [destruct Hcc|]. apply Ok_inj in H. subst out.
    destruct Hcc as [->|Hrest]; [exists c; split; [left; reflexivity | reflexivity]|].
    destruct (drop_dups_keeps_start rest (ext_start c0) c Hrest) as [Heq|(c' & Hc' & He')].
    + exists c0. split; [left; reflexivity | lia].
    + exists c'. split; [right; exact Hc' | exact He'].
Qed.

(* no codon is returned twice in a row *)
Theorem codons_in_range_no_adjacent_dup t q r c rest :
  get_codons_in_range t q r = Ok (c :: rest) -> no_adjacent_dup (ext_start c) rest.
Proof.
  unfold get_codons_in_range. destruct (codon_seqs _ _ _) as [cs|]; cbn [bind]; [|discriminate].
  destruct cs as [|c0 l]; intros H; apply Ok_inj in H; [discriminate|]. inversion H; subst. apply drop_dups_no_adjacent.
Qed.
