(* The offsets tables and mask arrays of GenomicPositionOffsets compute the liftover specification (C05). *)
From VV Require Import Model.Base Model.Pattern Model.Gpo Spec.LiftSpec
  Proofs.BaseLemmas Proofs.TargetonProofs Proofs.LiftSpecProofs.

(* ---- sorting and clamping a well-formed set is the identity ---- *)
Lemma sort_wf lo hi vs : wf lo hi vs -> sort_by_pos vs = vs.
Proof.
  revert lo; induction vs as [|v vs IH]; intros lo Hwf; [reflexivity|].
  destruct Hwf as (H1 & Hk & H3 & Hwf). unfold sort_by_pos in *. cbn [fold_right]. rewrite (IH _ Hwf).
  destruct vs as [|x vs]; [reflexivity|]. cbn [insert_by_pos].
  destruct Hwf as (Hx & _). unfold next_free in Hx.
  replace (vpos v <=? vpos x) with true by (symmetry; apply Z.leb_le; lia). reflexivity.
Qed.

Lemma wf_all lo hi vs v : wf lo hi vs -> In v vs -> lo <= vpos v /\ next_free v - 1 <= hi /\ kind_ok v = true.
Proof.
  revert lo; induction vs as [|x vs IH]; intros lo Hwf Hin; [easy|].
  destruct Hwf as (H1 & Hk & H3 & Hwf). destruct Hin as [->|Hin]; [auto|].
  destruct (IH _ Hwf Hin) as (A & B & C). unfold next_free in *. repeat split; auto; lia.
Qed.

Lemma in_range_of_wf lo hi v : lo <= vpos v -> next_free v - 1 <= hi -> kind_ok v = true ->
  vs_in_range v (mkRange lo hi) = true.
Proof.
  intros H1 H2 Hk. unfold vs_in_range, in_range, vref_end, get_end, next_free in *. cbn [rs re].
  kinds v Hk; bsolve.
Qed.

Lemma last_in' {X} (l : list X) d : l <> [] -> In (last l d) l.
Proof.
  induction l as [|x l IH]; intros H; [congruence|].
  destruct l as [|y l]; [now left|]. right. apply IH. congruence.
Qed.

Lemma clamp_wf r vs : 0 < rs r -> wf (rs r) (re r) vs -> clamp vs r = Ok vs.
Proof.
  intros Hr Hwf. unfold clamp. replace (rs r <=? 0) with false by (symmetry; apply Z.leb_gt; lia).
  rewrite (sort_wf _ _ _ Hwf). destruct vs as [|v rest]; [reflexivity|].
  destruct r as [lo hi]; cbn [rs re] in *.
  destruct (wf_all _ _ _ v Hwf (or_introl eq_refl)) as (A & B & C).
  rewrite (in_range_of_wf _ _ _ A B C). cbn [negb].
  assert (Hl : In (last rest v) (v :: rest)).
  { clear. destruct rest as [|x rest]; [now left|]. right. apply last_in'. congruence. }
  destruct (wf_all _ _ _ _ Hwf Hl) as (A' & B' & C').
  rewrite (in_range_of_wf _ _ _ A' B' C'). reflexivity.
Qed.

(* ---- masks ---- *)
Definition msem (m : mask) (N : Z) (f : Z -> bool) : Prop :=
  zlen m = N /\ forall k, 0 <= k < N -> znth k m = Some (f k).

Lemma msem_ext m N f g : msem m N f -> (forall k, 0 <= k < N -> f k = g k) -> msem m N g.
Proof. intros [Hl Hf] He. split; [assumption|]. intros k Hk. rewrite Hf by assumption. f_equal. now apply He. Qed.

Lemma msem_zeros n : 0 <= n -> msem (zeros n) n (fun _ => false).
Proof.
  intros Hn. unfold zeros, msem, zlen. rewrite repeat_length. split; [lia|].
  intros k Hk. unfold znth. replace (k <? 0) with false by (symmetry; apply Z.ltb_ge; lia).
  apply nth_error_repeat. lia.
Qed.

Lemma msem_mget m N f k : msem m N f -> 0 <= k < N -> mget m k = Ok (f k).
Proof.
  intros [Hl Hf] Hk. unfold mget. replace (k <? 0) with false by (symmetry; apply Z.ltb_ge; lia).
  now rewrite Hf.
Qed.

Lemma mark_from_length m : forall j i n, zlen (mark_from j m i n) = zlen m.
Proof. induction m as [|b m IH]; intros; cbn [mark_from]; [reflexivity|]. now rewrite !zlen_cons, IH. Qed.

Lemma znth_cons_pos {X} k (x : X) l : 0 < k -> znth k (x :: l) = znth (k - 1) l.
Proof. intros H. replace k with ((k - 1) + 1) at 1 by lia. apply znth_cons_succ. lia. Qed.

Lemma znth_mark_from m : forall j i n k b, 0 <= k -> znth k m = Some b ->
  znth k (mark_from j m i n) = Some (b || ((i <=? k + j) && (k + j <? i + n))).
Proof.
  induction m as [|x m IH]; intros j i n k b Hk Hb; cbn [mark_from].
  - unfold znth in Hb. destruct (k <? 0); [discriminate|]. now destruct (Z.to_nat k).
  - destruct (Z.eq_dec k 0) as [->|Hne].
    + rewrite znth_zero in *. injection Hb as ->. now rewrite Z.add_0_l.
    + rewrite znth_cons_pos in * by lia. rewrite (IH _ _ _ _ b) by (assumption || lia).
      replace (k - 1 + (j + 1)) with (k + j) by lia. reflexivity.
Qed.

Lemma msem_mark m N f i n : msem m N f -> (0 < n -> 0 <= i /\ i + n <= N) ->
  exists m', mark m i n = Ok m' /\ msem m' N (fun k => f k || ((i <=? k) && (k <? i + n))).
Proof.
  intros [Hl Hf] Hr. unfold mark. destruct (n <=? 0) eqn:En; zb.
  - exists m. split; [reflexivity|]. split; [assumption|]. intros k Hk. rewrite Hf by assumption.
    f_equal. replace ((i <=? k) && (k <? i + n)) with false; [now rewrite orb_false_r|].
    symmetry. apply andb_false_iff. destruct (i <=? k) eqn:E; [right; zb; apply Z.ltb_ge; lia|now left].
  - destruct (Hr ltac:(lia)) as [Hi Hin].
    replace (i <? 0) with false by (symmetry; apply Z.ltb_ge; lia).
    replace (zlen m <? i + n) with false by (symmetry; apply Z.ltb_ge; lia).
    eexists. split; [reflexivity|]. split; [now rewrite mark_from_length|].
    intros k Hk. rewrite (znth_mark_from m 0 i n k (f k)) by (lia || now apply Hf).
    now rewrite Z.add_0_r.
Qed.

(* _compute_ref_del_mask: the deletion mask marks deleted bases, the shift mask deleted bases and insertion points *)
Lemma ref_masks_sem start N hi vs : forall lo dm sm fd fs,
  wf lo hi vs -> start <= lo -> hi <= start + N - 1 -> msem dm N fd -> msem sm N fs ->
  exists dm' sm', ref_masks start vs dm sm = Ok (dm', sm') /\
    msem dm' N (fun k => fd k || deleted vs (start + k)) /\
    msem sm' N (fun k => fs k || touches vs (start + k)).
Proof.
  induction vs as [|v vs IH]; intros lo dm sm fd fs Hwf Hlo Hhi Hd Hs; cbn [ref_masks].
  - exists dm, sm. split; [reflexivity|]. split; eapply msem_ext; eauto; intros; cbn; now rewrite orb_false_r.
  - destruct Hwf as (H1 & Hk & H3 & Hwf). unfold next_free in *.
    assert (Hdc : forall p, deleted (v :: vs) p = covers_del v p || deleted vs p) by reflexivity.
    assert (Htc : forall p, touches (v :: vs) p = (covers_del v p || (is_ins v && (vpos v =? p))) || touches vs p).
    { intros p. unfold touches, deleted, ins_point. cbn [existsb].
      generalize (covers_del v p) (is_ins v && (vpos v =? p)) (existsb (fun v0 => covers_del v0 p) vs)
                 (existsb (fun v0 => is_ins v0 && (vpos v0 =? p)) vs).
      intros [] [] [] []; reflexivity. }
    destruct (delta v =? 0) eqn:Ed; zb.
    + destruct (IH _ dm sm fd fs Hwf ltac:(lia) Hhi Hd Hs) as (dm' & sm' & -> & Sd & Ss).
      exists dm', sm'. split; [reflexivity|].
      assert (Hc0 : forall p, covers_del v p = false) by (intros p; unfold covers_del; kinds v Hk; unfold delta in *; try lia; now rewrite Hdel).
      assert (Hi0 : is_ins v = false) by (kinds v Hk; unfold delta in *; auto; lia).
      split; eapply msem_ext; eauto; intros k Hk'; cbn beta; rewrite ?Hdc, ?Htc, ?Hc0, ?Hi0; reflexivity.
    + destruct (msem_mark sm N fs (vpos v - start) (Z.max 1 (vrl v)) Hs ltac:(lia)) as (sm1 & -> & Ss1). cbn [bind].
      assert (Hdm : exists dm1, (if delta v <? 0 then mark dm (vpos v - start) (vrl v) else Ok dm) = Ok dm1 /\
                    msem dm1 N (fun k => fd k || covers_del v (start + k))).
      { destruct (delta v <? 0) eqn:Eneg; zb.
        - destruct (msem_mark dm N fd (vpos v - start) (vrl v) Hd ltac:(lia)) as (dm1 & -> & Sd1).
          exists dm1. split; [reflexivity|]. eapply msem_ext; eauto. intros k Hk'. cbn beta. f_equal.
          unfold covers_del. kinds v Hk; unfold delta in *; try lia. rewrite Hdel. cbn [andb]. bsolve.
        - exists dm. split; [reflexivity|]. eapply msem_ext; eauto. intros k Hk'. cbn beta.
          unfold covers_del. kinds v Hk; unfold delta in *; try lia; rewrite Hdel; cbn [andb]; now rewrite orb_false_r. }
      destruct Hdm as (dm1 & -> & Sd1). cbn [bind].
      destruct (IH _ dm1 sm1 _ _ Hwf ltac:(lia) Hhi Sd1 Ss1) as (dm' & sm' & -> & Sd & Ss).
      exists dm', sm'. split; [reflexivity|]. split; eapply msem_ext; eauto; intros k Hk'; cbn beta; rewrite ?Hdc, ?Htc.
      * now rewrite orb_assoc.
      * rewrite <- orb_assoc. f_equal. f_equal. unfold covers_del.
        kinds v Hk; unfold delta in *; try lia; rewrite Hdel, Hins; cbn [andb orb]; bsolve.
Qed.

(* the ALT length of a block of variants is never negative *)
Lemma sum_bound_s lo hi vs : wf lo hi vs -> lo <= hi + 1 -> 0 <= hi + 1 - lo + sum_delta vs.
Proof.
  revert lo; induction vs as [|v vs IH]; intros lo Hwf Hlo; cbn [sum_delta fold_right]; [lia|].
  destruct Hwf as (H1 & Hk & H3 & Hwf). fold (sum_delta vs). unfold next_free in *.
  specialize (IH _ Hwf ltac:(lia)). kinds v Hk; unfold delta; lia.
Qed.

(* _compute_alt_ins_mask marks exactly the inserted ALT bases *)
Lemma ins_mask_sem start N hi vs : forall lo off m f,
  wf lo hi vs -> lo <= hi + 1 -> start <= lo + off -> hi + 1 + off + sum_delta vs = start + N -> msem m N f ->
  exists m', ins_mask start off vs m = Ok m' /\ msem m' N (fun k => f k || inserted off vs (start + k)).
Proof.
  induction vs as [|v vs IH]; intros lo off m f Hwf Hlh Hlo Hsum Hm; cbn [ins_mask inserted].
  - exists m. split; [reflexivity|]. eapply msem_ext; eauto. intros; cbn; now rewrite orb_false_r.
  - destruct Hwf as (H1 & Hk & H3 & Hwf). unfold next_free in *.
    cbn [sum_delta fold_right] in Hsum. fold (sum_delta vs) in Hsum.
    pose proof (sum_bound_s _ _ _ Hwf ltac:(lia)) as Hsb.
    assert (Hm1 : exists m1, (if 0 <? delta v then mark m (vpos v + off - start) (val v) else Ok m) = Ok m1 /\
       msem m1 N (fun k => f k || (is_ins v && (vpos v + off <=? start + k) && (start + k <? vpos v + off + val v)))).
    { destruct (0 <? delta v) eqn:Ep; zb.
      - destruct (msem_mark m N f (vpos v + off - start) (val v) Hm) as (m1 & -> & S1).
        { intros _. kinds v Hk; unfold delta in *; lia. }
        exists m1. split; [reflexivity|]. eapply msem_ext; eauto. intros k Hk'. cbn beta. f_equal.
        kinds v Hk; unfold delta in *; try lia. rewrite Hins. cbn [andb]. bsolve.
      - exists m. split; [reflexivity|]. eapply msem_ext; eauto. intros k Hk'. cbn beta.
        kinds v Hk; unfold delta in *; try lia; rewrite Hins; cbn [andb]; now rewrite orb_false_r. }
    destruct Hm1 as (m1 & -> & S1). cbn [bind].
    assert (A1 : vpos v + Z.max 1 (vrl v) <= hi + 1) by lia.
    assert (A2 : start <= vpos v + Z.max 1 (vrl v) + (off + delta v)) by (kinds v Hk; unfold delta; lia).
    assert (A3 : hi + 1 + (off + delta v) + sum_delta vs = start + N) by lia.
    destruct (IH (vpos v + Z.max 1 (vrl v)) (off + delta v) m1 _ Hwf A1 A2 A3 S1) as (m' & -> & S').
    exists m'. split; [reflexivity|]. eapply msem_ext; eauto. intros k Hk'. cbn beta. now rewrite orb_assoc.
Qed.

(* ---- offsets tables ---- *)
Fixpoint scan (prev : Z) (l : list (Z * Z)) (p : Z) : Z :=
  match l with [] => prev | (q, o) :: l' => if p <? q then prev else scan o l' p end.

Fixpoint sorted_fst (l : list (Z * Z)) : Prop :=
  match l with
  | [] => True
  | (q, _) :: l' => (forall x, In x l' -> q <= fst x) /\ sorted_fst l'
  end.

Lemma offset_loop_scan l : forall prev p, (exists x, In x l /\ p < fst x) -> offset_loop prev l p = scan prev l p.
Proof.
  induction l as [|[q o] l IH]; intros prev p (x & Hin & Hx); [easy|]. cbn [offset_loop scan].
  destruct (p <? q) eqn:E; [reflexivity|]. zb. apply IH.
  destruct Hin as [<-|Hin]; [cbn in Hx; lia|]. eauto.
Qed.

Lemma scan_all l : forall prev p d, l <> [] -> (forall x, In x l -> fst x <= p) -> scan prev l p = snd (last l d).
Proof.
  induction l as [|[q o] l IH]; intros prev p d Hne Hall; [congruence|]. cbn [scan].
  pose proof (Hall (q, o) (or_introl eq_refl)) as Hq. cbn in Hq.
  replace (p <? q) with false by (symmetry; apply Z.ltb_ge; lia).
  destruct l as [|y l]; [reflexivity|].
  rewrite (IH o p d); [reflexivity|congruence|]. intros x Hx. apply Hall. now right.
Qed.

Lemma last_in {X} (l : list X) d : l <> [] -> In (last l d) l.
Proof.
  induction l as [|x l IH]; intros H; [congruence|].
  destruct l as [|y l]; [now left|]. right. apply IH. congruence.
Qed.

Lemma get_pos_offset_scan l p : sorted_fst l -> get_pos_offset l p = scan 0 l p.
Proof.
  destruct l as [|[fp fo] rest]; [reflexivity|]. intros [Hmin Hs]. cbn [get_pos_offset scan].
  destruct (p <? fp) eqn:E; [reflexivity|]. zb.
  destruct (last rest (fp, fo)) as [lp lo] eqn:El.
  destruct (lp <=? p) eqn:E2; zb.
  - destruct rest as [|y rest]; [cbn in El; now injection El as <- <-|].
    rewrite (scan_all (y :: rest) fo p (fp, fo)); [now rewrite El|congruence|].
    (* every entry is <= the last one *)
    intros x Hx. enough (fst x <= lp) by lia.
    clear - Hs Hx El. revert x Hx lp lo El.
    generalize (fp, fo) as d. induction (y :: rest) as [|[q o] l IH]; intros d x Hx lp lo El; [easy|].
    destruct Hs as [Hq Hs']. destruct l as [|z l].
    + cbn in El. injection El as <- <-. destruct Hx as [<-|[]]. cbn; lia.
    + destruct Hx as [<-|Hx].
      * cbn [fst]. assert (Hl : In (last (z :: l) d) (z :: l)) by (apply last_in; congruence).
        change (last ((q, o) :: z :: l) d) with (last (z :: l) d) in El. rewrite El in Hl.
        specialize (Hq _ Hl). cbn in Hq. lia.
      * apply (IH Hs' d x Hx lp lo). exact El.
  - apply offset_loop_scan. destruct rest as [|y rest]; [cbn in El; injection El as <- <-; lia|].
    exists (lp, lo). split; [|cbn; lia]. rewrite <- El. apply last_in. congruence.
Qed.

(* some variant with a non-zero delta at or before p *)
Definition nz_before (vs : list vstat) (p : Z) : bool :=
  existsb (fun v => negb (delta v =? 0) && (vpos v <=? p)) vs.

Lemma nz_before_none lo hi vs p : wf lo hi vs -> p < lo -> nz_before vs p = false.
Proof.
  revert lo; induction vs as [|v vs IH]; intros lo Hwf Hp; [reflexivity|].
  destruct Hwf as (H1 & Hk & H3 & Hwf). unfold next_free in *. cbn [nz_before existsb].
  replace (vpos v <=? p) with false by (symmetry; apply Z.leb_gt; lia). rewrite andb_false_r. cbn [orb].
  apply (IH _ Hwf). lia.
Qed.

Lemma shift_zero_if_none vs p : nz_before vs p = false -> shift vs p = 0.
Proof.
  induction vs as [|v vs IH]; [reflexivity|]. cbn [nz_before existsb shift].
  intros H. apply orb_false_iff in H. destruct H as [H1 H2]. rewrite (IH H2).
  destruct (vpos v <=? p); [|lia]. rewrite andb_true_r in H1. apply negb_false_iff in H1. zb. lia.
Qed.

Lemma ref_offsets_sorted lo hi vs : forall off, wf lo hi vs ->
  sorted_fst (fst (ref_offsets off vs)) /\ (forall x, In x (fst (ref_offsets off vs)) -> lo <= fst x).
Proof.
  revert lo; induction vs as [|v vs IH]; intros lo off Hwf; cbn [ref_offsets]; [cbn; split; [exact I|easy]|].
  destruct Hwf as (H1 & Hk & H3 & Hwf). unfold next_free in *.
  destruct (delta v =? 0).
  - destruct (IH _ off Hwf) as [A B]. split; [assumption|]. intros x Hx. specialize (B x Hx). lia.
  - destruct (IH _ (off + delta v) Hwf) as [A B].
    destruct (ref_offsets (off + delta v) vs) as [po ao]. cbn [fst] in *. split.
    + split; [|assumption]. intros x Hx. specialize (B x Hx). lia.
    + intros x [<-|Hx]; [cbn; lia|]. specialize (B x Hx). lia.
Qed.

Lemma ref_scan lo hi vs : forall off prev p, wf lo hi vs ->
  scan prev (fst (ref_offsets off vs)) p = if nz_before vs p then off + shift vs p else prev.
Proof.
  revert lo; induction vs as [|v vs IH]; intros lo off prev p Hwf; cbn [ref_offsets]; [reflexivity|].
  destruct Hwf as (H1 & Hk & H3 & Hwf). unfold next_free in *. cbn [nz_before existsb shift].
  destruct (delta v =? 0) eqn:Ed; zb.
  - cbn [negb andb orb]. rewrite (IH _ off prev p Hwf). fold (nz_before vs p). rewrite Ed.
    destruct (vpos v <=? p); now rewrite Z.add_0_l.
  - replace (delta v =? 0) with false by (symmetry; apply Z.eqb_neq; assumption). cbn [negb andb].
    destruct (ref_offsets (off + delta v) vs) as [po ao] eqn:Er. cbn [fst scan].
    assert (Hpo : po = fst (ref_offsets (off + delta v) vs)) by now rewrite Er.
    destruct (vpos v <=? p) eqn:E; zb.
    + replace (p <? vpos v) with false by (symmetry; apply Z.ltb_ge; lia). cbn [orb].
      rewrite Hpo, (IH _ (off + delta v) (off + delta v) p Hwf).
      destruct (nz_before vs p) eqn:En; [lia|]. rewrite (shift_zero_if_none _ _ En). lia.
    + replace (p <? vpos v) with true by (symmetry; apply Z.ltb_lt; lia). cbn [orb].
      fold (nz_before vs p). now rewrite (nz_before_none _ _ _ p Hwf ltac:(lia)).
Qed.

Theorem pos_offset_is_shift lo hi vs p : wf lo hi vs ->
  get_pos_offset (fst (ref_offsets 0 vs)) p = shift vs p.
Proof.
  intros Hwf. rewrite get_pos_offset_scan by (apply (ref_offsets_sorted _ _ _ 0 Hwf)).
  rewrite (ref_scan _ _ _ 0 0 p Hwf). destruct (nz_before vs p) eqn:E; [lia|].
  now rewrite (shift_zero_if_none _ _ E).
Qed.

(* ALT side *)
Fixpoint nz_passed (off : Z) (vs : list vstat) (q : Z) : bool :=
  match vs with
  | [] => false
  | v :: vs' => (negb (delta v =? 0) && (vpos v + off <=? q)) || nz_passed (off + delta v) vs' q
  end.

Lemma nz_passed_none lo hi vs : forall off q, wf lo hi vs -> q < lo + off -> nz_passed off vs q = false.
Proof.
  revert lo; induction vs as [|v vs IH]; intros lo off q Hwf Hq; [reflexivity|].
  destruct Hwf as (H1 & Hk & H3 & Hwf). unfold next_free in *. cbn [nz_passed].
  replace (vpos v + off <=? q) with false by (symmetry; apply Z.leb_gt; lia). rewrite andb_false_r. cbn [orb].
  apply (IH _ _ _ Hwf). kinds v Hk; unfold delta; lia.
Qed.

Lemma ashift_if_none lo hi vs : forall off q, wf lo hi vs -> nz_passed off vs q = false -> ashift off vs q = off.
Proof.
  revert lo; induction vs as [|v vs IH]; intros lo off q Hwf H; [reflexivity|].
  destruct Hwf as (H1 & Hk & H3 & Hwf). cbn [nz_passed ashift] in *.
  apply orb_false_iff in H. destruct H as [Ha Hb].
  destruct (vpos v + off <=? q) eqn:E; [|reflexivity].
  rewrite andb_true_r in Ha. apply negb_false_iff in Ha. zb.
  rewrite Ha in *. rewrite Z.add_0_r in *. now apply (IH _ _ _ Hwf).
Qed.

Lemma alt_offsets_sorted lo hi vs : forall off, wf lo hi vs ->
  sorted_fst (snd (ref_offsets off vs)) /\ (forall x, In x (snd (ref_offsets off vs)) -> lo + off <= fst x).
Proof.
  revert lo; induction vs as [|v vs IH]; intros lo off Hwf; cbn [ref_offsets]; [cbn; split; [exact I|easy]|].
  destruct Hwf as (H1 & Hk & H3 & Hwf). unfold next_free in *.
  destruct (delta v =? 0) eqn:Ed; zb.
  - destruct (IH _ off Hwf) as [A B]. split; [assumption|]. intros x Hx. specialize (B x Hx). lia.
  - destruct (IH _ (off + delta v) Hwf) as [A B].
    destruct (ref_offsets (off + delta v) vs) as [po ao]. cbn [snd] in *.
    assert (Hge : vpos v + off <= vpos v + Z.max 1 (vrl v) + (off + delta v)) by (kinds v Hk; unfold delta; lia).
    split.
    + split; [|assumption]. intros x Hx. specialize (B x Hx). cbn [fst]. lia.
    + intros x [<-|Hx]; [cbn; lia|]. specialize (B x Hx). lia.
Qed.

Lemma alt_scan lo hi vs : forall off prev q, wf lo hi vs ->
  scan prev (snd (ref_offsets off vs)) q = if nz_passed off vs q then - ashift off vs q else prev.
Proof.
  revert lo; induction vs as [|v vs IH]; intros lo off prev q Hwf; cbn [ref_offsets]; [reflexivity|].
  destruct Hwf as (H1 & Hk & H3 & Hwf). unfold next_free in *. cbn [nz_passed ashift].
  destruct (delta v =? 0) eqn:Ed; zb.
  - cbn [negb andb orb]. rewrite Ed, Z.add_0_r. rewrite (IH _ off prev q Hwf).
    destruct (vpos v + off <=? q) eqn:E; [reflexivity|]. zb.
    rewrite (nz_passed_none _ _ _ off q Hwf) by (kinds v Hk; lia). reflexivity.
  - replace (delta v =? 0) with false by (symmetry; apply Z.eqb_neq; assumption). cbn [negb andb].
    destruct (ref_offsets (off + delta v) vs) as [po ao] eqn:Er. cbn [snd scan].
    assert (Hao : ao = snd (ref_offsets (off + delta v) vs)) by now rewrite Er.
    destruct (vpos v + off <=? q) eqn:E; zb.
    + replace (q <? vpos v + off) with false by (symmetry; apply Z.ltb_ge; lia). cbn [orb].
      rewrite Hao, (IH _ (off + delta v) (- (off + delta v)) q Hwf).
      destruct (nz_passed (off + delta v) vs q) eqn:En; [reflexivity|].
      now rewrite (ashift_if_none _ _ _ _ _ Hwf En).
    + replace (q <? vpos v + off) with true by (symmetry; apply Z.ltb_lt; lia). cbn [orb].
      rewrite (nz_passed_none _ _ _ (off + delta v) q Hwf) by (kinds v Hk; unfold delta; lia). reflexivity.
Qed.

Theorem alt_offset_is_ashift lo hi vs q : wf lo hi vs ->
  get_pos_offset (snd (ref_offsets 0 vs)) q = - ashift 0 vs q.
Proof.
  intros Hwf. rewrite get_pos_offset_scan by (apply (alt_offsets_sorted _ _ _ 0 Hwf)).
  rewrite (alt_scan _ _ _ 0 0 q Hwf). destruct (nz_passed 0 vs q) eqn:E; [reflexivity|].
  now rewrite (ashift_if_none _ _ _ _ _ Hwf E).
Qed.
