(* The default codon table (re-read from /repo on every run) is the standard genetic code (C17). *)
From VV Require Import Model.Base Model.Pattern Model.CodonTable Model.CodonTableGlue Spec.StdCode
  Proofs.BaseLemmas Proofs.CodonTableProofs Generated.DefaultTable.
Local Open Scope Z_scope.

(* ---- the default table is the standard genetic code (finite check over the 64 codons) ---- *)
Lemma all_codons_complete a b c : In [a; b; c] all_codons.
Proof. destruct a, b, c; vm_compute; tauto. Qed.

Lemma default_table_check :
  forallb (fun c => match translate_opt default_rows c, std_code c with
                    | Some x, Some y => aa_eqb x y | _, _ => false end) all_codons = true.
Proof. vm_compute. reflexivity. Qed.

Theorem default_is_standard_code a b c : translate (from_list default_rows false) [a; b; c] = Ok (std_code3 a b c).
Proof.
  pose proof default_table_check as H. rewrite forallb_forall in H.
  specialize (H _ (all_codons_complete a b c)). unfold translate, from_list. cbn [std_code] in H.
  destruct (translate_opt default_rows [a; b; c]); [|discriminate]. apply aa_eqb_eq in H. now subst.
Qed.

(* on the minus strand the codon read on the plus strand is the reverse complement of the transcript codon *)
Corollary default_is_standard_code_minus a b c :
  translate (from_list default_rows true) (revcomp [a; b; c]) = Ok (std_code3 a b c).
Proof. destruct (rc_table_transport default_rows "A"%string [a; b; c]) as [-> _]. apply default_is_standard_code. Qed.

Lemma default_table_wf_check :
  (forallb (fun r => (zlen (c_codon r) =? 3)) default_rows) = true /\ length default_rows = 64%nat.
Proof. vm_compute. auto. Qed.

