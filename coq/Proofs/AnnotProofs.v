(* C04: annotation = translation of the codon holding the mutation; extension bases = neighbours in the CDS walk. *)
From VV Require Import Model.Base Model.Pattern Model.Seq Model.CodonTable Model.Transcript Model.Mutators Spec.PatternSpec Spec.CodonSpec Proofs.BaseLemmas Proofs.PatternProofs Proofs.CodonTableProofs Proofs.CodonProofs.
From Coq Require Import ZifyBool Permutation.
Ltac Zify.zify_post_hook ::= Z.to_euclidean_division_equations.

(* ---- annotate ---- *)
Theorem annot_snv_correct t c p x y src a :
  annotate t c (mkVar p [x] [y]) src = Ok a ->
  let o := p - c_start c + zlen (c_prefix c) in
  0 <= o < c_ext_length c /\
  a_var a = mkVar p [x] [y] /\ a_offset a = o mod 3 /\
  a_codon_ref a = py_slice (o - o mod 3) (o - o mod 3 + 3) (c_ext c) /\
  a_codon_alt a = zfirstn (o mod 3) (a_codon_ref a) ++ [y] ++ zskipn (o mod 3 + 1) (a_codon_ref a) /\
  zlen (a_codon_ref a) = 3 /\ zlen (a_codon_alt a) = 3 /\
  translate t (a_codon_ref a) = Ok (a_aa_ref a) /\ translate t (a_codon_alt a) = Ok (a_aa_alt a).
Proof.
  intros H o. unfold annotate in H. cbn [v_pos v_ref v_alt] in H. fold o in H.
  destruct ((0 <=? o) && (o <? c_ext_length c)) eqn:Eo; [|discriminate]. cbn [negb] in H.
  change (zlen [x] =? 1) with true in H. cbv iota in H.
  set (co := o mod 3) in *. set (cref := py_slice (o - co) (o - co + 3) (c_ext c)) in *.
  destruct (replace_substr cref co co [y]) as [calt|] eqn:Er; [|discriminate]. cbn [bind] in H.
  destruct ((0 <=? co) && (co <? 3)) eqn:Eco; [|discriminate]. cbn [negb] in H.
  unfold as_codon in H.
  destruct (zlen cref =? 3) eqn:E3; [|discriminate]. cbn [bind] in H.
  destruct (zlen calt =? 3) eqn:E3'; [|discriminate]. cbn [bind] in H.
  destruct (translate t cref) as [ar|] eqn:Etr; [|discriminate]. cbn [bind] in H.
  destruct (translate t calt) as [aa_|] eqn:Eta; [|discriminate]. cbn [bind] in H.
  apply Ok_inj in H. subst a. cbn [a_var a_offset a_codon_ref a_codon_alt a_aa_ref a_aa_alt].
  unfold replace_substr in Er. destruct ((co <? zlen cref) && (co <? zlen cref)); [|discriminate]. apply Ok_inj in Er.
  repeat split; auto; lia.
Qed.

Theorem annot_codon_correct t c v src a :
  zlen (v_ref v) = 3 -> annotate t c v src = Ok a ->
  a_var a = v /\ a_offset a = 0 /\ a_codon_ref a = v_ref v /\ a_codon_alt a = v_alt v /\
  translate t (v_ref v) = Ok (a_aa_ref a) /\ translate t (v_alt v) = Ok (a_aa_alt a).
Proof.
  intros H3 H. unfold annotate in H. destruct (negb _); [discriminate|]. rewrite H3 in H.
  change (3 =? 1) with false in H. change (3 =? 3) with true in H. cbv iota in H. cbn [bind] in H.
  change ((0 <=? 0) && (0 <? 3)) with true in H. cbn [negb] in H.
  unfold as_codon in H. destruct (zlen (v_ref v) =? 3); [|discriminate]. cbn [bind] in H.
  destruct (zlen (v_alt v) =? 3); [|discriminate]. cbn [bind] in H.
  destruct (translate t (v_ref v)) as [ar|]; [|discriminate]. cbn [bind] in H.
  destruct (translate t (v_alt v)) as [aa_|]; [|discriminate]. cbn [bind] in H.
  apply Ok_inj in H. subst a. cbn. repeat split; reflexivity.
Qed.

(* mut_type: non when the new amino acid is a stop, syn when both are equal, mis otherwise *)
Theorem mut_type_rule a :
  (a_aa_alt a = STOP -> a_mut_type a = Non) /\
  (a_aa_alt a <> STOP -> a_aa_alt a = a_aa_ref a -> a_mut_type a = Syn) /\
  (a_aa_alt a <> STOP -> a_aa_alt a <> a_aa_ref a -> a_mut_type a = Mis).
Proof.
  unfold a_mut_type, aa_change, aa_eqb. repeat split.
  - intros ->. now rewrite String.eqb_refl.
  - intros H1 H2. apply String.eqb_neq in H1. rewrite H1, H2, String.eqb_refl. reflexivity.
  - intros H1 H2. apply String.eqb_neq in H1, H2. now rewrite H1, H2.
Qed.

(* ---- the extension positions are the neighbours in the walk over the coding sequence ---- *)
Definition epos (e : exon) : list Z := zrange (x_start e) (x_end e + 1).
Definition cds_walk (exons : list exon) : list Z := concat (map epos exons).   (* genomic ascending order *)

Lemma zrange_nil a b : b <= a -> zrange a b = [].
Proof. intros H. unfold zrange, py_range. replace (Z.to_nat (b - a)) with 0%nat by lia. reflexivity. Qed.

Lemma zrange_cons a b : a < b -> zrange a b = a :: zrange (a + 1) b.
Proof.
  intros H. unfold zrange, py_range. replace (Z.to_nat (b - a)) with (S (Z.to_nat (b - (a + 1)))) by lia.
  cbn [range_fuel]. replace (a <? b) with true by lia. reflexivity.
Qed.

Lemma zrange_split a b c : a <= b -> b <= c -> zrange a c = zrange a b ++ zrange b c.
Proof.
  intros Hab Hbc. remember (Z.to_nat (b - a)) as n eqn:En. revert a Hab En.
  induction n as [|n IH]; intros a Hab En.
  - assert (a = b) by lia. subst. now rewrite (zrange_nil b b) by lia.
  - rewrite (zrange_cons a c) by lia. rewrite (zrange_cons a b) by lia. cbn [app]. f_equal. apply IH; lia.
Qed.

Lemma take_before_suffix prevs : forall n l,
  take_before prevs n = Ok l -> (forall p, In p prevs -> x_start p <= x_end p) ->
  exists pre, cds_walk (rev prevs) = pre ++ l /\ zlen l = Z.max 0 n.
Proof.
  induction prevs as [|p ps IH]; intros n l H Hwf; cbn [take_before] in H.
  - destruct (n <=? 0) eqn:E; [|discriminate]. apply Ok_inj in H. subst l. exists []. split; [reflexivity|]. cbn. lia.
  - destruct (n <=? 0) eqn:E.
    + apply Ok_inj in H. subst l. exists (cds_walk (rev (p :: ps))). rewrite app_nil_r. split; [reflexivity|]. cbn; lia.
    + destruct (take_before ps (n - Z.min n (x_len p))) as [rest|] eqn:Er; [|discriminate]. cbn [bind] in H.
      apply Ok_inj in H. subst l. destruct (IH _ _ Er) as (pre' & Hw & Hl); [intros; apply Hwf; now right|].
      assert (Hp : x_start p <= x_end p) by (apply Hwf; now left).
      cbn [rev]. unfold cds_walk in *. rewrite map_app, concat_app. cbn [map concat]. rewrite app_nil_r. rewrite Hw.
      unfold x_len in *. destruct (Z.le_gt_cases (x_end p - x_start p + 1) n) as [Hle|Hgt].
      * (* the whole exon is taken *)
        replace (Z.min n (x_end p - x_start p + 1)) with (x_end p - x_start p + 1) in * by lia.
        exists pre'. unfold epos. replace (x_end p - (x_end p - x_start p + 1) + 1) with (x_start p) by lia.
        rewrite app_assoc. split; [reflexivity|]. rewrite zlen_app, Hl, zrange_length; lia.
      * (* the exon has enough bases: nothing comes from further away *)
        replace (Z.min n (x_end p - x_start p + 1)) with n in * by lia.
        replace (n - n) with 0 in Er by lia.
        assert (rest = []) as -> by (destruct ps; cbn [take_before] in Er; now apply Ok_inj in Er).
        exists (pre' ++ zrange (x_start p) (x_end p - n + 1)). rewrite !app_nil_r. cbn [app]. rewrite <- app_assoc. split.
        -- f_equal. unfold epos. apply zrange_split; lia.
        -- rewrite zrange_length; lia.
Qed.

Lemma take_after_prefix nexts : forall n l,
  take_after nexts n = Ok l -> (forall p, In p nexts -> x_start p <= x_end p) ->
  exists post, cds_walk nexts = l ++ post /\ zlen l = Z.max 0 n.
Proof.
  induction nexts as [|p ps IH]; intros n l H Hwf; cbn [take_after] in H.
  - destruct (n <=? 0) eqn:E; [|discriminate]. apply Ok_inj in H. subst l. exists []. split; [reflexivity|]. cbn. lia.
  - destruct (n <=? 0) eqn:E.
    + apply Ok_inj in H. subst l. exists (cds_walk (p :: ps)). split; [reflexivity|]. cbn; lia.
    + destruct (take_after ps (n - Z.min n (x_len p))) as [rest|] eqn:Er; [|discriminate]. cbn [bind] in H.
      apply Ok_inj in H. subst l. destruct (IH _ _ Er) as (post' & Hw & Hl); [intros; apply Hwf; now right|].
      assert (Hp : x_start p <= x_end p) by (apply Hwf; now left).
      unfold cds_walk in *. cbn [map concat]. rewrite Hw.
      unfold x_len in *. destruct (Z.le_gt_cases (x_end p - x_start p + 1) n) as [Hle|Hgt].
      * replace (Z.min n (x_end p - x_start p + 1)) with (x_end p - x_start p + 1) in * by lia.
        exists post'. unfold epos. replace (x_start p + (x_end p - x_start p + 1)) with (x_end p + 1) by lia.
        rewrite <- app_assoc. split; [reflexivity|]. rewrite zlen_app, Hl, zrange_length; lia.
      * replace (Z.min n (x_end p - x_start p + 1)) with n in * by lia.
        replace (n - n) with 0 in Er by lia.
        assert (rest = []) as -> by (destruct ps; cbn [take_after] in Er; now apply Ok_inj in Er).
        exists (zrange (x_start p + n) (x_end p + 1) ++ post'). rewrite !app_nil_r. cbn [app]. rewrite app_assoc. split.
        -- f_equal. unfold epos. apply zrange_split; lia.
        -- rewrite zrange_length; lia.
Qed.

Lemma znth_split {X} i (l : list X) x : znth i l = Some x -> l = zfirstn i l ++ x :: zskipn (i + 1) l.
Proof.
  intros H. pose proof (znth_Some_lt _ _ _ H) as [H0 _]. unfold znth in H.
  destruct (i <? 0) eqn:E; [lia|]. unfold zfirstn, zskipn. replace (Z.to_nat (i + 1)) with (S (Z.to_nat i)) by lia.
  revert H. generalize (Z.to_nat i) as n. clear. intros n. revert l.
  induction n as [|n IH]; intros [|y l] H; cbn in *; try discriminate.
  - injection H as ->. reflexivity.
  - f_equal. now apply IH.
Qed.

Lemma firstn_In' {X} n (l : list X) x : In x (firstn n l) -> In x l.
Proof. revert l; induction n as [|n IH]; intros [|y l] H; cbn in *; try easy. destruct H as [H|H]; [now left|right; now apply IH]. Qed.

Lemma get_before_suffix exons i r before e bp :
  get_before exons i r before = Ok bp -> znth i exons = Some e ->
  x_start e <= rs r -> (forall p, In p exons -> x_start p <= x_end p) ->
  exists pre, cds_walk (zfirstn i exons) ++ zrange (x_start e) (rs r) = pre ++ bp.
Proof.
  unfold get_before. intros H Hi Hr Hwf. rewrite Hi in H.
  destruct ((i <? 0) || (before <? 0)) eqn:E0; [discriminate|].
  destruct (before =? 0) eqn:E1.
  { apply Ok_inj in H. subst bp. eexists. now rewrite app_nil_r. }
  destruct (before <=? rs r - x_start e) eqn:E2.
  { apply Ok_inj in H. subst bp. exists (cds_walk (zfirstn i exons) ++ zrange (x_start e) (rs r - before)).
    rewrite <- app_assoc. f_equal. apply zrange_split; lia. }
  destruct (0 <? i) eqn:E3; [|discriminate]. cbn [negb] in H.
  destruct (take_before _ _) as [distal|] eqn:Et; [|discriminate]. cbn [bind] in H. apply Ok_inj in H. subst bp.
  apply take_before_suffix in Et.
  2:{ intros p Hp. apply in_rev in Hp. apply Hwf. unfold zfirstn in Hp. eapply firstn_In'; eauto. }
  rewrite rev_involutive in Et. destruct Et as (pre & -> & _). exists pre. rewrite <- app_assoc. do 3 f_equal. lia.
Qed.

Lemma skipn_In {X} n (l : list X) x : In x (skipn n l) -> In x l.
Proof. revert l; induction n as [|n IH]; intros [|y l] H; cbn in *; auto. Qed.

Lemma get_after_prefix exons i r after e ap :
  get_after exons i r after = Ok ap -> znth i exons = Some e ->
  re r <= x_end e -> (forall p, In p exons -> x_start p <= x_end p) ->
  exists post, zrange (re r + 1) (x_end e + 1) ++ cds_walk (zskipn (i + 1) exons) = ap ++ post.
Proof.
  unfold get_after. intros H Hi Hr Hwf. rewrite Hi in H.
  destruct ((i <? 0) || (after <? 0)) eqn:E0; [discriminate|].
  destruct (after =? 0) eqn:E1.
  { apply Ok_inj in H. subst ap. eexists. reflexivity. }
  destruct (after <=? x_end e - re r) eqn:E2.
  { apply Ok_inj in H. subst ap. exists (zrange (re r + after + 1) (x_end e + 1) ++ cds_walk (zskipn (i + 1) exons)).
    rewrite app_assoc. f_equal. apply zrange_split; lia. }
  destruct (i <? zlen exons - 1) eqn:E3; [|discriminate]. cbn [negb] in H.
  destruct (take_after _ _) as [distal|] eqn:Et; [|discriminate]. cbn [bind] in H. apply Ok_inj in H. subst ap.
  apply take_after_prefix in Et.
  2:{ intros p Hp. apply Hwf. unfold zskipn in Hp. eapply skipn_In; eauto. }
  destruct Et as (post & -> & _). exists post. rewrite <- app_assoc. f_equal.
  destruct (0 <? x_end e - re r) eqn:E4.
  - f_equal. lia.
  - rewrite zrange_nil by lia. reflexivity.
Qed.

(* the bases completing the first and last codon of a region are the neighbours of the region in the walk over the
   coding sequence (all exon positions in genomic order), whatever the number of exons they come from *)
Theorem ext_positions_are_codon_walk t q e r c i :
  get_cds_seq_exon t q e r = Ok c -> exon_list_index t (x_index e) = Ok i -> znth i (t_exons t) = Some e ->
  rs r <= re r -> (forall p, In p (t_exons t) -> x_start p <= x_end p) ->
  (exists pre post, cds_walk (t_exons t) = pre ++ (c_prefix_pos c ++ positions r ++ c_suffix_pos c) ++ post) /\
  seq_get_at q (c_prefix_pos c) = Ok (c_prefix c) /\ substr q r = Ok (c_bases c) /\ seq_get_at q (c_suffix_pos c) = Ok (c_suffix c).
Proof.
  unfold get_cds_seq_exon. intros H Hidx Hi Hr Hwf.
  destruct (range_in r (x_range e)) eqn:Ein; [|discriminate]. cbn [negb] in H.
  destruct (range_cds_exts (t_strand t) e r) as [[before after]|] eqn:Ex; [|discriminate]. cbn [bind] in H.
  rewrite Hidx in H. cbn [bind] in H.
  destruct (get_before (t_exons t) i r before) as [bp|] eqn:Eb; [|discriminate]. cbn [bind] in H.
  destruct (get_after (t_exons t) i r after) as [ap|] eqn:Ea; [|discriminate]. cbn [bind] in H.
  destruct ((zlen bp =? before) && (zlen ap =? after)); [|discriminate]. cbn [negb] in H.
  destruct (substr q r) as [main|] eqn:Es; [|discriminate]. cbn [bind] in H.
  destruct (seq_get_at q bp) as [pre|] eqn:Ep; [|discriminate]. cbn [bind] in H.
  destruct (seq_get_at q ap) as [suf|] eqn:Esf; [|discriminate]. cbn [bind] in H.
  match type of H with (if negb ?b then _ else _) = _ => destruct b; [|discriminate] end. cbn [negb] in H.
  apply Ok_inj in H. subst c. cbn [c_prefix_pos c_suffix_pos c_prefix c_suffix c_bases].
  split; [|auto].
  unfold range_in, in_range, x_range in Ein. cbn [rs re] in Ein.
  destruct (get_before_suffix _ _ _ _ _ _ Eb Hi) as (pre0 & Hpre); [lia|assumption|].
  destruct (get_after_prefix _ _ _ _ _ _ Ea Hi) as (post0 & Hpost); [lia|assumption|].
  exists pre0, post0. rewrite (znth_split _ _ _ Hi) at 1. unfold cds_walk in *. rewrite map_app, concat_app. cbn [map concat].
  assert (He : epos e = zrange (x_start e) (rs r) ++ positions r ++ zrange (re r + 1) (x_end e + 1)).
  { unfold epos, positions. rewrite (zrange_split (x_start e) (rs r) (x_end e + 1)) by lia.
    rewrite (zrange_split (rs r) (re r + 1) (x_end e + 1)) by lia. reflexivity. }
  rewrite He. rewrite <- !app_assoc.
  rewrite (app_assoc (concat (map epos (zfirstn i (t_exons t))))). rewrite Hpre.
  rewrite <- !app_assoc. do 2 f_equal. f_equal. fold (cds_walk (zskipn (i + 1) (t_exons t))) in *.
  rewrite <- Hpost. reflexivity.
Qed.

(* ---- rows without annotation ---- *)
Lemma plain_rows_None k vs x : In x (plain_rows k vs) -> pr_annot x = None.
Proof. unfold plain_rows. intros H. apply in_map_iff in H. destruct H as (v & <- & _). reflexivity. Qed.

Theorem noncoding_rows_unannotated q ms plain annotated :
  region_variants_noncds q ms = Ok (plain, annotated) ->
  annotated = [] /\ forall x, In x plain -> pr_annot x = None.
Proof.
  unfold region_variants_noncds. destruct (has_kind _ _); [discriminate|].
  destruct (mapM _ _) as [pl|] eqn:Em; [|discriminate]. cbn [bind]. intros H. apply Ok_inj in H.
  apply pair_equal_spec in H. destruct H as [<- <-]. split; [reflexivity|].
  intros x Hx. apply (concat_mapM_In _ _ _ Em) in Hx. destruct Hx as (k & ys & _ & Hf & Hy).
  destruct k; try (apply Ok_inj in Hf; subst ys; destruct Hy).
  - destruct (del_variants q offset span); [|discriminate]. cbn [bind] in Hf. apply Ok_inj in Hf. subst ys. eapply plain_rows_None; eauto.
  - destruct (snv_variants q); [|discriminate]. cbn [bind] in Hf. apply Ok_inj in Hf. subst ys. eapply plain_rows_None; eauto.
Qed.

Theorem deletion_rows_unannotated t c ms plain annotated :
  region_variants_cds t c ms = Ok (plain, annotated) -> forall x, In x plain -> pr_annot x = None.
Proof.
  unfold region_variants_cds. destruct (mapM _ _) as [pl|] eqn:Em; [|discriminate]. cbn [bind].
  match goal with |- (do _ <- ?m; _) = _ -> _ => destruct m as [an|]; [|discriminate] end. cbn [bind]. intros H. apply Ok_inj in H.
  apply pair_equal_spec in H. destruct H as [<- _].
  intros x Hx. apply (concat_mapM_In _ _ _ Em) in Hx. destruct Hx as (k & ys & _ & Hf & Hy).
  destruct k; try (apply Ok_inj in Hf; subst ys; destruct Hy).
  - destruct (del_variants _ _ _); [|discriminate]. cbn [bind] in Hf. apply Ok_inj in Hf. subst ys. eapply plain_rows_None; eauto.
  - destruct (inframe_variants c); [|discriminate]. cbn [bind] in Hf. apply Ok_inj in Hf. subst ys. eapply plain_rows_None; eauto.
Qed.
