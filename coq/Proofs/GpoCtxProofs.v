From VV Require Import Model.Base Model.Pattern Model.Gpo.
From VV Require Import Model.Context.
From Coq Require Import Lia ZifyBool.

(* ---- filters ---- *)
Lemma filter_mono_length {X} (f g : X -> bool) (l : list X) :
  (forall x, f x = true -> g x = true) -> (length (filter f l) <= length (filter g l))%nat.
Proof.
  intros H; induction l as [|x l IH]; cbn [filter]; [lia|].
  destruct (f x) eqn:Ef; [rewrite (H x Ef); cbn [length]; lia|].
  destruct (g x); cbn [length]; lia.
Qed.

Lemma filter_eq_of_length {X} (f g : X -> bool) (l : list X) :
  (forall x, f x = true -> g x = true) ->
  length (filter g l) = length (filter f l) -> filter f l = filter g l.
Proof.
  intros H; induction l as [|x l IH]; cbn [filter]; [reflexivity|].
  pose proof (filter_mono_length f g l H) as Hm.
  destruct (f x) eqn:Ef.
  - rewrite (H x Ef); cbn [length]; intros E; f_equal; apply IH; lia.
  - destruct (g x) eqn:Eg; cbn [length]; intros E; [lia|apply IH; exact E].
Qed.

Lemma filter_length_le {X} (f : X -> bool) (l : list X) : (length (filter f l) <= length l)%nat.
Proof. induction l as [|x l IH]; cbn [filter length]; [lia|]. destruct (f x); cbn [length]; lia. Qed.

(* ---- min / max ---- *)
Lemma zmin_list_le_init l : forall x, zmin_list x l <= x.
Proof. unfold zmin_list; induction l as [|y l IH]; intros x; cbn [fold_left]; [lia|]. specialize (IH (Z.min x y)); lia. Qed.
Lemma zmin_list_le_in l : forall x y, In y l -> zmin_list x l <= y.
Proof.
  unfold zmin_list; induction l as [|z l IH]; intros x y Hin; cbn [fold_left]; [destruct Hin|].
  destruct Hin as [->|Hin]; [pose proof (zmin_list_le_init l (Z.min x y)) as H; unfold zmin_list in H; lia | apply IH; exact Hin].
Qed.
Lemma zmax_list_ge_init l : forall x, x <= zmax_list x l.
Proof. unfold zmax_list; induction l as [|y l IH]; intros x; cbn [fold_left]; [lia|]. specialize (IH (Z.max x y)); lia. Qed.
Lemma zmax_list_ge_in l : forall x y, In y l -> y <= zmax_list x l.
Proof.
  unfold zmax_list; induction l as [|z l IH]; intros x y Hin; cbn [fold_left]; [destruct Hin|].
  destruct Hin as [->|Hin]; [pose proof (zmax_list_ge_init l (Z.max x y)) as H; unfold zmax_list in H; lia | apply IH; exact Hin].
Qed.

(* ---- one widening ---- *)
Lemma mk_range_ok s e r : mk_range s e = Ok r -> rs r = s /\ re r = e /\ 0 <= s <= e.
Proof. unfold mk_range; destruct ((0 <=? s) && (s <=? e)) eqn:E; intros H; inversion H; subst; cbn; lia. Qed.

Lemma mk_range_err s e x : mk_range s e = Err x -> x = ValueError.
Proof. unfold mk_range; destruct ((0 <=? s) && (s <=? e)); intros H; inversion H; reflexivity. Qed.

Lemma widen_spec ctx v rest c :
  widen ctx v rest = Ok c ->
  rs c <= rs ctx /\ re ctx <= re c /\
  (forall x, In x (v :: rest) -> rs c <= vpos x /\ vref_end x <= re c).
Proof.
  unfold widen; intros H.
  destruct (mk_range _ _) as [r|] eqn:Er; cbn [bind] in H; [|discriminate].
  apply mk_range_ok in Er; destruct Er as (Hs & He & _).
  apply mk_range_ok in H; destruct H as (Hs' & He' & _).
  split; [lia|]. split; [lia|].
  intros x Hin.
  assert (zmin_list (vpos v) (map vpos rest) <= vpos x) as Hmin.
  { destruct Hin as [->|Hin]; [apply zmin_list_le_init | apply zmin_list_le_in, in_map, Hin]. }
  assert (vref_end x <= zmax_list (vref_end v) (map vref_end rest)) as Hmax.
  { destruct Hin as [->|Hin]; [apply zmax_list_ge_init | apply zmax_list_ge_in, in_map, Hin]. }
  destruct ((1 <? zmin_list (vpos v) (map vpos rest)) && (zmin_list (vpos v) (map vpos rest) <=? rs ctx)); lia.
Qed.

Lemma widen_err ctx v rest x : widen ctx v rest = Err x -> x = ValueError.
Proof.
  unfold widen; destruct (mk_range _ _) as [r|e] eqn:Er; cbn [bind]; intros H.
  - eapply mk_range_err; exact H.
  - inversion H; subst; eapply mk_range_err; exact Er.
Qed.

Lemma selected_mono r r' v :
  rs r' <= rs r -> re r <= re r' -> stat_selected r v = true -> stat_selected r' v = true.
Proof. unfold stat_selected, in_range; intros; lia. Qed.

Lemma vpos_le_ref_end v : vpos v <= vref_end v.
Proof. unfold vref_end, get_end; lia. Qed.

(* ---- the loop ---- *)
Lemma ctx_loop_spec all : forall fuel ctx sel s c,
  sel = select_stats ctx all ->
  ctx_loop fuel all ctx sel = Ok (s, c) ->
  s = select_stats c all /\ s <> [] /\ rs c <= rs ctx /\ re ctx <= re c /\
  (forall x, In x s -> vs_in_range x c = true).
Proof.
  induction fuel as [|f IH]; intros ctx sel s c Hsel H; cbn [ctx_loop] in H; [destruct sel; discriminate|].
  destruct sel as [|v rest]; [discriminate|].
  destruct (widen ctx v rest) as [c'|] eqn:Ew; cbn [bind] in H; [|discriminate].
  pose proof (widen_spec _ _ _ _ Ew) as (Hlo & Hhi & Hin).
  destruct (Nat.eqb _ _) eqn:El.
  - inversion H; subst s c; clear H.
    apply Nat.eqb_eq in El.
    assert (v :: rest = select_stats c' all) as Hclosed.
    { rewrite Hsel. unfold select_stats. apply filter_eq_of_length.
      - intros x; apply selected_mono; assumption.
      - unfold select_stats in El, Hsel. rewrite <- Hsel. exact El. }
    repeat split; try assumption; [discriminate|].
    intros x Hx. specialize (Hin x Hx). pose proof (vpos_le_ref_end x).
    unfold vs_in_range, in_range. lia.
  - specialize (IH c' (select_stats c' all) s c eq_refl H).
    destruct IH as (H1 & H2 & H3 & H4 & H5). repeat split; try assumption; lia.
Qed.

Lemma ctx_loop_fuel all : forall fuel ctx sel,
  sel = select_stats ctx all -> sel <> [] ->
  (length all - length sel < fuel)%nat ->
  ctx_loop fuel all ctx sel <> Err OtherErr.
Proof.
  induction fuel as [|f IH]; intros ctx sel Hsel Hne Hf; [lia|].
  cbn [ctx_loop]. destruct sel as [|v rest]; [congruence|].
  destruct (widen ctx v rest) as [c'|e] eqn:Ew; cbn [bind].
  2:{ apply widen_err in Ew; subst e; discriminate. }
  destruct (Nat.eqb _ _) eqn:El; [discriminate|].
  apply Nat.eqb_neq in El.
  pose proof (widen_spec _ _ _ _ Ew) as (Hlo & Hhi & _).
  assert (length (v :: rest) <= length (select_stats c' all))%nat as Hm.
  { rewrite Hsel. apply filter_mono_length. intros x; apply selected_mono; assumption. }
  pose proof (filter_length_le (stat_selected c') all) as Hle. fold (select_stats c' all) in Hle.
  apply IH; [reflexivity | | lia].
  intros E; rewrite E in Hm; cbn [length] in Hm; lia.
Qed.

(* ---- get_gpo_ctx ---- *)
Theorem gpo_ctx_sel_closed all ctx sel c :
  gpo_ctx_sel all ctx = Ok (Some sel, c) ->
  sel = select_stats c all /\ sel <> [] /\ rs c <= rs ctx /\ re ctx <= re c /\
  (forall x, In x sel -> vs_in_range x c = true).
Proof.
  unfold gpo_ctx_sel. destruct (select_stats ctx all) as [|v rest] eqn:Es; [intros H; inversion H|].
  destruct (ctx_loop _ _ _ _) as [[s c0]|] eqn:El; cbn [bind fst snd]; intros H; inversion H; subst.
  eapply ctx_loop_spec; [symmetry; exact Es | exact El].
Qed.

Theorem gpo_ctx_sel_none all ctx c :
  gpo_ctx_sel all ctx = Ok (None, c) -> c = ctx /\ select_stats ctx all = [].
Proof.
  unfold gpo_ctx_sel. destruct (select_stats ctx all) as [|v rest] eqn:Es; [intros H; inversion H; auto|].
  destruct (ctx_loop _ _ _ _) as [[s c0]|]; cbn [bind]; intros H; inversion H.
Qed.

Theorem gpo_ctx_sel_terminates all ctx : gpo_ctx_sel all ctx <> Err OtherErr.
Proof.
  unfold gpo_ctx_sel. destruct (select_stats ctx all) as [|v rest] eqn:Es; [discriminate|].
  pose proof (ctx_loop_fuel all (S (length all)) ctx (v :: rest) (eq_sym Es)) as H.
  destruct (ctx_loop _ _ _ _) as [p|e] eqn:El; cbn [bind]; [discriminate|].
  intros E; inversion E; subst e. apply H; [discriminate | lia | reflexivity].
Qed.

(* the single widening of the tree before 9011408 is not closed: a deletion of base 67, a substitution of base 68,
   context 68-103 - the widened context 67-103 reaches the deletion, which the selection does not hold *)
Theorem gpo_ctx_sel_once_refuted :
  exists all ctx sel c, gpo_ctx_sel_once all ctx = Ok (Some sel, c) /\ sel <> select_stats c all.
Proof.
  exists [mkVS 67 1 0; mkVS 68 1 1; mkVS 75 0 2], (mkRange 68 103), [mkVS 68 1 1; mkVS 75 0 2], (mkRange 67 103).
  split; [vm_compute; reflexivity | vm_compute; discriminate].
Qed.

Example gpo_ctx_sel_example :
  gpo_ctx_sel [mkVS 67 1 0; mkVS 68 1 1; mkVS 75 0 2] (mkRange 68 103)
  = Ok (Some [mkVS 67 1 0; mkVS 68 1 1; mkVS 75 0 2], mkRange 66 103).
Proof. vm_compute. reflexivity. Qed.

(* ---- the offsets can be built: no variant of the selection is out of the bounds of the returned context ---- *)
Lemma in_insert_by_pos v l x : In x (insert_by_pos v l) <-> x = v \/ In x l.
Proof.
  induction l as [|y l IH]; cbn [insert_by_pos]; [cbn; intuition|].
  destruct (vpos v <=? vpos y); cbn [In]; [intuition|]. rewrite IH. cbn [In]. intuition.
Qed.
Lemma in_sort_by_pos l x : In x (sort_by_pos l) <-> In x l.
Proof.
  unfold sort_by_pos; induction l as [|y l IH]; cbn [fold_right]; [reflexivity|].
  rewrite in_insert_by_pos, IH. cbn [In]. intuition.
Qed.

Lemma last_cons {X} (l : list X) : forall (y d0 : X), last (y :: l) d0 = last l y.
Proof.
  induction l as [|z l IH]; intros y d0; [reflexivity|].
  change (last (y :: z :: l) d0) with (last (z :: l) d0). rewrite (IH z d0), (IH z y). reflexivity.
Qed.
Lemma last_in {X} (l : list X) : forall d0 : X, In (last l d0) (d0 :: l).
Proof.
  induction l as [|y l IH]; intros d0; [left; reflexivity|].
  rewrite last_cons. right. apply IH.
Qed.

Lemma clamp_all_in_range vs c :
  0 < rs c -> (forall x, In x vs -> vs_in_range x c = true) -> clamp vs c = Ok (sort_by_pos vs).
Proof.
  intros Hpos Hall. unfold clamp.
  destruct (rs c <=? 0) eqn:E; [lia|].
  destruct (sort_by_pos vs) as [|v rest] eqn:Es; [reflexivity|].
  assert (forall x, In x (v :: rest) -> vs_in_range x c = true) as Hs.
  { intros x Hx. apply Hall. apply in_sort_by_pos. rewrite Es. exact Hx. }
  rewrite (Hs v (or_introl eq_refl)). cbn [negb].
  rewrite (Hs _ (last_in rest v)). reflexivity.
Qed.

Theorem gpo_ctx_sel_in_bounds all ctx sel c :
  gpo_ctx_sel all ctx = Ok (Some sel, c) -> 0 < rs c -> clamp sel c = Ok (sort_by_pos sel).
Proof.
  intros H Hpos. apply gpo_ctx_sel_closed in H. destruct H as (_ & _ & _ & _ & Hin).
  apply clamp_all_in_range; assumption.
Qed.

(* get_ctx_seq_bg applies the variants whose start lies in the context (select_background_variants); the offsets are
   built from the selection (start or end in the context).  On the returned context the two coincide. *)
Definition applied (c : range) (all : list vstat) : list vstat := filter (fun v => in_range (vpos v) c) all.

Theorem gpo_ctx_applied_eq_counted all ctx sel c :
  gpo_ctx_sel all ctx = Ok (Some sel, c) -> applied c all = sel.
Proof.
  intros H. apply gpo_ctx_sel_closed in H. destruct H as (Hsel & _ & _ & _ & Hin).
  transitivity (select_stats c all); [|symmetry; exact Hsel].
  unfold applied, select_stats. apply filter_ext_in.
  intros v Hv. unfold stat_selected.
  destruct (in_range (vpos v) c) eqn:E1; [reflexivity|].
  destruct (in_range (vref_end v) c) eqn:E2; [|reflexivity].
  assert (In v sel) as Hs. { rewrite Hsel. apply filter_In. split; [exact Hv|]. unfold stat_selected. rewrite E2. apply orb_true_r. }
  specialize (Hin v Hs). unfold vs_in_range in Hin. rewrite E1 in Hin. discriminate.
Qed.

Theorem gpo_ctx_once_applied_refuted :
  exists all ctx sel c, gpo_ctx_sel_once all ctx = Ok (Some sel, c) /\ applied c all <> sel.
Proof.
  exists [mkVS 67 1 0; mkVS 68 1 1; mkVS 75 0 2], (mkRange 68 103), [mkVS 68 1 1; mkVS 75 0 2], (mkRange 67 103).
  split; [vm_compute; reflexivity | vm_compute; discriminate].
Qed.

(* ---- the ALT length of the offsets is the context length plus the net length change of the variants applied ---- *)
Lemma sum_delta_insert v l : sum_delta (insert_by_pos v l) = delta v + sum_delta l.
Proof.
  induction l as [|x l IH]; cbn [insert_by_pos]; [reflexivity|].
  destruct (vpos v <=? vpos x); [reflexivity|]. unfold sum_delta in *. cbn [fold_right]. rewrite IH. lia.
Qed.
Lemma sum_delta_sort l : sum_delta (sort_by_pos l) = sum_delta l.
Proof.
  unfold sort_by_pos. induction l as [|x l IH]; [reflexivity|]. cbn [fold_right]. rewrite sum_delta_insert, IH. reflexivity.
Qed.

Lemma from_var_stats_alt_length vs r g : from_var_stats vs r = Ok g ->
  exists cvs, clamp vs r = Ok cvs /\ g_alt_length g = rlen r + sum_delta cvs /\ g_range g = r.
Proof.
  unfold from_var_stats. destruct (clamp vs r) as [cvs|]; cbn [bind]; [|discriminate].
  destruct (ref_masks _ _ _ _) as [masks|]; cbn [bind]; [|discriminate].
  destruct (ref_offsets 0 cvs) as [po ao].
  destruct (_ <? 0); [discriminate|].
  destruct (ins_mask _ _ _ _) as [im|]; cbn [bind]; [|discriminate].
  intros H; inversion H; subst g. exists cvs. cbn. auto.
Qed.

Theorem gpo_ctx_alt_length all ctx g c :
  gpo_ctx all ctx = Ok (Some g, c) -> 0 < rs c ->
  g_range g = c /\ g_alt_length g = rlen c + sum_delta (applied c all) /\ rs c <= rs ctx /\ re ctx <= re c.
Proof.
  unfold gpo_ctx. destruct (gpo_ctx_sel all ctx) as [[[sel|] c0]|] eqn:Es; cbn [bind fst snd]; try discriminate.
  destruct (from_var_stats sel c0) as [g0|] eqn:Ef; cbn [bind]; [|discriminate].
  intros H Hpos; inversion H; subst g0 c0; clear H.
  apply from_var_stats_alt_length in Ef. destruct Ef as (cvs & Hc & Hl & Hr).
  rewrite (gpo_ctx_sel_in_bounds _ _ _ _ Es Hpos) in Hc. inversion Hc; subst cvs.
  rewrite sum_delta_sort in Hl. rewrite (gpo_ctx_applied_eq_counted _ _ _ _ Es).
  apply gpo_ctx_sel_closed in Es. destruct Es as (_ & _ & H1 & H2 & _). auto.
Qed.
