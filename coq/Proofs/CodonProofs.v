(* C03: the reading frame selected by get_inner_cds_range is the annotated one; codon-level mutators are exact. *)
From VV Require Import Model.Base Model.Pattern Model.Seq Model.CodonTable Model.Transcript Model.Mutators Spec.PatternSpec Spec.CodonSpec Proofs.BaseLemmas Proofs.PatternProofs Proofs.CodonTableProofs.
From Coq Require Import ZifyBool Permutation.
Ltac Zify.zify_post_hook ::= Z.to_euclidean_division_equations.

Lemma Ok_inj {X} (x y : X) : Ok x = Ok y -> x = y.
Proof. congruence. Qed.

Lemma compl_offset_ok o x : compl_offset o = Ok x -> 0 <= o <= 2 /\ x = (3 - o) mod 3.
Proof.
  unfold compl_offset. destruct (Z.eqb_spec o 0) as [->|]; [intros H; injection H as <-; split; [lia|reflexivity]|].
  destruct (Z.eqb_spec o 1) as [->|]; [intros H; injection H as <-; split; [lia|reflexivity]|].
  destruct (Z.eqb_spec o 2) as [->|]; [intros H; injection H as <-; split; [lia|reflexivity]|]. discriminate.
Qed.

Lemma range_cds_exts_ok s e r b a :
  range_cds_exts s e r = Ok (b, a) ->
  0 <= x_frame e <= 2 /\ 0 <= b <= 2 /\ 0 <= a <= 2 /\
  (if is_plus s then (rs r - b - (x_start e + x_frame e)) mod 3 = 0 /\ (re r + a + 1 - (x_start e + x_frame e)) mod 3 = 0
   else (x_end e - x_frame e - (re r + a)) mod 3 = 0 /\ (x_end e - x_frame e - (rs r - b - 1)) mod 3 = 0).
Proof.
  unfold range_cds_exts, cds_prefix_length, cds_ext_3_length, rlen. destruct s; cbn [is_plus].
  all: destruct (_ <? 0) eqn:E; [discriminate|].
  all: destruct (compl_offset (x_frame e)) as [ep|] eqn:Ec; [|discriminate]; cbn [bind].
  all: apply compl_offset_ok in Ec; destruct Ec as [Hf ->].
  all: intros H; apply Ok_inj, pair_equal_spec in H; destruct H as [<- <-]; lia.
Qed.

Lemma mapM_length {X Y} (f : X -> result Y) l : forall l', mapM f l = Ok l' -> length l' = length l.
Proof.
  induction l as [|x l IH]; cbn [mapM]; intros l' H.
  - apply Ok_inj in H. now subst.
  - destruct (f x) as [y|]; [|discriminate]. cbn [bind] in H.
    destruct (mapM f l) as [ys|]; [|discriminate]. cbn [bind] in H. apply Ok_inj in H. subst. cbn. f_equal. now apply IH.
Qed.

Lemma mapM_In {X Y} (f : X -> result Y) l : forall l', mapM f l = Ok l' ->
  forall y, In y l' <-> exists x, In x l /\ f x = Ok y.
Proof.
  induction l as [|x l IH]; cbn [mapM]; intros l' H y.
  - apply Ok_inj in H. subst. split; [easy|]. intros (x & [] & _).
  - destruct (f x) as [y0|] eqn:Ex; [|discriminate]. cbn [bind] in H.
    destruct (mapM f l) as [ys|]; [|discriminate]. cbn [bind] in H. apply Ok_inj in H. subst. cbn [In]. rewrite (IH _ eq_refl). split.
    + intros [<-|(x' & Hin & Hx')]; [exists x; auto|exists x'; auto].
    + intros (x' & [<-|Hin] & Hx'); [left; congruence|right; exists x'; auto].
Qed.

Lemma seq_get_at_length q ps b : seq_get_at q ps = Ok b -> zlen b = zlen ps.
Proof. unfold seq_get_at, zlen. intros H. apply mapM_length in H. now rewrite H. Qed.

(* what a successful Transcript._get_cds_seq returns, for a region inside the sequence it is cut from *)
Lemma get_cds_seq_exon_shape t q e r c :
  get_cds_seq_exon t q e r = Ok c -> s_start q <= rs r -> re r - s_start q + 1 <= s_len q ->
  exists before after,
    range_cds_exts (t_strand t) e r = Ok (before, after) /\ range_in r (x_range e) = true /\
    c_start c = rs r /\ zlen (c_prefix c) = before /\ zlen (c_suffix c) = after /\ c_len c = rlen r /\
    substr q r = Ok (c_bases c).
Proof.
  unfold get_cds_seq_exon. intros H H1 H2.
  destruct (range_in r (x_range e)) eqn:Ein; [|discriminate]. cbn [negb] in H.
  destruct (range_cds_exts (t_strand t) e r) as [[before after]|] eqn:Ex; [|discriminate]. cbn [bind] in H.
  destruct (exon_list_index t (x_index e)) as [i|]; [|discriminate]. cbn [bind] in H.
  destruct (get_before (t_exons t) i r before) as [bp|]; [|discriminate]. cbn [bind] in H.
  destruct (get_after (t_exons t) i r after) as [ap|]; [|discriminate]. cbn [bind] in H.
  destruct ((zlen bp =? before) && (zlen ap =? after)) eqn:El; [|discriminate]. cbn [negb] in H.
  destruct (substr q r) as [main|] eqn:Es; [|discriminate]. cbn [bind] in H.
  destruct (seq_get_at q bp) as [pre|] eqn:Ep; [|discriminate]. cbn [bind] in H.
  destruct (seq_get_at q ap) as [suf|] eqn:Ea; [|discriminate]. cbn [bind] in H.
  match type of H with (if negb ?b then _ else _) = _ => destruct b; [|discriminate] end. cbn [negb] in H.
  apply Ok_inj in H. subst c. exists before, after. cbn [c_start c_prefix c_suffix c_bases].
  apply seq_get_at_length in Ep, Ea. apply andb_true_iff in El. destruct El as [E1 E2].
  repeat split; auto; try lia.
  unfold c_len. cbn [c_bases]. unfold substr, mk_range in Es.
  destruct ((0 <=? rs r - s_start q) && (rs r - s_start q <=? re r - s_start q)) eqn:Em; [|discriminate].
  cbn [bind rs re] in Es. apply Ok_inj in Es. subst main. unfold rlen, s_len in *.
  rewrite py_slice_length_in; lia.
Qed.

Definition frame_lo (s : strand) (e : exon) (lo hi : Z) : Prop :=
  if is_plus s then (lo - (x_start e + x_frame e)) mod 3 = 0 else (x_end e - x_frame e - hi) mod 3 = 0.

Lemma inner_cds_range_ok s e r c before after :
  range_cds_exts s e r = Ok (before, after) ->
  c_start c = rs r -> zlen (c_prefix c) = before -> zlen (c_suffix c) = after -> c_len c = rlen r ->
  0 <= rs r <= re r ->
  exists lo hi,
    inner_cds_range c = Ok (if hi <? lo then None else Some (mkRange lo hi)) /\
    rs r <= lo <= rs r + 2 /\ re r - 2 <= hi <= re r /\ (hi + 1 - lo) mod 3 = 0 /\ frame_lo s e lo hi.
Proof.
  intros Hx Hs Hp Hsf Hl Hr. apply range_cds_exts_ok in Hx. destruct Hx as (Hf & Hb & Ha & Hfr).
  unfold inner_cds_range. rewrite Hp, Hsf.
  destruct (compl_offset before) as [a|] eqn:Ea.
  2:{ unfold compl_offset in Ea. destruct (Z.eqb_spec before 0); [discriminate|]. destruct (Z.eqb_spec before 1); [discriminate|].
      destruct (Z.eqb_spec before 2); [discriminate|]. lia. }
  destruct (compl_offset after) as [b|] eqn:Eb.
  2:{ unfold compl_offset in Eb. destruct (Z.eqb_spec after 0); [discriminate|]. destruct (Z.eqb_spec after 1); [discriminate|].
      destruct (Z.eqb_spec after 2); [discriminate|]. lia. }
  cbn [bind]. apply compl_offset_ok in Ea, Eb. destruct Ea as [_ Ea], Eb as [_ Eb].
  assert (Hend : c_end c = re r) by (unfold c_end, get_end; rewrite Hs, Hl; unfold rlen; lia).
  rewrite Hs, Hend. exists (rs r + a), (re r - b).
  assert (Hmod : (re r - b + 1 - (rs r + a)) mod 3 = 0 /\ frame_lo s e (rs r + a) (re r - b)).
  { unfold frame_lo. destruct s; cbn [is_plus] in *; lia. }
  destruct Hmod as [Hm Hfl].
  split; [|repeat split; try lia; assumption].
  destruct (re r - b <? rs r + a) eqn:E; [reflexivity|].
  unfold mk_range. replace ((0 <=? rs r + a) && (rs r + a <=? re r - b)) with true by lia. cbn [bind].
  unfold rlen. cbn [rs re]. replace ((re r - b - (rs r + a) + 1) mod 3 =? 0) with true; [reflexivity|].
  symmetry. apply Z.eqb_eq. rewrite <- Hm. f_equal. ring.
Qed.

Lemma build_In1 offset span start len x : 0 < span ->
  (In x (build offset span start len) <-> exists k, window_fits (len + 1) span offset k /\ x = window_start start span offset k).
Proof. intros. replace len with (len + 1 - 1) at 1 by lia. now apply build_In. Qed.

Lemma build_window_inside1 offset span start len x :
  0 < span -> 0 <= offset -> In x (build offset span start len) -> start <= x /\ x + span <= start + len + 1.
Proof. intros Hs Ho Hin. replace len with (len + 1 - 1) in Hin by lia. apply build_window_inside in Hin; lia. Qed.

Lemma subseq_window_closed q span start L :
  0 < span -> s_start q <= start -> start + L <= s_start q + s_len q ->
  subseq_window q 0 span start L = Ok (map (fun st => (st, bases_at q st span)) (build 0 span start (L - 1))).
Proof.
  intros Hs H1 H2. unfold subseq_window. apply mapM_ok. intros st Hin.
  apply build_window_inside in Hin; [|lia|lia]. destruct Hin as [Ha Hb].
  destruct (substr_inside q st span Hs) as [-> _]; [lia|lia|reflexivity].
Qed.

Lemma codon_refs_closed s e r c before after :
  range_cds_exts s e r = Ok (before, after) ->
  c_start c = rs r -> zlen (c_prefix c) = before -> zlen (c_suffix c) = after -> c_len c = rlen r ->
  0 <= rs r <= re r ->
  exists lo hi,
    codon_refs c = Ok (if hi <? lo then [] else map (fun st => (st, bases_at (c_seq c) st 3)) (build 0 3 lo (hi - lo))) /\
    rs r <= lo <= rs r + 2 /\ re r - 2 <= hi <= re r /\ (hi + 1 - lo) mod 3 = 0 /\ frame_lo s e lo hi.
Proof.
  intros Hx Hs Hp Hsf Hl Hr.
  destruct (inner_cds_range_ok _ _ _ _ _ _ Hx Hs Hp Hsf Hl Hr) as (lo & hi & Hin & Hlo & Hhi & Hm & Hf).
  exists lo, hi. split; [|auto]. unfold codon_refs. rewrite Hin. cbn [bind].
  destruct (hi <? lo) eqn:E; [reflexivity|].
  unfold get_refs. unfold c_seq at 1 2. cbn [s_start]. unfold s_end, s_len. cbn [s_start s_bases].
  change (zlen (c_bases c)) with (c_len c). rewrite Hs, Hl.
  replace (range_in (mkRange lo hi) (mkRange (rs r) (get_end (rs r) (rlen r)))) with true.
  2:{ symmetry. unfold range_in, in_range, get_end, rlen. cbn [rs re]. lia. }
  rewrite subseq_window_closed; unfold rlen; cbn [rs re s_start c_seq]; try lia.
  - do 3 f_equal. lia.
  - unfold s_len, c_seq; cbn [s_bases s_start]; change (zlen (c_bases c)) with (c_len c). rewrite Hl. unfold rlen. lia.
Qed.

Theorem codon_refs_exact t q e r c refs :
  get_cds_seq_exon t q e r = Ok c -> 0 <= rs r <= re r -> s_start q <= rs r -> re r - s_start q + 1 <= s_len q ->
  codon_refs c = Ok refs ->
  (forall p b, In (p, b) refs <-> is_region_codon (t_strand t) e r p /\ b = cds_bases_at c p 3) /\
  NoDup (map fst refs) /\ (forall p b, In (p, b) refs -> zlen b = 3).
Proof.
  intros Hc Hr H1 H2 Hrefs.
  destruct (get_cds_seq_exon_shape _ _ _ _ _ Hc H1 H2) as (before & after & Hx & Hin & Hs & Hp & Hsf & Hl & _).
  destruct (codon_refs_closed _ _ _ _ _ _ Hx Hs Hp Hsf Hl Hr) as (lo & hi & Hcl & Hlo & Hhi & Hm & Hf).
  rewrite Hcl in Hrefs. apply Ok_inj in Hrefs. subst refs.
  destruct (hi <? lo) eqn:E.
  - (* no complete codon: and indeed no in-frame triplet fits *)
    split; [|split; [constructor|intros ? ? []]]. intros p b. split; [intros []|].
    intros [(Ha & Hb & Hfr) _]. exfalso. unfold in_frame, frame_lo in *. destruct (t_strand t); cbn [is_plus] in *; lia.
  - split; [|split].
    + intros p b. rewrite in_map_iff. split.
      * intros (st & Heq & Hst). apply pair_equal_spec in Heq. destruct Heq as [-> <-].
        apply build_In1 in Hst; [|lia]. destruct Hst as (k & [Hk Hfit] & ->). unfold window_start in *.
        split; [|reflexivity]. unfold is_region_codon, in_frame, frame_lo in *.
        destruct (t_strand t); cbn [is_plus] in *; lia.
      * intros [(Ha & Hb & Hfr) ->]. exists p. split; [reflexivity|].
        apply build_In1; [lia|]. unfold window_fits, window_start.
        unfold in_frame, frame_lo in *. exists ((p - lo) / 3).
        destruct (t_strand t); cbn [is_plus] in *; lia.
    + rewrite map_map. cbn [fst]. rewrite map_id. apply build_NoDup; lia.
    + intros p b Hpb. apply in_map_iff in Hpb. destruct Hpb as (st & Heq & Hst).
      apply pair_equal_spec in Heq. destruct Heq as [-> <-].
      apply build_window_inside1 in Hst; [|lia|lia]. destruct Hst as [Ha Hb].
      apply (substr_inside (c_seq c) p 3); cbn [c_seq s_start]; try lia.
      unfold s_len, c_seq; cbn [s_bases s_start]; change (zlen (c_bases c)) with (c_len c). rewrite Hl, Hs. unfold rlen. lia.
Qed.

Lemma filter_all {X} (f : X -> bool) l : (forall x, In x l -> f x = true) -> filter f l = l.
Proof. induction l as [|x l IH]; intros H; cbn [filter]; [reflexivity|]. rewrite H by now left. f_equal. apply IH. intros; apply H; now right. Qed.

Lemma mapM_each {X Y} (f : X -> result Y) l : forall ls, mapM f l = Ok ls -> forall x, In x l -> exists y, f x = Ok y /\ In y ls.
Proof.
  induction l as [|x0 l IH]; cbn [mapM]; intros ls H x Hin; [easy|].
  destruct (f x0) as [y0|] eqn:E0; [|discriminate]. cbn [bind] in H.
  destruct (mapM f l) as [ys|]; [|discriminate]. cbn [bind] in H. apply Ok_inj in H. subst ls.
  destruct Hin as [<-|Hin]; [exists y0; split; [assumption|now left]|].
  destruct (IH _ eq_refl _ Hin) as (y & Hy & Hiny). exists y; split; [assumption|now right].
Qed.

(* ---- codon replacement mutators (inframe, ala, stop) ---- *)
Theorem codon_replacements_exact c refs value :
  codon_refs c = Ok refs -> (forall p b, In (p, b) refs -> zlen b = 3) ->
  codon_replacements c value =
    Ok (map (fun sr => mkVar (fst sr) (snd sr) value) (filter (fun sr => negb (dna_eqb value (snd sr))) refs)).
Proof.
  intros Hr H3. unfold codon_replacements. rewrite Hr. cbn [bind]. apply mapM_ok.
  intros [p b] Hin. apply filter_In in Hin. destruct Hin as [Hin _]. apply H3 in Hin. cbn [fst snd].
  destruct b; [discriminate|reflexivity].
Qed.

Corollary inframe_exact c refs :
  codon_refs c = Ok refs -> (forall p b, In (p, b) refs -> zlen b = 3) ->
  inframe_variants c = Ok (map (fun sr => mkVar (fst sr) (snd sr) []) refs).
Proof.
  intros Hr H3. unfold inframe_variants. rewrite (codon_replacements_exact _ _ _ Hr H3). do 2 f_equal.
  apply filter_all. intros [p b] Hin. apply H3 in Hin. cbn [snd]. destruct b; [discriminate|reflexivity].
Qed.

Corollary top_replacement_exact t c refs a top vs :
  codon_refs c = Ok refs -> (forall p b, In (p, b) refs -> zlen b = 3) -> get_top_codon t a = Ok top ->
  (do top <- get_top_codon t a; codon_replacements c top) = Ok vs ->
  forall v, In v vs <-> exists p b, In (p, b) refs /\ b <> top /\ v = mkVar p b top.
Proof.
  intros Hr H3 Ht H v. rewrite Ht in H. cbn [bind] in H. rewrite (codon_replacements_exact _ _ _ Hr H3) in H.
  apply Ok_inj in H. subst vs. rewrite in_map_iff. split.
  - intros ([p b] & <- & Hin). apply filter_In in Hin. destruct Hin as [Hin Hne]. exists p, b. cbn [fst snd] in *.
    repeat split; auto. intros ->. now rewrite dna_eqb_refl in Hne.
  - intros (p & b & Hin & Hne & ->). exists (p, b). split; [reflexivity|]. apply filter_In. split; [assumption|].
    cbn [snd]. destruct (dna_eqb top b) eqn:E; [|reflexivity]. apply dna_eqb_eq in E. congruence.
Qed.

(* ---- aa ---- *)
Lemma insert_dna_In c l x : In x (insert_dna c l) <-> x = c \/ In x l.
Proof.
  induction l as [|y l IH]; cbn [insert_dna In]; [intuition|].
  destruct (dna_leb c y); cbn [In]; [intuition|]. rewrite IH. intuition.
Qed.
Lemma sort_dna_In l x : In x (sort_dna l) <-> In x l.
Proof. induction l as [|y l IH]; cbn [sort_dna fold_right In]; [reflexivity|]. fold (sort_dna l). rewrite insert_dna_In, IH. intuition. Qed.

Lemma mem_aa_In a l : mem_aa a l = true <-> In a l.
Proof.
  induction l as [|x l IH]; cbn [mem_aa In]; [split; [discriminate|easy]|].
  rewrite orb_true_iff, IH. unfold aa_eqb. rewrite String.eqb_eq. intuition.
Qed.

Lemma concat_mapM_In {X Y} (f : X -> result (list Y)) l ls :
  mapM f l = Ok ls -> forall y, In y (concat ls) <-> exists x ys, In x l /\ f x = Ok ys /\ In y ys.
Proof.
  intros H y. rewrite in_concat. split.
  - intros (ys & Hys & Hy). apply (mapM_In _ _ _ H) in Hys. destruct Hys as (x & Hx & Hf). exists x, ys; auto.
  - intros (x & ys & Hx & Hf & Hy). exists ys. split; [|assumption]. apply (mapM_In _ _ _ H). exists x; auto.
Qed.

Theorem aa_exact t c refs vs :
  codon_refs c = Ok refs -> (forall p b, In (p, b) refs -> zlen b = 3) -> aa_variants t c = Ok vs ->
  forall v, In v vs <->
    exists p b a0 a, In (p, b) refs /\ translate t b = Ok a0 /\
                     In a (aas_of t) /\ a <> STOP /\ a <> a0 /\ get_top_codon t a = Ok (v_alt v) /\
                     v_pos v = p /\ v_ref v = b.
Proof.
  intros Hr H3 H v. unfold aa_variants in H. rewrite Hr in H. cbn [bind] in H.
  destruct (mapM _ refs) as [vss|] eqn:Em; [|discriminate]. cbn [bind] in H. apply Ok_inj in H. subst vs.
  rewrite (concat_mapM_In _ _ _ Em). split.
  - intros ([p b] & ys & Hin & Hf & Hy). cbn [fst snd] in Hf. pose proof (H3 _ _ Hin) as Hb3.
    unfold as_codon in Hf. rewrite Hb3 in Hf. cbn [Z.eqb Pos.eqb bind] in Hf.
    destruct (translate t b) as [a0|] eqn:Et; [|discriminate]. cbn [bind] in Hf.
    unfold get_top_codons in Hf. destruct (mapM (get_top_codon t) _) as [tops|] eqn:Etops; [|discriminate]. cbn [bind] in Hf.
    apply (mapM_In _ _ _ Hf) in Hy. destruct Hy as (alt & Halt & Hv). unfold mk_variant in Hv.
    apply -> sort_dna_In in Halt. apply (mapM_In _ _ _ Etops) in Halt. destruct Halt as (a & Ha & Htop).
    apply filter_In in Ha. destruct Ha as [Ha Hex]. cbn [mem_aa] in Hex.
    apply negb_true_iff, orb_false_iff in Hex. destruct Hex as [Hs Hex]. apply orb_false_iff in Hex. destruct Hex as [Ha0 _].
    unfold aa_eqb in *. apply String.eqb_neq in Hs, Ha0.
    exists p, b, a0, a. assert (v = mkVar p b alt) as -> by (destruct b, alt; try discriminate; now apply Ok_inj in Hv).
    cbn [v_pos v_ref v_alt]. repeat split; auto.
  - intros (p & b & a0 & a & Hin & Ht & Ha & Hs & Ha0 & Htop & Hp & Hb).
    pose proof (H3 _ _ Hin) as Hb3.
    destruct (mapM_each _ _ _ Em _ Hin) as (ys & Hf & Hys). exists (p, b), ys. repeat split; auto.
    cbn [fst snd] in Hf. unfold as_codon in Hf. rewrite Hb3 in Hf. cbn [Z.eqb Pos.eqb bind] in Hf. rewrite Ht in Hf. cbn [bind] in Hf.
    unfold get_top_codons in Hf. destruct (mapM (get_top_codon t) _) as [tl|] eqn:E; [|discriminate]. cbn [bind] in Hf.
    assert (Hfa : In a (filter (fun a => negb (mem_aa a [STOP; a0])) (aas_of t))).
    { apply filter_In. split; [assumption|]. cbn [mem_aa]. unfold aa_eqb. apply negb_true_iff. apply orb_false_iff.
      split; [apply String.eqb_neq; congruence|]. apply orb_false_iff. split; [apply String.eqb_neq; congruence|reflexivity]. }
    destruct (mapM_each _ _ _ E _ Hfa) as (top & Htop' & Hintl). rewrite Htop in Htop'. apply Ok_inj in Htop'. subst top.
    apply <- (sort_dna_In tl) in Hintl. destruct (mapM_each _ _ _ Hf _ Hintl) as (v' & Hv' & Hin').
    replace v with v'; [assumption|]. destruct v as [vp vr va]. cbn [v_pos v_ref v_alt] in *. subst.
    destruct b, va; try discriminate; now apply Ok_inj in Hv'.
Qed.

(* ---- snvre ---- *)
Lemma get_codons_spec t a l : get_codons t a = Ok l -> l = codons_of t a.
Proof. unfold get_codons. destruct (codons_of t a); [discriminate|]. intros H; now apply Ok_inj in H. Qed.

Theorem snvre_alts_exact t a alts :
  translate t (a_codon_ref a) = Ok (a_aa_ref a) -> translate t (a_codon_alt a) = Ok (a_aa_alt a) ->
  snvre_alts t a = Ok alts ->
  forall x, In x alts <-> snvre_rule t (a_codon_ref a) (a_codon_alt a) x.
Proof.
  intros Hr Ha H x. unfold snvre_alts, a_mut_type in H. unfold snvre_rule.
  set (cref := a_codon_ref a) in *. set (calt := a_codon_alt a) in *.
  assert (Hflt : forall l, In x (filter (fun x => negb (dna_eqb x cref) && negb (dna_eqb x calt)) l) <-> In x l /\ x <> cref /\ x <> calt).
  { intros l. rewrite filter_In, andb_true_iff, !negb_true_iff. split.
    - intros (Hi & H1 & H2). repeat split; auto; intros ->; rewrite dna_eqb_refl in *; discriminate.
    - intros (Hi & H1 & H2). repeat split; auto.
      + destruct (dna_eqb x cref) eqn:E; [apply dna_eqb_eq in E; contradiction|reflexivity].
      + destruct (dna_eqb x calt) eqn:E; [apply dna_eqb_eq in E; contradiction|reflexivity]. }
  destruct (aa_change (a_aa_ref a) (a_aa_alt a)) eqn:Ech.
  - (* synonymous *)
    unfold get_synonymous_codons in H. rewrite Ha in H. cbn [bind] in H.
    destruct (get_codons t (a_aa_alt a)) as [l|] eqn:El; [|discriminate]. cbn [bind] in H. apply Ok_inj in H. subst alts.
    apply get_codons_spec in El. subst l. rewrite Hflt. split.
    + intros (Hi & H1 & H2). apply filter_In in Hi. destruct Hi as [Hi _].
      exists (a_aa_ref a), (a_aa_alt a). rewrite Ech. repeat split; auto.
    + intros (a1 & a2 & Ht1 & Ht2 & H1 & H2 & Hm). rewrite Hr in Ht1. rewrite Ha in Ht2. apply Ok_inj in Ht1, Ht2. subst a1 a2.
      rewrite Ech in Hm. repeat split; auto. apply filter_In. split; [assumption|].
      destruct (dna_eqb x calt) eqn:E; [apply dna_eqb_eq in E; contradiction|reflexivity].
  - (* missense *)
    destruct (get_top_codon t (a_aa_alt a)) as [top|] eqn:Et; [|discriminate]. cbn [bind] in H.
    destruct (dna_eqb top calt) eqn:Eq.
    + apply dna_eqb_eq in Eq. subst top. destruct (get_second_best_codon t (a_aa_alt a)) as [sb|] eqn:Es; [|discriminate].
      cbn [bind] in H. apply Ok_inj in H. subst alts. rewrite Hflt. split.
      * intros (Hi & H1 & H2). exists (a_aa_ref a), (a_aa_alt a). rewrite Ech. repeat split; auto.
        destruct sb as [y|]; [|destruct Hi]. destruct Hi as [<-|[]]. right. auto.
      * intros (a1 & a2 & Ht1 & Ht2 & H1 & H2 & Hm). rewrite Hr in Ht1. rewrite Ha in Ht2. apply Ok_inj in Ht1, Ht2. subst a1 a2.
        rewrite Ech in Hm. repeat split; auto. destruct Hm as [Hm|[_ Hm]].
        -- rewrite Et in Hm. apply Ok_inj in Hm. congruence.
        -- rewrite Es in Hm. apply Ok_inj in Hm. subst sb. now left.
    + cbn [bind] in H. apply Ok_inj in H. subst alts. rewrite Hflt. split.
      * intros (Hi & H1 & H2). destruct Hi as [<-|[]]. exists (a_aa_ref a), (a_aa_alt a). rewrite Ech. repeat split; auto.
      * intros (a1 & a2 & Ht1 & Ht2 & H1 & H2 & Hm). rewrite Hr in Ht1. rewrite Ha in Ht2. apply Ok_inj in Ht1, Ht2. subst a1 a2.
        rewrite Ech in Hm. repeat split; auto. destruct Hm as [Hm|[Hm _]]; rewrite Et in Hm; apply Ok_inj in Hm.
        -- now left.
        -- subst top. rewrite dna_eqb_refl in Eq. discriminate.
  - (* nonsense: same rule as missense *)
    destruct (get_top_codon t (a_aa_alt a)) as [top|] eqn:Et; [|discriminate]. cbn [bind] in H.
    destruct (dna_eqb top calt) eqn:Eq.
    + apply dna_eqb_eq in Eq. subst top. destruct (get_second_best_codon t (a_aa_alt a)) as [sb|] eqn:Es; [|discriminate].
      cbn [bind] in H. apply Ok_inj in H. subst alts. rewrite Hflt. split.
      * intros (Hi & H1 & H2). exists (a_aa_ref a), (a_aa_alt a). rewrite Ech. repeat split; auto.
        destruct sb as [y|]; [|destruct Hi]. destruct Hi as [<-|[]]. right. auto.
      * intros (a1 & a2 & Ht1 & Ht2 & H1 & H2 & Hm). rewrite Hr in Ht1. rewrite Ha in Ht2. apply Ok_inj in Ht1, Ht2. subst a1 a2.
        rewrite Ech in Hm. repeat split; auto. destruct Hm as [Hm|[_ Hm]].
        -- rewrite Et in Hm. apply Ok_inj in Hm. congruence.
        -- rewrite Es in Hm. apply Ok_inj in Hm. subst sb. now left.
    + cbn [bind] in H. apply Ok_inj in H. subst alts. rewrite Hflt. split.
      * intros (Hi & H1 & H2). destruct Hi as [<-|[]]. exists (a_aa_ref a), (a_aa_alt a). rewrite Ech. repeat split; auto.
      * intros (a1 & a2 & Ht1 & Ht2 & H1 & H2 & Hm). rewrite Hr in Ht1. rewrite Ha in Ht2. apply Ok_inj in Ht1, Ht2. subst a1 a2.
        rewrite Ech in Hm. repeat split; auto. destruct Hm as [Hm|[Hm _]]; rewrite Et in Hm; apply Ok_inj in Hm.
        -- now left.
        -- subst top. rewrite dna_eqb_refl in Eq. discriminate.
Qed.

Lemma triple_eqb_eq x y : triple_eqb x y = true <-> x = y.
Proof.
  destruct x as [[p r] a], y as [[p' r'] a']. unfold triple_eqb. cbn [fst snd].
  rewrite !andb_true_iff, Z.eqb_eq, !dna_eqb_eq. split; [intros [[-> ->] ->]; reflexivity|]. intros H; inversion H; auto.
Qed.

Lemma dedup_triples_In l x : In x (dedup_triples l) <-> In x l.
Proof.
  induction l as [|y l IH]; cbn [dedup_triples In]; [reflexivity|].
  rewrite filter_In, IH. split; [intuition|]. intros [->|H]; [now left|].
  destruct (triple_eqb y x) eqn:E; [apply triple_eqb_eq in E; now left|right; split; [assumption|reflexivity]].
Qed.

Lemma NoDup_filter {X} (f : X -> bool) l : NoDup l -> NoDup (filter f l).
Proof.
  induction 1 as [|x l Hx Hn IH]; cbn [filter]; [constructor|].
  destruct (f x); [constructor; [rewrite filter_In; tauto|assumption]|assumption].
Qed.

Lemma dedup_triples_NoDup l : NoDup (dedup_triples l).
Proof.
  induction l as [|y l IH]; cbn [dedup_triples]; constructor.
  - rewrite filter_In. intros [_ H]. assert (triple_eqb y y = true) by now apply triple_eqb_eq. rewrite H0 in H. discriminate.
  - now apply NoDup_filter.
Qed.

Lemma insert_by_fst_perm x l : Permutation (insert_by_fst x l) (x :: l).
Proof.
  induction l as [|y l IH]; cbn [insert_by_fst]; [reflexivity|].
  destruct (_ <=? _); [reflexivity|]. rewrite IH. apply perm_swap.
Qed.
Lemma sort_triples_perm l : Permutation (sort_triples l) l.
Proof.
  induction l as [|x l IH]; cbn [sort_triples fold_right]; [reflexivity|]. fold (sort_triples l).
  rewrite insert_by_fst_perm. now constructor.
Qed.

Theorem snvre_variants_exact t c snvs vs :
  snv_annots t c "snv"%string = Ok snvs -> snvre_variants t c = Ok vs ->
  (forall v, In v vs <->
     exists a alts, In a snvs /\ snvre_alts t a = Ok alts /\ In (v_alt v) alts /\
                    v_pos v = a_codon_start a /\ v_ref v = a_codon_ref a /\ a_codon_start a <= c_end c - 2) /\
  NoDup vs.
Proof.
  intros Hs H. unfold snvre_variants in H. rewrite Hs in H. cbn [bind] in H.
  destruct (mapM _ snvs) as [ts|] eqn:Et; [|discriminate]. cbn [bind] in H.
  set (trip := filter _ (concat ts)) in H.
  assert (Htrip : forall x, In x trip <-> exists a alts, In a snvs /\ snvre_alts t a = Ok alts /\ In (snd x) alts /\
                    fst (fst x) = a_codon_start a /\ snd (fst x) = a_codon_ref a /\ a_codon_start a <= c_end c - 2).
  { intros x. unfold trip. rewrite filter_In, (concat_mapM_In _ _ _ Et). split.
    - intros [(a & ys & Ha & Hf & Hy) Hle]. destruct (snvre_alts t a) as [alts|] eqn:Ea; [|discriminate]. cbn [bind] in Hf.
      apply Ok_inj in Hf. subst ys. apply in_map_iff in Hy. destruct Hy as (y & <- & Hy). cbn [fst snd] in *.
      exists a, alts. repeat split; auto. lia.
    - intros (a & alts & Ha & Hal & Hx & Hp & Hr & Hle). split.
      + exists a, (map (fun y => (a_codon_start a, a_codon_ref a, y)) alts). repeat split; auto.
        * rewrite Hal. reflexivity.
        * apply in_map_iff. exists (snd x). split; [|assumption]. destruct x as [[p r] y]. cbn [fst snd] in *. congruence.
      + lia. }
  assert (Hperm := sort_triples_perm (dedup_triples trip)).
  split.
  - intros v. rewrite (mapM_In _ _ _ H). split.
    + intros (x & Hx & Hv). apply (Permutation_in _ Hperm), dedup_triples_In, Htrip in Hx.
      destruct Hx as (a & alts & Ha & Hal & Hy & Hp & Hr & Hle). exists a, alts.
      destruct x as [[p r] y]. cbn [fst snd] in *. unfold mk_variant in Hv.
      assert (v = mkVar p r y) as -> by (destruct r, y; try discriminate; now apply Ok_inj in Hv).
      cbn [v_pos v_ref v_alt]. repeat split; auto.
    + intros (a & alts & Ha & Hal & Hy & Hp & Hr & Hle).
      assert (Hx : In (v_pos v, v_ref v, v_alt v) (sort_triples (dedup_triples trip))).
      { apply (Permutation_in _ (Permutation_sym Hperm)), dedup_triples_In, Htrip.
        exists a, alts. cbn [fst snd]. repeat split; auto. }
      destruct (mapM_each _ _ _ H _ Hx) as (v' & Hv' & Hin'). cbn [fst snd] in Hv'.
      exists (v_pos v, v_ref v, v_alt v). split; [assumption|]. cbn [fst snd]. rewrite Hv'. f_equal.
      destruct v as [p r y]. cbn [v_pos v_ref v_alt] in *. destruct r, y; try discriminate; now apply Ok_inj in Hv'.
  - (* no row twice: the triples are distinct and the variant determines its triple *)
    assert (Hnd : NoDup (sort_triples (dedup_triples trip))).
    { apply (Permutation_NoDup (Permutation_sym Hperm)), dedup_triples_NoDup. }
    clear Hperm. revert vs H Hnd. generalize (sort_triples (dedup_triples trip)) as l.
    induction l as [|x l IH]; cbn [mapM]; intros vs H Hnd.
    + apply Ok_inj in H. subst. constructor.
    + destruct (mk_variant _ _ _) as [v|] eqn:Ev; [|discriminate]. cbn [bind] in H.
      destruct (mapM _ l) as [vs'|] eqn:Em; [|discriminate]. cbn [bind] in H. apply Ok_inj in H. subst vs.
      inversion Hnd as [|? ? Hx Hl]; subst. constructor; [|now apply (IH _ eq_refl)].
      intros Hin. apply (mapM_In _ _ _ Em) in Hin. destruct Hin as (x' & Hx' & Hv'). apply Hx.
      replace x with x'; [assumption|]. destruct x as [[p r] y], x' as [[p' r'] y']. cbn [fst snd] in *.
      unfold mk_variant in *. destruct r, y; try discriminate; destruct r', y'; try discriminate;
        apply Ok_inj in Ev, Hv'; subst v; inversion Hv'; reflexivity.
Qed.

(* ---- never any output for a non-coding region ---- *)
Theorem cds_mutators_refused_noncoding q ms k :
  In k ms -> is_cds_kind k = true -> region_variants_noncds q ms = Err ValueError.
Proof.
  intros Hin Hk. unfold region_variants_noncds.
  replace (has_kind is_cds_kind (with_dependents ms)) with true; [reflexivity|].
  symmetry. unfold has_kind. apply existsb_exists. exists k. split; [|assumption].
  unfold with_dependents. destruct (_ && _); [apply in_or_app; now left|assumption].
Qed.

(* codon-level rows lie inside their region, so get_vars_in_region keeps every one of them *)
Theorem codon_rows_in_region s e r p b alt :
  is_region_codon s e r p -> zlen b = 3 -> in_region r (mkVar p b alt) = true.
Proof.
  intros (Ha & Hb & _) H3. unfold in_region, in_range, var_ref_end, get_end. cbn [v_pos v_ref]. rewrite H3. lia.
Qed.
