From VV Require Import Model.Base Model.Targeton Proofs.BaseLemmas.

Lemma range_fuel_seq n : forall a, range_fuel n a (a + Z.of_nat n) 1 = map (fun i => a + Z.of_nat i) (seq 0 n).
Proof.
  induction n as [|n IH]; intros a; [reflexivity|].
  cbn [range_fuel]. replace (a <? a + Z.of_nat (S n)) with true by (symmetry; apply Z.ltb_lt; lia).
  cbn [seq map]. f_equal; [lia|].
  replace (a + Z.of_nat (S n)) with ((a + 1) + Z.of_nat n) by lia. rewrite IH.
  rewrite <- seq_shift, map_map. apply map_ext. intros; lia.
Qed.

Lemma zrange_seq a b : a <= b -> zrange a b = map (fun i => a + Z.of_nat i) (seq 0 (Z.to_nat (b - a))).
Proof.
  intros H. unfold zrange, py_range. rewrite <- range_fuel_seq. f_equal. lia.
Qed.

Lemma seq_add n : forall m, seq m n = map (fun i => (i + m)%nat) (seq 0 n).
Proof.
  induction n as [|n IH]; intros m; [reflexivity|].
  cbn [seq map]. f_equal. rewrite (IH (S m)), <- seq_shift, map_map. apply map_ext. intros; lia.
Qed.

Lemma zrange_app a b c : a <= b -> b <= c -> zrange a b ++ zrange b c = zrange a c.
Proof.
  intros H1 H2. rewrite !zrange_seq by lia.
  replace (Z.to_nat (c - a)) with (Z.to_nat (b - a) + Z.to_nat (c - b))%nat by lia.
  rewrite seq_app, map_app. f_equal. cbn [plus].
  rewrite (seq_add (Z.to_nat (c - b)) (Z.to_nat (b - a))), map_map.
  apply map_ext. intros; lia.
Qed.

Lemma zrange_app3 a b b' c : b = b' -> a <= b -> b' <= c -> zrange a b ++ zrange b' c = zrange a c.
Proof. intros <- ? ?. now apply zrange_app. Qed.

Lemma zrange_empty a : zrange a a = [].
Proof. unfold zrange, py_range. now rewrite Z.sub_diag. Qed.

Lemma positions_mk s e : positions (mkRange s e) = zrange s (e + 1).
Proof. reflexivity. Qed.

Ltac zb :=
  repeat match goal with
  | H : (_ <? _) = true |- _ => apply Z.ltb_lt in H
  | H : (_ <? _) = false |- _ => apply Z.ltb_ge in H
  | H : (_ <=? _) = true |- _ => apply Z.leb_le in H
  | H : (_ <=? _) = false |- _ => apply Z.leb_gt in H
  | H : (_ =? _) = true |- _ => apply Z.eqb_eq in H
  | H : (_ =? _) = false |- _ => apply Z.eqb_neq in H
  | H : (_ || _) = false |- _ => apply orb_false_iff in H; destruct H
  | H : (_ && _) = true |- _ => apply andb_true_iff in H; destruct H
  end.

(* consecutive, non-empty segments from position a up to (excluding) b *)
Fixpoint chain (a : Z) (l : list range) (b : Z) : Prop :=
  match l with
  | [] => a = b
  | r :: l' => rs r = a /\ rs r <= re r /\ chain (re r + 1) l' b
  end.

Lemma chain_le a l b : chain a l b -> a <= b.
Proof.
  revert a; induction l as [|r l IH]; intros a; cbn [chain]; [lia|].
  intros (H1 & H2 & H3). apply IH in H3. lia.
Qed.

Lemma chain_positions a l b : chain a l b -> concat (map positions l) = zrange a b.
Proof.
  revert a; induction l as [|r l IH]; intros a; cbn [chain map concat].
  - intros ->. now rewrite zrange_empty.
  - intros (H1 & H2 & H3). pose proof (chain_le _ _ _ H3). rewrite (IH _ H3).
    destruct r as [s e]; cbn [rs re] in *. subst. rewrite positions_mk. apply zrange_app; lia.
Qed.

(* cutting a sequence that starts at s0 along a chain gives back the bases between its ends *)
Lemma chain_slices {X} (bases : list X) s0 a l b :
  s0 <= a -> chain a l b ->
  concat (map (fun r => py_slice (rs r - s0) (re r + 1 - s0) bases) l) = py_slice (a - s0) (b - s0) bases.
Proof.
  revert a; induction l as [|r l IH]; intros a Ha; cbn [chain map concat].
  - intros ->. now rewrite py_slice_empty.
  - intros (H1 & H2 & H3). pose proof (chain_le _ _ _ H3). rewrite (IH (re r + 1)) by (assumption || lia).
    subst a. apply py_slice_app; lia.
Qed.

Lemma chain_valid a l b : 0 <= a -> chain a l b -> Forall (fun r => range_valid r = true) l.
Proof.
  revert a; induction l as [|r l IH]; intros a Ha; cbn [chain]; [constructor|].
  intros (H1 & H2 & H3). constructor.
  - unfold range_valid. apply andb_true_iff; split; apply Z.leb_le; lia.
  - apply (IH (re r + 1)); [lia|assumption].
Qed.

Theorem regions_chain c :
  range_valid (t_ref c) = true -> range_valid (t_r2 c) = true -> 0 <= t_e1 c -> 0 <= t_e3 c ->
  validate c = Ok tt ->
  exists rsl, get_all_regions c = Ok rsl /\ chain (rs (t_ref c)) rsl (re (t_ref c) + 1).
Proof.
  destruct c as [[a b] [p q] e1 e3]. unfold range_valid, validate. cbn [t_ref t_r2 t_e1 t_e3 rs re].
  intros Hr Hr2 He1 He3 Hv.
  destruct ((p <? a) || (b <? q)) eqn:E0; [discriminate|].
  destruct (p - e1 <? a) eqn:E1; [discriminate|].
  destruct (b <? q + e3) eqn:E3; [discriminate|]. clear Hv. zb.
  unfold get_all_regions, get_const_1, get_const_2, get_region_1, get_region_3, get_before, get_after, mk_range.
  cbn [t_ref t_r2 t_e1 t_e3 rs re].
  destruct (e1 =? 0) eqn:Z1; destruct (e3 =? 0) eqn:Z3; zb; subst; cbn [bind rs re].
  all: repeat (match goal with
       | |- context [if ?x <? ?y then _ else _] => let E := fresh "E" in destruct (x <? y) eqn:E; zb; try lia
       | |- context [if (?x <=? ?y) && (?u <=? ?v) then _ else _] =>
           let E := fresh "E" in destruct ((x <=? y) && (u <=? v)) eqn:E;
           [zb | apply andb_false_iff in E; destruct E; zb; lia]
       end; cbn [bind rs re get_not_none map concat]).
  all: eexists; split; [reflexivity|]; cbn [chain rs re]; repeat split; lia.
Qed.

(* An accepted targeton with non-negative extension lengths: the five getters succeed and the
   segments, in the reported order, list exactly the positions of the reference range. *)
Theorem regions_tile c :
  range_valid (t_ref c) = true -> range_valid (t_r2 c) = true -> 0 <= t_e1 c -> 0 <= t_e3 c ->
  validate c = Ok tt ->
  exists rsl, get_all_regions c = Ok rsl /\
              concat (map positions rsl) = positions (t_ref c) /\
              Forall (fun r => range_valid r = true) rsl.
Proof.
  intros Hr Hr2 He1 He3 Hv. destruct (regions_chain c Hr Hr2 He1 He3 Hv) as (rsl & Hg & Hc).
  exists rsl. split; [assumption|]. split.
  - now rewrite (chain_positions _ _ _ Hc).
  - apply (chain_valid _ _ _) with (2 := Hc). unfold range_valid in Hr. zb. lia.
Qed.

(* the sequences reported for the segments concatenate to the reference sequence of the targeton *)
Theorem seqs_concat_to_ref c (bases : dna) :
  range_valid (t_ref c) = true -> range_valid (t_r2 c) = true -> 0 <= t_e1 c -> 0 <= t_e3 c ->
  validate c = Ok tt -> zlen bases = rlen (t_ref c) ->
  exists rsl, get_all_regions c = Ok rsl /\
    concat (map (fun r => py_slice (rs r - rs (t_ref c)) (re r + 1 - rs (t_ref c)) bases) rsl) = bases.
Proof.
  intros Hr Hr2 He1 He3 Hv Hl. destruct (regions_chain c Hr Hr2 He1 He3 Hv) as (rsl & Hg & Hc).
  exists rsl. split; [assumption|].
  rewrite (chain_slices bases (rs (t_ref c)) _ _ _ (Z.le_refl _) Hc).
  rewrite Z.sub_diag. unfold rlen in Hl. replace (re (t_ref c) + 1 - rs (t_ref c)) with (zlen bases) by lia.
  apply py_slice_all.
Qed.

(* regions 1 and 3 have the lengths of the extension vector and flank region 2 directly *)
Theorem r1_r3_flank c r :
  (get_region_1 c = Ok (Some r) -> rlen r = t_e1 c /\ re r + 1 = rs (t_r2 c)) /\
  (get_region_3 c = Ok (Some r) -> rlen r = t_e3 c /\ rs r = re (t_r2 c) + 1).
Proof.
  unfold get_region_1, get_region_3, get_before, get_after, mk_range, rlen. split.
  - destruct (t_e1 c =? 0); [discriminate|]. destruct (0 <? t_e1 c); [|discriminate].
    destruct ((0 <=? rs (t_r2 c) - t_e1 c) && (rs (t_r2 c) - t_e1 c <=? rs (t_r2 c) - 1)); [|discriminate].
    cbn [bind]. intros H; injection H as <-. cbn [rs re]. lia.
  - destruct (t_e3 c =? 0); [discriminate|]. destruct (0 <? t_e3 c); [|discriminate].
    destruct ((0 <=? re (t_r2 c) + 1) && (re (t_r2 c) + 1 <=? re (t_r2 c) + t_e3 c)); [|discriminate].
    cbn [bind]. intros H; injection H as <-. cbn [rs re]. lia.
Qed.
