(* C15: the decision of validate_background_variants and of the PAM/background overlap test. *)
From VV Require Import Model.Base Model.Pattern Model.CodonTable Model.BgValidate Proofs.BaseLemmas Proofs.CodonProofs.
From Coq Require Import Permutation.

(* does the loop count the variant as protein changing? (false when it touches no codon) *)
Definition changes (t : table) (v : bgvar) : bool :=
  match b_codons v with
  | [] => false
  | _ => match nonsynonymous t v with Ok b => b | Err _ => false end
  end.
(* every codon of the variant is in the codon table (the lookups of the loop do not raise) *)
Definition translatable (t : table) (v : bgvar) : Prop := b_codons v = [] \/ exists b, nonsynonymous t v = Ok b.

Lemma validate_step_spec t st v : translatable t v ->
  validate_step t st v = Ok (fst st || changes t v, snd st || (changes t v && frame_shifting v)).
Proof.
  intros Ht. unfold validate_step, changes. destruct (b_codons v) eqn:Ec.
  - destruct st as [x y]. cbn. now rewrite !orb_false_r.
  - destruct Ht as [Ht|[b Hb]]; [congruence|]. rewrite Hb. cbn [bind]. destruct st as [x y]. cbn [fst snd].
    destruct b; cbn; [now rewrite orb_true_r|now rewrite !orb_false_r].
Qed.

Lemma validate_loop_spec t vs : forall st, (forall v, In v vs -> translatable t v) ->
  validate_loop t st vs = Ok (fst st || existsb (changes t) vs, snd st || existsb (fun v => changes t v && frame_shifting v) vs).
Proof.
  induction vs as [|v vs IH]; intros st Ht; cbn [validate_loop existsb].
  - destruct st as [x y]. cbn. now rewrite !orb_false_r.
  - rewrite validate_step_spec by (apply Ht; now left). cbn [bind]. rewrite IH by (intros; apply Ht; now right).
    cbn [fst snd]. now rewrite !orb_assoc.
Qed.

(* the decision of validate_background_variants *)
Theorem refusal_iff t allow_ns allow_fs vs : (forall v, In v vs -> translatable t v) ->
  validate t allow_ns allow_fs vs =
    if (existsb (changes t) vs && negb allow_ns) || (existsb (fun v => changes t v && frame_shifting v) vs && negb allow_fs)
    then Err InvalidBackgroundVariant else Ok tt.
Proof.
  intros Ht. unfold validate. rewrite validate_loop_spec by assumption. cbn [bind fst snd orb].
  destruct (existsb (changes t) vs && negb allow_ns); [reflexivity|].
  now destruct (existsb _ vs && negb allow_fs).
Qed.

(* what "protein changing" means for the loop: the variant touches a codon and either changes the length or some codon
   it touches translates differently before and after *)
Lemma mapM_is_syn t cs flags : mapM (fun c => is_syn t (fst c) (snd c)) cs = Ok flags ->
  existsb negb flags = true <-> exists c a b, In c cs /\ translate t (fst c) = Ok a /\ translate t (snd c) = Ok b /\ a <> b.
Proof.
  intros H. rewrite existsb_exists. split.
  - intros (f & Hf & Hn). apply (mapM_In _ _ _ H) in Hf. destruct Hf as (c & Hc & Hs). unfold is_syn in Hs.
    destruct (translate t (fst c)) as [a|] eqn:Ea; [|discriminate]. destruct (translate t (snd c)) as [b|] eqn:Eb; [|discriminate].
    cbn [bind] in Hs. apply Ok_inj in Hs. subst f. exists c, a, b. repeat split; auto.
    unfold aa_eqb in Hn. apply negb_true_iff, String.eqb_neq in Hn. exact Hn.
  - intros (c & a & b & Hc & Ha & Hb & Hne). destruct (mapM_each _ _ _ H _ Hc) as (f & Hf & Hin).
    exists f. split; [assumption|]. unfold is_syn in Hf. rewrite Ha, Hb in Hf. cbn [bind] in Hf. apply Ok_inj in Hf. subst f.
    unfold aa_eqb. apply negb_true_iff, String.eqb_neq. exact Hne.
Qed.

Theorem changes_iff t v : translatable t v ->
  (changes t v = true <->
   b_codons v <> [] /\ (b_delta v <> 0 \/
     exists c a b, In c (b_codons v) /\ translate t (fst c) = Ok a /\ translate t (snd c) = Ok b /\ a <> b)).
Proof.
  intros Ht. unfold changes, nonsynonymous, frame_shifting in *. destruct (b_codons v) as [|c0 cs] eqn:Ec.
  - split; [discriminate|]. intros [H _]. congruence.
  - destruct (Z.eqb_spec (b_delta v) 0) as [E0|E0]; cbn [negb].
    + destruct Ht as [Ht|[b Hb]]; [congruence|]. unfold nonsynonymous, frame_shifting in Hb. rewrite Ec in Hb.
      destruct (Z.eqb_spec (b_delta v) 0); [|contradiction]. cbn [negb] in Hb.
      destruct (mapM _ (c0 :: cs)) as [flags|] eqn:Em; [|discriminate]. cbn [bind] in *.
      rewrite (mapM_is_syn _ _ _ Em). split.
      * intros H. split; [discriminate|]. now right.
      * intros [_ [H|H]]; [contradiction|exact H].
    + split; [intros _; split; [discriminate|now left]|reflexivity].
Qed.

(* with a valid configuration (frame-shift forcing only together with non-synonymous forcing) the rule reads: refused iff
   some variant changes an amino acid and force-bg-ns is off, or some variant changes the coding length and not both flags are on *)
Theorem refusal_rule t force_ns force_fs vs : (forall v, In v vs -> translatable t v) -> flags_valid force_ns force_fs = true ->
  (validate t force_ns force_fs vs = Err InvalidBackgroundVariant <->
   (exists v, In v vs /\ changes t v = true /\ b_delta v = 0 /\ force_ns = false) \/
   (exists v, In v vs /\ changes t v = true /\ b_delta v <> 0 /\ (force_ns && force_fs) = false)) /\
  (validate t force_ns force_fs vs = Err InvalidBackgroundVariant \/ validate t force_ns force_fs vs = Ok tt).
Proof.
  intros Ht Hv. rewrite refusal_iff by assumption. split.
  2:{ destruct (_ || _); auto. }
  assert (Hfs : forall v, frame_shifting v = true <-> b_delta v <> 0).
  { intros v. unfold frame_shifting. rewrite negb_true_iff, Z.eqb_neq. reflexivity. }
  destruct ((existsb (changes t) vs && negb force_ns) || (existsb (fun v => changes t v && frame_shifting v) vs && negb force_fs)) eqn:E.
  - split; [intros _|reflexivity]. apply orb_true_iff in E. destruct E as [E|E]; apply andb_true_iff in E; destruct E as [E1 E2];
      apply existsb_exists in E1; destruct E1 as (v & Hin & Hc); apply negb_true_iff in E2; subst.
    + destruct (Z.eq_dec (b_delta v) 0) as [E0|E0]; [left; exists v; auto|right; exists v; repeat split; auto].
    + apply andb_true_iff in Hc. destruct Hc as [Hc Hf]. apply Hfs in Hf. right. exists v. repeat split; auto. apply andb_false_r.
  - split; [discriminate|]. intros H. exfalso. apply orb_false_iff in E. destruct E as [E1 E2].
    destruct H as [(v & Hin & Hc & _ & ->)|(v & Hin & Hc & Hd & Hff)].
    + rewrite andb_true_r in E1. assert (existsb (changes t) vs = true) by (apply existsb_exists; eauto). congruence.
    + destruct force_ns.
      * cbn in Hff. subst. rewrite andb_true_r in E2.
        assert (existsb (fun v => changes t v && frame_shifting v) vs = true); [|congruence].
        apply existsb_exists. exists v. split; [assumption|]. rewrite Hc. now apply Hfs.
      * rewrite andb_true_r in E1. assert (existsb (changes t) vs = true) by (apply existsb_exists; eauto). congruence.
Qed.

(* the verdict does not depend on the order of the variants, nor on variants that change nothing *)
Lemma existsb_perm {X} (f : X -> bool) l l' : Permutation l l' -> existsb f l = existsb f l'.
Proof.
  induction 1; cbn; auto; [now rewrite IHPermutation|now rewrite !orb_assoc, (orb_comm (f y))|congruence].
Qed.

Theorem verdict_order_free t ns fs vs vs' : (forall v, In v vs -> translatable t v) -> Permutation vs vs' ->
  validate t ns fs vs = validate t ns fs vs'.
Proof.
  intros Ht Hp. rewrite !refusal_iff; auto.
  - now rewrite (existsb_perm _ _ _ Hp), (existsb_perm (fun v => changes t v && frame_shifting v) _ _ Hp).
  - intros v Hv. apply Ht. now apply (Permutation_in _ (Permutation_sym Hp)).
Qed.

Theorem verdict_local t ns fs vs w : (forall v, In v (w :: vs) -> translatable t v) -> changes t w = false ->
  validate t ns fs (w :: vs) = validate t ns fs vs.
Proof.
  intros Ht Hw. rewrite !refusal_iff; auto; [|intros; apply Ht; now right]. cbn [existsb]. now rewrite Hw.
Qed.

(* a PAM protection edit on a coding base inside the reference span of a background variant is refused whatever the flags *)
Theorem ppe_on_background_refused ppes bgs :
  check_ppe_bg ppes bgs = Err InvalidBackgroundVariant <->
  exists p b, In (p, true) ppes /\ In b bgs /\ fst b <= p <= snd b.
Proof.
  unfold check_ppe_bg, ppe_bg_overlaps. split.
  - destruct (map fst (filter _ ppes)) as [|x l] eqn:E; [discriminate|]. intros _.
    assert (Hin : In x (map fst (filter (fun p => snd p && existsb (fun b => (fst b <=? fst p) && (fst p <=? snd b)) bgs) ppes))) by (rewrite E; now left).
    apply in_map_iff in Hin. destruct Hin as ([p c] & <- & Hf). apply filter_In in Hf. destruct Hf as [Hin Hc]. cbn [fst snd] in *.
    apply andb_true_iff in Hc. destruct Hc as [-> Hex]. apply existsb_exists in Hex. destruct Hex as (b & Hb & Hr).
    exists p, b. repeat split; auto; lia.
  - intros (p & b & Hp & Hb & Hr).
    assert (Hin : In p (map fst (filter (fun p => snd p && existsb (fun b => (fst b <=? fst p) && (fst p <=? snd b)) bgs) ppes))).
    { apply in_map_iff. exists (p, true). split; [reflexivity|]. apply filter_In. split; [assumption|]. cbn [fst snd andb].
      apply existsb_exists. exists b. split; [assumption|lia]. }
    destruct (map fst _); [destruct Hin|reflexivity].
Qed.
