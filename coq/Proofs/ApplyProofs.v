(* seq_converter.apply_variants splices every variant into the reference (C05, also C06/C07). *)
From VV Require Import Model.Base Model.Pattern Model.Gpo Spec.LiftSpec Proofs.BaseLemmas Proofs.TargetonProofs.

Lemma zskipn_cons {X} n (b : X) l : 0 < n -> zskipn n (b :: l) = zskipn (n - 1) l.
Proof. intros H. unfold zskipn. replace (Z.to_nat n) with (S (Z.to_nat (n - 1))) by lia. reflexivity. Qed.

Lemma zfirstn_cons {X} n (b : X) l : 0 < n -> zfirstn n (b :: l) = b :: zfirstn (n - 1) l.
Proof. intros H. unfold zfirstn. replace (Z.to_nat n) with (S (Z.to_nat (n - 1))) by lia. reflexivity. Qed.

Lemma zskipn_0 {X} (l : list X) : zskipn 0 l = l.
Proof. reflexivity. Qed.
Lemma zfirstn_0 {X} (l : list X) : zfirstn 0 l = [].
Proof. reflexivity. Qed.

Lemma zskipn_all {X} n (l : list X) : zlen l <= n -> zskipn n l = [].
Proof. unfold zskipn, zlen. intros. apply skipn_all2. lia. Qed.

(* the ALT length of a block is never negative *)
Lemma sum_bound lo hi vs : wfv lo hi vs -> lo <= hi + 1 -> 0 <= hi + 1 - lo + sum_delta_v vs.
Proof.
  revert lo; induction vs as [|v vs IH]; intros lo Hwf Hlo; cbn [sum_delta_v fold_right]; [lia|].
  destruct Hwf as (H1 & H2 & H3 & Hwf). fold (sum_delta_v vs).
  specialize (IH _ Hwf ltac:(lia)). pose proof (zlen_nonneg (v_alt v)). pose proof (zlen_nonneg (v_ref v)). lia.
Qed.

Lemma wfv_weaken lo lo' hi vs : wfv lo hi vs -> lo' <= lo -> wfv lo' hi vs.
Proof. destruct vs as [|v vs]; cbn [wfv]; [auto|]. intros (H1 & H2 & H3 & H4) Hl. repeat split; auto; lia. Qed.

Lemma wfv_head_bound lo hi v vs : wfv lo hi (v :: vs) -> lo <= v_pos v <= hi.
Proof. cbn [wfv]. intros (H1 & H2 & H3 & H4). lia. Qed.

(* a base in front of every variant is copied through *)
Lemma splice_shift pos b ref vs hi : wfv (pos + 1) hi vs -> splice pos (b :: ref) vs = b :: splice (pos + 1) ref vs.
Proof.
  destruct vs as [|v vs]; cbn [splice wfv]; [reflexivity|]. intros (H1 & H2 & H3 & H4).
  pose proof (zlen_nonneg (v_ref v)).
  rewrite zfirstn_cons by lia. rewrite zskipn_cons by lia. cbn [app].
  replace (v_pos v - pos - 1) with (v_pos v - (pos + 1)) by lia.
  replace (v_pos v - pos + zlen (v_ref v) - 1) with (v_pos v - (pos + 1) + zlen (v_ref v)) by lia. reflexivity.
Qed.

Lemma apply_at_nomatch pos v vs : v_pos v <> pos -> apply_at pos (v :: vs) = None.
Proof. intros H. cbn [apply_at]. apply Z.eqb_neq in H. now rewrite H. Qed.

Lemma apply_at_match_ref pos v vs : v_pos v = pos -> 0 < zlen (v_ref v) ->
  apply_at pos (v :: vs) = Some (v_alt v, zlen (v_ref v), vs).
Proof.
  intros H Hr. cbn [apply_at]. apply Z.eqb_eq in H. rewrite H.
  replace (zlen (v_ref v) =? 0) with false by (symmetry; apply Z.eqb_neq; lia). reflexivity.
Qed.

Lemma apply_at_match_ins pos v vs hi : v_pos v = pos -> zlen (v_ref v) = 0 -> wfv (pos + 1) hi vs ->
  apply_at pos (v :: vs) = Some (v_alt v, 0, vs).
Proof.
  intros H Hr Hwf. cbn [apply_at]. apply Z.eqb_eq in H. rewrite H, Hr. cbn [Z.eqb].
  destruct vs as [|w vs]; [reflexivity|].
  rewrite apply_at_nomatch; [reflexivity|]. destruct Hwf as (H1 & _). lia.
Qed.

Lemma walk_gen ref : forall pos skip vs alt j,
  vs <> [] -> 0 <= skip -> skip <= zlen ref -> wfv (pos + skip) (pos + zlen ref - 1) vs ->
  alt = j + (zlen ref - skip) + sum_delta_v vs -> 0 <= j ->
  walk ref pos skip vs alt j = Ok (splice (pos + skip) (zskipn skip ref) vs).
Proof.
  induction ref as [|b ref IH]; intros pos skip vs alt j Hne Hs0 Hs1 Hwf Halt Hj.
  - exfalso. destruct vs as [|v vs]; [congruence|]. rewrite zlen_nil in *.
    destruct Hwf as (H1 & H2 & H3 & H4). pose proof (zlen_nonneg (v_ref v)). lia.
  - rewrite zlen_cons in *. destruct vs as [|v vs]; [congruence|]. cbn [walk].
    destruct (0 <? skip) eqn:Esk; zb.
    + rewrite (IH (pos + 1) (skip - 1) (v :: vs) alt j); try lia; try congruence.
      * rewrite zskipn_cons by lia. do 2 f_equal. lia.
      * replace (pos + 1 + (skip - 1)) with (pos + skip) by lia.
        replace (pos + 1 + zlen ref - 1) with (pos + (1 + zlen ref) - 1) by lia. assumption.
    + assert (skip = 0) by lia. subst skip. rewrite Z.add_0_r in *. rewrite zskipn_0.
      pose proof (zlen_nonneg (v_ref v)) as Hrn. pose proof (zlen_nonneg (v_alt v)) as Han.
      pose proof (zlen_nonneg ref) as Hln.
      destruct (Z.eq_dec (v_pos v) pos) as [Hp|Hp].
      * (* a variant at this position *)
        pose proof Hwf as Hwf0. destruct Hwf as (H1 & H2 & H3 & Hwf).
        cbn [sum_delta_v fold_right] in Halt. fold (sum_delta_v vs) in Halt.
        assert (Hsb : 0 <= pos + (1 + zlen ref) - 1 + 1 - (v_pos v + Z.max 1 (zlen (v_ref v))) + sum_delta_v vs)
          by (apply sum_bound; [assumption|lia]).
        destruct (Z_lt_le_dec 0 (zlen (v_ref v))) as [Hr|Hr].
        -- (* substitution or deletion *)
           rewrite apply_at_match_ref by assumption.
           replace (alt <? j + zlen (v_alt v)) with false by (symmetry; apply Z.ltb_ge; lia).
           cbn [splice]. replace (v_pos v - pos) with 0 by lia. rewrite zfirstn_0. cbn [app]. rewrite Z.add_0_l.
           destruct vs as [|w vs].
           ++ rewrite zlen_cons. cbn [splice].
              destruct (1 + zlen ref <=? zlen (v_ref v)) eqn:E; zb.
              ** cbn [sum_delta_v fold_right] in *.
                 replace (j + zlen (v_alt v) =? alt) with true by (symmetry; apply Z.eqb_eq; lia).
                 rewrite zskipn_all by (rewrite zlen_cons; lia). now rewrite app_nil_r.
              ** reflexivity.
           ++ replace (0 <? zlen (v_ref v)) with true by (symmetry; apply Z.ltb_lt; lia).
              rewrite (IH (pos + 1) (zlen (v_ref v) - 1) (w :: vs) alt (j + zlen (v_alt v))); try lia; try congruence.
              ** cbn [bind]. rewrite (zskipn_cons (zlen (v_ref v))) by lia. do 3 f_equal. lia.
              ** replace (pos + 1 + (zlen (v_ref v) - 1)) with (v_pos v + Z.max 1 (zlen (v_ref v))) by lia.
                 replace (pos + 1 + zlen ref - 1) with (pos + (1 + zlen ref) - 1) by lia. assumption.
        -- (* insertion *)
           assert (Hr0 : zlen (v_ref v) = 0) by lia.
           assert (Hwf1 : wfv (pos + 1) (pos + (1 + zlen ref) - 1) vs).
           { replace (pos + 1) with (v_pos v + Z.max 1 (zlen (v_ref v))) by lia. assumption. }
           rewrite (apply_at_match_ins pos v vs _ Hp Hr0 Hwf1).
           replace (alt <? j + zlen (v_alt v)) with false by (symmetry; apply Z.ltb_ge; lia).
           cbn [splice]. replace (v_pos v - pos) with 0 by lia. rewrite zfirstn_0. cbn [app].
           rewrite Hr0, !Z.add_0_r. rewrite zskipn_0.
           destruct vs as [|w vs].
           ++ rewrite zlen_cons. replace (1 + zlen ref <=? 0) with false by (symmetry; apply Z.leb_gt; lia).
              reflexivity.
           ++ cbn [Z.ltb Z.compare].
              replace (alt <=? j + zlen (v_alt v)) with false by (symmetry; apply Z.leb_gt; lia).
              rewrite (IH (pos + 1) 0 (w :: vs) alt (j + zlen (v_alt v) + 1)); try lia; try congruence.
              ** cbn [bind]. rewrite Z.add_0_r, zskipn_0. rewrite Hp.
                 rewrite (splice_shift pos b ref (w :: vs) _ Hwf1). reflexivity.
              ** rewrite Z.add_0_r. replace (pos + 1 + zlen ref - 1) with (pos + (1 + zlen ref) - 1) by lia. assumption.
      * (* no variant here: copy the base *)
        rewrite apply_at_nomatch by assumption.
        pose proof (wfv_head_bound _ _ _ _ Hwf) as Hb.
        assert (Hwf1 : wfv (pos + 1) (pos + (1 + zlen ref) - 1) (v :: vs)).
        { destruct Hwf as (H1 & H2 & H3 & H4). cbn [wfv]. repeat split; auto. lia. }
        assert (Hsb : 0 <= pos + (1 + zlen ref) - 1 + 1 - (pos + 1) + sum_delta_v (v :: vs))
          by (apply sum_bound; [assumption|lia]).
        replace (alt <=? j) with false by (symmetry; apply Z.leb_gt; lia).
        rewrite (IH (pos + 1) 0 (v :: vs) alt (j + 1)); try lia; try congruence.
        -- cbn [bind]. rewrite Z.add_0_r, zskipn_0. now rewrite (splice_shift pos b ref (v :: vs) _ Hwf1).
        -- rewrite Z.add_0_r. replace (pos + 1 + zlen ref - 1) with (pos + (1 + zlen ref) - 1) by lia. assumption.
Qed.

(* apply_variants = splice, for sorted non-overlapping variants inside the sequence and the right ALT length *)
Theorem apply_variants_is_splice start ref vs :
  wfv start (start + zlen ref - 1) vs ->
  apply_variants start ref (zlen ref + sum_delta_v vs) vs = Ok (splice start ref vs).
Proof.
  intros Hwf. destruct vs as [|v vs]; [reflexivity|]. unfold apply_variants.
  pose proof (wfv_head_bound _ _ _ _ Hwf) as Hb. pose proof (zlen_nonneg ref) as Hln.
  assert (Hsb : 0 <= start + zlen ref - 1 + 1 - start + sum_delta_v (v :: vs)) by (apply sum_bound; [assumption|lia]).
  replace (zlen ref + sum_delta_v (v :: vs) <? 0) with false by (symmetry; apply Z.ltb_ge; lia).
  destruct (0 <? v_pos v - start) eqn:E; zb.
  - set (dl := v_pos v - start) in *.
    assert (Hwf' : wfv (v_pos v) (start + zlen ref - 1) (v :: vs)).
    { destruct Hwf as (H1 & H2 & H3 & H4). cbn [wfv]. repeat split; auto. lia. }
    assert (Hsb' : 0 <= start + zlen ref - 1 + 1 - v_pos v + sum_delta_v (v :: vs)) by (apply sum_bound; [assumption|lia]).
    replace ((zlen ref <? dl) || (zlen ref + sum_delta_v (v :: vs) <? dl)) with false.
    2:{ symmetry. apply orb_false_iff. split; apply Z.ltb_ge; subst dl; lia. }
    rewrite (walk_gen (zskipn dl ref) (v_pos v) 0 (v :: vs)); try congruence; try lia.
    + cbn [bind]. rewrite Z.add_0_r, zskipn_0. f_equal.
      cbn [splice]. fold dl. replace (v_pos v - v_pos v) with 0 by lia. rewrite zfirstn_0. cbn [app].
      pose proof (zlen_nonneg (v_ref v)).
      rewrite zskipn_zskipn by (subst dl; lia). do 3 f_equal. f_equal. lia.
    + apply zlen_nonneg.
    + rewrite Z.add_0_r. rewrite zskipn_length by (subst dl; lia).
      replace (v_pos v + Z.max 0 (zlen ref - dl) - 1) with (start + zlen ref - 1) by (subst dl; lia). assumption.
    + rewrite zskipn_length by (subst dl; lia). subst dl. lia.
  - assert (v_pos v = start) by lia.
    rewrite (walk_gen ref start 0 (v :: vs)); try congruence; try lia.
    + now rewrite Z.add_0_r, zskipn_0.
    + now rewrite Z.add_0_r.
Qed.

(* the ALT sequence has the reference length plus the net inserted bases *)
Theorem splice_length start ref vs :
  wfv start (start + zlen ref - 1) vs -> zlen (splice start ref vs) = zlen ref + sum_delta_v vs.
Proof.
  revert start ref; induction vs as [|v vs IH]; intros start ref Hwf; cbn [splice sum_delta_v fold_right]; [lia|].
  fold (sum_delta_v vs). destruct Hwf as (H1 & H2 & H3 & Hwf).
  pose proof (zlen_nonneg (v_ref v)). pose proof (zlen_nonneg ref).
  rewrite !zlen_app. rewrite zfirstn_length by lia. rewrite IH.
  - rewrite zskipn_length by lia. lia.
  - rewrite zskipn_length by lia.
    replace (v_pos v + zlen (v_ref v) + Z.max 0 (zlen ref - (v_pos v - start + zlen (v_ref v))) - 1) with (start + zlen ref - 1) by lia.
    eapply wfv_weaken; [eassumption|lia].
Qed.
