(* C09 at the level of one metadata row: the records the model of the to_csv loop body writes to the two VCF files. *)
From VV Require Import Model.Base Model.Pattern Model.Seq Model.Vcf Model.Mave Model.Gpo Model.ToCsv Spec.MaveSpec
  Proofs.BaseLemmas Proofs.TargetonProofs Proofs.ApplyProofs Proofs.VcfProofs Proofs.VcfRecordProofs Proofs.MaveProofs Proofs.RowProofs Proofs.MaveRowProofs.
From Coq Require Import ZifyBool.

(* the fields of a record that matter for its validity do not depend on the SGE_REF allele handed to mk_record *)
Lemma mk_record_sge_irrelevant start ref alt g r :
  mk_record start ref alt (Some g) = Ok r ->
  exists r0, mk_record start ref alt None = Ok r0 /\ vr_pos r = vr_pos r0 /\ vr_ref r = vr_ref r0 /\ vr_alt r = vr_alt r0.
Proof.
  unfold mk_record. destruct (from_partial_start start ref alt) as [s|]; cbn [bind]; [|discriminate].
  cbn [bind].
  destruct (is_nil (get_vcf_allele ref s) || is_nil (get_vcf_allele alt s)); [discriminate|].
  intros H. injection H as <-. eexists. split; [reflexivity|]. cbn. auto.
Qed.

Lemma rec_ok_fields x0 X r r0 target :
  vr_pos r = vr_pos r0 -> vr_ref r = vr_ref r0 -> vr_alt r = vr_alt r0 -> rec_ok x0 X r0 target -> rec_ok x0 X r target.
Proof. unfold rec_ok. intros -> -> ->. auto. Qed.

(* a record without anchors built at the position of the first changed base *)
Lemma mk_record_plain_ok x0 P R A S pos g r :
  mk_record (pos - 1) (mkAl R None) (mkAl A None) g = Ok r -> pos = x0 + zlen P -> 1 <= pos ->
  rec_ok x0 (P ++ R ++ S) r (P ++ A ++ S).
Proof.
  intros H Hpos Hp.
  assert (HRA : R <> [] /\ A <> []).
  { unfold mk_record, from_partial_start in H. cbn [al_s] in H. replace (pos - 1 <? 0) with false in H by lia.
    destruct R as [|x R]; destruct A as [|y A]; cbn [is_nil orb bind] in H; try (split; congruence).
    all: unfold get_vcf_allele in H; cbn [al_nt al_s] in H; destruct g as [g|]; cbn [bind] in H.
    all: try (destruct (negb _) in H; cbn [bind] in H; try discriminate).
    all: cbn [is_nil orb] in H; discriminate. }
  destruct HRA as [HR HA].
  destruct (record_substitution x0 P R A S pos HR HA Hpos Hp) as (r0 & Hr0 & Hok).
  destruct g as [g|].
  - destruct (mk_record_sge_irrelevant _ _ _ _ _ H) as (r1 & Hr1 & E1 & E2 & E3). rewrite Hr0 in Hr1. injection Hr1 as <-.
    eapply rec_ok_fields; eauto.
  - rewrite Hr0 in H. injection H as <-. exact Hok.
Qed.

(* an anchored record (one allele empty), anchor x = the base preceding the change *)
Lemma mk_record_anchored_ok x0 P x R A S pos g r :
  mk_record (pos - 1) (mkAl R (Some x)) (mkAl A (Some x)) g = Ok r -> pos = x0 + zlen P + 1 -> 4 <= pos -> (R = [] \/ A = []) ->
  rec_ok x0 (P ++ [x] ++ R ++ S) r (P ++ [x] ++ A ++ S).
Proof.
  intros H Hpos Hp Hemp.
  destruct (record_anchored x0 P x R A S pos Hpos Hp Hemp) as (r0 & Hr0 & Hok & _).
  destruct g as [g|].
  - destruct (mk_record_sge_irrelevant _ _ _ _ _ H) as (r1 & Hr1 & E1 & E2 & E3). rewrite Hr0 in Hr1. injection Hr1 as <-.
    eapply rec_ok_fields; eauto.
  - rewrite Hr0 in H. injection H as <-. exact Hok.
Qed.

Lemma get_nt_inside q pos x : s_start (p_seq q) <= pos -> get_nt q pos = Ok x -> znth (pos - s_start (p_seq q)) (s_bases (p_seq q)) = Some x.
Proof.
  intros Hp. unfold get_nt. destruct (pos <? 1); [discriminate|]. replace (pos <? s_start (p_seq q)) with false by lia.
  destruct (pos <=? s_end (p_seq q)); [|discriminate]. destruct (znth _ _) as [y|]; [|discriminate]. intros H. injection H as <-. reflexivity.
Qed.

Lemma get_nt_prev q pos x : pos = s_start (p_seq q) - 1 -> get_nt q pos = Ok x -> p_prev q = Some x.
Proof.
  intros ->. unfold get_nt. destruct (_ <? 1); [discriminate|]. replace (s_start (p_seq q) - 1 <? s_start (p_seq q)) with true by lia.
  rewrite Z.eqb_refl. destruct (p_prev q); [|discriminate]. intros H. now injection H as <-.
Qed.

(* C09, one row of a generated (non-custom) mutator without background variants: the record written to the PAM VCF - anchored for an
   insertion or deletion, widened to the PAM codon where the row shares one with an edit - is valid against the protected sequence
   (with the nucleotide preceding the targeton, pv) and replacing REF by ALT there reproduces the oligonucleotide *)
Theorem row_pam_record_ok c mr o x0 (T : dna) pv r :
  row_out c mr = Ok o -> o_vcf_pam o = Some r -> cx_gpo c = None -> mr_custom mr = false -> mr_vcf_nt mr = None ->
  p_seq (cx_alt c) = mkSeq x0 T -> p_prev (cx_alt c) = Some pv -> s_start (p_seq (cx_seq c)) = x0 -> 1 <= x0 ->
  mr_ref_pos mr = mr_alt_pos mr -> mr_end mr = get_end (mr_alt_pos mr) (zlen (mr_ref mr)) ->
  let a := mr_alt_pos mr - x0 in
  0 <= a -> a + zlen (mr_ref mr) <= zlen T -> 4 <= mr_alt_pos mr ->
  x0 <= opt_min (mr_alt_pos mr) (mr_start_ppe mr) -> opt_max (mr_end mr) (mr_end_ppe mr) <= x0 + zlen T - 1 ->
  mr_oligo mr = zfirstn a T ++ mr_alt mr ++ zskipn (a + zlen (mr_ref mr)) T ->
  rec_ok (x0 - 1) (pv :: T) r (pv :: mr_oligo mr).
Proof.
  intros Hrow Hvcf Hg Hcus Hnt Halt Hprev Hx0 Hx1 Hpos Hend a Ha Hfit H4 Hlo Hhi Holigo.
  unfold row_out in Hrow. rewrite Hg, Hx0, Hpos, Hcus, Hnt in Hrow.
  destruct (mk_variant (mr_alt_pos mr) (mr_ref mr) (mr_alt mr)) as [v0|] eqn:Ev0; [|discriminate]. cbn [bind] in Hrow.
  destruct (var_type (mr_ref mr) (mr_alt mr)) as [vt|] eqn:Evt; [|discriminate]. cbn [bind] in Hrow.
  match type of Hrow with (do refs <- ?r; _) = _ => destruct r as [[ref_ref pam_ref]|] eqn:Erefs; [|discriminate] end.
  cbn [bind fst snd] in Hrow.
  destruct (get_mave_nt (mr_alt_pos mr) x0 vt ref_ref (mr_alt mr)) as [mv_ref|] eqn:Emr; [|discriminate]. cbn [bind] in Hrow.
  destruct (get_mave_nt (mr_alt_pos mr) x0 vt pam_ref (mr_alt mr)) as [mv0|] eqn:Em0; [|discriminate]. cbn [bind] in Hrow.
  destruct (mk_variant (mr_alt_pos mr) pam_ref (mr_alt mr)) as [nv|] eqn:Env; [|discriminate]. cbn [bind] in Hrow.
  cbn [is_some negb andb] in Hrow. rewrite !andb_true_r, !andb_false_r in Hrow. cbv iota in Hrow.
  match type of Hrow with (do nts <- ?r; _) = _ => destruct r as [[[[[n1 n2] n3] n4] n5]|] eqn:Ents; [|discriminate] end.
  cbn [bind] in Hrow.
  match type of Hrow with (do wid <- ?r; _) = _ => destruct r as [wid|] eqn:Ewid; [|discriminate] end.
  cbn [bind] in Hrow.
  match type of Hrow with (do vcfs <- ?r; _) = _ => destruct r as [vcfs|] eqn:Evcfs; [|discriminate] end.
  cbn [bind] in Hrow. injection Hrow as <-. cbn [o_vcf_pam] in Hvcf.
  (* the record exists only for an included SGE row *)
  match type of Evcfs with (if ?b then _ else _) = _ => destruct b; [|injection Evcfs as <-; discriminate] end.
  match type of Evcfs with (do r1 <- ?m; _) = _ => destruct m as [r1|]; [|discriminate] end. cbn [bind] in Evcfs.
  match type of Evcfs with (do r2 <- ?m; _) = _ => destruct m as [r2|] eqn:Er2; [|discriminate] end. cbn [bind] in Evcfs.
  injection Evcfs as <-. cbn [snd] in Hvcf. injection Hvcf as ->.
  (* the template's content at the mutated position *)
  assert (Hpam : pam_ref = py_slice a (a + zlen (mr_ref mr)) T /\ zlen pam_ref = zlen (mr_ref mr)).
  { destruct (mr_ref mr) as [|x rr] eqn:Er; cbn [is_nil] in Erefs.
    - injection Erefs as <- <-. rewrite zlen_nil, Z.add_0_r, py_slice_empty. auto.
    - destruct (psubstr (cx_seq c) (mr_alt_pos mr) (get_end (mr_alt_pos mr) (zlen (x :: rr)))) as [rrr|]; [|discriminate].
      cbn [bind] in Erefs.
      destruct (psubstr (cx_alt c) (mr_alt_pos mr) (mr_end mr)) as [pr|] eqn:Epr; [|discriminate]. cbn [bind] in Erefs.
      injection Erefs as <- <-. apply psubstr_slice in Epr. rewrite Halt in Epr. cbn [s_start s_bases] in Epr.
      destruct Epr as [_ ->]. rewrite Hend. unfold get_end. pose proof (zlen_nonneg rr). rewrite zlen_cons in *.
      fold a. replace (mr_alt_pos mr + Z.max 0 (1 + zlen rr - 1) - x0 + 1) with (a + (1 + zlen rr)) by (unfold a; lia).
      split; [reflexivity|]. rewrite py_slice_length_in; lia. }
  destruct Hpam as [Hpam Hpl].
  assert (HT3 : T = zfirstn a T ++ pam_ref ++ zskipn (a + zlen (mr_ref mr)) T).
  { rewrite Hpam. apply split3; [lia|]. pose proof (zlen_nonneg (mr_ref mr)). lia. }
  destruct wid as [[[[[[cr pcr] pa] dn] prs] mv]|].
  - (* widened to the PAM codon: plain alleles over the window *)
    destruct (is_some (mr_start_exon mr) || is_some (mr_end_exon mr)); [|discriminate]. cbn [bind] in Ewid.
    set (ps := opt_min (mr_alt_pos mr) (mr_start_ppe mr)) in *. set (pe := opt_max (mr_end mr) (mr_end_ppe mr)) in *.
    destruct (mk_range ps pe) as [pr|] eqn:Epr; [|discriminate]. cbn [bind] in Ewid.
    unfold mk_range in Epr. destruct ((0 <=? ps) && (ps <=? pe)) eqn:Ebnd; [|discriminate]. injection Epr as <-. cbn [rs re] in Ewid.
    match type of Ewid with (if ?b then _ else _) = _ => destruct b; [|discriminate] end.
    destruct (psubstr (cx_alt c) ps pe) as [pcr'|] eqn:Epcr; [|discriminate]. cbn [bind fst snd] in Ewid.
    destruct (psubstr (cx_seq c) ps pe) as [cr'|]; [|discriminate]. cbn [bind] in Ewid.
    match type of Ewid with (do pa <- ?m; _) = _ => destruct m as [pa'|] eqn:Epa; [|discriminate] end. cbn [bind] in Ewid.
    match type of Ewid with (do mv <- ?m; _) = _ => destruct m as [mv'|] eqn:Emv; [|discriminate] end. cbn [bind] in Ewid.
    injection Ewid as <- <- <- <- <- <-.
    apply psubstr_slice in Epcr. rewrite Halt in Epcr. cbn [s_start s_bases] in Epcr. destruct Epcr as [Hb1 ->].
    apply psubstr_slice in Epa. cbn [p_seq s_start s_bases] in Epa. rewrite Halt in Epa. cbn [s_start] in Epa. destruct Epa as [Hb2 ->].
    assert (Hps : ps <= mr_alt_pos mr) by (unfold ps, opt_min; destruct (mr_start_ppe mr); lia).
    assert (Hpe : mr_end mr <= pe) by (unfold pe, opt_max; destruct (mr_end_ppe mr); lia).
    set (u := ps - x0) in *. set (w := pe - x0 + 1) in *.
    assert (Hw : a + zlen (mr_ref mr) <= w).
    { unfold w, a. rewrite Hend in Hpe. unfold get_end in Hpe. pose proof (zlen_nonneg (mr_ref mr)). lia. }
    destruct (widen_same T (mr_alt mr) a (zlen (mr_ref mr)) u w) as [Hsl Hsame]; try (unfold u, w, a in *; lia).
    { apply zlen_nonneg. }
    cbv zeta in Hsl, Hsame. rewrite <- Holigo in Hsl, Hsame.
    replace (pe + (zlen (mr_alt mr) - zlen (mr_ref mr)) - x0 + 1) with (w + (zlen (mr_alt mr) - zlen (mr_ref mr))) in * by (unfold w; lia).
    set (alt' := py_slice u (w + (zlen (mr_alt mr) - zlen (mr_ref mr))) (mr_oligo mr)) in *.
    cbv iota beta in Er2.
    assert (HTw : T = zfirstn u T ++ py_slice u w T ++ zskipn w T) by (apply split3; unfold u, w in *; lia).
    pose proof (mk_record_plain_ok (x0 - 1) (pv :: zfirstn u T) (py_slice u w T) alt' (zskipn w T) ps _ r Er2) as Hok.
    replace ((pv :: zfirstn u T) ++ py_slice u w T ++ zskipn w T) with (pv :: T) in Hok by (cbn [app]; now rewrite <- HTw).
    replace ((pv :: zfirstn u T) ++ alt' ++ zskipn w T) with (pv :: mr_oligo mr) in Hok by (cbn [app]; now rewrite Hsame).
    apply Hok; [|fold ps in Hlo; lia]. rewrite zlen_cons, zfirstn_length by (unfold u; lia). unfold u in *. lia.
  - (* not widened *)
    cbv iota beta in Er2.
    destruct vt.
    + (* insertion: anchored *)
      assert (Href0 : mr_ref mr = []) by (unfold var_type in Evt; destruct (mr_ref mr), (mr_alt mr); try discriminate; reflexivity).
      cbn [vtype_eqb negb andb] in Ents.
      destruct (get_nt (cx_seq c) (mr_alt_pos mr - 1)) as [rn|]; [|discriminate]. cbn [bind] in Ents.
      destruct (get_nt (cx_alt c) (mr_alt_pos mr - 1)) as [an|] eqn:Ean; [|discriminate]. cbn [bind] in Ents.
      injection Ents as <- <- <- <- <-.
      rewrite Href0, zlen_nil in *. assert (pam_ref = []) as -> by (now apply zlen_zero_nil).
      destruct (Z.eq_dec a 0) as [Ha0|Ha0].
      * (* the anchor is the nucleotide preceding the targeton *)
        assert (an = pv).
        { assert (Hpp : mr_alt_pos mr - 1 = s_start (p_seq (cx_alt c)) - 1) by (rewrite Halt; cbn [s_start]; unfold a in Ha0; lia).
          apply (get_nt_prev _ _ _ Hpp) in Ean. congruence. }
        subst an.
        pose proof (mk_record_anchored_ok (x0 - 1) [] pv [] (mr_alt mr) T (mr_alt_pos mr) _ r Er2) as Hok.
        cbn [app] in Hok. rewrite Holigo, Ha0. rewrite Z.add_0_r. unfold zfirstn, zskipn. cbn [Z.to_nat firstn skipn app].
        apply Hok; [rewrite zlen_nil; unfold a in Ha0; lia|lia|now left].
      * assert (Han : znth (a - 1) T = Some an).
        { apply get_nt_inside in Ean; rewrite Halt in *; cbn [s_start s_bases] in *; [|unfold a in *; lia].
          replace (mr_alt_pos mr - 1 - x0) with (a - 1) in Ean by (unfold a; lia). exact Ean. }
        assert (HTa : T = zfirstn (a - 1) T ++ an :: zskipn a T).
        { rewrite (split3 (a - 1) (a - 1 + 1) T) at 1 by lia. rewrite (py_slice_one _ _ _ Han). replace (a - 1 + 1) with a by lia. reflexivity. }
        pose proof (mk_record_anchored_ok (x0 - 1) (pv :: zfirstn (a - 1) T) an [] (mr_alt mr) (zskipn a T) (mr_alt_pos mr) _ r Er2) as Hok.
        replace ((pv :: zfirstn (a - 1) T) ++ [an] ++ [] ++ zskipn a T) with (pv :: T) in Hok by (cbn [app]; f_equal; exact HTa).
        replace ((pv :: zfirstn (a - 1) T) ++ [an] ++ mr_alt mr ++ zskipn a T) with (pv :: mr_oligo mr) in Hok.
        2:{ assert (Hfa : zfirstn a T = zfirstn (a - 1) T ++ [an]).
            { rewrite <- (zfirstn_succ_nth (a - 1) T an) by (auto; lia). f_equal. lia. }
            cbn [app]. f_equal. rewrite Holigo, Z.add_0_r, Hfa, <- !app_assoc. reflexivity. }
        apply Hok; [|lia|now left]. rewrite zlen_cons, zfirstn_length by lia. unfold a in *. lia.
    + (* deletion: anchored *)
      assert (Halt0 : mr_alt mr = []) by (unfold var_type in Evt; destruct (mr_ref mr), (mr_alt mr); try discriminate; reflexivity).
      cbn [vtype_eqb negb andb] in Ents.
      destruct (get_nt (cx_seq c) (mr_alt_pos mr - 1)) as [rn|]; [|discriminate]. cbn [bind] in Ents.
      destruct (get_nt (cx_alt c) (mr_alt_pos mr - 1)) as [an|] eqn:Ean; [|discriminate]. cbn [bind] in Ents.
      injection Ents as <- <- <- <- <-.
      rewrite Halt0 in *.
      destruct (Z.eq_dec a 0) as [Ha0|Ha0].
      * assert (an = pv).
        { assert (Hpp : mr_alt_pos mr - 1 = s_start (p_seq (cx_alt c)) - 1) by (rewrite Halt; cbn [s_start]; unfold a in Ha0; lia).
          apply (get_nt_prev _ _ _ Hpp) in Ean. congruence. }
        subst an.
        pose proof (mk_record_anchored_ok (x0 - 1) [] pv pam_ref [] (zskipn (a + zlen (mr_ref mr)) T) (mr_alt_pos mr) _ r Er2) as Hok.
        cbn [app] in Hok.
        replace (pv :: pam_ref ++ zskipn (a + zlen (mr_ref mr)) T) with (pv :: T) in Hok.
        2:{ f_equal. rewrite HT3 at 1. rewrite Ha0. unfold zfirstn. cbn [Z.to_nat firstn app]. reflexivity. }
        replace (pv :: zskipn (a + zlen (mr_ref mr)) T) with (pv :: mr_oligo mr) in Hok.
        2:{ f_equal. rewrite Holigo, Ha0. unfold zfirstn. cbn [Z.to_nat firstn app]. reflexivity. }
        apply Hok; [rewrite zlen_nil; unfold a in Ha0; lia|lia|now right].
      * assert (Han : znth (a - 1) T = Some an).
        { apply get_nt_inside in Ean; rewrite Halt in *; cbn [s_start s_bases] in *; [|unfold a in *; lia].
          replace (mr_alt_pos mr - 1 - x0) with (a - 1) in Ean by (unfold a; lia). exact Ean. }
        assert (Hfa : zfirstn a T = zfirstn (a - 1) T ++ [an]).
        { rewrite <- (zfirstn_succ_nth (a - 1) T an) by (auto; lia). f_equal. lia. }
        pose proof (mk_record_anchored_ok (x0 - 1) (pv :: zfirstn (a - 1) T) an pam_ref [] (zskipn (a + zlen (mr_ref mr)) T) (mr_alt_pos mr) _ r Er2) as Hok.
        replace ((pv :: zfirstn (a - 1) T) ++ [an] ++ pam_ref ++ zskipn (a + zlen (mr_ref mr)) T) with (pv :: T) in Hok.
        2:{ cbn [app]. f_equal. rewrite HT3 at 1. rewrite Hfa, <- !app_assoc. reflexivity. }
        replace ((pv :: zfirstn (a - 1) T) ++ [an] ++ [] ++ zskipn (a + zlen (mr_ref mr)) T) with (pv :: mr_oligo mr) in Hok.
        2:{ cbn [app]. f_equal. rewrite Holigo, Hfa, <- !app_assoc. reflexivity. }
        pose proof (zlen_nonneg (mr_ref mr)). apply Hok; [|lia|now right]. rewrite zlen_cons, zfirstn_length by lia. unfold a in *. lia.
    + (* substitution: plain alleles *)
      cbn [vtype_eqb negb andb] in Ents. injection Ents as <- <- <- <- <-.
      pose proof (mk_record_plain_ok (x0 - 1) (pv :: zfirstn a T) pam_ref (mr_alt mr) (zskipn (a + zlen (mr_ref mr)) T) (mr_alt_pos mr) _ r Er2) as Hok.
      replace ((pv :: zfirstn a T) ++ pam_ref ++ zskipn (a + zlen (mr_ref mr)) T) with (pv :: T) in Hok by (cbn [app]; now rewrite <- HT3).
      replace ((pv :: zfirstn a T) ++ mr_alt mr ++ zskipn (a + zlen (mr_ref mr)) T) with (pv :: mr_oligo mr) in Hok by (cbn [app]; now rewrite Holigo).
      pose proof (zlen_nonneg (mr_ref mr)). apply Hok; [|lia]. rewrite zlen_cons, zfirstn_length by lia. unfold a in *. lia.
    + unfold var_type in Evt. destruct (mr_ref mr), (mr_alt mr); discriminate.
Qed.

(* ... and the record written to the REF VCF (with or without background variants: REF-coordinate position, unprotected reference R with
   its preceding nucleotide pr) is valid against the reference and replacing REF by ALT yields the reference carrying the row's mutation *)
Theorem row_ref_record_ok c mr o x0 (R : dna) pr r :
  row_out c mr = Ok o -> o_vcf_ref o = Some r -> mr_custom mr = false -> mr_vcf_nt mr = None ->
  p_seq (cx_seq c) = mkSeq x0 R -> p_prev (cx_seq c) = Some pr -> 1 <= x0 ->
  let a := mr_ref_pos mr - x0 in
  0 <= a -> a + zlen (mr_ref mr) <= zlen R -> 4 <= mr_ref_pos mr ->
  rec_ok (x0 - 1) (pr :: R) r (pr :: zfirstn a R ++ mr_alt mr ++ zskipn (a + zlen (mr_ref mr)) R).
Proof.
  intros Hrow Hvcf Hcus Hnt Hseq Hprev Hx1 a Ha Hfit H4.
  unfold row_out in Hrow. rewrite Hcus, Hnt in Hrow.
  destruct (mk_variant (mr_ref_pos mr) (mr_ref mr) (mr_alt mr)) as [v0|] eqn:Ev0; [|discriminate]. cbn [bind] in Hrow.
  destruct (var_type (mr_ref mr) (mr_alt mr)) as [vt|] eqn:Evt; [|discriminate]. cbn [bind] in Hrow.
  match type of Hrow with (do refs <- ?r; _) = _ => destruct r as [[ref_ref pam_ref]|] eqn:Erefs; [|discriminate] end.
  cbn [bind fst snd] in Hrow.
  match type of Hrow with (do mave_nt_ref <- ?m; _) = _ => destruct m as [mv_ref|]; [|discriminate] end. cbn [bind] in Hrow.
  match type of Hrow with (do mave_nt0 <- ?m; _) = _ => destruct m as [mv0|]; [|discriminate] end. cbn [bind] in Hrow.
  match type of Hrow with (do name_var <- ?m; _) = _ => destruct m as [nv|]; [|discriminate] end. cbn [bind] in Hrow.
  cbn [is_some negb andb] in Hrow. rewrite !andb_true_r, !andb_false_r in Hrow. cbv iota in Hrow.
  match type of Hrow with (do nts <- ?r; _) = _ => destruct r as [[[[[n1 n2] n3] n4] n5]|] eqn:Ents; [|discriminate] end.
  cbn [bind] in Hrow.
  match type of Hrow with (do wid <- ?r; _) = _ => destruct r as [wid|] eqn:Ewid; [|discriminate] end.
  cbn [bind] in Hrow.
  match type of Hrow with (do vcfs <- ?r; _) = _ => destruct r as [vcfs|] eqn:Evcfs; [|discriminate] end.
  cbn [bind] in Hrow. injection Hrow as <-. cbn [o_vcf_ref] in Hvcf.
  match type of Evcfs with (if ?b then _ else _) = _ => destruct b; [|injection Evcfs as <-; discriminate] end.
  match type of Evcfs with (do r1 <- ?m; _) = _ => destruct m as [r1|] eqn:Er1; [|discriminate] end. cbn [bind] in Evcfs.
  match type of Evcfs with (do r2 <- ?m; _) = _ => destruct m as [r2|]; [|discriminate] end. cbn [bind] in Evcfs.
  injection Evcfs as <-. cbn [fst] in Hvcf. injection Hvcf as ->.
  assert (Href : ref_ref = py_slice a (a + zlen (mr_ref mr)) R /\ zlen ref_ref = zlen (mr_ref mr)).
  { destruct (mr_ref mr) as [|x rr] eqn:Er; cbn [is_nil] in Erefs.
    - injection Erefs as <- <-. rewrite zlen_nil, Z.add_0_r, py_slice_empty. auto.
    - destruct (psubstr (cx_seq c) (mr_ref_pos mr) (get_end (mr_ref_pos mr) (zlen (x :: rr)))) as [rrr|] eqn:Err; [|discriminate].
      cbn [bind] in Erefs.
      destruct (psubstr (cx_alt c) (mr_alt_pos mr) (mr_end mr)) as [prr|]; [|discriminate]. cbn [bind] in Erefs.
      injection Erefs as <- <-. apply psubstr_slice in Err. rewrite Hseq in Err. cbn [s_start s_bases] in Err.
      destruct Err as [_ ->]. unfold get_end. pose proof (zlen_nonneg rr). rewrite zlen_cons in *.
      fold a. replace (mr_ref_pos mr + Z.max 0 (1 + zlen rr - 1) - x0 + 1) with (a + (1 + zlen rr)) by (unfold a; lia).
      split; [reflexivity|]. rewrite py_slice_length_in; lia. }
  destruct Href as [Href Hrl]. pose proof (zlen_nonneg (mr_ref mr)) as Hnn.
  assert (HR3 : R = zfirstn a R ++ ref_ref ++ zskipn (a + zlen (mr_ref mr)) R).
  { rewrite Href. apply split3; lia. }
  destruct vt.
  - (* insertion *)
    assert (Href0 : mr_ref mr = []) by (unfold var_type in Evt; destruct (mr_ref mr), (mr_alt mr); try discriminate; reflexivity).
    cbn [vtype_eqb negb andb] in Ents.
    destruct (get_nt (cx_seq c) (mr_ref_pos mr - 1)) as [rn|] eqn:Ern; [|discriminate]. cbn [bind] in Ents.
    destruct (get_nt (cx_alt c) (mr_alt_pos mr - 1)) as [an|]; [|discriminate]. cbn [bind] in Ents.
    injection Ents as <- <- <- <- <-.
    rewrite Href0, zlen_nil in *. assert (ref_ref = []) as -> by (now apply zlen_zero_nil). rewrite Z.add_0_r.
    destruct (Z.eq_dec a 0) as [Ha0|Ha0].
    + assert (rn = pr).
      { assert (Hpp : mr_ref_pos mr - 1 = s_start (p_seq (cx_seq c)) - 1) by (rewrite Hseq; cbn [s_start]; unfold a in Ha0; lia).
        apply (get_nt_prev _ _ _ Hpp) in Ern. congruence. }
      subst rn.
      pose proof (mk_record_anchored_ok (x0 - 1) [] pr [] (mr_alt mr) R (mr_ref_pos mr) _ r Er1) as Hok.
      cbn [app] in Hok. rewrite Ha0. unfold zfirstn, zskipn. cbn [Z.to_nat firstn skipn app].
      apply Hok; [rewrite zlen_nil; unfold a in Ha0; lia|lia|now left].
    + assert (Han : znth (a - 1) R = Some rn).
      { apply get_nt_inside in Ern; rewrite Hseq in *; cbn [s_start s_bases] in *; [|unfold a in *; lia].
        replace (mr_ref_pos mr - 1 - x0) with (a - 1) in Ern by (unfold a; lia). exact Ern. }
      assert (HTa : R = zfirstn (a - 1) R ++ rn :: zskipn a R).
      { rewrite (split3 (a - 1) (a - 1 + 1) R) at 1 by lia. rewrite (py_slice_one _ _ _ Han). replace (a - 1 + 1) with a by lia. reflexivity. }
      assert (Hfa : zfirstn a R = zfirstn (a - 1) R ++ [rn]).
      { rewrite <- (zfirstn_succ_nth (a - 1) R rn) by (auto; lia). f_equal. lia. }
      pose proof (mk_record_anchored_ok (x0 - 1) (pr :: zfirstn (a - 1) R) rn [] (mr_alt mr) (zskipn a R) (mr_ref_pos mr) _ r Er1) as Hok.
      replace ((pr :: zfirstn (a - 1) R) ++ [rn] ++ [] ++ zskipn a R) with (pr :: R) in Hok by (cbn [app]; f_equal; exact HTa).
      replace ((pr :: zfirstn (a - 1) R) ++ [rn] ++ mr_alt mr ++ zskipn a R) with (pr :: zfirstn a R ++ mr_alt mr ++ zskipn a R) in Hok
        by (cbn [app]; f_equal; rewrite Hfa, <- !app_assoc; reflexivity).
      apply Hok; [|lia|now left]. rewrite zlen_cons, zfirstn_length by lia. unfold a in *. lia.
  - (* deletion *)
    assert (Halt0 : mr_alt mr = []) by (unfold var_type in Evt; destruct (mr_ref mr), (mr_alt mr); try discriminate; reflexivity).
    cbn [vtype_eqb negb andb] in Ents.
    destruct (get_nt (cx_seq c) (mr_ref_pos mr - 1)) as [rn|] eqn:Ern; [|discriminate]. cbn [bind] in Ents.
    destruct (get_nt (cx_alt c) (mr_alt_pos mr - 1)) as [an|]; [|discriminate]. cbn [bind] in Ents.
    injection Ents as <- <- <- <- <-.
    rewrite Halt0 in *.
    destruct (Z.eq_dec a 0) as [Ha0|Ha0].
    + assert (rn = pr).
      { assert (Hpp : mr_ref_pos mr - 1 = s_start (p_seq (cx_seq c)) - 1) by (rewrite Hseq; cbn [s_start]; unfold a in Ha0; lia).
        apply (get_nt_prev _ _ _ Hpp) in Ern. congruence. }
      subst rn.
      pose proof (mk_record_anchored_ok (x0 - 1) [] pr ref_ref [] (zskipn (a + zlen (mr_ref mr)) R) (mr_ref_pos mr) _ r Er1) as Hok.
      cbn [app] in Hok.
      replace (pr :: ref_ref ++ zskipn (a + zlen (mr_ref mr)) R) with (pr :: R) in Hok.
      2:{ f_equal. rewrite HR3 at 1. rewrite Ha0. unfold zfirstn. cbn [Z.to_nat firstn app]. reflexivity. }
      rewrite Ha0 at 1. unfold zfirstn at 1. cbn [Z.to_nat firstn app].
      apply Hok; [rewrite zlen_nil; unfold a in Ha0; lia|lia|now right].
    + assert (Han : znth (a - 1) R = Some rn).
      { apply get_nt_inside in Ern; rewrite Hseq in *; cbn [s_start s_bases] in *; [|unfold a in *; lia].
        replace (mr_ref_pos mr - 1 - x0) with (a - 1) in Ern by (unfold a; lia). exact Ern. }
      assert (Hfa : zfirstn a R = zfirstn (a - 1) R ++ [rn]).
      { rewrite <- (zfirstn_succ_nth (a - 1) R rn) by (auto; lia). f_equal. lia. }
      pose proof (mk_record_anchored_ok (x0 - 1) (pr :: zfirstn (a - 1) R) rn ref_ref [] (zskipn (a + zlen (mr_ref mr)) R) (mr_ref_pos mr) _ r Er1) as Hok.
      replace ((pr :: zfirstn (a - 1) R) ++ [rn] ++ ref_ref ++ zskipn (a + zlen (mr_ref mr)) R) with (pr :: R) in Hok.
      2:{ cbn [app]. f_equal. rewrite HR3 at 1. rewrite Hfa, <- !app_assoc. reflexivity. }
      replace ((pr :: zfirstn (a - 1) R) ++ [rn] ++ [] ++ zskipn (a + zlen (mr_ref mr)) R) with (pr :: zfirstn a R ++ [] ++ zskipn (a + zlen (mr_ref mr)) R) in Hok
        by (cbn [app]; f_equal; rewrite Hfa, <- !app_assoc; reflexivity).
      apply Hok; [|lia|now right]. rewrite zlen_cons, zfirstn_length by lia. unfold a in *. lia.
  - (* substitution *)
    cbn [vtype_eqb negb andb] in Ents. injection Ents as <- <- <- <- <-.
    pose proof (mk_record_plain_ok (x0 - 1) (pr :: zfirstn a R) ref_ref (mr_alt mr) (zskipn (a + zlen (mr_ref mr)) R) (mr_ref_pos mr) _ r Er1) as Hok.
    replace ((pr :: zfirstn a R) ++ ref_ref ++ zskipn (a + zlen (mr_ref mr)) R) with (pr :: R) in Hok by (cbn [app]; f_equal; exact HR3).
    apply Hok; [|lia]. rewrite zlen_cons, zfirstn_length by lia. unfold a in *. lia.
  - unfold var_type in Evt. destruct (mr_ref mr), (mr_alt mr); discriminate.
Qed.

Example row_records_example :
  match row_out ex_ctx ex_row with
  | Ok o => match o_vcf_pam o, o_vcf_ref o with
            | Some r2, Some r1 =>
                r2 = mkRec 103 (d "TT") (d "AT") (Some (d "TA")) /\ r1 = mkRec 103 (d "T") (d "A") None /\
                rec_ok 99 (G :: d "ACGTTCGTAC") r2 (G :: d "ACGATCGTAC") /\ rec_ok 99 (G :: d "ACGTACGTAC") r1 (G :: d "ACGAACGTAC")
            | _, _ => False
            end
  | Err _ => False
  end.
Proof.
  destruct (row_out ex_ctx ex_row) as [o|] eqn:E; [|vm_compute in E; discriminate].
  destruct (o_vcf_pam o) as [r2|] eqn:E2; [|vm_compute in E; injection E as <-; discriminate].
  destruct (o_vcf_ref o) as [r1|] eqn:E1; [|vm_compute in E; injection E as <-; discriminate].
  split; [|split; [|split]].
  - vm_compute in E. injection E as <-. cbn in E2. now injection E2 as <-.
  - vm_compute in E. injection E as <-. cbn in E1. now injection E1 as <-.
  - apply (row_pam_record_ok ex_ctx ex_row o 100 (d "ACGTTCGTAC") G r2 E E2); try reflexivity; vm_compute; congruence.
  - apply (row_ref_record_ok ex_ctx ex_row o 100 (d "ACGTACGTAC") G r1 E E1); try reflexivity; vm_compute; congruence.
Qed.
