(* Translation validation of mave_hgvs.py: the generated kernels (coq/Generated/KernelsMave.v, rewritten from the source on every run)
   equal the hand-written model (abstract term + printer) for all inputs. *)
From VV Require Import Model.Base Model.Pattern Model.Seq Model.Vcf Model.Mave Model.PyStr Generated.KernelsMave Proofs.BaseLemmas.
From Coq Require Import ZifyBool.

Lemma slen_dna d : slen (string_of_dna d) = zlen d.
Proof. unfold slen, zlen. f_equal. induction d as [|x d IH]; cbn; [reflexivity|now rewrite IH]. Qed.

Lemma sempty_dna d : sempty (string_of_dna d) = is_nil d.
Proof. destruct d; reflexivity. Qed.

Lemma append_assoc' (a b c : string) : ((a ++ b) ++ c = a ++ (b ++ c))%string.
Proof. induction a as [|x a IH]; cbn; [reflexivity|now rewrite IH]. Qed.

Lemma dna_app_single x d : string_of_dna (x :: d) = (string_of_dna [x] ++ string_of_dna d)%string.
Proof. reflexivity. Qed.

(* mave_hgvs.get_mave_nt, translated from the source on every run, is the model's get_mave_nt (abstract term + printer) on DNA strings *)
Theorem k_get_mave_nt_eq start ref_start vt ref alt :
  k_get_mave_nt start ref_start vt (Some (string_of_dna ref)) (Some (string_of_dna alt)) = get_mave_nt start ref_start vt ref alt.
Proof.
  unfold k_get_mave_nt, get_mave_nt, k_mave_nt_prefixed, mave_of. cbn [ononempty]. unfold nonempty. rewrite !sempty_dna.
  set (p := start - ref_start + 1).
  destruct (p <? 0) eqn:Ep; [reflexivity|].
  destruct vt; cbn [vtype_value]; unfold var_type_sub, var_type_ins, var_type_del; cbn [vtype_value Z.eqb Pos.eqb bind].
  - (* insertion *)
    unfold k_insertion_suffix. destruct alt as [|y alt]; cbn [is_nil ois_none olen bind].
    + reflexivity.
    + cbn [ois_none olen bind]. rewrite slen_dna. pose proof (zlen_nonneg alt). rewrite zlen_cons.
      replace (1 + zlen alt =? 0) with false by lia. cbn [bind ois_none fmt_ostr print_mave]. destruct ref; reflexivity.
  - (* deletion *)
    unfold k_deletion_suffix. destruct ref as [|x ref]; cbn [is_nil ois_none]; [reflexivity|].
    cbn [olen bind]. rewrite !slen_dna. pose proof (zlen_nonneg ref). rewrite zlen_cons.
    replace (1 + zlen ref =? 0) with false by lia.
    destruct alt as [|y alt]; cbn [is_nil ois_none negb bind fmt_ostr].
    + unfold k_del_position, print_mave, del_position. cbn [bind ois_none fmt_ostr]. rewrite ?zlen_cons.
      destruct (1 + zlen ref =? 1); cbn [bind]; rewrite ?append_assoc'; reflexivity.
    + unfold k_delin_suffix, k_del_position, print_mave, del_position. cbn [bind ois_none fmt_ostr]. rewrite ?zlen_cons.
      destruct (1 + zlen ref =? 1); cbn [bind]; rewrite ?append_assoc'; reflexivity.
  - (* substitution *)
    unfold k_substitution_suffix. cbn [onull].
    destruct ref as [|x [|x2 ref]]; destruct alt as [|y [|y2 alt]]; rewrite ?sempty_dna; cbn [is_nil bind]; try reflexivity.
    all: cbn [olen bind]; rewrite ?slen_dna, ?zlen_cons, ?zlen_nil.
    + pose proof (zlen_nonneg alt). replace ((1 + 0 =? 1) && (1 + (1 + zlen alt) =? 1)) with false by lia. cbn [bind fmt_ostr].
      unfold k_delin_suffix, k_del_position, print_mave, del_position. change (1 + 0 =? 1) with true. cbn [bind ois_none fmt_ostr].
      rewrite ?append_assoc'. reflexivity.
    + pose proof (zlen_nonneg ref). replace ((1 + (1 + zlen ref) =? 1) && (1 + 0 =? 1)) with false by lia. cbn [bind fmt_ostr].
      unfold k_delin_suffix, k_del_position, print_mave, del_position. replace (1 + (1 + zlen ref) =? 1) with false by lia.
      cbn [bind ois_none fmt_ostr]. rewrite ?append_assoc'. reflexivity.
    + pose proof (zlen_nonneg ref). replace ((1 + (1 + zlen ref) =? 1) && (1 + (1 + zlen alt) =? 1)) with false by lia. cbn [bind fmt_ostr].
      unfold k_delin_suffix, k_del_position, print_mave, del_position. replace (1 + (1 + zlen ref) =? 1) with false by lia.
      cbn [bind ois_none fmt_ostr]. rewrite ?append_assoc'. reflexivity.
  - (* unknown *)
    reflexivity.
Qed.
