(* C07: pam_seq = background sequence with exactly the applied single-nucleotide edits. *)
From VV Require Import Model.Base Model.Pattern Model.Gpo Spec.LiftSpec Proofs.BaseLemmas Proofs.TargetonProofs Proofs.ApplyProofs.

Lemma znth_app_l {X} i (a b : list X) : 0 <= i < zlen a -> znth i (a ++ b) = znth i a.
Proof.
  intros H. unfold znth, zlen in *. destruct (i <? 0); [reflexivity|]. apply nth_error_app1. lia.
Qed.

Lemma znth_app_r {X} i (a b : list X) : zlen a <= i -> znth i (a ++ b) = znth (i - zlen a) b.
Proof.
  intros H. unfold znth, zlen in *. pose proof (Zle_0_nat (length a)).
  replace (i <? 0) with false by (symmetry; apply Z.ltb_ge; lia).
  replace (i - Z.of_nat (length a) <? 0) with false by (symmetry; apply Z.ltb_ge; lia).
  rewrite nth_error_app2 by lia. f_equal. lia.
Qed.

Lemma nth_error_firstn' {X} (l : list X) : forall i n, (i < n)%nat -> nth_error (firstn n l) i = nth_error l i.
Proof.
  induction l as [|x l IH]; intros i n H; [now rewrite firstn_nil|].
  destruct n; [lia|]. destruct i; cbn; [reflexivity|]. apply IH. lia.
Qed.

Lemma nth_error_skipn' {X} (l : list X) : forall i n, nth_error (skipn n l) i = nth_error l (i + n).
Proof.
  induction l as [|x l IH]; intros i n; [rewrite skipn_nil; now destruct i, n|].
  destruct n; [now rewrite Nat.add_0_r|]. rewrite Nat.add_succ_r. cbn. apply IH.
Qed.

Lemma znth_zfirstn {X} i n (l : list X) : 0 <= i < n -> znth i (zfirstn n l) = znth i l.
Proof.
  intros H. unfold znth, zfirstn. destruct (i <? 0); [reflexivity|]. apply nth_error_firstn'. lia.
Qed.

Lemma znth_zskipn {X} i n (l : list X) : 0 <= i -> 0 <= n -> znth i (zskipn n l) = znth (i + n) l.
Proof.
  intros Hi Hn. unfold znth, zskipn.
  replace (i <? 0) with false by (symmetry; apply Z.ltb_ge; lia).
  replace (i + n <? 0) with false by (symmetry; apply Z.ltb_ge; lia).
  rewrite nth_error_skipn'. f_equal. lia.
Qed.

(* single-nucleotide edits: sorted, distinct positions inside [lo, hi] *)
Fixpoint snvs (lo hi : Z) (vs : list variant) : Prop :=
  match vs with
  | [] => True
  | v :: vs' => lo <= v_pos v <= hi /\ zlen (v_ref v) = 1 /\ zlen (v_alt v) = 1 /\ snvs (v_pos v + 1) hi vs'
  end.

Definition edit_at (vs : list variant) (p : Z) : option nt :=
  match find (fun v => v_pos v =? p) vs with
  | Some v => hd_error (v_alt v)
  | None => None
  end.

Lemma snvs_wfv lo hi vs : snvs lo hi vs -> wfv lo hi vs.
Proof.
  revert lo; induction vs as [|v vs IH]; intros lo; cbn [snvs wfv]; [auto|].
  intros (H1 & H2 & H3 & H4). rewrite H2. replace (Z.max 1 1) with 1 by lia.
  repeat split; try lia; [|now apply IH].
  left. intros E. rewrite E in H2. discriminate.
Qed.

Lemma edit_at_before lo hi vs p : snvs lo hi vs -> p < lo -> edit_at vs p = None.
Proof.
  revert lo; induction vs as [|v vs IH]; intros lo Hs Hp; [reflexivity|].
  destruct Hs as (H1 & H2 & H3 & H4). unfold edit_at in *. cbn [find].
  replace (v_pos v =? p) with false by (symmetry; apply Z.eqb_neq; lia). apply (IH (v_pos v + 1)); [assumption|lia].
Qed.

(* the protected sequence carries the edit's ALT base at the edit positions and the background base everywhere else *)
Theorem pam_seq_exact vs : forall start ref p,
  snvs start (start + zlen ref - 1) vs -> start <= p < start + zlen ref ->
  znth (p - start) (splice start ref vs) = match edit_at vs p with Some x => Some x | None => znth (p - start) ref end.
Proof.
  induction vs as [|v vs IH]; intros start ref p Hs Hp; cbn [splice]; [reflexivity|].
  destruct Hs as (H1 & H2 & H3 & H4). pose proof (zlen_nonneg ref).
  unfold edit_at. cbn [find]. fold (edit_at vs p).
  destruct (v_alt v) as [|a [|a2 al]] eqn:Ea; try (cbn in H3; unfold zlen in H3; cbn in H3; lia).
  destruct (Z.compare_spec p (v_pos v)) as [Heq|Hlt|Hgt].
  - subst p. rewrite Z.eqb_refl. rewrite ?Ea. cbn [hd_error].
    rewrite znth_app_r by (rewrite zfirstn_length; lia). rewrite zfirstn_length by lia.
    replace (v_pos v - start - Z.min (v_pos v - start) (zlen ref)) with 0 by lia. reflexivity.
  - replace (v_pos v =? p) with false by (symmetry; apply Z.eqb_neq; lia).
    change (find (fun v0 => v_pos v0 =? p) vs) with (find (fun v0 => v_pos v0 =? p) vs).
    rewrite znth_app_l by (rewrite zfirstn_length; lia). rewrite znth_zfirstn by lia.
    fold (edit_at vs p). rewrite (edit_at_before _ _ _ p H4) by lia. reflexivity.
  - replace (v_pos v =? p) with false by (symmetry; apply Z.eqb_neq; lia).
    rewrite znth_app_r by (rewrite zfirstn_length; lia). rewrite zfirstn_length by lia.
    replace (Z.min (v_pos v - start) (zlen ref)) with (v_pos v - start) by lia.
    change (a :: splice (v_pos v + zlen (v_ref v)) (zskipn (v_pos v - start + zlen (v_ref v)) ref) vs)
      with ([a] ++ splice (v_pos v + zlen (v_ref v)) (zskipn (v_pos v - start + zlen (v_ref v)) ref) vs).
    rewrite znth_app_r by (unfold zlen; cbn; lia). rewrite H2.
    replace (p - start - (v_pos v - start) - zlen [a]) with (p - (v_pos v + 1)) by (unfold zlen; cbn; lia).
    rewrite (IH (v_pos v + 1) (zskipn (v_pos v - start + 1) ref) p).
    + fold (edit_at vs p). destruct (edit_at vs p); [reflexivity|].
      rewrite znth_zskipn by lia. f_equal. lia.
    + rewrite zskipn_length by lia.
      replace (v_pos v + 1 + Z.max 0 (zlen ref - (v_pos v - start + 1)) - 1) with (start + zlen ref - 1) by lia. assumption.
    + rewrite zskipn_length by lia. lia.
Qed.

(* and get_ppe_seq computes it: apply_variants over the in-range edits (sorted by position) is that splice *)
Corollary ppe_seq_is_splice start ref vs :
  snvs start (start + zlen ref - 1) vs -> apply_variants start ref (zlen ref) vs = Ok (splice start ref vs).
Proof.
  intros Hs. pose proof (apply_variants_is_splice start ref vs (snvs_wfv _ _ _ Hs)) as H.
  assert (Hd : sum_delta_v vs = 0).
  { clear H. revert Hs. generalize start at 1. induction vs as [|v vs IH]; intros lo Hs; [reflexivity|].
    destruct Hs as (H1 & H2 & H3 & H4). cbn [sum_delta_v fold_right]. fold (sum_delta_v vs). rewrite (IH _ H4). lia. }
  now rewrite Hd, Z.add_0_r in H.
Qed.
