(* C20: the metadata schema facts re-read from /repo (Generated/MetaFields.v) against the documented schema. *)
From Coq Require Import String List Bool.
Import ListNotations.
From VV Require Import Generated.MetaFields.
Local Open Scope string_scope.

Definition strs_eqb (a b : list string) : bool :=
  (fix go a b := match a, b with [] , [] => true | x :: a', y :: b' => String.eqb x y && go a' b' | _, _ => false end) a b.

(* parameter of write_meta_record -> documented column *)
Definition aliases : list (string * string) :=
  [("contig", "ref_chr"); ("strand", "ref_strand"); ("ref_var_pos", "mut_position"); ("pam_ref", "ref"); ("ref_var_alt", "new");
   ("mutation_type", "mut_type"); ("oligo", "mseq"); ("oligo_no_adapt", "mseq_no_adapt"); ("sgrna_ids", "pam_mut_sgrna_id");
   ("in_const", "vcf_var_in_const")].
Definition param_is_column (p c : string) : bool :=
  String.eqb p c || existsb (fun a => String.eqb (fst a) p && String.eqb (snd a) c) aliases.
Fixpoint forall2b {X Y} (f : X -> Y -> bool) (a : list X) (b : list Y) : bool :=
  match a, b with [], [] => true | x :: a', y :: b' => f x y && forall2b f a' b' | _, _ => false end.

(* the no-op row: targeton-level parameters are forwarded, mutation parameters get the documented placeholders *)
Definition noop_expected : list (string * string) :=
  [("src_type", "<''>"); ("vcf_alias", "<''>"); ("vcf_var_id", "<''>"); ("ref_var_pos", "<-1>"); ("pam_ref", "<''>"); ("ref_var_alt", "<''>");
   ("ref_aa", "<''>"); ("alt_aa", "<''>"); ("mutation_type", "<''>"); ("mutator", "<''>"); ("sgrna_ids", "<''>"); ("mave_nt", "<''>");
   ("mave_nt_ref", "<''>"); ("in_const", "<0>")].
Definition noop_arg_ok (arg param : string) : bool :=
  match find (fun e => String.eqb (fst e) param) noop_expected with
  | Some e => String.eqb arg (snd e)
  | None => String.eqb arg param
  end.

Definition subset (a b : list string) : bool := forallb (fun x => existsb (String.eqb x) b) a.

Lemma header_is_documented_check : strs_eqb meta_csv_fields readme_fields && Nat.eqb (length meta_csv_fields) 32 = true.
Proof. vm_compute. reflexivity. Qed.

Lemma record_field_order_check :
  strs_eqb write_order (writer_params ++ ["<newline>"]) && forall2b param_is_column writer_params meta_csv_fields = true.
Proof. vm_compute. reflexivity. Qed.

Lemma noop_row_check : forall2b noop_arg_ok noop_args writer_params = true.
Proof. vm_compute. reflexivity. Qed.

Lemma vcf_tags_check :
  subset vcf_used_tags vcf_declared_tags && subset vcf_declared_tags readme_vcf_tags && subset readme_vcf_tags vcf_declared_tags = true.
Proof. vm_compute. reflexivity. Qed.
