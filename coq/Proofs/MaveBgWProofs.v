(* C10 under background variants, rows widened to a PAM codon *)
From VV Require Import Model.Base Model.Pattern Model.Seq Model.Vcf Model.Mave Model.Gpo Model.ToCsv Spec.MaveSpec Proofs.BaseLemmas Proofs.TargetonProofs Proofs.ApplyProofs Proofs.VcfProofs Proofs.MaveProofs Proofs.RowProofs Proofs.MaveRowProofs.
From VV Require Import Proofs.MaveBgProofs.
From Coq Require Import Lia ZifyBool.

Theorem row_mave_nt_decodes_bg_widened c g mr o xa (T : dna) :
  row_out c mr = Ok o -> cx_gpo c = Some g ->
  p_seq (cx_alt c) = mkSeq xa T ->
  mr_end mr = get_end (mr_alt_pos mr) (zlen (mr_ref mr)) ->
  let x0 := s_start (p_seq (cx_seq c)) in
  let a := mr_alt_pos mr - xa in
  0 <= a -> a + zlen (mr_ref mr) <= zlen T ->
  xa <= opt_min (mr_alt_pos mr) (mr_start_ppe mr) -> opt_max (mr_end mr) (mr_end_ppe mr) <= xa + zlen T - 1 ->
  x0 <= mr_ref_pos mr ->
  (forall y, alt_to_ref_position g (opt_min (mr_alt_pos mr) (mr_start_ppe mr)) = Ok (Some y) -> x0 <= y) ->
  mr_oligo mr = zfirstn a T ++ mr_alt mr ++ zskipn (a + zlen (mr_ref mr)) T ->
  exists m q, o_mave_nt o = print_mave m /\ mave_valid m = true /\ 1 <= q /\
              mave_apply (mave_at m q) T = Some (mr_oligo mr).
Proof.
  intros Hrow Hg Halt Hend x0 a Ha Hfit Hlo Hhi Hrp Hy Holigo.
  unfold row_out in Hrow. rewrite Hg in Hrow. fold x0 in Hrow.
  destruct (mk_variant (mr_ref_pos mr) (mr_ref mr) (mr_alt mr)) as [v0|] eqn:Ev0; [|discriminate]. cbn [bind] in Hrow.
  destruct (var_type (mr_ref mr) (mr_alt mr)) as [vt|] eqn:Evt; [|discriminate]. cbn [bind] in Hrow.
  match type of Hrow with (do refs <- ?r; _) = _ => destruct r as [[ref_ref pam_ref]|] eqn:Erefs; [|discriminate] end.
  cbn [bind fst snd] in Hrow.
  destruct (get_mave_nt (mr_ref_pos mr) x0 vt ref_ref (mr_alt mr)) as [mv_ref|] eqn:Emr; [|discriminate]. cbn [bind] in Hrow.
  destruct (get_mave_nt (mr_ref_pos mr) x0 vt pam_ref (mr_alt mr)) as [mv0|] eqn:Em0; [|discriminate]. cbn [bind] in Hrow.
  destruct (mk_variant (mr_ref_pos mr) pam_ref (mr_alt mr)) as [nv|] eqn:Env; [|discriminate]. cbn [bind] in Hrow.
  match type of Hrow with (do nts <- ?r; _) = _ => destruct r as [[[[[n1 n2] n3] n4] n5]|] eqn:Ents; [|discriminate] end.
  cbn [bind] in Hrow.
  match type of Hrow with (do wid <- ?r; _) = _ => destruct r as [wid|] eqn:Ewid; [|discriminate] end.
  cbn [bind] in Hrow.
  match type of Hrow with (do vcfs <- ?r; _) = _ => destruct r as [vcfs|] eqn:Evcfs; [|discriminate] end.
  cbn [bind] in Hrow. injection Hrow as <-. cbn [o_mave_nt].
  assert (Hpam : pam_ref = py_slice a (a + zlen (mr_ref mr)) T /\ zlen pam_ref = zlen (mr_ref mr)).
  { destruct (mr_ref mr) as [|x r] eqn:Er; cbn [is_nil] in Erefs.
    - injection Erefs as <- <-. rewrite zlen_nil, Z.add_0_r, py_slice_empty. auto.
    - destruct (psubstr (cx_seq c) (mr_ref_pos mr) (get_end (mr_ref_pos mr) (zlen (x :: r)))) as [rr|]; [|discriminate].
      cbn [bind] in Erefs.
      destruct (psubstr (cx_alt c) (mr_alt_pos mr) (mr_end mr)) as [pr|] eqn:Epr; [|discriminate]. cbn [bind] in Erefs.
      injection Erefs as <- <-. apply psubstr_slice in Epr. rewrite Halt in Epr. cbn [s_start s_bases] in Epr.
      destruct Epr as [_ ->]. rewrite Hend. unfold get_end. pose proof (zlen_nonneg r). rewrite zlen_cons in *.
      fold a. replace (mr_alt_pos mr + Z.max 0 (1 + zlen r - 1) - xa + 1) with (a + (1 + zlen r)) by (unfold a; lia).
      split; [reflexivity|]. rewrite py_slice_length_in; lia. }
  destruct Hpam as [Hpam Hpl].
  assert (Hins : vt = VIns -> mr_ref mr = []).
  { intros ->. unfold var_type in Evt. destruct (mr_ref mr), (mr_alt mr); try discriminate; reflexivity. }
  destruct wid as [[[[[[cr pcr] pa] dn] prs] mv]|].
  2:{ (* not widened *)
      unfold get_mave_nt in Em0. destruct (mave_of vt (mr_ref_pos mr - x0 + 1) pam_ref (mr_alt mr)) as [m|] eqn:Em; [|discriminate].
      cbn [bind] in Em0. injection Em0 as <-. exists m, (a + 1). split; [reflexivity|].
      destruct (mave_of_at _ _ (a + 1) _ _ _ Em ltac:(lia)) as (Hat & Hp).
      destruct (mave_of_apply_gen T (a + 1) pam_ref (mr_alt mr) vt (mave_at m (a + 1)) Hat) as [Happ Hval].
      - intros E. specialize (Hins E). rewrite Hins, zlen_nil in Hpl. now apply zlen_zero_nil.
      - lia.
      - rewrite Hpl. lia.
      - rewrite Hpl. replace (a + 1 - 1) with a by lia. now rewrite Hpam.
      - split; [apply (mave_valid_at m (a + 1) Hval); rewrite Hp; lia|]. split; [lia|].
        rewrite Happ, Holigo, Hpl. replace (a + 1 - 1) with a by lia. reflexivity. }
  (* widened to the PAM codon *)
  destruct (is_some (mr_start_exon mr) || is_some (mr_end_exon mr)); [|discriminate]. cbn [bind] in Ewid.
  set (ps := opt_min (mr_alt_pos mr) (mr_start_ppe mr)) in *. set (pe := opt_max (mr_end mr) (mr_end_ppe mr)) in *.
  destruct (mk_range ps pe) as [pr|] eqn:Epr; [|discriminate]. cbn [bind] in Ewid.
  unfold mk_range in Epr. destruct ((0 <=? ps) && (ps <=? pe)) eqn:Ebnd; [|discriminate]. injection Epr as <-. cbn [rs re] in Ewid.
  match type of Ewid with (if ?b then _ else _) = _ => destruct b; [|discriminate] end.
  destruct (psubstr (cx_alt c) ps pe) as [pcr'|] eqn:Epcr; [|discriminate]. cbn [bind fst snd] in Ewid.
  destruct (alt_to_ref_position g ps) as [[ya|]|] eqn:Eya; cbn [bind] in Ewid; try discriminate;
    [|destruct (alt_to_ref_position g pe) as [[?|]|]; cbn [bind] in Ewid; discriminate].
  destruct (alt_to_ref_position g pe) as [[yb|]|] eqn:Eyb; cbn [bind fst snd] in Ewid; try discriminate.
  destruct (psubstr (cx_seq c) ya yb) as [cr'|]; [|discriminate]. cbn [bind] in Ewid.
  match type of Ewid with (do pa <- ?r; _) = _ => destruct r as [pa'|] eqn:Epa; [|discriminate] end. cbn [bind] in Ewid.
  match type of Ewid with (do mv <- ?r; _) = _ => destruct r as [mv'|] eqn:Emv; [|discriminate] end. cbn [bind] in Ewid.
  injection Ewid as <- <- <- <- <- <-.
  apply psubstr_slice in Epcr. rewrite Halt in Epcr. cbn [s_start s_bases] in Epcr. destruct Epcr as [Hb1 ->].
  apply psubstr_slice in Epa. cbn [p_seq s_start s_bases] in Epa. rewrite Halt in Epa. cbn [s_start] in Epa. destruct Epa as [Hb2 ->].
  assert (Hps : ps <= mr_alt_pos mr) by (unfold ps, opt_min; destruct (mr_start_ppe mr); lia).
  assert (Hpe : mr_end mr <= pe) by (unfold pe, opt_max; destruct (mr_end_ppe mr); lia).
  set (u := ps - xa) in *. set (w := pe - xa + 1) in *.
  assert (Hw : a + zlen (mr_ref mr) <= w).
  { unfold w, a. rewrite Hend in Hpe. unfold get_end in Hpe. pose proof (zlen_nonneg (mr_ref mr)). lia. }
  destruct (widen_same T (mr_alt mr) a (zlen (mr_ref mr)) u w) as [Hsl Hsame]; try (unfold u, w, a in *; lia).
  { apply zlen_nonneg. }
  cbv zeta in Hsl, Hsame. rewrite <- Holigo in Hsl, Hsame.
  replace (pe + (zlen (mr_alt mr) - zlen (mr_ref mr)) - xa + 1) with (w + (zlen (mr_alt mr) - zlen (mr_ref mr))) in * by (unfold w; lia).
  set (alt' := py_slice u (w + (zlen (mr_alt mr) - zlen (mr_ref mr))) (mr_oligo mr)) in *.
  unfold get_mave_nt in Emv.
  match type of Emv with (do m <- ?r; _) = _ => destruct r as [m|] eqn:Em; [|discriminate] end.
  cbn [bind] in Emv. injection Emv as <-. exists m, (u + 1). split; [reflexivity|].
  assert (Hor : or_else alt' (mr_alt mr) = alt').
  { unfold or_else. destruct alt' eqn:Ea'; [|reflexivity].
    assert (Hz : zlen (py_slice u a T ++ mr_alt mr ++ py_slice (a + zlen (mr_ref mr)) w T) = 0) by (rewrite <- Hsl; reflexivity).
    rewrite !zlen_app in Hz. pose proof (zlen_nonneg (py_slice u a T)). pose proof (zlen_nonneg (py_slice (a + zlen (mr_ref mr)) w T)).
    pose proof (zlen_nonneg (mr_alt mr)). apply zlen_zero_nil. lia. }
  rewrite Hor in Em.
  assert (Hwlen : zlen (py_slice u w T) = w - u) by (rewrite py_slice_length_in; unfold u, w in *; lia).
  destruct (mave_of_at _ _ (u + 1) _ _ _ Em ltac:(unfold u; lia)) as (Hat & Hp).
  destruct (mave_of_apply_gen T (u + 1) (py_slice u w T) alt' _ (mave_at m (u + 1)) Hat) as [Happ Hval].
  - intros E. exfalso. destruct (vtype_eqb vt VIns) eqn:Ee; [discriminate|]. subst vt. discriminate Ee.
  - unfold u. lia.
  - rewrite Hwlen. unfold u, w in *. lia.
  - rewrite Hwlen. f_equal; lia.
  - split; [apply (mave_valid_at m (u + 1) Hval); rewrite Hp; specialize (Hy ya eq_refl); lia|]. split; [unfold u; lia|].
    rewrite Happ, Hwlen. replace (u + 1 - 1) with u by lia. replace (u + (w - u)) with w by lia.
    rewrite Hsame. reflexivity.
Qed.
