(* C03: all the rows of a coding region, per mutator label, composed from the frame, window and rule theorems. *)
From VV Require Import Model.Base Model.Pattern Model.Seq Model.CodonTable Model.Transcript Model.Mutators Spec.PatternSpec Spec.CodonSpec Spec.RegionSpec Proofs.BaseLemmas Proofs.PatternProofs Proofs.CodonTableProofs Proofs.CodonProofs Proofs.AnnotProofs.
From Coq Require Import ZifyBool Permutation.
Ltac Zify.zify_post_hook ::= Z.to_euclidean_division_equations.

(* ---- slices of prefix ++ bases ++ suffix that fall inside the bases ---- *)
Lemma skipn_app_exact {X} (l1 l2 : list X) n : (length l1 <= n)%nat -> skipn n (l1 ++ l2) = skipn (n - length l1) l2.
Proof. intros H. rewrite skipn_app. rewrite skipn_all2 by lia. reflexivity. Qed.

Lemma firstn_app_left {X} (l1 l2 : list X) n : (n <= length l1)%nat -> firstn n (l1 ++ l2) = firstn n l1.
Proof. intros H. rewrite firstn_app. replace (n - length l1)%nat with 0%nat by lia. cbn [firstn]. apply app_nil_r. Qed.

Lemma py_slice_mid {X} (pre mid suf : list X) a n :
  0 <= a -> 0 <= n -> a + n <= zlen mid ->
  py_slice (zlen pre + a) (zlen pre + a + n) (pre ++ mid ++ suf) = py_slice a (a + n) mid.
Proof.
  intros Ha Hn Hl. unfold py_slice, zfirstn, zskipn, zlen in *.
  rewrite skipn_app_exact by lia.
  replace (Z.to_nat (Z.of_nat (length pre) + a) - length pre)%nat with (Z.to_nat a) by lia.
  rewrite skipn_app. rewrite firstn_app_left; [f_equal; lia|].
  rewrite skipn_length. lia.
Qed.

Lemma znth_skipn {X} (l : list X) a k : 0 <= a -> 0 <= k -> znth k (zskipn a l) = znth (a + k) l.
Proof.
  intros Ha Hk. unfold znth, zskipn.
  destruct (k <? 0) eqn:E1; [lia|]. destruct (a + k <? 0) eqn:E2; [lia|].
  replace (Z.to_nat (a + k)) with (Z.to_nat a + Z.to_nat k)%nat by lia.
  generalize (Z.to_nat a) as n. clear. intros n. revert l. induction n as [|n IH]; intros l; [reflexivity|].
  destruct l as [|x l]; cbn [skipn Nat.add nth_error]; [now destruct (Z.to_nat k)|apply IH].
Qed.

Lemma znth_firstn {X} (l : list X) n k : 0 <= k < n -> znth k (zfirstn n l) = znth k l.
Proof.
  intros Hk. unfold znth, zfirstn. destruct (k <? 0) eqn:E; [lia|].
  assert (H : (Z.to_nat k < Z.to_nat n)%nat) by lia. revert H.
  generalize (Z.to_nat k) as i, (Z.to_nat n) as m. clear. intros i m. revert i l.
  induction m as [|m IH]; intros i l H; [lia|].
  destruct l as [|x l]; [now destruct i|]. destruct i as [|i]; [reflexivity|]. cbn [firstn nth_error]. apply IH. lia.
Qed.

Lemma znth_py_slice {X} (l : list X) a n k : 0 <= a -> 0 <= k < n -> znth k (py_slice a (a + n) l) = znth (a + k) l.
Proof.
  intros Ha Hk. unfold py_slice. rewrite znth_firstn by lia. now apply znth_skipn.
Qed.

(* ---- the SNVRE rows of a region, against the annotated reading frame ---- *)
Lemma snvre_variants_inv t c vs :
  snvre_variants t c = Ok vs ->
  exists vs0 snvs, snv_variants (c_seq c) = Ok vs0 /\ mapM (fun v => annotate t c v "snv"%string) vs0 = Ok snvs /\
                   snv_annots t c "snv"%string = Ok snvs /\
                   forall a, In a snvs -> exists alts, snvre_alts t a = Ok alts.
Proof.
  intros H. unfold snvre_variants in H.
  destruct (snv_annots t c "snv"%string) as [snvs|] eqn:Es; [|discriminate]. cbn [bind] in H.
  destruct (mapM _ snvs) as [ts|] eqn:Et; [|discriminate]. cbn [bind] in H.
  pose proof Es as Es'. unfold snv_annots in Es'.
  destruct (snv_variants (c_seq c)) as [vs0|] eqn:E0; [|discriminate]. cbn [bind] in Es'.
  exists vs0, snvs. repeat split; auto.
  intros a Ha. destruct (mapM_each _ _ _ Et _ Ha) as (y & Hy & _).
  destruct (snvre_alts t a) as [alts|]; [eauto|discriminate].
Qed.

Theorem snvre_region_exact tr tb q e r c vs :
  get_cds_seq_exon tr q e r = Ok c -> 0 <= rs r <= re r -> s_start q <= rs r -> re r - s_start q + 1 <= s_len q ->
  snvre_variants tb c = Ok vs ->
  forall v, (In v vs /\ in_region r v = true) <-> is_snvre_row tb (t_strand tr) e r c v.
Proof.
  intros Hc Hr H1 H2 Hv v.
  destruct (get_cds_seq_exon_shape _ _ _ _ _ Hc H1 H2) as (before & after & Hx & Hin & Hs & Hp & Hsf & Hl & _).
  pose proof (range_cds_exts_ok _ _ _ _ _ Hx) as (Hf & Hb & Ha & Hfr).
  destruct (snvre_variants_inv _ _ _ Hv) as (vs0 & snvs & Hv0 & Hm & Hsa & Halts).
  destruct (snvre_variants_exact _ _ _ _ Hsa Hv) as [Hex _].
  assert (Hend : c_end c = re r) by (unfold c_end, get_end; rewrite Hs, Hl; unfold rlen; lia).
  assert (Hblen : zlen (c_bases c) = rlen r) by exact Hl.
  split.
  - intros [Hin_v Hreg]. apply Hex in Hin_v.
    destruct Hin_v as (a & alts & Ha_in & Hal & Hy & Hpos & Href & Hle).
    apply (mapM_In _ _ _ Hm) in Ha_in. destruct Ha_in as (v0 & Hv0in & Hann).
    apply (snv_rows_exact _ _ Hv0) in Hv0in. destruct Hv0in as (i & x & y & Hi & Hx0 & Hp0 & Hr0 & Ha0 & Hne).
    destruct v0 as [p0 r0 a0]. cbn [v_pos v_ref v_alt] in *. subst p0 r0 a0.
    cbn [c_seq s_start s_bases] in *. unfold s_len in Hi. cbn [s_bases] in Hi.
    pose proof (annot_snv_correct _ _ _ _ _ _ _ Hann) as Han. cbv zeta in Han.
    destruct Han as (Ho & Hvar & Hoff & Hcr & Hca & Hl3 & Hl3' & Htr & Hta).
    rewrite Hp in *. replace (c_start c + i - c_start c + before) with (i + before) in * by lia.
    assert (Hcs : a_codon_start a = rs r + i - (i + before) mod 3).
    { unfold a_codon_start. rewrite Hvar, Hoff. cbn [v_pos]. lia. }
    unfold in_region, in_range, var_ref_end, get_end in Hreg. rewrite Href, Hl3, Hpos, Hcs in Hreg.
    assert (Hlo : rs r <= rs r + i - (i + before) mod 3) by lia.
    assert (Hrefeq : a_codon_ref a = cds_bases_at c (a_codon_start a) 3).
    { rewrite Hcr. unfold cds_bases_at, c_ext. rewrite Hcs, Hs, <- Hp.
      replace (i + zlen (c_prefix c) - (i + zlen (c_prefix c)) mod 3)
        with (zlen (c_prefix c) + (i - (i + zlen (c_prefix c)) mod 3)) by lia.
      rewrite py_slice_mid; [f_equal; lia|lia|lia|]. rewrite Hblen, Hp. unfold rlen. lia. }
    exists ((i + before) mod 3), x, y. rewrite Hpos, Href.
    split; [lia|]. split.
    { rewrite Hcs. unfold is_region_codon. split; [lia|]. split; [lia|].
      unfold in_frame. destruct (t_strand tr); cbn [is_plus] in *; lia. }
    split; [exact Hrefeq|]. split.
    { rewrite Hrefeq. unfold cds_bases_at. rewrite znth_py_slice by lia. rewrite <- Hx0. f_equal. rewrite Hcs, Hs. lia. }
    split; [exact Hne|].
    replace (set_base (a_codon_ref a) ((i + before) mod 3) y) with (a_codon_alt a) by (rewrite Hca; reflexivity).
    now apply (snvre_alts_exact tb a alts Htr Hta Hal).
  - intros (i & x & y & Hi & Hrc & Href & Hxi & Hne & Hrule).
    destruct v as [q0 rf al]. cbn [v_pos v_ref v_alt] in *.
    pose proof Hrc as (Hq1 & Hq2 & Hfrm).
    assert (H3 : zlen rf = 3).
    { rewrite Href. unfold cds_bases_at. rewrite py_slice_length_in; try lia. rewrite Hblen, Hs. unfold rlen. lia. }
    split; [|apply (codon_rows_in_region _ _ _ _ _ al Hrc H3)].
    assert (Hfm : (q0 - rs r + before) mod 3 = 0).
    { unfold in_frame in Hfrm. destruct (t_strand tr); cbn [is_plus] in *; lia. }
    set (v0 := mkVar (q0 + i) [x] [y]).
    assert (Hx0 : znth (q0 + i - c_start c) (c_bases c) = Some x).
    { rewrite <- Hxi, Href. unfold cds_bases_at. rewrite znth_py_slice by lia. f_equal. lia. }
    assert (Hv0in : In v0 vs0).
    { apply (snv_rows_exact _ _ Hv0). exists (q0 + i - c_start c), x, y. cbn [c_seq s_start s_bases v0 v_pos v_ref v_alt].
      unfold s_len. cbn [s_bases c_seq]. rewrite Hblen. unfold rlen. repeat split; auto; lia. }
    destruct (mapM_each _ _ _ Hm _ Hv0in) as (a & Hann & Ha_in).
    pose proof (annot_snv_correct _ _ _ _ _ _ _ Hann) as Han. cbv zeta in Han.
    destruct Han as (Ho & Hvar & Hoff & Hcr & Hca & Hl3 & Hl3' & Htr & Hta).
    rewrite Hp, Hs in *.
    assert (Hom : (q0 + i - rs r + before) mod 3 = i) by lia.
    rewrite Hom in *.
    assert (Hcs : a_codon_start a = q0) by (unfold a_codon_start; rewrite Hvar, Hoff; cbn [v_pos]; lia).
    assert (Hrefeq : a_codon_ref a = rf).
    { rewrite Hcr, Href. unfold cds_bases_at, c_ext. rewrite Hs, <- Hp.
      replace (q0 + i - rs r + zlen (c_prefix c) - i) with (zlen (c_prefix c) + (q0 - rs r)) by lia.
      rewrite py_slice_mid; [f_equal; lia|lia|lia|]. rewrite Hblen. unfold rlen. lia. }
    destruct (Halts _ Ha_in) as (alts & Hal).
    apply Hex. exists a, alts. cbn [v_pos v_ref v_alt]. rewrite Hcs, Hrefeq, Hend. repeat split; auto; try lia.
    apply (snvre_alts_exact tb a alts Htr Hta Hal). rewrite Hca, Hrefeq. exact Hrule.
Qed.

(* ---- all the rows of a coding region, per mutator label ---- *)
Definition kind_variants (tb : table) (c : cds_seq) (k : mkind) : result (list variant) :=
  match k with
  | MDelK s o => del_variants (c_seq c) o s
  | MSnv => snv_variants (c_seq c)
  | MSnvRe => snvre_variants tb c
  | MInframe => inframe_variants c
  | MAla => ala_variants tb c
  | MStop => stop_variants tb c
  | MAa => aa_variants tb c
  end.

Lemma annot_rows_In tb c lbl vs ys :
  mapM (fun v => do a <- annotate tb c v lbl; Ok (mkPRow lbl v (Some a))) vs = Ok ys ->
  forall l v, (exists row, In row ys /\ pr_label row = l /\ pr_var row = v) <-> (l = lbl /\ In v vs).
Proof.
  intros H l v. split.
  - intros (row & Hin & <- & <-). apply (mapM_In _ _ _ H) in Hin. destruct Hin as (v0 & Hv0 & Hf).
    destruct (annotate tb c v0 lbl) as [a|]; [|discriminate]. cbn [bind] in Hf. apply Ok_inj in Hf. subst row. cbn. auto.
  - intros [-> Hin]. destruct (mapM_each _ _ _ H _ Hin) as (row & Hf & Hrow).
    destruct (annotate tb c v lbl) as [a|]; [|discriminate]. cbn [bind] in Hf. apply Ok_inj in Hf. subst row.
    eexists. split; [exact Hrow|]. cbn. auto.
Qed.

Lemma plain_rows_In k vs l v :
  (exists row, In row (plain_rows k vs) /\ pr_label row = l /\ pr_var row = v) <-> (l = label_of k /\ In v vs).
Proof.
  unfold plain_rows. split.
  - intros (row & Hin & <- & <-). apply in_map_iff in Hin. destruct Hin as (v0 & <- & Hv0). cbn. auto.
  - intros [-> Hin]. exists (mkPRow (label_of k) v None). split; [apply in_map_iff; eauto|cbn; auto].
Qed.

Lemma region_rows_kinds tb c ms plain annotated :
  region_variants_cds tb c ms = Ok (plain, annotated) ->
  forall lbl v, (exists row, In row (plain ++ annotated) /\ pr_label row = lbl /\ pr_var row = v) <->
    exists k vs, In k (with_dependents ms) /\ label_of k = lbl /\ kind_variants tb c k = Ok vs /\ In v vs.
Proof.
  unfold region_variants_cds. intros H lbl v.
  destruct (mapM _ (with_dependents ms)) as [ps|] eqn:Ep; [|discriminate]. cbn [bind] in H.
  match type of H with (do _ <- ?m; _) = _ => destruct m as [qs|] eqn:Ea; [|discriminate] end. cbn [bind] in H.
  apply Ok_inj, pair_equal_spec in H. destruct H as [<- <-].
  split.
  - intros (row & Hin & Hl & Hv). apply in_app_iff in Hin. destruct Hin as [Hin|Hin].
    + apply (concat_mapM_In _ _ _ Ep) in Hin. destruct Hin as (k & ys & Hk & Hf & Hrow).
      destruct k; try (apply Ok_inj in Hf; subst ys; destruct Hrow).
      * destruct (del_variants (c_seq c) offset span) as [vs|] eqn:Ed; [|discriminate]. cbn [bind] in Hf. apply Ok_inj in Hf. subst ys.
        destruct (proj1 (plain_rows_In (MDelK span offset) vs lbl v)) as [-> Hvin]; [eauto|]. exists (MDelK span offset), vs. auto.
      * destruct (inframe_variants c) as [vs|] eqn:Ed; [|discriminate]. cbn [bind] in Hf. apply Ok_inj in Hf. subst ys.
        destruct (proj1 (plain_rows_In MInframe vs lbl v)) as [-> Hvin]; [eauto|]. exists MInframe, vs. auto.
    + apply (concat_mapM_In _ _ _ Ea) in Hin. destruct Hin as (k & ys & Hk & Hf & Hrow).
      destruct k; try (cbn [bind] in Hf; apply Ok_inj in Hf; subst ys; destruct Hrow).
      * destruct (snv_variants (c_seq c)) as [vs|] eqn:Ed; [|discriminate]. cbn [bind] in Hf.
        destruct (proj1 (annot_rows_In _ _ _ _ _ Hf lbl v)) as [-> Hvin]; [eauto|]. exists MSnv, vs. auto.
      * destruct (snvre_variants tb c) as [vs|] eqn:Ed; [|discriminate]. cbn [bind] in Hf.
        destruct (proj1 (annot_rows_In _ _ _ _ _ Hf lbl v)) as [-> Hvin]; [eauto|]. exists MSnvRe, vs. auto.
      * destruct (ala_variants tb c) as [vs|] eqn:Ed; [|discriminate]. cbn [bind] in Hf.
        destruct (proj1 (annot_rows_In _ _ _ _ _ Hf lbl v)) as [-> Hvin]; [eauto|]. exists MAla, vs. auto.
      * destruct (stop_variants tb c) as [vs|] eqn:Ed; [|discriminate]. cbn [bind] in Hf.
        destruct (proj1 (annot_rows_In _ _ _ _ _ Hf lbl v)) as [-> Hvin]; [eauto|]. exists MStop, vs. auto.
      * destruct (aa_variants tb c) as [vs|] eqn:Ed; [|discriminate]. cbn [bind] in Hf.
        destruct (proj1 (annot_rows_In _ _ _ _ _ Hf lbl v)) as [-> Hvin]; [eauto|]. exists MAa, vs. auto.
  - intros (k & vs & Hk & <- & Hkv & Hvin).
    destruct (mapM_each _ _ _ Ep _ Hk) as (ys & Hf & Hys). destruct (mapM_each _ _ _ Ea _ Hk) as (zs & Hg & Hzs).
    assert (Hplain : forall row, In row ys -> In row (concat ps ++ concat qs)).
    { intros row Hr. apply in_app_iff. left. apply in_concat. eauto. }
    assert (Hann : forall row, In row zs -> In row (concat ps ++ concat qs)).
    { intros row Hr. apply in_app_iff. right. apply in_concat. eauto. }
    destruct k; cbn [kind_variants] in Hkv; rewrite Hkv in *; cbn [bind] in Hf, Hg.
    1,4: apply Ok_inj in Hf; subst ys;
         match goal with Hys : In (plain_rows ?k _) _ |- _ =>
           destruct (proj2 (plain_rows_In k vs _ v) (conj eq_refl Hvin)) as (row & Hr & Hl & Hv); exists row; auto end.
    all: destruct (proj2 (annot_rows_In _ _ _ _ _ Hg _ v) (conj eq_refl Hvin)) as (row & Hr & Hl & Hv); exists row; auto.
Qed.

Lemma codon_replacements_refs c value vs : codon_replacements c value = Ok vs -> exists refs, codon_refs c = Ok refs.
Proof. unfold codon_replacements. destruct (codon_refs c) as [refs|]; [eauto|discriminate]. Qed.

(* codon-level rows lie inside the region: get_vars_in_region keeps each of them *)
Lemma codon_row_in_region tr q e r c v :
  get_cds_seq_exon tr q e r = Ok c -> s_start q <= rs r -> re r - s_start q + 1 <= s_len q ->
  codon_row (t_strand tr) e r c v -> in_region r v = true.
Proof.
  intros Hc H1 H2 [Hrc Href]. destruct v as [p b al]. cbn [v_pos v_ref] in *. apply (codon_rows_in_region _ _ _ _ _ al Hrc).
  rewrite Href. unfold cds_bases_at. destruct Hrc as (Hq1 & Hq2 & _).
  destruct (get_cds_seq_exon_shape _ _ _ _ _ Hc H1 H2) as (before & after & _ & _ & Hs & _ & _ & Hl & _).
  rewrite py_slice_length_in; try lia. change (zlen (c_bases c)) with (c_len c). rewrite Hl, Hs. unfold rlen. lia.
Qed.

Lemma kind_variants_exact tr tb q e r c k vs :
  get_cds_seq_exon tr q e r = Ok c -> 0 <= rs r <= re r -> s_start q <= rs r -> re r - s_start q + 1 <= s_len q ->
  kind_wf k -> kind_variants tb c k = Ok vs ->
  forall v, (In v vs /\ in_region r v = true) <-> (row_spec tb (t_strand tr) e r c k v /\ in_region r v = true).
Proof.
  intros Hc Hr H1 H2 Hwf Hk v.
  assert (Hcodon : forall refs, codon_refs c = Ok refs ->
            (forall p b, In (p, b) refs <-> is_region_codon (t_strand tr) e r p /\ b = cds_bases_at c p 3) /\
            (forall p b, In (p, b) refs -> zlen b = 3)).
  { intros refs Hrefs. destruct (codon_refs_exact _ _ _ _ _ _ Hc Hr H1 H2 Hrefs) as (Ha & _ & Hb). auto. }
  destruct k; cbn [kind_variants row_spec kind_wf] in *.
  - destruct Hwf as [Hs Ho]. destruct (del_rows_exact _ _ _ _ Hs Ho Hk) as [Hex _]. rewrite Hex. reflexivity.
  - rewrite (snv_rows_exact _ _ Hk). reflexivity.
  - rewrite (snvre_region_exact _ _ _ _ _ _ _ Hc Hr H1 H2 Hk). split; [|tauto].
    intros Hrow. split; [assumption|]. apply (snvre_region_exact _ _ _ _ _ _ _ Hc Hr H1 H2 Hk) in Hrow. tauto.
  - destruct (codon_replacements_refs _ _ _ Hk) as (refs & Hrefs). destruct (Hcodon _ Hrefs) as [Hin H3].
    rewrite (inframe_exact _ _ Hrefs H3) in Hk. apply Ok_inj in Hk. subst vs. rewrite in_map_iff. split.
    + intros [([p b] & <- & Hpb) Hreg]. cbn [fst snd v_pos v_ref v_alt]. apply Hin in Hpb. unfold codon_row. cbn [v_pos v_ref]. tauto.
    + intros [[[Hrc Href] Halt] Hreg]. split; [|assumption]. exists (v_pos v, v_ref v). split.
      * destruct v; cbn in *. now subst.
      * apply Hin. auto.
  - unfold ala_variants in Hk. destruct (get_top_codon tb ALA) as [top|] eqn:Et; [|discriminate].
    pose proof Hk as Hk'. cbn [bind] in Hk'. destruct (codon_replacements_refs _ _ _ Hk') as (refs & Hrefs). destruct (Hcodon _ Hrefs) as [Hin H3].
    rewrite <- Et in Hk. rewrite (top_replacement_exact _ _ _ _ _ _ Hrefs H3 Et Hk). split.
    + intros [(p & b & Hpb & Hne & ->) Hreg]. cbn [v_pos v_ref v_alt]. apply Hin in Hpb. unfold codon_row. cbn [v_pos v_ref]. tauto.
    + intros [([Hrc Href] & Htop & Hne) Hreg]. split; [|assumption]. exists (v_pos v), (v_ref v). apply Ok_inj in Htop. subst top.
      repeat split; [apply Hin; auto|assumption|now destruct v].
  - unfold stop_variants in Hk. destruct (get_top_codon tb STOP) as [top|] eqn:Et; [|discriminate].
    pose proof Hk as Hk'. cbn [bind] in Hk'. destruct (codon_replacements_refs _ _ _ Hk') as (refs & Hrefs). destruct (Hcodon _ Hrefs) as [Hin H3].
    rewrite <- Et in Hk. rewrite (top_replacement_exact _ _ _ _ _ _ Hrefs H3 Et Hk). split.
    + intros [(p & b & Hpb & Hne & ->) Hreg]. cbn [v_pos v_ref v_alt]. apply Hin in Hpb. unfold codon_row. cbn [v_pos v_ref]. tauto.
    + intros [([Hrc Href] & Htop & Hne) Hreg]. split; [|assumption]. exists (v_pos v), (v_ref v). apply Ok_inj in Htop. subst top.
      repeat split; [apply Hin; auto|assumption|now destruct v].
  - assert (exists refs, codon_refs c = Ok refs) as (refs & Hrefs).
    { unfold aa_variants in Hk. destruct (codon_refs c) as [refs|]; [eauto|discriminate]. }
    destruct (Hcodon _ Hrefs) as [Hin H3]. rewrite (aa_exact _ _ _ _ Hrefs H3 Hk). split.
    + intros [(p & b & a0 & a & Hpb & Htr & Ha & Hs & Hne & Htop & <- & <-) Hreg]. apply Hin in Hpb. unfold codon_row. split; [|assumption].
      split; [tauto|]. exists a0, a. auto.
    + intros [([Hrc Href] & a0 & a & Htr & Ha & Hs & Hne & Htop) Hreg]. split; [|assumption].
      exists (v_pos v), (v_ref v), a0, a. repeat split; auto. apply Hin. auto.
Qed.

(* every (label, mutation) emitted for a coding region and kept by get_vars_in_region is a documented row of a configured
   mutator with that label, and every documented row lying inside the region is emitted *)
Theorem region_rows_exact tr tb q e r c ms plain annotated :
  get_cds_seq_exon tr q e r = Ok c -> 0 <= rs r <= re r -> s_start q <= rs r -> re r - s_start q + 1 <= s_len q ->
  (forall k, In k ms -> kind_wf k) ->
  region_variants_cds tb c ms = Ok (plain, annotated) ->
  forall lbl v, row_of (keep_in_region r (plain ++ annotated)) lbl v <->
    exists k, In k (with_dependents ms) /\ label_of k = lbl /\ row_spec tb (t_strand tr) e r c k v /\ in_region r v = true.
Proof.
  intros Hc Hr H1 H2 Hwf H lbl v.
  assert (Hwf' : forall k, In k (with_dependents ms) -> kind_wf k).
  { intros k Hk. unfold with_dependents in Hk. destruct (_ && _); [|auto]. apply in_app_iff in Hk. destruct Hk as [Hk|[<-|[]]]; [auto|exact I]. }
  pose proof (region_rows_kinds _ _ _ _ _ H lbl v) as Hrk. unfold row_of, keep_in_region. split.
  - intros (row & Hin & Hl & Hv). apply filter_In in Hin. destruct Hin as [Hin Hreg]. rewrite Hv in Hreg.
    destruct (proj1 Hrk) as (k & vs & Hk & Hlk & Hkv & Hvin); [eauto|].
    exists k. repeat split; auto. apply (kind_variants_exact _ _ _ _ _ _ _ _ Hc Hr H1 H2 (Hwf' _ Hk) Hkv v). auto.
  - intros (k & Hk & Hl & Hspec & Hreg).
    assert (exists vs, kind_variants tb c k = Ok vs) as (vs & Hkv).
    { unfold region_variants_cds in H.
      destruct (mapM _ (with_dependents ms)) as [ps|] eqn:Ep; [|discriminate]. cbn [bind] in H.
      match type of H with (do _ <- ?m; _) = _ => destruct m as [qs|] eqn:Ea; [|discriminate] end.
      destruct (mapM_each _ _ _ Ep _ Hk) as (ys & Hf & _). destruct (mapM_each _ _ _ Ea _ Hk) as (zs & Hg & _).
      destruct k; cbn [kind_variants].
      1,4: match type of Hf with (do _ <- ?m; _) = _ => destruct m; [eauto|discriminate] end.
      all: match type of Hg with (do _ <- (do _ <- ?m; _); _) = _ => destruct m; [eauto|discriminate] end. }
    destruct (proj2 (kind_variants_exact _ _ _ _ _ _ _ _ Hc Hr H1 H2 (Hwf' _ Hk) Hkv v) (conj Hspec Hreg)) as [Hvin _].
    destruct (proj2 Hrk) as (row & Hin & Hlr & Hvr); [exists k, vs; auto|].
    exists row. repeat split; auto. apply filter_In. split; [assumption|]. now rewrite Hvr.
Qed.
