(* get_ppe_seq under background variants: the edits are moved to background coordinates (ref_to_alt_variant) and then selected, sorted and
   applied as without background variants *)
From VV Require Import Model.Base Model.Pattern Model.Gpo Model.PpeSeq Model.PamSeqBg Spec.LiftSpec Proofs.BaseLemmas Proofs.CodonProofs Proofs.LiftSpecProofs Proofs.GpoRefine Proofs.GpoTop
  Proofs.PamSeqProofs Proofs.PpeSeqProofs Proofs.PpeLiftProofs.
From Coq Require Import Lia ZifyBool.

Section Bg.
  Variables (g : gpo) (r : range) (vs : list vstat).
  Hypothesis Hr : 0 < rs r.
  Hypothesis Hwf : wf (rs r) (re r) vs.
  Hypothesis Hg : gpo_for g r vs.

  (* every edit lies inside the context *)
  Definition in_ctx (ppes : list variant) : Prop := forall v, In v ppes -> rs r <= v_pos v <= re r.

  Lemma lift_ppes_spec ppes l : in_ctx ppes -> lift_ppes g ppes = Ok l ->
    Forall2 (fun v w => r2a vs (v_pos v) = Some (v_pos w) /\ v_ref w = v_ref v /\ v_alt w = v_alt v) ppes l.
  Proof.
    unfold lift_ppes. destruct (check_liftable g (map v_pos ppes)); cbn [bind]; [|discriminate].
    revert l. induction ppes as [|v ppes IH]; intros l Hin H; cbn [mapM] in H; [apply Ok_inj in H; subst; constructor|].
    rewrite (ref_to_alt_refines g r vs Hwf Hg (v_pos v)) in H by (apply Hin; left; reflexivity). cbn [bind] in H.
    destruct (r2a vs (v_pos v)) as [q|] eqn:Eq; [|discriminate]. cbn [bind] in H.
    destruct (mapM _ ppes) as [tl|] eqn:Et; cbn [bind] in H; [|discriminate]. apply Ok_inj in H. subst l.
    constructor; [cbn [v_pos v_ref v_alt]; auto|]. apply IH; [intros w Hw; apply Hin; right; exact Hw | reflexivity].
  Qed.

  Lemma lift_ppes_refused ppes : in_ctx ppes -> (exists v, In v ppes /\ deleted vs (v_pos v) = true) ->
    lift_ppes g ppes = Err InvalidBackgroundVariant.
  Proof.
    intros Hin (v & Hv & Hd). unfold lift_ppes. rewrite (check_liftable_iff g r vs _ Hr Hwf Hg).
    replace (existsb (fun p => in_range p r && deleted vs p) (map v_pos ppes)) with true; [reflexivity|].
    symmetry. apply existsb_exists. exists (v_pos v). split; [apply in_map; exact Hv|].
    specialize (Hin v Hv). unfold in_range. rewrite Hd. lia.
  Qed.

  (* distinct surviving positions have distinct images *)
  Lemma r2a_injective p1 p2 q : rs r <= p1 -> rs r <= p2 -> r2a vs p1 = Some q -> r2a vs p2 = Some q -> p1 = p2.
  Proof.
    intros H1 H2 E1 E2. destruct (Z.lt_trichotomy p1 p2) as [Hlt|[Heq|Hgt]]; [|exact Heq|].
    - pose proof (r2a_monotone _ _ _ _ _ _ _ Hwf H1 Hlt E1 E2). lia.
    - pose proof (r2a_monotone _ _ _ _ _ _ _ Hwf H2 Hgt E2 E1). lia.
  Qed.

  Lemma lifted_pos_in ppes l w' :
    Forall2 (fun v w => r2a vs (v_pos v) = Some (v_pos w) /\ v_ref w = v_ref v /\ v_alt w = v_alt v) ppes l ->
    In w' l -> exists v', In v' ppes /\ r2a vs (v_pos v') = Some (v_pos w').
  Proof.
    intros HF. induction HF as [|v w ppes l (Hq & _ & _) HF IH]; intros Hw; [destruct Hw|].
    destruct Hw as [<-|Hw]; [exists v; split; [left; reflexivity | exact Hq]|].
    destruct (IH Hw) as (v' & Hv' & Hq'). exists v'. split; [right; exact Hv' | exact Hq'].
  Qed.

  Lemma lifted_NoDup ppes l : in_ctx ppes -> NoDup (map v_pos ppes) ->
    Forall2 (fun v w => r2a vs (v_pos v) = Some (v_pos w) /\ v_ref w = v_ref v /\ v_alt w = v_alt v) ppes l ->
    NoDup (map v_pos l).
  Proof.
    intros Hin Hnd HF. induction HF as [|v w ppes l (Hq & _ & _) HF IH]; [constructor|]. cbn [map] in *.
    apply NoDup_cons_iff in Hnd. destruct Hnd as (Hx & Hnd). constructor; [|apply IH; [intros x Hxin; apply Hin; right; exact Hxin | exact Hnd]].
    intros Hc. apply Hx. apply in_map_iff in Hc. destruct Hc as (w' & Ew & Hw').
    destruct (lifted_pos_in _ _ _ HF Hw') as (v' & Hv' & Hq').
    rewrite Ew in Hq'.
    assert (v_pos v' = v_pos v) as <-.
    { apply (r2a_injective (v_pos v') (v_pos v) (v_pos w)); try assumption; apply Hin; [right; exact Hv' | left; reflexivity]. }
    apply in_map. exact Hv'.
  Qed.

  (* pam_seq over the whole background context: the edit of a guide of the targeton is found at the image of its position when that image
     lies inside the lifted targeton, every other base is the background base *)
  Theorem ppe_seq_bg_exact start ctx_bg tr_alt ppes :
    in_ctx ppes -> (forall v, In v ppes -> is_snv v) -> NoDup (map v_pos ppes) ->
    (forall v, In v ppes -> deleted vs (v_pos v) = false) ->
    start <= rs tr_alt -> re tr_alt <= start + zlen ctx_bg - 1 ->
    exists l s, lift_ppes g ppes = Ok l /\ ppe_seq_bg g start ctx_bg tr_alt ppes = Ok s /\ zlen s = zlen ctx_bg /\
      Forall2 (fun v w => r2a vs (v_pos v) = Some (v_pos w) /\ v_ref w = v_ref v /\ v_alt w = v_alt v) ppes l /\
      forall q, start <= q < start + zlen ctx_bg ->
        znth (q - start) s = match (if in_range q tr_alt then edit_at l q else None) with
                             | Some x => Some x | None => znth (q - start) ctx_bg end.
  Proof.
    intros Hin Hsnv Hnd Hsurv Hlo Hhi.
    assert (exists l, lift_ppes g ppes = Ok l) as (l & Hl).
    { unfold lift_ppes. rewrite (check_liftable_iff g r vs _ Hr Hwf Hg).
      replace (existsb (fun p => in_range p r && deleted vs p) (map v_pos ppes)) with false.
      2:{ symmetry. apply not_true_iff_false. intros E. apply existsb_exists in E. destruct E as (p & Hp & Hpd).
          apply in_map_iff in Hp. destruct Hp as (v & <- & Hv). rewrite (Hsurv v Hv) in Hpd. lia. }
      cbn [bind]. clear Hnd Hsnv. induction ppes as [|v ppes IH]; [exists []; reflexivity|]. cbn [mapM].
      rewrite (ref_to_alt_refines g r vs Hwf Hg (v_pos v)) by (apply Hin; left; reflexivity). cbn [bind]. unfold r2a.
      rewrite (Hsurv v (or_introl eq_refl)). cbn [bind].
      destruct IH as (tl & Ht); [intros x Hx; apply Hin; right; exact Hx | intros x Hx; apply Hsurv; right; exact Hx|].
      rewrite Ht. cbn [bind]. eexists. reflexivity. }
    pose proof (lift_ppes_spec _ _ Hin Hl) as HF.
    assert (forall w, In w l -> is_snv w) as Hsnv'.
    { clear - HF Hsnv. induction HF as [|v w ppes l (_ & Hr' & Ha') HF IH]; intros x Hx; [destruct Hx|].
      destruct Hx as [<-|Hx]; [unfold is_snv in *; rewrite Hr', Ha'; apply Hsnv; left; reflexivity | apply IH; [intros y Hy; apply Hsnv; right; exact Hy | exact Hx]]. }
    destruct (ppe_seq_exact start ctx_bg tr_alt l Hsnv' (lifted_NoDup _ _ Hin Hnd HF) Hlo Hhi) as (s & Hs & Hlen & Hpt).
    exists l, s. split; [exact Hl|]. split; [unfold ppe_seq_bg; rewrite Hl; cbn [bind]; exact Hs|]. split; [exact Hlen|]. split; [exact HF | exact Hpt].
  Qed.
End Bg.
