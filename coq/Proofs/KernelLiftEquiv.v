(* The range / variant-statistics kernels translated from the source (Generated/KernelsLift.v) are the model's. *)
From VV Require Import Model.Base Model.Pattern Model.Transcript Model.Seq Model.Vcf Model.Gpo Generated.KernelsLift.
From Coq Require Import Lia ZifyBool.

Lemma kl_get_end_eq start len : kl_get_end start len = Ok (get_end start len).
Proof. reflexivity. Qed.

Theorem k_vs_alt_ref_delta_eq v : k_vs_alt_ref_delta v = Ok (delta v).
Proof. reflexivity. Qed.

Theorem k_vs_ref_end_eq v : k_vs_ref_end v = Ok (vref_end v).
Proof. reflexivity. Qed.

(* VarStats.is_in_range: the bounds test of clamp_var_stats_collection *)
Theorem k_vs_is_in_range_eq v r : k_vs_is_in_range v r = Ok (vs_in_range v r).
Proof.
  unfold k_vs_is_in_range, vs_in_range. rewrite k_vs_ref_end_eq. cbn [bind].
  destruct (in_range (vpos v) r); cbn [andb]; [|reflexivity].
  destruct (vrl v =? 0); cbn [orb bind]; reflexivity.
Qed.

(* UIntRange.overlaps / intersect: the clamping of a codon to its exon (Exon.get_codon) *)
Theorem k_range_overlaps_eq a b : k_range_overlaps a b = Ok (overlaps a b).
Proof. reflexivity. Qed.

Theorem k_range_intersect_eq a b :
  range_valid a = true -> range_valid b = true -> k_range_intersect a b = Ok (intersect a b).
Proof.
  unfold k_range_intersect, intersect, range_valid. intros Ha Hb. rewrite k_range_overlaps_eq. cbn [bind].
  destruct (overlaps a b) eqn:Eo; cbn [negb]; [|reflexivity].
  unfold mk_range.
  assert ((0 <=? Z.max (rs a) (rs b)) && (Z.max (rs a) (rs b) <=? Z.min (re a) (re b)) = true) as ->.
  { unfold overlaps, in_range, range_in, in_range in Eo. lia. }
  reflexivity.
Qed.

(* UIntRange.offset: Seq.get_rel_range *)
Theorem k_range_offset_eq r o : k_range_offset r o = (do x <- mk_range (rs r + o) (re r + o); Ok x).
Proof. reflexivity. Qed.
