(* The range / variant-statistics kernels translated from the source (Generated/KernelsLift.v) are the model's. *)
From VV Require Import Model.Base Model.Pattern Model.Transcript Model.Seq Model.Vcf Model.Gpo Generated.KernelsLift.
From Coq Require Import Lia ZifyBool.

Lemma kl_get_end_eq start len : kl_get_end start len = Ok (get_end start len).
Proof. reflexivity. Qed.

Theorem k_vs_alt_ref_delta_eq v : k_vs_alt_ref_delta v = Ok (delta v).
Proof. reflexivity. Qed.

Theorem k_vs_ref_end_eq v : k_vs_ref_end v = Ok (vref_end v).
Proof. reflexivity. Qed.

(* VarStats.is_in_range: the bounds test of clamp_var_stats_collection *)
Theorem k_vs_is_in_range_eq v r : k_vs_is_in_range v r = Ok (vs_in_range v r).
Proof.
  unfold k_vs_is_in_range, vs_in_range. rewrite k_vs_ref_end_eq. cbn [bind].
  destruct (in_range (vpos v) r); cbn [andb]; [|reflexivity].
  destruct (vrl v =? 0); cbn [orb bind]; reflexivity.
Qed.

(* UIntRange.overlaps / intersect: the clamping of a codon to its exon (Exon.get_codon) *)
Theorem k_range_overlaps_eq a b : k_range_overlaps a b = Ok (overlaps a b).
Proof. reflexivity. Qed.

Theorem k_range_intersect_eq a b :
  range_valid a = true -> range_valid b = true -> k_range_intersect a b = Ok (intersect a b).
Proof.
  unfold k_range_intersect, intersect, range_valid. intros Ha Hb. rewrite k_range_overlaps_eq. cbn [bind].
  destruct (overlaps a b) eqn:Eo; cbn [negb]; [|reflexivity].
  unfold mk_range.
  assert ((0 <=? Z.max (rs a) (rs b)) && (Z.max (rs a) (rs b) <=? Z.min (re a) (re b)) = true) as ->.
  { unfold overlaps, in_range, range_in, in_range in Eo. lia. }
  reflexivity.
Qed.

(* UIntRange.offset: Seq.get_rel_range *)
Theorem k_range_offset_eq r o : k_range_offset r o = (do x <- mk_range (rs r + o) (re r + o); Ok x).
Proof. reflexivity. Qed.

(* ---- Exon.get_codon / get_codon_at: the codon of an exon, clamped to it ---- *)
Lemma kl_exon_cds_prefix_length_eq e : kl_exon_cds_prefix_length e = cds_prefix_length e.
Proof. unfold kl_exon_cds_prefix_length, kl_exon_compl_frame, cds_prefix_length, kl_codon_offset_complement, compl_offset. now destruct (x_frame e =? 0), (x_frame e =? 1), (x_frame e =? 2). Qed.

Lemma kl_exon_first_codon_start_eq e s : kl_exon_first_codon_start e s = first_codon_start s e.
Proof. unfold kl_exon_first_codon_start, first_codon_start. rewrite kl_exon_cds_prefix_length_eq. reflexivity. Qed.

Lemma kl_exon_codon_index_at_eq e s pos : kl_exon_codon_index_at e s pos = codon_index_at s e pos.
Proof.
  unfold kl_exon_codon_index_at, codon_index_at. destruct (negb (in_range pos (x_range e))); [reflexivity|].
  rewrite kl_exon_first_codon_start_eq. destruct (first_codon_start s e); reflexivity.
Qed.

Lemma kl_get_codon_range_eq s origin ci : kl_get_codon_range s origin ci = codon_range s origin ci.
Proof.
  unfold kl_get_codon_range, codon_range. destruct (is_plus s).
  - replace (origin + 3 * ci + 2) with (origin + 3 * ci + 2) by ring. now destruct (mk_range _ _).
  - replace (origin - 3 * ci - 2) with (origin - 3 * ci - 2) by ring. now destruct (mk_range _ _).
Qed.

Lemma mk_range_valid a b r : mk_range a b = Ok r -> range_valid r = true.
Proof. unfold mk_range, range_valid. destruct ((0 <=? a) && (a <=? b)) eqn:E; [|discriminate]. intros H. injection H as <-. exact E. Qed.

Theorem k_exon_get_codon_eq e s ci : range_valid (x_range e) = true -> k_exon_get_codon e s ci = exon_get_codon s e ci.
Proof.
  intros Ve. unfold k_exon_get_codon, exon_get_codon. destruct (Z.ltb_spec ci 0) as [H|H]; [replace (0 <=? ci) with false by lia; reflexivity|].
  replace (0 <=? ci) with true by lia. rewrite kl_exon_first_codon_start_eq.
  destruct (first_codon_start s e) as [o|]; cbn [bind]; [|reflexivity].
  rewrite kl_get_codon_range_eq. destruct (codon_range s o ci) as [r|] eqn:Er; cbn [bind]; [|reflexivity].
  assert (range_valid r = true) as Vr.
  { unfold codon_range in Er. destruct (is_plus s); eapply mk_range_valid; exact Er. }
  rewrite (k_range_intersect_eq r (x_range e) Vr Ve). cbn [bind].
  destruct (intersect r (x_range e)) as [c|]; [|reflexivity]. destruct ((1 <=? rlen c) && (rlen c <=? 3)); reflexivity.
Qed.

Theorem k_exon_get_codon_at_eq e s pos : range_valid (x_range e) = true -> k_exon_get_codon_at e s pos = exon_get_codon_at s e pos.
Proof.
  intros Ve. unfold k_exon_get_codon_at, exon_get_codon_at. rewrite kl_exon_codon_index_at_eq.
  destruct (codon_index_at s e pos) as [[k|]|]; cbn [bind]; try reflexivity.
  rewrite (k_exon_get_codon_eq e s k Ve). destruct (exon_get_codon s e k); reflexivity.
Qed.

(* ---- Exon.get_codon_indices: the codon indices of the part of an exon a range covers ---- *)
From VV Require Import Model.PyLoop Model.CodonsInRange.

Lemma zrl_nil a b : b <= a -> zrange a b = [].
Proof. intros H. unfold zrange, py_range. replace (Z.to_nat (b - a)) with 0%nat by lia. reflexivity. Qed.
Lemma zrl_cons a b : a < b -> zrange a b = a :: zrange (a + 1) b.
Proof.
  intros H. unfold zrange, py_range. replace (Z.to_nat (b - a)) with (S (Z.to_nat (b - (a + 1)))) by lia.
  cbn [range_fuel]. rewrite (proj2 (Z.ltb_lt _ _) H). reflexivity.
Qed.
Lemma zrl_snoc a b : a <= b -> zrange a (b + 1) = zrange a b ++ [b].
Proof.
  intros H. remember (Z.to_nat (b - a)) as k eqn:Hk. revert a H Hk. induction k as [|k IH]; intros a H Hk.
  - assert (a = b) by lia. subst. rewrite zrl_cons by lia. rewrite !zrl_nil by lia. reflexivity.
  - rewrite (zrl_cons a (b + 1)) by lia. rewrite (zrl_cons a b) by lia. cbn [app]. f_equal. apply IH; lia.
Qed.

(* range(a, b, -1) is range(b + 1, a + 1) read backwards *)
Lemma py_range_down_rev a b : py_range_down a b = rev (zrange (b + 1) (a + 1)).
Proof.
  unfold py_range_down. fold (zrange (- a) (- b)).
  destruct (Z.le_gt_cases a b) as [H|H].
  - rewrite !zrl_nil by lia. reflexivity.
  - remember (Z.to_nat (a - b)) as k eqn:Hk. revert a H Hk. induction k as [|k IH]; intros a H Hk; [lia|].
    rewrite (zrl_cons (- a) (- b)) by lia. cbn [map]. replace (a + 1) with ((a - 1 + 1) + 1) by lia.
    rewrite zrl_snoc by lia. rewrite rev_app_distr. cbn [rev app]. f_equal; [lia|].
    destruct (Z.eq_dec (a - 1) b) as [E|E].
    + replace (- a + 1) with (- b) by lia. rewrite zrl_nil by lia. rewrite zrl_nil by lia. reflexivity.
    + replace (- a + 1) with (- (a - 1)) by lia. apply IH; lia.
Qed.

Theorem k_exon_get_codon_indices_eq e s r : range_valid (x_range e) = true -> range_valid r = true ->
  k_exon_get_codon_indices e s r = codon_indices s e r.
Proof.
  intros Ve Vr. unfold k_exon_get_codon_indices, codon_indices. rewrite (k_range_intersect_eq (x_range e) r Ve Vr). cbn [bind].
  destruct (intersect (x_range e) r) as [t|]; [|reflexivity].
  rewrite !kl_exon_codon_index_at_eq.
  destruct (codon_index_at s e (rs t)) as [[f|]|er]; cbn [bind]; try reflexivity.
  destruct (codon_index_at s e (re t)) as [[l|]|er]; cbn [bind]; try reflexivity.
  destruct (f <=? l); [reflexivity|]. f_equal. rewrite py_range_down_rev. now replace (l - 1 + 1) with l by lia.
Qed.
