(* The annotation kernels translated from the source on every run (Generated/KernelsAnnot.v, harness/pytrans.py) are, for
   all inputs, the hand-written model definitions the theorems are about. *)
From VV Require Import Model.Base Model.Pattern Model.Transcript Generated.KernelsAnnot Proofs.BaseLemmas.
From Coq Require Import ZifyBool.

Lemma Ok_inj_k {X} (x y : X) : Ok x = Ok y -> x = y.
Proof. congruence. Qed.

(* get_codon_range_offset: the codon of a position of the extended coding sequence, as AnnotVariant.annotate uses it *)
Theorem k_codon_range_offset_spec pos r co : 0 <= pos -> k_codon_range_offset pos = Ok (r, co) ->
  co = pos mod 3 /\ rs r = pos - pos mod 3 /\ re r = pos - pos mod 3 + 2.
Proof.
  intros Hp. unfold k_codon_range_offset, mk_range.
  destruct ((0 <=? pos - pos mod 3) && (pos - pos mod 3 <=? pos + (3 - pos mod 3) - 1)); [|discriminate]. cbn [bind].
  intros H. apply Ok_inj_k in H. apply pair_equal_spec in H. destruct H as [<- <-]. cbn [rs re]. repeat split; lia.
Qed.


(* CdsSeq.get_inner_cds_range: the in-frame part of a coding region, None when it holds no complete codon *)
Theorem k_cds_inner_range_eq c : k_cds_inner_range c = inner_cds_range c.
Proof.
  unfold k_cds_inner_range, inner_cds_range, k_cds_prefix_length, k_cds_suffix_length. cbn [bind].
  change (ka_codon_offset_complement (zlen (c_prefix c))) with (compl_offset (zlen (c_prefix c))).
  destruct (compl_offset (zlen (c_prefix c))) as [a|e]; cbn [bind]; [|reflexivity].
  change (ka_codon_offset_complement (zlen (c_suffix c))) with (compl_offset (zlen (c_suffix c))).
  destruct (compl_offset (zlen (c_suffix c))) as [b|e]; cbn [bind]; [|reflexivity].
  destruct (c_end c - b <? c_start c + a); [reflexivity|].
  destruct (mk_range (c_start c + a) (c_end c - b)) as [r|e]; cbn [bind]; reflexivity.
Qed.

(* CdsSeq.ext_start: the first position of the extended coding sequence.  The model reads the head of the prefix positions with a default;
   the source raises IndexError when there is a prefix without positions - equal whenever a prefix comes with its positions *)
From VV Require Import Model.PyLoop Model.CodonsInRange.
Theorem k_cds_ext_start_eq c : (c_prefix c = [] \/ c_prefix_pos c <> []) -> k_cds_ext_start c = Ok (ext_start c).
Proof.
  intros H. unfold k_cds_ext_start, ext_start. destruct (c_prefix c) as [|x p]; cbn [lempty negb bind]; [reflexivity|].
  destruct H as [H|H]; [discriminate|]. destruct (c_prefix_pos c) as [|y l]; [now elim H|]. reflexivity.
Qed.
