(* C07: pam_mut_sgrna_id of the model of v_meta is exactly the documented set, composed from the primary key of
   targeton_exon_codon_ppes, the codon slots and the range filter. *)
From VV Require Import Model.Base Model.Pattern Model.Views Model.Order Proofs.BaseLemmas Proofs.TargetonProofs Proofs.ViewsProofs Proofs.OrderProofs.
From Coq Require Import ZifyBool.

(* ---- what sql_insert_exon_codon_ppes leaves in targeton_exon_codon_ppes ---- *)
Definition ecp_of (exons : list exon_row) (t : tppe) : option ecp :=
  match exon_at exons (tp_start t) with
  | Some e => Some (mkEcp (tp_id t) (e_id e) (codon_index (e_fcs e) (tp_start t)))
  | None => None
  end.

Definition key_free (acc : list ecp) (x : ecp) : Prop :=
  forall y, In y acc -> ~ (ec_exon y = ec_exon x /\ ec_codon y = ec_codon x).

Lemma insert_ecps_spec exons : forall ts acc out,
  insert_ecps exons ts acc = Ok out ->
  (forall x, In x out <-> In x acc \/ exists t, In t ts /\ ecp_of exons t = Some x) /\
  (* primary key: rows coming from two list positions never share (exon, codon) *)
  (forall t x, In t ts -> ecp_of exons t = Some x -> key_free acc x) /\
  (forall ts1 t1 ts2 t2 ts3 x1 x2, ts = ts1 ++ t1 :: ts2 ++ t2 :: ts3 -> ecp_of exons t1 = Some x1 -> ecp_of exons t2 = Some x2 ->
     ~ (ec_exon x1 = ec_exon x2 /\ ec_codon x1 = ec_codon x2)).
Proof.
  induction ts as [|t ts IH]; intros acc out H; cbn [insert_ecps] in H.
  - injection H as <-. split; [|split].
    + intros x. split; [auto|]. intros [H|(t & [] & _)]. exact H.
    + intros t x [].
    + intros ts1 t1 ts2 t2 ts3 x1 x2 E. destruct ts1; discriminate.
  - destruct (exon_at exons (tp_start t)) as [e|] eqn:Ee.
    + match type of H with (if ?b then _ else _) = _ => destruct b eqn:Eb; [discriminate|] end.
      destruct (IH _ _ H) as (Hin & Hfree & Hpair).
      set (xt := mkEcp (tp_id t) (e_id e) (codon_index (e_fcs e) (tp_start t))) in *.
      assert (Hxt : ecp_of exons t = Some xt) by (unfold ecp_of; now rewrite Ee).
      assert (Hfree_t : key_free acc xt).
      { intros y Hy [A B]. assert (existsb (fun x => (ec_exon x =? e_id e) && (ec_codon x =? codon_index (e_fcs e) (tp_start t))) acc = true).
        { apply existsb_exists. exists y. split; [assumption|]. cbn [ec_exon ec_codon xt] in A, B. lia. }
        congruence. }
      split; [|split].
      * intros x. rewrite Hin, in_app_iff. cbn [In]. split.
        -- intros [[Ha|[<-|[]]]|(t' & Ht' & Hx)]; [left; assumption|right; exists t; split; [now left|assumption]|right; exists t'; split; [now right|assumption]].
        -- intros [Ha|(t' & [<-|Ht'] & Hx)]; [left; now left| |right; exists t'; auto].
           left. right. left. rewrite Hxt in Hx. now injection Hx.
      * intros t' x [<-|Ht'] Hx.
        -- rewrite Hxt in Hx. injection Hx as <-. exact Hfree_t.
        -- intros y Hy. apply (Hfree t' x Ht' Hx). apply in_app_iff. now left.
      * intros ts1 t1 ts2 t2 ts3 x1 x2 E Hx1 Hx2. destruct ts1 as [|t0 ts1]; cbn [app] in E; injection E as <- E.
        -- (* t1 = t: its row is in the accumulator when t2 is inserted *)
           rewrite Hxt in Hx1. injection Hx1 as <-.
           assert (Ht2 : In t2 ts) by (rewrite E; apply in_app_iff; right; now left).
           intros [A B]. apply (Hfree t2 x2 Ht2 Hx2 xt); [apply in_app_iff; right; now left|auto].
        -- apply (Hpair ts1 t1 ts2 t2 ts3 x1 x2 E Hx1 Hx2).
    + destruct (IH _ _ H) as (Hin & Hfree & Hpair). split; [|split].
      * intros x. rewrite Hin. split.
        -- intros [Ha|(t' & Ht' & Hx)]; [left; assumption|right; exists t'; split; [now right|assumption]].
        -- intros [Ha|(t' & [<-|Ht'] & Hx)]; [left; assumption| |right; exists t'; auto].
           unfold ecp_of in Hx. rewrite Ee in Hx. discriminate.
      * intros t' x [<-|Ht'] Hx; [unfold ecp_of in Hx; rewrite Ee in Hx; discriminate|]. now apply (Hfree t' x).
      * intros ts1 t1 ts2 t2 ts3 x1 x2 E Hx1 Hx2. destruct ts1 as [|t0 ts1]; cbn [app] in E; injection E as <- E.
        -- unfold ecp_of in Hx1. rewrite Ee in Hx1. discriminate.
        -- apply (Hpair ts1 t1 ts2 t2 ts3 x1 x2 E Hx1 Hx2).
Qed.

Lemma in_two_positions {X} (l : list X) a b : In a l -> In b l -> a <> b ->
  (exists l1 l2 l3, l = l1 ++ a :: l2 ++ b :: l3) \/ (exists l1 l2 l3, l = l1 ++ b :: l2 ++ a :: l3).
Proof.
  intros Ha Hb Hne. apply in_split in Ha. destruct Ha as (l1 & l2 & ->).
  apply in_app_iff in Hb. destruct Hb as [Hb|[Hb|Hb]]; [|congruence|].
  - apply in_split in Hb. destruct Hb as (m1 & m2 & ->). right. exists m1, m2, l2. now rewrite <- app_assoc.
  - apply in_split in Hb. destruct Hb as (m1 & m2 & ->). left. exists l1, m1, m2. reflexivity.
Qed.

Section SgrnaIds.
  Variables (exons : list exon_row) (ts : list tppe) (ecps : list ecp).
  Hypothesis Hwf : exons_wf exons.
  Hypothesis Hexid : forall e1 e2, In e1 exons -> In e2 exons -> e_id e1 = e_id e2 -> e1 = e2.     (* exons.id is a primary key *)
  Hypothesis Htid : forall t1 t2, In t1 ts -> In t2 ts -> tp_id t1 = tp_id t2 -> t1 = t2.          (* so is the edit id *)
  Hypothesis Hins : insert_ecps exons ts [] = Ok ecps.

  Let ps := map tp_start ts.
  Let slot := slot_of exons.

  Lemma slot_of_ecp t x : ecp_of exons t = Some x ->
    exists e, exon_at exons (tp_start t) = Some e /\ In e exons /\ x = mkEcp (tp_id t) (e_id e) (codon_index (e_fcs e) (tp_start t)) /\
              slot (tp_start t) = Some (e_index e, ec_codon x).
  Proof.
    unfold ecp_of, slot, slot_of. destruct (exon_at exons (tp_start t)) as [e|] eqn:E; [|discriminate]. intros H. injection H as <-.
    exists e. destruct (exon_at_Some _ _ _ E). repeat split; auto.
  Qed.

  (* at most one registered edit per codon slot *)
  Lemma pk_positions x y : In x ps -> In y ps -> slot x = slot y -> slot x <> None -> x = y.
  Proof.
    intros Hx Hy Hs Hn. unfold ps in *. apply in_map_iff in Hx, Hy. destruct Hx as (t1 & <- & H1). destruct Hy as (t2 & <- & H2).
    destruct (Z.eq_dec (tp_start t1) (tp_start t2)) as [|Hne]; [assumption|]. exfalso.
    assert (Hne' : t1 <> t2) by congruence.
    destruct (insert_ecps_spec _ _ _ _ Hins) as (_ & _ & Hpair).
    unfold slot, slot_of in Hs, Hn.
    destruct (exon_at exons (tp_start t1)) as [e1|] eqn:E1; [|congruence].
    destruct (exon_at exons (tp_start t2)) as [e2|] eqn:E2; [|discriminate]. injection Hs as Hi Hc.
    destruct (exon_at_Some _ _ _ E1) as [In1 _]. destruct (exon_at_Some _ _ _ E2) as [In2 _].
    pose proof Hwf as (_ & Hidx & _). assert (e1 = e2) by (apply Hidx; auto). subst e2.
    assert (Hx1 : ecp_of exons t1 = Some (mkEcp (tp_id t1) (e_id e1) (codon_index (e_fcs e1) (tp_start t1)))) by (unfold ecp_of; now rewrite E1).
    assert (Hx2 : ecp_of exons t2 = Some (mkEcp (tp_id t2) (e_id e1) (codon_index (e_fcs e1) (tp_start t2)))) by (unfold ecp_of; now rewrite E2).
    destruct (in_two_positions ts t1 t2 H1 H2 Hne') as [(l1 & l2 & l3 & E)|(l1 & l2 & l3 & E)].
    - apply (Hpair _ _ _ _ _ _ _ E Hx1 Hx2). cbn [ec_exon ec_codon]. auto.
    - apply (Hpair _ _ _ _ _ _ _ E Hx2 Hx1). cbn [ec_exon ec_codon]. auto.
  Qed.

  (* v_exon_codon_ppes: the edit registered for a codon slot *)
  Lemma ppe_of_codon_spec ei ci x :
    ppe_of_codon exons ts ecps ei ci = Some x <-> In x ps /\ slot x = Some (ei, ci).
  Proof.
    destruct (insert_ecps_spec _ _ _ _ Hins) as (Hin & _ & _).
    assert (Hrows : forall r, In r ecps <-> exists t, In t ts /\ ecp_of exons t = Some r).
    { intros r. rewrite Hin. split; [intros [[]|H]; exact H|intros H; now right]. }
    unfold ppe_of_codon.
    set (pred := fun x0 => match exon_by_id exons (ec_exon x0) with Some e => (e_index e =? ei) && (ec_codon x0 =? ci) | None => false end).
    assert (Hpred : forall r t, In t ts -> ecp_of exons t = Some r -> (pred r = true <-> slot (tp_start t) = Some (ei, ci))).
    { intros r t Ht Hr. destruct (slot_of_ecp _ _ Hr) as (e & Ee & Ine & -> & Hs). unfold pred. cbn [ec_exon ec_codon] in *.
      assert (Hby : exon_by_id exons (e_id e) = Some e).
      { unfold exon_by_id. destruct (find (fun e0 => e_id e0 =? e_id e) exons) as [e'|] eqn:F.
        - apply find_some in F. destruct F as [Ine' Hid]. f_equal. apply Hexid; auto. lia.
        - exfalso. apply (find_none _ _ F) in Ine. lia. }
      rewrite Hby, Hs. split.
      - intros Hb. apply andb_true_iff in Hb. destruct Hb as [A B]. f_equal. f_equal; lia.
      - intros Hq. injection Hq as -> ->. rewrite !Z.eqb_refl. reflexivity. }
    split.
    - destruct (find pred ecps) as [r|] eqn:F; [|discriminate]. apply find_some in F. destruct F as [Hr Hp].
      apply Hrows in Hr. destruct Hr as (t & Ht & Hr).
      assert (Hby : tppe_by_id ts (ec_ppe r) = Some t).
      { destruct (slot_of_ecp _ _ Hr) as (e & _ & _ & -> & _). cbn [ec_ppe]. unfold tppe_by_id.
        destruct (find (fun t0 => tp_id t0 =? tp_id t) ts) as [t'|] eqn:F.
        - apply find_some in F. destruct F as [Ht' Hid]. f_equal. apply Htid; auto. lia.
        - exfalso. apply (find_none _ _ F) in Ht. lia. }
      rewrite Hby. cbn [option_map]. intros H. injection H as <-. split; [unfold ps; apply in_map; assumption|].
      now apply (Hpred r t Ht Hr).
    - intros [Hx Hs]. unfold ps in Hx. apply in_map_iff in Hx. destruct Hx as (t & <- & Ht).
      assert (exists r, ecp_of exons t = Some r) as (r & Hr).
      { unfold ecp_of. unfold slot, slot_of in Hs. destruct (exon_at exons (tp_start t)); [eauto|discriminate]. }
      assert (Hr_in : In r ecps) by (apply Hrows; eauto).
      assert (Hpr : pred r = true) by (now apply (Hpred r t Ht Hr)).
      destruct (find pred ecps) as [r'|] eqn:F.
      2:{ apply (find_none _ _ F) in Hr_in. congruence. }
      apply find_some in F. destruct F as [Hr' Hp'].
      apply Hrows in Hr'. destruct Hr' as (t' & Ht' & Hr').
      assert (Hs' : slot (tp_start t') = Some (ei, ci)) by (now apply (Hpred r' t' Ht' Hr')).
      assert (Hby : tppe_by_id ts (ec_ppe r') = Some t').
      { destruct (slot_of_ecp _ _ Hr') as (e & _ & _ & -> & _). cbn [ec_ppe]. unfold tppe_by_id.
        destruct (find (fun t0 => tp_id t0 =? tp_id t') ts) as [t''|] eqn:F.
        - apply find_some in F. destruct F as [Ht'' Hid]. f_equal. apply Htid; auto. lia.
        - exfalso. apply (find_none _ _ F) in Ht'. lia. }
      rewrite Hby. cbn [option_map]. f_equal.
      apply pk_positions; [unfold ps; now apply in_map|unfold ps; now apply in_map|congruence|congruence].
  Qed.

  (* pam_mut_sgrna_id of a mutation at [start, start + len - 1]: exactly the distinct sgRNA ids of the applied edits spanned by the mutation or
     sharing a codon slot with its first or last base *)
  Theorem v_meta_sgrna_ids_spec start len id :
    let j := v_meta_join exons ts ecps start len in
    In id (j_sgrna_ids j) <->
    exists t, In t ts /\ tp_sgrna t = id /\ selected _ slot start (j_ref_end j) (tp_start t).
  Proof.
    cbv zeta. unfold v_meta_join. cbn [j_sgrna_ids j_ref_end].
    set (end_ := start + Z.max 0 (len - 1)).
    set (sp := match exon_at exons start, option_map (fun e => codon_index (e_fcs e) start) (exon_at exons start) with
               | Some e, Some c => ppe_of_codon exons ts ecps (e_index e) c | _, _ => None end).
    set (ep := match exon_at exons end_, option_map (fun e => codon_index (e_fcs e) end_) (exon_at exons end_) with
               | Some e, Some c => ppe_of_codon exons ts ecps (e_index e) c | _, _ => None end).
    assert (Hsp : forall x, sp = Some x <-> In x ps /\ slot x = slot start /\ slot start <> None).
    { intros x. unfold sp, slot at 2 3, slot_of. destruct (exon_at exons start) as [e|]; cbn [option_map].
      - rewrite ppe_of_codon_spec. split; [intros [A B]; repeat split; auto; discriminate|intros (A & B & _); auto].
      - split; [discriminate|intros (_ & _ & C); congruence]. }
    assert (Hep : forall x, ep = Some x <-> In x ps /\ slot x = slot end_ /\ slot end_ <> None).
    { intros x. unfold ep, slot at 2 3, slot_of. destruct (exon_at exons end_) as [e|]; cbn [option_map].
      - rewrite ppe_of_codon_spec. split; [intros [A B]; repeat split; auto; discriminate|intros (A & B & _); auto].
      - split; [discriminate|intros (_ & _ & C); congruence]. }
    assert (Hse : start <= end_) by (unfold end_; lia).
    pose proof (range_filter_is_spec _ slot ps start end_ sp ep (slots_contiguous exons Hwf) pk_positions Hsp Hep Hse) as Hrf.
    change (match sp with Some x => x | None => start end) with (lo start sp).
    change (match ep with Some x => x | None => end_ end) with (hi end_ ep).
    rewrite sort_dedup_In, in_map_iff. split.
    - intros (t & <- & Ht). apply filter_In in Ht. destruct Ht as [Ht Hb]. exists t. repeat split; auto.
      apply Hrf; [unfold ps; now apply in_map|lia].
    - intros (t & Ht & <- & Hsel). exists t. split; [reflexivity|]. apply filter_In. split; [assumption|].
      apply Hrf in Hsel; [lia|unfold ps; now apply in_map].
  Qed.
End SgrnaIds.

(* non-vacuity: two exons on the plus strand, three registered edits (two of sgA in one exon, one of sgB in the other) *)
Example sgrna_ids_example :
  let exons := [mkExon 1 10 18 0 10; mkExon 2 30 38 1 30] in
  let ts := [mkTppe 1 12 12 "sgA"; mkTppe 2 17 17 "sgA"; mkTppe 3 31 31 "sgB"] in
  match insert_ecps exons ts [] with
  | Ok ecps => j_sgrna_ids (v_meta_join exons ts ecps 10 1) = ["sgA"]%string /\       (* shares the codon [10,12] with the edit at 12 *)
               j_sgrna_ids (v_meta_join exons ts ecps 13 1) = [] /\                    (* codon [13,15]: no edit *)
               j_sgrna_ids (v_meta_join exons ts ecps 14 20) = ["sgA"; "sgB"]%string    (* spans 17, and 33 shares the codon of 31 *)
  | Err _ => False
  end.
Proof. vm_compute. auto. Qed.
