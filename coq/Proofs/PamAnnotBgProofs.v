(* pam_mut_annot under background variants: the reference codon is read in the annotated transcript on the reference, the protected codon in
   the lifted transcript on the background sequence, each at its own position *)
From VV Require Import Model.Base Model.Pattern Model.CodonTable Model.Transcript Model.PamAnnot Proofs.BaseLemmas Proofs.CodonProofs Proofs.AnnotWalkProofs Proofs.PamAnnotProofs.
From Coq Require Import Lia ZifyBool.

Lemma codon_at_walk t q p c : get_codon_at t q p = Ok (Some c) -> covers q t ->
  exists e r, exon_at_pos t p = Some e /\ exon_get_codon_at (t_strand t) e p = Ok (Some r) /\ get_cds_seq_exon t q e r = Ok c /\
    In p (walk_segment c r) /\ seq_get_at q (walk_segment c r) = Ok (c_ext c).
Proof.
  intros Hc Cv. apply get_codon_at_some in Hc. destruct Hc as (e & r & He & Hr & Hin & Hcs).
  pose proof (exon_get_codon_at_bounds _ _ _ _ Hr) as (Hb1 & Hb2 & Hb3).
  assert (In e (t_exons t)) as Hine by (unfold exon_at_pos in He; apply find_some in He; tauto).
  destruct (Cv e Hine) as (Hp & H1 & H2).
  pose proof (ext_is_walk_bases t q e r c Hcs ltac:(lia) ltac:(lia) ltac:(lia)) as (W & _).
  exists e, r. repeat split; try assumption.
  unfold walk_segment. apply in_or_app. right. apply in_or_app. left. apply in_positions. exact Hin.
Qed.

Theorem pam_annot_bg_is_walk_translation tb t_ref t_alt q_ref q_alt p_ref p_alt m :
  ppe_mut_type tb t_ref t_alt q_ref q_alt p_ref p_alt = Ok m -> covers q_ref t_ref -> covers q_alt t_alt ->
  exists e_r r_r c_r e_a r_a c_a a_ref a_alt,
    exon_at_pos t_ref p_ref = Some e_r /\ exon_get_codon_at (t_strand t_ref) e_r p_ref = Ok (Some r_r) /\ get_cds_seq_exon t_ref q_ref e_r r_r = Ok c_r /\
    exon_at_pos t_alt p_alt = Some e_a /\ exon_get_codon_at (t_strand t_alt) e_a p_alt = Ok (Some r_a) /\ get_cds_seq_exon t_alt q_alt e_a r_a = Ok c_a /\
    zlen (walk_segment c_r r_r) = 3 /\ In p_ref (walk_segment c_r r_r) /\ seq_get_at q_ref (walk_segment c_r r_r) = Ok (c_ext c_r) /\
    zlen (walk_segment c_a r_a) = 3 /\ In p_alt (walk_segment c_a r_a) /\ seq_get_at q_alt (walk_segment c_a r_a) = Ok (c_ext c_a) /\
    translate tb (c_ext c_r) = Ok a_ref /\ translate tb (c_ext c_a) = Ok a_alt /\ m = aa_change a_ref a_alt.
Proof.
  unfold ppe_mut_type. intros H Cr Ca.
  destruct (get_codon_at t_alt q_alt p_alt) as [[ca|]|] eqn:Ea; cbn [bind] in H; try discriminate.
  unfold as_codon in H at 1. destruct (zlen (c_ext ca) =? 3) eqn:La; cbn [bind] in H; [|discriminate].
  destruct (get_codon_at t_ref q_ref p_ref) as [[cr|]|] eqn:Er; cbn [bind] in H; try discriminate.
  unfold as_codon in H. destruct (zlen (c_ext cr) =? 3) eqn:Lr; cbn [bind] in H; [|discriminate].
  unfold get_aa_change in H.
  destruct (translate tb (c_ext cr)) as [a_ref|] eqn:Tr; cbn [bind] in H; [|discriminate].
  destruct (translate tb (c_ext ca)) as [a_alt|] eqn:Ta; cbn [bind] in H; [|discriminate].
  inversion H; subst m; clear H.
  destruct (codon_at_walk _ _ _ _ Er Cr) as (e_r & r_r & H1 & H2 & H3 & H4 & H5).
  destruct (codon_at_walk _ _ _ _ Ea Ca) as (e_a & r_a & G1 & G2 & G3 & G4 & G5).
  exists e_r, r_r, cr, e_a, r_a, ca, a_ref, a_alt. repeat split; try assumption.
  - pose proof (mapM_length _ _ _ H5) as HL. unfold zlen in *. rewrite <- HL. lia.
  - pose proof (mapM_length _ _ _ G5) as HL. unfold zlen in *. rewrite <- HL. lia.
Qed.
