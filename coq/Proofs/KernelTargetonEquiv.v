(* The targeton-region kernels translated from the source on every run (Generated/KernelsTargeton.v, harness/pytrans.py) are, for
   all inputs, the hand-written model definitions of Model/Targeton.v that the C18 / C19 theorems are about. *)
From VV Require Import Model.Base Model.Targeton Generated.KernelsTargeton.

Theorem k_range_get_before_eq r n : k_range_get_before r n = get_before r n.
Proof. unfold k_range_get_before, get_before. destruct (0 <? n); [now destruct (mk_range _ _)|reflexivity]. Qed.
Theorem k_range_get_after_eq r n : k_range_get_after r n = get_after r n.
Proof. unfold k_range_get_after, get_after. destruct (0 <? n); [now destruct (mk_range _ _)|reflexivity]. Qed.

Theorem k_targeton_post_init_eq c : k_targeton_post_init c = validate c.
Proof. reflexivity. Qed.

Theorem k_targeton_region_1_eq c : k_targeton_region_1 c = get_region_1 c.
Proof. unfold k_targeton_region_1, get_region_1. now rewrite k_range_get_before_eq. Qed.
Theorem k_targeton_region_3_eq c : k_targeton_region_3 c = get_region_3 c.
Proof. unfold k_targeton_region_3, get_region_3. now rewrite k_range_get_after_eq. Qed.

Theorem k_targeton_const_1_eq c : k_targeton_const_1 c = get_const_1 c.
Proof. unfold k_targeton_const_1, get_const_1. now rewrite k_targeton_region_1_eq. Qed.
Theorem k_targeton_const_2_eq c : k_targeton_const_2 c = get_const_2 c.
Proof. unfold k_targeton_const_2, get_const_2. now rewrite k_targeton_region_3_eq. Qed.
