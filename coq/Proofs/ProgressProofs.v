(* C19, converse at the region stage: Transcript._get_cds_seq never fails on a well-formed input. *)
From VV Require Import Model.Base Model.Pattern Model.Seq Model.CodonTable Model.Transcript Model.Mutators Model.Refusal Spec.CodonSpec
  Proofs.BaseLemmas Proofs.PatternProofs Proofs.CodonProofs Proofs.AnnotProofs Proofs.AnnotWalkProofs Proofs.RefusalProofs.
From Coq Require Import ZifyBool Sorting.Sorted.
Ltac Zify.zify_post_hook ::= Z.to_euclidean_division_equations.

Definition total_len (l : list exon) : Z := fold_right (fun e a => x_len e + a) 0 l.
Definition exons_sorted (exons : list exon) : Prop := StronglySorted (fun a b => x_end a < x_start b) exons.
Definition exons_nonempty (exons : list exon) : Prop := forall e, In e exons -> x_start e <= x_end e.
Definition seq_covers (q : seq) (exons : list exon) : Prop := forall e, In e exons -> s_start q <= x_start e /\ x_end e < s_start q + s_len q.

Definition all_lt (l : list Z) (b : Z) : Prop := forall x, In x l -> x < b.
Definition all_ge (l : list Z) (b : Z) : Prop := forall x, In x l -> b <= x.

Lemma ascending_cons x l : ascending (x :: l) = true <-> all_ge l (x + 1) /\ ascending l = true.
Proof.
  revert x. induction l as [|y l IH]; intros x; cbn [ascending]; [split; [intros _; split; [intros ? []|reflexivity]|reflexivity]|].
  rewrite andb_true_iff. split.
  - intros [H1 H2]. split; [|exact H2]. apply IH in H2. destruct H2 as [H2 _]. intros z [<-|Hz]; [lia|]. specialize (H2 z Hz). lia.
  - intros [H1 H2]. split; [|exact H2]. specialize (H1 y (or_introl eq_refl)). lia.
Qed.

Lemma ascending_app a : forall b, ascending a = true -> ascending b = true -> (forall x y, In x a -> In y b -> x < y) -> ascending (a ++ b) = true.
Proof.
  induction a as [|x a IH]; intros b Ha Hb Hab; [exact Hb|]. cbn [app]. apply ascending_cons. apply ascending_cons in Ha. destruct Ha as [Hge Ha].
  split.
  - intros z Hz. apply in_app_or in Hz. destruct Hz as [Hz|Hz]; [now apply Hge|]. specialize (Hab x z (or_introl eq_refl) Hz). lia.
  - apply IH; auto. intros u v Hu Hv. apply Hab; [now right|assumption].
Qed.

Lemma sorted_ascending l : StronglySorted Z.lt l -> ascending l = true.
Proof.
  induction 1 as [|x l Hs IH Hf]; [reflexivity|]. apply ascending_cons. split; [|exact IH].
  intros z Hz. rewrite Forall_forall in Hf. specialize (Hf z Hz). lia.
Qed.
Lemma ascending_zrange a b : ascending (zrange a b) = true.
Proof. apply sorted_ascending. unfold zrange. apply py_range_sorted. lia. Qed.

Lemma total_len_nonneg l : (forall p, In p l -> x_start p <= x_end p) -> 0 <= total_len l.
Proof.
  induction l as [|p l IH]; intros H; cbn [total_len fold_right]; [lia|]. fold (total_len l).
  assert (x_start p <= x_end p) by (apply H; now left). unfold x_len. assert (0 <= total_len l) by (apply IH; intros; apply H; now right). lia.
Qed.

(* the distal part of get_before: enough bases in the preceding exons -> succeeds, right length, ascending, inside those exons *)
Lemma take_before_total prevs : forall n,
  StronglySorted (fun a b => x_end b < x_start a) prevs -> (forall p, In p prevs -> x_start p <= x_end p) -> n <= total_len prevs ->
  exists l, take_before prevs n = Ok l /\ zlen l = Z.max 0 n /\ ascending l = true /\
            (forall x, In x l -> exists p, In p prevs /\ x_start p <= x <= x_end p).
Proof.
  induction prevs as [|p ps IH]; intros n Hs Hne Hn; cbn [take_before total_len fold_right] in *.
  - replace (n <=? 0) with true by lia. exists []. repeat split; auto; [cbn; lia|intros ? []].
  - destruct (n <=? 0) eqn:E; [exists []; repeat split; auto; [cbn; lia|intros ? []]|].
    inversion Hs as [|? ? Hs' Hf]; subst. rewrite Forall_forall in Hf.
    assert (Hp : x_start p <= x_end p) by (apply Hne; now left).
    assert (Hlen : x_len p = x_end p - x_start p + 1) by reflexivity.
    set (k := Z.min n (x_len p)).
    destruct (IH (n - k) Hs') as (rest & -> & Hl & Hasc & Hin); [intros; apply Hne; now right|fold (total_len ps) in Hn; assert (0 <= total_len ps) by (apply total_len_nonneg; intros; apply Hne; now right); unfold k; lia|].
    cbn [bind]. eexists. split; [reflexivity|]. repeat split.
    + rewrite zlen_app, Hl, zrange_length by (unfold k; lia). unfold k. lia.
    + apply ascending_app; [assumption|apply ascending_zrange|]. intros x y Hx Hy. apply Hin in Hx. destruct Hx as (p' & Hp' & Hr).
      apply zrange_In in Hy. specialize (Hf p' Hp'). unfold k in *. lia.
    + intros x Hx. apply in_app_or in Hx. destruct Hx as [Hx|Hx].
      * destruct (Hin x Hx) as (p' & Hp' & Hr). exists p'. split; [now right|assumption].
      * apply zrange_In in Hx. exists p. split; [now left|unfold k in *; lia].
Qed.

Lemma take_after_total nexts : forall n,
  StronglySorted (fun a b => x_end a < x_start b) nexts -> (forall p, In p nexts -> x_start p <= x_end p) -> n <= total_len nexts ->
  exists l, take_after nexts n = Ok l /\ zlen l = Z.max 0 n /\ ascending l = true /\
            (forall x, In x l -> exists p, In p nexts /\ x_start p <= x <= x_end p).
Proof.
  induction nexts as [|p ps IH]; intros n Hs Hne Hn; cbn [take_after total_len fold_right] in *.
  - replace (n <=? 0) with true by lia. exists []. repeat split; auto; [cbn; lia|intros ? []].
  - destruct (n <=? 0) eqn:E; [exists []; repeat split; auto; [cbn; lia|intros ? []]|].
    inversion Hs as [|? ? Hs' Hf]; subst. rewrite Forall_forall in Hf.
    assert (Hp : x_start p <= x_end p) by (apply Hne; now left).
    assert (Hlen : x_len p = x_end p - x_start p + 1) by reflexivity.
    set (k := Z.min n (x_len p)).
    destruct (IH (n - k) Hs') as (rest & -> & Hl & Hasc & Hin); [intros; apply Hne; now right|fold (total_len ps) in Hn; assert (0 <= total_len ps) by (apply total_len_nonneg; intros; apply Hne; now right); unfold k; lia|].
    cbn [bind]. eexists. split; [reflexivity|]. repeat split.
    + rewrite zlen_app, Hl, zrange_length by (unfold k; lia). unfold k. lia.
    + apply ascending_app; [apply ascending_zrange|assumption|]. intros x y Hx Hy. apply Hin in Hy. destruct Hy as (p' & Hp' & Hr).
      apply zrange_In in Hx. specialize (Hf p' Hp'). unfold k in *. lia.
    + intros x Hx. apply in_app_or in Hx. destruct Hx as [Hx|Hx].
      * apply zrange_In in Hx. exists p. split; [now left|unfold k in *; lia].
      * destruct (Hin x Hx) as (p' & Hp' & Hr). exists p'. split; [now right|assumption].
Qed.

Lemma seq_get_at_total q l : (forall x, In x l -> s_start q <= x < s_start q + s_len q) -> exists b, seq_get_at q l = Ok b.
Proof.
  unfold seq_get_at. induction l as [|x l IH]; intros H; cbn [mapM]; [eexists; reflexivity|].
  assert (Hx := H x (or_introl eq_refl)). replace (x - s_start q <? 0) with false by lia.
  destruct (znth_lt_Some (x - s_start q) (s_bases q)) as [y ->]; [unfold s_len in Hx; lia|]. cbn [bind].
  destruct IH as [b ->]; [intros; apply H; now right|]. cbn [bind]. eexists; reflexivity.
Qed.

Lemma sorted_app_inv {X} (R : X -> X -> Prop) a b :
  StronglySorted R (a ++ b) -> StronglySorted R a /\ StronglySorted R b /\ (forall x y, In x a -> In y b -> R x y).
Proof.
  induction a as [|x a IH]; cbn [app]; intros H; [repeat split; [constructor|assumption|intros ? ? []]|].
  inversion H as [|? ? Hs Hf]; subst. destruct (IH Hs) as (Ha & Hb & Hab). rewrite Forall_forall in Hf. repeat split; auto.
  - constructor; [assumption|]. apply Forall_forall. intros y Hy. apply Hf. apply in_or_app. now left.
  - intros u v [<-|Hu] Hv; [apply Hf; apply in_or_app; now right|now apply Hab].
Qed.

Lemma sorted_rev {X} (R : X -> X -> Prop) l : StronglySorted R l -> StronglySorted (fun a b => R b a) (rev l).
Proof.
  induction 1 as [|x l Hs IH Hf]; cbn [rev]; [constructor|]. rewrite Forall_forall in Hf.
  assert (Hgen : forall a b, StronglySorted (fun a b => R b a) a -> StronglySorted (fun a b => R b a) b -> (forall u v, In u a -> In v b -> R v u) ->
                 StronglySorted (fun a b => R b a) (a ++ b)).
  { clear. induction a as [|u a IHa]; intros b Ha Hb Hab; [exact Hb|]. cbn [app]. inversion Ha as [|? ? Hs Hf]; subst.
    constructor; [apply IHa; auto; intros; apply Hab; [now right|assumption]|].
    apply Forall_forall. intros v Hv. apply in_app_or in Hv. destruct Hv as [Hv|Hv]; [rewrite Forall_forall in Hf; now apply Hf|apply Hab; [now left|assumption]]. }
  apply Hgen; [assumption|repeat constructor|]. intros u v Hu [<-|[]]. apply Hf. now apply in_rev.
Qed.

(* Transcript._get_cds_seq succeeds on every well-formed input: exons sorted and disjoint, the sequence covering them, the region
   inside its exon, and the codons at both ends of the region complete within the transcript (not cut by its start or end) *)
Theorem get_cds_seq_exon_total t q e r i :
  exons_sorted (t_exons t) -> exons_nonempty (t_exons t) -> seq_covers q (t_exons t) ->
  exon_list_index t (x_index e) = Ok i -> znth i (t_exons t) = Some e -> 0 <= x_frame e <= 2 ->
  0 <= rs r -> rs r <= re r -> inside_exon e r ->
  (forall b a, range_cds_exts (t_strand t) e r = Ok (b, a) ->
     b - (rs r - x_start e) <= total_len (zfirstn i (t_exons t)) /\ a - (x_end e - re r) <= total_len (zskipn (i + 1) (t_exons t))) ->
  exists c, get_cds_seq_exon t q e r = Ok c.
Proof.
  intros Hsort Hne Hcov Hidx Hi Hfr Hr0 Hr Hins Hcut. unfold inside_exon in Hins.
  pose proof (znth_split _ _ _ Hi) as Hsplit.
  assert (Hine : In e (t_exons t)) by (rewrite Hsplit; apply in_or_app; right; now left).
  unfold exons_sorted in Hsort. rewrite Hsplit in Hsort. apply sorted_app_inv in Hsort. destruct Hsort as (Hs1 & Hs2 & H12).
  inversion Hs2 as [|? ? Hs3 Hf3]; subst. rewrite Forall_forall in Hf3.
  assert (Hprev_in : forall p, In p (zfirstn i (t_exons t)) -> In p (t_exons t)) by (intros p Hp; unfold zfirstn in Hp; eapply firstn_In'; eauto).
  assert (Hnext_in : forall p, In p (zskipn (i + 1) (t_exons t)) -> In p (t_exons t)) by (intros p Hp; unfold zskipn in Hp; eapply skipn_In; eauto).
  unfold get_cds_seq_exon.
  replace (range_in r (x_range e)) with true by (symmetry; unfold range_in, in_range, x_range; cbn [rs re]; lia). cbn [negb].
  (* extension lengths *)
  destruct (range_cds_exts (t_strand t) e r) as [[before after]|] eqn:Ex.
  2:{ exfalso. unfold range_cds_exts, cds_prefix_length in Ex. destruct (t_strand t); cbn [is_plus] in Ex.
      all: match type of Ex with (if ?c then _ else _) = _ => replace c with false in Ex by lia end.
      all: unfold compl_offset in Ex; destruct (Z.eqb_spec (x_frame e) 0); [discriminate|]; destruct (Z.eqb_spec (x_frame e) 1); [discriminate|];
           destruct (Z.eqb_spec (x_frame e) 2); [discriminate|]; lia. }
  cbn [bind]. rewrite Hidx. cbn [bind].
  destruct (Hcut _ _ eq_refl) as [Hcb Hca]. pose proof (range_cds_exts_ok _ _ _ _ _ Ex) as (_ & Hb & Ha & Hmod).
  (* before *)
  assert (Hbefore : exists bp, get_before (t_exons t) i r before = Ok bp /\ zlen bp = before /\ ascending bp = true /\
                               forall x, In x bp -> s_start q <= x < s_start q + s_len q).
  { unfold get_before. rewrite Hi. pose proof (znth_Some_lt _ _ _ Hi) as [Hi0 _].
    replace ((i <? 0) || (before <? 0)) with false by lia.
    destruct (Z.eqb_spec before 0) as [->|Hb0]; [exists []; repeat split; auto; try (intros ? []); try (intros ? ? []); try contradiction|].
    destruct (Hcov e Hine) as [Hc1 Hc2].
    destruct (before <=? rs r - x_start e) eqn:El.
    - eexists. split; [reflexivity|]. repeat split; [rewrite zrange_length; lia|apply ascending_zrange|apply zrange_In in H; lia|apply zrange_In in H; lia].
    - assert (Hi1 : 0 < i).
      { destruct (Z.eq_dec i 0) as [->|]; [|lia]. unfold zfirstn in Hcb. cbn in Hcb. lia. }
      replace (0 <? i) with true by lia. cbn [negb].
      destruct (take_before_total (rev (zfirstn i (t_exons t))) (before - (rs r - x_start e))) as (dl & -> & Hl & Hasc & Hin).
      + now apply sorted_rev.
      + intros p Hp. apply in_rev in Hp. apply Hne. now apply Hprev_in.
      + clear -Hcb. assert (Hrev : forall l, total_len (rev l) = total_len l).
        { induction l as [|x l IH]; [reflexivity|]. cbn [rev]. unfold total_len in *. rewrite fold_right_app. cbn [fold_right].
          rewrite <- IH. clear. generalize (rev l) as m. induction m as [|y m IHm]; cbn [fold_right]; [lia|]. rewrite IHm. lia. }
        rewrite Hrev. exact Hcb.
      + cbn [bind]. eexists. split; [reflexivity|]. repeat split.
        * rewrite zlen_app, Hl, zrange_length by lia. lia.
        * apply ascending_app; [assumption|apply ascending_zrange|]. intros x y Hx Hy. apply Hin in Hx. destruct Hx as (p & Hp & Hpr).
          apply in_rev in Hp. apply zrange_In in Hy. specialize (H12 p e Hp (or_introl eq_refl)). cbn in H12. lia.
        * apply in_app_or in H. destruct H as [H|H]; [|apply zrange_In in H; lia].
          apply Hin in H. destruct H as (p & Hp & Hpr). apply in_rev in Hp. destruct (Hcov p (Hprev_in _ Hp)). lia.
        * apply in_app_or in H. destruct H as [H|H]; [|apply zrange_In in H; lia].
          apply Hin in H. destruct H as (p & Hp & Hpr). apply in_rev in Hp. destruct (Hcov p (Hprev_in _ Hp)). lia. }
  destruct Hbefore as (bp & -> & Hlb & Hab & Hbr). cbn [bind].
  (* after *)
  assert (Hafter : exists ap, get_after (t_exons t) i r after = Ok ap /\ zlen ap = after /\ ascending ap = true /\
                              forall x, In x ap -> s_start q <= x < s_start q + s_len q).
  { unfold get_after. rewrite Hi. pose proof (znth_Some_lt _ _ _ Hi) as [Hi0 Hi1].
    replace ((i <? 0) || (after <? 0)) with false by lia.
    destruct (Z.eqb_spec after 0) as [->|Ha0]; [exists []; repeat split; auto; try (intros ? []); try (intros ? ? []); try contradiction|].
    destruct (Hcov e Hine) as [Hc1 Hc2].
    destruct (after <=? x_end e - re r) eqn:El.
    - eexists. split; [reflexivity|]. repeat split; [rewrite zrange_length; lia|apply ascending_zrange|apply zrange_In in H; lia|apply zrange_In in H; lia].
    - assert (Hlast : i < zlen (t_exons t) - 1).
      { destruct (Z_lt_le_dec i (zlen (t_exons t) - 1)) as [|Hge]; [assumption|]. exfalso.
        assert (zskipn (i + 1) (t_exons t) = []) as Hnil.
        { unfold zskipn, zlen in *. apply skipn_all2. lia. }
        rewrite Hnil in Hca. cbn in Hca. lia. }
      replace (i <? zlen (t_exons t) - 1) with true by lia. cbn [negb].
      destruct (take_after_total (zskipn (i + 1) (t_exons t)) (after - (x_end e - re r))) as (dl & -> & Hl & Hasc & Hin).
      + exact Hs3.
      + intros p Hp. apply Hne. now apply Hnext_in.
      + exact Hca.
      + cbn [bind]. eexists. split; [reflexivity|].
        assert (Hloc : forall x, In x (if 0 <? x_end e - re r then zrange (x_end e - (x_end e - re r) + 1) (x_end e + 1) else []) -> re r < x <= x_end e).
        { intros x Hx. destruct (0 <? x_end e - re r); [apply zrange_In in Hx; lia|destruct Hx]. }
        repeat split.
        * rewrite zlen_app, Hl. destruct (0 <? x_end e - re r) eqn:E0; [rewrite zrange_length by lia; lia|cbn; lia].
        * apply ascending_app; [destruct (0 <? x_end e - re r); [apply ascending_zrange|reflexivity]|assumption|].
          intros x y Hx Hy. apply Hloc in Hx. apply Hin in Hy. destruct Hy as (p & Hp & Hpr). specialize (Hf3 p Hp). lia.
        * apply in_app_or in H. destruct H as [H|H]; [apply Hloc in H; lia|].
          apply Hin in H. destruct H as (p & Hp & Hpr). destruct (Hcov p (Hnext_in _ Hp)). lia.
        * apply in_app_or in H. destruct H as [H|H]; [apply Hloc in H; lia|].
          apply Hin in H. destruct H as (p & Hp & Hpr). destruct (Hcov p (Hnext_in _ Hp)). lia. }
  destruct Hafter as (ap & -> & Hla & Haa & Har). cbn [bind].
  replace ((zlen bp =? before) && (zlen ap =? after)) with true by lia. cbn [negb].
  (* the sequences *)
  destruct (Hcov e Hine) as [Hc1 Hc2].
  assert (Hsub : exists main, substr q r = Ok main /\ zlen main = rlen r).
  { unfold substr, mk_range. replace ((0 <=? rs r - s_start q) && (rs r - s_start q <=? re r - s_start q)) with true by lia. cbn [bind rs re].
    eexists. split; [reflexivity|]. unfold s_len in *. rewrite py_slice_length_in; unfold rlen; lia. }
  destruct Hsub as (main & -> & Hlm). cbn [bind].
  destruct (seq_get_at_total q bp Hbr) as [pre Hpre]. destruct (seq_get_at_total q ap Har) as [suf Hsuf].
  rewrite Hpre, Hsuf. cbn [bind].
  pose proof (seq_get_at_length _ _ _ Hpre) as Hlp. pose proof (seq_get_at_length _ _ _ Hsuf) as Hls.
  match goal with |- exists c, (if negb ?b then _ else _) = _ => replace b with true; [cbn [negb]; eexists; reflexivity|] end.
  symmetry. rewrite Hab, Haa, !andb_true_r. unfold c_ext_length, c_len. cbn [c_prefix c_suffix c_bases].
  apply Z.eqb_eq. unfold rlen in Hlm. destruct (t_strand t); cbn [is_plus] in Hmod; lia.
Qed.
