(* C14: mirror lemmas - each strand branch of the exon algebra, the codon selection, the table lookups and the splice commute with mirroring. *)
From VV Require Import Model.Base Model.Pattern Model.Seq Model.CodonTable Model.Transcript Model.Mirror Spec.CodonSpec Proofs.BaseLemmas Proofs.CodonTableProofs Proofs.CodonProofs.
From Coq Require Import ZifyBool.
Ltac Zify.zify_post_hook ::= Z.to_euclidean_division_equations.

Lemma flip_involutive s : flip (flip s) = s.
Proof. now destruct s. Qed.
Lemma mpos_involutive n p : mpos n (mpos n p) = p.
Proof. unfold mpos. ring. Qed.

(* prefix and suffix lengths swap, nothing else changes *)
Theorem exon_mirror n s e r :
  range_cds_exts (flip s) (mirror_exon n e) (mirror_range n r) = swap_res (range_cds_exts s e r).
Proof.
  unfold range_cds_exts, cds_prefix_length, mirror_exon, mirror_range, rlen, mpos. cbn [x_start x_end x_frame rs re].
  destruct s; cbn [flip is_plus].
  - replace (n + 1 - x_start e - (n + 1 - rs r)) with (rs r - x_start e) by ring.
    destruct (rs r - x_start e <? 0); [reflexivity|].
    destruct (compl_offset (x_frame e)) as [ep|]; [|reflexivity]. cbn [bind swap_res].
    replace (n + 1 - rs r - (n + 1 - re r) + 1) with (re r - rs r + 1) by ring. reflexivity.
  - replace (n + 1 - re r - (n + 1 - x_end e)) with (x_end e - re r) by ring.
    destruct (x_end e - re r <? 0); [reflexivity|].
    destruct (compl_offset (x_frame e)) as [ep|]; [|reflexivity]. cbn [bind swap_res].
    replace (n + 1 - rs r - (n + 1 - re r) + 1) with (re r - rs r + 1) by ring. reflexivity.
Qed.

(* the triplet [q, q+2] is in frame exactly when its mirror image [n+1-(q+2), n+1-q] is in frame on the other strand *)
Theorem frame_mirror n s e q : in_frame (flip s) (mirror_exon n e) (mpos n (q + 2)) <-> in_frame s e q.
Proof.
  unfold in_frame, mirror_exon, mpos. cbn [x_start x_end x_frame]. destruct s; cbn [flip is_plus].
  - replace (n + 1 - x_start e - x_frame e - (n + 1 - (q + 2) + 2)) with (q - (x_start e + x_frame e)) by ring. reflexivity.
  - replace (n + 1 - (q + 2) - (n + 1 - x_end e + x_frame e)) with (x_end e - x_frame e - (q + 2)) by ring. reflexivity.
Qed.

Theorem region_codon_mirror n s e r q :
  is_region_codon (flip s) (mirror_exon n e) (mirror_range n r) (mpos n (q + 2)) <-> is_region_codon s e r q.
Proof.
  unfold is_region_codon. rewrite frame_mirror. unfold mirror_range, mpos. cbn [rs re]. intuition lia.
Qed.

(* codon slots (exon, codon index) used for the PAM links are the same on both sides *)
Theorem codon_index_mirror n s e p :
  codon_index_at (flip s) (mirror_exon n e) (mpos n p) = codon_index_at s e p.
Proof.
  unfold codon_index_at, first_codon_start, cds_prefix_length, mirror_exon, x_range, in_range, mpos.
  cbn [x_start x_end x_frame rs re].
  replace ((n + 1 - x_end e <=? n + 1 - p) && (n + 1 - p <=? n + 1 - x_start e)) with ((x_start e <=? p) && (p <=? x_end e)) by lia.
  destruct ((x_start e <=? p) && (p <=? x_end e)); [|reflexivity]. cbn [negb].
  destruct (compl_offset (x_frame e)) as [pre|]; [|reflexivity]. cbn [bind].
  destruct s; cbn [flip is_plus]; do 3 f_equal; lia.
Qed.

(* applying a mutation and reverse complementing = reverse complementing and applying the mirrored mutation *)
Lemma revcomp_skipn (a : nat) (T : dna) : (a <= length T)%nat -> revcomp (skipn a T) = firstn (length T - a) (revcomp T).
Proof.
  intros H. unfold revcomp. rewrite firstn_rev, map_length. replace (length T - (length T - a))%nat with a by lia.
  now rewrite skipn_map.
Qed.
Lemma revcomp_firstn (a : nat) (T : dna) : (a <= length T)%nat -> revcomp (firstn a T) = skipn (length T - a) (revcomp T).
Proof.
  intros H. unfold revcomp. rewrite skipn_rev, map_length. replace (length T - (length T - a))%nat with a by lia.
  now rewrite firstn_map.
Qed.

Theorem alter_revcomp (T : dna) o k alt :
  0 <= o -> 0 <= k -> o + k <= zlen T ->
  revcomp (zfirstn o T ++ alt ++ zskipn (o + k) T) =
  zfirstn (zlen T - o - k) (revcomp T) ++ revcomp alt ++ zskipn (zlen T - o) (revcomp T).
Proof.
  intros Ho Hk Hl. rewrite !revcomp_app. rewrite <- app_assoc. unfold zfirstn, zskipn, zlen in *.
  rewrite revcomp_skipn by lia. rewrite revcomp_firstn by lia.
  f_equal; [f_equal; lia|]. f_equal. f_equal. lia.
Qed.

(* the SNVRE rule, the amino-acid annotation and the replacement codons commute with reverse complementing the codons and
   the codon table: what is generated for a minus-strand codon is the reverse complement of what is generated for the
   same transcript codon on the plus strand *)
Lemma map_res_Ok {X Y} (f : X -> Y) r y : CodonTableProofs.map_res f r = Ok y <-> exists x, r = Ok x /\ y = f x.
Proof. destruct r; cbn; split; try discriminate; [intros H; apply Ok_inj in H; eauto|intros (x & H & ->); apply Ok_inj in H; now subst| intros (x & H & _); discriminate]. Qed.

Theorem snvre_rule_mirror rows cref calt x :
  snvre_rule (from_list rows true) (revcomp cref) (revcomp calt) (revcomp x) <-> snvre_rule (from_list rows false) cref calt x.
Proof.
  unfold snvre_rule.
  assert (Htr : forall c, translate (from_list rows true) (revcomp c) = translate (from_list rows false) c)
    by (intros c; apply (rc_table_transport rows EmptyString c)).
  assert (Hne : forall a b : dna, revcomp a <> revcomp b <-> a <> b)
    by (intros a b; split; intros H E; apply H; [now subst|now apply revcomp_inj]).
  assert (Htop : forall a y, get_top_codon (from_list rows true) a = Ok (revcomp y) <-> get_top_codon (from_list rows false) a = Ok y).
  { intros a y. destruct (rc_table_transport rows a []) as (_ & -> & _). rewrite map_res_Ok. split.
    - intros (z & Hz & E). apply revcomp_inj in E. now subst.
    - intros H. eauto. }
  assert (Hsec : forall a y, get_second_best_codon (from_list rows true) a = Ok (Some (revcomp y)) <-> get_second_best_codon (from_list rows false) a = Ok (Some y)).
  { intros a y. destruct (rc_table_transport rows a []) as (_ & _ & ->). rewrite map_res_Ok. split.
    - intros ([z|] & Hz & E); cbn in E; [|discriminate]. injection E as E. apply revcomp_inj in E. now subst.
    - intros H. exists (Some y). auto. }
  assert (Hcod : forall a y, In (revcomp y) (codons_of (from_list rows true) a) <-> In y (codons_of (from_list rows false) a)).
  { intros a y. unfold from_list. rewrite rc_codons_of, in_map_iff. split.
    - intros (z & E & Hz). apply revcomp_inj in E. now subst.
    - intros H. eauto. }
  split; intros (a & a' & H1 & H2 & H3 & H4 & H5); exists a, a'; rewrite ?Htr in *; rewrite ?Hne in *;
    repeat split; auto; destruct (aa_change a a'); rewrite ?Hcod, ?Htop, ?Hsec in *; auto.
Qed.

Theorem annotation_mirror rows c : translate (from_list rows true) (revcomp c) = translate (from_list rows false) c.
Proof. apply (rc_table_transport rows EmptyString c). Qed.
