(* Properties of the liftover specification: mutual inverses, order preservation (C05). *)
From VV Require Import Model.Base Model.Pattern Model.Gpo Spec.LiftSpec Proofs.BaseLemmas Proofs.TargetonProofs.

Lemma kind_cases v : kind_ok v = true ->
  (0 < vrl v /\ val v = vrl v /\ is_ins v = false /\ is_del v = false) \/
  (vrl v = 0 /\ 0 < val v /\ is_ins v = true /\ is_del v = false) \/
  (0 < vrl v /\ val v = 0 /\ is_del v = true /\ is_ins v = false).
Proof.
  unfold kind_ok, is_sub, is_ins, is_del. intros H.
  destruct (0 <? vrl v) eqn:E1; destruct (vrl v =? val v) eqn:E2; destruct (vrl v =? 0) eqn:E3;
  destruct (0 <? val v) eqn:E4; destruct (val v =? 0) eqn:E5; cbn in H; try discriminate; zb; try lia.
  all: try (left; repeat split; auto; lia).
  all: try (right; left; repeat split; auto; lia).
  all: try (right; right; repeat split; auto; lia).
Qed.

Ltac bsolve :=
  repeat match goal with
  | |- context [?a <=? ?b] => destruct (a <=? b) eqn:?
  | |- context [?a <? ?b] => destruct (a <? b) eqn:?
  | |- context [?a =? ?b] => destruct (a =? b) eqn:?
  end; zb; cbn [andb orb negb]; try lia; try reflexivity; try discriminate.

Ltac kinds v Hk :=
  let H1 := fresh "Hrl" in let H2 := fresh "Hal" in let H3 := fresh "Hins" in let H4 := fresh "Hdel" in
  destruct (kind_cases v Hk) as [(H1 & H2 & H3 & H4)|[(H1 & H2 & H3 & H4)|(H1 & H2 & H4 & H3)]].

Lemma deleted_cons v vs p : deleted (v :: vs) p = covers_del v p || deleted vs p.
Proof. reflexivity. Qed.

(* nothing happens before the first variant *)
Lemma before_ref lo hi vs p : wf lo hi vs -> p < lo ->
  shift vs p = 0 /\ deleted vs p = false /\ ins_point vs p = false.
Proof.
  revert lo; induction vs as [|v vs IH]; intros lo Hwf Hp; cbn [shift deleted ins_point existsb]; [auto|].
  destruct Hwf as (Hlo & Hk & Hhi & Hwf). unfold next_free in *.
  destruct (IH (vpos v + Z.max 1 (vrl v)) Hwf ltac:(lia)) as (-> & Hd & Hi).
  unfold deleted in Hd; unfold ins_point in Hi; rewrite Hd, Hi. unfold covers_del.
  destruct (vpos v <=? p) eqn:E; zb; [lia|].
  replace (vpos v =? p) with false by (symmetry; apply Z.eqb_neq; lia).
  rewrite !andb_false_r. auto.
Qed.

Lemma before_alt lo hi vs : forall off q, wf lo hi vs -> q < lo + off ->
  ashift off vs q = off /\ inserted off vs q = false.
Proof.
  revert lo; induction vs as [|v vs IH]; intros lo off q Hwf Hq; cbn [ashift inserted]; [auto|].
  destruct Hwf as (Hlo & Hk & Hhi & Hwf). unfold next_free in *.
  destruct (vpos v + off <=? q) eqn:E; zb; [lia|]. split; [reflexivity|].
  rewrite andb_false_r. cbn [orb andb].
  kinds v Hk; apply (IH _ (off + delta v) q Hwf); unfold delta; lia.
Qed.

(* the image of a surviving base never falls below the start of the block it lives in *)
Lemma lower_bound lo hi vs p : wf lo hi vs -> lo <= p -> deleted vs p = false -> lo <= p + shift vs p.
Proof.
  revert lo; induction vs as [|v vs IH]; intros lo Hwf Hp Hd; cbn [shift]; [lia|].
  destruct Hwf as (Hlo & Hk & Hhi & Hwf). unfold next_free in *.
  cbn [deleted existsb] in Hd. apply orb_false_iff in Hd. destruct Hd as [Hc Hd].
  destruct (vpos v <=? p) eqn:E; zb.
  - destruct (Z_lt_le_dec p (vpos v + Z.max 1 (vrl v))) as [Hin|Hout].
    + destruct (before_ref _ _ _ p Hwf Hin) as (-> & _ & _).
      unfold covers_del in Hc. kinds v Hk; unfold delta; try lia.
      rewrite Hdel in Hc. cbn [andb] in Hc.
      replace (vpos v <=? p) with true in Hc by (symmetry; apply Z.leb_le; lia).
      replace (p <? vpos v + vrl v) with true in Hc by (symmetry; apply Z.ltb_lt; lia). discriminate.
    + specialize (IH _ Hwf Hout Hd). kinds v Hk; unfold delta; lia.
  - destruct (before_ref _ _ _ p Hwf ltac:(lia)) as (-> & _ & _). lia.
Qed.

(* REF -> ALT -> REF *)
Lemma r2a_a2r_gen lo hi vs p : wf lo hi vs -> lo <= p -> deleted vs p = false ->
  forall off, ashift off vs (p + off + shift vs p) = off + shift vs p /\
              inserted off vs (p + off + shift vs p) = false.
Proof.
  revert lo; induction vs as [|v vs IH]; intros lo Hwf Hp Hd off; cbn [shift ashift inserted]; [split; [lia|reflexivity]|].
  destruct Hwf as (Hlo & Hk & Hhi & Hwf). unfold next_free in *.
  cbn [deleted existsb] in Hd. apply orb_false_iff in Hd. destruct Hd as [Hc Hd].
  destruct (vpos v <=? p) eqn:E; zb.
  - destruct (Z_lt_le_dec p (vpos v + Z.max 1 (vrl v))) as [Hin|Hout].
    + destruct (before_ref _ _ _ p Hwf Hin) as (Hs & _ & _). rewrite Hs.
      unfold covers_del in Hc.
      kinds v Hk.
      * (* substitution *)
        assert (Hdl : delta v = 0) by (unfold delta; lia). rewrite Hdl, Hins. cbn [andb orb].
        replace (vpos v + off <=? p + off + (0 + 0)) with true by (symmetry; apply Z.leb_le; lia).
        destruct (before_alt _ _ _ (off + 0) (p + off + (0 + 0)) Hwf ltac:(lia)) as (-> & ->). split; [lia|reflexivity].
      * (* insertion: p is the insertion point *)
        assert (Hdl : delta v = val v) by (unfold delta; lia). rewrite Hdl, Hins. cbn [andb].
        replace (vpos v + off <=? p + off + (val v + 0)) with true by (symmetry; apply Z.leb_le; lia).
        replace (p + off + (val v + 0) <? vpos v + off + val v) with false by (symmetry; apply Z.ltb_ge; lia).
        cbn [andb orb].
        destruct (before_alt _ _ _ (off + val v) (p + off + (val v + 0)) Hwf ltac:(lia)) as (-> & ->). split; [lia|reflexivity].
      * (* deletion: p would be deleted *)
        rewrite Hdel in Hc. cbn [andb] in Hc.
        replace (vpos v <=? p) with true in Hc by (symmetry; apply Z.leb_le; lia).
        replace (p <? vpos v + vrl v) with true in Hc by (symmetry; apply Z.ltb_lt; lia). discriminate.
    + pose proof (lower_bound _ _ _ _ Hwf Hout Hd) as Hlb.
      destruct (IH _ Hwf Hout Hd (off + delta v)) as (Ha & Hi).
      replace (p + off + (delta v + shift vs p)) with (p + (off + delta v) + shift vs p) by lia.
      rewrite Ha, Hi.
      assert (Hge : vpos v + off <= p + (off + delta v) + shift vs p) by (kinds v Hk; unfold delta; lia).
      replace (vpos v + off <=? p + (off + delta v) + shift vs p) with true by (symmetry; apply Z.leb_le; lia).
      split; [lia|]. rewrite orb_false_r.
      kinds v Hk; rewrite Hins; cbn [andb]; try reflexivity.
      unfold delta in *. bsolve.
  - destruct (before_ref _ _ _ p Hwf ltac:(lia)) as (Hs & _ & _). rewrite Hs.
    replace (vpos v + off <=? p + off + (0 + 0)) with false by (symmetry; apply Z.leb_gt; lia).
    split; [lia|]. rewrite andb_false_r. cbn [andb orb].
    apply (before_alt _ _ _ (off + delta v) _ Hwf). kinds v Hk; unfold delta; lia.
Qed.

Theorem r2a_a2r lo hi vs p q : wf lo hi vs -> lo <= p -> r2a vs p = Some q -> a2r vs q = Some p.
Proof.
  intros Hwf Hp. unfold r2a, a2r. destruct (deleted vs p) eqn:Hd; [discriminate|].
  intros H; injection H as <-.
  destruct (r2a_a2r_gen _ _ _ _ Hwf Hp Hd 0) as (Ha & Hi).
  replace (p + 0 + shift vs p) with (p + shift vs p) in * by lia.
  rewrite Hi, Ha. f_equal. lia.
Qed.

(* ALT -> REF -> ALT *)
Lemma a2r_r2a_gen lo hi vs : forall off q, wf lo hi vs -> lo + off <= q -> inserted off vs q = false ->
  let p := q - ashift off vs q in
  lo <= p /\ deleted vs p = false /\ off + shift vs p = ashift off vs q.
Proof.
  revert lo; induction vs as [|v vs IH]; intros lo off q Hwf Hq Hi; cbn [ashift shift]; cbn zeta; rewrite ?deleted_cons.
  - repeat split; try reflexivity; lia.
  - destruct Hwf as (Hlo & Hk & Hhi & Hwf). unfold next_free in *.
    cbn [inserted] in Hi. apply orb_false_iff in Hi. destruct Hi as [Hi1 Hi].
    destruct (vpos v + off <=? q) eqn:E; zb.
    + destruct (Z_lt_le_dec q (vpos v + Z.max 1 (vrl v) + (off + delta v))) as [Hin|Hout].
      * destruct (before_alt _ _ _ (off + delta v) q Hwf Hin) as (Ha & _). rewrite Ha.
        kinds v Hk.
        -- (* substitution *)
           assert (Hdl : delta v = 0) by (unfold delta; lia).
           destruct (before_ref _ _ _ (q - (off + delta v)) Hwf ltac:(lia)) as (Hs & Hd & _).
           rewrite Hs, Hd. unfold covers_del. rewrite Hdel. cbn [andb orb].
           replace (vpos v <=? q - (off + delta v)) with true by (symmetry; apply Z.leb_le; lia).
           repeat split; lia.
        -- (* insertion *)
           assert (Hdl : delta v = val v) by (unfold delta; lia).
           rewrite Hins in Hi1. cbn [andb] in Hi1.
           replace (vpos v + off <=? q) with true in Hi1 by (symmetry; apply Z.leb_le; lia).
           cbn [andb] in Hi1. zb.
           destruct (before_ref _ _ _ (q - (off + delta v)) Hwf ltac:(lia)) as (Hs & Hd & _).
           rewrite Hs, Hd. unfold covers_del. rewrite Hdel. cbn [andb orb].
           replace (vpos v <=? q - (off + delta v)) with true by (symmetry; apply Z.leb_le; lia).
           repeat split; lia.
        -- (* deletion: impossible here *)
           unfold delta in Hin. lia.
      * destruct (IH _ (off + delta v) q Hwf Hout Hi) as (Hp & Hd & Hs). cbn zeta in *.
        rewrite Hd. unfold covers_del.
        replace (q - ashift (off + delta v) vs q <? vpos v + vrl v) with false by (symmetry; apply Z.ltb_ge; lia).
        rewrite andb_false_r. cbn [orb].
        replace (vpos v <=? q - ashift (off + delta v) vs q) with true by (symmetry; apply Z.leb_le; lia).
        repeat split; lia.
    + destruct (before_ref _ _ _ (q - off) Hwf ltac:(lia)) as (Hs & Hd & _).
      rewrite Hs, Hd. unfold covers_del.
      replace (vpos v <=? q - off) with false by (symmetry; apply Z.leb_gt; lia).
      rewrite andb_false_r. cbn [andb orb]. repeat split; lia.
Qed.

Theorem a2r_r2a lo hi vs p q : wf lo hi vs -> lo <= q -> a2r vs q = Some p -> r2a vs p = Some q /\ lo <= p.
Proof.
  intros Hwf Hq. unfold r2a, a2r. destruct (inserted 0 vs q) eqn:Hi; [discriminate|].
  intros H; injection H as <-.
  destruct (a2r_r2a_gen _ _ _ 0 q Hwf ltac:(lia) Hi) as (Hp & Hd & Hs). cbn zeta in *.
  rewrite Hd. split; [f_equal; lia|assumption].
Qed.

(* order is preserved *)
Lemma r2a_monotone_gen lo hi vs p1 p2 : wf lo hi vs -> lo <= p1 -> p1 < p2 ->
  deleted vs p1 = false -> deleted vs p2 = false -> p1 + shift vs p1 < p2 + shift vs p2.
Proof.
  revert lo; induction vs as [|v vs IH]; intros lo Hwf Hp Hlt Hd1 Hd2; cbn [shift]; [lia|].
  destruct Hwf as (Hlo & Hk & Hhi & Hwf). unfold next_free in *.
  cbn [deleted existsb] in Hd1, Hd2. apply orb_false_iff in Hd1, Hd2.
  destruct Hd1 as [Hc1 Hd1]. destruct Hd2 as [Hc2 Hd2].
  assert (Hndel : forall p, covers_del v p = false -> is_del v = true -> vpos v <= p -> vpos v + vrl v <= p).
  { intros p H Hdl Hle. unfold covers_del in H. rewrite Hdl in H. cbn [andb] in H.
    replace (vpos v <=? p) with true in H by (symmetry; apply Z.leb_le; lia). cbn [andb] in H. zb. lia. }
  pose proof (Hndel p1 Hc1) as N1. pose proof (Hndel p2 Hc2) as N2. clear Hndel Hc1 Hc2.
  destruct (vpos v <=? p1) eqn:E1; destruct (vpos v <=? p2) eqn:E2; zb; try lia.
  - destruct (Z_lt_le_dec p2 (vpos v + Z.max 1 (vrl v))) as [Hin2|Hout2].
    + destruct (before_ref _ _ _ p1 Hwf ltac:(lia)) as (-> & _ & _).
      destruct (before_ref _ _ _ p2 Hwf Hin2) as (-> & _ & _). lia.
    + destruct (Z_lt_le_dec p1 (vpos v + Z.max 1 (vrl v))) as [Hin1|Hout1].
      * destruct (before_ref _ _ _ p1 Hwf Hin1) as (-> & _ & _).
        pose proof (lower_bound _ _ _ _ Hwf Hout2 Hd2). lia.
      * specialize (IH _ Hwf Hout1 Hlt Hd1 Hd2). lia.
  - destruct (before_ref _ _ _ p1 Hwf ltac:(lia)) as (-> & _ & _).
    destruct (Z_lt_le_dec p2 (vpos v + Z.max 1 (vrl v))) as [Hin2|Hout2].
    + destruct (before_ref _ _ _ p2 Hwf Hin2) as (-> & _ & _).
      kinds v Hk; unfold delta; try lia.
      specialize (N2 Hdel E2). lia.
    + pose proof (lower_bound _ _ _ _ Hwf Hout2 Hd2). kinds v Hk; unfold delta; lia.
  - destruct (before_ref _ _ _ p1 Hwf ltac:(lia)) as (-> & _ & _).
    destruct (before_ref _ _ _ p2 Hwf ltac:(lia)) as (-> & _ & _). lia.
Qed.

Theorem r2a_monotone lo hi vs p1 p2 q1 q2 : wf lo hi vs -> lo <= p1 -> p1 < p2 ->
  r2a vs p1 = Some q1 -> r2a vs p2 = Some q2 -> q1 < q2.
Proof.
  intros Hwf Hp Hlt. unfold r2a.
  destruct (deleted vs p1) eqn:Hd1; [discriminate|]. destruct (deleted vs p2) eqn:Hd2; [discriminate|].
  intros H1 H2; injection H1 as <-; injection H2 as <-. eapply r2a_monotone_gen; eauto.
Qed.

Theorem a2r_monotone lo hi vs q1 q2 p1 p2 : wf lo hi vs -> lo <= q1 -> q1 < q2 ->
  a2r vs q1 = Some p1 -> a2r vs q2 = Some p2 -> p1 < p2.
Proof.
  intros Hwf Hq Hlt H1 H2.
  destruct (a2r_r2a _ _ _ _ _ Hwf Hq H1) as (R1 & L1).
  assert (Hq2 : lo <= q2) by lia.
  destruct (a2r_r2a _ _ _ _ _ Hwf Hq2 H2) as (R2 & L2).
  destruct (Z_lt_le_dec p1 p2) as [|Hge]; [assumption|exfalso].
  destruct (Z.eq_dec p1 p2) as [->|Hne]; [rewrite R1 in R2; injection R2; lia|].
  assert (Hlt2 : p2 < p1) by lia.
  pose proof (r2a_monotone _ _ _ p2 p1 q2 q1 Hwf L2 Hlt2 R2 R1). lia.
Qed.

(* positions before every variant map to themselves *)
Theorem r2a_identity_before lo hi vs p : wf lo hi vs -> p < lo -> r2a vs p = Some p.
Proof.
  intros Hwf Hp. unfold r2a. destruct (before_ref _ _ _ p Hwf Hp) as (-> & -> & _). f_equal; lia.
Qed.

(* deleted REF bases and inserted ALT bases map to nothing (by definition of the spec) *)
Theorem deleted_maps_to_none vs p : deleted vs p = true -> r2a vs p = None.
Proof. unfold r2a; now intros ->. Qed.
Theorem inserted_maps_to_none vs q : inserted 0 vs q = true -> a2r vs q = None.
Proof. unfold a2r; now intros ->. Qed.
