From VV Require Import Model.Base Model.Pattern Model.Gpo Model.Targeton Spec.LiftSpec Proofs.BaseLemmas Proofs.LiftSpecProofs Proofs.GpoRefine Proofs.GpoTop Proofs.GpoNearest Proofs.TargetonProofs.
From VV Require Import Model.LiftTargeton.
From Coq Require Import Lia ZifyBool.

(* the lifted targeton: both ends of the targeton and of region 2 must survive (a deleted start refuses with ValueError, a deleted end
   with RuntimeError); their images delimit the lifted ranges, the extension lengths are unchanged, and the lifted configuration passed
   the same validation as an input row - so the tiling theorems of C18 apply to it *)
Theorem lift_targeton_spec g r vs c c' : 0 < rs r -> wf (rs r) (re r) vs -> gpo_for g r vs ->
  rs r <= rs (t_ref c) -> rs (t_ref c) <= re (t_ref c) -> re (t_ref c) <= re r ->
  rs r <= rs (t_r2 c) -> rs (t_r2 c) <= re (t_r2 c) -> re (t_r2 c) <= re r ->
  lift_targeton g c = Ok c' ->
  r2a vs (rs (t_ref c)) = Some (rs (t_ref c')) /\ r2a vs (re (t_ref c)) = Some (re (t_ref c')) /\
  r2a vs (rs (t_r2 c)) = Some (rs (t_r2 c')) /\ r2a vs (re (t_r2 c)) = Some (re (t_r2 c')) /\
  t_e1 c' = t_e1 c /\ t_e3 c' = t_e3 c /\ validate c' = Ok tt.
Proof.
  intros Hr Hwf Hg A1 A2 A3 B1 B2 B3. unfold lift_targeton.
  rewrite (ref_to_alt_range_strict g r vs Hr Hwf Hg (t_ref c)) by assumption.
  rewrite (ref_to_alt_range_strict g r vs Hr Hwf Hg (t_r2 c)) by assumption.
  destruct (r2a vs (rs (t_ref c))) as [s1|]; [|cbn [bind]; discriminate].
  destruct (r2a vs (re (t_ref c))) as [e1|]; [|cbn [bind]; discriminate]. cbn [bind].
  destruct (r2a vs (rs (t_r2 c))) as [s2|]; [|cbn [bind]; discriminate].
  destruct (r2a vs (re (t_r2 c))) as [e2|]; [|cbn [bind]; discriminate]. cbn [bind].
  destruct (validate _) as [[]|] eqn:Ev; cbn [bind]; [|discriminate].
  intros H. injection H as H. subst c'. cbn [t_ref t_r2 t_e1 t_e3 rs re]. repeat split; try reflexivity. exact Ev.
Qed.

(* and it is refused when an end of the targeton or of region 2 is deleted by a background variant *)
Theorem lift_targeton_deleted_end_refused g r vs c : 0 < rs r -> wf (rs r) (re r) vs -> gpo_for g r vs ->
  rs r <= rs (t_ref c) -> rs (t_ref c) <= re (t_ref c) -> re (t_ref c) <= re r ->
  rs r <= rs (t_r2 c) -> rs (t_r2 c) <= re (t_r2 c) -> re (t_r2 c) <= re r ->
  (deleted vs (rs (t_ref c)) = true \/ deleted vs (re (t_ref c)) = true \/ deleted vs (rs (t_r2 c)) = true \/ deleted vs (re (t_r2 c)) = true) ->
  is_ok (lift_targeton g c) = false.
Proof.
  intros Hr Hwf Hg A1 A2 A3 B1 B2 B3 Hd. unfold lift_targeton.
  rewrite (ref_to_alt_range_strict g r vs Hr Hwf Hg (t_ref c)) by assumption.
  rewrite (ref_to_alt_range_strict g r vs Hr Hwf Hg (t_r2 c)) by assumption.
  unfold r2a. destruct (deleted vs (rs (t_ref c))); [reflexivity|].
  destruct (deleted vs (re (t_ref c))); [reflexivity|]. cbn [bind].
  destruct (deleted vs (rs (t_r2 c))); [reflexivity|].
  destruct (deleted vs (re (t_r2 c))); [reflexivity|]. exfalso. destruct Hd as [H|[H|[H|H]]]; discriminate.
Qed.

Lemma ref_to_alt_range_valid g r shrink r' : ref_to_alt_range g r shrink = Ok (Some r') -> range_valid r' = true.
Proof.
  unfold ref_to_alt_range. destruct (ref_to_alt_position g (rs r) _) as [[s|]|]; cbn [bind]; try discriminate.
  destruct (ref_to_alt_position g (re r) _) as [[e|]|]; cbn [bind]; try discriminate.
  - destruct (e <? s); [discriminate|]. unfold mk_range. destruct ((0 <=? s) && (s <=? e)) eqn:E; cbn [bind]; [|discriminate].
    intros H. injection H as <-. unfold range_valid. cbn [rs re]. exact E.
  - destruct shrink; discriminate.
Qed.

(* the regions of the lifted targeton tile its lifted range: what C18 states of an input row holds of the targeton in background coordinates *)
Theorem lifted_targeton_tiles g c c' : 0 <= t_e1 c -> 0 <= t_e3 c -> lift_targeton g c = Ok c' ->
  exists rsl, get_all_regions c' = Ok rsl /\ concat (map positions rsl) = positions (t_ref c') /\ Forall (fun r => range_valid r = true) rsl.
Proof.
  intros H1 H3 H. unfold lift_targeton in H.
  destruct (ref_to_alt_range g (t_ref c) false) as [[r'|]|] eqn:Er; cbn [bind] in H; try discriminate.
  destruct (ref_to_alt_range g (t_r2 c) false) as [[r2'|]|] eqn:Er2; cbn [bind] in H; try discriminate.
  destruct (validate (mkT r' r2' (t_e1 c) (t_e3 c))) as [[]|] eqn:Ev; cbn [bind] in H; [|discriminate].
  injection H as <-. apply regions_tile; cbn [t_ref t_r2 t_e1 t_e3]; try assumption.
  - eapply ref_to_alt_range_valid; exact Er.
  - eapply ref_to_alt_range_valid; exact Er2.
Qed.
