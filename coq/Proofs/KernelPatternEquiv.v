(* The window kernels translated from the source on every run (Generated/KernelsPattern.v, harness/pytrans.py) are, for
   all inputs, the hand-written model definitions the theorems are about. *)
From VV Require Import Model.Base Model.Pattern Model.Transcript Generated.KernelsPattern Proofs.BaseLemmas.
From Coq Require Import ZifyBool.

Theorem k_pattern_build_eq offset span start len : k_pattern_build (mkPt offset span) start len = Ok (build offset span start len).
Proof. reflexivity. Qed.

(* UIntRange.from_length as Seq.subseq_window uses it *)
Theorem k_range_from_length_spec start len : 0 <= start -> 1 <= len ->
  k_range_from_length start len = Ok (mkRange start (start + len - 1)).
Proof.
  intros Hs Hl. unfold k_range_from_length, mk_range. replace (len <? 1) with false by lia.
  replace ((0 <=? start) && (start <=? start + len - 1)) with true by lia. reflexivity.
Qed.

