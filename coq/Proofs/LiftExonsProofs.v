From VV Require Import Model.Base Model.Pattern Model.Gpo Model.Transcript Proofs.BaseLemmas Proofs.CodonProofs.
From VV Require Import Model.LiftExons.
From Coq Require Import Lia ZifyBool.

(* frames that follow from the exon lengths, starting with `frame` at exon number `idx` (exons in transcript order) *)
Fixpoint chain_ok (idx frame : Z) (l : list exon) : Prop :=
  match l with
  | [] => True
  | e :: rest => x_index e = idx /\ x_frame e = frame /\
                 match rest with [] => True | _ => exists nf, cds_suffix_length e = Ok nf /\ chain_ok (idx + 1) nf rest end
  end.

Definition relocate (p : exon * range) : exon := mkEx (rs (snd p)) (re (snd p)) (x_index (fst p)) (x_frame (fst p)).

Lemma cds_suffix_length_depends e e' : x_frame e = x_frame e' -> x_len e = x_len e' -> cds_suffix_length e = cds_suffix_length e'.
Proof. intros Hf Hl. unfold cds_suffix_length, cds_prefix_length. rewrite Hf, Hl. reflexivity. Qed.

(* lengths preserved: the recomputed frames are the annotated ones *)
Lemma chain_frames_lengths : forall l rl idx frame,
  length l = length rl -> (forall p, In p (combine l rl) -> rlen (snd p) = x_len (fst p)) ->
  chain_ok idx frame l -> chain_frames idx frame rl = Ok (map relocate (combine l rl)).
Proof.
  induction l as [|e l IH]; intros rl idx frame Hlen Hl Hc; destruct rl as [|r rl]; try discriminate; [reflexivity|].
  cbn [chain_ok] in Hc. destruct Hc as (Hi & Hf & Hrest). cbn [combine map chain_frames].
  assert (relocate (e, r) = mkEx (rs r) (re r) idx frame) as Hre by (unfold relocate; cbn [fst snd]; rewrite Hi, Hf; reflexivity).
  destruct rl as [|r2 rl].
  - destruct l; [|discriminate]. cbn [combine map]. rewrite Hre. reflexivity.
  - destruct l as [|e2 l]; [discriminate|]. destruct Hrest as (nf & Hnf & Hc2).
    assert (cds_suffix_length (mkEx (rs r) (re r) idx frame) = Ok nf) as ->.
    { rewrite <- Hnf. apply cds_suffix_length_depends; cbn [x_frame]; [symmetry; exact Hf|].
      specialize (Hl (e, r) (or_introl eq_refl)). cbn [fst snd] in Hl. unfold x_len in *. cbn [x_start x_end]. unfold rlen in Hl. lia. }
    cbn [bind]. rewrite (IH (r2 :: rl) (idx + 1) nf); [| cbn [length] in *; lia | intros p Hp; apply Hl; right; exact Hp | exact Hc2].
    cbn [bind]. rewrite <- Hre. reflexivity.
Qed.

(* ---- sorting what is already sorted ---- *)
Fixpoint ranges_ascending (l : list range) : Prop :=
  match l with
  | [] => True
  | r :: l' => rs r <= re r /\ (forall x, In x l' -> re r < rs x) /\ ranges_ascending l'
  end.

Lemma insert_range_head r l : (forall x, In x l -> rs r < rs x) -> insert_range r l = r :: l.
Proof. destruct l as [|x l]; intros H; [reflexivity|]. cbn [insert_range]. specialize (H x (or_introl eq_refl)). replace (rs r <? rs x) with true by lia. reflexivity. Qed.

Lemma sort_ranges_ascending l : ranges_ascending l -> sort_ranges l = l.
Proof.
  unfold sort_ranges. induction l as [|r l IH]; intros H; [reflexivity|]. cbn [fold_right]. cbn [ranges_ascending] in H.
  destruct H as (H1 & H2 & H3). rewrite (IH H3). apply insert_range_head. intros x Hx. specialize (H2 x Hx).
  assert (rs x <= re x) by (clear - H3 Hx; induction l as [|y l IHl]; [destruct Hx|]; cbn [ranges_ascending] in H3; destruct H3 as (? & ? & ?); destruct Hx as [->|Hx]; [lia | apply IHl; assumption]).
  lia.
Qed.

Definition exons_ascending (l : list exon) : Prop := ranges_ascending (map x_range l).

Lemma insert_exon_head e l : (forall x, In x l -> x_start e < x_start x) -> insert_exon e l = e :: l.
Proof.
  destruct l as [|x l]; intros H; [reflexivity|]. cbn [insert_exon]. specialize (H x (or_introl eq_refl)).
  unfold exon_ltb. replace (x_start e =? x_start x) with false by lia. replace (x_start e <? x_start x) with true by lia. reflexivity.
Qed.

Lemma ranges_ascending_starts l r x : ranges_ascending (r :: l) -> In x l -> rs r < rs x.
Proof. cbn [ranges_ascending]. intros (H1 & H2 & H3) Hx. specialize (H2 x Hx). lia. Qed.

Lemma sort_exons_ascending l : exons_ascending l -> sort_exons l = l.
Proof.
  unfold sort_exons, exons_ascending. induction l as [|e l IH]; intros H; [reflexivity|]. cbn [fold_right map] in *.
  pose proof H as H0. cbn [ranges_ascending] in H. destruct H as (H1 & H2 & H3). rewrite (IH H3). apply insert_exon_head.
  intros x Hx. pose proof (ranges_ascending_starts _ _ (x_range x) H0 (in_map x_range _ _ Hx)) as Hlt. cbn [x_range rs] in Hlt. exact Hlt.
Qed.

Lemma insert_exon_last e l : (forall x, In x l -> x_start x < x_start e) -> insert_exon e l = l ++ [e].
Proof.
  induction l as [|x l IH]; intros H; [reflexivity|]. cbn [insert_exon app].
  pose proof (H x (or_introl eq_refl)) as Hx. unfold exon_ltb. replace (x_start e =? x_start x) with false by lia.
  replace (x_start e <? x_start x) with false by lia. rewrite IH; [reflexivity|]. intros y Hy. apply H. right. exact Hy.
Qed.

Lemma exons_ascending_app l e : exons_ascending (l ++ [e]) -> exons_ascending l /\ (forall x, In x l -> x_start x < x_start e).
Proof.
  unfold exons_ascending. induction l as [|y l IH]; cbn [app map ranges_ascending]; intros H; [split; [exact I | intros x []]|].
  destruct H as (H1 & H2 & H3). destruct (IH H3) as (Ha & Hb). split.
  - split; [exact H1|]. split; [|exact Ha]. intros x Hx. apply H2. rewrite map_app. apply in_or_app. left. exact Hx.
  - intros x [<-|Hx]; [|apply Hb; exact Hx].
    specialize (H2 (x_range e)). cbn [x_range rs re] in H2. assert (In (x_range e) (map x_range (l ++ [e]))) as Hin by (rewrite map_app; apply in_or_app; right; left; reflexivity).
    specialize (H2 Hin). cbn [x_range rs re] in *. lia.
Qed.

Lemma sort_exons_rev l : exons_ascending l -> sort_exons (rev l) = l.
Proof.
  induction l as [|e l IH] using rev_ind; intros H; [reflexivity|].
  rewrite rev_app_distr. cbn [rev app]. unfold sort_exons. cbn [fold_right]. fold (sort_exons (rev l)).
  destruct (exons_ascending_app _ _ H) as (Ha & Hb). rewrite (IH Ha). apply insert_exon_last. exact Hb.
Qed.

Lemma keep_some_all rl fr : length rl = length fr -> keep_some (combine (map Some rl) fr) = combine rl fr.
Proof.
  unfold keep_some. revert fr; induction rl as [|r rl IH]; intros [|f fr] H; try discriminate; [reflexivity|].
  cbn [map combine flat_map fst snd app]. rewrite IH by (cbn [length] in H; lia). reflexivity.
Qed.

Lemma insert_rf_head p l : (forall x, In x l -> rs (fst p) < rs (fst x)) -> insert_rf p l = p :: l.
Proof. destruct l as [|x l]; intros H; [reflexivity|]. cbn [insert_rf]. specialize (H x (or_introl eq_refl)). replace (rs (fst p) <? rs (fst x)) with true by lia. reflexivity. Qed.

Lemma sort_rf_ascending : forall rl fr, length rl = length fr -> ranges_ascending rl -> sort_rf (combine rl fr) = combine rl fr.
Proof.
  unfold sort_rf. induction rl as [|r rl IH]; intros [|f fr] Hlen H; try discriminate; [reflexivity|]. cbn [combine fold_right].
  pose proof H as H0. cbn [ranges_ascending] in H. destruct H as (H1 & H2 & H3). rewrite (IH fr) by (cbn [length] in Hlen; lia || exact H3).
  apply insert_rf_head. intros [xr xf] Hx. cbn [fst]. apply in_combine_l in Hx. exact (ranges_ascending_starts _ _ _ H0 Hx).
Qed.

Lemma combine_app {X Y} (a a' : list X) (b b' : list Y) : length a = length b -> combine (a ++ a') (b ++ b') = combine a b ++ combine a' b'.
Proof. revert b; induction a as [|x a IH]; intros [|y b] H; try discriminate; [reflexivity|]. cbn [app combine]. rewrite IH by (cbn [length] in H; lia). reflexivity. Qed.

Lemma combine_rev {X Y} (a : list X) : forall (b : list Y), length a = length b -> combine (rev a) (rev b) = rev (combine a b).
Proof.
  induction a as [|x a IH]; intros [|y b] H; try discriminate; [reflexivity|]. cbn [rev combine].
  rewrite combine_app by (rewrite !rev_length; cbn [length] in H; lia). rewrite IH by (cbn [length] in H; lia). reflexivity.
Qed.

Lemma map_fst_combine {X Y} (a : list X) : forall (b : list Y), length a = length b -> map fst (combine a b) = a.
Proof. induction a as [|x a IH]; intros [|y b] H; try discriminate; [reflexivity|]. cbn [combine map fst]. rewrite IH by (cbn [length] in H; lia). reflexivity. Qed.

Lemma map_x_range_relocate l rl : length l = length rl -> map x_range (map relocate (combine l rl)) = rl.
Proof.
  revert rl; induction l as [|e l IH]; intros [|r rl] H; try discriminate; [reflexivity|]. cbn [combine map].
  rewrite IH by (cbn [length] in H; lia). unfold relocate, x_range. cbn [fst snd x_start x_end]. destruct r; reflexivity.
Qed.

(* the frame the chain starts from: that of the first exon in transcript order *)
Definition first_frame (l : list exon) : Z := match l with [] => 0 | e :: _ => x_frame e end.

(* when no exon changes length and the exons keep their order, the lifted transcript is the annotated one moved to the background
   coordinates - provided the annotated frames of the second and later exons are the ones that follow from the exon lengths (lift_exons
   recomputes them; the first exon keeps its annotated frame, whatever it is) *)
Theorem lift_exons_faithful s g exons rl :
  exons <> [] ->
  mapM (fun e => ref_to_alt_range g (x_range e) true) exons = Ok (map Some rl) ->
  length exons = length rl ->
  (forall p, In p (combine exons rl) -> rlen (snd p) = x_len (fst p)) ->
  ranges_ascending rl ->
  (let tr := if is_plus s then exons else rev exons in chain_ok 0 (first_frame tr) tr) ->
  lift_exons s g exons = Ok (map relocate (combine exons rl)).
Proof.
  intros Hne Hm Hlen Hl Hasc Hc. unfold lift_exons. destruct exons as [|e0 ex0]; [congruence|].
  set (exons := e0 :: ex0) in *.
  rewrite Hm. cbn [bind].
  assert (length rl = length (map x_frame exons)) as Hlf by (rewrite map_length; lia).
  rewrite (keep_some_all _ _ Hlf), (sort_rf_ascending _ _ Hlf Hasc).
  cbv zeta in Hc. destruct (is_plus s).
  - destruct rl as [|r0 rl0]; [discriminate|]. unfold exons in *. cbn [map combine fst first_frame] in *.
    rewrite map_fst_combine by (cbn [length] in Hlf; lia).
    rewrite (chain_frames_lengths (e0 :: ex0) (r0 :: rl0) 0 (x_frame e0) Hlen Hl Hc). cbn [bind].
    rewrite sort_exons_ascending; [reflexivity|]. unfold exons_ascending. rewrite (map_x_range_relocate _ _ Hlen). exact Hasc.
  - rewrite <- (combine_rev _ _ Hlf), <- map_rev.
    assert (length (rev rl) = length (rev exons)) as HH by (rewrite !rev_length; lia).
    destruct (rev exons) as [|e1 ex1] eqn:Ere; [apply (f_equal (@rev exon)) in Ere; rewrite rev_involutive in Ere; discriminate|].
    destruct (rev rl) as [|r1 rl1] eqn:Erl; [discriminate|].
    cbn [map combine fst first_frame] in *.
    rewrite map_fst_combine by (rewrite map_length; cbn [length] in HH; lia).
    rewrite <- Erl, <- Ere in *.
    rewrite (chain_frames_lengths (rev exons) (rev rl) 0 (x_frame e1)); [| rewrite !rev_length; exact Hlen | | exact Hc].
    2:{ intros p Hp. rewrite (combine_rev _ _ Hlen) in Hp. apply in_rev in Hp. apply Hl. exact Hp. }
    cbn [bind]. rewrite (combine_rev _ _ Hlen), map_rev.
    rewrite sort_exons_rev; [reflexivity|]. unfold exons_ascending. rewrite (map_x_range_relocate _ _ Hlen). exact Hasc.
Qed.

(* the tree before fix e65eed9 reset the frame of the first exon: an annotated first exon that does not start a codon (frame 1 or 2: a
   coding sequence cut at its start) came back with frame 0 although nothing changed length - exon 10-20 with frame 1 under a
   substitution at 30 *)
Theorem lift_exons_frame0_refuted :
  exists g, from_var_stats [mkVS 30 1 1] (mkRange 5 40) = Ok g /\
    lift_exons_frame0 Plus g [mkEx 10 20 0 1] = Ok [mkEx 10 20 0 0] /\
    lift_exons Plus g [mkEx 10 20 0 1] = Ok [mkEx 10 20 0 1].
Proof.
  destruct (from_var_stats [mkVS 30 1 1] (mkRange 5 40)) as [g|] eqn:E; [|vm_compute in E; discriminate].
  exists g. split; [reflexivity|]. vm_compute in E. apply Ok_inj in E. subst g. split; vm_compute; reflexivity.
Qed.
