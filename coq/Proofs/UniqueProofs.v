(* C11: partition by length, counters, unique table. *)
From VV Require Import Model.Base Model.Pattern Model.Unique Proofs.BaseLemmas.
From Coq Require Import Sorting.Permutation.

(* ---- the byte order on names is a total preorder ---- *)
Lemma sleb_total a : forall b, sleb a b = true \/ sleb b a = true.
Proof.
  induction a as [|x a IH]; intros [|y b]; cbn [sleb]; auto.
  destruct (N_of_ascii x <? N_of_ascii y)%N eqn:E1; [now left|].
  destruct (N_of_ascii y <? N_of_ascii x)%N eqn:E2; [now right|]. apply IH.
Qed.

Lemma sleb_trans a : forall b c, sleb a b = true -> sleb b c = true -> sleb a c = true.
Proof.
  induction a as [|x a IH]; intros [|y b] [|z c]; cbn [sleb]; auto; try discriminate.
  destruct (N_of_ascii x <? N_of_ascii y)%N eqn:E1; destruct (N_of_ascii y <? N_of_ascii x)%N eqn:E2;
  destruct (N_of_ascii y <? N_of_ascii z)%N eqn:E3; destruct (N_of_ascii z <? N_of_ascii y)%N eqn:E4;
  destruct (N_of_ascii x <? N_of_ascii z)%N eqn:E5; destruct (N_of_ascii z <? N_of_ascii x)%N eqn:E6;
  try discriminate; auto;
  repeat match goal with
  | H : (_ <? _)%N = true |- _ => apply N.ltb_lt in H
  | H : (_ <? _)%N = false |- _ => apply N.ltb_ge in H
  end; try lia.
  apply IH.
Qed.

Lemma sleb_refl a : sleb a a = true.
Proof. destruct (sleb_total a a); assumption. Qed.

Lemma min_name_spec l : forall x, In (min_name x l) (x :: l) /\ forall y, In y (x :: l) -> sleb (min_name x l) y = true.
Proof.
  induction l as [|z l IH]; intros x; cbn [min_name].
  - split; [now left|]. intros y [<-|[]]. apply sleb_refl.
  - destruct (IH (if sleb x z then x else z)) as [Hin Hmin]. split.
    + destruct Hin as [<-|Hin]; [destruct (sleb x z); [now left|right; now left]|right; now right].
    + intros y Hy. destruct (sleb x z) eqn:E.
      * destruct Hy as [<-|[<-|Hy]].
        -- apply Hmin. now left.
        -- eapply sleb_trans; [apply Hmin; now left|assumption].
        -- apply Hmin. now right.
      * assert (Ezx : sleb z x = true) by (destruct (sleb_total x z); congruence).
        destruct Hy as [<-|[<-|Hy]].
        -- eapply sleb_trans; [apply Hmin; now left|assumption].
        -- apply Hmin. now left.
        -- apply Hmin. now right.
Qed.

(* ---- distinct sequences ---- *)
Lemma mem_dna_In s l : mem_dna s l = true <-> In s l.
Proof.
  induction l as [|x l IH]; cbn [mem_dna In]; [split; [discriminate|tauto]|].
  rewrite orb_true_iff, dna_eqb_eq, IH. tauto.
Qed.

Lemma distinct_from_spec l : forall seen,
  NoDup (distinct_from seen l) /\
  (forall s, In s (distinct_from seen l) <-> In s l /\ ~ In s seen).
Proof.
  induction l as [|x l IH]; intros seen; cbn [distinct_from].
  - split; [constructor|]. intros s. cbn. tauto.
  - destruct (mem_dna x seen) eqn:E.
    + apply mem_dna_In in E. destruct (IH seen) as [Hn Hi]. split; [assumption|].
      intros s. rewrite Hi. cbn [In]. split; [tauto|]. intros [[<-|H] Hs]; [contradiction|auto].
    + assert (Hx : ~ In x seen) by (intros H; apply mem_dna_In in H; congruence).
      destruct (IH (x :: seen)) as [Hn Hi]. split.
      * constructor; [|assumption]. rewrite Hi. cbn [In]. tauto.
      * intros s. cbn [In]. rewrite Hi. cbn [In]. split.
        -- intros [<-|[H1 H2]]; [auto|]. split; [now right|tauto].
        -- intros [[<-|H1] H2]; [now left|]. destruct (dna_eqb x s) eqn:Es.
           ++ apply dna_eqb_eq in Es. now left.
           ++ right. split; [assumption|]. intros [->|H]; [now rewrite dna_eqb_refl in Es|contradiction].
Qed.

(* _unique.csv: exactly one line per distinct mseq among the included rows ... *)
Theorem unique_one_per_mseq rows :
  NoDup (map snd (unique_table rows)) /\ forall s, In s (map snd (unique_table rows)) <-> In s (map snd rows).
Proof.
  unfold unique_table. rewrite map_map.
  assert (Hm : map (fun s => snd (match names_of rows s with n :: ns => (min_name n ns, s) | [] => (EmptyString, s) end)) (distinct_seqs rows)
               = distinct_seqs rows).
  { rewrite <- (map_id (distinct_seqs rows)) at 2. apply map_ext. intros s. now destruct (names_of rows s). }
  rewrite Hm. unfold distinct_seqs. destruct (distinct_from_spec (map snd rows) []) as [Hn Hi]. split; [assumption|].
  intros s. rewrite Hi. cbn. tauto.
Qed.

Lemma names_of_In rows s n : In n (names_of rows s) <-> In (n, s) rows.
Proof.
  unfold names_of. rewrite in_map_iff. split.
  - intros ([n' s'] & <- & H). apply filter_In in H. destruct H as [H E]. cbn in E. apply dna_eqb_eq in E. now subst.
  - intros H. exists (n, s). split; [reflexivity|]. apply filter_In. split; [assumption|]. cbn. apply dna_eqb_refl.
Qed.

(* ... named by the smallest oligo_name (byte order) among the rows sharing that sequence *)
Theorem unique_name_is_min rows n s : In (n, s) (unique_table rows) ->
  In (n, s) rows /\ forall m, In (m, s) rows -> sleb n m = true.
Proof.
  unfold unique_table. intros H. apply in_map_iff in H. destruct H as (s' & Heq & Hs).
  assert (Hin : In s' (map snd rows)).
  { unfold distinct_seqs in Hs. apply (distinct_from_spec (map snd rows) []) in Hs. tauto. }
  destruct (names_of rows s') as [|n0 ns] eqn:En.
  - exfalso. apply in_map_iff in Hin. destruct Hin as ([m t] & Ht & Hr). cbn in Ht. subst t.
    apply names_of_In in Hr. rewrite En in Hr. contradiction.
  - injection Heq as <- <-. destruct (min_name_spec ns n0) as [H1 H2]. rewrite <- En in *. split.
    + now apply names_of_In.
    + intros m Hm. apply H2. now apply names_of_In.
Qed.

(* ---- partition by length ---- *)
Theorem partition_exact {X} (f : X -> bool) (l : list X) :
  Permutation (filter f l ++ filter (fun x => negb (f x)) l) l.
Proof.
  induction l as [|x l IH]; [reflexivity|]. cbn [filter]. destruct (f x); cbn [negb app].
  - now constructor.
  - rewrite <- Permutation_middle. now constructor.
Qed.

Lemma count_step_inv mn mx lens : forall c,
  let r := fold_left (count_step mn mx) lens c in
  too_short r = too_short c + zlen (filter (fun l => l <? mn) lens) /\
  too_long r = too_long c + zlen (filter (fun l => negb (l <? mn) && (mx <? l)) lens) /\
  in_range_n r = in_range_n c + zlen (filter (included mn mx) lens).
Proof.
  induction lens as [|l lens IH]; intros c; cbn [fold_left filter]; [cbn; lia|].
  cbn zeta in *. destruct (IH (count_step mn mx c l)) as (A & B & C). rewrite A, B, C.
  unfold count_step, included. destruct (l <? mn) eqn:E1; [|destruct (mx <? l) eqn:E2];
    cbn [too_short too_long in_range_n negb andb]; rewrite ?zlen_cons; lia.
Qed.

(* the counters behind the two warnings: rows shorter than the minimum, longer than the maximum, and the rest *)
Theorem counts_match mn mx lens :
  too_short (count_lengths mn mx lens) = zlen (filter (fun l => l <? mn) lens) /\
  too_long (count_lengths mn mx lens) = zlen (filter (fun l => negb (l <? mn) && (mx <? l)) lens) /\
  in_range_n (count_lengths mn mx lens) = zlen (filter (included mn mx) lens) /\
  too_short (count_lengths mn mx lens) + too_long (count_lengths mn mx lens) + in_range_n (count_lengths mn mx lens) = zlen lens.
Proof.
  unfold count_lengths. destruct (count_step_inv mn mx lens (mkCounts 0 0 0)) as (A & B & C). cbn zeta in *.
  cbn [too_short too_long in_range_n] in *. repeat split; try lia.
  rewrite A, B, C. clear. induction lens as [|l lens IH]; [reflexivity|]. cbn [filter]. unfold included in *.
  destruct (l <? mn); [|destruct (mx <? l)]; cbn [negb andb]; rewrite ?zlen_cons; lia.
Qed.
