From VV Require Import Model.Base Model.Pattern Model.Seq Model.Vcf Model.Mave Spec.MaveSpec
  Proofs.BaseLemmas Proofs.TargetonProofs Proofs.ApplyProofs Proofs.VcfProofs.

(* The term chosen by _get_mave_nt for a variant (offset p, REF, ALT; type by emptiness) applied to a sequence
   that carries REF at that offset yields the sequence with REF replaced by ALT; and it is syntactically valid. *)
Theorem mave_of_apply T p ref alt t m :
  var_type ref alt = Ok t -> mave_of t p ref alt = Ok m ->
  1 <= p -> p - 1 + zlen ref <= zlen T -> py_slice (p - 1) (p - 1 + zlen ref) T = ref ->
  mave_apply m T = Some (zfirstn (p - 1) T ++ alt ++ zskipn (p - 1 + zlen ref) T) /\ mave_valid m = true.
Proof.
  intros Ht Hm Hp Hlen Href. unfold var_type in Ht. unfold mave_of in Hm.
  replace (p <? 0) with false in Hm by (symmetry; apply Z.ltb_ge; lia).
  destruct ref as [|x ref]; destruct alt as [|y alt]; try discriminate; injection Ht as <-.
  - (* insertion *)
    injection Hm as <-. cbn [mave_apply mave_valid is_nil negb]. rewrite zlen_nil in *.
    replace ((1 <=? p) && (p - 1 <=? zlen T)) with true by (symmetry; apply andb_true_iff; split; apply Z.leb_le; lia).
    replace (1 <=? p) with true by (symmetry; apply Z.leb_le; lia).
    split; [|reflexivity]. now rewrite Z.add_0_r.
  - (* deletion *)
    injection Hm as <-. cbn [mave_apply mave_valid]. pose proof (zlen_nonneg ref). rewrite zlen_cons in *.
    replace ((1 <=? p) && (1 <=? 1 + zlen ref) && (p - 1 + (1 + zlen ref) <=? zlen T)) with true.
    2:{ symmetry. repeat (apply andb_true_iff; split); apply Z.leb_le; lia. }
    split; [reflexivity|]. apply andb_true_iff; split; apply Z.leb_le; lia.
  - (* substitution *)
    destruct ref as [|x2 ref]; destruct alt as [|y2 alt]; injection Hm as <-; cbn [mave_apply mave_valid is_nil negb].
    + (* SNV: the stated reference base is the base of the sequence *)
      rewrite zlen_cons, zlen_nil in *.
      assert (Hx : znth (p - 1) T = Some x).
      { destruct (znth_lt_Some (p - 1) T ltac:(lia)) as [z Hz].
        replace (p - 1 + (1 + 0)) with (p - 1 + 1) in Href by lia.
        rewrite (py_slice_one _ _ _ Hz) in Href. congruence. }
      rewrite Hx, nt_eqb_refl. split; [|apply Z.leb_le; lia].
      replace (p - 1 + (1 + 0)) with p by lia. reflexivity.
    + pose proof (zlen_nonneg alt). rewrite !zlen_cons, ?zlen_nil in *.
      replace ((1 <=? p) && (1 <=? 1 + 0) && (p - 1 + (1 + 0) <=? zlen T)) with true
        by (symmetry; repeat (apply andb_true_iff; split); apply Z.leb_le; lia).
      split; [reflexivity|]. repeat (apply andb_true_iff; split); try (apply Z.leb_le; lia). reflexivity.
    + pose proof (zlen_nonneg ref). rewrite !zlen_cons in *.
      replace ((1 <=? p) && (1 <=? 1 + (1 + zlen ref)) && (p - 1 + (1 + (1 + zlen ref)) <=? zlen T)) with true
        by (symmetry; repeat (apply andb_true_iff; split); apply Z.leb_le; lia).
      split; [reflexivity|]. repeat (apply andb_true_iff; split); try (apply Z.leb_le; lia). reflexivity.
    + pose proof (zlen_nonneg ref). rewrite !zlen_cons in *.
      replace ((1 <=? p) && (1 <=? 1 + (1 + zlen ref)) && (p - 1 + (1 + (1 + zlen ref)) <=? zlen T)) with true
        by (symmetry; repeat (apply andb_true_iff; split); apply Z.leb_le; lia).
      split; [reflexivity|]. repeat (apply andb_true_iff; split); try (apply Z.leb_le; lia). reflexivity.
Qed.

(* the insertion printer is only ever used for a pure insertion and places the flanks at p-1 and p *)
Theorem mave_ins_flanks t p ref alt q s : mave_of t p ref alt = Ok (MIns q s) -> t = VIns /\ q = p /\ s = alt.
Proof.
  unfold mave_of. destruct (p <? 0); [discriminate|].
  destruct t; destruct ref as [|x [|x2 ref]]; destruct alt as [|y [|y2 alt]]; try discriminate;
    intros H; injection H as <- <-; auto.
Qed.
