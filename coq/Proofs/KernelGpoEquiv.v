(* The liftover tables as translated from genomic_position_offsets.py / var_stats.py (Generated/KernelsGpo.v, loops as folds)
   equal the hand-written model of Model/Gpo.v. *)
From VV Require Import Model.Base Model.Pattern Model.Gpo Model.PyStr Model.PyLoop Proofs.BaseLemmas Generated.KernelsGpo.

Lemma mapM_pure {X Y} (g : X -> Y) l : mapM (fun x => Ok (g x)) l = Ok (map g l).
Proof. induction l as [|x l IH]; cbn [mapM map bind]; [reflexivity|]. rewrite IH. reflexivity. Qed.

Lemma fold_left_add_acc l : forall a, fold_left Z.add l a = a + fold_left Z.add l 0.
Proof. induction l as [|x l IH]; intros a; cbn [fold_left]; [lia|]. rewrite IH, (IH (0 + x)). lia. Qed.

Lemma k_get_alt_ref_delta_eq vs : k_get_alt_ref_delta vs = Ok (sum_delta vs).
Proof.
  unfold k_get_alt_ref_delta, kg_vs_alt_ref_delta. cbn [bind].
  rewrite (mapM_pure (fun x => val x - vrl x)). cbn [bind]. f_equal.
  unfold zsum, sum_delta. induction vs as [|v vs IH]; cbn [map fold_left fold_right]; [reflexivity|].
  rewrite fold_left_add_acc, IH. unfold delta. lia.
Qed.

(* ---- _compute_ref_offsets ---- *)
Definition ro_step (acc : Z * Z * list (Z * Z) * list (Z * Z)) (v : vstat) : result (Z * Z * list (Z * Z) * list (Z * Z)) :=
  let '(alt_pos, offset, po, ao) := acc in
  if negb (delta v =? 0) then Ok (vpos v + offset, offset + delta v, po ++ [(vpos v, offset + delta v)], ao ++ [(vpos v + offset, - (offset + delta v))])
  else Ok (alt_pos, offset, po, ao).

Lemma ro_fold vs : forall alt_pos off po ao,
  exists alt_pos', exists off',
  fold_m ro_step vs (alt_pos, off, po, ao) = Ok (alt_pos', off', po ++ fst (ref_offsets off vs), ao ++ snd (ref_offsets off vs)).
Proof.
  induction vs as [|v vs IH]; intros alt_pos off po ao; cbn [fold_m ref_offsets fst snd].
  - exists alt_pos, off. now rewrite !app_nil_r.
  - unfold ro_step at 1. destruct (delta v =? 0) eqn:E; cbn [negb bind].
    + apply IH.
    + destruct (IH (vpos v + off) (off + delta v) (po ++ [(vpos v, off + delta v)]) (ao ++ [(vpos v + off, - (off + delta v))])) as (a' & o' & H).
      exists a', o'. rewrite H. destruct (ref_offsets (off + delta v) vs) as [p q]. cbn [fst snd].
      now rewrite <- !app_assoc.
Qed.

Lemma k_compute_ref_offsets_eq vs : k_compute_ref_offsets vs = Ok (ref_offsets 0 vs).
Proof.
  unfold k_compute_ref_offsets, kg_vs_alt_ref_delta.
  match goal with |- bind (fold_m ?f _ _) _ = _ => assert (Hf : forall acc v, f acc v = ro_step acc v) end.
  { intros [[[a o] p] q] v. cbn [bind]. unfold ro_step, delta. reflexivity. }
  match goal with |- bind (fold_m ?f ?l ?a) _ = _ => replace (fold_m f l a) with (fold_m ro_step l a) end.
  2:{ generalize (0, 0, @nil (Z * Z), @nil (Z * Z)). induction vs as [|v vs IH]; intros acc; cbn [fold_m]; [reflexivity|].
      rewrite Hf. destruct (ro_step acc v); cbn [bind]; [apply IH|reflexivity]. }
  destruct (ro_fold vs 0 0 [] []) as (a' & o' & H). rewrite H. cbn [bind app].
  destruct (ref_offsets 0 vs); reflexivity.
Qed.

(* ---- get_pos_offset ---- *)
Lemma zr_nil a b : b <= a -> zrange a b = [].
Proof. intros H. unfold zrange, py_range. replace (Z.to_nat (b - a)) with 0%nat by lia. reflexivity. Qed.
Lemma zr_cons a b : a < b -> zrange a b = a :: zrange (a + 1) b.
Proof.
  intros H. unfold zrange, py_range. replace (Z.to_nat (b - a)) with (S (Z.to_nat (b - (a + 1)))) by lia.
  cbn [range_fuel]. rewrite (proj2 (Z.ltb_lt _ _) H). reflexivity.
Qed.
Lemma py_index_mid {X} (pre suf : list X) x : py_index (pre ++ x :: suf) (zlen pre) = Ok x.
Proof.
  unfold py_index, py_norm, znth. pose proof (zlen_nonneg pre) as Hp. rewrite !(proj2 (Z.ltb_ge _ _) Hp).
  unfold zlen. rewrite Nat2Z.id. rewrite nth_error_app2 by apply Nat.le_refl. now rewrite Nat.sub_diag.
Qed.

Lemma py_index_last_of_prefix {X} (pre suf : list X) d : pre <> [] -> py_index (pre ++ suf) (zlen pre - 1) = Ok (last pre d).
Proof.
  intros Hne. destruct (exists_last Hne) as (p & y & ->). rewrite last_last, zlen_app.
  replace (zlen p + zlen [y] - 1) with (zlen p) by (unfold zlen; cbn [length]; lia). rewrite <- app_assoc. cbn [app]. apply py_index_mid.
Qed.

Lemma py_index_minus_one {X} (l : list X) d : l <> [] -> py_index l (-1) = Ok (last l d).
Proof.
  intros Hne. destruct (exists_last Hne) as (p & y & ->). rewrite last_last.
  unfold py_index, py_norm. cbn [Z.ltb Z.compare]. rewrite zlen_app.
  replace (-1 + (zlen p + zlen [y])) with (zlen p) by (unfold zlen; cbn [length]; lia).
  pose proof (py_index_mid p [] y) as H. unfold py_index, py_norm in H.
  pose proof (zlen_nonneg p) as Hp. rewrite (proj2 (Z.ltb_ge _ _) Hp) in H. exact H.
Qed.

Fixpoint ol (prev : Z) (l : list (Z * Z)) (p : Z) : option Z :=
  match l with
  | [] => None
  | (q, o) :: l' => if p <? q then Some prev else ol o l' p
  end.
Lemma offset_loop_ol prev l p : offset_loop prev l p = match ol prev l p with Some v => v | None => 0 end.
Proof. revert prev. induction l as [|[q o] l IH]; intros prev; cbn [offset_loop ol]; [reflexivity|]. destruct (p <? q); [reflexivity|apply IH]. Qed.

Definition gpo_step (l : list (Z * Z)) (pos : Z) (_acc : unit) (i : Z) : result (unit + Z) :=
  do t5 <- py_index l i; if pos <? fst t5 then do t6 <- py_index l (i - 1); Ok (inr (snd t6)) else Ok (inl tt).

Lemma gpo_fold pos suf : forall pre, pre <> [] ->
  fold_x (gpo_step (pre ++ suf) pos) (zrange (zlen pre) (zlen pre + zlen suf)) tt
  = Ok (match ol (snd (last pre (0, 0))) suf pos with Some v => inr v | None => inl tt end).
Proof.
  induction suf as [|[q o] suf IH]; intros pre Hne.
  - rewrite zlen_nil, zr_nil by lia. reflexivity.
  - pose proof (zlen_nonneg suf). rewrite zlen_cons, zr_cons by lia. cbn [fold_x ol].
    unfold gpo_step at 1. rewrite py_index_mid. cbn [bind fst].
    destruct (pos <? q) eqn:E.
    + rewrite (py_index_last_of_prefix pre ((q, o) :: suf) (0, 0) Hne). reflexivity.
    + cbn [bind]. specialize (IH (pre ++ [(q, o)])). rewrite <- app_assoc in IH. cbn [app] in IH.
      rewrite zlen_app in IH. cbn [zlen length] in IH. rewrite last_last in IH. cbn [snd] in IH.
      replace (zlen pre + 1) with (zlen pre + Z.of_nat 1) by lia.
      replace (zlen pre + (1 + zlen suf)) with (zlen pre + Z.of_nat 1 + zlen suf) by lia.
      apply IH. intros Hnil. apply app_eq_nil in Hnil. destruct Hnil; discriminate.
Qed.

Lemma k_get_pos_offset_eq l p : k_get_pos_offset l p = Ok (get_pos_offset l p).
Proof.
  unfold k_get_pos_offset, get_pos_offset. destruct l as [|[fp fo] rest]; [reflexivity|].
  cbn [lempty]. unfold py_index at 1. cbn [py_norm Z.ltb Z.compare znth Z.to_nat nth_error bind fst].
  destruct (p <? fp); [reflexivity|].
  rewrite (py_index_minus_one ((fp, fo) :: rest) (fp, fo)) by discriminate. cbn [bind].
  replace (last ((fp, fo) :: rest) (fp, fo)) with (last rest (fp, fo)) by (destruct rest; reflexivity).
  destruct (last rest (fp, fo)) as [lp lo]. cbn [fst snd].
  destruct (lp <=? p); [reflexivity|].
  pose proof (gpo_fold p rest [(fp, fo)]) as H. cbn [app last snd] in H.
  change (zlen [(fp, fo)]) with 1 in H.
  rewrite zlen_cons. unfold zrange in H. unfold gpo_step in H.
  rewrite H by discriminate. cbn [bind]. rewrite offset_loop_ol. destruct (ol fo rest p); reflexivity.
Qed.

(* ---- the u8 masks: a run of item assignments is the model's `mark` ---- *)
Definition b2z (b : bool) : Z := if b then 1 else 0.
Definition zmask (m : mask) : list Z := map b2z m.
Definition set_step (i : Z) (a : list Z) (k : Z) : result (list Z) := do a' <- py_set a (i + k) 1; Ok a'.

Lemma fold_m_app {A B} (f : A -> B -> result A) l1 l2 a :
  fold_m f (l1 ++ l2) a = do a' <- fold_m f l1 a; fold_m f l2 a'.
Proof. revert a. induction l1 as [|x l1 IH]; intros a; cbn [app fold_m bind]; [reflexivity|]. destruct (f a x); cbn [bind]; [apply IH|reflexivity]. Qed.

Lemma zrange_split_k a b c : a <= b -> b <= c -> zrange a c = zrange a b ++ zrange b c.
Proof.
  intros H1 H2. remember (Z.to_nat (b - a)) as k eqn:Hk. revert a H1 Hk. induction k as [|k IH]; intros a H1 Hk.
  - assert (a = b) by lia. subst. now rewrite (zr_nil b b) by lia.
  - rewrite (zr_cons a c) by lia. rewrite (zr_cons a b) by lia. cbn [app]. f_equal. apply IH; lia.
Qed.

Lemma zr_snoc a b : a <= b -> zrange a (b + 1) = zrange a b ++ [b].
Proof.
  intros H. remember (Z.to_nat (b - a)) as k eqn:Hk. revert a H Hk. induction k as [|k IH]; intros a H Hk.
  - assert (a = b) by lia. subst. rewrite zr_cons by lia. rewrite !zr_nil by lia. reflexivity.
  - rewrite (zr_cons a (b + 1)) by lia. rewrite (zr_cons a b) by lia. cbn [app]. f_equal. apply IH; lia.
Qed.

Lemma set_nth_length {X} n (x : X) l : length (set_nth n x l) = length l.
Proof. revert n. induction l as [|y l IH]; intros [|n]; cbn [set_nth length]; auto. Qed.

Lemma set_nth_map n m : set_nth n 1 (zmask m) = zmask (set_nth n true m).
Proof. revert n. induction m as [|b m IH]; intros [|n]; cbn [set_nth zmask map b2z]; try reflexivity. f_equal. apply IH. Qed.

Lemma mark_from_length m : forall j i n, length (mark_from j m i n) = length m.
Proof. induction m as [|b m IH]; intros j i n; cbn [mark_from length]; auto. Qed.

Lemma mark_from_zero m : forall j i, mark_from j m i 0 = m.
Proof.
  induction m as [|b m IH]; intros j i; cbn [mark_from]; [reflexivity|]. rewrite IH. f_equal.
  destruct (Z.leb_spec i j), (Z.ltb_spec j (i + 0)); try lia; cbn [andb]; now rewrite orb_false_r.
Qed.

Lemma mark_from_same m : forall j i n, i + n < j -> mark_from j m i (n + 1) = mark_from j m i n.
Proof.
  induction m as [|b m IH]; intros j i n H; cbn [mark_from]; [reflexivity|]. f_equal; [|apply IH; lia].
  destruct (Z.ltb_spec j (i + (n + 1))), (Z.ltb_spec j (i + n)); try lia. reflexivity.
Qed.

Lemma mark_from_succ m : forall j i n, 0 <= n -> 0 <= i + n - j < zlen m ->
  mark_from j m i (n + 1) = set_nth (Z.to_nat (i + n - j)) true (mark_from j m i n).
Proof.
  induction m as [|b m IH]; intros j i n Hn Hr; [unfold zlen in Hr; cbn [length] in Hr; lia|].
  cbn [mark_from]. destruct (Z.eq_dec (i + n - j) 0) as [E|E].
  - rewrite E. cbn [Z.to_nat set_nth]. f_equal.
    + destruct (Z.leb_spec i j), (Z.ltb_spec j (i + (n + 1))); try lia; cbn [andb]; apply orb_true_r.
    + apply mark_from_same. lia.
  - rewrite zlen_cons in Hr. replace (Z.to_nat (i + n - j)) with (S (Z.to_nat (i + n - (j + 1)))) by lia. cbn [set_nth]. f_equal.
    + destruct (Z.ltb_spec j (i + (n + 1))), (Z.ltb_spec j (i + n)); try lia. reflexivity.
    + apply IH; lia.
Qed.

Lemma py_set_nonneg (l : list Z) j : 0 <= j < zlen l -> py_set l j 1 = Ok (set_nth (Z.to_nat j) 1 l).
Proof.
  intros H. unfold py_set, py_norm. rewrite (proj2 (Z.ltb_ge _ _) (proj1 H)).
  rewrite (proj2 (Z.leb_le _ _) (proj1 H)), (proj2 (Z.ltb_lt _ _) (proj2 H)). reflexivity.
Qed.
Lemma py_set_beyond (l : list Z) j : zlen l <= j -> 0 <= j -> py_set l j 1 = Err IndexError.
Proof.
  intros H H0. unfold py_set, py_norm. rewrite (proj2 (Z.ltb_ge _ _) H0).
  rewrite (proj2 (Z.ltb_ge _ _) H). now rewrite andb_false_r.
Qed.

Lemma zmask_length m : zlen (zmask m) = zlen m.
Proof. unfold zmask. apply zlen_map. Qed.

(* the first k assignments succeed while they stay inside the array *)
Lemma set_run_ok m i : 0 <= i -> forall k : nat, i + Z.of_nat k <= zlen m ->
  fold_m (set_step i) (zrange 0 (Z.of_nat k)) (zmask m) = Ok (zmask (mark_from 0 m i (Z.of_nat k))).
Proof.
  intros Hi. induction k as [|k IH]; intros Hk.
  - cbn [Z.of_nat]. rewrite zr_nil by lia. cbn [fold_m]. now rewrite mark_from_zero.
  - replace (Z.of_nat (S k)) with (Z.of_nat k + 1) by lia. rewrite zr_snoc by lia. rewrite fold_m_app, IH by lia.
    cbn [bind fold_m]. unfold set_step. rewrite py_set_nonneg.
    2:{ rewrite zmask_length. unfold zlen. rewrite mark_from_length. fold (zlen m). lia. }
    cbn [bind]. rewrite set_nth_map. f_equal. f_equal. rewrite mark_from_succ; [|lia|lia].
    f_equal. f_equal. lia.
Qed.

Lemma set_run (m : mask) i n : mark m i n <> Err OtherErr ->
  fold_m (set_step i) (py_range 0 n 1) (zmask m) = match mark m i n with Ok m' => Ok (zmask m') | Err e => Err e end.
Proof.
  unfold mark. destruct (Z.leb_spec n 0) as [Hn|Hn].
  - intros _. fold (zrange 0 n). rewrite zr_nil by lia. reflexivity.
  - destruct (Z.ltb_spec i 0) as [Hi|Hi]; [intros H; now elim H|]. intros _. fold (zrange 0 n).
    destruct (Z.ltb_spec (zlen m) (i + n)) as [Hl|Hl].
    + (* runs off the end: the first max 0 (len - i) assignments succeed, the next one raises *)
      destruct (Z.le_gt_cases (zlen m) i) as [Hfar|Hnear].
      * rewrite zr_cons by lia. cbn [fold_m]. unfold set_step at 1. rewrite py_set_beyond; [reflexivity| |lia].
        rewrite zmask_length. lia.
      * pose (k := zlen m - i).
        assert (Hk : 0 < k < n) by (unfold k; lia).
        rewrite (zrange_split_k 0 k n) by lia. rewrite fold_m_app.
        replace k with (Z.of_nat (Z.to_nat k)) at 1 by lia. rewrite set_run_ok by (unfold k; lia). cbn [bind].
        rewrite zr_cons by lia. cbn [fold_m]. unfold set_step at 1. rewrite py_set_beyond; [reflexivity| |lia].
        rewrite zmask_length. unfold zlen. rewrite mark_from_length. fold (zlen m). unfold k. lia.
    + replace n with (Z.of_nat (Z.to_nat n)) at 1 by lia. rewrite set_run_ok by lia. do 3 f_equal. lia.
Qed.

Lemma fold_m_ext {A B} (f g : A -> B -> result A) l : (forall a x, f a x = g a x) -> forall a, fold_m f l a = fold_m g l a.
Proof. intros H. induction l as [|x l IH]; intros a; cbn [fold_m]; [reflexivity|]. rewrite H. destruct (g a x); cbn [bind]; [apply IH|reflexivity]. Qed.

Lemma zmask_zeros n : zmask (zeros n) = repeat 0 (Z.to_nat n).
Proof. unfold zmask, zeros. induction (Z.to_nat n) as [|k IH]; cbn [repeat map b2z]; [reflexivity|]. now rewrite IH. Qed.

(* ---- _compute_ref_del_mask ---- *)
Definition rm_step (start : Z) (acc : list Z * list Z) (v : vstat) : result (list Z * list Z) :=
  let '(sm, dm) := acc in
  if negb (delta v =? 0) then
    do sm' <- fold_m (set_step (vpos v - start)) (py_range 0 (Z.max 1 (vrl v)) 1) sm;
    if delta v <? 0 then do dm' <- fold_m (set_step (vpos v - start)) (py_range 0 (vrl v) 1) dm; Ok (sm', dm') else Ok (sm', dm)
  else Ok (sm, dm).

Lemma rm_fold start vs : forall dm sm, ref_masks start vs dm sm <> Err OtherErr ->
  fold_m (rm_step start) vs (zmask sm, zmask dm)
  = match ref_masks start vs dm sm with Ok (dm', sm') => Ok (zmask sm', zmask dm') | Err e => Err e end.
Proof.
  induction vs as [|v vs IH]; intros dm sm H; cbn [fold_m ref_masks]; [reflexivity|].
  cbn [ref_masks] in H. unfold rm_step at 1.
  destruct (delta v =? 0); cbn [negb]; [cbn [bind]; apply IH; exact H|].
  assert (H1 : mark sm (vpos v - start) (Z.max 1 (vrl v)) <> Err OtherErr).
  { intros E. rewrite E in H. now apply H. }
  rewrite (set_run sm _ _ H1).
  destruct (mark sm (vpos v - start) (Z.max 1 (vrl v))) as [sm'|e]; cbn [bind]; [|reflexivity].
  cbn [bind] in H. destruct (delta v <? 0).
  - assert (H2 : mark dm (vpos v - start) (vrl v) <> Err OtherErr).
    { intros E. rewrite E in H. now apply H. }
    rewrite (set_run dm _ _ H2).
    destruct (mark dm (vpos v - start) (vrl v)) as [dm'|e]; cbn [bind]; [|reflexivity].
    cbn [bind] in H. apply IH; exact H.
  - cbn [bind] in *. apply IH; exact H.
Qed.

Lemma k_compute_ref_del_mask_eq start n vs : 0 <= n -> ref_masks start vs (zeros n) (zeros n) <> Err OtherErr ->
  k_compute_ref_del_mask start n vs
  = match ref_masks start vs (zeros n) (zeros n) with Ok (dm, sm) => Ok (zmask dm, zmask sm) | Err e => Err e end.
Proof.
  intros Hn H. unfold k_compute_ref_del_mask, u8_zeros. rewrite (proj2 (Z.ltb_ge _ _) Hn). cbn [bind].
  rewrite <- zmask_zeros.
  match goal with |- bind (fold_m ?f _ _) _ = _ => rewrite (fold_m_ext f (rm_step start)) end.
  2:{ intros [sm dm] v. unfold rm_step, kg_vs_alt_ref_delta, delta. cbn [bind]. reflexivity. }
  rewrite rm_fold by exact H.
  destruct (ref_masks start vs (zeros n) (zeros n)) as [[dm sm]|e]; reflexivity.
Qed.

(* ---- _compute_alt_ins_mask ---- *)
Definition pair_step (i : Z) (acc : Z * list Z) (k : Z) : result (Z * list Z) :=
  let '(ao, im) := acc in do im' <- py_set im (i + k) 1; Ok (ao + 1, im').

Lemma pair_fold i l : forall ao im,
  fold_m (pair_step i) l (ao, im) = do im' <- fold_m (set_step i) l im; Ok (ao + zlen l, im').
Proof.
  induction l as [|k l IH]; intros ao im; cbn [fold_m bind].
  - rewrite zlen_nil. now replace (ao + 0) with ao by lia.
  - unfold pair_step at 1, set_step at 1. destruct (py_set im (i + k) 1) as [im'|e]; cbn [bind]; [|reflexivity].
    rewrite IH. destruct (fold_m (set_step i) l im'); cbn [bind]; [|reflexivity]. rewrite zlen_cons. do 2 f_equal. lia.
Qed.

Definition im_step (start : Z) (acc : Z * list Z * Z) (v : vstat) : result (Z * list Z * Z) :=
  let '(alt_offset, im, var_offset) := acc in
  if 0 <? delta v then
    do r <- fold_m (pair_step (vpos v + var_offset - start)) (py_range 0 (val v) 1) (alt_offset + var_offset, im);
    let '(ao, im') := r in Ok (ao, im', var_offset + delta v)
  else Ok (alt_offset, im, var_offset + delta v).

Lemma im_fold start vs : forall ao vo m, ins_mask start vo vs m <> Err OtherErr ->
  exists ao', exists vo',
  fold_m (im_step start) vs (ao, zmask m, vo)
  = match ins_mask start vo vs m with Ok m' => Ok (ao', zmask m', vo') | Err e => Err e end.
Proof.
  induction vs as [|v vs IH]; intros ao vo m H; cbn [fold_m ins_mask].
  - exists ao, vo. reflexivity.
  - cbn [ins_mask] in H. unfold im_step at 1. destruct (0 <? delta v).
    + assert (H1 : mark m (vpos v + vo - start) (val v) <> Err OtherErr).
      { intros E. rewrite E in H. now apply H. }
      rewrite pair_fold, (set_run m _ _ H1).
      destruct (mark m (vpos v + vo - start) (val v)) as [m'|e]; cbn [bind].
      * cbn [bind] in H. apply IH. exact H.
      * exists 0, 0. reflexivity.
    + cbn [bind] in *. apply IH. exact H.
Qed.

Lemma k_compute_alt_ins_mask_eq start n vs : 0 <= n -> ins_mask start 0 vs (zeros n) <> Err OtherErr ->
  k_compute_alt_ins_mask start n vs
  = match ins_mask start 0 vs (zeros n) with Ok m => Ok (zmask m) | Err e => Err e end.
Proof.
  intros Hn H. unfold k_compute_alt_ins_mask, u8_zeros. rewrite (proj2 (Z.ltb_ge _ _) Hn). cbn [bind].
  rewrite <- zmask_zeros.
  match goal with |- bind (fold_m ?f _ _) _ = _ => rewrite (fold_m_ext f (im_step start)) end.
  2:{ intros [[ao im] vo] v. unfold im_step, kg_vs_alt_ref_delta, delta. cbn [bind].
      destruct (0 <? val v - vrl v); [|reflexivity].
      match goal with |- bind (fold_m ?g _ _) _ = _ => rewrite (fold_m_ext g (pair_step (vpos v + vo - start))) end.
      2:{ intros [a b] k. reflexivity. }
      destruct (fold_m (pair_step (vpos v + vo - start)) (py_range 0 (val v) 1) (ao + vo, im)) as [[a b]|e]; reflexivity. }
  destruct (im_fold start vs 0 0 (zeros n) H) as (ao' & vo' & E). rewrite E.
  destruct (ins_mask start 0 vs (zeros n)); reflexivity.
Qed.

(* ---- the tables of a built GenomicPositionOffsets are what the translated source computes ---- *)
Lemma bind_ok {X Y} (r : result X) (f : X -> result Y) y : bind r f = Ok y -> exists x, r = Ok x /\ f x = Ok y.
Proof. destruct r as [x|e]; cbn [bind]; [intros H; now exists x|discriminate]. Qed.

Theorem tables_match_source vs r g : range_valid r = true -> from_var_stats vs r = Ok g ->
  exists cvs, clamp vs r = Ok cvs
  /\ k_get_alt_ref_delta cvs = Ok (g_alt_length g - rlen r)
  /\ k_compute_ref_offsets cvs = Ok (g_pos_offsets g, g_alt_offsets g)
  /\ k_compute_ref_del_mask (rs r) (rlen r) cvs = Ok (zmask (g_del g), zmask (g_shift g))
  /\ k_compute_alt_ins_mask (rs r) (g_alt_length g) cvs = Ok (zmask (g_ins g)).
Proof.
  intros Hv H. unfold from_var_stats in H.
  apply bind_ok in H. destruct H as (cvs & Hc & H). exists cvs. split; [exact Hc|].
  apply bind_ok in H. destruct H as ([dm sm] & Hm & H).
  destruct (ref_offsets 0 cvs) as [po ao] eqn:Ho.
  destruct (rlen r + sum_delta cvs <? 0) eqn:Hneg; [discriminate|].
  apply bind_ok in H. destruct H as (im & Hi & H). injection H as H. subst g. cbn [g_alt_length g_pos_offsets g_alt_offsets g_del g_shift g_ins fst snd].
  assert (Hn : 0 <= rlen r). { unfold range_valid in Hv. unfold rlen. apply andb_prop in Hv. destruct Hv as [_ Hv]. apply Z.leb_le in Hv. lia. }
  split; [rewrite k_get_alt_ref_delta_eq; f_equal; lia|].
  split; [rewrite k_compute_ref_offsets_eq, Ho; reflexivity|].
  split.
  - rewrite k_compute_ref_del_mask_eq; [rewrite Hm; reflexivity|exact Hn|rewrite Hm; discriminate].
  - apply Z.ltb_ge in Hneg. rewrite k_compute_alt_ins_mask_eq; [rewrite Hi; reflexivity|exact Hneg|rewrite Hi; discriminate].
Qed.

(* ---- the methods of GenomicPositionOffsets that read the tables ---- *)
Definition kgpo_of (g : gpo) : kgpo :=
  mkKGpo (g_range g) (g_alt_length g) (g_pos_offsets g) (zmask (g_del g)) (zmask (g_shift g)) (g_alt_offsets g) (zmask (g_ins g)).

Lemma slen_dna' d : slen (string_of_dna d) = zlen d.
Proof. unfold slen, zlen. f_equal. induction d as [|x d IH]; cbn; [reflexivity|now rewrite IH]. Qed.

Lemma znth_map {X Y} (f : X -> Y) i l : znth i (map f l) = option_map f (znth i l).
Proof. unfold znth. destruct (i <? 0); [reflexivity|]. apply nth_error_map. Qed.

(* reading a byte of a mask at a non-negative index *)
Lemma py_index_zmask m i : 0 <= i ->
  py_index (zmask m) i = match mget m i with Ok b => Ok (b2z b) | Err e => Err e end.
Proof.
  intros Hi. unfold py_index, py_norm, mget. rewrite (proj2 (Z.ltb_ge _ _) Hi).
  unfold zmask. rewrite znth_map. destruct (znth i m); reflexivity.
Qed.

Lemma k_gpo_alt_end_eq g : k_gpo_alt_end (kgpo_of g) = Ok (alt_end g).
Proof. unfold k_gpo_alt_end, alt_end, k_gpo_ref_start, kg_get_end, kg_clamp_non_negative, get_end, g_start. cbn [kgpo_of kg_alt_length kg_range bind]. destruct (g_alt_length g =? 0); reflexivity. Qed.

Theorem k_gpo_alt_to_ref_position_eq g q : k_gpo_alt_to_ref_position (kgpo_of g) q = alt_to_ref_position g q.
Proof.
  unfold k_gpo_alt_to_ref_position, k_gpo_validate_alt_position, alt_to_ref_position. rewrite k_gpo_alt_end_eq.
  unfold k_gpo_ref_start, g_start. cbn [bind kgpo_of kg_range].
  destruct (alt_end g) as [e|]; cbn [bind].
  2:{ destruct (q <? rs (g_range g)); reflexivity. }
  destruct (q <? rs (g_range g)) eqn:E1; cbn [bind orb]; [reflexivity|].
  destruct (e <? q) eqn:E2; cbn [bind]; [reflexivity|].
  unfold k_gpo_alt_pos_exists_in_ref, k_gpo_pos_to_offset, k_gpo_ref_start. cbn [bind kgpo_of kg_range kg_ins].
  apply Z.ltb_ge in E1. rewrite py_index_zmask by lia.
  destruct (mget (g_ins g) (q - rs (g_range g))) as [b|er]; cbn [bind]; [|reflexivity].
  destruct b; cbn [b2z Z.eqb negb]; [reflexivity|].
  unfold k_gpo_alt_to_ref_position_unsafe, k_gpo_get_alt_pos_offset. cbn [kgpo_of kg_alt_offsets].
  rewrite k_get_pos_offset_eq. reflexivity.
Qed.

Lemma k_gpo_ref_pos_overlaps_var_eq g p : g_start g <= p ->
  k_gpo_ref_pos_overlaps_var (kgpo_of g) p = ref_pos_overlaps_var g p.
Proof.
  intros H. unfold k_gpo_ref_pos_overlaps_var, k_gpo_pos_to_offset, k_gpo_ref_start, ref_pos_overlaps_var, g_start in *.
  cbn [bind kgpo_of kg_range kg_shift]. rewrite py_index_zmask by lia.
  destruct (mget (g_shift g) (p - rs (g_range g))) as [b|e]; cbn [bind]; [|reflexivity]. destruct b; reflexivity.
Qed.

Lemma mget_not_other m i : mget m i <> Err OtherErr -> 0 <= i.
Proof. unfold mget. destruct (Z.ltb_spec i 0) as [Hlt|Hge]; [intros Hc; now elim Hc|lia]. Qed.

(* the scan over the lifted positions: wherever the model does not meet a negative array index, the translated loop is any_res *)
Lemma overlap_scan g l : any_res (ref_pos_overlaps_var g) l <> Err OtherErr ->
  fold_x (fun (_acc : unit) ref_pos => do b <- k_gpo_ref_pos_overlaps_var (kgpo_of g) ref_pos; if b then Ok (inr true) else Ok (inl tt)) l tt
  = match any_res (ref_pos_overlaps_var g) l with Ok true => Ok (inr true) | Ok false => Ok (inl tt) | Err e => Err e end.
Proof.
  induction l as [|x l IH]; intros H; cbn [fold_x any_res]; [reflexivity|].
  cbn [any_res] in H.
  assert (Hx : g_start g <= x).
  { assert (H0 : ref_pos_overlaps_var g x <> Err OtherErr) by (intros E; rewrite E in H; now apply H).
    unfold ref_pos_overlaps_var in H0. apply mget_not_other in H0. lia. }
  rewrite k_gpo_ref_pos_overlaps_var_eq by exact Hx.
  destruct (ref_pos_overlaps_var g x) as [b|e]; cbn [bind]; [|reflexivity].
  cbn [bind] in H. destruct b; [reflexivity|]. apply IH. exact H.
Qed.

Theorem k_gpo_alt_var_overlaps_var_eq g v :
  alt_var_overlaps_var g (v_pos v) (zlen (v_ref v)) <> Err OtherErr ->
  k_gpo_alt_var_overlaps_var (kgpo_of g) v = alt_var_overlaps_var g (v_pos v) (zlen (v_ref v)).
Proof.
  unfold k_gpo_alt_var_overlaps_var, alt_var_overlaps_var. rewrite k_gpo_alt_to_ref_position_eq.
  destruct (alt_to_ref_position g (v_pos v)) as [[s|]|e]; cbn [bind]; try reflexivity.
  unfold kg_var_ref_end, kg_var_ref_len, kg_get_end, kg_clamp_non_negative, v_ref_s. cbn [bind]. rewrite !slen_dna'.
  destruct (zlen (v_ref v) <=? 1); [reflexivity|].
  fold (get_end (v_pos v) (zlen (v_ref v))). rewrite k_gpo_alt_to_ref_position_eq.
  destruct (alt_to_ref_position g (get_end (v_pos v) (zlen (v_ref v)))) as [[e|]|er]; cbn [bind]; try reflexivity.
  destruct (mk_range s e) as [rr|er]; cbn [bind]; [|reflexivity].
  destruct (negb (rlen rr =? zlen (v_ref v))); [reflexivity|].
  unfold k_range_positions. cbn [bind]. fold (zrange (rs rr) (re rr + 1)). fold (positions rr).
  intros Hno. rewrite (overlap_scan g (positions rr) Hno).
  destruct (any_res (ref_pos_overlaps_var g) (positions rr)) as [[|]|er]; reflexivity.
Qed.

(* ---- REF -> ALT: ref_to_alt_position / ref_to_alt_range ---- *)
Lemma u8_prev_nat_zmask m j : u8_prev_nat (zmask m) 0 j = prev_index_nat m j.
Proof.
  induction j as [|j IH]; cbn [u8_prev_nat prev_index_nat]; [reflexivity|].
  unfold zmask at 1. rewrite nth_error_map. destruct (nth_error m j) as [[|]|]; cbn [option_map b2z Z.eqb]; auto.
Qed.

Lemma u8_prev_index_zmask m i : i <= zlen m -> u8_prev_index (zmask m) i 0 = Ok (get_prev_index m i).
Proof.
  intros H. unfold u8_prev_index, get_prev_index. rewrite zmask_length.
  rewrite (proj2 (Z.ltb_ge _ _) H), andb_false_r. now rewrite u8_prev_nat_zmask.
Qed.

Lemma u8_next_from_zmask m : forall k lo, u8_next_from k (zmask m) lo 0 = next_index_from k m lo.
Proof.
  induction m as [|b m IH]; intros k lo; cbn [zmask map u8_next_from next_index_from]; [reflexivity|].
  fold (zmask m). rewrite IH. destruct b; reflexivity.
Qed.

Lemma u8_next_index_zmask m i : 0 <= i + 1 -> u8_next_index (zmask m) i 0 = Ok (get_next_index m i).
Proof.
  intros H. unfold u8_next_index, get_next_index. rewrite (proj2 (Z.ltb_ge _ _) H). now rewrite u8_next_from_zmask.
Qed.

Theorem k_gpo_ref_to_alt_position_eq g p nearest : zlen (g_del g) = g_ref_length g ->
  k_gpo_ref_to_alt_position (kgpo_of g) p nearest = ref_to_alt_position g p nearest.
Proof.
  intros Hwf. unfold k_gpo_ref_to_alt_position, ref_to_alt_position, k_gpo_pos_to_offset, k_gpo_ref_start, k_gpo_ref_length, g_start, g_ref_length in *.
  cbn [bind kgpo_of kg_range kg_del].
  destruct (p - rs (g_range g) <? 0) eqn:E0; [reflexivity|]. apply Z.ltb_ge in E0.
  destruct (p - rs (g_range g) <? rlen (g_range g)) eqn:E1.
  - apply Z.ltb_lt in E1. rewrite py_index_zmask by lia.
    destruct (mget (g_del g) (p - rs (g_range g))) as [b|e]; cbn [bind]; [|reflexivity].
    unfold k_gpo_ref_offset_to_alt_pos, k_gpo_ref_to_alt_offset, k_gpo_get_ref_pos_offset, ref_offset_to_alt_pos. cbn [kgpo_of kg_pos_offsets bind].
    destruct b; cbn [b2z Z.eqb negb].
    + destruct nearest as [[|]|]; [| |reflexivity]; unfold k_SEARCH_F.
      * rewrite u8_prev_index_zmask by lia. cbn [bind].
        destruct (get_prev_index (g_del g) (p - rs (g_range g))) as [o|]; [|reflexivity].
        unfold k_gpo_offset_to_pos, k_gpo_ref_start, g_start. cbn [bind kgpo_of kg_range]. rewrite k_get_pos_offset_eq. reflexivity.
      * rewrite u8_next_index_zmask by lia. cbn [bind].
        destruct (get_next_index (g_del g) (p - rs (g_range g))) as [o|]; [|reflexivity].
        unfold k_gpo_offset_to_pos, k_gpo_ref_start, g_start. cbn [bind kgpo_of kg_range]. rewrite k_get_pos_offset_eq. reflexivity.
    + rewrite k_get_pos_offset_eq. reflexivity.
  - unfold k_gpo_ref_to_alt_offset, k_gpo_get_ref_pos_offset. cbn [kgpo_of kg_pos_offsets kg_range bind]. rewrite k_get_pos_offset_eq. reflexivity.
Qed.

Theorem k_gpo_ref_to_alt_range_eq g r shrink : zlen (g_del g) = g_ref_length g ->
  k_gpo_ref_to_alt_range (kgpo_of g) r shrink = ref_to_alt_range g r shrink.
Proof.
  intros Hwf. unfold k_gpo_ref_to_alt_range, ref_to_alt_range. rewrite !k_gpo_ref_to_alt_position_eq by exact Hwf.
  destruct (ref_to_alt_position g (rs r) (if shrink then Some After else None)) as [[s|]|e]; cbn [bind]; [|reflexivity|reflexivity].
  destruct (ref_to_alt_position g (re r) (if shrink then Some Before else None)) as [[e|]|er]; cbn [bind]; [|reflexivity|reflexivity].
  destruct (e <? s); [reflexivity|]. destruct (mk_range s e); reflexivity.
Qed.

(* a GenomicPositionOffsets built by from_var_stats has masks of the lengths it declares *)
Lemma mark_length m i n m' : mark m i n = Ok m' -> zlen m' = zlen m.
Proof.
  unfold mark. destruct (n <=? 0); [intros H; injection H as <-; reflexivity|].
  destruct (i <? 0); [discriminate|]. destruct (zlen m <? i + n); [discriminate|].
  intros H; injection H as <-. unfold zlen. now rewrite mark_from_length.
Qed.

Lemma ref_masks_length start vs : forall dm sm dm' sm', ref_masks start vs dm sm = Ok (dm', sm') -> zlen dm' = zlen dm /\ zlen sm' = zlen sm.
Proof.
  induction vs as [|v vs IH]; intros dm sm dm' sm' H; cbn [ref_masks] in H.
  - injection H as <- <-. split; reflexivity.
  - destruct (delta v =? 0); [now apply IH|].
    destruct (mark sm (vpos v - start) (Z.max 1 (vrl v))) as [sm1|] eqn:E1; cbn [bind] in H; [|discriminate].
    destruct (delta v <? 0).
    + destruct (mark dm (vpos v - start) (vrl v)) as [dm1|] eqn:E2; cbn [bind] in H; [|discriminate].
      apply IH in H. apply mark_length in E1, E2. lia.
    + cbn [bind] in H. apply IH in H. apply mark_length in E1. lia.
Qed.

Lemma zeros_length n : 0 <= n -> zlen (zeros n) = n.
Proof. intros H. unfold zeros, zlen. rewrite repeat_length. lia. Qed.

Lemma from_var_stats_del_length vs r g : range_valid r = true -> from_var_stats vs r = Ok g -> zlen (g_del g) = g_ref_length g.
Proof.
  intros Hv H. unfold from_var_stats in H.
  apply bind_ok in H. destruct H as (cvs & Hc & H).
  apply bind_ok in H. destruct H as ([dm sm] & Hm & H).
  destruct (ref_offsets 0 cvs) as [po ao]. destruct (rlen r + sum_delta cvs <? 0); [discriminate|].
  apply bind_ok in H. destruct H as (im & Hi & H). injection H as H. subst g. unfold g_ref_length. cbn [g_del g_range fst].
  apply ref_masks_length in Hm. destruct Hm as [Hd _]. rewrite Hd. apply zeros_length.
  unfold range_valid in Hv. unfold rlen. apply andb_prop in Hv. destruct Hv as [_ Hv]. apply Z.leb_le in Hv. lia.
Qed.

(* the recorded finding, on the translated source: a single base on an insertion point is not reported, two bases over it are *)
Example alt_single_base_insertion_point_in_source :
  exists g, from_var_stats [mkVS 13 0 2] (mkRange 10 20) = Ok g /\
    k_gpo_alt_var_overlaps_var (kgpo_of g) (mkVar 15 [A] [C]) = Ok false /\
    k_gpo_alt_var_overlaps_var (kgpo_of g) (mkVar 14 [A; A] []) = Ok true.
Proof. eexists. split; [vm_compute; reflexivity|]. split; vm_compute; reflexivity. Qed.

(* ---- the construction: clamp_var_stats_collection and from_var_stats ---- *)
Lemma kg_vs_is_in_range_eq v r : kg_vs_is_in_range v r = Ok (vs_in_range v r).
Proof.
  unfold kg_vs_is_in_range, vs_in_range, kg_vs_ref_end, kg_get_end, kg_clamp_non_negative, vref_end, get_end. cbn [bind].
  destruct (in_range (vpos v) r); cbn [andb bind]; [|reflexivity].
  destruct (vrl v =? 0); cbn [orb bind]; reflexivity.
Qed.

Lemma py_index_in {X} (a : list X) i : 0 <= i < zlen a -> exists x, py_index a i = Ok x.
Proof.
  intros H. unfold py_index, py_norm. rewrite (proj2 (Z.ltb_ge _ _) (proj1 H)).
  destruct (znth_lt_Some i a H) as [x Hx]. exists x. now rewrite Hx.
Qed.

Lemma any_m_scan (a : list vstat) l : (forall i, In i l -> 1 <= i < zlen a) ->
  any_m (fun i => do _t20 <- py_index a i; do _t21 <- py_index a (i - 1); Ok false) l = Ok false.
Proof.
  induction l as [|i l IH]; intros H; cbn [any_m]; [reflexivity|].
  assert (Hi : 1 <= i < zlen a) by (apply H; now left).
  destruct (py_index_in a i) as [x Hx]; [lia|]. destruct (py_index_in a (i - 1)) as [y Hy]; [lia|].
  rewrite Hx. cbn [bind]. rewrite Hy. cbn [bind]. apply IH. intros j Hj. apply H. now right.
Qed.

Theorem k_clamp_var_stats_collection_eq vs r : k_clamp_var_stats_collection vs r = clamp vs r.
Proof.
  unfold k_clamp_var_stats_collection, clamp.
  destruct (Z.ltb_spec 0 (rs r)) as [Hp|Hp].
  2:{ rewrite (proj2 (Z.leb_le _ _) Hp). reflexivity. }
  rewrite (proj2 (Z.leb_gt _ _) Hp).
  destruct (sort_by_pos vs) as [|v rest] eqn:Es; [reflexivity|]. cbn [lempty].
  unfold py_index at 1. cbn [py_norm Z.ltb Z.compare znth Z.to_nat nth_error bind].
  rewrite kg_vs_is_in_range_eq. cbn [bind]. destruct (vs_in_range v r) eqn:Ev; cbn [negb]; [|reflexivity].
  rewrite zlen_cons. destruct (Z.ltb_spec 1 (1 + zlen rest)) as [Hn|Hn].
  - rewrite any_m_scan.
    2:{ intros i Hi. fold (zrange 1 (1 + zlen rest)) in Hi. apply zrange_In in Hi. rewrite zlen_cons. lia. }
    cbn [bind]. rewrite (py_index_minus_one (v :: rest) v) by discriminate. cbn [bind].
    replace (last (v :: rest) v) with (last rest v) by (destruct rest; reflexivity).
    rewrite kg_vs_is_in_range_eq. cbn [bind]. destruct (vs_in_range (last rest v) r); reflexivity.
  - assert (rest = []) by (apply zlen_zero_nil; pose proof (zlen_nonneg rest); lia). subst rest. cbn [last].
    rewrite Ev. reflexivity.
Qed.

(* from_var_stats (with __post_init__): on every valid range, wherever the model does not flag a negative array index, the translated
   constructor returns the model's record (masks as byte arrays) or fails with the model's exception *)
Theorem k_gpo_from_var_stats_eq vs r : range_valid r = true -> from_var_stats vs r <> Err OtherErr ->
  k_gpo_from_var_stats vs r = match from_var_stats vs r with Ok g => Ok (kgpo_of g) | Err e => Err e end.
Proof.
  intros Hv Hno. unfold k_gpo_from_var_stats, from_var_stats in *. rewrite k_clamp_var_stats_collection_eq.
  destruct (clamp vs r) as [cvs|e]; cbn [bind] in *; [|reflexivity].
  rewrite k_get_alt_ref_delta_eq. cbn [bind].
  assert (Hn : 0 <= rlen r). { unfold range_valid in Hv. unfold rlen. apply andb_prop in Hv. destruct Hv as [_ Hv]. apply Z.leb_le in Hv. lia. }
  assert (Hm : ref_masks (rs r) cvs (zeros (rlen r)) (zeros (rlen r)) <> Err OtherErr).
  { intros E. rewrite E in Hno. now apply Hno. }
  rewrite (k_compute_ref_del_mask_eq (rs r) (rlen r) cvs Hn Hm).
  destruct (ref_masks (rs r) cvs (zeros (rlen r)) (zeros (rlen r))) as [[dm sm]|e]; cbn [bind] in *; [|reflexivity].
  rewrite k_compute_ref_offsets_eq. cbn [bind]. destruct (ref_offsets 0 cvs) as [po ao].
  destruct (Z.ltb_spec (rlen r + sum_delta cvs) 0) as [Hneg|Hpos].
  - (* a negative ALT length: bytes(n) refuses it *)
    unfold k_compute_alt_ins_mask, u8_zeros. rewrite (proj2 (Z.ltb_lt _ _) Hneg). reflexivity.
  - assert (Hi : ins_mask (rs r) 0 cvs (zeros (rlen r + sum_delta cvs)) <> Err OtherErr).
    { intros E. rewrite E in Hno. now apply Hno. }
    rewrite (k_compute_alt_ins_mask_eq (rs r) (rlen r + sum_delta cvs) cvs Hpos Hi).
    destruct (ins_mask (rs r) 0 cvs (zeros (rlen r + sum_delta cvs))) as [im|e]; cbn [bind]; [|reflexivity].
    unfold k_gpo_post_init. cbn [kg_alt_length]. rewrite (proj2 (Z.ltb_ge _ _) Hpos). cbn [bind fst snd]. reflexivity.
Qed.

Corollary k_gpo_from_var_stats_ok vs r g : range_valid r = true -> from_var_stats vs r = Ok g -> k_gpo_from_var_stats vs r = Ok (kgpo_of g).
Proof. intros Hv H. rewrite k_gpo_from_var_stats_eq; [now rewrite H|exact Hv|rewrite H; discriminate]. Qed.

(* ---- array_utils.get_prev_index, translated (a while loop that returns from inside), is the definition the SEARCH_F table is read with ---- *)
Definition gpi_step (a : list Z) (value : Z) (j : Z) : result (Z + (Z + option Z)) :=
  if 0 <=? j then do x <- py_index a j; if x =? value then Ok (inr (inr (Some j))) else Ok (inl (j - 1)) else Ok (inr (inl j)).

Lemma py_index_nth {X} (a : list X) (m : nat) x : nth_error a m = Some x -> py_index a (Z.of_nat m) = Ok x.
Proof.
  intros H. unfold py_index, py_norm, znth. pose proof (Nat2Z.is_nonneg m) as Hm. rewrite !(proj2 (Z.ltb_ge _ _) Hm).
  rewrite Nat2Z.id, H. reflexivity.
Qed.

Lemma gpi_loop a v : forall (n : nat) (fuel : nat), (n < fuel)%nat -> (n <= length a)%nat ->
  while_x fuel (gpi_step a v) (Z.of_nat n - 1)
  = Ok (match u8_prev_nat a v n with Some k => inr (Some k) | None => inl (-1) end).
Proof.
  induction n as [|m IH]; intros fuel Hf Hl.
  - destruct fuel as [|f]; [lia|]. cbn [while_x u8_prev_nat Z.of_nat]. unfold gpi_step. cbn [Z.sub Z.opp Z.add Z.leb Z.compare bind]. reflexivity.
  - destruct fuel as [|f]; [lia|]. cbn [while_x u8_prev_nat].
    replace (Z.of_nat (S m) - 1) with (Z.of_nat m) by lia.
    unfold gpi_step at 1. rewrite (proj2 (Z.leb_le _ _) (Nat2Z.is_nonneg m)).
    destruct (nth_error a m) as [x|] eqn:En.
    2:{ apply nth_error_None in En. lia. }
    rewrite (py_index_nth a m x En). cbn [bind]. destruct (x =? v); cbn [bind]; [reflexivity|].
    apply IH; lia.
Qed.

Theorem k_get_prev_index_eq a i v : k_get_prev_index a i v = u8_prev_index a i v.
Proof.
  unfold k_get_prev_index, u8_prev_index.
  match goal with |- bind (while_x ?fu ?f _) _ = _ => change f with (gpi_step a v) end.
  destruct (Z.ltb_spec 0 i) as [Hp|Hp]; cbn [andb].
  - destruct (Z.ltb_spec (zlen a) i) as [Hb|Hb].
    + (* the first access is beyond the array *)
      cbn [while_x].
      assert (E1 : 0 <=? i - 1 = true) by (apply Z.leb_le; lia).
      assert (E2 : i - 1 <? 0 = false) by (apply Z.ltb_ge; lia).
      unfold gpi_step at 1. rewrite E1.
      unfold py_index, py_norm, znth. rewrite !E2.
      destruct (nth_error a (Z.to_nat (i - 1))) eqn:En; [|reflexivity].
      assert (Hlt : (Z.to_nat (i - 1) < length a)%nat) by (apply nth_error_Some; congruence). unfold zlen in Hb. lia.
    + replace (i - 1) with (Z.of_nat (Z.to_nat i) - 1) by lia.
      rewrite gpi_loop; [|lia|unfold zlen in Hb; lia]. cbn [bind].
      destruct (u8_prev_nat a v (Z.to_nat i)); reflexivity.
  - replace (Z.to_nat (i - 1)) with 0%nat by lia. cbn [while_x]. unfold gpi_step at 1.
    assert (E3 : 0 <=? i - 1 = false) by (apply Z.leb_gt; lia). rewrite E3. cbn [bind]. replace (Z.to_nat i) with 0%nat by lia. reflexivity.
Qed.

(* ---- ref_var_overlaps_var: Variant.any_pos with the bound method ref_pos_overlaps_var as its callback ---- *)
Lemma any_scan g l : any_res (ref_pos_overlaps_var g) l <> Err OtherErr ->
  any_m (fun x => do t <- k_gpo_ref_pos_overlaps_var (kgpo_of g) x; Ok t) l = any_res (ref_pos_overlaps_var g) l.
Proof.
  induction l as [|x l IH]; intros H; cbn [any_m any_res]; [reflexivity|].
  cbn [any_res] in H.
  assert (Hx : g_start g <= x).
  { assert (H0 : ref_pos_overlaps_var g x <> Err OtherErr) by (intros E; rewrite E in H; now apply H).
    unfold ref_pos_overlaps_var in H0. apply mget_not_other in H0. lia. }
  rewrite k_gpo_ref_pos_overlaps_var_eq by exact Hx.
  destruct (ref_pos_overlaps_var g x) as [b|e]; cbn [bind]; [|reflexivity].
  cbn [bind] in H. destruct b; [reflexivity|]. apply IH. exact H.
Qed.

Theorem k_gpo_ref_var_overlaps_var_eq g v :
  ref_var_overlaps_var g (v_pos v) (zlen (v_ref v)) <> Err OtherErr ->
  k_gpo_ref_var_overlaps_var (kgpo_of g) v = ref_var_overlaps_var g (v_pos v) (zlen (v_ref v)).
Proof.
  unfold k_gpo_ref_var_overlaps_var, k_var_any_pos, ref_var_overlaps_var, kg_var_ref_range, kg_var_ref_end, kg_var_ref_len, kg_get_end, kg_clamp_non_negative, v_ref_s.
  cbn [bind]. rewrite !slen_dna'.
  destruct (1 <? zlen (v_ref v)); cbn [bind].
  - fold (get_end (v_pos v) (zlen (v_ref v))).
    destruct (mk_range (v_pos v) (get_end (v_pos v) (zlen (v_ref v)))) as [rr|e]; cbn [bind]; [|reflexivity].
    unfold k_range_positions. cbn [bind]. fold (zrange (rs rr) (re rr + 1)). fold (positions rr).
    intros H. rewrite (any_scan g (positions rr) H).
    destruct (any_res (ref_pos_overlaps_var g) (positions rr)); reflexivity.
  - intros H. assert (Hx : g_start g <= v_pos v).
    { unfold ref_pos_overlaps_var in H. apply mget_not_other in H. lia. }
    rewrite k_gpo_ref_pos_overlaps_var_eq by exact Hx.
    destruct (ref_pos_overlaps_var g (v_pos v)); reflexivity.
Qed.

(* ---- array_utils.get_next_index (try / except around array.index) is the definition the SEARCH_F table is read with ---- *)
Theorem k_get_next_index_eq a i v : k_get_next_index a i v = u8_next_index a i v.
Proof.
  unfold k_get_next_index, u8_next_index, u8_index.
  destruct (u8_next_from 0 a (if i + 1 <? 0 then Z.max 0 (i + 1 + zlen a) else i + 1) v); reflexivity.
Qed.
