(* C12: blanks, order and repetition of the items of a vector do not matter. *)
From VV Require Import Model.Base Model.Views Model.Order Model.ParseList Proofs.BaseLemmas Proofs.OrderProofs.
From Coq Require Import Permutation.
Local Open Scope string_scope.

Lemma append_assoc a b c : (a ++ b) ++ c = a ++ (b ++ c).
Proof. induction a as [|x a IH]; cbn; [reflexivity|now rewrite IH]. Qed.
Lemma append_nil_r a : a ++ EmptyString = a.
Proof. induction a as [|x a IH]; cbn; [reflexivity|now rewrite IH]. Qed.

Lemma rev_str_spec s : forall acc, rev_str acc s = rev_str EmptyString s ++ acc.
Proof.
  induction s as [|c s IH]; intros acc; cbn; [reflexivity|].
  rewrite IH, (IH (String c EmptyString)), append_assoc. reflexivity.
Qed.
Lemma rev_str_app a b : rev_str EmptyString (a ++ b) = rev_str EmptyString b ++ rev_str EmptyString a.
Proof.
  induction a as [|c a IH]; cbn; [now rewrite append_nil_r|].
  rewrite (rev_str_spec (a ++ b) (String c EmptyString)), IH, (rev_str_spec a (String c EmptyString)), append_assoc. reflexivity.
Qed.
Lemma rev_str_involutive s : rev_str EmptyString (rev_str EmptyString s) = s.
Proof.
  induction s as [|c s IH]; cbn; [reflexivity|]. rewrite (rev_str_spec s (String c EmptyString)), rev_str_app, IH. reflexivity.
Qed.
Lemma rev_blanks n : rev_str EmptyString (blanks n) = blanks n.
Proof.
  induction n as [|n IH]; cbn; [reflexivity|]. rewrite (rev_str_spec (blanks n) (String " " EmptyString)), IH. clear. induction n as [|n IH]; cbn; [reflexivity|now rewrite IH].
Qed.

Lemma lstrip_blanks n s : first_ok s = true -> lstrip (blanks n ++ s) = s.
Proof. intros H. induction n as [|n IH]; cbn; [destruct s as [|c s]; [discriminate|cbn in *; now rewrite (negb_true_iff _) in H; rewrite H]|exact IH]. Qed.
Lemma lstrip_only_blanks n : lstrip (blanks n) = EmptyString.
Proof. induction n as [|n IH]; cbn; auto. Qed.

Lemma strip_written x : clean (snd (fst x)) = true -> strip (written x) = snd (fst x).
Proof.
  destruct x as [[a s] b]. unfold clean, written, strip, rstrip. cbn [fst snd]. intros H.
  apply andb_true_iff in H. destruct H as [H Hl]. apply andb_true_iff in H. destruct H as [_ Hf].
  assert (Hfa : first_ok (s ++ blanks b) = true) by (destruct s; [discriminate|exact Hf]).
  rewrite (lstrip_blanks a _ Hfa). rewrite rev_str_app, rev_blanks. rewrite (lstrip_blanks b _ Hl). apply rev_str_involutive.
Qed.

Lemma strip_blanks n : strip (blanks n) = EmptyString.
Proof. unfold strip, rstrip. rewrite lstrip_only_blanks. reflexivity. Qed.

(* splitting the written form of comma-free pieces gives the pieces back *)
Lemma split_aux_no_comma s : forall cur rest, no_comma s = true ->
  split_comma_aux cur (s ++ rest) = split_comma_aux (cur ++ s) rest.
Proof.
  induction s as [|c s IH]; intros cur rest H; cbn in *; [now rewrite append_nil_r|].
  apply andb_true_iff in H. destruct H as [Hc Hs]. apply negb_true_iff in Hc. rewrite Hc.
  rewrite IH by assumption. now rewrite append_assoc.
Qed.

Lemma no_comma_app a b : no_comma (a ++ b) = no_comma a && no_comma b.
Proof. induction a as [|c a IH]; cbn; [reflexivity|]. now rewrite IH, andb_assoc. Qed.
Lemma no_comma_blanks n : no_comma (blanks n) = true.
Proof. induction n; cbn; auto. Qed.

Lemma split_join pieces : pieces <> [] -> forallb no_comma pieces = true -> split_comma (join_comma pieces) = pieces.
Proof.
  unfold split_comma. induction pieces as [|p ps IH]; intros Hne Hall; [congruence|].
  cbn [forallb] in Hall. apply andb_true_iff in Hall. destruct Hall as [Hp Hps].
  destruct ps as [|p2 ps].
  - cbn [join_comma]. rewrite <- (append_nil_r p) at 1. rewrite split_aux_no_comma by assumption. reflexivity.
  - change (join_comma (p :: p2 :: ps)) with (p ++ "," ++ join_comma (p2 :: ps)).
    rewrite split_aux_no_comma by assumption. cbn [append split_comma_aux].
    replace (is_comma ",") with true by reflexivity. cbv iota.
    f_equal. apply IH; [discriminate|assumption].
Qed.

(* parse_list of items written with arbitrary blanks around them (and empty pieces in between) returns the items *)
Theorem parse_list_spacing (ws : list (nat * string * nat)) :
  ws <> [] -> forallb (fun x => clean (snd (fst x))) ws = true ->
  parse_list (join_comma (map written ws)) = map (fun x => snd (fst x)) ws.
Proof.
  intros Hne Hall. unfold parse_list. rewrite split_join.
  - rewrite map_map. induction ws as [|x ws IH]; [congruence|]. cbn [map filter forallb] in *.
    apply andb_true_iff in Hall. destruct Hall as [Hx Hws]. rewrite (strip_written x Hx).
    assert (Hnz : String.eqb (snd (fst x)) EmptyString = false).
    { unfold clean in Hx. destruct (snd (fst x)); [cbn in Hx; discriminate|reflexivity]. }
    rewrite Hnz. cbn [negb]. f_equal. destruct ws as [|y ws]; [reflexivity|]. apply IH; [discriminate|assumption].
  - destruct ws; [congruence|discriminate].
  - rewrite forallb_forall in *. intros p Hp. apply in_map_iff in Hp. destruct Hp as (x & <- & Hx). specialize (Hall x Hx).
    unfold written, clean in *. rewrite !no_comma_app, !no_comma_blanks. cbn.
    apply andb_true_iff in Hall. destruct Hall as [Hall _]. apply andb_true_iff in Hall. destruct Hall as [-> _]. reflexivity.
Qed.

(* hence sorted(set(parse_list(s))) of a vector depends only on which items are written, not on their order, repetition or blanks *)
Theorem parse_mutators_canonical ws ws' :
  ws <> [] -> ws' <> [] ->
  forallb (fun x => clean (snd (fst x))) ws = true -> forallb (fun x => clean (snd (fst x))) ws' = true ->
  (forall s, In s (map (fun x => snd (fst x)) ws) <-> In s (map (fun x => snd (fst x)) ws')) ->
  sort_dedup (parse_list (join_comma (map written ws))) = sort_dedup (parse_list (join_comma (map written ws'))).
Proof. intros H1 H2 H3 H4 H. rewrite !parse_list_spacing by assumption. now apply sort_dedup_canonical. Qed.

Example parse_list_example :
  parse_list " snv ,1del,  snv,,2del0 " = ["snv"; "1del"; "snv"; "2del0"] /\
  sort_dedup (parse_list "2del0,snv , 1del,snv") = sort_dedup (parse_list " snv ,1del,  snv,,2del0 ").
Proof. vm_compute. auto. Qed.
