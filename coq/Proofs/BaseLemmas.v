From VV Require Import Model.Base.
From Coq Require Import Sorting.Sorted.

Lemma zlen_nonneg {X} (l : list X) : 0 <= zlen l.
Proof. unfold zlen; lia. Qed.

Lemma zlen_app {X} (a b : list X) : zlen (a ++ b) = zlen a + zlen b.
Proof. unfold zlen; rewrite app_length; lia. Qed.

Lemma zlen_cons {X} (x : X) l : zlen (x :: l) = 1 + zlen l.
Proof. unfold zlen; cbn [length]; lia. Qed.

Lemma zlen_nil {X} : zlen (@nil X) = 0.
Proof. reflexivity. Qed.

Lemma zlen_map {X Y} (f : X -> Y) l : zlen (map f l) = zlen l.
Proof. unfold zlen; now rewrite map_length. Qed.

Lemma zlen_rev {X} (l : list X) : zlen (rev l) = zlen l.
Proof. unfold zlen; now rewrite rev_length. Qed.

Lemma zlen_zero_nil {X} (l : list X) : zlen l = 0 -> l = [].
Proof. destruct l; [easy|]; unfold zlen; cbn [length]; lia. Qed.

Lemma zfirstn_length {X} n (l : list X) : 0 <= n -> zlen (zfirstn n l) = Z.min n (zlen l).
Proof. intros Hn; unfold zfirstn, zlen; rewrite firstn_length; lia. Qed.

Lemma zskipn_length {X} n (l : list X) : 0 <= n -> zlen (zskipn n l) = Z.max 0 (zlen l - n).
Proof. intros Hn; unfold zskipn, zlen; rewrite skipn_length; lia. Qed.

Lemma py_slice_length {X} a b (l : list X) :
  0 <= a -> a <= b -> zlen (py_slice a b l) = Z.min (b - a) (Z.max 0 (zlen l - a)).
Proof. intros Ha Hab; unfold py_slice; rewrite zfirstn_length, zskipn_length; lia. Qed.

Lemma py_slice_length_in {X} a b (l : list X) :
  0 <= a -> a <= b -> b <= zlen l -> zlen (py_slice a b l) = b - a.
Proof. intros; rewrite py_slice_length; lia. Qed.

Lemma zfirstn_zskipn {X} n (l : list X) : zfirstn n l ++ zskipn n l = l.
Proof. apply firstn_skipn. Qed.

Lemma zfirstn_all {X} n (l : list X) : zlen l <= n -> zfirstn n l = l.
Proof. unfold zfirstn, zlen; intros; apply firstn_all2; lia. Qed.

Lemma zfirstn_app_exact {X} (a b : list X) : zfirstn (zlen a) (a ++ b) = a.
Proof.
  unfold zfirstn, zlen. rewrite Nat2Z.id.
  rewrite firstn_app, Nat.sub_diag, firstn_all. cbn. now rewrite app_nil_r.
Qed.

Lemma zskipn_app_exact {X} (a b : list X) : zskipn (zlen a) (a ++ b) = b.
Proof.
  unfold zskipn, zlen. rewrite Nat2Z.id.
  rewrite skipn_app, Nat.sub_diag, skipn_all. reflexivity.
Qed.

Lemma skipn_skipn' {X} (a b : nat) (l : list X) : skipn a (skipn b l) = skipn (a + b) l.
Proof.
  revert l; induction b as [|b IH]; intros l.
  - now rewrite Nat.add_0_r.
  - rewrite Nat.add_succ_r. destruct l as [|x l]; [now rewrite !skipn_nil|]. cbn [skipn]. apply IH.
Qed.

Lemma zskipn_zskipn {X} a b (l : list X) : 0 <= a -> 0 <= b -> zskipn a (zskipn b l) = zskipn (a + b) l.
Proof.
  intros; unfold zskipn. rewrite skipn_skipn'. f_equal; lia.
Qed.

Lemma zfirstn_zfirstn {X} a b (l : list X) : 0 <= a -> 0 <= b -> zfirstn a (zfirstn b l) = zfirstn (Z.min a b) l.
Proof.
  intros; unfold zfirstn. rewrite firstn_firstn. f_equal; lia.
Qed.

(* splitting a list at two cut points *)
Lemma split3 {X} a b (l : list X) :
  0 <= a -> a <= b -> l = zfirstn a l ++ py_slice a b l ++ zskipn b l.
Proof.
  intros Ha Hab. unfold py_slice.
  rewrite <- (zfirstn_zskipn a l) at 1. f_equal.
  rewrite <- (zfirstn_zskipn (b - a) (zskipn a l)) at 1. f_equal.
  rewrite zskipn_zskipn by lia. f_equal; lia.
Qed.

Lemma znth_Some_lt {X} i (l : list X) x : znth i l = Some x -> 0 <= i < zlen l.
Proof.
  unfold znth, zlen. destruct (i <? 0) eqn:E; [discriminate|].
  intros H. apply Z.ltb_ge in E.
  assert (Z.to_nat i < length l)%nat by (apply nth_error_Some; congruence). lia.
Qed.

Lemma znth_lt_Some {X} i (l : list X) : 0 <= i < zlen l -> exists x, znth i l = Some x.
Proof.
  unfold znth, zlen; intros [H0 H1]. destruct (i <? 0) eqn:E; [apply Z.ltb_lt in E; lia|].
  destruct (nth_error l (Z.to_nat i)) eqn:N; [eauto|].
  apply nth_error_None in N. lia.
Qed.

Lemma znth_cons_succ {X} i (x : X) l : 0 <= i -> znth (i + 1) (x :: l) = znth i l.
Proof.
  intros Hi; unfold znth.
  destruct (i + 1 <? 0) eqn:E1; [apply Z.ltb_lt in E1; lia|].
  destruct (i <? 0) eqn:E2; [apply Z.ltb_lt in E2; lia|].
  replace (Z.to_nat (i + 1)) with (S (Z.to_nat i)) by lia. reflexivity.
Qed.

Lemma znth_zero {X} (x : X) l : znth 0 (x :: l) = Some x.
Proof. reflexivity. Qed.

Lemma py_slice_one {X} i (l : list X) x : znth i l = Some x -> py_slice i (i + 1) l = [x].
Proof.
  intros H. pose proof (znth_Some_lt _ _ _ H) as [H0 H1].
  unfold znth in H. destruct (i <? 0) eqn:E; [discriminate|].
  unfold py_slice, zfirstn, zskipn. replace (Z.to_nat (i + 1 - i)) with 1%nat by lia.
  revert H. generalize (Z.to_nat i) as n. clear.
  induction l as [|y l IH]; intros [|n] H; cbn in *; try discriminate.
  - injection H as ->. reflexivity.
  - now apply IH.
Qed.

(* ---- range(a, b, step) ---- *)
Lemma range_fuel_In n : forall a b step x,
  0 < step -> b - a <= Z.of_nat n ->
  (In x (range_fuel n a b step) <-> exists k, 0 <= k /\ x = a + k * step /\ x < b).
Proof.
  induction n as [|n IH]; intros a b step x Hs Hf; cbn [range_fuel].
  - split; [easy|]. intros (k & Hk & -> & Hlt). nia.
  - destruct (a <? b) eqn:E.
    + apply Z.ltb_lt in E. cbn [In]. rewrite IH by lia. split.
      * intros [<-|(k & Hk & -> & Hlt)].
        -- exists 0; lia.
        -- exists (k + 1); split; [lia|]; split; [ring|lia].
      * intros (k & Hk & -> & Hlt).
        destruct (Z.eq_dec k 0) as [->|Hne]; [left; ring|].
        right; exists (k - 1); split; [lia|]; split; [ring|lia].
    + apply Z.ltb_ge in E. split; [easy|]. intros (k & Hk & -> & Hlt). nia.
Qed.

Lemma py_range_In a b step x : 0 < step ->
  (In x (py_range a b step) <-> exists k, 0 <= k /\ x = a + k * step /\ x < b).
Proof. intros; unfold py_range; apply range_fuel_In; lia. Qed.

Lemma range_fuel_lb n : forall a b step x, 0 < step -> In x (range_fuel n a b step) -> a <= x.
Proof.
  induction n as [|n IH]; intros a b step x Hs; cbn [range_fuel]; [easy|].
  destruct (a <? b); [|easy]. intros [<-|H]; [lia|]. apply IH in H; lia.
Qed.

Lemma range_fuel_sorted n : forall a b step, 0 < step -> StronglySorted Z.lt (range_fuel n a b step).
Proof.
  induction n as [|n IH]; intros a b step Hs; cbn [range_fuel]; [constructor|].
  destruct (a <? b); [|constructor]. constructor; [now apply IH|].
  apply Forall_forall. intros x Hx. apply range_fuel_lb in Hx; lia.
Qed.

Lemma py_range_sorted a b step : 0 < step -> StronglySorted Z.lt (py_range a b step).
Proof. intros; now apply range_fuel_sorted. Qed.

Lemma sorted_lt_NoDup (l : list Z) : StronglySorted Z.lt l -> NoDup l.
Proof.
  induction 1 as [|x l Hs IH Hf]; constructor; [|assumption].
  intros Hin. rewrite Forall_forall in Hf. specialize (Hf _ Hin). lia.
Qed.

Lemma zrange_In a b x : In x (zrange a b) <-> a <= x < b.
Proof.
  unfold zrange. rewrite py_range_In by lia. split.
  - intros (k & Hk & -> & Hlt). lia.
  - intros [H1 H2]. exists (x - a). lia.
Qed.

Lemma range_fuel_length n : forall a b, b - a = Z.of_nat n -> length (range_fuel n a b 1) = n.
Proof.
  induction n as [|n IH]; intros a b H; cbn [range_fuel]; [reflexivity|].
  destruct (a <? b) eqn:E; [|apply Z.ltb_ge in E; lia].
  cbn [length]. f_equal. apply IH. lia.
Qed.

Lemma zrange_length a b : a <= b -> zlen (zrange a b) = b - a.
Proof.
  intros H. unfold zrange, py_range, zlen. rewrite range_fuel_length; lia.
Qed.

Lemma mapM_ok {X Y} (f : X -> result Y) (g : X -> Y) l :
  (forall x, In x l -> f x = Ok (g x)) -> mapM f l = Ok (map g l).
Proof.
  induction l as [|x l IH]; intros H; cbn [mapM map]; [reflexivity|].
  rewrite H by (now left). cbn [bind]. rewrite IH by (intros; apply H; now right). reflexivity.
Qed.

Lemma revcomp_involutive s : revcomp (revcomp s) = s.
Proof.
  unfold revcomp. rewrite map_rev, rev_involutive, map_map.
  rewrite <- (map_id s) at 2. apply map_ext. now intros [].
Qed.

Lemma revcomp_app a b : revcomp (a ++ b) = revcomp b ++ revcomp a.
Proof. unfold revcomp. now rewrite map_app, rev_app_distr. Qed.

Lemma revcomp_length s : zlen (revcomp s) = zlen s.
Proof. unfold revcomp. now rewrite zlen_rev, zlen_map. Qed.

Lemma nt_eqb_eq x y : nt_eqb x y = true <-> x = y.
Proof. destruct x, y; cbn; split; congruence. Qed.

Lemma nt_eqb_refl x : nt_eqb x x = true.
Proof. now destruct x. Qed.

Lemma dna_eqb_eq x : forall y, dna_eqb x y = true <-> x = y.
Proof.
  induction x as [|a x IH]; intros [|b y]; cbn; try (split; congruence).
  rewrite andb_true_iff, nt_eqb_eq, IH. split; [intros [-> ->]; reflexivity|]. intros H; injection H; auto.
Qed.

Lemma dna_eqb_refl x : dna_eqb x x = true.
Proof. now apply dna_eqb_eq. Qed.

Lemma NoDup_app_intro {X} (a b : list X) :
  NoDup a -> NoDup b -> (forall x, In x a -> ~ In x b) -> NoDup (a ++ b).
Proof.
  induction a as [|x a IH]; intros Ha Hb Hd; cbn; [assumption|].
  inversion Ha as [|? ? Hx Ha']; subst. constructor.
  - intros Hin. apply in_app_or in Hin. destruct Hin as [Hin|Hin]; [contradiction|].
    apply (Hd x); [now left|assumption].
  - apply IH; auto. intros y Hy. apply Hd. now right.
Qed.

Lemma firstn_add {X} (n m : nat) (l : list X) : firstn (n + m) l = firstn n l ++ firstn m (skipn n l).
Proof.
  revert l; induction n as [|n IH]; intros l; [reflexivity|].
  destruct l as [|x l]; cbn [plus firstn skipn app]; [now rewrite firstn_nil|]. now rewrite IH.
Qed.

Lemma py_slice_app {X} x y z (l : list X) :
  0 <= x -> x <= y -> y <= z -> py_slice x y l ++ py_slice y z l = py_slice x z l.
Proof.
  intros Hx Hxy Hyz. unfold py_slice, zfirstn, zskipn.
  replace (Z.to_nat (z - x)) with (Z.to_nat (y - x) + Z.to_nat (z - y))%nat by lia.
  rewrite firstn_add. f_equal. f_equal. rewrite skipn_skipn'. f_equal. lia.
Qed.

Lemma py_slice_empty {X} x (l : list X) : py_slice x x l = [].
Proof. unfold py_slice, zfirstn. now rewrite Z.sub_diag. Qed.

Lemma py_slice_all {X} (l : list X) : py_slice 0 (zlen l) l = l.
Proof. unfold py_slice, zskipn. cbn [Z.to_nat skipn]. rewrite Z.sub_0_r. apply zfirstn_all. lia. Qed.
