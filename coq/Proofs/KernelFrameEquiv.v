(* The frame-arithmetic kernels translated from the source on every run (Generated/KernelsFrame.v, harness/pytrans.py) are, for
   all inputs, the hand-written model definitions the theorems are about. *)
From VV Require Import Model.Base Model.Pattern Model.Transcript Generated.KernelsFrame Proofs.BaseLemmas.
From Coq Require Import ZifyBool.

Theorem k_codon_offset_complement_eq o : k_codon_offset_complement o = compl_offset o.
Proof. reflexivity. Qed.

Theorem k_cds_ext_3_length_eq f l : k_cds_ext_3_length f l = Ok (cds_ext_3_length f l).
Proof. reflexivity. Qed.

Theorem k_get_end_eq s l : k_get_end s l = Ok (get_end s l).
Proof. reflexivity. Qed.

Theorem k_exon_cds_prefix_length_eq e : k_exon_cds_prefix_length e = cds_prefix_length e.
Proof. unfold k_exon_cds_prefix_length, k_exon_compl_frame, cds_prefix_length. rewrite k_codon_offset_complement_eq. now destruct (compl_offset (x_frame e)). Qed.

Theorem k_exon_cds_suffix_length_eq e : k_exon_cds_suffix_length e = cds_suffix_length e.
Proof.
  unfold k_exon_cds_suffix_length, cds_suffix_length. rewrite k_exon_cds_prefix_length_eq.
  destruct (cds_prefix_length e); [cbn [bind]; reflexivity|reflexivity].
Qed.

Theorem k_exon_next_exon_frame_eq e : k_exon_next_exon_frame e = cds_suffix_length e.
Proof. unfold k_exon_next_exon_frame. rewrite k_exon_cds_suffix_length_eq. now destruct (cds_suffix_length e). Qed.

Theorem k_exon_first_codon_start_eq e s : k_exon_first_codon_start e s = first_codon_start s e.
Proof. unfold k_exon_first_codon_start, first_codon_start. rewrite k_exon_cds_prefix_length_eq. reflexivity. Qed.

Theorem k_exon_codon_index_at_eq e s pos : k_exon_codon_index_at e s pos = codon_index_at s e pos.
Proof.
  unfold k_exon_codon_index_at, codon_index_at. destruct (negb (in_range pos (x_range e))); [reflexivity|].
  rewrite k_exon_first_codon_start_eq. destruct (first_codon_start s e); reflexivity.
Qed.

Theorem k_get_codon_range_eq s origin ci : k_get_codon_range s origin ci = codon_range s origin ci.
Proof.
  unfold k_get_codon_range, codon_range. destruct (is_plus s).
  - replace (origin + 3 * ci + 2) with (origin + 3 * ci + 2) by ring. now destruct (mk_range _ _).
  - replace (origin - 3 * ci - 2) with (origin - 3 * ci - 2) by ring. now destruct (mk_range _ _).
Qed.

Theorem k_get_range_cds_exts_eq s e r : k_get_range_cds_exts s e r = range_cds_exts s e r.
Proof.
  unfold k_get_range_cds_exts, range_cds_exts. rewrite k_exon_cds_prefix_length_eq.
  set (d5 := if is_plus s then rs r - x_start e else x_end e - re r).
  destruct (Z.ltb_spec d5 0) as [H|H]; [replace (0 <=? d5) with false by lia; reflexivity|replace (0 <=? d5) with true by lia].
  destruct (cds_prefix_length e); reflexivity.
Qed.

