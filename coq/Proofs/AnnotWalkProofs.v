(* C04 end to end: the annotated codon is read from consecutive positions of the walk over the coding sequence. *)
From VV Require Import Model.Base Model.Pattern Model.Seq Model.CodonTable Model.Transcript Model.Mutators Spec.PatternSpec Spec.CodonSpec
  Proofs.BaseLemmas Proofs.PatternProofs Proofs.CodonTableProofs Proofs.CodonProofs Proofs.AnnotProofs.
From Coq Require Import ZifyBool.
Ltac Zify.zify_post_hook ::= Z.to_euclidean_division_equations.

(* mapM commutes with append, firstn, skipn, slices *)
Lemma mapM_app {X Y} (f : X -> result Y) a b a' b' : mapM f a = Ok a' -> mapM f b = Ok b' -> mapM f (a ++ b) = Ok (a' ++ b').
Proof.
  revert a'. induction a as [|x a IH]; intros a' Ha Hb; cbn [mapM app] in *.
  - apply Ok_inj in Ha. now subst.
  - destruct (f x) as [y|]; [|discriminate]. cbn [bind] in *. destruct (mapM f a) as [ys|] eqn:E; [|discriminate].
    cbn [bind] in Ha. apply Ok_inj in Ha. subst a'. rewrite (IH ys eq_refl Hb). reflexivity.
Qed.

Lemma mapM_firstn {X Y} (f : X -> result Y) n : forall l l', mapM f l = Ok l' -> mapM f (firstn n l) = Ok (firstn n l').
Proof.
  induction n as [|n IH]; intros l l' H; [reflexivity|]. destruct l as [|x l]; cbn [mapM firstn] in *.
  - apply Ok_inj in H. now subst.
  - destruct (f x) as [y|]; [|discriminate]. cbn [bind] in *. destruct (mapM f l) as [ys|] eqn:E; [|discriminate].
    cbn [bind] in H. apply Ok_inj in H. subst l'. cbn [firstn]. rewrite (IH l ys E). reflexivity.
Qed.

Lemma mapM_skipn {X Y} (f : X -> result Y) n : forall l l', mapM f l = Ok l' -> mapM f (skipn n l) = Ok (skipn n l').
Proof.
  induction n as [|n IH]; intros l l' H; [exact H|]. destruct l as [|x l]; cbn [mapM skipn] in *.
  - apply Ok_inj in H. now subst.
  - destruct (f x) as [y|]; [|discriminate]. cbn [bind] in *. destruct (mapM f l) as [ys|] eqn:E; [|discriminate].
    cbn [bind] in H. apply Ok_inj in H. subst l'. cbn [skipn]. now apply IH.
Qed.

Lemma mapM_slice {X Y} (f : X -> result Y) a b l l' : mapM f l = Ok l' -> mapM f (py_slice a b l) = Ok (py_slice a b l').
Proof. intros H. unfold py_slice, zfirstn, zskipn. now apply mapM_firstn, mapM_skipn. Qed.

(* Seq.substr of a range inside the sequence = the bases at its positions *)
Lemma zrange_as_seq a n : zrange a (a + Z.of_nat n) = map (fun k => a + Z.of_nat k) (List.seq 0 n).
Proof.
  revert a. induction n as [|n IH]; intros a.
  - rewrite zrange_nil by lia. reflexivity.
  - rewrite zrange_cons by lia. cbn [List.seq map]. f_equal; [lia|].
    replace (a + Z.of_nat (S n)) with (a + 1 + Z.of_nat n) by lia. rewrite IH. rewrite <- seq_shift, map_map.
    apply map_ext. intros k. lia.
Qed.

Lemma mapM_ext_in' {X Y} (f g : X -> result Y) l : (forall x, In x l -> f x = g x) -> mapM f l = mapM g l.
Proof.
  induction l as [|x l IH]; intros H; cbn [mapM]; [reflexivity|].
  rewrite (H x) by now left. rewrite IH by (intros; apply H; now right). reflexivity.
Qed.

Lemma skipn_nth_cons {X} (l : list X) : forall i x, nth_error l i = Some x -> skipn i l = x :: skipn (S i) l.
Proof. induction l as [|y l IH]; intros [|i] x H; cbn in *; try discriminate; [injection H as ->; reflexivity|now apply IH]. Qed.

Lemma get_at_seq (start : Z) (l : dna) n : forall i, (i + n <= length l)%nat ->
  mapM (fun p => let j := p - start in if j <? 0 then Err OtherErr else match znth j l with Some x => Ok x | None => Err IndexError end)
       (map (fun k => start + Z.of_nat (i + k)) (List.seq 0 n)) = Ok (firstn n (skipn i l)).
Proof.
  induction n as [|n IH]; intros i Hi; [reflexivity|].
  cbn [List.seq map mapM]. replace (start + Z.of_nat (i + 0) - start) with (Z.of_nat i) by lia.
  replace (Z.of_nat i <? 0) with false by lia. unfold znth at 1. replace (Z.of_nat i <? 0) with false by lia. rewrite Nat2Z.id.
  destruct (nth_error l i) as [x|] eqn:Ex; [|apply nth_error_None in Ex; lia]. cbn [bind].
  rewrite <- seq_shift, map_map.
  rewrite (mapM_ext_in' _ (fun p => let j := p - start in if j <? 0 then Err OtherErr else match znth j l with Some x => Ok x | None => Err IndexError end)) by reflexivity.
  replace (map (fun x0 : nat => start + Z.of_nat (i + S x0)) (List.seq 0 n)) with (map (fun k => start + Z.of_nat (S i + k)) (List.seq 0 n))
    by (apply map_ext; intros k; f_equal; lia).
  rewrite (IH (S i)) by lia. cbn [bind]. rewrite (skipn_nth_cons _ _ _ Ex). reflexivity.
Qed.

Lemma seq_get_at_range q a n : s_start q <= a -> a + Z.of_nat n <= s_start q + s_len q ->
  seq_get_at q (zrange a (a + Z.of_nat n)) = Ok (py_slice (a - s_start q) (a - s_start q + Z.of_nat n) (s_bases q)).
Proof.
  intros Ha Hb. unfold seq_get_at, py_slice, zfirstn, zskipn, s_len, zlen in *.
  replace (Z.to_nat (a - s_start q + Z.of_nat n - (a - s_start q))) with n by lia.
  rewrite zrange_as_seq.
  replace (map (fun k => a + Z.of_nat k) (List.seq 0 n)) with (map (fun k => s_start q + Z.of_nat (Z.to_nat (a - s_start q) + k)) (List.seq 0 n))
    by (apply map_ext; intros k; lia).
  apply get_at_seq. lia.
Qed.

Definition walk_segment (c : cds_seq) (r : range) : list Z := c_prefix_pos c ++ positions r ++ c_suffix_pos c.

Lemma positions_as_zrange r : rs r <= re r -> positions r = zrange (rs r) (rs r + Z.of_nat (Z.to_nat (rlen r))).
Proof. intros H. unfold positions, rlen. f_equal. lia. Qed.

(* the extended coding sequence is the sequence read at the walk segment *)
Theorem ext_is_walk_bases t q e r c :
  get_cds_seq_exon t q e r = Ok c -> 0 <= rs r <= re r -> s_start q <= rs r -> re r - s_start q + 1 <= s_len q ->
  seq_get_at q (walk_segment c r) = Ok (c_ext c) /\ zlen (c_prefix_pos c) = zlen (c_prefix c) /\
  zlen (c_suffix_pos c) = zlen (c_suffix c) /\ c_len c = rlen r /\ c_start c = rs r /\ c_ext_length c mod 3 = 0.
Proof.
  intros Hc Hr H1 H2. pose proof Hc as Hc0. unfold get_cds_seq_exon in Hc.
  destruct (range_in r (x_range e)) eqn:Ein; [|discriminate]. cbn [negb] in Hc.
  destruct (range_cds_exts (t_strand t) e r) as [[before after]|] eqn:Ex; [|discriminate]. cbn [bind] in Hc.
  destruct (exon_list_index t (x_index e)) as [i|]; [|discriminate]. cbn [bind] in Hc.
  destruct (get_before (t_exons t) i r before) as [bp|]; [|discriminate]. cbn [bind] in Hc.
  destruct (get_after (t_exons t) i r after) as [ap|]; [|discriminate]. cbn [bind] in Hc.
  destruct ((zlen bp =? before) && (zlen ap =? after)) eqn:El; [|discriminate]. cbn [negb] in Hc.
  destruct (substr q r) as [main|] eqn:Es; [|discriminate]. cbn [bind] in Hc.
  destruct (seq_get_at q bp) as [pre|] eqn:Ep; [|discriminate]. cbn [bind] in Hc.
  destruct (seq_get_at q ap) as [suf|] eqn:Esf; [|discriminate]. cbn [bind] in Hc.
  match type of Hc with (if negb ?b then _ else _) = _ => destruct b eqn:Eb; [|discriminate] end. cbn [negb] in Hc.
  apply Ok_inj in Hc. subst c. unfold walk_segment, c_ext, c_len. cbn [c_prefix_pos c_suffix_pos c_prefix c_suffix c_bases c_start].
  assert (Hmain : seq_get_at q (positions r) = Ok main).
  { rewrite positions_as_zrange by lia. rewrite seq_get_at_range; [| lia | unfold rlen; lia].
    unfold substr, mk_range in Es. destruct ((0 <=? rs r - s_start q) && (rs r - s_start q <=? re r - s_start q)); [|discriminate].
    cbn [bind rs re] in Es. rewrite <- Es. do 2 f_equal. unfold rlen. lia. }
  pose proof (seq_get_at_length _ _ _ Ep) as Hlp. pose proof (seq_get_at_length _ _ _ Esf) as Hls.
  pose proof (seq_get_at_length _ _ _ Hmain) as Hlm. unfold positions in Hlm. rewrite zrange_length in Hlm by lia.
  repeat split; try lia.
  - unfold seq_get_at in *. apply mapM_app; [assumption|]. now apply mapM_app.
  - unfold rlen. lia.
Qed.

Lemma znth_app_l {X} (a b : list X) i : 0 <= i < zlen a -> znth i (a ++ b) = znth i a.
Proof. intros H. unfold znth, zlen in *. destruct (i <? 0); [reflexivity|]. apply nth_error_app1. lia. Qed.
Lemma znth_app_r {X} (a b : list X) i : zlen a <= i -> znth i (a ++ b) = znth (i - zlen a) b.
Proof.
  intros H. unfold znth, zlen in *. replace (i <? 0) with false by lia. replace (i - Z.of_nat (length a) <? 0) with false by lia.
  rewrite nth_error_app2 by lia. f_equal. lia.
Qed.
Lemma znth_zrange a b k : 0 <= k < b - a -> znth k (zrange a b) = Some (a + k).
Proof.
  intros H. replace b with (a + Z.of_nat (Z.to_nat (b - a))) by lia. rewrite zrange_as_seq. unfold znth.
  replace (k <? 0) with false by lia. rewrite nth_error_map, nth_error_nth' with (d := 0%nat) by (rewrite seq_length; lia).
  rewrite seq_nth by lia. cbn. f_equal. lia.
Qed.
Lemma nth_error_firstn' {X} (l : list X) : forall n k, (k < n)%nat -> nth_error (firstn n l) k = nth_error l k.
Proof. induction l as [|x l IH]; intros [|n] [|k] H; cbn; try reflexivity; try lia. apply IH. lia. Qed.
Lemma nth_error_skipn' {X} (l : list X) : forall n k, nth_error (skipn n l) k = nth_error l (n + k).
Proof. induction l as [|x l IH]; intros [|n] k; cbn; try reflexivity; [now destruct k|apply IH]. Qed.
Lemma znth_py_slice {X} (l : list X) a b k : 0 <= a -> 0 <= k < b - a -> znth k (py_slice a b l) = znth (a + k) l.
Proof.
  intros Ha Hk. unfold znth, py_slice, zfirstn, zskipn. replace (k <? 0) with false by lia. replace (a + k <? 0) with false by lia.
  rewrite nth_error_firstn' by lia. rewrite nth_error_skipn'. f_equal. lia.
Qed.

(* C04, end to end for an SNV: the annotated codon is read from three consecutive positions of the walk over the coding
   sequence, the mutated position among them at the recorded offset; ref_aa / alt_aa translate it before and after *)
Theorem annot_is_walk_translation tb t q e r c p x y src a :
  get_cds_seq_exon t q e r = Ok c -> 0 <= rs r <= re r -> s_start q <= rs r -> re r - s_start q + 1 <= s_len q ->
  rs r <= p <= re r -> annotate tb c (mkVar p [x] [y]) src = Ok a ->
  let W := walk_segment c r in
  let o := zlen (c_prefix_pos c) + (p - rs r) in
  let codon_pos := py_slice (o - o mod 3) (o - o mod 3 + 3) W in
  zlen codon_pos = 3 /\ znth (o mod 3) codon_pos = Some p /\ a_offset a = o mod 3 /\
  seq_get_at q codon_pos = Ok (a_codon_ref a) /\
  translate tb (a_codon_ref a) = Ok (a_aa_ref a) /\
  translate tb (zfirstn (o mod 3) (a_codon_ref a) ++ [y] ++ zskipn (o mod 3 + 1) (a_codon_ref a)) = Ok (a_aa_alt a).
Proof.
  intros Hc Hr H1 H2 Hp Ha W o codon_pos.
  destruct (ext_is_walk_bases _ _ _ _ _ Hc Hr H1 H2) as (HW & Hlp & Hls & Hlen & Hst & Hm3).
  destruct (annot_snv_correct _ _ _ _ _ _ _ Ha) as (Ho & _ & Hoff & Href & Halt & H3 & _ & Htr & Hta).
  assert (Ho' : p - c_start c + zlen (c_prefix c) = o) by (unfold o; lia).
  cbv zeta in Ho, Hoff, Href, Halt. rewrite Ho' in Ho, Hoff, Href, Halt.
  assert (HlW : zlen W = c_ext_length c).
  { unfold W, walk_segment, c_ext_length. rewrite !zlen_app. unfold positions. rewrite zrange_length by lia. unfold rlen in Hlen. lia. }
  assert (Hcl : zlen codon_pos = 3) by (unfold codon_pos; rewrite py_slice_length_in; lia).
  repeat split; auto.
  - unfold codon_pos. rewrite znth_py_slice by lia. replace (o - o mod 3 + o mod 3) with o by lia.
    unfold W, walk_segment. rewrite znth_app_r by lia. rewrite znth_app_l by (unfold positions; rewrite zrange_length; lia).
    unfold positions. rewrite znth_zrange by lia. f_equal. lia.
  - rewrite Href. unfold codon_pos, seq_get_at in *. now apply mapM_slice.
  - rewrite <- Halt. exact Hta.
Qed.
