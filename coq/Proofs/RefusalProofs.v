(* C19: refusal rules - regions against exons, targeton ranges, one PAM edit per codon slot, labels. *)
From VV Require Import Model.Base Model.Pattern Model.CodonTable Model.Transcript Model.Mutators Model.Targeton Model.Views Model.Refusal
  Proofs.BaseLemmas Proofs.CodonProofs.
From Coq Require Import ZifyBool.

Definition overlaps_exon (e : exon) (r : range) : Prop := x_start e <= re r /\ rs r <= x_end e.
Definition inside_exon (e : exon) (r : range) : Prop := x_start e <= rs r /\ re r <= x_end e.

Lemma exons_overlapping_In exons r e : In e (exons_overlapping exons r) <-> In e exons /\ overlaps_exon e r.
Proof. unfold exons_overlapping, overlaps_exon. rewrite filter_In. intuition lia. Qed.

(* a region that touches an exon without lying inside it - it starts or ends in an intron, covers a whole exon, or reaches
   into a second exon - is refused *)
Theorem region_straddles_refused exons r e :
  rs r <= re r -> In e exons -> overlaps_exon e r -> ~ inside_exon e r ->
  region_exon_id exons r = Err InvalidTargetonRegion.
Proof.
  intros Hr Hin Hov Hni. unfold region_exon_id.
  assert (He : In e (exons_overlapping exons r)) by (apply exons_overlapping_In; auto).
  destruct (exons_overlapping exons r) as [|e1 [|e2 l]] eqn:E; [destruct He| |reflexivity].
  destruct He as [<-|[]]. replace (range_in r (x_range e1)) with false; [reflexivity|].
  symmetry. unfold range_in, in_range, x_range, inside_exon, overlaps_exon in *. cbn [rs re] in *. lia.
Qed.

Theorem region_two_exons_refused exons r e1 e2 :
  In e1 exons -> In e2 exons -> e1 <> e2 -> NoDup exons -> overlaps_exon e1 r -> overlaps_exon e2 r ->
  region_exon_id exons r = Err InvalidTargetonRegion.
Proof.
  intros H1 H2 Hne Hnd Ho1 Ho2. unfold region_exon_id.
  assert (Ha : In e1 (exons_overlapping exons r)) by (apply exons_overlapping_In; auto).
  assert (Hb : In e2 (exons_overlapping exons r)) by (apply exons_overlapping_In; auto).
  destruct (exons_overlapping exons r) as [|a [|b l]] eqn:E; [destruct Ha| |reflexivity].
  destruct Ha as [<-|[]]. destruct Hb as [<-|[]]. congruence.
Qed.

(* conversely a region inside one exon of a transcript with pairwise disjoint exons is accepted as coding, and a region
   that touches no exon as non-coding: no spurious refusal *)
Definition disjoint_exons (exons : list exon) : Prop :=
  forall a b, In a exons -> In b exons -> a <> b -> x_end a < x_start b \/ x_end b < x_start a.

Theorem region_inside_accepted exons r e :
  rs r <= re r -> NoDup exons -> disjoint_exons exons -> In e exons -> inside_exon e r ->
  region_exon_id exons r = Ok (Some (x_index e)).
Proof.
  intros Hr Hnd Hdj Hin Hins. unfold region_exon_id.
  assert (Hov : exons_overlapping exons r = [e]).
  { unfold exons_overlapping. revert Hnd Hdj Hin. induction exons as [|a exons IH]; intros Hnd Hdj Hin; [destruct Hin|].
    inversion Hnd as [|? ? Hna Hnd']; subst. cbn [filter]. destruct Hin as [->|Hin].
    - replace ((x_start e <=? re r) && (rs r <=? x_end e)) with true by (unfold inside_exon in Hins; lia). f_equal.
      assert (Hnone : forall b, In b exons -> ((x_start b <=? re r) && (rs r <=? x_end b)) = false).
      { intros b Hb. assert (Hne : e <> b) by (intros ->; contradiction).
        destruct (Hdj e b (or_introl eq_refl) (or_intror Hb) Hne); unfold inside_exon in Hins; lia. }
      clear -Hnone. induction exons as [|b exons IH]; [reflexivity|]. cbn [filter]. rewrite Hnone by now left. apply IH. intros; apply Hnone; now right.
    - assert (Hne : e <> a) by (intros ->; contradiction).
      replace ((x_start a <=? re r) && (rs r <=? x_end a)) with false.
      + apply IH; auto. intros x y Hx Hy. apply Hdj; now right.
      + symmetry. destruct (Hdj e a (or_intror Hin) (or_introl eq_refl) Hne); unfold inside_exon in Hins; lia. }
  rewrite Hov. replace (range_in r (x_range e)) with true; [reflexivity|].
  symmetry. unfold range_in, in_range, x_range, inside_exon in *. cbn [rs re]. lia.
Qed.

Theorem region_noncoding_accepted exons r :
  (forall e, In e exons -> ~ overlaps_exon e r) -> region_exon_id exons r = Ok None.
Proof.
  intros H. unfold region_exon_id. replace (exons_overlapping exons r) with (@nil exon); [reflexivity|].
  symmetry. unfold exons_overlapping. induction exons as [|a exons IH]; [reflexivity|]. cbn [filter].
  replace ((x_start a <=? re r) && (rs r <=? x_end a)) with false.
  - apply IH. intros; apply H; now right.
  - symmetry. specialize (H a (or_introl eq_refl)). unfold overlaps_exon in H. lia.
Qed.

(* TargetonConfig.__post_init__: accepted exactly when region 2 and both extensions stay inside the targeton *)
Theorem targeton_validate_iff c :
  validate c = Ok tt <->
  rs (t_ref c) <= rs (t_r2 c) /\ re (t_r2 c) <= re (t_ref c) /\ rs (t_ref c) <= rs (t_r2 c) - t_e1 c /\ re (t_r2 c) + t_e3 c <= re (t_ref c).
Proof.
  unfold validate.
  destruct ((rs (t_r2 c) <? rs (t_ref c)) || (re (t_ref c) <? re (t_r2 c))) eqn:E1; [split; [discriminate|lia]|].
  destruct (rs (t_r2 c) - t_e1 c <? rs (t_ref c)) eqn:E2; [split; [discriminate|lia]|].
  destruct (re (t_ref c) <? re (t_r2 c) + t_e3 c) eqn:E3; [split; [discriminate|lia]|].
  split; [lia|reflexivity].
Qed.

(* two registered PAM edits in one codon slot (same exon, same codon index) are refused *)
Theorem two_ppe_one_codon_refused exons t1 t2 e :
  exon_at exons (tp_start t1) = Some e -> exon_at exons (tp_start t2) = Some e ->
  codon_index (e_fcs e) (tp_start t1) = codon_index (e_fcs e) (tp_start t2) ->
  insert_ecps exons [t1; t2] [] = Err InvalidPamVariant.
Proof.
  intros H1 H2 Hc. cbn [insert_ecps]. rewrite H1. cbn [existsb app]. rewrite H2. cbn [existsb].
  rewrite Hc, !Z.eqb_refl. reflexivity.
Qed.

(* labels: every label the tool prints parses back to the mutator; the six fixed names and nothing like them *)
Theorem fixed_labels_parse :
  parse_label "snv" = Ok MSnv /\ parse_label "snvre" = Ok MSnvRe /\ parse_label "inframe" = Ok MInframe /\
  parse_label "ala" = Ok MAla /\ parse_label "stop" = Ok MStop /\ parse_label "aa" = Ok MAa /\
  parse_label "del" = Err InvalidMutator /\ parse_label "0del" = Err InvalidMutator /\ parse_label "" = Err InvalidMutator.
Proof. vm_compute. repeat split. Qed.

Theorem deletion_labels_roundtrip :
  forallb (fun s => forallb (fun o => res_eqb mkind_eqb (parse_label (full_label (MDelK s o))) (Ok (MDelK s o))) (zrange 0 40)) (zrange 1 40) = true.
Proof. vm_compute. reflexivity. Qed.
