(* C09 at the level of one metadata row: the records the model of the to_csv loop body writes to the two VCF files. *)
From VV Require Import Model.Base Model.Pattern Model.Seq Model.Vcf Model.Mave Model.Gpo Model.ToCsv Spec.MaveSpec
  Proofs.BaseLemmas Proofs.TargetonProofs Proofs.ApplyProofs Proofs.VcfProofs Proofs.VcfRecordProofs Proofs.MaveProofs Proofs.RowProofs Proofs.MaveRowProofs.
From Coq Require Import ZifyBool.
From VV Require Import Proofs.VcfRowProofs.

Theorem row_pam_record_ok_bg c g mr o xa (T : dna) pv r :
  row_out c mr = Ok o -> o_vcf_pam o = Some r -> cx_gpo c = Some g -> mr_custom mr = false -> mr_vcf_nt mr = None ->
  p_seq (cx_alt c) = mkSeq xa T -> p_prev (cx_alt c) = Some pv -> 1 <= xa ->
  mr_end mr = get_end (mr_alt_pos mr) (zlen (mr_ref mr)) ->
  let a := mr_alt_pos mr - xa in
  0 <= a -> a + zlen (mr_ref mr) <= zlen T -> 4 <= mr_ref_pos mr ->
  xa <= opt_min (mr_alt_pos mr) (mr_start_ppe mr) -> opt_max (mr_end mr) (mr_end_ppe mr) <= xa + zlen T - 1 ->
  (forall y, alt_to_ref_position g (opt_min (mr_alt_pos mr) (mr_start_ppe mr)) = Ok (Some y) -> 1 <= y) ->
  mr_oligo mr = zfirstn a T ++ mr_alt mr ++ zskipn (a + zlen (mr_ref mr)) T ->
  exists delta,
    (delta = mr_ref_pos mr - mr_alt_pos mr \/
     exists ya, alt_to_ref_position g (opt_min (mr_alt_pos mr) (mr_start_ppe mr)) = Ok (Some ya) /\ delta = ya - opt_min (mr_alt_pos mr) (mr_start_ppe mr)) /\
    rec_ok (xa + delta - 1) (pv :: T) r (pv :: mr_oligo mr).
Proof.
  intros Hrow Hvcf Hg Hcus Hnt Halt Hprev Hx1 Hend a Ha Hfit H4 Hlo Hhi Hy Holigo.
  unfold row_out in Hrow. rewrite Hg, Hcus, Hnt in Hrow. set (x0 := s_start (p_seq (cx_seq c))) in *.
  destruct (mk_variant (mr_ref_pos mr) (mr_ref mr) (mr_alt mr)) as [v0|] eqn:Ev0; [|discriminate]. cbn [bind] in Hrow.
  destruct (var_type (mr_ref mr) (mr_alt mr)) as [vt|] eqn:Evt; [|discriminate]. cbn [bind] in Hrow.
  match type of Hrow with (do refs <- ?r; _) = _ => destruct r as [[ref_ref pam_ref]|] eqn:Erefs; [|discriminate] end.
  cbn [bind fst snd] in Hrow.
  destruct (get_mave_nt (mr_ref_pos mr) x0 vt ref_ref (mr_alt mr)) as [mv_ref|] eqn:Emr; [|discriminate]. cbn [bind] in Hrow.
  destruct (get_mave_nt (mr_ref_pos mr) x0 vt pam_ref (mr_alt mr)) as [mv0|] eqn:Em0; [|discriminate]. cbn [bind] in Hrow.
  destruct (mk_variant (mr_ref_pos mr) pam_ref (mr_alt mr)) as [nv|] eqn:Env; [|discriminate]. cbn [bind] in Hrow.
  cbn [is_some negb andb] in Hrow. rewrite !andb_true_r, !andb_false_r in Hrow. cbv iota in Hrow.
  match type of Hrow with (do nts <- ?r; _) = _ => destruct r as [[[[[n1 n2] n3] n4] n5]|] eqn:Ents; [|discriminate] end.
  cbn [bind] in Hrow.
  match type of Hrow with (do wid <- ?r; _) = _ => destruct r as [wid|] eqn:Ewid; [|discriminate] end.
  cbn [bind] in Hrow.
  match type of Hrow with (do vcfs <- ?r; _) = _ => destruct r as [vcfs|] eqn:Evcfs; [|discriminate] end.
  cbn [bind] in Hrow. injection Hrow as <-. cbn [o_vcf_pam] in Hvcf.
  (* the record exists only for an included SGE row *)
  match type of Evcfs with (if ?b then _ else _) = _ => destruct b; [|injection Evcfs as <-; discriminate] end.
  match type of Evcfs with (do r1 <- ?m; _) = _ => destruct m as [r1|]; [|discriminate] end. cbn [bind] in Evcfs.
  match type of Evcfs with (do r2 <- ?m; _) = _ => destruct m as [r2|] eqn:Er2; [|discriminate] end. cbn [bind] in Evcfs.
  injection Evcfs as <-. cbn [snd] in Hvcf. injection Hvcf as ->.
  (* the template's content at the mutated position *)
  assert (Hpam : pam_ref = py_slice a (a + zlen (mr_ref mr)) T /\ zlen pam_ref = zlen (mr_ref mr)).
  { destruct (mr_ref mr) as [|x rr] eqn:Er; cbn [is_nil] in Erefs.
    - injection Erefs as <- <-. rewrite zlen_nil, Z.add_0_r, py_slice_empty. auto.
    - destruct (psubstr (cx_seq c) (mr_ref_pos mr) (get_end (mr_ref_pos mr) (zlen (x :: rr)))) as [rrr|]; [|discriminate].
      cbn [bind] in Erefs.
      destruct (psubstr (cx_alt c) (mr_alt_pos mr) (mr_end mr)) as [pr|] eqn:Epr; [|discriminate]. cbn [bind] in Erefs.
      injection Erefs as <- <-. apply psubstr_slice in Epr. rewrite Halt in Epr. cbn [s_start s_bases] in Epr.
      destruct Epr as [_ ->]. rewrite Hend. unfold get_end. pose proof (zlen_nonneg rr). rewrite zlen_cons in *.
      fold a. replace (mr_alt_pos mr + Z.max 0 (1 + zlen rr - 1) - xa + 1) with (a + (1 + zlen rr)) by (unfold a; lia).
      split; [reflexivity|]. rewrite py_slice_length_in; lia. }
  destruct Hpam as [Hpam Hpl].
  assert (HT3 : T = zfirstn a T ++ pam_ref ++ zskipn (a + zlen (mr_ref mr)) T).
  { rewrite Hpam. apply split3; [lia|]. pose proof (zlen_nonneg (mr_ref mr)). lia. }
  destruct wid as [[[[[[cr pcr] pa] dn] prs] mv]|].
  - (* widened to the PAM codon: plain alleles over the window *)
    destruct (is_some (mr_start_exon mr) || is_some (mr_end_exon mr)); [|discriminate]. cbn [bind] in Ewid.
    set (ps := opt_min (mr_alt_pos mr) (mr_start_ppe mr)) in *. set (pe := opt_max (mr_end mr) (mr_end_ppe mr)) in *.
    destruct (mk_range ps pe) as [pr|] eqn:Epr; [|discriminate]. cbn [bind] in Ewid.
    unfold mk_range in Epr. destruct ((0 <=? ps) && (ps <=? pe)) eqn:Ebnd; [|discriminate]. injection Epr as <-. cbn [rs re] in Ewid.
    match type of Ewid with (if ?b then _ else _) = _ => destruct b; [|discriminate] end.
    destruct (psubstr (cx_alt c) ps pe) as [pcr'|] eqn:Epcr; [|discriminate]. cbn [bind fst snd] in Ewid.
    destruct (alt_to_ref_position g ps) as [[ya|]|] eqn:Eya; cbn [bind] in Ewid; try discriminate;
      [|destruct (alt_to_ref_position g pe) as [[?|]|]; cbn [bind] in Ewid; discriminate].
    destruct (alt_to_ref_position g pe) as [[yb|]|] eqn:Eyb; cbn [bind fst snd] in Ewid; try discriminate.
    destruct (psubstr (cx_seq c) ya yb) as [cr'|]; [|discriminate]. cbn [bind] in Ewid.
    match type of Ewid with (do pa <- ?m; _) = _ => destruct m as [pa'|] eqn:Epa; [|discriminate] end. cbn [bind] in Ewid.
    match type of Ewid with (do mv <- ?m; _) = _ => destruct m as [mv'|] eqn:Emv; [|discriminate] end. cbn [bind] in Ewid.
    injection Ewid as <- <- <- <- <- <-.
    apply psubstr_slice in Epcr. rewrite Halt in Epcr. cbn [s_start s_bases] in Epcr. destruct Epcr as [Hb1 ->].
    apply psubstr_slice in Epa. cbn [p_seq s_start s_bases] in Epa. rewrite Halt in Epa. cbn [s_start] in Epa. destruct Epa as [Hb2 ->].
    assert (Hps : ps <= mr_alt_pos mr) by (unfold ps, opt_min; destruct (mr_start_ppe mr); lia).
    assert (Hpe : mr_end mr <= pe) by (unfold pe, opt_max; destruct (mr_end_ppe mr); lia).
    set (u := ps - xa) in *. set (w := pe - xa + 1) in *.
    assert (Hw : a + zlen (mr_ref mr) <= w).
    { unfold w, a. rewrite Hend in Hpe. unfold get_end in Hpe. pose proof (zlen_nonneg (mr_ref mr)). lia. }
    destruct (widen_same T (mr_alt mr) a (zlen (mr_ref mr)) u w) as [Hsl Hsame]; try (unfold u, w, a in *; lia).
    { apply zlen_nonneg. }
    cbv zeta in Hsl, Hsame. rewrite <- Holigo in Hsl, Hsame.
    replace (pe + (zlen (mr_alt mr) - zlen (mr_ref mr)) - xa + 1) with (w + (zlen (mr_alt mr) - zlen (mr_ref mr))) in * by (unfold w; lia).
    set (alt' := py_slice u (w + (zlen (mr_alt mr) - zlen (mr_ref mr))) (mr_oligo mr)) in *.
    cbv iota beta in Er2.
    assert (HTw : T = zfirstn u T ++ py_slice u w T ++ zskipn w T) by (apply split3; unfold u, w in *; lia).
    exists (ya - ps). split; [right; exists ya; split; reflexivity|].
    pose proof (mk_record_plain_ok (xa + (ya - ps) - 1) (pv :: zfirstn u T) (py_slice u w T) alt' (zskipn w T) ya _ r Er2) as Hok.
    replace ((pv :: zfirstn u T) ++ py_slice u w T ++ zskipn w T) with (pv :: T) in Hok by (cbn [app]; now rewrite <- HTw).
    replace ((pv :: zfirstn u T) ++ alt' ++ zskipn w T) with (pv :: mr_oligo mr) in Hok by (cbn [app]; now rewrite Hsame).
    apply Hok; [|specialize (Hy ya eq_refl); lia]. rewrite zlen_cons, zfirstn_length by (unfold u; lia). unfold u in *. lia.
  - (* not widened *)
    cbv iota beta in Er2. exists (mr_ref_pos mr - mr_alt_pos mr). split; [left; reflexivity|]. set (X := xa + (mr_ref_pos mr - mr_alt_pos mr)) in *.
    destruct vt.
    + (* insertion: anchored *)
      assert (Href0 : mr_ref mr = []) by (unfold var_type in Evt; destruct (mr_ref mr), (mr_alt mr); try discriminate; reflexivity).
      cbn [vtype_eqb negb andb] in Ents.
      destruct (get_nt (cx_seq c) (mr_ref_pos mr - 1)) as [rn|]; [|discriminate]. cbn [bind] in Ents.
      destruct (get_nt (cx_alt c) (mr_alt_pos mr - 1)) as [an|] eqn:Ean; [|discriminate]. cbn [bind] in Ents.
      injection Ents as <- <- <- <- <-.
      rewrite Href0, zlen_nil in *. assert (pam_ref = []) as -> by (now apply zlen_zero_nil).
      destruct (Z.eq_dec a 0) as [Ha0|Ha0].
      * (* the anchor is the nucleotide preceding the targeton *)
        assert (an = pv).
        { assert (Hpp : mr_alt_pos mr - 1 = s_start (p_seq (cx_alt c)) - 1) by (rewrite Halt; cbn [s_start]; unfold a in Ha0; lia).
          apply (get_nt_prev _ _ _ Hpp) in Ean. congruence. }
        subst an.
        pose proof (mk_record_anchored_ok (X - 1) [] pv [] (mr_alt mr) T (mr_ref_pos mr) _ r Er2) as Hok.
        cbn [app] in Hok. rewrite Holigo, Ha0. rewrite Z.add_0_r. unfold zfirstn, zskipn. cbn [Z.to_nat firstn skipn app].
        apply Hok; [rewrite zlen_nil; unfold a in Ha0; lia|lia|now left].
      * assert (Han : znth (a - 1) T = Some an).
        { apply get_nt_inside in Ean; rewrite Halt in *; cbn [s_start s_bases] in *; [|unfold a in *; lia].
          replace (mr_alt_pos mr - 1 - xa) with (a - 1) in Ean by (unfold a; lia). exact Ean. }
        assert (HTa : T = zfirstn (a - 1) T ++ an :: zskipn a T).
        { rewrite (split3 (a - 1) (a - 1 + 1) T) at 1 by lia. rewrite (py_slice_one _ _ _ Han). replace (a - 1 + 1) with a by lia. reflexivity. }
        pose proof (mk_record_anchored_ok (X - 1) (pv :: zfirstn (a - 1) T) an [] (mr_alt mr) (zskipn a T) (mr_ref_pos mr) _ r Er2) as Hok.
        replace ((pv :: zfirstn (a - 1) T) ++ [an] ++ [] ++ zskipn a T) with (pv :: T) in Hok by (cbn [app]; f_equal; exact HTa).
        replace ((pv :: zfirstn (a - 1) T) ++ [an] ++ mr_alt mr ++ zskipn a T) with (pv :: mr_oligo mr) in Hok.
        2:{ assert (Hfa : zfirstn a T = zfirstn (a - 1) T ++ [an]).
            { rewrite <- (zfirstn_succ_nth (a - 1) T an) by (auto; lia). f_equal. lia. }
            cbn [app]. f_equal. rewrite Holigo, Z.add_0_r, Hfa, <- !app_assoc. reflexivity. }
        apply Hok; [|lia|now left]. rewrite zlen_cons, zfirstn_length by lia. unfold a in *. lia.
    + (* deletion: anchored *)
      assert (Halt0 : mr_alt mr = []) by (unfold var_type in Evt; destruct (mr_ref mr), (mr_alt mr); try discriminate; reflexivity).
      cbn [vtype_eqb negb andb] in Ents.
      destruct (get_nt (cx_seq c) (mr_ref_pos mr - 1)) as [rn|]; [|discriminate]. cbn [bind] in Ents.
      destruct (get_nt (cx_alt c) (mr_alt_pos mr - 1)) as [an|] eqn:Ean; [|discriminate]. cbn [bind] in Ents.
      injection Ents as <- <- <- <- <-.
      rewrite Halt0 in *.
      destruct (Z.eq_dec a 0) as [Ha0|Ha0].
      * assert (an = pv).
        { assert (Hpp : mr_alt_pos mr - 1 = s_start (p_seq (cx_alt c)) - 1) by (rewrite Halt; cbn [s_start]; unfold a in Ha0; lia).
          apply (get_nt_prev _ _ _ Hpp) in Ean. congruence. }
        subst an.
        pose proof (mk_record_anchored_ok (X - 1) [] pv pam_ref [] (zskipn (a + zlen (mr_ref mr)) T) (mr_ref_pos mr) _ r Er2) as Hok.
        cbn [app] in Hok.
        replace (pv :: pam_ref ++ zskipn (a + zlen (mr_ref mr)) T) with (pv :: T) in Hok.
        2:{ f_equal. rewrite HT3 at 1. rewrite Ha0. unfold zfirstn. cbn [Z.to_nat firstn app]. reflexivity. }
        replace (pv :: zskipn (a + zlen (mr_ref mr)) T) with (pv :: mr_oligo mr) in Hok.
        2:{ f_equal. rewrite Holigo, Ha0. unfold zfirstn. cbn [Z.to_nat firstn app]. reflexivity. }
        apply Hok; [rewrite zlen_nil; unfold a in Ha0; lia|lia|now right].
      * assert (Han : znth (a - 1) T = Some an).
        { apply get_nt_inside in Ean; rewrite Halt in *; cbn [s_start s_bases] in *; [|unfold a in *; lia].
          replace (mr_alt_pos mr - 1 - xa) with (a - 1) in Ean by (unfold a; lia). exact Ean. }
        assert (Hfa : zfirstn a T = zfirstn (a - 1) T ++ [an]).
        { rewrite <- (zfirstn_succ_nth (a - 1) T an) by (auto; lia). f_equal. lia. }
        pose proof (mk_record_anchored_ok (X - 1) (pv :: zfirstn (a - 1) T) an pam_ref [] (zskipn (a + zlen (mr_ref mr)) T) (mr_ref_pos mr) _ r Er2) as Hok.
        replace ((pv :: zfirstn (a - 1) T) ++ [an] ++ pam_ref ++ zskipn (a + zlen (mr_ref mr)) T) with (pv :: T) in Hok.
        2:{ cbn [app]. f_equal. rewrite HT3 at 1. rewrite Hfa, <- !app_assoc. reflexivity. }
        replace ((pv :: zfirstn (a - 1) T) ++ [an] ++ [] ++ zskipn (a + zlen (mr_ref mr)) T) with (pv :: mr_oligo mr) in Hok.
        2:{ cbn [app]. f_equal. rewrite Holigo, Hfa, <- !app_assoc. reflexivity. }
        pose proof (zlen_nonneg (mr_ref mr)). apply Hok; [|lia|now right]. rewrite zlen_cons, zfirstn_length by lia. unfold a in *. lia.
    + (* substitution: plain alleles *)
      cbn [vtype_eqb negb andb] in Ents. injection Ents as <- <- <- <- <-.
      pose proof (mk_record_plain_ok (X - 1) (pv :: zfirstn a T) pam_ref (mr_alt mr) (zskipn (a + zlen (mr_ref mr)) T) (mr_ref_pos mr) _ r Er2) as Hok.
      replace ((pv :: zfirstn a T) ++ pam_ref ++ zskipn (a + zlen (mr_ref mr)) T) with (pv :: T) in Hok by (cbn [app]; now rewrite <- HT3).
      replace ((pv :: zfirstn a T) ++ mr_alt mr ++ zskipn (a + zlen (mr_ref mr)) T) with (pv :: mr_oligo mr) in Hok by (cbn [app]; now rewrite Holigo).
      pose proof (zlen_nonneg (mr_ref mr)). apply Hok; [|lia]. rewrite zlen_cons, zfirstn_length by lia. unfold a in *. lia.
    + unfold var_type in Evt. destruct (mr_ref mr), (mr_alt mr); discriminate.
Qed.

Theorem row_pam_record_ok_bg_custom_indel c g mr o xa (T : dna) pv r v :
  row_out c mr = Ok o -> o_vcf_pam o = Some r -> cx_gpo c = Some g -> mr_custom mr = true -> mr_vcf_nt mr = Some v -> 4 <= mr_alt_pos mr ->
  p_seq (cx_alt c) = mkSeq xa T -> p_prev (cx_alt c) = Some pv -> 1 <= xa ->
  mr_end mr = get_end (mr_alt_pos mr) (zlen (mr_ref mr)) ->
  let a := mr_alt_pos mr - xa in
  0 <= a -> a + zlen (mr_ref mr) <= zlen T -> 4 <= mr_ref_pos mr ->
  xa <= opt_min (mr_alt_pos mr) (mr_start_ppe mr) -> opt_max (mr_end mr) (mr_end_ppe mr) <= xa + zlen T - 1 ->
  (forall y, alt_to_ref_position g (opt_min (mr_alt_pos mr) (mr_start_ppe mr)) = Ok (Some y) -> 1 <= y) ->
  mr_oligo mr = zfirstn a T ++ mr_alt mr ++ zskipn (a + zlen (mr_ref mr)) T ->
  exists delta,
    (delta = mr_ref_pos mr - mr_alt_pos mr \/
     exists ya, alt_to_ref_position g (opt_min (mr_alt_pos mr) (mr_start_ppe mr)) = Ok (Some ya) /\ delta = ya - opt_min (mr_alt_pos mr) (mr_start_ppe mr)) /\
    rec_ok (xa + delta - 1) (pv :: T) r (pv :: mr_oligo mr).
Proof.
  intros Hrow Hvcf Hg Hcus Hnt H4a Halt Hprev Hx1 Hend a Ha Hfit H4 Hlo Hhi Hy Holigo.
  unfold row_out in Hrow. rewrite Hg, Hcus, Hnt in Hrow. set (x0 := s_start (p_seq (cx_seq c))) in *.
  destruct (mk_variant (mr_ref_pos mr) (mr_ref mr) (mr_alt mr)) as [v0|] eqn:Ev0; [|discriminate]. cbn [bind] in Hrow.
  destruct (var_type (mr_ref mr) (mr_alt mr)) as [vt|] eqn:Evt; [|discriminate]. cbn [bind] in Hrow.
  match type of Hrow with (do refs <- ?r; _) = _ => destruct r as [[ref_ref pam_ref]|] eqn:Erefs; [|discriminate] end.
  cbn [bind fst snd] in Hrow.
  destruct (get_mave_nt (mr_ref_pos mr) x0 vt ref_ref (mr_alt mr)) as [mv_ref|] eqn:Emr; [|discriminate]. cbn [bind] in Hrow.
  destruct (get_mave_nt (mr_ref_pos mr) x0 vt pam_ref (mr_alt mr)) as [mv0|] eqn:Em0; [|discriminate]. cbn [bind] in Hrow.
  destruct (mk_variant (mr_ref_pos mr) pam_ref (mr_alt mr)) as [nv|] eqn:Env; [|discriminate]. cbn [bind] in Hrow.
  cbn [is_some negb andb] in Hrow. rewrite ?andb_true_r, ?andb_false_r in Hrow. replace (1 <? mr_alt_pos mr) with true in Hrow by lia. rewrite ?andb_true_r in Hrow.
  match type of Hrow with (do nts <- ?r; _) = _ => destruct r as [[[[[n1 n2] n3] n4] n5]|] eqn:Ents; [|discriminate] end.
  cbn [bind] in Hrow.
  match type of Hrow with (do wid <- ?r; _) = _ => destruct r as [wid|] eqn:Ewid; [|discriminate] end.
  cbn [bind] in Hrow.
  match type of Hrow with (do vcfs <- ?r; _) = _ => destruct r as [vcfs|] eqn:Evcfs; [|discriminate] end.
  cbn [bind] in Hrow. injection Hrow as <-. cbn [o_vcf_pam] in Hvcf.
  (* the record exists only for an included SGE row *)
  match type of Evcfs with (if ?b then _ else _) = _ => destruct b; [|injection Evcfs as <-; discriminate] end.
  match type of Evcfs with (do r1 <- ?m; _) = _ => destruct m as [r1|]; [|discriminate] end. cbn [bind] in Evcfs.
  match type of Evcfs with (do r2 <- ?m; _) = _ => destruct m as [r2|] eqn:Er2; [|discriminate] end. cbn [bind] in Evcfs.
  injection Evcfs as <-. cbn [snd] in Hvcf. injection Hvcf as ->.
  (* the template's content at the mutated position *)
  assert (Hpam : pam_ref = py_slice a (a + zlen (mr_ref mr)) T /\ zlen pam_ref = zlen (mr_ref mr)).
  { destruct (mr_ref mr) as [|x rr] eqn:Er; cbn [is_nil] in Erefs.
    - injection Erefs as <- <-. rewrite zlen_nil, Z.add_0_r, py_slice_empty. auto.
    - destruct (psubstr (cx_seq c) (mr_ref_pos mr) (get_end (mr_ref_pos mr) (zlen (x :: rr)))) as [rrr|]; [|discriminate].
      cbn [bind] in Erefs.
      destruct (psubstr (cx_alt c) (mr_alt_pos mr) (mr_end mr)) as [pr|] eqn:Epr; [|discriminate]. cbn [bind] in Erefs.
      injection Erefs as <- <-. apply psubstr_slice in Epr. rewrite Halt in Epr. cbn [s_start s_bases] in Epr.
      destruct Epr as [_ ->]. rewrite Hend. unfold get_end. pose proof (zlen_nonneg rr). rewrite zlen_cons in *.
      fold a. replace (mr_alt_pos mr + Z.max 0 (1 + zlen rr - 1) - xa + 1) with (a + (1 + zlen rr)) by (unfold a; lia).
      split; [reflexivity|]. rewrite py_slice_length_in; lia. }
  destruct Hpam as [Hpam Hpl].
  assert (HT3 : T = zfirstn a T ++ pam_ref ++ zskipn (a + zlen (mr_ref mr)) T).
  { rewrite Hpam. apply split3; [lia|]. pose proof (zlen_nonneg (mr_ref mr)). lia. }
  destruct wid as [[[[[[cr pcr] pa] dn] prs] mv]|].
  - (* widened to the PAM codon: plain alleles over the window *)
    destruct (is_some (mr_start_exon mr) || is_some (mr_end_exon mr)); [|discriminate]. cbn [bind] in Ewid.
    set (ps := opt_min (mr_alt_pos mr) (mr_start_ppe mr)) in *. set (pe := opt_max (mr_end mr) (mr_end_ppe mr)) in *.
    destruct (mk_range ps pe) as [pr|] eqn:Epr; [|discriminate]. cbn [bind] in Ewid.
    unfold mk_range in Epr. destruct ((0 <=? ps) && (ps <=? pe)) eqn:Ebnd; [|discriminate]. injection Epr as <-. cbn [rs re] in Ewid.
    match type of Ewid with (if ?b then _ else _) = _ => destruct b; [|discriminate] end.
    destruct (psubstr (cx_alt c) ps pe) as [pcr'|] eqn:Epcr; [|discriminate]. cbn [bind fst snd] in Ewid.
    destruct (alt_to_ref_position g ps) as [[ya|]|] eqn:Eya; cbn [bind] in Ewid; try discriminate;
      [|destruct (alt_to_ref_position g pe) as [[?|]|]; cbn [bind] in Ewid; discriminate].
    destruct (alt_to_ref_position g pe) as [[yb|]|] eqn:Eyb; cbn [bind fst snd] in Ewid; try discriminate.
    destruct (psubstr (cx_seq c) ya yb) as [cr'|]; [|discriminate]. cbn [bind] in Ewid.
    match type of Ewid with (do pa <- ?m; _) = _ => destruct m as [pa'|] eqn:Epa; [|discriminate] end. cbn [bind] in Ewid.
    match type of Ewid with (do mv <- ?m; _) = _ => destruct m as [mv'|] eqn:Emv; [|discriminate] end. cbn [bind] in Ewid.
    injection Ewid as <- <- <- <- <- <-.
    apply psubstr_slice in Epcr. rewrite Halt in Epcr. cbn [s_start s_bases] in Epcr. destruct Epcr as [Hb1 ->].
    apply psubstr_slice in Epa. cbn [p_seq s_start s_bases] in Epa. rewrite Halt in Epa. cbn [s_start] in Epa. destruct Epa as [Hb2 ->].
    assert (Hps : ps <= mr_alt_pos mr) by (unfold ps, opt_min; destruct (mr_start_ppe mr); lia).
    assert (Hpe : mr_end mr <= pe) by (unfold pe, opt_max; destruct (mr_end_ppe mr); lia).
    set (u := ps - xa) in *. set (w := pe - xa + 1) in *.
    assert (Hw : a + zlen (mr_ref mr) <= w).
    { unfold w, a. rewrite Hend in Hpe. unfold get_end in Hpe. pose proof (zlen_nonneg (mr_ref mr)). lia. }
    destruct (widen_same T (mr_alt mr) a (zlen (mr_ref mr)) u w) as [Hsl Hsame]; try (unfold u, w, a in *; lia).
    { apply zlen_nonneg. }
    cbv zeta in Hsl, Hsame. rewrite <- Holigo in Hsl, Hsame.
    replace (pe + (zlen (mr_alt mr) - zlen (mr_ref mr)) - xa + 1) with (w + (zlen (mr_alt mr) - zlen (mr_ref mr))) in * by (unfold w; lia).
    set (alt' := py_slice u (w + (zlen (mr_alt mr) - zlen (mr_ref mr))) (mr_oligo mr)) in *.
    cbv iota beta in Er2.
    assert (HTw : T = zfirstn u T ++ py_slice u w T ++ zskipn w T) by (apply split3; unfold u, w in *; lia).
    exists (ya - ps). split; [right; exists ya; split; reflexivity|].
    pose proof (mk_record_plain_ok (xa + (ya - ps) - 1) (pv :: zfirstn u T) (py_slice u w T) alt' (zskipn w T) ya _ r Er2) as Hok.
    replace ((pv :: zfirstn u T) ++ py_slice u w T ++ zskipn w T) with (pv :: T) in Hok by (cbn [app]; now rewrite <- HTw).
    replace ((pv :: zfirstn u T) ++ alt' ++ zskipn w T) with (pv :: mr_oligo mr) in Hok by (cbn [app]; now rewrite Hsame).
    apply Hok; [|specialize (Hy ya eq_refl); lia]. rewrite zlen_cons, zfirstn_length by (unfold u; lia). unfold u in *. lia.
  - (* not widened *)
    cbv iota beta in Er2. exists (mr_ref_pos mr - mr_alt_pos mr). split; [left; reflexivity|]. set (X := xa + (mr_ref_pos mr - mr_alt_pos mr)) in *.
    destruct vt.
    + (* insertion: anchored *)
      assert (Href0 : mr_ref mr = []) by (unfold var_type in Evt; destruct (mr_ref mr), (mr_alt mr); try discriminate; reflexivity).
      cbn [vtype_eqb negb andb] in Ents.
      destruct (get_nt (cx_alt c) (mr_alt_pos mr - 1)) as [an|] eqn:Ean; [|discriminate]. cbn [bind] in Ents.
      injection Ents as <- <- <- <- <-.
      rewrite Href0, zlen_nil in *. assert (pam_ref = []) as -> by (now apply zlen_zero_nil).
      destruct (Z.eq_dec a 0) as [Ha0|Ha0].
      * (* the anchor is the nucleotide preceding the targeton *)
        assert (an = pv).
        { assert (Hpp : mr_alt_pos mr - 1 = s_start (p_seq (cx_alt c)) - 1) by (rewrite Halt; cbn [s_start]; unfold a in Ha0; lia).
          apply (get_nt_prev _ _ _ Hpp) in Ean. congruence. }
        subst an.
        pose proof (mk_record_anchored_ok (X - 1) [] pv [] (mr_alt mr) T (mr_ref_pos mr) _ r Er2) as Hok.
        cbn [app] in Hok. rewrite Holigo, Ha0. rewrite Z.add_0_r. unfold zfirstn, zskipn. cbn [Z.to_nat firstn skipn app].
        apply Hok; [rewrite zlen_nil; unfold a in Ha0; lia|lia|now left].
      * assert (Han : znth (a - 1) T = Some an).
        { apply get_nt_inside in Ean; rewrite Halt in *; cbn [s_start s_bases] in *; [|unfold a in *; lia].
          replace (mr_alt_pos mr - 1 - xa) with (a - 1) in Ean by (unfold a; lia). exact Ean. }
        assert (HTa : T = zfirstn (a - 1) T ++ an :: zskipn a T).
        { rewrite (split3 (a - 1) (a - 1 + 1) T) at 1 by lia. rewrite (py_slice_one _ _ _ Han). replace (a - 1 + 1) with a by lia. reflexivity. }
        pose proof (mk_record_anchored_ok (X - 1) (pv :: zfirstn (a - 1) T) an [] (mr_alt mr) (zskipn a T) (mr_ref_pos mr) _ r Er2) as Hok.
        replace ((pv :: zfirstn (a - 1) T) ++ [an] ++ [] ++ zskipn a T) with (pv :: T) in Hok by (cbn [app]; f_equal; exact HTa).
        replace ((pv :: zfirstn (a - 1) T) ++ [an] ++ mr_alt mr ++ zskipn a T) with (pv :: mr_oligo mr) in Hok.
        2:{ assert (Hfa : zfirstn a T = zfirstn (a - 1) T ++ [an]).
            { rewrite <- (zfirstn_succ_nth (a - 1) T an) by (auto; lia). f_equal. lia. }
            cbn [app]. f_equal. rewrite Holigo, Z.add_0_r, Hfa, <- !app_assoc. reflexivity. }
        apply Hok; [|lia|now left]. rewrite zlen_cons, zfirstn_length by lia. unfold a in *. lia.
    + (* deletion: anchored *)
      assert (Halt0 : mr_alt mr = []) by (unfold var_type in Evt; destruct (mr_ref mr), (mr_alt mr); try discriminate; reflexivity).
      cbn [vtype_eqb negb andb] in Ents.
      destruct (get_nt (cx_alt c) (mr_alt_pos mr - 1)) as [an|] eqn:Ean; [|discriminate]. cbn [bind] in Ents.
      injection Ents as <- <- <- <- <-.
      rewrite Halt0 in *.
      destruct (Z.eq_dec a 0) as [Ha0|Ha0].
      * assert (an = pv).
        { assert (Hpp : mr_alt_pos mr - 1 = s_start (p_seq (cx_alt c)) - 1) by (rewrite Halt; cbn [s_start]; unfold a in Ha0; lia).
          apply (get_nt_prev _ _ _ Hpp) in Ean. congruence. }
        subst an.
        pose proof (mk_record_anchored_ok (X - 1) [] pv pam_ref [] (zskipn (a + zlen (mr_ref mr)) T) (mr_ref_pos mr) _ r Er2) as Hok.
        cbn [app] in Hok.
        replace (pv :: pam_ref ++ zskipn (a + zlen (mr_ref mr)) T) with (pv :: T) in Hok.
        2:{ f_equal. rewrite HT3 at 1. rewrite Ha0. unfold zfirstn. cbn [Z.to_nat firstn app]. reflexivity. }
        replace (pv :: zskipn (a + zlen (mr_ref mr)) T) with (pv :: mr_oligo mr) in Hok.
        2:{ f_equal. rewrite Holigo, Ha0. unfold zfirstn. cbn [Z.to_nat firstn app]. reflexivity. }
        apply Hok; [rewrite zlen_nil; unfold a in Ha0; lia|lia|now right].
      * assert (Han : znth (a - 1) T = Some an).
        { apply get_nt_inside in Ean; rewrite Halt in *; cbn [s_start s_bases] in *; [|unfold a in *; lia].
          replace (mr_alt_pos mr - 1 - xa) with (a - 1) in Ean by (unfold a; lia). exact Ean. }
        assert (Hfa : zfirstn a T = zfirstn (a - 1) T ++ [an]).
        { rewrite <- (zfirstn_succ_nth (a - 1) T an) by (auto; lia). f_equal. lia. }
        pose proof (mk_record_anchored_ok (X - 1) (pv :: zfirstn (a - 1) T) an pam_ref [] (zskipn (a + zlen (mr_ref mr)) T) (mr_ref_pos mr) _ r Er2) as Hok.
        replace ((pv :: zfirstn (a - 1) T) ++ [an] ++ pam_ref ++ zskipn (a + zlen (mr_ref mr)) T) with (pv :: T) in Hok.
        2:{ cbn [app]. f_equal. rewrite HT3 at 1. rewrite Hfa, <- !app_assoc. reflexivity. }
        replace ((pv :: zfirstn (a - 1) T) ++ [an] ++ [] ++ zskipn (a + zlen (mr_ref mr)) T) with (pv :: mr_oligo mr) in Hok.
        2:{ cbn [app]. f_equal. rewrite Holigo, Hfa, <- !app_assoc. reflexivity. }
        pose proof (zlen_nonneg (mr_ref mr)). apply Hok; [|lia|now right]. rewrite zlen_cons, zfirstn_length by lia. unfold a in *. lia.
    + (* substitution: plain alleles *)
      cbn [vtype_eqb negb andb] in Ents. injection Ents as <- <- <- <- <-.
      pose proof (mk_record_plain_ok (X - 1) (pv :: zfirstn a T) pam_ref (mr_alt mr) (zskipn (a + zlen (mr_ref mr)) T) (mr_ref_pos mr) _ r Er2) as Hok.
      replace ((pv :: zfirstn a T) ++ pam_ref ++ zskipn (a + zlen (mr_ref mr)) T) with (pv :: T) in Hok by (cbn [app]; now rewrite <- HT3).
      replace ((pv :: zfirstn a T) ++ mr_alt mr ++ zskipn (a + zlen (mr_ref mr)) T) with (pv :: mr_oligo mr) in Hok by (cbn [app]; now rewrite Holigo).
      pose proof (zlen_nonneg (mr_ref mr)). apply Hok; [|lia]. rewrite zlen_cons, zfirstn_length by lia. unfold a in *. lia.
    + unfold var_type in Evt. destruct (mr_ref mr), (mr_alt mr); discriminate.
Qed.

Theorem row_pam_record_ok_bg_custom_subst c g mr o xa (T : dna) pv r :
  row_out c mr = Ok o -> o_vcf_pam o = Some r -> cx_gpo c = Some g -> mr_custom mr = true -> mr_vcf_nt mr = None ->
  mr_ref mr <> [] -> mr_alt mr <> [] ->
  p_seq (cx_alt c) = mkSeq xa T -> p_prev (cx_alt c) = Some pv -> 1 <= xa ->
  mr_end mr = get_end (mr_alt_pos mr) (zlen (mr_ref mr)) ->
  let a := mr_alt_pos mr - xa in
  0 <= a -> a + zlen (mr_ref mr) <= zlen T -> 4 <= mr_ref_pos mr ->
  xa <= opt_min (mr_alt_pos mr) (mr_start_ppe mr) -> opt_max (mr_end mr) (mr_end_ppe mr) <= xa + zlen T - 1 ->
  (forall y, alt_to_ref_position g (opt_min (mr_alt_pos mr) (mr_start_ppe mr)) = Ok (Some y) -> 1 <= y) ->
  mr_oligo mr = zfirstn a T ++ mr_alt mr ++ zskipn (a + zlen (mr_ref mr)) T ->
  exists delta,
    (delta = mr_ref_pos mr - mr_alt_pos mr \/
     exists ya, alt_to_ref_position g (opt_min (mr_alt_pos mr) (mr_start_ppe mr)) = Ok (Some ya) /\ delta = ya - opt_min (mr_alt_pos mr) (mr_start_ppe mr)) /\
    rec_ok (xa + delta - 1) (pv :: T) r (pv :: mr_oligo mr).
Proof.
  intros Hrow Hvcf Hg Hcus Hnt Hrne Hane Halt Hprev Hx1 Hend a Ha Hfit H4 Hlo Hhi Hy Holigo.
  unfold row_out in Hrow. rewrite Hg, Hcus, Hnt in Hrow. set (x0 := s_start (p_seq (cx_seq c))) in *.
  destruct (mk_variant (mr_ref_pos mr) (mr_ref mr) (mr_alt mr)) as [v0|] eqn:Ev0; [|discriminate]. cbn [bind] in Hrow.
  destruct (var_type (mr_ref mr) (mr_alt mr)) as [vt|] eqn:Evt; [|discriminate]. cbn [bind] in Hrow.
  match type of Hrow with (do refs <- ?r; _) = _ => destruct r as [[ref_ref pam_ref]|] eqn:Erefs; [|discriminate] end.
  cbn [bind fst snd] in Hrow.
  destruct (get_mave_nt (mr_ref_pos mr) x0 vt ref_ref (mr_alt mr)) as [mv_ref|] eqn:Emr; [|discriminate]. cbn [bind] in Hrow.
  destruct (get_mave_nt (mr_ref_pos mr) x0 vt pam_ref (mr_alt mr)) as [mv0|] eqn:Em0; [|discriminate]. cbn [bind] in Hrow.
  destruct (mk_variant (mr_ref_pos mr) pam_ref (mr_alt mr)) as [nv|] eqn:Env; [|discriminate]. cbn [bind] in Hrow.
  cbn [is_some negb andb] in Hrow. rewrite ?andb_true_r, ?andb_false_r in Hrow. cbn [andb] in Hrow.
  match type of Hrow with (do nts <- ?r; _) = _ => destruct r as [[[[[n1 n2] n3] n4] n5]|] eqn:Ents; [|discriminate] end.
  cbn [bind] in Hrow.
  match type of Hrow with (do wid <- ?r; _) = _ => destruct r as [wid|] eqn:Ewid; [|discriminate] end.
  cbn [bind] in Hrow.
  match type of Hrow with (do vcfs <- ?r; _) = _ => destruct r as [vcfs|] eqn:Evcfs; [|discriminate] end.
  cbn [bind] in Hrow. injection Hrow as <-. cbn [o_vcf_pam] in Hvcf.
  (* the record exists only for an included SGE row *)
  match type of Evcfs with (if ?b then _ else _) = _ => destruct b; [|injection Evcfs as <-; discriminate] end.
  match type of Evcfs with (do r1 <- ?m; _) = _ => destruct m as [r1|]; [|discriminate] end. cbn [bind] in Evcfs.
  match type of Evcfs with (do r2 <- ?m; _) = _ => destruct m as [r2|] eqn:Er2; [|discriminate] end. cbn [bind] in Evcfs.
  injection Evcfs as <-. cbn [snd] in Hvcf. injection Hvcf as ->.
  (* the template's content at the mutated position *)
  assert (Hpam : pam_ref = py_slice a (a + zlen (mr_ref mr)) T /\ zlen pam_ref = zlen (mr_ref mr)).
  { destruct (mr_ref mr) as [|x rr] eqn:Er; cbn [is_nil] in Erefs.
    - injection Erefs as <- <-. rewrite zlen_nil, Z.add_0_r, py_slice_empty. auto.
    - destruct (psubstr (cx_seq c) (mr_ref_pos mr) (get_end (mr_ref_pos mr) (zlen (x :: rr)))) as [rrr|]; [|discriminate].
      cbn [bind] in Erefs.
      destruct (psubstr (cx_alt c) (mr_alt_pos mr) (mr_end mr)) as [pr|] eqn:Epr; [|discriminate]. cbn [bind] in Erefs.
      injection Erefs as <- <-. apply psubstr_slice in Epr. rewrite Halt in Epr. cbn [s_start s_bases] in Epr.
      destruct Epr as [_ ->]. rewrite Hend. unfold get_end. pose proof (zlen_nonneg rr). rewrite zlen_cons in *.
      fold a. replace (mr_alt_pos mr + Z.max 0 (1 + zlen rr - 1) - xa + 1) with (a + (1 + zlen rr)) by (unfold a; lia).
      split; [reflexivity|]. rewrite py_slice_length_in; lia. }
  destruct Hpam as [Hpam Hpl].
  assert (HT3 : T = zfirstn a T ++ pam_ref ++ zskipn (a + zlen (mr_ref mr)) T).
  { rewrite Hpam. apply split3; [lia|]. pose proof (zlen_nonneg (mr_ref mr)). lia. }
  destruct wid as [[[[[[cr pcr] pa] dn] prs] mv]|].
  - (* widened to the PAM codon: plain alleles over the window *)
    destruct (is_some (mr_start_exon mr) || is_some (mr_end_exon mr)); [|discriminate]. cbn [bind] in Ewid.
    set (ps := opt_min (mr_alt_pos mr) (mr_start_ppe mr)) in *. set (pe := opt_max (mr_end mr) (mr_end_ppe mr)) in *.
    destruct (mk_range ps pe) as [pr|] eqn:Epr; [|discriminate]. cbn [bind] in Ewid.
    unfold mk_range in Epr. destruct ((0 <=? ps) && (ps <=? pe)) eqn:Ebnd; [|discriminate]. injection Epr as <-. cbn [rs re] in Ewid.
    match type of Ewid with (if ?b then _ else _) = _ => destruct b; [|discriminate] end.
    destruct (psubstr (cx_alt c) ps pe) as [pcr'|] eqn:Epcr; [|discriminate]. cbn [bind fst snd] in Ewid.
    destruct (alt_to_ref_position g ps) as [[ya|]|] eqn:Eya; cbn [bind] in Ewid; try discriminate;
      [|destruct (alt_to_ref_position g pe) as [[?|]|]; cbn [bind] in Ewid; discriminate].
    destruct (alt_to_ref_position g pe) as [[yb|]|] eqn:Eyb; cbn [bind fst snd] in Ewid; try discriminate.
    destruct (psubstr (cx_seq c) ya yb) as [cr'|]; [|discriminate]. cbn [bind] in Ewid.
    match type of Ewid with (do pa <- ?m; _) = _ => destruct m as [pa'|] eqn:Epa; [|discriminate] end. cbn [bind] in Ewid.
    match type of Ewid with (do mv <- ?m; _) = _ => destruct m as [mv'|] eqn:Emv; [|discriminate] end. cbn [bind] in Ewid.
    injection Ewid as <- <- <- <- <- <-.
    apply psubstr_slice in Epcr. rewrite Halt in Epcr. cbn [s_start s_bases] in Epcr. destruct Epcr as [Hb1 ->].
    apply psubstr_slice in Epa. cbn [p_seq s_start s_bases] in Epa. rewrite Halt in Epa. cbn [s_start] in Epa. destruct Epa as [Hb2 ->].
    assert (Hps : ps <= mr_alt_pos mr) by (unfold ps, opt_min; destruct (mr_start_ppe mr); lia).
    assert (Hpe : mr_end mr <= pe) by (unfold pe, opt_max; destruct (mr_end_ppe mr); lia).
    set (u := ps - xa) in *. set (w := pe - xa + 1) in *.
    assert (Hw : a + zlen (mr_ref mr) <= w).
    { unfold w, a. rewrite Hend in Hpe. unfold get_end in Hpe. pose proof (zlen_nonneg (mr_ref mr)). lia. }
    destruct (widen_same T (mr_alt mr) a (zlen (mr_ref mr)) u w) as [Hsl Hsame]; try (unfold u, w, a in *; lia).
    { apply zlen_nonneg. }
    cbv zeta in Hsl, Hsame. rewrite <- Holigo in Hsl, Hsame.
    replace (pe + (zlen (mr_alt mr) - zlen (mr_ref mr)) - xa + 1) with (w + (zlen (mr_alt mr) - zlen (mr_ref mr))) in * by (unfold w; lia).
    set (alt' := py_slice u (w + (zlen (mr_alt mr) - zlen (mr_ref mr))) (mr_oligo mr)) in *.
    cbv iota beta in Er2.
    assert (HTw : T = zfirstn u T ++ py_slice u w T ++ zskipn w T) by (apply split3; unfold u, w in *; lia).
    exists (ya - ps). split; [right; exists ya; split; reflexivity|].
    pose proof (mk_record_plain_ok (xa + (ya - ps) - 1) (pv :: zfirstn u T) (py_slice u w T) alt' (zskipn w T) ya _ r Er2) as Hok.
    replace ((pv :: zfirstn u T) ++ py_slice u w T ++ zskipn w T) with (pv :: T) in Hok by (cbn [app]; now rewrite <- HTw).
    replace ((pv :: zfirstn u T) ++ alt' ++ zskipn w T) with (pv :: mr_oligo mr) in Hok by (cbn [app]; now rewrite Hsame).
    apply Hok; [|specialize (Hy ya eq_refl); lia]. rewrite zlen_cons, zfirstn_length by (unfold u; lia). unfold u in *. lia.
  - (* not widened *)
    cbv iota beta in Er2. exists (mr_ref_pos mr - mr_alt_pos mr). split; [left; reflexivity|]. set (X := xa + (mr_ref_pos mr - mr_alt_pos mr)) in *.
    destruct vt.
    + exfalso. unfold var_type in Evt. destruct (mr_ref mr), (mr_alt mr); try discriminate; congruence.
    + exfalso. unfold var_type in Evt. destruct (mr_ref mr), (mr_alt mr); try discriminate; congruence.
    + (* substitution: plain alleles *)
      cbn [vtype_eqb negb andb] in Ents. injection Ents as <- <- <- <- <-.
      pose proof (mk_record_plain_ok (X - 1) (pv :: zfirstn a T) pam_ref (mr_alt mr) (zskipn (a + zlen (mr_ref mr)) T) (mr_ref_pos mr) _ r Er2) as Hok.
      replace ((pv :: zfirstn a T) ++ pam_ref ++ zskipn (a + zlen (mr_ref mr)) T) with (pv :: T) in Hok by (cbn [app]; now rewrite <- HT3).
      replace ((pv :: zfirstn a T) ++ mr_alt mr ++ zskipn (a + zlen (mr_ref mr)) T) with (pv :: mr_oligo mr) in Hok by (cbn [app]; now rewrite Holigo).
      pose proof (zlen_nonneg (mr_ref mr)). apply Hok; [|lia]. rewrite zlen_cons, zfirstn_length by lia. unfold a in *. lia.
    + unfold var_type in Evt. destruct (mr_ref mr), (mr_alt mr); discriminate.
Qed.

