From VV Require Import Model.Base Model.Pattern Model.Transcript Proofs.BaseLemmas Proofs.CodonProofs.
From VV Require Import Model.LiftExons Proofs.LiftExonsProofs Model.Gtf.
From Coq Require Import Lia ZifyBool.

Definition f_range (f : cdsf) : range := mkRange (f_start f) (f_end f).
Definition cds_ascending (l : list cdsf) : Prop := ranges_ascending (map f_range l).

Lemma cds_ascending_starts f l x : cds_ascending (f :: l) -> In x l -> f_start f < f_start x.
Proof.
  unfold cds_ascending. cbn [map]. intros H Hx.
  pose proof (ranges_ascending_starts _ _ (f_range x) H (in_map f_range _ _ Hx)) as Hlt. cbn [f_range rs] in Hlt. exact Hlt.
Qed.

Lemma cds_ascending_tl f l : cds_ascending (f :: l) -> cds_ascending l.
Proof. unfold cds_ascending. cbn [map ranges_ascending]. tauto. Qed.

Lemma sort_cds_asc l : cds_ascending l -> sort_cds true l = l.
Proof.
  unfold sort_cds. induction l as [|f l IH]; intros H; [reflexivity|]. cbn [fold_right]. rewrite (IH (cds_ascending_tl _ _ H)).
  destruct l as [|x l]; [reflexivity|]. cbn [insert_asc]. pose proof (cds_ascending_starts _ _ x H (or_introl eq_refl)). replace (f_start f <? f_start x) with true by lia. reflexivity.
Qed.

Lemma insert_desc_last f l : (forall x, In x l -> f_start f < f_start x) -> insert_desc f l = l ++ [f].
Proof.
  induction l as [|x l IH]; intros H; [reflexivity|]. cbn [insert_desc app]. pose proof (H x (or_introl eq_refl)).
  replace (f_start x <? f_start f) with false by lia. rewrite IH; [reflexivity|]. intros y Hy. apply H. right. exact Hy.
Qed.

Lemma sort_cds_desc l : cds_ascending l -> sort_cds false l = rev l.
Proof.
  unfold sort_cds. induction l as [|f l IH]; intros H; [reflexivity|]. cbn [fold_right rev]. rewrite (IH (cds_ascending_tl _ _ H)).
  apply insert_desc_last. intros x Hx. apply in_rev in Hx. exact (cds_ascending_starts _ _ x H Hx).
Qed.

(* numbering keeps the ranges: the exons come out in the order of the features *)
Lemma number_exons_ranges : forall l i ex, number_exons i l = Ok ex -> map x_range ex = map f_range l.
Proof.
  induction l as [|f l IH]; intros i ex H; cbn [number_exons] in H; [apply Ok_inj in H; subst; reflexivity|].
  destruct (mk_range (f_start f) (f_end f)) as [r|] eqn:Er; cbn [bind] in H; [|discriminate].
  destruct (number_exons (i + 1) l) as [tl|] eqn:Et; cbn [bind] in H; [|discriminate]. apply Ok_inj in H. subst ex.
  cbn [map]. rewrite (IH _ _ Et). unfold mk_range in Er. destruct ((0 <=? f_start f) && (f_start f <=? f_end f)); [|discriminate].
  apply Ok_inj in Er. subst r. reflexivity.
Qed.

Lemma add_stop_plus_ascending l : cds_ascending l -> cds_ascending (add_stop true l).
Proof.
  unfold cds_ascending. induction l as [|f l IH]; intros H; [exact I|]. destruct l as [|g l].
  - cbn -[Z.add Z.sub] in *. destruct H as (H1 & _ & _). repeat split; [lia | intros x []].
  - change (add_stop true (f :: g :: l)) with (f :: add_stop true (g :: l)). cbn [map ranges_ascending] in *.
    destruct H as (H1 & H2 & H3). split; [exact H1|]. split; [|apply IH; exact H3].
    intros x Hx. clear IH. revert x Hx. generalize dependent g. induction l as [|h l IHl]; intros g H2 H3 x Hx.
    + cbn -[Z.add Z.sub] in Hx. destruct Hx as [<-|[]]. cbn [f_range rs]. specialize (H2 (f_range g) (or_introl eq_refl)). cbn [f_range rs] in H2. exact H2.
    + change (add_stop true (g :: h :: l)) with (g :: add_stop true (h :: l)) in Hx. cbn [map] in Hx. destruct Hx as [<-|Hx].
      * apply H2. left. reflexivity.
      * apply (IHl h); [intros y Hy; apply H2; right; exact Hy | cbn [map ranges_ascending] in H3; tauto | exact Hx].
Qed.

(* plus strand, features in ascending order: numbered as they stand, the stop codon on the last *)
Theorem cds_to_exons_plus cds : cds <> [] -> cds_ascending cds ->
  cds_to_exons Plus cds = number_exons 0 (add_stop true cds).
Proof.
  intros Hne Ha. unfold cds_to_exons. destruct cds as [|f0 l0] eqn:E; [congruence|]. rewrite <- E in *. cbn [is_plus].
  rewrite (sort_cds_asc _ Ha). destruct (number_exons 0 (add_stop true cds)) as [ex|] eqn:En; cbn [bind]; [|reflexivity].
  rewrite sort_exons_ascending; [reflexivity|]. unfold exons_ascending. rewrite (number_exons_ranges _ _ _ En). apply add_stop_plus_ascending. exact Ha.
Qed.

Definition with_stop (plus : bool) (f : cdsf) : cdsf :=
  if plus then mkCdsF (f_start f) (f_end f + 3) (f_frame f) else mkCdsF (f_start f - 3) (f_end f) (f_frame f).

Lemma add_stop_cons plus x y t : add_stop plus (x :: y :: t) = x :: add_stop plus (y :: t).
Proof. reflexivity. Qed.

Lemma add_stop_snoc plus l f : add_stop plus (l ++ [f]) = l ++ [with_stop plus f].
Proof.
  induction l as [|x l IH]; [reflexivity|]. cbn [app]. destruct (l ++ [f]) as [|y t] eqn:E; [destruct l; discriminate|].
  rewrite add_stop_cons, IH. reflexivity.
Qed.

(* minus strand, features in ascending order: numbered from the last one backwards, the stop codon below the first one, returned in ascending order *)
Theorem cds_to_exons_minus f cds : cds_ascending (f :: cds) ->
  cds_to_exons Minus (f :: cds) = (do l <- number_exons 0 (rev cds ++ [with_stop false f]); Ok (rev l)).
Proof.
  intros Ha. unfold cds_to_exons. cbn [is_plus]. rewrite (sort_cds_desc _ Ha). cbn [rev]. rewrite add_stop_snoc.
  destruct (number_exons 0 (rev cds ++ [with_stop false f])) as [l|] eqn:En; cbn [bind]; [|reflexivity].
  f_equal. rewrite <- (rev_involutive l) at 1. apply sort_exons_rev.
  unfold exons_ascending. rewrite map_rev, (number_exons_ranges _ _ _ En), map_app, rev_app_distr, map_rev, rev_involutive.
  cbn [map rev app]. unfold cds_ascending in Ha. cbn [map ranges_ascending] in *. destruct Ha as (H1 & H2 & H3).
  split; [cbn [with_stop f_range rs re f_start f_end] in *; lia|]. split; [|exact H3].
  intros x Hx. specialize (H2 x Hx). cbn [with_stop f_range rs re f_start f_end] in *. exact H2.
Qed.
