(* C08: importing a VCF record preserves its effect on the template; reported form; constant-region flag. *)
From VV Require Import Model.Base Model.Pattern Model.Seq Model.Vcf Model.Targeton
  Proofs.BaseLemmas Proofs.TargetonProofs Proofs.ApplyProofs.

Ltac disc := let H := fresh in intros H; discriminate H.

(* the documented reported form: pure insertions/deletions one to the right without the anchor, others as given *)
Definition reported_spec (pos : Z) (ref alt : dna) : variant :=
  match ref, alt with
  | [x], y :: (_ :: _) as alt' => if nt_eqb x y then mkVar (pos + 1) [] alt' else mkVar pos ref alt
  | x :: (_ :: _) as ref', [y] => if nt_eqb x y then mkVar (pos + 1) ref' [] else mkVar pos ref alt
  | _, _ => mkVar pos ref alt
  end.

Theorem from_record_reported pos ref alt c : 1 < pos ->
  from_record pos ref (Some alt) = Ok c -> cu_var c = reported_spec pos ref alt.
Proof.
  intros Hp. unfold from_record, normalise.
  replace (1 <? pos) with true by (symmetry; apply Z.ltb_lt; lia).
  destruct ref as [|x ref]; [disc|].
  destruct alt as [|y alt].
  { cbn [mk_variant bind]. rewrite zlen_nil, zlen_cons. pose proof (zlen_nonneg ref).
    replace (0 - (1 + zlen ref) =? 0) with false by (symmetry; apply Z.eqb_neq; lia).
    replace (0 =? 1) with false by reflexivity. rewrite andb_false_r. cbn [hd_opt bind]. disc. }
  cbn [mk_variant bind]. rewrite !zlen_cons.
  destruct ref as [|x2 ref]; destruct alt as [|y2 alt]; cbn [zlen length]; rewrite ?zlen_nil, ?zlen_cons.
  - (* 1 / 1 *) cbn. intros H; injection H as <-. reflexivity.
  - (* insertion shape *)
    replace (1 + (1 + zlen alt) - (1 + 0) =? 0) with false by (symmetry; apply Z.eqb_neq; pose proof (zlen_nonneg alt); lia).
    replace (1 + 0 =? 1) with true by reflexivity.
    replace (1 + (1 + zlen alt) =? 1) with false by (symmetry; apply Z.eqb_neq; pose proof (zlen_nonneg alt); lia).
    cbn [andb orb negb hd_opt]. cbn [reported_spec].
    destruct (nt_eqb x y) eqn:E; cbn [negb orb mk_variant bind tl snd fst].
    + intros H; injection H as <-. reflexivity.
    + intros H; injection H as <-. reflexivity.
  - (* deletion shape *)
    replace (1 + 0 - (1 + (1 + zlen ref)) =? 0) with false by (symmetry; apply Z.eqb_neq; pose proof (zlen_nonneg ref); lia).
    replace (1 + (1 + zlen ref) =? 1) with false by (symmetry; apply Z.eqb_neq; pose proof (zlen_nonneg ref); lia).
    replace (1 + 0 =? 1) with true by reflexivity.
    cbn [andb orb negb hd_opt]. cbn [reported_spec].
    destruct (nt_eqb x y) eqn:E; cbn [negb orb mk_variant bind tl snd fst].
    + intros H; injection H as <-. reflexivity.
    + intros H; injection H as <-. reflexivity.
  - (* both longer than one base: as given *)
    cbn [reported_spec].
    destruct (1 + (1 + zlen alt) - (1 + (1 + zlen ref)) =? 0); [intros H; injection H as <-; reflexivity|].
    replace (1 + (1 + zlen ref) =? 1) with false by (symmetry; apply Z.eqb_neq; pose proof (zlen_nonneg ref); lia).
    replace (1 + (1 + zlen alt) =? 1) with false by (symmetry; apply Z.eqb_neq; pose proof (zlen_nonneg alt); lia).
    cbn [andb orb negb hd_opt]. rewrite orb_true_r. cbn [mk_variant bind snd fst].
    intros H; injection H as <-. reflexivity.
Qed.

(* ---- effect on a template ---- *)
Definition replaced (q : seq) (pos : Z) (ref alt : dna) : dna :=
  zfirstn (pos - s_start q) (s_bases q) ++ alt ++ zskipn (pos - s_start q + zlen ref) (s_bases q).

Lemma zfirstn_succ_nth {X} o (l : list X) x : 0 <= o -> znth o l = Some x -> zfirstn (o + 1) l = zfirstn o l ++ [x].
Proof.
  intros Ho H. pose proof (znth_Some_lt _ _ _ H) as Hl.
  rewrite <- (py_slice_one _ _ _ H). unfold py_slice.
  replace (o + 1 - o) with 1 by lia. unfold zfirstn, zskipn.
  replace (Z.to_nat (o + 1)) with (Z.to_nat o + Z.to_nat 1)%nat by lia. apply firstn_add.
Qed.

Lemma alter_replace q pos ref alt :
  ref <> [] -> s_start q <= pos -> pos - s_start q + zlen ref <= s_len q -> 0 <= pos ->
  alter q (mkVar pos ref alt) = Ok (replaced q pos ref alt).
Proof.
  intros Hr Hlo Hhi Hp. unfold alter, var_ref_end, get_end, mk_range, replaced, s_len in *. cbn [v_pos v_ref v_alt].
  assert (Hl : 0 < zlen ref) by (destruct ref; [congruence|rewrite zlen_cons; pose proof (zlen_nonneg ref); lia]).
  replace ((0 <=? pos) && (pos <=? pos + Z.max 0 (zlen ref - 1))) with true by (symmetry; apply andb_true_iff; split; apply Z.leb_le; lia).
  cbn [bind rs re]. destruct ref as [|x ref]; [congruence|]. cbn [is_nil].
  replace ((0 <=? pos - s_start q) && (pos - s_start q <=? pos + Z.max 0 (zlen (x :: ref) - 1) - s_start q)) with true
    by (symmetry; apply andb_true_iff; split; apply Z.leb_le; lia).
  cbn [bind rs re]. unfold replace_substr.
  replace ((pos - s_start q <? zlen (s_bases q)) && (pos + Z.max 0 (zlen (x :: ref) - 1) - s_start q <? zlen (s_bases q))) with true
    by (symmetry; apply andb_true_iff; split; apply Z.ltb_lt; lia).
  do 4 f_equal. lia.
Qed.

Lemma alter_insert q pos alt :
  s_start q <= pos -> pos - s_start q <= s_len q -> 0 <= pos ->
  alter q (mkVar pos [] alt) = Ok (zfirstn (pos - s_start q) (s_bases q) ++ alt ++ zskipn (pos - s_start q) (s_bases q)).
Proof.
  intros Hlo Hhi Hp. unfold alter, var_ref_end, get_end, mk_range, s_len in *. cbn [v_pos v_ref v_alt is_nil].
  change (zlen (@nil nt)) with 0. replace ((0 <=? pos) && (pos <=? pos + Z.max 0 (0 - 1))) with true by (symmetry; apply andb_true_iff; split; apply Z.leb_le; lia).
  cbn [bind rs re]. unfold insert_substr.
  replace (pos - s_start q <? 0) with false by (symmetry; apply Z.ltb_ge; lia).
  replace (zlen (s_bases q) <? pos - s_start q) with false by (symmetry; apply Z.ltb_ge; lia). reflexivity.
Qed.

(* however a record is anchored or padded, the imported variant has the effect of replacing REF by ALT at POS
   (REF matching the template there) *)
Theorem normalise_preserves_effect q pos ref alt c :
  1 < pos -> s_start q <= pos -> pos - s_start q + zlen ref <= s_len q ->
  py_slice (pos - s_start q) (pos - s_start q + zlen ref) (s_bases q) = ref ->
  from_record pos ref (Some alt) = Ok c ->
  alter q (cu_var c) = Ok (replaced q pos ref alt).
Proof.
  intros Hp Hlo Hhi Hm Hf. pose proof Hf as Hf'. rewrite (from_record_reported pos ref alt c Hp Hf).
  unfold from_record in Hf'. destruct ref as [|x ref]; [discriminate|]. clear Hf'.
  assert (Hx : znth (pos - s_start q) (s_bases q) = Some x).
  { assert (H0 : py_slice (pos - s_start q) (pos - s_start q + 1) (s_bases q) = [x]).
    { rewrite <- (py_slice_app (pos - s_start q) (pos - s_start q + 1) (pos - s_start q + zlen (x :: ref))) in Hm;
        try lia; [|rewrite zlen_cons; pose proof (zlen_nonneg ref); lia].
      assert (Hl1 : zlen (py_slice (pos - s_start q) (pos - s_start q + 1) (s_bases q)) = 1).
      { rewrite py_slice_length_in; try lia. unfold s_len in Hhi. rewrite zlen_cons in Hhi. pose proof (zlen_nonneg ref). lia. }
      destruct (py_slice (pos - s_start q) (pos - s_start q + 1) (s_bases q)) as [|z [|z2 l]]; cbn in Hl1; unfold zlen in Hl1; cbn in Hl1; try lia.
      cbn [app] in Hm. now injection Hm as ->. }
    unfold py_slice in H0. replace (pos - s_start q + 1 - (pos - s_start q)) with 1 in H0 by lia.
    unfold znth. replace (pos - s_start q <? 0) with false by (symmetry; apply Z.ltb_ge; lia).
    unfold zfirstn, zskipn in H0. cbn [Z.to_nat Pos.to_nat Pos.iter_op plus] in H0.
    revert H0. generalize (Z.to_nat (pos - s_start q)). generalize (s_bases q). clear.
    intros l n. revert l. induction n as [|n IH]; intros [|y l]; cbn; try discriminate.
    - intros H; now injection H as ->.
    - apply IH. }
  destruct alt as [|y alt].
  { exfalso. revert Hf. unfold from_record, normalise. cbn [mk_variant bind]. rewrite zlen_nil, zlen_cons. pose proof (zlen_nonneg ref).
    replace (0 - (1 + zlen ref) =? 0) with false by (symmetry; apply Z.eqb_neq; lia).
    replace (0 =? 1) with false by reflexivity. rewrite andb_false_r.
    replace (1 <? pos) with true by (symmetry; apply Z.ltb_lt; lia). cbn [hd_opt bind]. disc. }
  rewrite zlen_cons in *.
  destruct ref as [|x2 ref]; destruct alt as [|y2 alt]; cbn [reported_spec].
  - apply alter_replace; try congruence; rewrite ?zlen_cons; lia.
  - destruct (nt_eqb x y) eqn:E.
    + apply nt_eqb_eq in E. subst y. rewrite alter_insert; try lia.
      * unfold replaced. rewrite zlen_cons, zlen_nil. replace (pos + 1 - s_start q) with (pos - s_start q + 1) by lia.
        rewrite (zfirstn_succ_nth _ _ x) by (lia || assumption). rewrite <- app_assoc. reflexivity.
      * rewrite zlen_nil in Hhi. lia.
    + apply alter_replace; try congruence; rewrite ?zlen_cons, ?zlen_nil in *; lia.
  - destruct (nt_eqb x y) eqn:E.
    + apply nt_eqb_eq in E. subst y. rewrite alter_replace; try congruence; rewrite ?zlen_cons in *; try lia.
      unfold replaced. rewrite !zlen_cons. replace (pos + 1 - s_start q) with (pos - s_start q + 1) by lia.
      rewrite (zfirstn_succ_nth _ _ x) by (lia || assumption). rewrite <- app_assoc. cbn [app].
      replace (pos - s_start q + 1 + (1 + zlen ref)) with (pos - s_start q + (1 + (1 + zlen ref))) by lia. reflexivity.
    + apply alter_replace; try congruence; rewrite ?zlen_cons in *; lia.
  - apply alter_replace; try congruence; rewrite ?zlen_cons in *; lia.
Qed.

(* ---- vcf_var_in_const: the reported start lies in a constant region iff it lies outside regions 1-3 ---- *)
Lemma chain_after s l b r' p : chain s l b -> In r' l -> p < s -> in_range p r' = false.
Proof.
  revert s; induction l as [|x l IH]; intros s Hc Hr Hs; [easy|]. cbn [chain] in Hc. destruct Hc as (A & B & C).
  destruct Hr as [->|Hr].
  - unfold in_range. replace (rs r' <=? p) with false by (symmetry; apply Z.leb_gt; lia). reflexivity.
  - apply (IH (re x + 1) C Hr). lia.
Qed.

Lemma chain_unique a l b p : chain a l b -> a <= p < b ->
  exists r, In r l /\ in_range p r = true /\ forall r', In r' l -> in_range p r' = true -> r' = r.
Proof.
  revert a; induction l as [|r l IH]; intros a Hc Hp; cbn [chain] in Hc; [lia|].
  destruct Hc as (H1 & H2 & Hc). pose proof (chain_le _ _ _ Hc) as Hle.
  destruct (Z_le_gt_dec p (re r)) as [Hin|Hout].
  - exists r. split; [now left|]. split; [unfold in_range; apply andb_true_iff; split; apply Z.leb_le; lia|].
    intros r' [<-|Hr'] Hpr; [reflexivity|]. exfalso.
    rewrite (chain_after _ _ _ r' p Hc Hr') in Hpr by lia. discriminate.
  - destruct (IH _ Hc ltac:(lia)) as (r0 & Hr0 & Hp0 & Hu). exists r0. split; [now right|]. split; [assumption|].
    intros r' [<-|Hr'] Hpr; [|now apply Hu].
    unfold in_range in Hpr. apply andb_true_iff in Hpr. destruct Hpr as [_ P]. apply Z.leb_le in P. lia.
Qed.

Ltac bsolve' :=
  repeat match goal with
  | |- context [?a <=? ?b] => destruct (a <=? b) eqn:?
  | |- context [?a <? ?b] => destruct (a <? b) eqn:?
  end; zb; cbn [andb orb negb]; try lia; try reflexivity.

(* the update of insert_targeton_custom_variants marks a variant whose start lies in a constant region;
   for a position inside the targeton that is exactly "outside regions 1-3" *)
Theorem in_const_iff c p cs rl :
  range_valid (t_ref c) = true -> range_valid (t_r2 c) = true -> 0 <= t_e1 c -> 0 <= t_e3 c ->
  validate c = Ok tt -> rs (t_ref c) <= p <= re (t_ref c) ->
  get_const_regions c = Ok cs -> get_regions c = Ok rl ->
  existsb (in_range p) cs = negb (existsb (in_range p) (get_not_none rl)).
Proof.
  destruct c as [[a b] [s e] e1 e3]. unfold range_valid, validate. cbn [t_ref t_r2 t_e1 t_e3 rs re].
  intros Hr Hr2 He1 He3 Hv Hp.
  destruct ((s <? a) || (b <? e)) eqn:E0; [discriminate|].
  destruct (s - e1 <? a) eqn:E1; [discriminate|].
  destruct (b <? e + e3) eqn:E3; [discriminate|]. clear Hv. zb.
  unfold get_const_regions, get_regions, get_const_1, get_const_2, get_region_1, get_region_3, get_before, get_after, mk_range.
  cbn [t_ref t_r2 t_e1 t_e3 rs re].
  destruct (e1 =? 0) eqn:Z1; destruct (e3 =? 0) eqn:Z3; zb; subst; cbn [bind rs re].
  all: repeat (match goal with
       | |- context [if ?x <? ?y then _ else _] => let E := fresh "E" in destruct (x <? y) eqn:E; zb; try lia
       | |- context [if (?x <=? ?y) && (?u <=? ?v) then _ else _] =>
           let E := fresh "E" in destruct ((x <=? y) && (u <=? v)) eqn:E;
           [zb | apply andb_false_iff in E; destruct E; zb; lia]
       end; cbn [bind rs re get_not_none]).
  all: intros Hc Hg; injection Hc as <-; injection Hg as <-; cbn [get_not_none existsb]; unfold in_range; cbn [rs re]; bsolve'.
Qed.
