From VV Require Import Model.Base Model.Pattern Model.Vcf Proofs.BaseLemmas Proofs.CodonProofs Proofs.VcfProofs.
From VV Require Import Model.Import.
From Coq Require Import Lia ZifyBool.

Lemma filter_length_le' {X} (f : X -> bool) (l : list X) : (length (filter f l) <= length l)%nat.
Proof. induction l as [|x l IH]; cbn [filter length]; [lia|]. destruct (f x); cbn [length]; lia. Qed.

Lemma from_record_class pos ref alt c : from_record pos ref alt = Ok c ->
  (cu_class c = Monomorphic <-> alt = None).
Proof.
  unfold from_record. destruct ref as [|x ref]; [discriminate|].
  destruct alt as [alt|].
  - destruct (mk_variant pos (x :: ref) alt); cbn [bind]; [|discriminate].
    destruct (_ =? 0).
    + intros H; inversion H; subst; cbn. split; discriminate.
    + destruct (normalise pos (x :: ref) alt) as [n|]; cbn [bind]; [|discriminate].
      destruct (snd n); intros H; inversion H; subst; cbn; split; discriminate.
  - intros H; inversion H; subst; cbn. split; reflexivity.
Qed.

Lemma mapM_In_inv {X Y} (f : X -> result Y) : forall l l', mapM f l = Ok l' ->
  forall y, In y l' -> exists x, In x l /\ f x = Ok y.
Proof.
  induction l as [|x l IH]; intros l' H y Hy; cbn [mapM] in H.
  - inversion H; subst. destruct Hy.
  - destruct (f x) as [y0|] eqn:Ef; cbn [bind] in H; [|discriminate].
    destruct (mapM f l) as [ys|] eqn:Em; cbn [bind] in H; [|discriminate].
    inversion H; subst l'. destruct Hy as [<-|Hy].
    + exists x. split; [left; reflexivity | exact Ef].
    + destruct (IH ys eq_refl y Hy) as (x' & Hin & Hf). exists x'. split; [right; exact Hin | exact Hf].
Qed.

Lemma mapM_In_fwd {X Y} (f : X -> result Y) : forall l l', mapM f l = Ok l' ->
  forall x y, In x l -> f x = Ok y -> In y l'.
Proof.
  induction l as [|x0 l IH]; intros l' H x y Hx Hf; [destruct Hx|]. cbn [mapM] in H.
  destruct (f x0) as [y0|] eqn:Ef; cbn [bind] in H; [|discriminate].
  destruct (mapM f l) as [ys|] eqn:Em; cbn [bind] in H; [|discriminate].
  inversion H; subst l'. destruct Hx as [->|Hx].
  - rewrite Hf in Ef. inversion Ef; subst. left; reflexivity.
  - right. eapply IH; eauto.
Qed.

(* exactly the polymorphic records of the contig whose reported (normalised) span lies inside the targeton are imported;
   the imported variant is the documented reported form of its record *)
Theorem import_exact contig r recs out :
  import_records contig r recs = Ok out ->
  (forall x, In x recs -> 1 < r_pos x) ->
  forall c, In c out <->
    exists x alt, In x recs /\ r_contig x = contig /\ r_alt x = Some alt /\
      from_record (r_pos x) (r_ref x) (Some alt) = Ok c /\
      cu_var c = reported_spec (r_pos x) (r_ref x) alt /\
      rs r <= v_pos (cu_var c) /\ custom_end c <= re r.
Proof.
  unfold import_records, parse_records. intros H Hpos c.
  destruct (mapM _ _) as [cs|] eqn:Em; cbn [bind] in H; [|discriminate]. inversion H; subst out; clear H.
  rewrite filter_In. split.
  - intros (Hin & Hk).
    destruct (mapM_In_inv _ _ _ Em c Hin) as (x & Hx & Hf).
    apply filter_In in Hx. destruct Hx as (Hx & Hc). unfold on_contig in Hc. apply String.eqb_eq in Hc.
    unfold keep_custom in Hk. apply andb_true_iff in Hk. destruct Hk as (Hk & Hk3). apply andb_true_iff in Hk. destruct Hk as (Hk1 & Hk2).
    destruct (r_alt x) as [alt|] eqn:Ea.
    + exists x, alt. repeat split; try assumption; try lia.
      apply from_record_reported; [apply Hpos; exact Hx | exact Hf].
    + exfalso. pose proof (proj2 (from_record_class _ _ _ _ Hf) eq_refl) as Hm. rewrite Hm in Hk1. discriminate.
  - intros (x & alt & Hx & Hc & Ha & Hf & _ & H1 & H2).
    split.
    + eapply mapM_In_fwd; [exact Em | apply filter_In; split; [exact Hx | unfold on_contig; apply String.eqb_eq; exact Hc] | cbn beta; rewrite Ha; exact Hf].
    + unfold keep_custom. apply andb_true_iff. split; [apply andb_true_iff; split|]; try lia.
      destruct (cu_class c) eqn:Ec; try reflexivity.
      exfalso. pose proof (proj1 (from_record_class _ _ _ _ Hf) Ec). discriminate.
Qed.

(* once per record: the imported list is a sub-list (in file order) of the per-record images *)
Theorem import_once_per_record contig r recs out :
  import_records contig r recs = Ok out ->
  exists cs, parse_records contig recs = Ok cs /\ length cs = length (filter (on_contig contig) recs) /\
             out = filter (keep_custom r) cs /\ (length out <= length recs)%nat.
Proof.
  unfold import_records. destruct (parse_records contig recs) as [cs|] eqn:Ep; cbn [bind]; [|discriminate].
  intros H; inversion H; subst out. exists cs. split; [reflexivity|].
  assert (length cs = length (filter (on_contig contig) recs)) as HL by (unfold parse_records in Ep; eapply mapM_length; exact Ep).
  split; [exact HL|]. split; [reflexivity|].
  pose proof (filter_length_le' (keep_custom r) cs). pose proof (filter_length_le' (on_contig contig) recs). lia.
Qed.
