(* C05: the ALT-coordinate overlap test (alt_var_overlaps_var) characterised on the specification *)
From VV Require Import Model.Base Model.Pattern Model.Gpo Spec.LiftSpec Proofs.BaseLemmas Proofs.LiftSpecProofs Proofs.GpoRefine Proofs.GpoTop.
From Coq Require Import Lia ZifyBool.

Lemma wf_all_before lo hi vs p : wf lo hi vs -> hi < p -> forall v, In v vs -> next_free v <= p.
Proof.
  revert lo; induction vs as [|x vs IH]; intros lo Hwf Hp v Hv; [destruct Hv|].
  cbn [wf] in Hwf. destruct Hwf as (H1 & H2 & H3 & H4).
  destruct Hv as [<-|Hv]; [lia | eapply IH; eauto].
Qed.

Lemma shift_after_all lo hi vs p : wf lo hi vs -> hi < p -> shift vs p = sum_delta vs.
Proof.
  intros Hwf Hp. pose proof (wf_all_before _ _ _ _ Hwf Hp) as Hb. clear Hwf.
  induction vs as [|v vs IH]; cbn [shift sum_delta fold_right]; [reflexivity|].
  assert (next_free v <= p) as Hv by (apply Hb; left; reflexivity). unfold next_free in Hv.
  replace (vpos v <=? p) with true by lia. fold (sum_delta vs). rewrite IH; [reflexivity|]. intros w Hw. apply Hb. right. exact Hw.
Qed.

Lemma a2r_upper lo hi vs q p : wf lo hi vs -> lo <= q -> q < lo + (hi - lo + 1) + sum_delta vs ->
  a2r vs q = Some p -> lo <= p <= hi.
Proof.
  intros Hwf Hq Hlt Ha. destruct (a2r_r2a _ _ _ _ _ Hwf Hq Ha) as (Hr & Hlo). split; [exact Hlo|].
  destruct (Z_le_gt_dec p hi) as [|Hgt]; [assumption|]. exfalso.
  unfold r2a in Hr. destruct (deleted vs p); [discriminate|].
  assert (p + shift vs p = q) as Hq' by congruence.
  assert (hi < p) as Hp by lia.
  rewrite (shift_after_all _ _ _ _ Hwf Hp) in Hq'. lia.
Qed.

Section AltOverlap.
  Variables (g : gpo) (r : range) (vs : list vstat).
  Hypothesis Hr : 0 < rs r.
  Hypothesis Hre : rs r <= re r.
  Hypothesis Hwf : wf (rs r) (re r) vs.
  Hypothesis Hg : gpo_for g r vs.

  (* an ALT-coordinate variant [pos, pos+len-1] inside the ALT sequence: reported as overlapping a coordinate shift exactly when its first
     base is an inserted base, or - for two bases or more - its last base is inserted, the REF span between the pre-images of its two
     ends has another length, or one of the REF bases of that span is deleted or an insertion point.  A single-base variant whose base
     survives is never reported (the recorded finding C05-alt-single-base-insertion-point is this branch) *)
  Theorem alt_var_overlap_refines pos len :
    rs r <= pos -> get_end pos len < rs r + g_alt_length g ->
    alt_var_overlaps_var g pos len =
      Ok (match a2r vs pos with
          | None => true
          | Some s =>
              if len <=? 1 then false
              else match a2r vs (get_end pos len) with
                   | None => true
                   | Some e => negb (e - s + 1 =? len) || existsb (touches vs) (positions (mkRange s e))
                   end
          end).
  Proof.
    intros Hlo Hhi. unfold alt_var_overlaps_var.
    assert (get_end pos len >= pos) as Hge by (unfold get_end; lia).
    rewrite (alt_to_ref_refines g r vs Hwf Hg pos) by lia. cbn [bind].
    destruct (a2r vs pos) as [s|] eqn:Es; [|reflexivity].
    destruct (len <=? 1) eqn:El; [reflexivity|].
    rewrite (alt_to_ref_refines g r vs Hwf Hg (get_end pos len)) by lia. cbn [bind].
    destruct (a2r vs (get_end pos len)) as [e|] eqn:Ee; [|reflexivity].
    assert (g_alt_length g = rlen r + sum_delta vs) as Hal by (destruct Hg; assumption).
    unfold rlen in Hal.
    assert (pos < rs r + (re r - rs r + 1) + sum_delta vs) as Hb1 by lia.
    pose proof (a2r_upper (rs r) (re r) vs pos s Hwf Hlo Hb1 Es) as Hs.
    assert (rs r <= get_end pos len) as Hb2 by lia.
    assert (get_end pos len < rs r + (re r - rs r + 1) + sum_delta vs) as Hb3 by lia.
    pose proof (a2r_upper (rs r) (re r) vs (get_end pos len) e Hwf Hb2 Hb3 Ee) as He.
    assert (s < e) as Hse.
    { assert (pos < get_end pos len) as Hlt by (unfold get_end; lia).
      exact (a2r_monotone _ _ _ _ _ _ _ Hwf Hlo Hlt Es Ee). }
    unfold mk_range. replace ((0 <=? s) && (s <=? e)) with true by lia. cbn [bind].
    unfold rlen. cbn [rs re].
    destruct (e - s + 1 =? len) eqn:Eq; cbn [negb orb]; [|reflexivity].
    apply (any_res_touches g r vs Hg). intros p Hp. unfold positions in Hp. cbn [rs re] in Hp. apply zrange_In in Hp. lia.
  Qed.
End AltOverlap.

(* the recorded finding as a statement about the model: on the insertion point of an insertion (REF 13 = ALT 15 after two inserted
   bases) the REF-coordinate test reports an overlap, the ALT-coordinate test of the same single base does not *)
Theorem alt_single_base_insertion_point_refuted :
  exists g, from_var_stats [mkVS 13 0 2] (mkRange 10 20) = Ok g /\
    a2r [mkVS 13 0 2] 15 = Some 13 /\ touches [mkVS 13 0 2] 13 = true /\
    ref_var_overlaps_var g 13 1 = Ok true /\ alt_var_overlaps_var g 15 1 = Ok false /\ alt_var_overlaps_var g 14 2 = Ok true.
Proof.
  destruct (from_var_stats [mkVS 13 0 2] (mkRange 10 20)) as [g|] eqn:E; [|vm_compute in E; discriminate].
  exists g. split; [reflexivity|]. vm_compute in E. inversion E; subst g. vm_compute. repeat split; reflexivity.
Qed.
