From VV Require Import Model.Base Model.Pattern Model.Seq Model.CodonTable Model.Transcript Model.Mutators Model.MutatorsGlue Model.Cdna.
From Coq Require Import Lia ZifyBool.

(* a region that overlaps the CDS without lying inside it is refused *)
Theorem cdna_partial_cds_refused tb c q r ms :
  overlaps r c = true -> range_in r c = false -> cdna_region_rows tb (Some c) q r ms = Err ValueError.
Proof. intros Ho Hi. unfold cdna_region_rows. rewrite Ho, Hi. reflexivity. Qed.

(* a region inside the CDS is designed as the coding region of the one-exon transcript (exon 0, frame 0, plus strand):
   C03_region_rows_exact and the annotation theorems of C04 apply to it as they stand *)
Theorem cdna_coding_region tb c q r ms :
  rs r <= re r -> range_in r c = true ->
  cdna_region_rows tb (Some c) q r ms = region_rows tb (mkTr Plus [mkEx (rs c) (re c) 0 0]) q (Some 0) r ms /\
  get_exon (mkTr Plus [mkEx (rs c) (re c) 0 0]) 0 = Ok (mkEx (rs c) (re c) 0 0).
Proof.
  intros Hr Hi. unfold cdna_region_rows.
  assert (overlaps r c = true) as -> by (unfold overlaps, range_in, in_range in *; lia).
  rewrite Hi. cbn [negb faux_transcript]. split; reflexivity.
Qed.

(* a region that does not touch the CDS (or a sequence without one) is designed as non-coding: no codon is read *)
Theorem cdna_noncoding_region tb cds q r ms :
  match cds with Some c => overlaps r c = false | None => True end ->
  cdna_region_rows tb cds q r ms =
  (do b <- substr q r; do rows <- region_variants_noncds (mkSeq (rs r) b) ms;
   Ok (map canon (keep_in_region r (fst rows) ++ keep_in_region r (snd rows)))).
Proof.
  intros H. unfold cdna_region_rows, region_rows. destruct cds as [c|]; [rewrite H|];
  destruct (substr q r); cbn [bind]; reflexivity.
Qed.
