(* OligoGenerationInfo as translated from oligo_generation_info.py (Generated/KernelsCounts.v: methods that assign fields of self return the
   new record) is the model's counting of Model/Unique.v. *)
From VV Require Import Model.Base Model.Pattern Model.Unique Model.PyLoop Generated.KernelsCounts.

Lemma k_info_eval_in_range_eq c mn mx len :
  k_info_eval_in_range c (mkOpts mn mx) len = Ok (count_step mn mx c len, included mn mx len).
Proof.
  unfold k_info_eval_in_range, count_step, included. cbn [o_min o_max].
  destruct (len <? mn); cbn [negb andb]; [reflexivity|]. destruct (mx <? len); reflexivity.
Qed.

Lemma k_info_update_eq a b :
  k_info_update a b = Ok (mkCounts (too_short a + too_short b) (in_range_n a + in_range_n b) (too_long a + too_long b)).
Proof. reflexivity. Qed.

(* the whole loop of a targeton: feeding the lengths of its rows, in order, to the translated eval_in_range leaves the model's counts,
   and says "included" exactly for the rows the model includes *)
Theorem source_counts mn mx lens : forall c,
  fold_m (fun acc len => do r <- k_info_eval_in_range (fst acc) (mkOpts mn mx) len; Ok (fst r, snd acc ++ [snd r])) lens (c, [])
  = Ok (fold_left (count_step mn mx) lens c, map (included mn mx) lens).
Proof.
  assert (H : forall lens c pre,
    fold_m (fun acc len => do r <- k_info_eval_in_range (fst acc) (mkOpts mn mx) len; Ok (fst r, snd acc ++ [snd r])) lens (c, pre)
    = Ok (fold_left (count_step mn mx) lens c, pre ++ map (included mn mx) lens)).
  { induction lens0 as [|x l IH]; intros c pre; cbn [fold_m fold_left map].
    - now rewrite app_nil_r.
    - cbn [fst snd]. rewrite k_info_eval_in_range_eq. cbn [bind fst snd]. rewrite IH, <- app_assoc. reflexivity. }
  intros c. exact (H lens c []).
Qed.
