(* The liftover laws, stated about what the translated source computes: composition of the refinement theorems (model = specification,
   Proofs/GpoTop.v) with the equivalences model = translated source (Proofs/KernelGpoEquiv.v). *)
From VV Require Import Model.Base Model.Pattern Model.Gpo Model.PyStr Model.PyLoop Spec.LiftSpec Proofs.BaseLemmas
  Proofs.GpoRefine Proofs.GpoTop Generated.KernelsGpo Proofs.KernelGpoEquiv.

Theorem source_liftover_is_specification r vs : 0 < rs r -> rs r <= re r -> wf (rs r) (re r) vs ->
  exists kg, k_gpo_from_var_stats vs r = Ok kg
  /\ (forall p, rs r <= p <= re r -> k_gpo_ref_to_alt_position kg p None = Ok (r2a vs p))
  /\ (forall p, p < rs r -> forall nearest, k_gpo_ref_to_alt_position kg p nearest = Ok (Some p))
  /\ (forall q, rs r <= q < rs r + kg_alt_length kg -> k_gpo_alt_to_ref_position kg q = Ok (a2r vs q)).
Proof.
  intros H0 H1 Hwf.
  destruct (from_var_stats_wf r vs H0 H1 Hwf) as (g & Hg & Hfor).
  assert (Hv : range_valid r = true).
  { unfold range_valid. apply andb_true_intro. split; [apply Z.leb_le; lia|apply Z.leb_le; exact H1]. }
  pose proof (from_var_stats_del_length vs r g Hv Hg) as Hlen.
  exists (kgpo_of g). split; [exact (k_gpo_from_var_stats_ok vs r g Hv Hg)|]. split; [|split].
  - intros p Hp. rewrite (k_gpo_ref_to_alt_position_eq g p None Hlen). exact (ref_to_alt_refines g r vs Hwf Hfor p Hp).
  - intros p Hp nearest. rewrite (k_gpo_ref_to_alt_position_eq g p nearest Hlen). exact (ref_to_alt_before g r vs Hfor p nearest Hp).
  - intros q Hq. rewrite k_gpo_alt_to_ref_position_eq. exact (alt_to_ref_refines g r vs Hwf Hfor q Hq).
Qed.
