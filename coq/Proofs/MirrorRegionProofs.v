(* C14: the documented rows of a mirrored coding region are the mirror images of the documented rows of the region. *)
From VV Require Import Model.Base Model.Pattern Model.Seq Model.CodonTable Model.Transcript Model.Mutators Model.Mirror Spec.PatternSpec Spec.CodonSpec Spec.RegionSpec Spec.MirrorSpec Proofs.BaseLemmas Proofs.PatternProofs Proofs.CodonTableProofs Proofs.CodonProofs Proofs.AnnotProofs Proofs.RegionProofs Proofs.MirrorProofs.
From Coq Require Import ZifyBool Permutation.
Ltac Zify.zify_post_hook ::= Z.to_euclidean_division_equations.

(* ---- mirror images of sequences, regions' coding sequences and mutations ---- *)
Lemma revcomp_length (l : dna) : zlen (revcomp l) = zlen l.
Proof. unfold zlen, revcomp. now rewrite rev_length, map_length. Qed.

Lemma mirror_var_involutive n v : mirror_var n (mirror_var n v) = v.
Proof.
  destruct v as [p r a]. unfold mirror_var. cbn [v_pos v_ref v_alt]. rewrite !revcomp_involutive, revcomp_length.
  f_equal. unfold mpos. lia.
Qed.
Lemma mirror_range_involutive n r : mirror_range n (mirror_range n r) = r.
Proof. destruct r as [a b]. unfold mirror_range, mpos. cbn [rs re]. f_equal; lia. Qed.
Lemma mirror_exon_involutive n e : mirror_exon n (mirror_exon n e) = e.
Proof. destruct e as [a b i f]. unfold mirror_exon, mpos. cbn [x_start x_end x_index x_frame]. f_equal; lia. Qed.
Lemma rc_row_involutive r : rc_row (rc_row r) = r.
Proof. destruct r as [cd a0 rk]. unfold rc_row. cbn [c_codon c_aa c_rank]. now rewrite revcomp_involutive. Qed.
Lemma rc_table_involutive (t : table) : map rc_row (map rc_row t) = t.
Proof. rewrite map_map. rewrite <- (map_id t) at 2. apply map_ext. apply rc_row_involutive. Qed.
Lemma cds_mirror_sym n c c' : cds_mirror n c c' -> cds_mirror n c' c.
Proof.
  intros [H1 H2]. unfold cds_mirror, c_len in *. rewrite H2, revcomp_length, revcomp_involutive, H1. split; [|reflexivity].
  unfold mpos. lia.
Qed.

(* slices of the reverse complement *)
Lemma py_slice_revcomp (B : dna) a b : 0 <= a -> a <= b -> b <= zlen B ->
  py_slice (zlen B - b) (zlen B - a) (revcomp B) = revcomp (py_slice a b B).
Proof.
  intros Ha Hab Hb. unfold py_slice, zfirstn, zskipn, zlen in *.
  rewrite revcomp_firstn by (rewrite skipn_length; lia). rewrite revcomp_skipn by lia. rewrite skipn_length.
  rewrite firstn_skipn_comm. f_equal; [lia|]. f_equal. lia.
Qed.

Lemma znth_revcomp (B : dna) i x : znth i B = Some x -> znth (zlen B - 1 - i) (revcomp B) = Some (compl x).
Proof.
  intros H. pose proof (znth_Some_lt _ _ _ H) as Hi. apply py_slice_one in H.
  assert (E : py_slice (zlen B - (i + 1)) (zlen B - i) (revcomp B) = [compl x]).
  { rewrite py_slice_revcomp by lia. rewrite H. reflexivity. }
  pose proof (znth_py_slice (revcomp B) (zlen B - (i + 1)) 1 0) as Hz.
  replace (zlen B - (i + 1) + 1) with (zlen B - i) in Hz by lia. rewrite E in Hz.
  replace (zlen B - (i + 1) + 0) with (zlen B - 1 - i) in Hz by lia. rewrite <- Hz by lia. reflexivity.
Qed.

Lemma compl_involutive x : compl (compl x) = x.
Proof. now destruct x. Qed.
Lemma compl_inj x y : compl x = compl y -> x = y.
Proof. intros H. rewrite <- (compl_involutive x), <- (compl_involutive y). now f_equal. Qed.

Lemma set_base_revcomp (cd : dna) i y : 0 <= i < zlen cd ->
  set_base (revcomp cd) (zlen cd - 1 - i) (compl y) = revcomp (set_base cd i y).
Proof.
  intros Hi. unfold set_base. rewrite (alter_revcomp cd i 1 [y]) by lia.
  replace (zlen cd - i - 1) with (zlen cd - 1 - i) by lia. replace (zlen cd - 1 - i + 1) with (zlen cd - i) by lia. reflexivity.
Qed.

Section Mirror.
Variables (n : Z) (s : strand) (e : exon) (r : range) (c c' : cds_seq) (t : table).
Hypothesis Hm : cds_mirror n c c'.
Hypothesis Hs : c_start c = rs r.
Hypothesis Hl : c_len c = rlen r.
Hypothesis Hr : rs r <= re r.

Let L := zlen (c_bases c).
Let HL : L = rlen r := Hl.

Lemma cds_bases_at_mirror q k : rs r <= q -> 0 <= k -> q + k - 1 <= re r ->
  cds_bases_at c' (mpos n (q + k - 1)) k = revcomp (cds_bases_at c q k).
Proof.
  intros H1 Hk H2. destruct Hm as [Hs' Hb']. unfold cds_bases_at. rewrite Hs', Hb'. unfold c_len. fold L.
  rewrite <- (py_slice_revcomp (c_bases c) (q - c_start c) (q - c_start c + k)); fold L; try lia.
  - f_equal; unfold mpos; lia.
  - rewrite HL, Hs. unfold rlen. lia.
Qed.

Lemma codon_row_mirror v : codon_row s e r c v -> zlen (v_ref v) = 3 /\ codon_row (flip s) (mirror_exon n e) (mirror_range n r) c' (mirror_var n v).
Proof.
  intros [Hrc Href]. pose proof Hrc as (Hq1 & Hq2 & _).
  assert (H3 : zlen (v_ref v) = 3).
  { rewrite Href. unfold cds_bases_at. rewrite py_slice_length_in; try lia. fold L. rewrite HL, Hs. unfold rlen. lia. }
  split; [assumption|]. unfold codon_row, mirror_var. cbn [v_pos v_ref]. rewrite H3.
  replace (v_pos v + 3 - 1) with (v_pos v + 2) by lia. split.
  - now apply region_codon_mirror.
  - rewrite Href at 1. replace (v_pos v + 2) with (v_pos v + 3 - 1) by lia. rewrite cds_bases_at_mirror; auto; lia.
Qed.

Lemma rc_top a x : get_top_codon t a = Ok x -> get_top_codon (map rc_row t) a = Ok (revcomp x).
Proof. intros H. destruct (rc_table_transport t a []) as (_ & Ht & _). unfold from_list in Ht. rewrite Ht, H. reflexivity. Qed.

Lemma rc_aas : aas_of (map rc_row t) = aas_of t.
Proof. unfold aas_of. rewrite map_map. reflexivity. Qed.

Theorem row_spec_mirror_fwd k v :
  orientation_free k -> row_spec t s e r c k v ->
  row_spec (map rc_row t) (flip s) (mirror_exon n e) (mirror_range n r) c' k (mirror_var n v).
Proof.
  intros Hof H. destruct Hm as [Hs' Hb']. destruct k; cbn [row_spec orientation_free] in *.
  - (* 1del *)
    destruct Hof as [-> ->]. destruct H as (k & [Hk Hfit] & Hpos & Href & Hlen & Halt).
    unfold window_start, window_fits, is_del_row, bases_at, s_len, c_seq in *. cbn [s_start s_bases] in *. fold L in Hfit.
    exists (L - 1 - k). unfold mirror_var, window_fits, window_start, bases_at, s_len, c_seq. cbn [v_pos v_ref v_alt s_start s_bases].
    rewrite Hlen, Halt, Hb', !revcomp_length. fold L. rewrite Hlen.
    split; [lia|]. split; [rewrite Hs'; unfold mpos, c_len; fold L; lia|]. split; [|split; reflexivity].
    rewrite Href, Hs', Hpos. unfold c_len. fold L.
    replace (c_start c + 0 + k * 1 - c_start c) with k by lia.
    rewrite <- (py_slice_revcomp (c_bases c) k (k + 1)); fold L; try lia. f_equal; unfold mpos; lia.
  - (* snv *)
    destruct H as (i & x & y & Hi & Hx & Hpos & Href & Halt & Hne).
    unfold is_snv_row, s_len, c_seq in *. cbn [s_start s_bases] in *. fold L in Hi.
    exists (L - 1 - i), (compl x), (compl y). unfold mirror_var. cbn [v_pos v_ref v_alt].
    rewrite Href, Halt, Hb', revcomp_length. fold L. split; [lia|]. split; [now apply znth_revcomp|].
    split; [rewrite Hs', Hpos; change (zlen [x]) with 1; unfold mpos, c_len; fold L; lia|]. repeat split. intros E. apply Hne. now apply compl_inj.
  - (* snvre *)
    destruct H as (i & x & y & Hi & Hrc & Href & Hxi & Hne & Hrule).
    destruct (codon_row_mirror v (conj Hrc Href)) as [H3 [Hrc' Href']].
    exists (2 - i), (compl x), (compl y). split; [lia|]. split; [exact Hrc'|]. split; [exact Href'|].
    unfold mirror_var. cbn [v_pos v_ref v_alt]. split.
    { replace (2 - i) with (zlen (v_ref v) - 1 - i) by lia. now apply znth_revcomp. }
    split; [intros E; apply Hne; now apply compl_inj|].
    replace (2 - i) with (zlen (v_ref v) - 1 - i) by lia. rewrite set_base_revcomp by lia.
    apply (snvre_rule_mirror t). exact Hrule.
  - (* inframe *)
    destruct H as [Hcr Halt]. destruct (codon_row_mirror v Hcr) as [_ Hcr']. split; [exact Hcr'|].
    unfold mirror_var. cbn [v_alt]. now rewrite Halt.
  - (* ala *)
    destruct H as (Hcr & Htop & Hne). destruct (codon_row_mirror v Hcr) as [_ Hcr']. split; [exact Hcr'|].
    unfold mirror_var. cbn [v_ref v_alt]. split; [now apply rc_top|]. intros E. apply Hne. now apply revcomp_inj.
  - (* stop *)
    destruct H as (Hcr & Htop & Hne). destruct (codon_row_mirror v Hcr) as [_ Hcr']. split; [exact Hcr'|].
    unfold mirror_var. cbn [v_ref v_alt]. split; [now apply rc_top|]. intros E. apply Hne. now apply revcomp_inj.
  - (* aa *)
    destruct H as (Hcr & a0 & a & Htr & Ha & Hst & Hne & Htop). destruct (codon_row_mirror v Hcr) as [_ Hcr']. split; [exact Hcr'|].
    exists a0, a. unfold mirror_var. cbn [v_ref v_alt]. rewrite rc_aas.
    destruct (rc_table_transport t a (v_ref v)) as (Ht & _ & _). unfold from_list in Ht. rewrite Ht.
    repeat split; auto. now apply rc_top.
Qed.
End Mirror.

Lemma mirror_range_shape n r c c' : cds_mirror n c c' -> c_start c = rs r -> c_len c = rlen r -> rs r <= re r ->
  c_start c' = rs (mirror_range n r) /\ c_len c' = rlen (mirror_range n r) /\ rs (mirror_range n r) <= re (mirror_range n r).
Proof.
  intros [H1 H2] Hs Hl Hr. unfold mirror_range, rlen, c_len, mpos in *. cbn [rs re]. rewrite H1, H2, revcomp_length. lia.
Qed.

(* the documented rows of the mirrored region are the mirror images of the documented rows of the region *)
Theorem row_spec_mirror n s e r c c' t k v :
  cds_mirror n c c' -> c_start c = rs r -> c_len c = rlen r -> rs r <= re r -> orientation_free k ->
  (row_spec (map rc_row t) (flip s) (mirror_exon n e) (mirror_range n r) c' k (mirror_var n v) <-> row_spec t s e r c k v).
Proof.
  intros Hm Hs Hl Hr Hof. split; [|now apply row_spec_mirror_fwd].
  intros H. destruct (mirror_range_shape _ _ _ _ Hm Hs Hl Hr) as (Hs' & Hl' & Hr').
  pose proof (row_spec_mirror_fwd n (flip s) (mirror_exon n e) (mirror_range n r) c' c (map rc_row t)
                (cds_mirror_sym _ _ _ Hm) Hs' Hl' k _ Hof H) as H'.
  now rewrite rc_table_involutive, flip_involutive, mirror_exon_involutive, mirror_range_involutive, mirror_var_involutive in H'.
Qed.

Lemma row_spec_ref_nonempty t s e r c k v :
  c_start c = rs r -> c_len c = rlen r -> orientation_free k -> row_spec t s e r c k v -> 1 <= zlen (v_ref v).
Proof.
  intros Hs Hl Hof H.
  assert (Hcr : codon_row s e r c v -> 1 <= zlen (v_ref v)).
  { intros [(Hq1 & Hq2 & _) Href]. rewrite Href. unfold cds_bases_at. rewrite py_slice_length_in; try lia.
    change (zlen (c_bases c)) with (c_len c). rewrite Hl, Hs. unfold rlen. lia. }
  destruct k; cbn [row_spec orientation_free] in *.
  - destruct Hof as [-> ->]. destruct H as (k & _ & _ & _ & Hlen & _). lia.
  - destruct H as (i & x & y & _ & _ & _ & Href & _). rewrite Href. change (zlen [x]) with 1. lia.
  - destruct H as (i & x & y & _ & Hrc & Href & _). apply Hcr. split; assumption.
  - apply Hcr, H.
  - apply Hcr, H.
  - apply Hcr, H.
  - apply Hcr, H.
Qed.

Lemma in_region_mirror n r v : 1 <= zlen (v_ref v) -> in_region (mirror_range n r) (mirror_var n v) = in_region r v.
Proof.
  intros H. unfold in_region, in_range, var_ref_end, get_end, mirror_range, mirror_var, mpos. cbn [rs re v_pos v_ref].
  rewrite revcomp_length. lia.
Qed.

Lemma substr_mirror n q r B : rs r <= re r -> re r - s_start q + 1 <= s_len q ->
  substr q r = Ok B -> substr (mirror_seq n q) (mirror_range n r) = Ok (revcomp B).
Proof.
  intros Hr Hin H. unfold substr, mk_range in *.
  destruct ((0 <=? rs r - s_start q) && (rs r - s_start q <=? re r - s_start q)) eqn:E; [|discriminate].
  cbn [bind rs re] in H. apply Ok_inj in H. subst B.
  unfold mirror_seq, mirror_range, mpos, s_len in *. cbn [s_start s_bases rs re].
  match goal with |- (do _ <- (if ?b then _ else _); _) = _ => replace b with true by lia end. cbn [bind rs re].
  f_equal. rewrite <- py_slice_revcomp by lia. f_equal; lia.
Qed.

Lemma cds_mirror_of_runs n tr tr' q e e' r c c' :
  get_cds_seq_exon tr q e r = Ok c -> get_cds_seq_exon tr' (mirror_seq n q) e' (mirror_range n r) = Ok c' ->
  rs r <= re r -> s_start q <= rs r -> re r - s_start q + 1 <= s_len q ->
  cds_mirror n c c' /\ c_start c = rs r /\ c_len c = rlen r.
Proof.
  intros Hc Hc' Hr H1 H2.
  destruct (get_cds_seq_exon_shape _ _ _ _ _ Hc H1 H2) as (b & a & _ & _ & Hs & _ & _ & Hl & Hsub).
  assert (H1' : s_start (mirror_seq n q) <= rs (mirror_range n r)) by (unfold mirror_seq, mirror_range, mpos; cbn [s_start rs]; lia).
  assert (H2' : re (mirror_range n r) - s_start (mirror_seq n q) + 1 <= s_len (mirror_seq n q)).
  { unfold mirror_seq, mirror_range, mpos, s_len. cbn [s_start s_bases re]. rewrite revcomp_length. unfold s_len in *. lia. }
  destruct (get_cds_seq_exon_shape _ _ _ _ _ Hc' H1' H2') as (b' & a' & _ & _ & Hs' & _ & _ & Hl' & Hsub').
  rewrite (substr_mirror _ _ _ _ Hr H2 Hsub) in Hsub'. apply Ok_inj in Hsub'.
  repeat split; auto. rewrite Hs', Hs, Hl. unfold mirror_range, rlen. cbn [rs]. f_equal. lia.
Qed.

(* C14, one coding region: the (label, mutation) rows emitted for the mirrored region of the mirrored design are exactly the
   mirror images of the rows emitted for the region, for the orientation-free mutators in any combination *)
Theorem region_rows_mirror n rows tr tr' q e r c c' ms plain annotated plain' annotated' :
  t_strand tr' = flip (t_strand tr) ->
  0 <= rs r <= re r -> re r <= n -> s_start q <= rs r -> re r - s_start q + 1 <= s_len q ->
  get_cds_seq_exon tr q e r = Ok c ->
  get_cds_seq_exon tr' (mirror_seq n q) (mirror_exon n e) (mirror_range n r) = Ok c' ->
  (forall k, In k ms -> kind_wf k /\ orientation_free k) ->
  region_variants_cds (strand_table rows (t_strand tr)) c ms = Ok (plain, annotated) ->
  region_variants_cds (strand_table rows (t_strand tr')) c' ms = Ok (plain', annotated') ->
  forall lbl v,
    row_of (keep_in_region (mirror_range n r) (plain' ++ annotated')) lbl (mirror_var n v) <->
    row_of (keep_in_region r (plain ++ annotated)) lbl v.
Proof.
  intros Hst Hr Hn H1 H2 Hc Hc' Hks Hrun Hrun' lbl v.
  destruct (cds_mirror_of_runs _ _ _ _ _ _ _ _ _ Hc Hc' (proj2 Hr) H1 H2) as (Hm & Hs & Hl).
  assert (H1' : s_start (mirror_seq n q) <= rs (mirror_range n r)) by (unfold mirror_seq, mirror_range, mpos; cbn [s_start rs]; lia).
  assert (H2' : re (mirror_range n r) - s_start (mirror_seq n q) + 1 <= s_len (mirror_seq n q)).
  { unfold mirror_seq, mirror_range, mpos, s_len. cbn [s_start s_bases re]. rewrite revcomp_length. unfold s_len in *. lia. }
  assert (Hr' : 0 <= rs (mirror_range n r) <= re (mirror_range n r)) by (unfold mirror_range, mpos; cbn [rs re]; lia).
  assert (Hwf : forall k, In k ms -> kind_wf k) by (intros k Hk; apply Hks, Hk).
  assert (Hof : forall k, In k (with_dependents ms) -> orientation_free k).
  { intros k Hk. unfold with_dependents in Hk. destruct (_ && _); [|apply Hks, Hk]. apply in_app_iff in Hk.
    destruct Hk as [Hk|[<-|[]]]; [apply Hks, Hk|exact I]. }
  rewrite (region_rows_exact _ _ _ _ _ _ _ _ _ Hc Hr H1 H2 Hwf Hrun lbl v).
  rewrite (region_rows_exact _ _ _ _ _ _ _ _ _ Hc' Hr' H1' H2' Hwf Hrun' lbl (mirror_var n v)).
  assert (Htab : exists t, strand_table rows (t_strand tr) = t /\ strand_table rows (t_strand tr') = map rc_row t).
  { rewrite Hst. unfold strand_table, from_list. destruct (t_strand tr); cbn [flip is_plus negb].
    - exists rows. auto.
    - exists (map rc_row rows). now rewrite rc_table_involutive. }
  destruct Htab as (t & -> & ->). rewrite Hst.
  split; intros (k & Hk & Hlk & Hspec & Hreg); exists k; repeat split; auto.
  - apply (row_spec_mirror n _ _ _ _ _ t k v Hm Hs Hl (proj2 Hr) (Hof _ Hk)). exact Hspec.
  - apply (row_spec_mirror n _ _ _ _ _ t k v Hm Hs Hl (proj2 Hr) (Hof _ Hk)) in Hspec.
    rewrite <- (in_region_mirror n r v); [assumption|]. eapply row_spec_ref_nonempty; eauto.
  - apply (row_spec_mirror n _ _ _ _ _ t k v Hm Hs Hl (proj2 Hr) (Hof _ Hk)). exact Hspec.
  - rewrite in_region_mirror; [assumption|]. eapply row_spec_ref_nonempty; eauto.
Qed.

(* amino-acid annotation of codon-level rows: the mirrored row is annotated alike (same ref_aa, alt_aa, hence mut_type) *)
Theorem annot_codon_mirror n t c c' v src a a' :
  zlen (v_ref v) = 3 ->
  annotate t c v src = Ok a -> annotate (map rc_row t) c' (mirror_var n v) src = Ok a' ->
  a_aa_ref a' = a_aa_ref a /\ a_aa_alt a' = a_aa_alt a /\ a_mut_type a' = a_mut_type a.
Proof.
  intros H3 Ha Ha'. apply annot_codon_correct in Ha; [|assumption].
  apply annot_codon_correct in Ha'; [|unfold mirror_var; cbn [v_ref]; now rewrite revcomp_length].
  destruct Ha as (_ & _ & _ & _ & Hr & Hal). destruct Ha' as (_ & _ & _ & _ & Hr' & Hal').
  unfold mirror_var in *. cbn [v_ref v_alt] in *.
  destruct (rc_table_transport t EmptyString (v_ref v)) as (Ht1 & _ & _).
  destruct (rc_table_transport t EmptyString (v_alt v)) as (Ht2 & _ & _). unfold from_list in *.
  rewrite Ht1, Hr in Hr'. rewrite Ht2, Hal in Hal'. apply Ok_inj in Hr', Hal'. unfold a_mut_type. rewrite <- Hr', <- Hal'. auto.
Qed.
