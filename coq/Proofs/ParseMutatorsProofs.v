(* C12 / C02: no mutator is configured twice, however its code is spelled or repeated. *)
From VV Require Import Model.Base Model.Pattern Model.CodonTable Model.Transcript Model.Mutators Model.Views Model.Order Model.ParseList Model.Refusal Model.ParseMutators Proofs.BaseLemmas Proofs.CodonProofs Proofs.OrderProofs.
From Coq Require Import ZifyBool.

Lemma mkind_eqb_eq a b : mkind_eqb a b = true <-> a = b.
Proof.
  destruct a, b; cbn; split; try discriminate; try reflexivity; intros H.
  - apply andb_true_iff in H. destruct H as [H1 H2]. apply Z.eqb_eq in H1, H2. now subst.
  - injection H as -> ->. rewrite !Z.eqb_refl. reflexivity.
Qed.

Lemma dedup_kinds_In l x : In x (dedup_kinds l) <-> In x l.
Proof.
  induction l as [|k l IH]; cbn [dedup_kinds In]; [reflexivity|].
  rewrite filter_In, IH. split.
  - intros [H|[H _]]; auto.
  - intros [H|H]; [auto|]. destruct (mkind_eqb k x) eqn:E; [left; now apply mkind_eqb_eq|right; auto].
Qed.

Lemma dedup_kinds_NoDup l : NoDup (dedup_kinds l).
Proof.
  induction l as [|k l IH]; cbn [dedup_kinds]; constructor.
  - intros H. apply filter_In in H. destruct H as [_ H]. rewrite (proj2 (mkind_eqb_eq k k) eq_refl) in H. discriminate.
  - now apply NoDup_filter.
Qed.

(* no mutator is configured twice, however its code is spelled or repeated: with C02/C03's exact row sets per mutator, no row twice *)
Theorem parse_mutators_NoDup s ks : parse_mutators s = Ok ks -> NoDup ks.
Proof.
  unfold parse_mutators. destruct (mapM _ _) as [l|]; [|discriminate]. cbn [bind]. intros H. injection H as <-. apply dedup_kinds_NoDup.
Qed.

(* ... and the configured mutators are exactly the parsed codes *)
Theorem parse_mutators_exact s ks : parse_mutators s = Ok ks ->
  forall k, In k ks <-> exists code, In code (parse_list s) /\ parse_label code = Ok k.
Proof.
  unfold parse_mutators. destruct (mapM _ _) as [l|] eqn:E; [|discriminate]. cbn [bind]. intros H. injection H as <-. intros k.
  rewrite dedup_kinds_In, (mapM_In _ _ _ E). split; intros (code & Hc & Hp); exists code; split; auto.
  - apply -> sort_dedup_In in Hc. exact Hc.
  - apply <- sort_dedup_In. exact Hc.
Qed.

Example parse_mutators_example :
  parse_mutators " 2del0, snv,2del ,1del0, 1del,snv" = Ok [MDelK 1 0; MDelK 2 0; MSnv].
Proof. vm_compute. reflexivity. Qed.
