(* C16: configuration dump/load round trip, validity rule, -c control flow. *)
From VV Require Import Model.Base Model.Config Proofs.BaseLemmas Proofs.CodonProofs.

Lemma lookup_map_alias (fs : list fdecl) (vals : list jval) f v :
  NoDup (map f_alias fs) -> length vals = length fs ->
  In (f, v) (combine fs vals) -> lookup (f_alias f) (combine (map f_alias fs) vals) = Some v.
Proof.
  revert vals. induction fs as [|g fs IH]; intros [|w vals] Hnd Hl Hin; cbn in *; try easy.
  inversion Hnd as [|? ? Hni Hnd']; subst. destruct Hin as [Heq|Hin].
  - inversion Heq; subst. now rewrite String.eqb_refl.
  - destruct (String.eqb (f_alias g) (f_alias f)) eqn:E.
    + apply String.eqb_eq in E. exfalso. apply Hni. rewrite E. apply in_map. eapply in_combine_l; eauto.
    + apply IH; auto.
Qed.

Lemma mapM_ext_in {X Y} (f g : X -> result Y) l : (forall x, In x l -> f x = g x) -> mapM f l = mapM g l.
Proof.
  induction l as [|x l IH]; intros H; cbn [mapM]; [reflexivity|].
  rewrite (H x) by now left. rewrite IH by (intros; apply H; now right). reflexivity.
Qed.

Lemma dump_spec fs : forall c o,
  NoDup (map f_name fs) -> map fst c = map f_name fs -> dump fs c = Ok o -> o = combine (map f_alias fs) (map snd c).
Proof.
  unfold dump. induction fs as [|f fs IH]; intros c o Hnm Hsh Hd.
  - cbn in Hd. apply Ok_inj in Hd. subst. destruct c; [reflexivity|discriminate].
  - destruct c as [|[k v] c]; [discriminate|]. cbn [map fst] in Hsh. injection Hsh as Hk Hsh. subst k.
    cbn [mapM lookup] in Hd. rewrite String.eqb_refl in Hd. cbn [bind] in Hd.
    inversion Hnm as [|? ? Hni Hnm']; subst.
    rewrite (mapM_ext_in _ (fun g => match lookup (f_name g) c with Some v => Ok (f_alias g, v) | None => Err KeyError end)) in Hd.
    2:{ intros g Hg. cbn [lookup]. destruct (String.eqb (f_name f) (f_name g)) eqn:E; [|reflexivity].
        apply String.eqb_eq in E. exfalso. apply Hni. rewrite E. now apply in_map. }
    destruct (mapM _ fs) as [o'|] eqn:Em; [|discriminate]. cbn [bind] in Hd. apply Ok_inj in Hd. subst o.
    cbn [map snd combine]. f_equal. now apply IH.
Qed.

Lemma load_spec fs : forall vals o,
  length vals = length fs ->
  (forall f v, In (f, v) (combine fs vals) -> load_field f o = Ok (f_name f, v)) ->
  load fs o = Ok (combine (map f_name fs) vals).
Proof.
  unfold load. induction fs as [|f fs IH]; intros [|v vals] o Hlen Hall; cbn in *; try easy.
  rewrite (Hall f v) by now left. cbn [bind]. rewrite (IH vals) by (auto; lia). reflexivity.
Qed.

(* dump then load gives back the configuration *)
Theorem dump_load_roundtrip fs c o :
  NoDup (map f_alias fs) -> NoDup (map f_name fs) -> shaped fs c -> dump fs c = Ok o -> load fs o = Ok c.
Proof.
  intros Hal Hnm Hsh Hd. unfold shaped in Hsh.
  assert (Hc : c = combine (map f_name fs) (map snd c)).
  { rewrite <- Hsh. clear. induction c as [|[k v] c IH]; cbn; [reflexivity|]. now rewrite <- IH. }
  assert (Hlen : length (map snd c) = length fs) by (rewrite map_length, <- (map_length fst), Hsh, map_length; reflexivity).
  apply dump_spec in Hd; auto. subst o. rewrite Hc at 2. apply load_spec; [assumption|].
  intros f v Hin. unfold load_field. now rewrite (lookup_map_alias fs (map snd c) f v Hal Hlen Hin).
Qed.

(* is_valid *)
Theorem sge_valid_iff a5 a3 mn mx ns fs :
  sge_valid a5 a3 mn mx ns fs = true <->
  adaptor_valid a5 = true /\ adaptor_valid a3 = true /\ 1 <= mn /\ 1 <= mx /\ (fs = true -> ns = true).
Proof.
  unfold sge_valid, base_valid. rewrite !andb_true_iff, !Z.leb_le, negb_true_iff. split.
  - intros [[[[H1 H2] H3] H4] H5]. repeat split; auto. intros ->. destruct ns; [reflexivity|discriminate].
  - intros (H1 & H2 & H3 & H4 & H5). repeat split; auto. destruct fs; [rewrite H5; reflexivity|reflexivity].
Qed.

Theorem adaptor_valid_iff s : is_dna_str s = true <-> exists l, dna_of_string s = Some l.
Proof.
  induction s as [|c s IH]; cbn; [split; eauto|].
  destruct (nt_of_ascii c); [|split; [discriminate|intros [l H]; discriminate]].
  rewrite IH. split; intros [l H]; [rewrite H; eauto|destruct (dna_of_string s); [eauto|discriminate]].
Qed.

(* valiant -c: nothing runs unless the file parses, the mode is known, the output directory and every input file exist *)
Theorem main_config_run_iff parses valid_mode dir_ok files_ok :
  main_config_run parses valid_mode dir_ok files_ok = Ran <-> parses = true /\ valid_mode = true /\ dir_ok = true /\ files_ok = true.
Proof. destruct parses, valid_mode, dir_ok, files_ok; cbn; split; try discriminate; intuition discriminate. Qed.

(* a boolean NoDup on strings, to instantiate the round trip on the generated field lists *)
Fixpoint nodupb (l : list string) : bool :=
  match l with [] => true | x :: l' => negb (existsb (String.eqb x) l') && nodupb l' end.
Lemma nodupb_NoDup l : nodupb l = true -> NoDup l.
Proof.
  induction l as [|x l IH]; cbn [nodupb]; [constructor|]. rewrite andb_true_iff, negb_true_iff. intros [Hx Hl].
  constructor; [|now apply IH]. intros Hin. assert (existsb (String.eqb x) l = true); [|congruence].
  apply existsb_exists. exists x. split; [assumption|apply String.eqb_refl].
Qed.

Definition decls (fields : list (string * string * bool)) : list fdecl :=
  map (fun t : string * string * bool => mkF (fst (fst t)) (snd (fst t)) (if snd t then Some JNull else None)) fields.

Theorem roundtrip_of_fields fields c o :
  nodupb (map (fun t : string * string * bool => snd (fst t)) fields) = true -> nodupb (map (fun t : string * string * bool => fst (fst t)) fields) = true ->
  shaped (decls fields) c -> dump (decls fields) c = Ok o -> load (decls fields) o = Ok c.
Proof.
  intros Ha Hn. apply dump_load_roundtrip; apply nodupb_NoDup; unfold decls; rewrite map_map; cbn [f_alias f_name]; assumption.
Qed.
