(* C11: the oligonucleotide names.  The name functions (coq/Generated/KernelsNames.v) are translated from variant.py / meta_table.py on every
   run; here: what they compute in closed form, and that names are injective in the source and the mutation. *)
From VV Require Import Model.Base Model.Pattern Model.Seq Model.Vcf Model.Mave Model.PyStr Generated.KernelsNames Proofs.BaseLemmas.
From Coq Require Import ZifyBool Ascii String DecimalString DecimalPos DecimalZ.

(* ---- what the generated name functions compute, in closed form ---- *)
Definition pos_frag (v : variant) : string :=
  if zlen (v_ref v) <=? 1 then zstr (v_pos v) else (zstr (v_pos v) ++ "_" ++ zstr (v_pos v + zlen (v_ref v) - 1))%string.

Definition var_frag (v : variant) : result string :=
  match v_ref v, v_alt v with
  | [], [] => Err ValueError
  | [], _ => Ok (pos_frag v ++ "_" ++ v_alt_s v)%string
  | _, [] => Ok (pos_frag v)
  | _, _ => Ok (pos_frag v ++ "_" ++ v_ref_s v ++ ">" ++ v_alt_s v)%string
  end.

Definition tr_frag (gene_id transcript_id : option string) : string :=
  if negb (onull transcript_id) && negb (onull gene_id) then (fmt_ostr transcript_id ++ "." ++ fmt_ostr gene_id)%string else "NO_TRANSCRIPT"%string.

Definition rc_suffix (is_rc : bool) : string := if is_rc then "_rc"%string else ""%string.

Lemma slen_dna d : slen (string_of_dna d) = zlen d.
Proof. unfold slen, zlen. f_equal. induction d as [|x d IH]; cbn; [reflexivity|now rewrite IH]. Qed.
Lemma sempty_dna d : sempty (string_of_dna d) = is_nil d.
Proof. destruct d; reflexivity. Qed.

Lemma k_var_name_frag_spec v : k_var_name_frag v = var_frag v.
Proof.
  unfold k_var_name_frag, k_var_ref_end, k_var_type, kn_get_end, kn_clamp_non_negative, k_var_ref_len, var_frag, pos_frag, v_ref_s, v_alt_s.
  cbn [bind]. rewrite !slen_dna, !sempty_dna.
  destruct (v_ref v) as [|x r] eqn:Er; destruct (v_alt v) as [|y a] eqn:Ea; cbn [is_nil negb bind]; rewrite ?zlen_nil, ?zlen_cons.
  - reflexivity.
  - reflexivity.
  - pose proof (zlen_nonneg r). destruct (1 + zlen r <=? 1) eqn:E; cbn [bind]; [reflexivity|].
    replace (v_pos v + Z.max 0 (1 + zlen r - 1)) with (v_pos v + (1 + zlen r) - 1) by lia. reflexivity.
  - pose proof (zlen_nonneg r). destruct (1 + zlen r <=? 1) eqn:E; cbn [bind]; [reflexivity|].
    replace (v_pos v + Z.max 0 (1 + zlen r - 1)) with (v_pos v + (1 + zlen r) - 1) by lia. reflexivity.
Qed.

Lemma k_sge_oligo_name_spec gene_id transcript_id contig is_rc src v :
  k_sge_oligo_name gene_id transcript_id contig is_rc src v =
  do f <- var_frag v; Ok (tr_frag gene_id transcript_id ++ "_" ++ contig ++ ":" ++ f ++ "_" ++ src ++ rc_suffix is_rc)%string.
Proof.
  unfold k_sge_oligo_name, k_transcript_frag. cbn [bind]. rewrite k_var_name_frag_spec. destruct (var_frag v); reflexivity.
Qed.

Lemma k_cdna_oligo_name_spec gene_id transcript_id seq_id src v :
  k_cdna_oligo_name gene_id transcript_id seq_id src v =
  do f <- var_frag v; Ok (seq_id ++ "_" ++ tr_frag gene_id transcript_id ++ "_" ++ f ++ "_" ++ src)%string.
Proof.
  unfold k_cdna_oligo_name, k_transcript_frag. cbn [bind]. rewrite k_var_name_frag_spec. destruct (var_frag v); reflexivity.
Qed.

(* ================= names are injective ================= *)
Local Open Scope string_scope.

Definition is_digit (c : ascii) : bool := (48 <=? nat_of_ascii c)%nat && (nat_of_ascii c <=? 57)%nat.
Definition is_base (c : ascii) : bool := Ascii.eqb c "A" || Ascii.eqb c "C" || Ascii.eqb c "G" || Ascii.eqb c "T".
Definition is_us (c : ascii) : bool := Ascii.eqb c "_".
Definition is_gt (c : ascii) : bool := Ascii.eqb c ">".

Fixpoint all_chars (P : ascii -> bool) (s : string) : bool :=
  match s with EmptyString => true | String c s' => P c && all_chars P s' end.
Definition no_us (s : string) : bool := all_chars (fun c => negb (is_us c)) s.

Lemma all_chars_app P a b : all_chars P (a ++ b) = all_chars P a && all_chars P b.
Proof. induction a as [|c a IH]; cbn; [reflexivity|]. now rewrite IH, andb_assoc. Qed.

Lemma all_chars_weaken (P Q : ascii -> bool) s : (forall c, P c = true -> Q c = true) -> all_chars P s = true -> all_chars Q s = true.
Proof.
  intros H. induction s as [|c s IH]; cbn; [auto|]. intros E. apply andb_true_iff in E. destruct E as [E1 E2].
  rewrite (H _ E1), (IH E2). reflexivity.
Qed.

(* decimal strings *)
Lemma uint_digits d : all_chars is_digit (NilEmpty.string_of_uint d) = true.
Proof. induction d; cbn; auto. Qed.

Lemma zstr_digits z : 0 <= z -> all_chars is_digit (zstr z) = true /\ zstr z <> "".
Proof.
  intros Hz. unfold zstr, NilZero.string_of_int. destruct z as [|p|p]; [cbn; split; [reflexivity|discriminate]| |lia].
  cbn [Z.to_int]. unfold NilZero.string_of_uint.
  pose proof (DecimalPos.Unsigned.to_uint_nonnil p) as Hn.
  destruct (Pos.to_uint p) eqn:E; try congruence; (split; [rewrite <- E in *; cbn; try apply uint_digits|]).
  all: try (rewrite E; apply (uint_digits _)).
  all: cbn; discriminate.
Qed.

Lemma zstr_inj z1 z2 : zstr z1 = zstr z2 -> z1 = z2.
Proof.
  unfold zstr. intros H.
  assert (Hnn : forall z, Z.to_int z <> Decimal.Pos Decimal.Nil /\ Z.to_int z <> Decimal.Neg Decimal.Nil).
  { intros z. destruct z as [|p|p]; cbn; split; try discriminate; intros E; injection E as E; now apply (DecimalPos.Unsigned.to_uint_nonnil p). }
  pose proof (NilZero.isi (Z.to_int z1) (proj1 (Hnn z1)) (proj2 (Hnn z1))) as H1.
  pose proof (NilZero.isi (Z.to_int z2) (proj1 (Hnn z2)) (proj2 (Hnn z2))) as H2.
  rewrite H in H1. rewrite H1 in H2. injection H2 as H2.
  rewrite <- (DecimalZ.of_to z1), <- (DecimalZ.of_to z2). now rewrite H2.
Qed.

(* DNA strings *)
Lemma dna_bases d : all_chars is_base (string_of_dna d) = true.
Proof. induction d as [|x d IH]; cbn; [reflexivity|]. rewrite IH. destruct x; reflexivity. Qed.

Lemma string_of_dna_inj a : forall b, string_of_dna a = string_of_dna b -> a = b.
Proof.
  induction a as [|x a IH]; intros [|y b] H; cbn in H; try discriminate; [reflexivity|].
  injection H as Hc Hs. f_equal; [destruct x, y; cbn in Hc; congruence|now apply IH].
Qed.

Lemma digit_no_us c : is_digit c = true -> negb (is_us c) = true.
Proof. unfold is_digit, is_us. intros H. destruct (Ascii.eqb_spec c "_") as [->|]; [cbn in H; discriminate|reflexivity]. Qed.
Lemma base_no_us c : is_base c = true -> negb (is_us c) = true.
Proof. unfold is_base, is_us. intros H. destruct (Ascii.eqb_spec c "_") as [->|]; [cbn in H; discriminate|reflexivity]. Qed.
Lemma base_no_gt c : is_base c = true -> negb (is_gt c) = true.
Proof. unfold is_base, is_gt. intros H. destruct (Ascii.eqb_spec c ">") as [->|]; [cbn in H; discriminate|reflexivity]. Qed.
Lemma digit_not_base c : is_digit c = true -> is_base c = true -> False.
Proof.
  unfold is_digit, is_base. intros H1 H2. repeat (apply orb_true_iff in H2; destruct H2 as [H2|H2]); apply Ascii.eqb_eq in H2; subst c; cbn in H1; discriminate.
Qed.

(* cutting at the first separator *)
Lemma first_sep (P : ascii -> bool) (sep : ascii) a : forall a' x x',
  P sep = false -> all_chars P a = true -> all_chars P a' = true ->
  a ++ String sep x = a' ++ String sep x' -> a = a' /\ x = x'.
Proof.
  induction a as [|c a IH]; intros [|c' a'] x x' Hsep Ha Ha' H; cbn in *.
  - injection H as ->. auto.
  - injection H as <- _. apply andb_true_iff in Ha'. destruct Ha' as [E _]. congruence.
  - injection H as -> _. apply andb_true_iff in Ha. destruct Ha as [E _]. congruence.
  - injection H as <- H. apply andb_true_iff in Ha, Ha'. destruct (IH a' x x' Hsep (proj2 Ha) (proj2 Ha') H) as [-> ->]. auto.
Qed.

Lemma no_sep_inside (P : ascii -> bool) (sep : ascii) s a x : P sep = false -> all_chars P s = true -> s <> a ++ String sep x.
Proof.
  intros Hsep Hs E. subst s. rewrite all_chars_app in Hs. cbn in Hs. rewrite Hsep in Hs. rewrite andb_false_r in Hs. cbn in Hs.
  destruct (all_chars P a); discriminate.
Qed.

Lemma first_char_class (P Q : ascii -> bool) s s' : (forall c, P c = true -> Q c = true -> False) ->
  all_chars P s = true -> all_chars Q s' = true -> s <> "" -> s = s' -> False.
Proof.
  intros H Hs Hs' Hne E. subst s'. destruct s as [|c s]; [congruence|]. cbn in Hs, Hs'.
  apply andb_true_iff in Hs, Hs'. apply (H c); tauto.
Qed.

Lemma append_inv_head (a x y : string) : a ++ x = a ++ y -> x = y.
Proof. induction a as [|c a IH]; cbn; [auto|]. intros H. injection H as H. auto. Qed.

Lemma string_length_app (a b : string) : String.length (a ++ b) = (String.length a + String.length b)%nat.
Proof. induction a as [|c a IH]; cbn; [reflexivity|now rewrite IH]. Qed.

Lemma append_inv_tail (x y r : string) : x ++ r = y ++ r -> x = y.
Proof.
  revert y. induction x as [|c x IH]; intros [|c' y] H; cbn in H.
  - reflexivity.
  - exfalso. assert (E : String.length r = String.length (String c' (y ++ r))) by (rewrite <- H; reflexivity).
    cbn in E. rewrite string_length_app in E. lia.
  - exfalso. assert (E : String.length (String c (x ++ r)) = String.length r) by (rewrite H; reflexivity).
    cbn in E. rewrite string_length_app in E. lia.
  - injection H as -> H. f_equal. now apply IH.
Qed.

Definition P_us (c : ascii) : bool := negb (is_us c).
Definition P_gt (c : ascii) : bool := negb (is_gt c).

Lemma zstr_no_us z : 0 <= z -> all_chars P_us (zstr z) = true.
Proof. intros H. apply (all_chars_weaken is_digit); [apply digit_no_us|apply (zstr_digits z H)]. Qed.
Lemma dna_no_us d : all_chars P_us (string_of_dna d) = true.
Proof. apply (all_chars_weaken is_base); [apply base_no_us|apply dna_bases]. Qed.
Lemma dna_no_gt d : all_chars P_gt (string_of_dna d) = true.
Proof. apply (all_chars_weaken is_base); [apply base_no_gt|apply dna_bases]. Qed.

Definition sub_tok (r a : dna) : string := string_of_dna r ++ ">" ++ string_of_dna a.
Lemma sub_no_us r a : all_chars P_us (sub_tok r a) = true.
Proof. unfold sub_tok. rewrite !all_chars_app, !dna_no_us. reflexivity. Qed.

Lemma sub_tok_inj r a r' a' : sub_tok r a = sub_tok r' a' -> r = r' /\ a = a'.
Proof.
  unfold sub_tok. intros H. cbn [append] in H.
  destruct (first_sep P_gt ">" _ _ _ _ eq_refl (dna_no_gt r) (dna_no_gt r') H) as [E1 E2].
  split; now apply string_of_dna_inj.
Qed.

Lemma digits_vs_dna z d : 0 <= z -> zstr z = string_of_dna d -> False.
Proof.
  intros Hz E. destruct (zstr_digits z Hz) as [Hd Hne].
  apply (first_char_class is_digit is_base (zstr z) (string_of_dna d) digit_not_base Hd (dna_bases d) Hne E).
Qed.
Lemma digits_vs_sub z r a : 0 <= z -> r <> [] -> zstr z = sub_tok r a -> False.
Proof.
  intros Hz Hr E. destruct (zstr_digits z Hz) as [Hd Hne]. destruct r as [|x r]; [congruence|].
  destruct (zstr z) as [|c s] eqn:Es; [congruence|]. unfold sub_tok in E. cbn in E. injection E as -> _.
  cbn in Hd. apply andb_true_iff in Hd. destruct Hd as [Hd _]. destruct x; cbn in Hd; discriminate.
Qed.
Lemma dna_vs_sub d r a : string_of_dna d = sub_tok r a -> False.
Proof. unfold sub_tok. intros E. cbn [append] in E. exact (no_sep_inside P_gt ">" _ _ _ eq_refl (dna_no_gt d) E). Qed.

(* what follows the position in a name: nothing, the end position, the alleles *)
Inductive tail := TD1 | TD2 (e : Z) | TS1 (r a : dna) | TS2 (e : Z) (r a : dna) | TI (a : dna).
Definition tail_str (t : tail) (src : string) : string :=
  match t with
  | TD1 => src
  | TD2 e => zstr e ++ "_" ++ src
  | TS1 r a => sub_tok r a ++ "_" ++ src
  | TS2 e r a => zstr e ++ "_" ++ sub_tok r a ++ "_" ++ src
  | TI a => string_of_dna a ++ "_" ++ src
  end.
Definition tail_wf (t : tail) : Prop :=
  match t with
  | TD1 => True | TD2 e => 0 <= e | TS1 r a => r <> [] /\ a <> [] | TS2 e r a => 0 <= e /\ r <> [] /\ a <> [] | TI a => a <> []
  end.

Lemma us_inside a x : all_chars P_us (a ++ String "_" x) = false.
Proof. rewrite all_chars_app. cbn. now rewrite andb_false_r. Qed.

Ltac peel H :=
  match type of H with
  | (?a ++ String "_" ?x)%string = (?a' ++ String "_" ?x')%string =>
      let E1 := fresh "E" in let E2 := fresh "E" in
      destruct (first_sep P_us "_" a a' x x' eq_refl ltac:(auto using zstr_no_us, dna_no_us, sub_no_us) ltac:(auto using zstr_no_us, dna_no_us, sub_no_us) H) as [E1 E2];
      clear H
  end.

Lemma tail_inj t1 t2 s1 s2 : tail_wf t1 -> tail_wf t2 -> no_us s1 = true -> no_us s2 = true ->
  tail_str t1 s1 = tail_str t2 s2 -> t1 = t2 /\ s1 = s2.
Proof.
  intros W1 W2 N1 N2 H. unfold no_us in N1, N2. fold P_us in N1, N2.
  destruct t1, t2; cbn [tail_str tail_wf] in *; cbn [append] in H.
  all: try (exfalso; apply (no_sep_inside P_us "_" _ _ _ eq_refl N1 H)).
  all: try (exfalso; symmetry in H; apply (no_sep_inside P_us "_" _ _ _ eq_refl N2 H)).
  all: try solve [split; auto].
  all: repeat match goal with W : _ /\ _ |- _ => destruct W end.
  all: peel H.
  all: repeat match goal with
       | E : zstr _ = zstr _ |- _ => apply zstr_inj in E; subst
       | E : sub_tok _ _ = sub_tok _ _ |- _ => apply sub_tok_inj in E; destruct E; subst
       | E : string_of_dna _ = string_of_dna _ |- _ => apply string_of_dna_inj in E; subst
       | E : (_ ++ String "_" _)%string = (_ ++ String "_" _)%string |- _ => cbn [append] in E; peel E
       end.
  all: try solve [split; congruence].
  all: exfalso.
  all: try match goal with E : zstr ?e = sub_tok ?r ?a |- _ => apply (digits_vs_sub e r a); assumption end.
  all: try match goal with E : sub_tok ?r ?a = zstr ?e |- _ => symmetry in E; apply (digits_vs_sub e r a); assumption end.
  all: try match goal with E : zstr ?e = string_of_dna ?a |- _ => apply (digits_vs_dna e a); assumption end.
  all: try match goal with E : string_of_dna ?a = zstr ?e |- _ => symmetry in E; apply (digits_vs_dna e a); assumption end.
  all: try match goal with E : string_of_dna ?d = sub_tok ?r ?a |- _ => apply (dna_vs_sub d r a E) end.
  all: try match goal with E : sub_tok ?r ?a = string_of_dna ?d |- _ => symmetry in E; apply (dna_vs_sub d r a E) end.
  all: try match goal with E : ?s = (_ ++ String "_" _)%string, N : all_chars P_us ?s = true |- _ => apply (no_sep_inside P_us "_" _ _ _ eq_refl N E) end.
  all: try match goal with E : (_ ++ String "_" _)%string = ?s, N : all_chars P_us ?s = true |- _ => symmetry in E; apply (no_sep_inside P_us "_" _ _ _ eq_refl N E) end.
  all: try match goal with N : all_chars P_us (_ ++ String "_" _) = true |- _ => rewrite us_inside in N; discriminate N end.
Qed.

Lemma TD2_inj e e' : TD2 e = TD2 e' -> e = e'.
Proof. congruence. Qed.
Lemma TS1_inj r a r' a' : TS1 r a = TS1 r' a' -> r = r' /\ a = a'.
Proof. intros H. injection H. auto. Qed.
Lemma TS2_inj e r a e' r' a' : TS2 e r a = TS2 e' r' a' -> e = e' /\ r = r' /\ a = a'.
Proof. intros H. injection H. auto. Qed.
Lemma TI_inj a a' : TI a = TI a' -> a = a'.
Proof. congruence. Qed.

Definition tail_of (v : variant) : tail :=
  match v_ref v, v_alt v with
  | [], a => TI a
  | r, [] => if (zlen r <=? 1)%Z then TD1 else TD2 (v_pos v + zlen r - 1)
  | r, a => if (zlen r <=? 1)%Z then TS1 r a else TS2 (v_pos v + zlen r - 1) r a
  end.

Lemma append_assoc_s (a b c : string) : (a ++ b) ++ c = a ++ (b ++ c).
Proof. induction a as [|x a IH]; cbn; [reflexivity|now rewrite IH]. Qed.

Lemma frag_tail v f src : var_frag v = Ok f -> 0 <= v_pos v ->
  f ++ "_" ++ src = zstr (v_pos v) ++ "_" ++ tail_str (tail_of v) src /\ tail_wf (tail_of v).
Proof.
  unfold var_frag, tail_of, pos_frag, v_ref_s, v_alt_s. intros H Hp.
  destruct (v_ref v) as [|x r] eqn:Er; destruct (v_alt v) as [|y a] eqn:Ea; try discriminate; injection H as <-.
  - cbn [tail_str tail_wf]. rewrite ?zlen_nil. cbn [Z.leb Z.compare]. repeat rewrite append_assoc_s. split; [reflexivity|discriminate].
  - pose proof (zlen_nonneg r). rewrite zlen_cons. destruct (1 + zlen r <=? 1)%Z eqn:E; cbn [tail_str tail_wf]; repeat rewrite append_assoc_s; split; auto; lia.
  - pose proof (zlen_nonneg r). rewrite zlen_cons. destruct (1 + zlen r <=? 1)%Z eqn:E; unfold tail_str, tail_wf, sub_tok; repeat rewrite append_assoc_s;
      (split; [cbn [append string_of_dna]; repeat rewrite append_assoc_s; reflexivity|]); repeat split; try discriminate; lia.
Qed.

(* two rows of one targeton (same transcript, contig and orientation suffix) whose names coincide have the same source and the same mutation:
   position, REF length, ALT, and REF itself whenever the name spells it (substitutions) *)
Theorem sge_names_injective gene_id transcript_id contig is_rc src1 src2 v1 v2 n :
  k_sge_oligo_name gene_id transcript_id contig is_rc src1 v1 = Ok n ->
  k_sge_oligo_name gene_id transcript_id contig is_rc src2 v2 = Ok n ->
  0 <= v_pos v1 -> 0 <= v_pos v2 -> no_us src1 = true -> no_us src2 = true ->
  src1 = src2 /\ v_pos v1 = v_pos v2 /\ zlen (v_ref v1) = zlen (v_ref v2) /\ v_alt v1 = v_alt v2 /\
  (v_alt v1 <> [] -> v_ref v1 = v_ref v2).
Proof.
  rewrite !k_sge_oligo_name_spec. intros H1 H2 P1 P2 N1 N2.
  destruct (var_frag v1) as [f1|] eqn:F1; [|discriminate]. destruct (var_frag v2) as [f2|] eqn:F2; [|discriminate].
  cbn [bind] in H1, H2. injection H1 as <-. injection H2 as H2.
  apply append_inv_head in H2. cbn [append] in H2. injection H2 as H2. apply append_inv_head in H2. cbn [append] in H2. injection H2 as H2.
  assert (Q1 : f1 ++ String "_" (src1 ++ rc_suffix is_rc) = (f1 ++ "_" ++ src1) ++ rc_suffix is_rc) by (repeat rewrite append_assoc_s; reflexivity).
  assert (Q2 : f2 ++ String "_" (src2 ++ rc_suffix is_rc) = (f2 ++ "_" ++ src2) ++ rc_suffix is_rc) by (repeat rewrite append_assoc_s; reflexivity).
  rewrite Q1, Q2 in H2. apply append_inv_tail in H2. symmetry in H2.
  destruct (frag_tail v1 f1 src1 F1 P1) as [T1 W1]. destruct (frag_tail v2 f2 src2 F2 P2) as [T2 W2].
  rewrite T1, T2 in H2. cbn [append] in H2.
  destruct (first_sep P_us "_" _ _ _ _ eq_refl (zstr_no_us _ P1) (zstr_no_us _ P2) H2) as [Ep Et].
  apply zstr_inj in Ep. destruct (tail_inj _ _ _ _ W1 W2 N1 N2 Et) as [Etl Es].
  split; [assumption|]. split; [assumption|].
  unfold tail_of in Etl.
  destruct (v_ref v1) as [|x1 r1] eqn:R1; destruct (v_alt v1) as [|y1 a1] eqn:A1;
    destruct (v_ref v2) as [|x2 r2] eqn:R2; destruct (v_alt v2) as [|y2 a2] eqn:A2; try discriminate Etl.
  all: try (unfold var_frag in F1; rewrite R1, A1 in F1; discriminate F1).
  all: try (unfold var_frag in F2; rewrite R2, A2 in F2; discriminate F2).
  all: rewrite ?zlen_cons, ?zlen_nil in *.
  all: repeat match type of Etl with context [if ?b then _ else _] => destruct b eqn:? end; try discriminate Etl.
  all: try (apply TD2_inj in Etl).
  all: try (apply TS1_inj in Etl; destruct Etl as [Etl1 Etl2]).
  all: try (apply TS2_inj in Etl; destruct Etl as (Etl0 & Etl1 & Etl2)).
  all: try (apply TI_inj in Etl).
  all: try pose proof (zlen_nonneg r1); try pose proof (zlen_nonneg r2).
  all: repeat split; try congruence; try lia.
Qed.

Theorem cdna_names_injective gene_id transcript_id seq_id src1 src2 v1 v2 n :
  k_cdna_oligo_name gene_id transcript_id seq_id src1 v1 = Ok n ->
  k_cdna_oligo_name gene_id transcript_id seq_id src2 v2 = Ok n ->
  0 <= v_pos v1 -> 0 <= v_pos v2 -> no_us src1 = true -> no_us src2 = true ->
  src1 = src2 /\ v_pos v1 = v_pos v2 /\ zlen (v_ref v1) = zlen (v_ref v2) /\ v_alt v1 = v_alt v2 /\
  (v_alt v1 <> [] -> v_ref v1 = v_ref v2).
Proof.
  rewrite !k_cdna_oligo_name_spec. intros H1 H2 P1 P2 N1 N2.
  destruct (var_frag v1) as [f1|] eqn:F1; [|discriminate]. destruct (var_frag v2) as [f2|] eqn:F2; [|discriminate].
  cbn [bind] in H1, H2. injection H1 as <-. injection H2 as H2.
  apply append_inv_head in H2. cbn [append] in H2. injection H2 as H2. apply append_inv_head in H2. cbn [append] in H2. injection H2 as H2.
  symmetry in H2.
  destruct (frag_tail v1 f1 src1 F1 P1) as [T1 W1]. destruct (frag_tail v2 f2 src2 F2 P2) as [T2 W2].
  change (f1 ++ String "_" src1) with (f1 ++ "_" ++ src1) in H2. change (f2 ++ String "_" src2) with (f2 ++ "_" ++ src2) in H2.
  rewrite T1, T2 in H2. cbn [append] in H2.
  destruct (first_sep P_us "_" _ _ _ _ eq_refl (zstr_no_us _ P1) (zstr_no_us _ P2) H2) as [Ep Et].
  apply zstr_inj in Ep. destruct (tail_inj _ _ _ _ W1 W2 N1 N2 Et) as [Etl Es].
  split; [assumption|]. split; [assumption|].
  unfold tail_of in Etl.
  destruct (v_ref v1) as [|x1 r1] eqn:R1; destruct (v_alt v1) as [|y1 a1] eqn:A1;
    destruct (v_ref v2) as [|x2 r2] eqn:R2; destruct (v_alt v2) as [|y2 a2] eqn:A2; try discriminate Etl.
  all: try (unfold var_frag in F1; rewrite R1, A1 in F1; discriminate F1).
  all: try (unfold var_frag in F2; rewrite R2, A2 in F2; discriminate F2).
  all: rewrite ?zlen_cons, ?zlen_nil in *.
  all: repeat match type of Etl with context [if ?b then _ else _] => destruct b eqn:? end; try discriminate Etl.
  all: try (apply TD2_inj in Etl).
  all: try (apply TS1_inj in Etl; destruct Etl as [Etl1 Etl2]).
  all: try (apply TS2_inj in Etl; destruct Etl as (Etl0 & Etl1 & Etl2)).
  all: try (apply TI_inj in Etl).
  all: try pose proof (zlen_nonneg r1); try pose proof (zlen_nonneg r2).
  all: repeat split; try congruence; try lia.
Qed.

(* non-vacuity: the names of the README style *)
Example names_example :
  k_sge_oligo_name (Some "G1") (Some "T1") "chr1" true "2del0" (mkVar 120 (d "AC") []) = Ok "T1.G1_chr1:120_121_2del0_rc" /\
  k_sge_oligo_name None (Some "T1") "chr1" false "al0" (mkVar 31 [] (d "GG")) = Ok "NO_TRANSCRIPT_chr1:31_GG_al0" /\
  k_cdna_oligo_name (Some "G1") (Some "T1") "cdna0" "aa" (mkVar 7 (d "AAA") (d "AAC")) = Ok "cdna0_T1.G1_7_9_AAA>AAC_aa" /\
  no_us "2del0" = true.
Proof. vm_compute. auto. Qed.
