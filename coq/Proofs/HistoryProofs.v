(* C13: proc_targeton clears what it writes and reads nothing else that a previous targeton wrote. *)
From VV Require Import Model.Base Model.History Proofs.BaseLemmas.

Section HistoryProofs.
  Context {R T F : Type}.
  Variable body : @db R -> T -> @db R * option F.
  Variables per_targeton written reads : list string.

  (* frame of the body: it writes only `written`, and what it returns depends only on `reads` *)
  Hypothesis body_writes : forall d t, agree_off written (fst (body d t)) d.
  Hypothesis body_reads : forall d1 d2 t, agree_on reads d1 d2 -> snd (body d1 t) = snd (body d2 t).
  (* every written table is one of the tables cleared at the start of proc_targeton *)
  Hypothesis written_cleared : forall n, In n written -> In n per_targeton.

  Lemma mem_str_In n l : mem_str n l = true <-> In n l.
  Proof.
    unfold mem_str. rewrite existsb_exists. split.
    - intros (x & Hx & E). apply String.eqb_eq in E. now subst.
    - intros H. exists n. split; [assumption|apply String.eqb_refl].
  Qed.

  Lemma get_clear_in (d : @db R) tables n : In n tables -> get (clear tables d) n = [].
  Proof.
    intros Hin. induction d as [|[m rows] d IH]; cbn [clear map get fst]; [reflexivity|].
    destruct (mem_str m tables) eqn:E; cbn [get fst].
    - destruct (String.eqb m n); [reflexivity|exact IH].
    - destruct (String.eqb m n) eqn:En; [|exact IH]. apply String.eqb_eq in En. subst.
      apply mem_str_In in Hin. congruence.
  Qed.

  Lemma get_clear_out (d : @db R) tables n : ~ In n tables -> get (clear tables d) n = get d n.
  Proof.
    intros Hout. induction d as [|[m rows] d IH]; cbn [clear map get fst]; [reflexivity|].
    destruct (mem_str m tables) eqn:E; cbn [get fst].
    - destruct (String.eqb m n) eqn:En; [|exact IH]. apply String.eqb_eq in En. subst.
      apply mem_str_In in E. contradiction.
    - destruct (String.eqb m n); [reflexivity|exact IH].
  Qed.

  (* after the clear, two databases that agree outside the per-targeton tables agree everywhere *)
  Lemma clear_agree (d1 d2 : @db R) : agree_off per_targeton d1 d2 -> forall n, get (clear per_targeton d1) n = get (clear per_targeton d2) n.
  Proof.
    intros H n. destruct (in_dec string_dec n per_targeton) as [Hin|Hout].
    - now rewrite !get_clear_in.
    - rewrite !get_clear_out by assumption. now apply H.
  Qed.

  (* processing a targeton leaves every table outside the per-targeton set as it was *)
  Lemma proc_targeton_frame d t : agree_off per_targeton (fst (proc_targeton body per_targeton d t)) d.
  Proof.
    intros n Hn. unfold proc_targeton. rewrite (body_writes _ t n).
    - now apply get_clear_out.
    - intros Hw. apply Hn. now apply written_cleared.
  Qed.

  (* ... and what it writes for the targeton depends only on those tables *)
  Lemma proc_targeton_output d1 d2 t :
    agree_off per_targeton d1 d2 -> snd (proc_targeton body per_targeton d1 t) = snd (proc_targeton body per_targeton d2 t).
  Proof. intros H. unfold proc_targeton. apply body_reads. intros n _. now apply clear_agree. Qed.

  Lemma agree_off_trans (a b c : @db R) : agree_off per_targeton a b -> agree_off per_targeton b c -> agree_off per_targeton a c.
  Proof. intros H1 H2 n Hn. rewrite H1, H2; auto. Qed.

  (* the database after a prefix of the run *)
  Definition final (d : @db R) (pre : list T) : @db R := fold_left (fun d t => fst (proc_targeton body per_targeton d t)) pre d.
  (* no targeton of the prefix was refused *)
  Fixpoint completes (d : @db R) (pre : list T) : Prop :=
    match pre with
    | [] => True
    | p :: pre' => snd (proc_targeton body per_targeton d p) <> None /\ completes (fst (proc_targeton body per_targeton d p)) pre'
    end.

  Lemma final_frame pre : forall d, agree_off per_targeton (final d pre) d.
  Proof.
    induction pre as [|p pre IH]; intros d; cbn [final fold_left]; [intros n _; reflexivity|].
    eapply agree_off_trans; [apply IH|apply proc_targeton_frame].
  Qed.

  Lemma run_app pre : forall d rest, completes d pre ->
    run body per_targeton d (pre ++ rest) = run body per_targeton d pre ++ run body per_targeton (final d pre) rest.
  Proof.
    induction pre as [|p pre IH]; intros d rest Hc; cbn [app run final fold_left]; [reflexivity|].
    destruct Hc as [Hp Hc]. destruct (proc_targeton body per_targeton d p) as [d1 [x|]] eqn:Ep; cbn [fst snd] in *; [|congruence].
    cbn [app]. f_equal. now apply IH.
  Qed.

  Lemma run_length pre : forall d, completes d pre -> length (run body per_targeton d pre) = length pre.
  Proof.
    induction pre as [|p pre IH]; intros d Hc; cbn [run length]; [reflexivity|].
    destruct Hc as [Hp Hc]. destruct (proc_targeton body per_targeton d p) as [d1 [x|]] eqn:Ep; cbn [fst snd] in *; [|congruence].
    cbn [length]. f_equal. now apply IH.
  Qed.

  (* a targeton's files are the same whether it is processed alone or after any other targetons, in any order *)
  Theorem history_independent d pre t post :
    completes d pre ->
    nth_error (run body per_targeton d (pre ++ t :: post)) (length pre) = nth_error (run body per_targeton d [t]) 0.
  Proof.
    intros Hc. rewrite (run_app pre d (t :: post) Hc).
    rewrite nth_error_app2 by (rewrite run_length by assumption; apply Nat.le_refl).
    rewrite run_length by assumption. rewrite Nat.sub_diag. cbn [run].
    pose proof (proc_targeton_output (final d pre) d t (final_frame pre d)) as Ho.
    destruct (proc_targeton body per_targeton (final d pre) t) as [d1 f1].
    destruct (proc_targeton body per_targeton d t) as [d2 f2]. cbn [snd] in Ho. subst f2. reflexivity.
  Qed.
End HistoryProofs.
