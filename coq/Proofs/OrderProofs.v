(* C12: outputs are ordered by total keys: sorting is independent of arrival order. *)
From VV Require Import Model.Base Model.Views Model.Order Proofs.BaseLemmas Proofs.UniqueProofs.
From Coq Require Import Permutation Sorting.Sorted.

(* ---- byte order on strings is antisymmetric ---- *)
Lemma N_of_ascii_inj a b : N_of_ascii a = N_of_ascii b -> a = b.
Proof. intros H. rewrite <- (ascii_N_embedding a), <- (ascii_N_embedding b). now rewrite H. Qed.

Lemma sleb_antisym a : forall b, sleb a b = true -> sleb b a = true -> a = b.
Proof.
  induction a as [|x a IH]; intros [|y b] H1 H2; cbn [sleb] in *; try discriminate; [reflexivity|].
  destruct (N.ltb_spec (N_of_ascii x) (N_of_ascii y)) as [E1|E1];
  destruct (N.ltb_spec (N_of_ascii y) (N_of_ascii x)) as [E2|E2]; try discriminate; try lia.
  assert (H : N_of_ascii x = N_of_ascii y) by lia.
  apply N_of_ascii_inj in H. subst. f_equal. now apply IH.
Qed.

(* ---- a sorted list is determined by its elements when the order is antisymmetric on them ---- *)
Section SortUnique.
  Context {X : Type} (leb : X -> X -> bool).
  Hypothesis leb_total : forall a b, leb a b = true \/ leb b a = true.
  Hypothesis leb_trans : forall a b c, leb a b = true -> leb b c = true -> leb a c = true.
  Let le a b := leb a b = true.

  Lemma insert_sorted_perm x l : Permutation (insert_sorted leb x l) (x :: l).
  Proof.
    induction l as [|y l IH]; cbn [insert_sorted]; [reflexivity|].
    destruct (leb x y); [reflexivity|]. rewrite IH. apply perm_swap.
  Qed.
  Lemma isort_perm l : Permutation (isort leb l) l.
  Proof. induction l as [|x l IH]; cbn [isort fold_right]; [reflexivity|]. fold (isort leb l). rewrite insert_sorted_perm. now constructor. Qed.

  Lemma insert_sorted_sorted x l : StronglySorted le l -> StronglySorted le (insert_sorted leb x l).
  Proof.
    induction 1 as [|y l Hs IH Hf]; cbn [insert_sorted]; [repeat constructor|].
    destruct (leb x y) eqn:E.
    - constructor; [now constructor|]. constructor; [exact E|].
      eapply Forall_impl; [|exact Hf]. intros z Hz. eapply leb_trans; eauto.
    - constructor; [assumption|]. apply (Permutation_Forall (Permutation_sym (insert_sorted_perm x l))).
      constructor; [|assumption]. destruct (leb_total x y) as [H|H]; [congruence|exact H].
  Qed.
  Lemma isort_sorted l : StronglySorted le (isort leb l).
  Proof. induction l as [|x l IH]; cbn [isort fold_right]; [constructor|]. now apply insert_sorted_sorted. Qed.

  Lemma sorted_perm_eq (l : list X) : forall l',
    StronglySorted le l -> StronglySorted le l' -> Permutation l l' ->
    (forall a b, In a l -> In b l -> le a b -> le b a -> a = b) -> l = l'.
  Proof.
    induction l as [|x l IH]; intros l' Hs Hs' Hp Hanti.
    - apply Permutation_nil in Hp. now subst.
    - destruct l' as [|y l']; [apply Permutation_sym, Permutation_nil in Hp; discriminate|].
      inversion Hs as [|? ? Hsl Hfx]; subst. inversion Hs' as [|? ? Hsl' Hfy]; subst.
      assert (x = y) as <-.
      { assert (Hy : In y (x :: l)) by (apply (Permutation_in _ (Permutation_sym Hp)); now left).
        assert (Hx : In x (y :: l')) by (apply (Permutation_in _ Hp); now left).
        destruct Hy as [->|Hy]; [reflexivity|]. destruct Hx as [->|Hx]; [reflexivity|].
        rewrite Forall_forall in Hfx, Hfy. apply Hanti; [now left|now right|now apply Hfx|now apply Hfy]. }
      f_equal. apply IH; auto.
      + eapply Permutation_cons_inv; eauto.
      + intros a b Ha Hb. apply Hanti; now right.
  Qed.

  (* the sorted output does not depend on the order in which the rows arrive *)
  Theorem isort_deterministic l l' :
    Permutation l l' ->
    (forall a b, In a l -> In b l -> le a b -> le b a -> a = b) ->
    isort leb l = isort leb l'.
  Proof.
    intros Hp Hanti. apply sorted_perm_eq; try apply isort_sorted.
    - rewrite (isort_perm l), (isort_perm l'). exact Hp.
    - intros a b Ha Hb. apply Hanti; apply (Permutation_in _ (isort_perm l)); assumption.
  Qed.
End SortUnique.

(* ---- the SQLite value order ---- *)
Lemma sval_eqb_eq a b : sval_eqb a b = true <-> a = b.
Proof.
  destruct a, b; cbn; try (split; [discriminate|congruence]); try tauto.
  - rewrite Z.eqb_eq. split; congruence.
  - rewrite String.eqb_eq. split; congruence.
Qed.
Lemma sval_eqb_refl a : sval_eqb a a = true.
Proof. now apply sval_eqb_eq. Qed.
Lemma sval_eqb_sym a b : sval_eqb a b = sval_eqb b a.
Proof. destruct (sval_eqb a b) eqn:E.
  - apply sval_eqb_eq in E. subst. now rewrite sval_eqb_refl.
  - destruct (sval_eqb b a) eqn:E'; [|reflexivity]. apply sval_eqb_eq in E'. subst. now rewrite sval_eqb_refl in E. Qed.
Lemma sval_leb_total a b : sval_leb a b = true \/ sval_leb b a = true.
Proof. destruct a, b; cbn; auto; [lia|apply sleb_total]. Qed.
Lemma sval_leb_trans a b c : sval_leb a b = true -> sval_leb b c = true -> sval_leb a c = true.
Proof. destruct a, b, c; cbn; auto; try discriminate; [lia|apply sleb_trans]. Qed.
Lemma sval_leb_antisym a b : sval_leb a b = true -> sval_leb b a = true -> a = b.
Proof.
  destruct a, b; cbn; auto; try discriminate.
  - intros; f_equal; lia.
  - intros H1 H2. f_equal. now apply sleb_antisym.
Qed.
Lemma sval_leb_refl a : sval_leb a a = true.
Proof. destruct a; cbn; auto; [lia|apply sleb_refl]. Qed.

Lemma key_leb_total a : forall b, key_leb a b = true \/ key_leb b a = true.
Proof.
  induction a as [|x a IH]; intros [|y b]; cbn; auto.
  rewrite (sval_eqb_sym y x). destruct (sval_eqb x y); [apply IH|apply sval_leb_total].
Qed.

Lemma key_leb_antisym a : forall b, length a = length b -> key_leb a b = true -> key_leb b a = true -> a = b.
Proof.
  induction a as [|x a IH]; intros [|y b] Hl H1 H2; cbn in *; try discriminate; [reflexivity|].
  rewrite (sval_eqb_sym y x) in H2. destruct (sval_eqb x y) eqn:E.
  - apply sval_eqb_eq in E. subst. f_equal. apply IH; auto.
  - pose proof (sval_leb_antisym _ _ H1 H2). subst. now rewrite sval_eqb_refl in E.
Qed.

Lemma key_leb_trans a : forall b c, key_leb a b = true -> key_leb b c = true -> key_leb a c = true.
Proof.
  induction a as [|x a IH]; intros [|y b] [|z c] H1 H2; cbn in *; try discriminate; auto.
  destruct (sval_eqb x y) eqn:Exy.
  - apply sval_eqb_eq in Exy. subst y. destruct (sval_eqb x z) eqn:Exz; [eapply IH; eauto|exact H2].
  - destruct (sval_eqb y z) eqn:Eyz.
    + apply sval_eqb_eq in Eyz. subst z. rewrite Exy. exact H1.
    + destruct (sval_eqb x z) eqn:Exz.
      * apply sval_eqb_eq in Exz. subst z. pose proof (sval_leb_antisym _ _ H1 H2). subst.
        now rewrite sval_eqb_refl in Exy.
      * eapply sval_leb_trans; eauto.
Qed.

(* ---- the final ORDER BY makes the metadata rows independent of the order in which the view yields them ---- *)
Lemma subset_str_In a b : subset_str a b = true -> forall x, In x a -> In x b.
Proof.
  unfold subset_str. rewrite forallb_forall. intros H x Hx. apply H in Hx. apply existsb_exists in Hx.
  destruct Hx as (y & Hy & E). apply String.eqb_eq in E. now subst.
Qed.

Lemma key_of_subset key key' r r' :
  (forall c, In c key' -> In c key) -> key_of key r = key_of key r' -> key_of key' r = key_of key' r'.
Proof.
  intros Hsub H. unfold key_of in *. apply map_ext_in. intros c Hc. apply Hsub in Hc.
  revert H. clear -Hc. induction key as [|k key IH]; [destruct Hc|]. cbn [map]. intros H. inversion H as [[H1 H2]].
  destruct Hc as [->|Hc]; auto.
Qed.

Theorem meta_order_total key (payload : list sval -> row) rows rows' :
  subset_str identity_columns key = true ->
  (forall r, In r rows -> r = payload (key_of identity_columns r)) ->
  Permutation rows rows' ->
  select_meta key rows = select_meta key rows'.
Proof.
  intros Hsub Hfd Hp. unfold select_meta. apply isort_deterministic; auto.
  - intros a b. apply key_leb_total.
  - intros a b c. apply key_leb_trans.
  - intros a b Ha Hb H1 H2.
    assert (Hk : key_of key a = key_of key b) by (apply key_leb_antisym; auto; unfold key_of; now rewrite !map_length).
    apply (key_of_subset key identity_columns) in Hk; [|apply subset_str_In; exact Hsub].
    rewrite (Hfd _ Ha), (Hfd _ Hb), Hk. reflexivity.
Qed.

(* ---- sorted(set(items)): order, repetition of items do not matter ---- *)
Lemma insert_str_In x l y : In y (insert_str x l) <-> y = x \/ In y l.
Proof.
  induction l as [|z l IH]; cbn [insert_str In]; [intuition|].
  destruct (String.eqb x z) eqn:E; [apply String.eqb_eq in E; subst; cbn [In]; intuition|].
  destruct (sleb x z); cbn [In]; [intuition|]. rewrite IH. intuition.
Qed.
Lemma sort_dedup_In l y : In y (sort_dedup l) <-> In y l.
Proof. induction l as [|x l IH]; cbn [sort_dedup fold_right In]; [reflexivity|]. fold (sort_dedup l). rewrite insert_str_In, IH. intuition. Qed.

Definition slt (a b : string) : Prop := sleb a b = true /\ a <> b.
Lemma insert_str_sorted x l : StronglySorted slt l -> StronglySorted slt (insert_str x l).
Proof.
  induction 1 as [|z l Hs IH Hf]; cbn [insert_str]; [repeat constructor|].
  destruct (String.eqb x z) eqn:E; [now constructor|]. apply String.eqb_neq in E.
  destruct (sleb x z) eqn:El.
  - constructor; [now constructor|]. constructor; [split; assumption|].
    eapply Forall_impl; [|exact Hf]. intros w [Hw1 Hw2]. split; [eapply sleb_trans; eauto|].
    intros ->. apply E. now apply sleb_antisym.
  - constructor; [assumption|]. apply Forall_forall. intros w Hw. apply insert_str_In in Hw.
    destruct Hw as [->|Hw]; [|rewrite Forall_forall in Hf; now apply Hf].
    split; [destruct (sleb_total x z) as [H|H]; [congruence|exact H]|congruence].
Qed.
Lemma sort_dedup_sorted l : StronglySorted slt (sort_dedup l).
Proof. induction l as [|x l IH]; cbn [sort_dedup fold_right]; [constructor|]. now apply insert_str_sorted. Qed.

Lemma strict_sorted_same_elements (l : list string) : forall l',
  StronglySorted slt l -> StronglySorted slt l' -> (forall x, In x l <-> In x l') -> l = l'.
Proof.
  induction l as [|x l IH]; intros [|y l'] Hs Hs' Hin.
  - reflexivity.
  - exfalso. apply (Hin y). now left.
  - exfalso. apply (Hin x). now left.
  - inversion Hs as [|? ? Hsl Hfx]; subst. inversion Hs' as [|? ? Hsl' Hfy]; subst.
    rewrite Forall_forall in Hfx, Hfy.
    assert (x = y) as <-.
    { destruct (proj1 (Hin x) (or_introl eq_refl)) as [->|Hx]; [reflexivity|].
      destruct (proj2 (Hin y) (or_introl eq_refl)) as [->|Hy]; [reflexivity|].
      destruct (Hfx _ Hy) as [H1 _]. destruct (Hfy _ Hx) as [H2 _]. now apply sleb_antisym. }
    f_equal. apply IH; auto. intros z. split; intros Hz.
    + destruct (proj1 (Hin z) (or_intror Hz)) as [<-|H]; [|exact H]. destruct (Hfx _ Hz) as [_ Hne]. congruence.
    + destruct (proj2 (Hin z) (or_intror Hz)) as [<-|H]; [|exact H]. destruct (Hfy _ Hz) as [_ Hne]. congruence.
Qed.

Theorem sort_dedup_canonical l l' : (forall x, In x l <-> In x l') -> sort_dedup l = sort_dedup l'.
Proof.
  intros H. apply strict_sorted_same_elements; try apply sort_dedup_sorted.
  intros x. rewrite !sort_dedup_In. apply H.
Qed.

(* ---- soft-masking ---- *)
Lemma up_low c : up (low c) = up c.
Proof. destruct c as [[] [] [] [] [] [] [] []]; reflexivity. Qed.

Theorem upper_soft_mask m : forall s, upper (soft_mask m s) = upper s.
Proof.
  induction m as [|b m IH]; intros [|c s]; cbn [soft_mask upper]; try reflexivity.
  destruct b; cbn [upper]; rewrite IH; [now rewrite up_low|reflexivity].
Qed.

(* ---- names.sort(); names[0] does not depend on the order in which the names were collected ---- *)
Theorem min_name_perm x l y l' : Permutation (x :: l) (y :: l') -> Unique.min_name x l = Unique.min_name y l'.
Proof.
  intros Hp. destruct (min_name_spec l x) as [Hin Hmin]. destruct (min_name_spec l' y) as [Hin' Hmin'].
  apply sleb_antisym.
  - apply Hmin. apply (Permutation_in _ (Permutation_sym Hp)). exact Hin'.
  - apply Hmin'. apply (Permutation_in _ Hp). exact Hin.
Qed.
