From VV Require Import Model.Base Model.Pattern Model.Gpo Spec.LiftSpec Proofs.BaseLemmas Proofs.LiftSpecProofs Proofs.GpoRefine Proofs.GpoTop Model.PpeSeq.
From Coq Require Import Lia ZifyBool.

Theorem check_liftable_iff g r vs ppes : 0 < rs r -> wf (rs r) (re r) vs -> gpo_for g r vs ->
  check_liftable g ppes =
    if existsb (fun p => in_range p r && deleted vs p) ppes then Err InvalidBackgroundVariant else Ok tt.
Proof.
  intros Hr Hwf Hg. induction ppes as [|p ps IH]; [reflexivity|]. cbn [check_liftable existsb].
  destruct (Z_lt_ge_dec p (rs r)) as [Hlt|Hge].
  - rewrite (ref_to_alt_before g r vs Hg p None Hlt). cbn [bind].
    replace (in_range p r) with false by (unfold in_range; lia). cbn [andb orb]. exact IH.
  - destruct (Z_le_gt_dec p (re r)) as [Hle|Hgt].
    + rewrite (ref_to_alt_refines g r vs Hwf Hg p) by lia. cbn [bind]. unfold r2a.
      replace (in_range p r) with true by (unfold in_range; lia). cbn [andb].
      destruct (deleted vs p); cbn [orb]; [reflexivity | exact IH].
    + replace (in_range p r) with false by (unfold in_range; lia). cbn [andb orb].
      unfold ref_to_alt_position, g_start, g_ref_length. rewrite (gf_range _ _ _ Hg).
      replace (p - rs r <? 0) with false by lia. replace (p - rs r <? rlen r) with false by (unfold rlen; lia).
      cbn [bind]. exact IH.
Qed.
