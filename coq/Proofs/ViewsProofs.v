(* C07: the range filter of v_meta selects exactly the edits spanned by the mutation or sharing a codon slot with
   its first or last base, given at most one edit per codon slot (the primary key of targeton_exon_codon_ppes). *)
From VV Require Import Model.Base Model.Pattern Model.Views Proofs.BaseLemmas Proofs.TargetonProofs.

Section RangeFilter.
  Variable S : Type.
  Variable slot : Z -> option S.          (* (exon index, codon index) of a position, None outside the exons *)
  Variable ps : list Z.                   (* positions of the edits registered for the targeton *)
  Variables (start end_ : Z) (sp ep : option Z).

  (* codon slots are contiguous *)
  Hypothesis contig : forall p q r, p <= q <= r -> slot p = slot r -> slot p <> None -> slot q = slot p.
  (* primary key: at most one registered edit per slot *)
  Hypothesis pk : forall x y, In x ps -> In y ps -> slot x = slot y -> slot x <> None -> x = y.
  (* the two left joins on v_exon_codon_ppes: the edit registered for the slot of the first / last base *)
  Hypothesis sp_spec : forall x, sp = Some x <-> In x ps /\ slot x = slot start /\ slot start <> None.
  Hypothesis ep_spec : forall x, ep = Some x <-> In x ps /\ slot x = slot end_ /\ slot end_ <> None.
  Hypothesis Hse : start <= end_.

  Definition lo := match sp with Some x => x | None => start end.
  Definition hi := match ep with Some x => x | None => end_ end.

  Definition selected (x : Z) : Prop :=
    start <= x <= end_ \/ (slot x <> None /\ (slot x = slot start \/ slot x = slot end_)).

  Lemma lo_cases : (sp = None /\ lo = start) \/ (exists x, sp = Some x /\ lo = x /\ In x ps /\ slot x = slot start /\ slot start <> None).
  Proof.
    unfold lo. destruct sp as [x|] eqn:E; [right|left; auto].
    exists x. destruct (proj1 (sp_spec x) eq_refl) as (A & B & C). auto.
  Qed.

  Lemma hi_cases : (ep = None /\ hi = end_) \/ (exists x, ep = Some x /\ hi = x /\ In x ps /\ slot x = slot end_ /\ slot end_ <> None).
  Proof.
    unfold hi. destruct ep as [x|] eqn:E; [right|left; auto].
    exists x. destruct (proj1 (ep_spec x) eq_refl) as (A & B & C). auto.
  Qed.

  Theorem range_filter_is_spec x : In x ps -> (lo <= x <= hi <-> selected x).
  Proof.
    intros Hx. unfold selected. split.
    - intros [Hlo Hhi].
      destruct (Z_lt_le_dec x start) as [Hlt|Hge].
      + (* before the mutation: lo is an edit of the start codon at or before x *)
        destruct lo_cases as [[_ E]|(y & _ & E & Hy & Hs & Hn)]; [lia|].
        right. assert (Hq : slot x = slot y) by (apply contig with (r := start); [lia|congruence|congruence]).
        split; [congruence|left; congruence].
      + destruct (Z_le_gt_dec x end_) as [Hle|Hgt]; [left; lia|].
        destruct hi_cases as [[_ E]|(y & _ & E & Hy & Hs & Hn)]; [lia|].
        right. assert (Hq : slot x = slot end_) by (apply contig with (r := y); [lia|congruence|assumption]).
        split; [congruence|right; assumption].
    - intros [Hin|[Hn [Hs|He]]].
      + (* spanned by the mutation *)
        split.
        * destruct lo_cases as [[_ E]|(y & _ & E & Hy & Hs & Hn)]; [lia|].
          destruct (Z_le_gt_dec y x) as [|Hgt]; [lia|exfalso].
          assert (Hq : slot x = slot start) by (apply contig with (r := y); [lia|congruence|assumption]).
          assert (x = y) by (apply pk; auto; congruence). lia.
        * destruct hi_cases as [[_ E]|(y & _ & E & Hy & Hs & Hn)]; [lia|].
          destruct (Z_le_gt_dec x y) as [|Hgt]; [lia|exfalso].
          assert (Hq : slot x = slot y) by (apply contig with (r := end_); [lia|congruence|congruence]).
          assert (x = y) by (apply pk; auto; congruence). lia.
      + (* shares the codon of the first base: it is the edit of the start join *)
        assert (Hsp : sp = Some x) by (apply sp_spec; repeat split; auto; congruence).
        unfold lo. rewrite Hsp. split; [lia|].
        destruct hi_cases as [[Hepn E]|(y & _ & E & Hy & Hsy & Hny)]; rewrite E.
        * destruct (Z_le_gt_dec x end_) as [|Hgt]; [assumption|exfalso].
          assert (Hq : slot end_ = slot start) by (apply contig with (r := x); [lia|congruence|congruence]).
          assert (Hep : ep = Some x) by (apply ep_spec; repeat split; auto; congruence). congruence.
        * destruct (Z_le_gt_dec x y) as [|Hgt]; [assumption|exfalso].
          destruct (Z_le_gt_dec start y) as [Hsy'|Hys].
          -- assert (Hq : slot y = slot start) by (apply contig with (r := x); [lia|congruence|congruence]).
             assert (x = y) by (apply pk; auto; congruence). lia.
          -- assert (Hq : slot start = slot y) by (apply contig with (r := end_); [lia|congruence|congruence]).
             assert (x = y) by (apply pk; auto; congruence). lia.
      + (* shares the codon of the last base *)
        assert (Hep : ep = Some x) by (apply ep_spec; repeat split; auto; congruence).
        unfold hi. rewrite Hep. split; [|lia].
        destruct lo_cases as [[Hspn E]|(y & _ & E & Hy & Hsy & Hny)]; rewrite E.
        * destruct (Z_le_gt_dec start x) as [|Hgt]; [assumption|exfalso].
          assert (Hq : slot start = slot x) by (apply contig with (r := end_); [lia|congruence|assumption]).
          assert (Hsp : sp = Some x) by (apply sp_spec; repeat split; auto; congruence). congruence.
        * destruct (Z_le_gt_dec y x) as [|Hgt]; [assumption|exfalso].
          destruct (Z_le_gt_dec y end_) as [Hye|Hey].
          -- assert (Hq : slot y = slot x) by (apply contig with (r := end_); [lia|congruence|assumption]).
             assert (x = y) by (apply pk; auto; congruence). lia.
          -- assert (Hq : slot end_ = slot start) by (apply contig with (r := y); [lia|congruence|assumption]).
             assert (x = y) by (apply pk; auto; congruence). lia.
  Qed.
End RangeFilter.

(* ---- codon slots of a well-formed exon table are contiguous ---- *)
Definition slot_of (exons : list exon_row) (p : Z) : option (Z * Z) :=
  match exon_at exons p with Some e => Some (e_index e, codon_index (e_fcs e) p) | None => None end.

Definition exons_wf (exons : list exon_row) : Prop :=
  (forall e, In e exons -> e_fcs e <= e_start e \/ e_end e <= e_fcs e) /\        (* first codon start on the 5' side *)
  (forall e1 e2, In e1 exons -> In e2 exons -> e_index e1 = e_index e2 -> e1 = e2) /\    (* unique exon_index *)
  (forall e1 e2 p, In e1 exons -> In e2 exons -> e_start e1 <= p <= e_end e1 -> e_start e2 <= p <= e_end e2 -> e1 = e2).  (* disjoint *)

Lemma exon_at_Some exons p e : exon_at exons p = Some e -> In e exons /\ e_start e <= p <= e_end e.
Proof.
  unfold exon_at. intros H. apply find_some in H. destruct H as [Hin Hb]. apply andb_true_iff in Hb.
  destruct Hb as [A B]. apply Z.leb_le in A, B. auto.
Qed.

Lemma exon_at_of_In exons p e : exons_wf exons -> In e exons -> e_start e <= p <= e_end e -> exon_at exons p = Some e.
Proof.
  intros (_ & _ & Hdis) Hin Hp. unfold exon_at.
  destruct (find (fun e0 => (e_start e0 <=? p) && (p <=? e_end e0)) exons) as [e'|] eqn:E.
  - apply find_some in E. destruct E as [Hin' Hb]. apply andb_true_iff in Hb. destruct Hb as [A B]. apply Z.leb_le in A, B.
    f_equal. apply (Hdis e' e p); auto.
  - exfalso. apply (find_none _ _ E) in Hin. apply andb_false_iff in Hin.
    destruct Hin as [H|H]; [apply Z.leb_gt in H|apply Z.leb_gt in H]; lia.
Qed.

Lemma codon_index_between fcs p q r : (fcs <= p \/ r <= fcs) -> p <= q <= r ->
  codon_index fcs p = codon_index fcs r -> codon_index fcs q = codon_index fcs p.
Proof.
  unfold codon_index. intros Hside Hq Heq.
  destruct Hside as [H|H].
  - rewrite !Z.abs_eq in * by lia.
    assert ((p - fcs) / 3 <= (q - fcs) / 3) by (apply Z.div_le_mono; lia).
    assert ((q - fcs) / 3 <= (r - fcs) / 3) by (apply Z.div_le_mono; lia). lia.
  - rewrite !Z.abs_neq in * by lia.
    assert (- (r - fcs) / 3 <= - (q - fcs) / 3) by (apply Z.div_le_mono; lia).
    assert (- (q - fcs) / 3 <= - (p - fcs) / 3) by (apply Z.div_le_mono; lia). lia.
Qed.

Theorem slots_contiguous exons : exons_wf exons ->
  forall p q r, p <= q <= r -> slot_of exons p = slot_of exons r -> slot_of exons p <> None -> slot_of exons q = slot_of exons p.
Proof.
  intros Hwf p q r Hq Heq Hn. pose proof Hwf as (Hside & Hidx & Hdis). unfold slot_of in *.
  destruct (exon_at exons p) as [e1|] eqn:E1; [|congruence].
  destruct (exon_at exons r) as [e2|] eqn:E2; [|discriminate].
  injection Heq as Hi Hc.
  destruct (exon_at_Some _ _ _ E1) as [In1 R1]. destruct (exon_at_Some _ _ _ E2) as [In2 R2].
  assert (e1 = e2) by (apply Hidx; auto). subst e2.
  rewrite (exon_at_of_In exons q e1 Hwf In1) by lia. f_equal. f_equal.
  apply codon_index_between with (r := r); auto.
  destruct (Hside e1 In1); [left|right]; lia.
Qed.
