(* MetaRow's span properties as translated from meta_row.py (Generated/KernelsMetaRow.v) are the expressions of the to_csv model. *)
From VV Require Import Model.Base Model.Pattern Model.Seq Model.Vcf Model.Mave Model.Gpo Model.ToCsv Generated.KernelsMetaRow.

Lemma k_mr_pam_ref_start_eq mr : k_mr_pam_ref_start mr = Ok (opt_min (mr_alt_pos mr) (mr_start_ppe mr)).
Proof. unfold k_mr_pam_ref_start, opt_min. destruct (mr_start_ppe mr); reflexivity. Qed.

Lemma k_mr_pam_ref_end_eq mr : k_mr_pam_ref_end mr = Ok (opt_max (mr_end mr) (mr_end_ppe mr)).
Proof. unfold k_mr_pam_ref_end, opt_max. destruct (mr_end_ppe mr); reflexivity. Qed.

Lemma k_mr_overlaps_codon_eq mr : k_mr_overlaps_codon mr = Ok (is_some (mr_start_exon mr) || is_some (mr_end_exon mr)).
Proof. unfold k_mr_overlaps_codon, is_some. destruct (mr_start_exon mr), (mr_end_exon mr); reflexivity. Qed.

Lemma k_mr_pam_ref_range_eq mr :
  k_mr_pam_ref_range mr = mk_range (opt_min (mr_alt_pos mr) (mr_start_ppe mr)) (opt_max (mr_end mr) (mr_end_ppe mr)).
Proof.
  unfold k_mr_pam_ref_range. rewrite k_mr_pam_ref_start_eq, k_mr_pam_ref_end_eq. cbn [bind].
  destruct (mk_range (opt_min (mr_alt_pos mr) (mr_start_ppe mr)) (opt_max (mr_end mr) (mr_end_ppe mr))); reflexivity.
Qed.

Lemma k_mr_alt_ref_range_eq mr : k_mr_alt_ref_range mr = mk_range (mr_alt_pos mr) (mr_end mr).
Proof. unfold k_mr_alt_ref_range. destruct (mk_range (mr_alt_pos mr) (mr_end mr)); reflexivity. Qed.
