"""Materialise abstract SGE/cDNA designs as input files, run VaLiAnT on them, parse what it wrote.

A design is a plain JSON-serialisable dict (see DESIGN.md, appendix C); everything needed to
re-create the input files is in it, so a replay file only has to carry the design.
"""
from __future__ import annotations

import io
import json
import logging
import os
import shutil
import subprocess
import sys
import tempfile
import traceback

from . import common

TARGETON_HEADER = ['ref_chr', 'ref_strand', 'ref_start', 'ref_end', 'r2_start', 'r2_end',
                   'ext_vector', 'action_vector', 'sgrna_vector']
CDNA_HEADER = ['seq_id', 'targeton_start', 'targeton_end', 'r2_start', 'r2_end', 'action_vector']
ANNOT_HEADER = ['seq_id', 'gene_id', 'transcript_id', 'cds_start', 'cds_end']


# ---------------------------------------------------------------- writing inputs

def _write(fp: str, text: str, bom: bool = False) -> None:
    with open(fp, 'w', encoding='utf-8-sig' if bom else None) as fh:     # utf-8-sig: a byte-order mark first (the loaders sniff the encoding)
        fh.write(text)


def write_fasta(fp: str, seqs: dict[str, str], width: int = 60) -> None:
    import pysam
    with open(fp, 'w') as fh:
        for name, s in seqs.items():
            fh.write(f'>{name}\n')
            for i in range(0, len(s), width):
                fh.write(s[i:i + width] + '\n')
    pysam.faidx(fp)


def vcf_text(contigs: dict[str, int], records: list[dict], info_tags: list[str], tag_types: dict | None = None, tag_numbers: dict | None = None) -> str:
    lines = ['##fileformat=VCFv4.2']
    for c, n in contigs.items():
        lines.append(f'##contig=<ID={c},length={n}>')
    for t in info_tags:
        lines.append(f'##INFO=<ID={t},Number={(tag_numbers or {}).get(t, 1)},Type={(tag_types or {}).get(t, "String")},Description="{t}">')
    lines.append('#CHROM\tPOS\tID\tREF\tALT\tQUAL\tFILTER\tINFO')
    for r in records:
        alts = r.get('alts')
        alt = ','.join(alts) if alts else '.'
        info = ';'.join(f'{k}={v}' for k, v in (r.get('info') or {}).items()) or '.'
        lines.append('\t'.join([
            r.get('contig', next(iter(contigs))), str(r['pos']), r.get('id') or '.',
            r['ref'], alt, '.', '.', info]))
    return '\n'.join(lines) + '\n'


def targeton_row(contig: str, strand: str, t: dict) -> list[str]:
    if 'raw' in t:
        return list(t['raw'])
    action = t.get('action_raw')
    if action is None:
        action = ', '.join('(' + g + ')' for g in t['action'])
    ext = t.get('ext_raw')
    if ext is None:
        ext = f"{t['ext'][0]}, {t['ext'][1]}"
    sg = t.get('sgrna_raw')
    if sg is None:
        sg = ', '.join(t.get('sgrna') or [])
    return [t.get('contig', contig), t.get('strand', strand), str(t['ref_start']), str(t['ref_end']),
            str(t['r2_start']), str(t['r2_end']), ext, action, sg]


def gtf_text(contig: str, strand: str, g: dict) -> str:
    lines = []
    attrs = []
    if g.get('gene_id') is not None:
        attrs.append(f'gene_id "{g["gene_id"]}"')
    if g.get('transcript_id') is not None:
        attrs.append(f'transcript_id "{g["transcript_id"]}"')
    attr = '; '.join(attrs) + (';' if attrs else '')
    feats = [('CDS', s, e, str(f)) for s, e, f in g['cds']] + [('UTR', s, e, '.') for s, e in g.get('utr', [])]
    order = g.get('order')
    if order:
        feats = [feats[i] for i in order]
    for ft, s, e, f in feats:
        lines.append('\t'.join([g.get('contig', contig), 'verif', ft, str(s), str(e), '.', g.get('strand', strand), f, attr]))
    for extra in g.get('extra_lines', []):
        lines.append('\t'.join(map(str, extra)))
    return '\n'.join(lines) + '\n'


def materialise(d: dict, root: str, out_name: str = 'out') -> list[str]:
    """Write the input files of design `d` under `root`; return the valiant argv."""
    os.makedirs(os.path.join(root, out_name), exist_ok=True)
    o = d.get('opts', {})
    if d['mode'] == 'sge':
        contig = d['contig']
        seqs = {contig: d['ref']}
        seqs.update(d.get('extra_contigs') or {})
        # clone_contig: the whole design repeated on a second contig with the same sequence and its own gene (every record of every
        # input file once more under the other contig name)
        c2 = d.get('clone_contig')
        if c2:
            seqs[c2] = d['ref']
        contig_lens = {k: len(v) for k, v in seqs.items()}
        write_fasta(os.path.join(root, 'ref.fa'), seqs)
        rows = [TARGETON_HEADER if 'targeton_header' not in d else d['targeton_header']]
        rows += [targeton_row(contig, d['strand'], t) for t in d['targetons']]
        if c2:
            rows += [targeton_row(c2, d['strand'], t) for t in d['targetons']]

        def both(recs):
            return list(recs) + ([dict(r, contig=c2) for r in recs if r.get('contig', contig) == contig] if c2 else [])
        bom = set(d.get('bom') or [])        # text inputs written with a byte-order mark: 'targetons', 'gtf', 'manifest', 'mask'
        _write(os.path.join(root, 'targetons.tsv'), ''.join('\t'.join(r) + '\n' for r in rows), 'targetons' in bom)
        argv = ['sge', os.path.join(root, 'targetons.tsv'), os.path.join(root, 'ref.fa'),
                os.path.join(root, out_name), d.get('species', 'sp'), d.get('assembly', 'asm')]
        if d.get('gtfs'):       # several transcripts (harness/merge.py)
            _write(os.path.join(root, 'annot.gtf'), ''.join(gtf_text(c_, s_, g_) for c_, s_, g_ in d['gtfs']), 'gtf' in bom)
            argv += ['--gff', os.path.join(root, 'annot.gtf')]
        elif d.get('gtf'):
            gt = gtf_text(contig, d['strand'], d['gtf'])
            if c2:
                g2 = dict(d['gtf'], gene_id=(d['gtf']['gene_id'] + '_2' if d['gtf'].get('gene_id') else d['gtf'].get('gene_id')),
                          transcript_id=(d['gtf']['transcript_id'] + '_2' if d['gtf'].get('transcript_id') else d['gtf'].get('transcript_id')))
                gt += gtf_text(c2, d['strand'], g2)
            _write(os.path.join(root, 'annot.gtf'), gt, 'gtf' in bom)
            argv += ['--gff', os.path.join(root, 'annot.gtf')]
        if d.get('pam') is not None:
            recs = [{'pos': p['pos'], 'ref': p['ref'], 'alts': [p['alt']], 'contig': p.get('contig', contig),
                     'info': ({'SGRNA': p.get('sgrna_raw', p['sgrna'])} if p.get('sgrna') is not None else {})} for p in d['pam']]
            _write(os.path.join(root, 'pam.vcf'), vcf_text(contig_lens, both(recs), ['SGRNA']))
            argv += ['--pam', os.path.join(root, 'pam.vcf')]
        if d.get('vcfs') is not None:
            man = [d.get('manifest_header', ['vcf_alias', 'vcf_id_tag', 'vcf_path'])]
            order = d.get('manifest_order') or list(range(len(d['vcfs'])))
            for i in order:
                v = d['vcfs'][i]
                fp = os.path.join(root, f'custom_{i}.vcf')
                if not v.get('missing'):
                    tags = list(v.get('declared_tags') if v.get('declared_tags') is not None else
                                ([v['id_tag']] if v.get('id_tag') else []))
                    _write(fp, vcf_text(contig_lens, both(v['records']), tags, {v['id_tag']: v['id_type']} if v.get('id_tag') and v.get('id_type') else None,
                                        {v['id_tag']: v['id_number']} if v.get('id_tag') and v.get('id_number') else None))
                    if v.get('indexed'):
                        import pysam
                        pysam.tabix_index(fp, preset='vcf', force=True)      # -> fp.gz (bgzip) + fp.gz.tbi; the plain file is removed
                        fp += '.gz'
                man.append([v['alias'], v.get('id_tag') or '', fp])
            _write(os.path.join(root, 'manifest.csv'), ''.join(','.join(r) + '\n' for r in man), 'manifest' in bom)
            argv += ['--vcf', os.path.join(root, 'manifest.csv')]
        if d.get('bg') is not None:
            _write(os.path.join(root, 'bg.vcf'), vcf_text(contig_lens, both(d['bg']), []))
            argv += ['--bg', os.path.join(root, 'bg.vcf')]
        if d.get('mask') is not None:
            _write(os.path.join(root, 'mask.bed'), ''.join('\t'.join(map(str, r)) + '\n' for r in list(d['mask']) + ([[c2] + list(r[1:]) for r in d['mask'] if r[0] == contig] if c2 else [])), 'mask' in bom)
            argv += ['--bg-mask', os.path.join(root, 'mask.bed')]
        if o.get('revcomp'):
            argv.append('--revcomp-minus-strand')
        if o.get('no_op'):
            argv.append('--include-no-op-oligo')
        if o.get('force_ns'):
            argv.append('--force-bg-ns')
        if o.get('force_fs'):
            argv.append('--force-bg-indels')
        if o.get('sequences_only'):
            argv.append('--sequences-only')
    else:
        write_fasta(os.path.join(root, 'cdna.fa'), d['seqs'])
        rows = [d.get('targeton_header', CDNA_HEADER)]
        for t in d['targetons']:
            rows.append(list(t['raw']) if 'raw' in t else [
                t['seq_id'], str(t['ref_start']), str(t['ref_end']), str(t['r2_start']), str(t['r2_end']),
                t.get('action_raw', ', '.join(t['action']) if isinstance(t['action'], list) else t['action'])])
        _write(os.path.join(root, 'targetons.tsv'), ''.join('\t'.join(r) + '\n' for r in rows))
        argv = ['cdna', os.path.join(root, 'targetons.tsv'), os.path.join(root, 'cdna.fa'),
                os.path.join(root, out_name), d.get('species', 'sp'), d.get('assembly', 'asm')]
        if d.get('annot') is not None:
            rows = [d.get('annot_header', ANNOT_HEADER)] + [[str(x) if x is not None else '' for x in r] for r in d['annot']]
            _write(os.path.join(root, 'annot.tsv'), ''.join('\t'.join(r) + '\n' for r in rows))
            argv += ['--annot', os.path.join(root, 'annot.tsv')]
    if d.get('codon_table') is not None:
        _write(os.path.join(root, 'codons.csv'), ''.join(','.join(map(str, r)) + '\n' for r in d['codon_table']))
        argv += ['--codon-table', os.path.join(root, 'codons.csv')]
    if o.get('adaptor5') is not None:
        argv += ['--adaptor-5', o['adaptor5']]
    if o.get('adaptor3') is not None:
        argv += ['--adaptor-3', o['adaptor3']]
    if o.get('min_length') is not None:
        argv += ['--min-length', str(o['min_length'])]
    if o.get('max_length') is not None:
        argv += ['--max-length', str(o['max_length'])]
    return argv


# ---------------------------------------------------------------- running

class _ListHandler(logging.Handler):
    def __init__(self):
        super().__init__(level=logging.DEBUG)
        self.records: list[tuple[str, str]] = []

    def emit(self, record):
        try:
            self.records.append((record.levelname, record.getMessage()))
        except Exception:
            self.records.append((record.levelname, str(record.msg)))


_handler = None


def _ensure_logging() -> _ListHandler:
    global _handler
    root = logging.getLogger()
    if _handler is None:
        _handler = _ListHandler()
    if _handler not in root.handlers:
        for h in list(root.handlers):
            root.removeHandler(h)
        root.addHandler(_handler)
    root.setLevel(logging.WARNING)
    return _handler


def classify_exc(exc) -> str | None:
    if exc is None:
        return None
    return type(exc).__name__


def read_outputs(out_dir: str) -> dict[str, str]:
    files = {}
    for fn in sorted(os.listdir(out_dir)):
        fp = os.path.join(out_dir, fn)
        if os.path.isfile(fp):
            with open(fp, newline='') as fh:
                files[fn] = fh.read()
    return files


def run_argv_inproc(argv: list[str], out_dir: str) -> dict:
    """Run `valiant <argv>` in this process through click's test runner."""
    common.use_repo()
    from click.testing import CliRunner
    h = _ensure_logging()
    h.records.clear()
    from valiant import cli  # imported late: sys.path must point at the tree under test
    try:
        res = CliRunner().invoke(cli.main, argv, catch_exceptions=True)
        exc = res.exception if not isinstance(res.exception, SystemExit) else None
        code = res.exit_code
        tb = ''.join(traceback.format_exception(*res.exc_info)) if exc is not None and res.exc_info else ''
        stdout = res.output
    except BaseException as ex:  # the runner itself failed
        exc, code, tb, stdout = ex, 1, traceback.format_exc(), ''
    return {
        'exit': code,
        'exc': classify_exc(exc),
        'exc_msg': (str(getattr(exc, 'msg', '') or exc) if exc is not None else ''),
        'traceback': tb[-3000:],
        'stdout': stdout[-2000:],
        'log': list(h.records),
        'files': read_outputs(out_dir),
    }


def run_argv_subproc(argv: list[str], out_dir: str, env_extra: dict | None = None, timeout: int = 300) -> dict:
    env = dict(os.environ)
    env['PYTHONPATH'] = common.SRC
    env[common.GUARD] = '1'
    env.setdefault('PYTHONHASHSEED', '0')
    env.update(env_extra or {})
    p = subprocess.run([common.PY, '-m', 'valiant'] + argv, env=env, capture_output=True, text=True, timeout=timeout)
    log = []
    for line in p.stderr.splitlines():
        for lvl in ('CRITICAL', 'ERROR', 'WARNING', 'INFO'):
            if line.startswith(lvl + ':'):
                log.append((lvl, line.split(':', 2)[-1]))
    exc = None
    if 'Traceback (most recent call last)' in p.stderr:
        last = [ln for ln in p.stderr.strip().splitlines() if ln and not ln.startswith(' ')]
        exc = last[-1].split(':')[0].split('.')[-1] if last else 'Exception'
    return {'exit': p.returncode, 'exc': exc, 'exc_msg': p.stderr[-500:] if exc else '', 'traceback': p.stderr[-3000:] if exc else '',
            'stdout': p.stdout[-2000:], 'stderr': p.stderr[-4000:], 'log': log, 'files': read_outputs(out_dir)}


def run_design(d: dict, how: str = 'inproc', env_extra: dict | None = None, keep: str | None = None) -> dict:
    root = keep or tempfile.mkdtemp(prefix='vv_', dir=common.scratch_root())
    try:
        argv = materialise(d, root)
        out_dir = os.path.join(root, 'out')
        if how == 'inproc':
            r = run_argv_inproc(argv, out_dir)
        else:
            r = run_argv_subproc(argv, out_dir, env_extra)
        r['argv'] = [a.replace(root, '$ROOT') for a in argv]
        return r
    finally:
        if not keep:
            shutil.rmtree(root, ignore_errors=True)


# ---------------------------------------------------------------- parsing outputs

def parse_meta(text: str) -> tuple[list[str], list[dict], list[list[str]]]:
    """-> (header fields, rows as dicts keyed by header, raw field lists)."""
    lines = text.split('\n')
    if lines and lines[-1] == '':
        lines.pop()
    header = lines[0].split(',') if lines else []
    raw = [ln.split(',') for ln in lines[1:]]
    rows = [dict(zip(header, r)) for r in raw]
    return header, rows, raw


def parse_vcf(text: str) -> tuple[list[str], list[dict]]:
    header, recs = [], []
    for ln in text.split('\n'):
        if not ln:
            continue
        if ln.startswith('#'):
            header.append(ln)
            continue
        f = ln.split('\t')
        info = {}
        if f[7] != '.':
            for kv in f[7].split(';'):
                k, _, v = kv.partition('=')
                info[k] = v
        recs.append({'chrom': f[0], 'pos': int(f[1]), 'id': f[2], 'ref': f[3], 'alt': f[4], 'info': info})
    return header, recs


def targeton_names(files: dict[str, str]) -> list[str]:
    names = set()
    for fn in files:
        for suf in ('_meta.csv', '_meta_excluded.csv', '_unique.csv', '_ref.vcf', '_pam.vcf'):
            if fn.endswith(suf):
                names.add(fn[:-len(suf)])
    return sorted(names)


def all_meta_rows(files: dict[str, str], name: str) -> list[dict]:
    rows = []
    for suf, inc in (('_meta.csv', True), ('_meta_excluded.csv', False)):
        fn = name + suf
        if fn in files:
            _, rs, _ = parse_meta(files[fn])
            for r in rs:
                r['_included'] = inc
            rows += rs
    return rows


def sge_targeton_name(contig: str, strand: str, t: dict) -> str:
    base = f"{contig}_{t['ref_start']}_{t['ref_end']}_{'plus' if strand == '+' else 'minus'}"
    ids = sorted(set(t.get('sgrna') or []))
    return '_'.join([base] + ids)
