"""Two SGE designs in one run: on two contigs, or one after the other on the same contig (coordinates of the second shifted)."""
from __future__ import annotations

import copy


def merge_designs(a: dict, b: dict, same_contig: bool) -> dict:
    """-> a design dict in the extended form understood by sge.materialise: targetons, PAM / custom / background records carry their own
    `contig` (and targetons their `strand`), `gtfs` lists (contig, strand, gtf) per transcript.  Options, codon table and manifest layout are a's."""
    a, b = copy.deepcopy(a), copy.deepcopy(b)
    d = {k: v for k, v in a.items() if k not in ('gtf',)}
    ca = a['contig']
    if same_contig:
        off, cb = len(a['ref']), ca
        d['ref'] = a['ref'] + b['ref']
        d['extra_contigs'] = {}
    else:
        off, cb = 0, 'chr2'
        d['extra_contigs'] = {cb: b['ref']}
    for t in b['targetons']:
        for k in ('ref_start', 'ref_end', 'r2_start', 'r2_end'):
            t[k] += off
        t['contig'], t['strand'] = cb, b['strand']
    for t in d['targetons']:
        t.setdefault('strand', a['strand'])
    d['targetons'] = d['targetons'] + b['targetons']
    d['gtfs'] = []
    if a.get('gtf'):
        d['gtfs'].append((ca, a['strand'], a['gtf']))
    if b.get('gtf'):
        g = b['gtf']
        g = dict(g, cds=[[s + off, e + off, f] for s, e, f in g['cds']], utr=[[s + off, e + off] for s, e in g.get('utr', [])],
                 gene_id=(g['gene_id'] + 'b' if g.get('gene_id') else g.get('gene_id')),
                 transcript_id=(g['transcript_id'] + 'b' if g.get('transcript_id') else g.get('transcript_id')))
        d['gtfs'].append((cb, b['strand'], g))
    if a.get('pam') is not None or b.get('pam') is not None:
        d['pam'] = list(a.get('pam') or []) + [dict(p, pos=p['pos'] + off, contig=cb) for p in (b.get('pam') or [])]
    if a.get('bg') is not None or b.get('bg') is not None:
        d['bg'] = list(a.get('bg') or []) + [dict(r, pos=r['pos'] + off, contig=cb, id=(r.get('id') or 'bg') + 'b') for r in (b.get('bg') or [])]
    if a.get('vcfs') is not None or b.get('vcfs') is not None:
        va, vb = a.get('vcfs') or [], b.get('vcfs') or []
        out = copy.deepcopy(va)
        for i, f in enumerate(vb):
            recs = [dict(r, pos=r['pos'] + off, contig=cb) for r in f['records'] if r.get('contig', b['contig']) == b['contig']]
            if i < len(out) and out[i].get('id_tag') == f.get('id_tag'):
                out[i]['records'] = out[i]['records'] + recs
            else:
                out.append(dict(f, alias=f['alias'] + 'b', records=recs))
        d['vcfs'] = out
        d.pop('manifest_order', None)
    if a.get('mask') is not None or b.get('mask') is not None:
        d['mask'] = list(a.get('mask') or []) + [[cb, r[1] + off, r[2] + off] for r in (b.get('mask') or []) if r[0] == b['contig']]
    return d
