"""Shared machinery of the C03 / C04 checks: S-api adaptor over Transcript.get_cds_seq + MutatorCollection.get_variants,
Coq terms for Model/MutatorsGlue.region_rows, and the file-surface walk over coding regions."""
from __future__ import annotations

import re

from . import codonspec, common, gen, sge
from .runner import coq_dna, coq_list, coq_opt, coq_str, coq_z

IMPORTS = ['Model.Base', 'Model.Pattern', 'Model.Seq', 'Model.CodonTable', 'Model.Transcript', 'Model.Mutators', 'Model.MutatorsGlue']
CODON_LABELS = ('inframe', 'ala', 'stop', 'aa', 'snvre')
ANNOT_LABELS = ('snv', 'snvre', 'ala', 'stop', 'aa')
ERRMAP = {'ValueError': 'ValueError', 'AssertionError': 'AssertionError', 'IndexError': 'IndexError', 'KeyError': 'KeyError',
          'CodonNotFound': 'KeyError'}
DEL_RE = re.compile(r'^(\d+)del(\d*)$')


def rank_of(s: str) -> int:
    return 1 if s[4:] in ('U', 'T', 'UT') else int(s[4:])


def table_rows(d: dict):
    rows = d.get('codon_table') or gen.load_default_table()
    return [(r[0], r[1], rank_of(r[3])) for r in rows]


def coq_table(rows, rc: bool) -> str:
    body = coq_list(f'mkRow {coq_dna(c)} {coq_str(a)} {coq_z(k)}' for c, a, k in rows)
    return f'(from_list {body} {"true" if rc else "false"})'


def numbered(exons, strand: str):
    """[(start, end, index, frame)] sorted by start; index = exon number in transcript order."""
    n = len(exons)
    return [(s, e, (i if strand == '+' else n - 1 - i), f) for i, (s, e, f) in enumerate(sorted(exons))]


def coq_transcript(exons, strand: str) -> str:
    ex = coq_list(f'mkEx {s} {e} {i} {f}' for s, e, i, f in numbered(exons, strand))
    return f'(mkTr {"Plus" if strand == "+" else "Minus"} {ex})'


def coq_mkind(m: str) -> str:
    mm = DEL_RE.match(m)
    if mm:
        return f'(MDelK {int(mm.group(1))} {int(mm.group(2) or 0)})'
    return {'snv': 'MSnv', 'snvre': 'MSnvRe', 'inframe': 'MInframe', 'ala': 'MAla', 'stop': 'MStop', 'aa': 'MAa'}[m]


def coq_crows(rows) -> str:
    return coq_list(f'mkC {coq_str(l)} {coq_z(p)} {coq_dna(r)} {coq_dna(a)} {coq_str(x)} {coq_str(y)} {coq_str(t)}'
                    for l, p, r, a, x, y, t in rows)


def coq_impl(res) -> str:
    return f'(Err {res[1]})' if res[0] == 'err' else f'(Ok {coq_crows(res[1])})'


def region_expr(tbl: str, tr: str, seq_start: int, seq: str, exon_number, lo: int, hi: int, muts, impl) -> str:
    return (f'rows_agree (region_rows {tbl} {tr} (mkSeq {seq_start} {coq_dna(seq)}) {coq_opt(coq_z(exon_number) if exon_number is not None else None)} '
            f'(mkRange {lo} {hi}) {coq_list(coq_mkind(m) for m in muts)}) {coq_impl(impl)}')


# ---------------------------------------------------------------- S-api

def api_region(args):
    """(strand, exons[(s,e,f)], seq (start 1), lo, hi, exon_number|None, muts, table rows|None) -> ('ok', rows) | ('err', kind)."""
    strand, exons, seq, lo, hi, exon_number, muts, trows = args
    from valiant.codon_table import CodonTable
    from valiant.codon_table_row import CodonTableRow
    from valiant.exon import Exon
    from valiant.loaders.mutator_config import MutatorConfig
    from valiant.mutator import MutatorCollection
    from valiant.seq import Seq
    from valiant.strings.codon import Codon
    from valiant.strings.dna_str import DnaStr
    from valiant.strings.strand import Strand
    from valiant.strings.translation_symbol import TranslationSymbol
    from valiant.transcript import Transcript
    from valiant.transcript_info import TranscriptInfo
    from valiant.uint_range import UIntRange, UIntRangeSortedList
    try:
        st = Strand(strand)
        rows = trows if trows is not None else [(r[0], r[1], rank_of(r[3])) for r in gen.load_default_table()]
        tb = CodonTable.from_list([CodonTableRow(Codon(c), TranslationSymbol(a), k) for c, a, k in rows], rc=st.is_minus)
        tr = Transcript(TranscriptInfo('chr1', st, 'G', 'T'),
                        UIntRangeSortedList([Exon(s, e, i, f) for s, e, i, f in numbered(exons, strand)]))
        q = Seq(1, DnaStr(seq))
        r = UIntRange(lo, hi)
        mc = MutatorCollection.from_configs([MutatorConfig.parse(m) for m in muts])
        r_seq = tr.get_cds_seq(q, exon_number, r) if exon_number is not None else q.subseq(r, rel=False)
        vs, avs = mc.get_variants(tb, r_seq)
        out = []
        for v in vs:
            if v.pos in r and v.ref_end in r:
                out.append((v.mutator, v.pos, str(v.ref), str(v.alt), '', '', ''))
        for v in avs:
            if v.pos in r and v.ref_end in r:
                out.append((v.src, v.pos, str(v.ref), str(v.alt), str(v.aa_ref), str(v.aa_alt), v.mutation_type.value))
        return ('ok', out)
    except Exception as ex:
        return ('err', ERRMAP.get(type(ex).__name__, 'OtherErr'))


def oracle_rows(strand, exons, seq, lo, hi, exon_number, muts, trows):
    """What C03 + C04 promise for a region, as canonical rows (codon-level mutators and snv), or None when the
    region touches a codon cut by the transcript start/end (outside the quantifier)."""
    tb = codonspec.Table([[c, a, 0, f'RANK{k}'] for c, a, k in trows]) if trows is not None else codonspec.Table()
    fr = codonspec.Frame(sorted(exons), strand)
    G = lambda p: seq[p - 1]
    ms = set(muts)
    rows = []
    if exon_number is None:
        return None
    exp = codonspec.region_expected(fr, tb, G, lo, hi, ms)
    for lab, trip in exp.items():
        for p, r, a in trip:
            if lab == 'inframe':
                rows.append((lab, p, r, a, '', '', ''))
            else:
                an = codonspec.annotate_expected(fr, tb, G, p, r, a)
                rows.append((lab, p, r, a) + an)
    if 'snv' in ms or 'snvre' in ms:
        for p in range(lo, hi + 1):
            for y in 'ACGT':
                if y != G(p):
                    an = codonspec.annotate_expected(fr, tb, G, p, G(p), y)
                    if an is None:
                        return None
                    rows.append(('snv', p, G(p), y) + an)
    return rows


def layouts(rng, quick: bool):
    """Small transcripts: 1-3 exons of 1..7 bases separated by introns, consistent frames, both strands."""
    outs = []
    lens1 = range(3, 8)
    for strand in '+-':
        combos = [(a,) for a in lens1] + [(a, b) for a in range(1, 8) for b in range(1, 8)]
        combos += [tuple(rng.randint(1, 7) for _ in range(3)) for _ in range(20 if quick else 80)]
        if quick:
            combos = rng.sample(combos, 26)
        for lens in combos:
            tot = sum(lens)
            lens = list(lens)
            lens[-1] += (3 - tot % 3) % 3          # whole codons overall (the last one stands for the stop codon)
            pos, segs = rng.randint(4, 6), []
            for ln in lens:
                segs.append([pos, pos + ln - 1])
                pos += ln + rng.randint(1, 4)
            n = pos + 4
            order = segs if strand == '+' else list(reversed(segs))
            f, ex = 0, []
            for s, e in order:
                ex.append((s, e, f))
                f = gen.next_frame(f, e - s + 1)
            outs.append((strand, sorted(ex), gen.rand_dna(rng, n)))
    return outs


def exon_number_of(exons, strand, lo):
    for s, e, i, f in numbered(exons, strand):
        if s <= lo <= e:
            return i
    return None


# ---------------------------------------------------------------- file surface

def sge_regions(t: dict):
    a, b = t['r2_start'], t['r2_end']
    e1, e3 = t['ext']
    return [(a - e1, a - 1) if e1 else None, (a, b), (b + 1, b + e3) if e3 else None]


def parse_group(g: str) -> list[str]:
    return sorted(set(x.strip() for x in g.split(',') if x.strip()))


def canonical_label(m: str) -> str:
    mm = DEL_RE.match(m)
    if mm:
        return '1del' if int(mm.group(1)) == 1 else f'{int(mm.group(1))}del{int(mm.group(2) or 0)}'
    return m


def file_regions(d: dict, r: dict):
    """Yield (targeton, name, region (lo,hi), class, exon tuple|None, mutators, rows of the files inside the region,
    G, frame) for every non-empty region of every targeton of a successful SGE run."""
    exons = gen.exons_of(d)
    fr = codonspec.Frame(exons, d['strand']) if exons else None
    for t in d['targetons']:
        name = sge.sge_targeton_name(d['contig'], d['strand'], t)
        rows = sge.all_meta_rows(r['files'], name)
        pam_seq = next((x['pam_seq'] or x['ref_seq'] for x in rows), None)
        G = codonspec.genome_fn(d, t, pam_seq)
        for reg, grp in zip(sge_regions(t), t['action']):
            if reg is None:
                continue
            muts = parse_group(grp)
            cls = gen.region_class(exons, *reg)
            ex = gen.exon_at(exons, reg[0]) if cls == 'cds' else None
            inside = [x for x in rows if x['mutator'] != 'custom' and x['mut_position'] != '-1'
                      and reg[0] <= int(x['mut_position']) <= reg[1]]
            yield t, name, reg, cls, ex, muts, inside, G, fr


def canon_file_row(x: dict):
    return (x['mutator'], int(x['mut_position']), x['ref'], x['new'], x['ref_aa'], x['alt_aa'], x['mut_type'])
